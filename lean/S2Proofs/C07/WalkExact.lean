/-
  S2Proofs.C07.WalkExact — vocabulary and helper lemmas that connect the real tests of the walk
  (`S2.RelateWalk`) with the exact scan of `S2.Relate`:
    * `EdgesOK` (the index lists only edge ids of its loop), `wedgeWitness` (the exact wedge witness of a
      relation object = the `any`-expressions of `S2.Relate`), `CenterFires` (a centre shortcut can fire),
      `StateSound` (the flags of a relation object are justified by the exact scan);
    * the edges ending in a common vertex ↔ the entries of `Relate.sharedVertices` (`endPair`, `edgeInto`),
      the five vertices the walk passes to `wedgesCross` = the five vertices `S2.Relate` uses;
    * `wedgeAB_sound` (one wedge evaluation is sound), `realTests_sound` (all callbacks of the real walk
      are sound), `realTests_preserve_wedgeSeen` (as long as no test fires every visited shared end vertex
      has been evaluated, with answer `false`, and its flags are kept).
  The property theorems are in S2Proofs/Properties/C07_WalkSound.lean.
-/
import S2Proofs.Properties.C07_Walk
import S2Proofs.C07.WalkSoundGen
import S2Proofs.C07.WalkWedge
import S2Proofs.C07.WalkCentre
namespace S2Proofs.C07
open S2 S2.CellID S2.RelateWalk S2.Relate

set_option linter.unusedSectionVars false

section
variable {α : Type} [DecidableEq α] (G : Geo α)

/-! ### vocabulary -/

/-- the index lists only edge ids of its loop (Go: `clippedShape.edges` are edge ids of the shape) -/
def EdgesOK (A : Loop α) (IA : Index) : Prop := ∀ p, p < IA.size → ∀ i ∈ IA.edgesAt p, i < A.numEdges

instance (A : Loop α) (IA : Index) : Decidable (EdgesOK A IA) := by unfold EdgesOK; exact inferInstance

theorem EdgesOK.lt {A : Loop α} {IA : Index} (h : EdgesOK A IA) {p i : Nat} (hi : i ∈ IA.edgesAt p) : i < A.numEdges := by
  rcases Nat.lt_or_ge p IA.size with hp | hp
  · exact h p hp i hi
  · unfold Index.edgesAt at hi
    rw [dif_neg (by unfold Index.size at hp; omega)] at hi
    simp at hi

/-- the exact wedge witness of the relation object `k` (the expressions of `S2.Relate.containsWith`,
    `intersectsWith`, `compareBoundaryWith`) -/
def wedgeWitness (k : RelKind) (A B : Loop α) : Bool :=
  match k with
  | .contains => (sharedVertices G A B).any (containsWedgeCross G A B)
  | .intersects => (sharedVertices G A B).any (intersectsWedgeCross G A B)
  | .compareBoundary rev =>
    ((sharedVertices G A B).map (semiwedgeContained G A B rev)).any id &&
    ((sharedVertices G A B).map (semiwedgeContained G A B rev)).any not

/-- a centre shortcut of the walk for relation `k` can fire: two cells with meeting leaf ranges, both
    centre tests match, and the cells are equal or the larger one has no edges -/
def CenterFires (k : RelKind) (IA IB : Index) : Prop :=
  ∃ pa, pa < IA.size ∧ ∃ pb, pb < IB.size ∧ RangesMeet IA IB pa pb ∧
    containsCenterMatches (IA.ccAt pa) k.aTarget = true ∧ containsCenterMatches (IB.ccAt pb) k.bTarget = true ∧
    (rangeWidth IA pa = rangeWidth IB pb ∨ (IA.numEdgesAt pa = 0 ∧ rangeWidth IB pb < rangeWidth IA pa) ∨
      (IB.numEdgesAt pb = 0 ∧ rangeWidth IA pa < rangeWidth IB pb))

instance (k : RelKind) (IA IB : Index) : Decidable (CenterFires k IA IB) := by unfold CenterFires; exact inferInstance

theorem centerFires_compareBoundary (rev : Bool) (IA IB : Index) : ¬ CenterFires (.compareBoundary rev) IA IB := by
  rintro ⟨pa, _, pb, _, _, h, _⟩
  cases hc : IA.ccAt pa <;> rw [hc] at h <;> simp [containsCenterMatches, RelKind.aTarget] at h

/-- the flags of a relation object are justified by the exact scan -/
def StateSound (k : RelKind) (A B : Loop α) (s : RelState) : Prop :=
  (s.foundSharedVertex = true → (sharedVertices G A B).isEmpty = false) ∧
  (∀ rev, k = .compareBoundary rev →
    (s.containsEdge = true → ((sharedVertices G A B).map (semiwedgeContained G A B rev)).any id = true) ∧
    (s.excludesEdge = true → ((sharedVertices G A B).map (semiwedgeContained G A B rev)).any not = true))

/-! ### edges ending in a shared vertex ↔ shared vertices -/

theorem numEdges_pos {A : Loop α} {i : Nat} (hi : i < A.numEdges) : A.numEdges = A.vs.size ∧ 0 < A.vs.size := by
  unfold Loop.numEdges at hi ⊢
  split at hi
  · omega
  · rename_i h; rw [if_neg h]; exact ⟨rfl, by omega⟩

theorem vertex_mod_add (L : Loop α) (i k : Nat) : L.vertex G (i % L.vs.size + k) = L.vertex G (i + k) := by
  unfold Loop.vertex; rw [Nat.mod_add_mod]

theorem prev_end (L : Loop α) (i : Nat) (h : 0 < L.vs.size) : L.prev G ((i + 1) % L.vs.size) = L.vertex G i := by
  unfold Loop.prev
  have e : (i + 1) % L.vs.size + L.vs.size - 1 = (i + 1) % L.vs.size + (L.vs.size - 1) := by omega
  rw [e, vertex_mod_add]
  have e2 : i + 1 + (L.vs.size - 1) = i + L.vs.size := by omega
  rw [e2, vertex_add_size]

theorem vertex_end (L : Loop α) (i : Nat) : L.vertex G ((i + 1) % L.vs.size) = L.vertex G (i + 1) := by
  have := vertex_mod_add G L (i + 1) 0; simpa using this

theorem next_end (L : Loop α) (i : Nat) : L.next G ((i + 1) % L.vs.size) = L.vertex G (i + 2) := by
  unfold Loop.next; rw [vertex_mod_add]

/-- the shared vertex in which the edges `i` of A and `j` of B end -/
def endPair (A B : Loop α) (i j : Nat) : Nat × Nat := ((i + 1) % A.vs.size, (j + 1) % B.vs.size)

theorem endPair_mem (A B : Loop α) {i j : Nat} (hi : i < A.numEdges) (hj : j < B.numEdges) (hsh : SharedEnd G A B i j) :
    endPair A B i j ∈ sharedVertices G A B := by
  obtain ⟨ea, pa⟩ := numEdges_pos hi
  obtain ⟨eb, pb⟩ := numEdges_pos hj
  unfold endPair
  rw [mem_sharedVertices, ea, eb, vertex_end, vertex_end]
  exact ⟨Nat.mod_lt _ pa, Nat.mod_lt _ pb, hsh⟩

/-- the edge that ends in vertex `v` of a loop with `n` vertices -/
def edgeInto (n v : Nat) : Nat := if v = 0 then n - 1 else v - 1

theorem edgeInto_spec {n v : Nat} (hv : v < n) : edgeInto n v < n ∧ (edgeInto n v + 1) % n = v := by
  unfold edgeInto
  split
  · rename_i h; subst h
    refine ⟨by omega, ?_⟩
    have : n - 1 + 1 = n := by omega
    rw [this, Nat.mod_self]
  · refine ⟨by omega, ?_⟩
    have : v - 1 + 1 = v := by omega
    rw [this, Nat.mod_eq_of_lt hv]

/-- every shared vertex is the end of an edge of A and of an edge of B -/
theorem shared_is_endPair (A B : Loop α) {p : Nat × Nat} (hp : p ∈ sharedVertices G A B) :
    ∃ i j, i < A.numEdges ∧ j < B.numEdges ∧ SharedEnd G A B i j ∧ endPair A B i j = p := by
  obtain ⟨p1, p2⟩ := p
  obtain ⟨h1, h2, h3⟩ := (mem_sharedVertices A B p1 p2).mp hp
  obtain ⟨ea, _⟩ := numEdges_pos h1
  obtain ⟨eb, _⟩ := numEdges_pos h2
  obtain ⟨a1, a2⟩ := edgeInto_spec (n := A.vs.size) (v := p1) (by omega)
  obtain ⟨b1, b2⟩ := edgeInto_spec (n := B.vs.size) (v := p2) (by omega)
  refine ⟨edgeInto A.vs.size p1, edgeInto B.vs.size p2, by omega, by omega, ?_, ?_⟩
  · unfold SharedEnd
    rw [← vertex_end, ← vertex_end G B, a2, b2]; exact h3
  · unfold endPair; rw [a2, b2]

/-! ### the wedge test of the walk = the wedge test of `S2.Relate` at the shared vertex -/

/-- the wedge test of relation `k` for edge `i` of A and edge `j` of B ending in a common vertex
    (the first wedge is A's, for both crossers) -/
def wedgeAB (k : RelKind) (A B : Loop α) (i j : Nat) (s : RelState) : RelState × Bool :=
  wedgesCross G k s (A.vertex G i) (A.vertex G (i + 1)) (A.vertex G (i + 2)) (B.vertex G j) (B.vertex G (j + 2))

theorem wedgeOf_false (k : RelKind) (A B : Loop α) (i j : Nat) (s : RelState) :
    wedgeOf G k false A B i j s = wedgeAB G k A B i j s := rfl

theorem wedgeOf_true (k : RelKind) (A B : Loop α) (i j : Nat) (s : RelState) :
    wedgeOf G k true B A j i s = wedgeAB G k A B i j s := rfl

theorem containsWedgeCross_endPair (A B : Loop α) {i j : Nat} (hi : i < A.numEdges) (hj : j < B.numEdges) :
    containsWedgeCross G A B (endPair A B i j) =
      !wedgeContains G (A.vertex G i) (A.vertex G (i + 1)) (A.vertex G (i + 2)) (B.vertex G j) (B.vertex G (j + 2)) := by
  unfold containsWedgeCross endPair
  simp only []
  rw [prev_end G A i (numEdges_pos hi).2, prev_end G B j (numEdges_pos hj).2, vertex_end, next_end, next_end]

theorem intersectsWedgeCross_endPair (A B : Loop α) {i j : Nat} (hi : i < A.numEdges) (hj : j < B.numEdges) :
    intersectsWedgeCross G A B (endPair A B i j) =
      wedgeIntersects G (A.vertex G i) (A.vertex G (i + 1)) (A.vertex G (i + 2)) (B.vertex G j) (B.vertex G (j + 2)) := by
  unfold intersectsWedgeCross endPair
  simp only []
  rw [prev_end G A i (numEdges_pos hi).2, prev_end G B j (numEdges_pos hj).2, vertex_end, next_end, next_end]

theorem semiwedgeContained_endPair (A B : Loop α) (rev : Bool) {i j : Nat} (hi : i < A.numEdges) :
    semiwedgeContained G A B rev (endPair A B i j) =
      wedgeContainsSemiwedge G (A.vertex G i) (A.vertex G (i + 1)) (A.vertex G (i + 2)) (B.vertex G (j + 2)) rev := by
  unfold semiwedgeContained endPair
  simp only []
  rw [prev_end G A i (numEdges_pos hi).2, vertex_end, next_end, next_end]

/-- SOUNDNESS of one wedge evaluation: it keeps `StateSound`, and if it answers `true` the exact
    relation has the wedge witness -/
theorem wedgeAB_sound (k : RelKind) (A B : Loop α) {i j : Nat} (hi : i < A.numEdges) (hj : j < B.numEdges)
    (hsh : SharedEnd G A B i j) (s0 : RelState) (h0 : StateSound G k A B s0) :
    StateSound G k A B (wedgeAB G k A B i j s0).1 ∧ ((wedgeAB G k A B i j s0).2 = true → wedgeWitness G k A B = true) := by
  have hp := endPair_mem G A B hi hj hsh
  have hne : (sharedVertices G A B).isEmpty = false := by
    cases hs : sharedVertices G A B with
    | nil => rw [hs] at hp; simp at hp
    | cons _ _ => rfl
  cases k with
  | contains =>
    refine ⟨⟨fun _ => hne, fun rev h => by cases h⟩, ?_⟩
    intro hf
    have hf' : (!wedgeContains G (A.vertex G i) (A.vertex G (i + 1)) (A.vertex G (i + 2)) (B.vertex G j) (B.vertex G (j + 2))) = true := hf
    rw [← containsWedgeCross_endPair G A B hi hj] at hf'
    exact List.any_eq_true.mpr ⟨_, hp, hf'⟩
  | intersects =>
    refine ⟨⟨fun _ => hne, fun rev h => by cases h⟩, ?_⟩
    intro hf
    have hf' : wedgeIntersects G (A.vertex G i) (A.vertex G (i + 1)) (A.vertex G (i + 2)) (B.vertex G j) (B.vertex G (j + 2)) = true := hf
    rw [← intersectsWedgeCross_endPair G A B hi hj] at hf'
    exact List.any_eq_true.mpr ⟨_, hp, hf'⟩
  | compareBoundary r =>
    have hsnd : (wedgeAB G (.compareBoundary r) A B i j s0).2 =
        ((wedgeAB G (.compareBoundary r) A B i j s0).1.containsEdge && (wedgeAB G (.compareBoundary r) A B i j s0).1.excludesEdge) := rfl
    have hS : StateSound G (.compareBoundary r) A B (wedgeAB G (.compareBoundary r) A B i j s0).1 := by
      have hv := semiwedgeContained_endPair G A B r (j := j) hi
      obtain ⟨_, h02⟩ := h0
      obtain ⟨hc0, he0⟩ := h02 r rfl
      refine ⟨fun _ => hne, ?_⟩
      intro rev hrev
      have : r = rev := by injection hrev
      subst this
      unfold wedgeAB wedgesCross
      simp only []
      rw [← hv]
      cases hval : semiwedgeContained G A B r (endPair A B i j)
      · simp only [Bool.false_eq_true, if_false]
        refine ⟨hc0, fun _ => ?_⟩
        rw [List.any_map]
        exact List.any_eq_true.mpr ⟨_, hp, by simp [hval]⟩
      · simp only [if_true]
        refine ⟨fun _ => ?_, he0⟩
        rw [List.any_map]
        exact List.any_eq_true.mpr ⟨_, hp, by simp [hval]⟩
    refine ⟨hS, ?_⟩
    intro hf
    rw [hsnd] at hf
    have hboth : (wedgeAB G (.compareBoundary r) A B i j s0).1.containsEdge = true ∧
        (wedgeAB G (.compareBoundary r) A B i j s0).1.excludesEdge = true := by simpa using hf
    obtain ⟨c, e⟩ := hS.2 r rfl
    unfold wedgeWitness
    simp only [c hboth.1, e hboth.2, Bool.and_self]


/-! ### what an observed (non-firing) wedge evaluation says -/

theorem obs_swap (k : RelKind) (A B : Loop α) (i j : Nat) (s' : RelState) :
    Obs G k true B A j i s' ↔ Obs G k false A B i j s' := Iff.rfl

theorem obs_contains (A B : Loop α) {i j : Nat} (hi : i < A.numEdges) (hj : j < B.numEdges) {s' : RelState}
    (h : Obs G .contains false A B i j s') : containsWedgeCross G A B (endPair A B i j) = false := by
  obtain ⟨s0, hf, _⟩ := h
  rw [containsWedgeCross_endPair G A B hi hj]
  exact hf

theorem obs_intersects (A B : Loop α) {i j : Nat} (hi : i < A.numEdges) (hj : j < B.numEdges) {s' : RelState}
    (h : Obs G .intersects false A B i j s') : intersectsWedgeCross G A B (endPair A B i j) = false := by
  obtain ⟨s0, hf, _⟩ := h
  rw [intersectsWedgeCross_endPair G A B hi hj]
  exact hf

theorem obs_boundary (A B : Loop α) (r : Bool) {i j : Nat} (hi : i < A.numEdges) {s' : RelState}
    (h : Obs G (.compareBoundary r) false A B i j s') :
    (semiwedgeContained G A B r (endPair A B i j) = true → s'.containsEdge = true) ∧
    (semiwedgeContained G A B r (endPair A B i j) = false → s'.excludesEdge = true) := by
  obtain ⟨s0, _, hle⟩ := h
  have hle' : StLe (wedgeAB G (.compareBoundary r) A B i j s0).1 s' := hle
  rw [semiwedgeContained_endPair G A B r hi]
  unfold wedgeAB wedgesCross at hle'
  simp only [] at hle'
  cases hv : wedgeContainsSemiwedge G (A.vertex G i) (A.vertex G (i + 1)) (A.vertex G (i + 2)) (B.vertex G (j + 2)) r
  · rw [hv] at hle'
    simp only [Bool.false_eq_true, if_false] at hle'
    exact ⟨fun h => (by cases h), fun _ => hle'.2.2 rfl⟩
  · rw [hv] at hle'
    simp only [if_true] at hle'
    exact ⟨fun _ => hle'.2.1 rfl, fun h => by cases h⟩

/-- the two boundary flags are not both set (otherwise the wedge test that set the second one fired) -/
def NotBoth (s : RelState) : Prop := (s.containsEdge && s.excludesEdge) = false

theorem notBoth_step (k : RelKind) (sw : Bool) (X Y : Loop α) : ∀ aj bj s0, NotBoth s0 →
    (wedgeOf G k sw X Y aj bj s0).2 = false → NotBoth (wedgeOf G k sw X Y aj bj s0).1 := by
  intro aj bj s0 h0 hf
  cases sw <;> cases k <;> first | exact h0 | exact hf

/-! ### all callbacks of the real walk are sound -/

/-- what the walk can have found when it answers `true` -/
def Witness (k : RelKind) (A B : Loop α) (IA IB : Index) : Prop :=
  anyCrossing G A B = true ∨ wedgeWitness G k A B = true ∨ CenterFires k IA IB

theorem anyCrossing_of_crossE (A B : Loop α) {i j : Nat} (hi : i < A.numEdges) (hj : j < B.numEdges)
    (hc : CrossE G A B i j) : anyCrossing G A B = true := by
  unfold anyCrossing
  simp only [List.any_eq_true, List.mem_range, beq_iff_eq]
  exact ⟨i, hi, j, hj, hc⟩

theorem rangesMeet_of_interR {IA IB : Index} {i j : Nat} (h : interR IA IB i j) : RangesMeet IA IB i j := by
  unfold RangesMeet; unfold interR lo hi at h
  simp only [toNat_le_iff]; exact h

theorem realTests_sound (k : RelKind) (A B : Loop α) (IA IB : Index) (gcAB gcBA : Nat → Nat → List Nat)
    (eA : EdgesOK A IA) (eB : EdgesOK B IB) :
    SoundT (realTests G k A B IA IB gcAB gcBA) IA IB (fun s => StateSound G k A B s.rel) (Witness G k A B IA IB)
      (fun sw x => (if sw then containsCenterMatches (IB.ccAt x) k.bTarget
                    else containsCenterMatches (IA.ccAt x) k.aTarget) = true) := by
  have hcAB : ∀ aj bj, aj < A.numEdges → bj < B.numEdges → CrossE G A B aj bj → Witness G k A B IA IB :=
    fun aj bj ha hb hc => Or.inl (anyCrossing_of_crossE G A B ha hb hc)
  have hcBA : ∀ aj bj, aj < B.numEdges → bj < A.numEdges → CrossE G B A aj bj → Witness G k A B IA IB :=
    fun aj bj ha hb hc => Or.inl (anyCrossing_of_crossE G A B hb ha ((crossE_symm G A B bj aj).mpr hc))
  have hwAB : ∀ aj bj, aj < A.numEdges → bj < B.numEdges → SharedEnd G A B aj bj → ∀ s0, StateSound G k A B s0 →
      StateSound G k A B (wedgeOf G k false A B aj bj s0).1 ∧
      ((wedgeOf G k false A B aj bj s0).2 = true → Witness G k A B IA IB) := by
    intro aj bj ha hb hsh s0 h0
    obtain ⟨w1, w2⟩ := wedgeAB_sound G k A B ha hb hsh s0 h0
    exact ⟨w1, fun hf => Or.inr (Or.inl (w2 hf))⟩
  have hwBA : ∀ aj bj, aj < B.numEdges → bj < A.numEdges → SharedEnd G B A aj bj → ∀ s0, StateSound G k A B s0 →
      StateSound G k A B (wedgeOf G k true B A aj bj s0).1 ∧
      ((wedgeOf G k true B A aj bj s0).2 = true → Witness G k A B IA IB) := by
    intro aj bj ha hb hsh s0 h0
    obtain ⟨w1, w2⟩ := wedgeAB_sound G k A B hb ha hsh.symm s0 h0
    exact ⟨w1, fun hf => Or.inr (Or.inl (w2 hf))⟩
  refine ⟨?_, ?_, ?_, ?_, ?_⟩
  · -- cellCell
    intro sw x y s hJ
    cases sw with
    | false =>
      exact cellCrossesCell_sound G k false A B (· < A.numEdges) (· < B.numEdges) hcAB hwAB
        (IB.edgesAt y) (fun bj h => eB.lt h) (IA.edgesAt x) (fun aj h => eA.lt h) s.rel hJ
    | true =>
      exact cellCrossesCell_sound G k true B A (· < B.numEdges) (· < A.numEdges) hcBA hwBA
        (IA.edgesAt y) (fun bj h => eA.lt h) (IB.edgesAt x) (fun aj h => eB.lt h) s.rel hJ
  · -- subcell
    intro sw x s hJ
    cases sw with
    | false =>
      exact cellCrossesAnySubcell_sound G k false A B (· < A.numEdges) (· < B.numEdges) hcAB hwAB
        IB (fun c bj h => eB.lt h) (fun aj => gcAB aj x) (IA.edgesAt x) (fun aj h => eA.lt h) s.qAB s.rel hJ
    | true =>
      exact cellCrossesAnySubcell_sound G k true B A (· < B.numEdges) (· < A.numEdges) hcBA hwBA
        IA (fun c bj h => eA.lt h) (fun aj => gcBA aj x) (IB.edgesAt x) (fun aj h => eB.lt h) s.qBA s.rel hJ
  · -- centerA
    intro sw x s hJ
    exact ⟨hJ, fun h => h⟩
  · -- centerB
    intro sw x y s hJ
    refine ⟨hJ, ?_⟩
    intro hf hca h0 hu
    right; right
    cases sw with
    | false =>
      have hu' : UnderR IA IB x y := hu
      have hf' : containsCenterMatches (IB.ccAt y) k.bTarget = true := hf
      have hca' : containsCenterMatches (IA.ccAt x) k.aTarget = true := hca
      have h0' : IA.numEdgesAt x = 0 := h0
      exact ⟨x, hu'.1.1, y, hu'.1.2.1, rangesMeet_of_interR hu'.1, hca', hf', Or.inr (Or.inl ⟨h0', hu'.2⟩)⟩
    | true =>
      have hu' : UnderR IB IA x y := hu
      have hf' : containsCenterMatches (IA.ccAt y) k.aTarget = true := hf
      have hca' : containsCenterMatches (IB.ccAt x) k.bTarget = true := hca
      have h0' : IB.numEdgesAt x = 0 := h0
      have hm : interR IA IB y x := ⟨hu'.1.2.1, hu'.1.1, hu'.1.2.2.2, hu'.1.2.2.1⟩
      exact ⟨y, hm.1, x, hm.2.1, rangesMeet_of_interR hm, hf', hca', Or.inr (Or.inr ⟨h0', hu'.2⟩)⟩
  · -- sameCenter
    intro x y s hJ
    refine ⟨hJ, ?_⟩
    intro hf hs
    have hf' : (containsCenterMatches (IA.ccAt x) k.aTarget && containsCenterMatches (IB.ccAt y) k.bTarget) = true := hf
    have hb : containsCenterMatches (IA.ccAt x) k.aTarget = true ∧ containsCenterMatches (IB.ccAt y) k.bTarget = true := by
      simpa using hf'
    right; right
    exact ⟨x, hs.1.1, y, hs.1.2.1, rangesMeet_of_interR hs.1, hb.1, hb.2, Or.inl hs.2⟩

/-! ### as long as no test fires, every visited shared end vertex has been evaluated -/

/-- every pair of listed edges of the cells `pa`, `pb` with a common end vertex has been evaluated (answer
    `false`) and the flags it set are set in `rs` -/
def WedgeSeen (k : RelKind) (A B : Loop α) (IA IB : Index) (rs : RelState) (pa pb : Nat) : Prop :=
  ∀ i ∈ IA.edgesAt pa, ∀ j ∈ IB.edgesAt pb, SharedEnd G A B i j → Obs G k false A B i j rs

theorem realTests_preserve_wedgeSeen (k : RelKind) (A B : Loop α) (IA IB : Index) (gcAB gcBA : Nat → Nat → List Nat)
    (cAB : GetCellsComplete G A B IA IB gcAB) (cBA : GetCellsComplete G B A IB IA gcBA) :
    Preserves (instr (realTests G k A B IA IB gcAB gcBA) IA IB) IA IB
      (fun s => NotBoth s.1.rel ∧ ∀ e ∈ s.2, WedgeSeen G k A B IA IB s.1.rel e.1 e.2) := by
  have edgeFree : ∀ (I : Index) (x : Nat), I.numEdgesAt x = 0 → I.edgesAt x = [] := by
    intro I x h; unfold Index.numEdgesAt at h; exact List.eq_nil_of_length_eq_zero h
  have hzero : ∀ (X Y : Loop α) (a b : Nat), SharedEnd G X Y a b →
      crossingSign G (X.vertex G a) (X.vertex G (a + 1)) (Y.vertex G b) (Y.vertex G (b + 1)) ≠ -1 := by
    intro X Y a b hsh
    rw [crossingSign_eq]; unfold SharedEnd at hsh; simp [hsh]
  refine ⟨?_, ?_, ?_, ?_, ?_⟩
  · -- cellCell
    intro sw x y s hJ hr
    obtain ⟨hnb, hJ⟩ := hJ
    cases sw with
    | false =>
      have hr' : (cellCrossesCell G k false A B (IB.edgesAt y) (IA.edgesAt x) s.1.rel).2 = false := hr
      refine ⟨cellCrossesCell_inv G k false A B (notBoth_step G k false A B) _ _ _ hnb hr', ?_⟩
      intro e he
      rcases List.mem_append.mp he with he | he
      · intro i hi' j hj hsh
        exact (hJ e he i hi' j hj hsh).mono G (cellCrossesCell_le G k false A B _ _ _ hr')
      · simp only [List.mem_singleton] at he
        subst he
        intro i hi' j hj hsh
        exact cellCrossesCell_obs G k false A B _ _ _ hr' i hi' j hj hsh
    | true =>
      have hr' : (cellCrossesCell G k true B A (IA.edgesAt y) (IB.edgesAt x) s.1.rel).2 = false := hr
      refine ⟨cellCrossesCell_inv G k true B A (notBoth_step G k true B A) _ _ _ hnb hr', ?_⟩
      intro e he
      rcases List.mem_append.mp he with he | he
      · intro i hi' j hj hsh
        exact (hJ e he i hi' j hj hsh).mono G (cellCrossesCell_le G k true B A _ _ _ hr')
      · simp only [List.mem_singleton] at he
        subst he
        intro i hi' j hj hsh
        exact (obs_swap G k A B i j _).mp (cellCrossesCell_obs G k true B A _ _ _ hr' j hj i hi' hsh.symm)
  · -- subcell
    intro sw x s hJ hr
    obtain ⟨hnb, hJ⟩ := hJ
    cases sw with
    | false =>
      have hr' : (cellCrossesAnySubcell G k false A B IB (fun aj => gcAB aj x) (IA.edgesAt x) s.1.qAB s.1.rel).2 = false := hr
      refine ⟨cellCrossesAnySubcell_inv G k false A B (notBoth_step G k false A B) _ _ _ _ _ hnb hr', ?_⟩
      intro e he
      rcases List.mem_append.mp he with he | he
      · intro i hi' j hj hsh
        exact (hJ e he i hi' j hj hsh).mono G (cellCrossesAnySubcell_le G k false A B _ _ _ _ _ hr')
      · obtain ⟨p, hp, rfl⟩ := List.mem_map.mp he
        have hp' : p ∈ under IA IB x := hp
        have hu : IA.rangeMinAt x ≤ IB.idAt p ∧ IB.idAt p ≤ IA.rangeMaxAt x := by
          unfold under at hp'; simpa using (List.mem_filter.mp hp').2
        intro i hi' j hj hsh
        exact cellCrossesAnySubcell_obs G k false A B IB (fun aj => gcAB aj x) (IA.edgesAt x) s.1.qAB s.1.rel hr'
          i hi' p (cAB x i p j hi' hj hu.1 hu.2 (hzero A B i j hsh)) j hj hsh
    | true =>
      have hr' : (cellCrossesAnySubcell G k true B A IA (fun aj => gcBA aj x) (IB.edgesAt x) s.1.qBA s.1.rel).2 = false := hr
      refine ⟨cellCrossesAnySubcell_inv G k true B A (notBoth_step G k true B A) _ _ _ _ _ hnb hr', ?_⟩
      intro e he
      rcases List.mem_append.mp he with he | he
      · intro i hi' j hj hsh
        exact (hJ e he i hi' j hj hsh).mono G (cellCrossesAnySubcell_le G k true B A _ _ _ _ _ hr')
      · obtain ⟨p, hp, rfl⟩ := List.mem_map.mp he
        have hp' : p ∈ under IB IA x := hp
        have hu : IB.rangeMinAt x ≤ IA.idAt p ∧ IA.idAt p ≤ IB.rangeMaxAt x := by
          unfold under at hp'; simpa using (List.mem_filter.mp hp').2
        intro i hi' j hj hsh
        exact (obs_swap G k A B i j _).mp
          (cellCrossesAnySubcell_obs G k true B A IA (fun aj => gcBA aj x) (IB.edgesAt x) s.1.qBA s.1.rel hr'
            j hj p (cBA x j p i hj hi' hu.1 hu.2 (hzero B A j i hsh.symm)) i hi' hsh.symm)
  · -- centerA: the own cell has no edges, the state is untouched
    intro sw x s hJ h0
    refine ⟨hJ.1, ?_⟩
    intro e he
    rcases List.mem_append.mp he with he | he
    · exact hJ.2 e he
    · split at he
      · simp at he
      · obtain ⟨p, _, rfl⟩ := List.mem_map.mp he
        cases sw with
        | false => intro i hi'; have hi2 : i ∈ IA.edgesAt x := hi'; rw [edgeFree IA x (by simpa using h0)] at hi2; simp at hi2
        | true => intro i _ j hj; have hj2 : j ∈ IB.edgesAt x := hj; rw [edgeFree IB x (by simpa using h0)] at hj2; simp at hj2
  · -- centerB
    intro sw x y s hJ h0 _
    refine ⟨hJ.1, ?_⟩
    intro e he
    rcases List.mem_append.mp he with he | he
    · exact hJ.2 e he
    · simp only [List.mem_singleton] at he
      subst he
      cases sw with
      | false => intro i hi'; have hi2 : i ∈ IA.edgesAt x := hi'; rw [edgeFree IA x (by simpa using h0)] at hi2; simp at hi2
      | true => intro i _ j hj; have hj2 : j ∈ IB.edgesAt x := hj; rw [edgeFree IB x (by simpa using h0)] at hj2; simp at hj2
  · intro x y s hJ _; exact hJ

/-! ### the exact relations of `S2.Relate`, written with `wedgeWitness` (definitional) -/

theorem contains_exact_unfold (A B : Loop α) :
    Relate.contains G A B =
      if (A.isEmptyOrFull || B.isEmptyOrFull) = true then A.isFull || B.isEmpty
      else if anyCrossing G A B = true then false
      else if wedgeWitness G .contains A B = true then false
      else if (!(sharedVertices G A B).isEmpty) = true then true
      else A.containsPoint G (B.vertex G 0) && !B.containsPoint G (A.vertex G 0) := rfl

theorem intersects_exact_unfold (A B : Loop α) :
    Relate.intersects G A B =
      if (A.isEmpty || B.isEmpty) = true then false
      else if anyCrossing G A B = true then true
      else if wedgeWitness G .intersects A B = true then true
      else if (!(sharedVertices G A B).isEmpty) = true then false
      else A.containsPoint G (B.vertex G 0) || B.containsPoint G (A.vertex G 0) := rfl

theorem compareBoundary_exact_unfold (A B : Loop α) :
    Relate.compareBoundary G A B =
      if (A.isEmpty || B.isEmpty) = true then -1
      else if A.isFull = true then 1
      else if B.isFull = true then -1
      else if anyCrossing G A B = true then 0
      else if wedgeWitness G (.compareBoundary B.isHole) A B = true then 0
      else if (!((sharedVertices G A B).map (semiwedgeContained G A B B.isHole)).isEmpty) = true then
        (if ((sharedVertices G A B).map (semiwedgeContained G A B B.isHole)).any id = true then 1 else -1)
      else if A.containsPoint G (B.vertex G 0) = true then 1 else -1 := rfl

/-! ### the centre callbacks of the real walk -/

theorem realTests_centreT (k : RelKind) (A B : Loop α) (IA IB : Index) (gcAB gcBA : Nat → Nat → List Nat) :
    CentreT (realTests G k A B IA IB gcAB gcBA)
      (fun x => containsCenterMatches (IA.ccAt x) k.aTarget = true)
      (fun y => containsCenterMatches (IB.ccAt y) k.bTarget = true) := by
  refine ⟨?_, ?_, ?_⟩
  · intro sw x s; cases sw <;> exact Iff.rfl
  · intro sw x y s; cases sw <;> exact Iff.rfl
  · intro x y s
    show (containsCenterMatches (IA.ccAt x) k.aTarget && containsCenterMatches (IB.ccAt y) k.bTarget) = true ↔ _
    simp

theorem interR_of_rangesMeet {IA IB : Index} {i j : Nat} (h : RangesMeet IA IB i j) : interR IA IB i j := by
  unfold RangesMeet at h; unfold interR lo hi
  simp only [toNat_le_iff] at h; exact h

end
end S2Proofs.C07
