/-
  S2Proofs.C07.WalkIter — the rangeIterator of `S2.RelateWalk` on sorted lists of pairwise disjoint
  valid cells: arithmetic view of an index (`lo / idn / hi` as naturals), the facts that follow from
  `IdxOK`, laminarity of two indexes, specification of `seek`, `seekTo`, `seekBeyond`.
  Helper lemmas; the property theorems are in S2Proofs/Properties/C07_Walk.lean.
-/
import S2.RelateWalk
import S2Proofs.C06.Locate
import S2Proofs.CellIDLemmas
import S2Proofs.CellIDAlgebra
namespace S2Proofs.C07
open S2 S2.CellID S2.RelateWalk

/-- the cell ids of an index in iterator order (`index.cells`) -/
def ids (I : Index) : List CellID := I.cells.toList.map (·.id)

/-- the index hypotheses on the cell list: valid cell ids, sorted, pairwise disjoint leaf ranges -/
def IdxOK (I : Index) : Prop :=
  (∀ c ∈ ids I, isValid c = true) ∧ (ids I).Pairwise (fun a b => rangeMax a < rangeMin b)

instance (I : Index) : Decidable (IdxOK I) := by unfold IdxOK; exact inferInstance

/-- the sentinel as a natural number -/
def SN : Nat := 18446744073709551615

def idn (I : Index) (p : Nat) : Nat := (I.idAt p).toNat
def lo (I : Index) (p : Nat) : Nat := (I.rangeMinAt p).toNat
def hi (I : Index) (p : Nat) : Nat := (I.rangeMaxAt p).toNat

theorem ids_length (I : Index) : (ids I).length = I.size := by simp [ids, Index.size]

theorem idAt_eq (I : Index) (p : Nat) : I.idAt p = Locate.idAt (ids I) p := by
  unfold Index.idAt Locate.idAt ids
  by_cases h : p < I.cells.size
  · simp [h, List.getD]
  · simp [h, List.getD]

theorem idAt_lt (I : Index) {p : Nat} (h : p < I.size) : I.idAt p = (ids I)[p]'(by rw [ids_length]; exact h) := by
  rw [idAt_eq]; exact S2Proofs.C06.idAt_lt (by rw [ids_length]; exact h)

theorem seek_eq_locate (I : Index) (t : CellID) : I.seek t = Locate.seek (ids I) t := by
  unfold Index.seek Locate.seek
  rw [ids_length]
  have : (fun i => decide (I.idAt i ≥ t)) = (fun i => decide ((ids I).getD i sentinel ≥ t)) := by
    funext i; rw [idAt_eq]; rfl
  rw [this]; rfl

/-- the arithmetic facts about one index used by all later proofs -/
structure Facts (I : Index) : Prop where
  inR : ∀ p, p < I.size → lo I p ≤ idn I p ∧ idn I p ≤ hi I p ∧ hi I p + 2 < SN ∧ lo I p % 2 = 1 ∧ hi I p % 2 = 1
  srt : ∀ p q, p < q → q < I.size → hi I p < lo I q
  out : ∀ p, I.size ≤ p → lo I p = SN ∧ idn I p = SN ∧ hi I p = SN

theorem sentinel_range : rangeMin sentinel = sentinel ∧ rangeMax sentinel = sentinel := by decide

theorem IsCell.leaf_odd {x : CellID} (h : IsCell x 30) : x.toNat % 2 = 1 := by
  have := h.low; simpa using this

theorem facts_of_ok {I : Index} (h : IdxOK I) : Facts I := by
  obtain ⟨hv, hs⟩ := h
  have hcell : ∀ p (hp : p < I.size), ∃ k, IsCell (I.idAt p) k := by
    intro p hp
    rw [idAt_lt I hp]
    exact (isValid_iff _).mp (hv _ (List.getElem_mem _))
  refine ⟨?_, ?_, ?_⟩
  · intro p hp
    obtain ⟨k, hk⟩ := hcell p hp
    have h1 := hk.rangeMin_le
    have h2 := hk.rangeMax_isCell
    have h3 := hk.rangeMin_isCell
    have h4 := IsCell.leaf_odd h2
    have h5 := IsCell.leaf_odd h3
    have h6 := h2.face_lt
    unfold lo hi idn Index.rangeMinAt Index.rangeMaxAt SN
    refine ⟨h1.1, h1.2, ?_, h5, h4⟩
    omega
  · intro p q hpq hq
    have hp : p < I.size := by omega
    have := (List.pairwise_iff_getElem.mp hs) p q (by rw [ids_length]; exact hp) (by rw [ids_length]; exact hq) hpq
    unfold lo hi Index.rangeMinAt Index.rangeMaxAt
    rw [idAt_lt I hp, idAt_lt I hq]
    simpa [UInt64.lt_iff_toNat_lt] using this
  · intro p hp
    have e : I.idAt p = sentinel := by
      unfold Index.idAt; simp only [Index.size] at hp
      rw [dif_neg (by omega)]
    unfold lo hi idn Index.rangeMinAt Index.rangeMaxAt
    rw [e, sentinel_range.1, sentinel_range.2]
    exact ⟨rfl, rfl, rfl⟩

theorem Facts.done_iff {I : Index} (F : Facts I) (p : Nat) : I.done p = true ↔ I.size ≤ p := by
  unfold Index.done
  constructor
  · intro h
    by_cases hp : p < I.size
    · have := F.inR p hp
      have e : I.idAt p = sentinel := by simpa using h
      unfold idn hi SN at this; rw [e] at this
      have : (sentinel : UInt64).toNat = 18446744073709551615 := rfl
      omega
    · omega
  · intro h
    have := (F.out p h).2.1
    unfold idn SN at this
    have e : I.idAt p = sentinel := UInt64.toNat_inj.mp (by rw [this]; rfl)
    simp [e]

theorem Facts.done_false {I : Index} (F : Facts I) {p : Nat} (h : p < I.size) : I.done p = false := by
  cases hd : I.done p
  · rfl
  · have := (F.done_iff p).mp hd; omega

theorem Facts.lo_mono {I : Index} (F : Facts I) {p q : Nat} (hpq : p ≤ q) (hq : q < I.size) : lo I p ≤ lo I q := by
  rcases Nat.lt_or_ge p q with h | h
  · have := F.srt p q h hq; have := F.inR p (by omega); omega
  · have : p = q := by omega
    subst this; omega

theorem Facts.hi_mono {I : Index} (F : Facts I) {p q : Nat} (hpq : p ≤ q) (hq : q < I.size) : hi I p ≤ hi I q := by
  rcases Nat.lt_or_ge p q with h | h
  · have := F.srt p q h hq; have := F.inR q hq; omega
  · have : p = q := by omega
    subst this; omega

theorem Facts.idn_lt {I : Index} (F : Facts I) {p q : Nat} (hpq : p < q) (hq : q < I.size) : idn I p < idn I q := by
  have := F.srt p q hpq hq; have := F.inR q hq; have := F.inR p (by omega); omega

/-! ### `seek` -/

/-- `seek` finds the first position whose id is at least the target (`I.size` if none) -/
theorem seek_spec {I : Index} (F : Facts I) (t : CellID) :
    I.seek t ≤ I.size ∧ (∀ j, j < I.seek t → idn I j < t.toNat) ∧ (∀ j, I.seek t ≤ j → j < I.size → t.toNat ≤ idn I j) := by
  rw [seek_eq_locate]
  obtain ⟨h1, h2, h3⟩ := S2Proofs.C06.seek_weak (cells := ids I) t
  rw [ids_length] at h1
  have hlen := ids_length I
  refine ⟨h1, ?_, ?_⟩
  · intro j hj
    have hpos : 0 < Locate.seek (ids I) t := by omega
    have hlt : Locate.seek (ids I) t - 1 < I.size := by omega
    have := h3 hpos (by omega)
    have e : idn I (Locate.seek (ids I) t - 1) = ((ids I)[Locate.seek (ids I) t - 1]'(by rw [ids_length]; exact hlt)).toNat := by
      unfold idn; rw [idAt_lt I hlt]
    rcases Nat.lt_or_ge j (Locate.seek (ids I) t - 1) with hj' | hj'
    · have := F.idn_lt hj' hlt; omega
    · have : j = Locate.seek (ids I) t - 1 := by omega
      subst this; omega
  · intro j hj hjs
    have hlt : Locate.seek (ids I) t < I.size := by omega
    have := h2 (by omega)
    have e : idn I (Locate.seek (ids I) t) = ((ids I)[Locate.seek (ids I) t]'(by rw [ids_length]; exact hlt)).toNat := by
      unfold idn; rw [idAt_lt I hlt]
    rcases Nat.lt_or_ge (Locate.seek (ids I) t) j with hj' | hj'
    · have := F.idn_lt hj' hjs; omega
    · have : j = Locate.seek (ids I) t := by omega
      subst this; omega

/-! ### boundaries -/

/-- `q` is the first position whose range starts after `x` -/
def BndLo (I : Index) (x q : Nat) : Prop :=
  q ≤ I.size ∧ (∀ j, j < q → lo I j ≤ x) ∧ (∀ j, q ≤ j → j < I.size → x < lo I j)

/-- `q` is the first position whose range ends at or after `x` -/
def BndHi (I : Index) (x q : Nat) : Prop :=
  q ≤ I.size ∧ (∀ j, j < q → hi I j < x) ∧ (∀ j, q ≤ j → j < I.size → x ≤ hi I j)

theorem BndLo.unique {I : Index} {x q q' : Nat} (h : BndLo I x q) (h' : BndLo I x q') : q = q' := by
  rcases Nat.lt_trichotomy q q' with c | c | c
  · have := h'.2.1 q c; have := h.2.2 q (Nat.le_refl _) (by have := h'.1; omega); omega
  · exact c
  · have := h.2.1 q' c; have := h'.2.2 q' (Nat.le_refl _) (by have := h.1; omega); omega

/-- a target range (of a cell of the other index, or the sentinel) that is laminar with the index -/
structure Target (I : Index) (tlo tid thi : Nat) : Prop where
  ord : tlo ≤ tid ∧ tid ≤ thi
  lam : ∀ p, p < I.size →
    hi I p < tlo ∨ thi < lo I p ∨ (lo I p ≤ tlo ∧ thi ≤ hi I p) ∨ (tlo ≤ lo I p ∧ hi I p ≤ thi)

theorem toNat_lt_iff {a b : UInt64} : a < b ↔ a.toNat < b.toNat := UInt64.lt_iff_toNat_lt
theorem toNat_le_iff {a b : UInt64} : a ≤ b ↔ a.toNat ≤ b.toNat := UInt64.le_iff_toNat_le

/-- `seekTo` positions the iterator at the first cell that overlaps or follows the target -/
theorem seekTo_spec {I : Index} (F : Facts I) {tMin tMax tID : CellID}
    (T : Target I tMin.toNat tID.toNat tMax.toNat) : BndHi I tMin.toNat (I.seekTo tMin tMax tID) := by
  obtain ⟨hsz, hbelow, habove⟩ := seek_spec F tMin
  unfold Index.seekTo
  simp only []
  generalize I.seek tMin = p at *
  have hprev : ∀ j, j < p → j < I.size := fun j hj => by omega
  by_cases hc : (I.done p || decide (I.rangeMinAt p > tMax)) = true
  · rw [if_pos hc]
    by_cases hp0 : p ≤ 0
    · rw [if_pos hp0]
      refine ⟨hsz, fun j hj => by omega, ?_⟩
      intro j hj hjs
      have := habove j hj hjs; have := F.inR j hjs; omega
    · rw [if_neg hp0]
      have hp1 : p - 1 < I.size := by omega
      have hid := hbelow (p - 1) (by omega)
      have hR := F.inR (p - 1) hp1
      have hL := T.lam (p - 1) hp1
      have hTo := T.ord
      by_cases hlt : I.rangeMaxAt (p - 1) < tID
      · rw [if_pos hlt]
        have hlt' : hi I (p - 1) < tID.toNat := toNat_lt_iff.mp hlt
        refine ⟨hsz, ?_, ?_⟩
        · intro j hj
          have := F.hi_mono (show j ≤ p - 1 by omega) hp1
          omega
        · intro j hj hjs
          have := habove j hj hjs; have := F.inR j hjs; omega
      · rw [if_neg hlt]
        have hge : tID.toNat ≤ hi I (p - 1) := by
          have : ¬ (hi I (p - 1) < tID.toNat) := fun h => hlt (toNat_lt_iff.mpr h)
          omega
        refine ⟨by omega, ?_, ?_⟩
        · intro j hj
          have := F.srt j (p - 1) hj hp1
          omega
        · intro j hj hjs
          have := F.hi_mono (show p - 1 ≤ j by omega) hjs
          omega
  · rw [if_neg hc]
    have hc' : I.done p = false ∧ ¬ (I.rangeMinAt p > tMax) := by
      simp only [Bool.or_eq_true, decide_eq_true_eq, not_or] at hc
      exact ⟨by simpa using hc.1, hc.2⟩
    have hps : p < I.size := by
      rcases Nat.lt_or_ge p I.size with h | h
      · exact h
      · have := (F.done_iff p).mpr h; rw [this] at hc'; exact absurd hc'.1 (by simp)
    have hlo : lo I p ≤ tMax.toNat := by
      have : ¬ (tMax.toNat < lo I p) := fun h => hc'.2 (toNat_lt_iff.mpr h)
      omega
    refine ⟨hsz, ?_, ?_⟩
    · intro j hj
      have hj1 : j < I.size := by omega
      have hid := hbelow j hj
      have hR := F.inR j hj1
      have hL := T.lam j hj1
      have hs := F.srt j p hj hps
      have hTo := T.ord
      omega
    · intro j hj hjs
      have := habove j hj hjs; have := F.inR j hjs; omega

/-- `seekBeyond` positions the iterator at the first cell that starts after `tMax` -/
theorem seekBeyond_spec {I : Index} (F : Facts I) {tMax : CellID}
    (hodd : tMax.toNat % 2 = 1) (hsm : tMax.toNat + 2 < SN) : BndLo I tMax.toNat (I.seekBeyond tMax) := by
  have hnext : (CellID.next tMax).toNat = tMax.toNat + 2 := by
    unfold CellID.next CellID.lsb
    have h1 : (tMax &&& (0 - tMax)) = 1 := by
      apply UInt64.toNat_inj.mp
      have hne : tMax.toNat ≠ 0 := by omega
      have := lsb_toNat tMax hne
      unfold CellID.lsb at this
      rw [this]
      have hx := tMax.toNat_lt
      have e : tMax.toNat = (2 * (tMax.toNat / 2) + 1) * 2 ^ 0 := by omega
      have hl : (2 * (tMax.toNat / 2) + 1) * 2 ^ 0 < 2 ^ 64 := by omega
      have := lsbNat (tMax.toNat / 2) 0 hl
      rw [← e] at this
      simpa using this
    rw [h1]
    have : ((1 : UInt64) <<< 1) = 2 := by decide
    rw [this, UInt64.toNat_add]
    have : (2 : UInt64).toNat = 2 := rfl
    rw [this]
    unfold SN at hsm
    omega
  obtain ⟨hsz, hbelow, habove⟩ := seek_spec F (CellID.next tMax)
  unfold Index.seekBeyond
  simp only []
  generalize I.seek (CellID.next tMax) = p at *
  rw [hnext] at hbelow habove
  have hbel : ∀ j, j < p → lo I j ≤ tMax.toNat := by
    intro j hj
    have := hbelow j hj; have := F.inR j (by omega); omega
  by_cases hc : (!I.done p && decide (I.rangeMinAt p ≤ tMax)) = true
  · rw [if_pos hc]
    simp only [Bool.and_eq_true, Bool.not_eq_true', decide_eq_true_eq] at hc
    have hps : p < I.size := by
      rcases Nat.lt_or_ge p I.size with h | h
      · exact h
      · have := (F.done_iff p).mpr h; rw [this] at hc; exact absurd hc.1 (by simp)
    have hlo : lo I p ≤ tMax.toNat := toNat_le_iff.mp hc.2
    refine ⟨by omega, ?_, ?_⟩
    · intro j hj
      rcases Nat.lt_or_ge j p with h | h
      · exact hbel j h
      · have : j = p := by omega
        subst this; exact hlo
    · intro j hj hjs
      have := F.srt p j (by omega) hjs
      have := habove p (Nat.le_refl _) hps
      have := F.inR p hps
      omega
  · rw [if_neg hc]
    refine ⟨hsz, hbel, ?_⟩
    intro j hj hjs
    rcases Nat.lt_or_ge p j with h | h
    · have := F.srt p j h hjs
      have := habove p (Nat.le_refl _) (by omega)
      have := F.inR p (by omega)
      have := F.inR j hjs
      have := habove j hj hjs
      omega
    · have : j = p := by omega
      subst this
      have hd := F.done_false hjs
      rw [hd] at hc
      simp only [Bool.not_false, Bool.true_and, decide_eq_true_eq] at hc
      have : ¬ (lo I j ≤ tMax.toNat) := fun h => hc (toNat_le_iff.mpr h)
      omega

end S2Proofs.C07
