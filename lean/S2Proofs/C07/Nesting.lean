/-
  S2Proofs.C07.Nesting — correctness of the loop-nesting discovery model `S2.Nesting`
  (golang/geo polygon.go `insertLoop` / `initLoops` / `initNested`) for EVERY insertion order,
  over an abstract laminar containment relation `c a b` = "loop a contains loop b".
-/
import S2.Nesting

namespace S2Proofs.C07.Nest

open S2.Nesting S2.Nesting.Forest

/-- hypotheses on the containment relation: strict partial order in which two distinct loops that
    both contain a third loop are nested -/
structure Laminar (c : Nat → Nat → Bool) : Prop where
  irrefl : ∀ x, c x x = false
  trans  : ∀ x y z, c x y = true → c y z = true → c x z = true
  lam    : ∀ x y z, c x z = true → c y z = true → x ≠ y → c x y = true ∨ c y x = true

theorem Laminar.asymm {c : Nat → Nat → Bool} (h : Laminar c) {x y : Nat}
    (hxy : c x y = true) : c y x = false := by
  cases hyx : c y x with
  | false => rfl
  | true =>
    have := h.trans x y x hxy hyx
    rw [h.irrefl] at this
    exact absurd this (by decide)

variable {c : Nat → Nat → Bool} {new : Nat}

/-! ### (1) bookkeeping of ids -/

@[simp] theorem ids_nil : ids Forest.nil = [] := rfl
@[simp] theorem ids_node (x : Nat) (k r : Forest) :
    ids (Forest.node x k r) = x :: (ids k ++ ids r) := rfl

theorem ids_snoc (x : Nat) (k f : Forest) : ids (snoc x k f) = ids f ++ x :: ids k := by
  induction f with
  | nil => simp [snoc]
  | node y k' r _ ih => simp [snoc, ih]

theorem roots_sub_ids {f : Forest} {x : Nat} (h : x ∈ roots f) : x ∈ ids f := by
  induction f with
  | nil => simp [roots] at h
  | node y k r _ ih =>
    simp only [roots, List.mem_cons] at h
    rcases h with h | h
    · simp [h]
    · simp [ih h]

theorem map_fst_flat (f : Forest) (d : Nat) : (flat d f).map Prod.fst = ids f := by
  induction f generalizing d with
  | nil => simp [flat]
  | node x k r ihk ihr => simp [flat, ihk, ihr]

theorem mem_flat_ids {f : Forest} {d : Nat} {p : Nat × Nat} (h : p ∈ flat d f) : p.1 ∈ ids f := by
  rw [← map_fst_flat f d]
  exact List.mem_map_of_mem h

theorem count_inside_outside (c : Nat → Nat → Bool) (new : Nat) (f : Forest) (a : Nat) :
    (ids (inside c new f)).count a + (ids (outside c new f)).count a = (ids f).count a := by
  induction f with
  | nil => simp [inside, outside]
  | node x k r _ ih =>
    simp only [inside, outside]
    split <;> simp [List.count_cons, List.count_append] <;> omega

theorem inside_outside_perm (c : Nat → Nat → Bool) (new : Nat) (f : Forest) :
    (ids (inside c new f) ++ ids (outside c new f)).Perm (ids f) :=
  List.perm_iff_count.mpr (fun a => by
    rw [List.count_append]; exact count_inside_outside c new f a)

theorem mem_inside {f : Forest} {y : Nat} (h : y ∈ ids (inside c new f)) : y ∈ ids f :=
  (inside_outside_perm c new f).subset (List.mem_append_left _ h)

theorem mem_outside {f : Forest} {y : Nat} (h : y ∈ ids (outside c new f)) : y ∈ ids f :=
  (inside_outside_perm c new f).subset (List.mem_append_right _ h)

theorem place_perm (c : Nat → Nat → Bool) (new : Nat) (f : Forest) :
    (ids (place c new f)).Perm (new :: ids f) := by
  unfold place
  rw [ids_snoc]
  exact List.perm_middle.trans
    ((List.perm_append_comm.trans (inside_outside_perm c new f)).cons new)

theorem descend_node_pos {x : Nat} (k r : Forest) (h : c x new = true) :
    descend c new (Forest.node x k r) = some (Forest.node x (insertLoop c new k) r) := by
  simp only [descend, h, if_true, insertLoop]
  cases descend c new k <;> rfl

theorem descend_node_neg {x : Nat} (k r : Forest) (h : c x new = false) :
    descend c new (Forest.node x k r) = (descend c new r).map (Forest.node x k) := by
  simp [descend, h]

theorem insertLoop_perm_of {f : Forest}
    (h : ∀ f', descend c new f = some f' → (ids f').Perm (new :: ids f)) :
    (ids (insertLoop c new f)).Perm (new :: ids f) := by
  unfold insertLoop
  cases hd : descend c new f with
  | none => exact place_perm c new f
  | some f' => exact h f' hd

theorem descend_perm (c : Nat → Nat → Bool) (new : Nat) (f : Forest) :
    ∀ f', descend c new f = some f' → (ids f').Perm (new :: ids f) := by
  induction f with
  | nil => intro f' h; simp [descend] at h
  | node x k r ihk ihr =>
    intro f' h
    cases hx : c x new with
    | true =>
      rw [descend_node_pos k r hx] at h
      injection h with h
      subst h
      have hk := insertLoop_perm_of ihk
      simp only [ids_node]
      exact ((hk.append_right _).cons x).trans (List.Perm.swap new x _)
    | false =>
      rw [descend_node_neg k r hx] at h
      cases hr : descend c new r with
      | none => simp [hr] at h
      | some r' =>
        simp [hr] at h
        subst h
        have hr' := ihr r' hr
        simp only [ids_node]
        exact ((hr'.append_left (ids k)).trans List.perm_middle |>.cons x).trans
          (List.Perm.swap new x _)

theorem insertLoop_perm (c : Nat → Nat → Bool) (new : Nat) (f : Forest) :
    (ids (insertLoop c new f)).Perm (new :: ids f) :=
  insertLoop_perm_of (descend_perm c new f)

/-! ### (2) when does the descent stop -/

theorem descend_eq_none_iff (c : Nat → Nat → Bool) (new : Nat) (f : Forest) :
    descend c new f = none ↔ ∀ x ∈ roots f, c x new = false := by
  induction f with
  | nil => simp [descend, roots]
  | node x k r _ ihr =>
    cases hx : c x new with
    | true =>
      rw [descend_node_pos k r hx]
      simp [roots, hx]
    | false =>
      rw [descend_node_neg k r hx]
      simp [roots, hx, ihr]

theorem descend_some_root {f f' : Forest} (h : descend c new f = some f') :
    ∃ x ∈ roots f, c x new = true := by
  apply Classical.byContradiction
  intro hn
  have : ∀ x ∈ roots f, c x new = false := by
    intro x hx
    cases hc : c x new with
    | false => rfl
    | true => exact absurd ⟨x, hx, hc⟩ hn
  rw [(descend_eq_none_iff c new f).2 this] at h
  cases h

/-! ### the invariant -/

/-- descendants are contained in their ancestor; different sibling trees are mutually unrelated -/
def OK (c : Nat → Nat → Bool) : Forest → Prop
  | Forest.nil => True
  | Forest.node x k r => OK c k ∧ OK c r ∧ (∀ y ∈ ids k, c x y = true) ∧
      (∀ z ∈ x :: ids k, ∀ y ∈ ids r, c z y = false ∧ c y z = false)

theorem OK_node_iff (x : Nat) (k r : Forest) :
    OK c (Forest.node x k r) ↔ OK c k ∧ OK c r ∧ (∀ y ∈ ids k, c x y = true) ∧
      (∀ z ∈ x :: ids k, ∀ y ∈ ids r, c z y = false ∧ c y z = false) := Iff.rfl

theorem OK_inside {f : Forest} (h : OK c f) : OK c (inside c new f) := by
  induction f with
  | nil => simpa [inside] using h
  | node x k r _ ihr =>
    obtain ⟨h1, h2, h3, h4⟩ := (OK_node_iff x k r).1 h
    simp only [inside]
    split
    · exact (OK_node_iff _ _ _).2
        ⟨h1, ihr h2, h3, fun z hz y hy => h4 z hz y (mem_inside hy)⟩
    · exact ihr h2

theorem OK_outside {f : Forest} (h : OK c f) : OK c (outside c new f) := by
  induction f with
  | nil => simpa [outside] using h
  | node x k r _ ihr =>
    obtain ⟨h1, h2, h3, h4⟩ := (OK_node_iff x k r).1 h
    simp only [outside]
    split
    · exact ihr h2
    · exact (OK_node_iff _ _ _).2
        ⟨h1, ihr h2, h3, fun z hz y hy => h4 z hz y (mem_outside hy)⟩

theorem OK_snoc {f k : Forest} {x : Nat} (hf : OK c f) (hk : OK c k)
    (hx : ∀ y ∈ ids k, c x y = true)
    (hcross : ∀ z ∈ ids f, ∀ y ∈ x :: ids k, c z y = false ∧ c y z = false) :
    OK c (snoc x k f) := by
  induction f with
  | nil =>
    exact (OK_node_iff _ _ _).2 ⟨hk, trivial, hx, fun z _ y hy => by simp at hy⟩
  | node a k' r _ ihr =>
    obtain ⟨h1, h2, h3, h4⟩ := (OK_node_iff a k' r).1 hf
    simp only [snoc]
    refine (OK_node_iff _ _ _).2 ⟨h1, ihr h2 (fun z hz => hcross z (by simp [hz])), h3, ?_⟩
    intro z hz y hy
    rw [ids_snoc] at hy
    rcases List.mem_append.1 hy with hy | hy
    · exact h4 z hz y hy
    · refine hcross z ?_ y hy
      simp only [List.mem_cons] at hz
      rcases hz with hz | hz <;> simp [hz]

/-! ### (3) `place` preserves the invariant -/

theorem inside_contained (hc : Laminar c) {f : Forest} (h : OK c f) :
    ∀ y ∈ ids (inside c new f), c new y = true := by
  induction f with
  | nil => intro y hy; simp [inside] at hy
  | node x k r _ ihr =>
    obtain ⟨h1, h2, h3, h4⟩ := (OK_node_iff x k r).1 h
    intro y hy
    simp only [inside] at hy
    split at hy
    · rename_i hx
      simp only [ids_node, List.mem_cons, List.mem_append] at hy
      rcases hy with rfl | hy | hy
      · exact hx
      · exact hc.trans _ _ _ hx (h3 y hy)
      · exact ihr h2 y hy
    · exact ihr h2 y hy

theorem outside_unrelated (hc : Laminar c) {f : Forest} (h : OK c f)
    (hroots : ∀ x ∈ roots f, c x new = false) (hnew : new ∉ ids f) :
    ∀ z ∈ ids (outside c new f), c z new = false ∧ c new z = false := by
  induction f with
  | nil => intro z hz; simp [outside] at hz
  | node x k r _ ihr =>
    obtain ⟨h1, h2, h3, h4⟩ := (OK_node_iff x k r).1 h
    have hroots' : ∀ x ∈ roots r, c x new = false := fun y hy => hroots y (by simp [roots, hy])
    have hnew' : new ∉ ids r := fun hm => hnew (by simp [hm])
    have hne : new ≠ x := fun e => hnew (by simp [e])
    have hxn : c x new = false := hroots x (by simp [roots])
    intro z hz
    simp only [outside] at hz
    split at hz
    · exact ihr h2 hroots' hnew' z hz
    · rename_i hx
      have hnx : c new x = false := by simpa using hx
      simp only [ids_node, List.mem_cons, List.mem_append] at hz
      rcases hz with rfl | hz | hz
      · exact ⟨hxn, hnx⟩
      · have hxz := h3 z hz
        constructor
        · cases hzn : c z new with
          | false => rfl
          | true => rw [hc.trans _ _ _ hxz hzn] at hxn; cases hxn
        · cases hnz : c new z with
          | false => rfl
          | true =>
            rcases hc.lam new x z hnz hxz hne with h' | h'
            · rw [h'] at hnx; cases hnx
            · rw [h'] at hxn; cases hxn
      · exact ihr h2 hroots' hnew' z hz

theorem place_OK (hc : Laminar c) {f : Forest} (h : OK c f)
    (hroots : ∀ x ∈ roots f, c x new = false) (hnew : new ∉ ids f) :
    OK c (place c new f) := by
  unfold place
  have hin := inside_contained (new := new) hc h
  have hout := outside_unrelated hc h hroots hnew
  refine OK_snoc (OK_outside h) (OK_inside h) hin ?_
  intro z hz y hy
  have ⟨hzn, hnz⟩ := hout z hz
  simp only [List.mem_cons] at hy
  rcases hy with rfl | hy
  · exact ⟨hzn, hnz⟩
  · have hny := hin y hy
    have hne : z ≠ new := fun e => hnew (e ▸ mem_outside hz)
    constructor
    · cases hzy : c z y with
      | false => rfl
      | true =>
        rcases hc.lam z new y hzy hny hne with h' | h'
        · rw [h'] at hzn; cases hzn
        · rw [h'] at hnz; cases hnz
    · cases hyz : c y z with
      | false => rfl
      | true => rw [hc.trans _ _ _ hny hyz] at hnz; cases hnz

/-! ### (4) `descend` preserves the invariant -/

theorem insertLoop_OK_of (hc : Laminar c) {f : Forest} (h : OK c f) (hnew : new ∉ ids f)
    (hd : ∀ f', descend c new f = some f' → OK c f') : OK c (insertLoop c new f) := by
  unfold insertLoop
  cases hdf : descend c new f with
  | none => exact place_OK hc h ((descend_eq_none_iff c new f).1 hdf) hnew
  | some f' => exact hd f' hdf

theorem descend_OK (hc : Laminar c) (f : Forest) :
    OK c f → (ids f).Nodup → new ∉ ids f → ∀ f', descend c new f = some f' → OK c f' := by
  induction f with
  | nil => intro _ _ _ f' h; simp [descend] at h
  | node x k r ihk ihr =>
    intro h hnd hnew f' hf'
    obtain ⟨h1, h2, h3, h4⟩ := (OK_node_iff x k r).1 h
    simp only [ids_node, List.nodup_cons, List.nodup_append, List.mem_append, not_or] at hnd
    obtain ⟨⟨hxk, hxr⟩, hndk, hndr, hdisj⟩ := hnd
    simp only [ids_node, List.mem_cons, List.mem_append, not_or] at hnew
    obtain ⟨hnx, hnk, hnr⟩ := hnew
    cases hx : c x new with
    | true =>
      rw [descend_node_pos k r hx] at hf'
      injection hf' with hf'
      subst hf'
      have hk' : OK c (insertLoop c new k) := insertLoop_OK_of hc h1 hnk (ihk h1 hndk hnk)
      have hp : ∀ y, y ∈ ids (insertLoop c new k) ↔ y = new ∨ y ∈ ids k := fun y => by
        rw [(insertLoop_perm c new k).mem_iff]; simp
      refine (OK_node_iff _ _ _).2 ⟨hk', h2, ?_, ?_⟩
      · intro y hy
        rcases (hp y).1 hy with rfl | hy
        · exact hx
        · exact h3 y hy
      · intro z hz y hy
        simp only [List.mem_cons, hp] at hz
        rcases hz with rfl | rfl | hz
        · exact h4 z (by simp) y hy
        · have ⟨hxy, hyx⟩ := h4 x (by simp) y hy
          constructor
          · cases hzy : c z y with
            | false => rfl
            | true => rw [hc.trans _ _ _ hx hzy] at hxy; cases hxy
          · cases hyz : c y z with
            | false => rfl
            | true =>
              have hne : y ≠ x := fun e => hxr (e ▸ hy)
              rcases hc.lam y x z hyz hx hne with h' | h'
              · rw [h'] at hyx; cases hyx
              · rw [h'] at hxy; cases hxy
        · exact h4 z (by simp [hz]) y hy
    | false =>
      rw [descend_node_neg k r hx] at hf'
      cases hr : descend c new r with
      | none => simp [hr] at hf'
      | some r' =>
        simp [hr] at hf'
        subst hf'
        have hr' : OK c r' := ihr h2 hndr hnr r' hr
        obtain ⟨x', hx'r, hx'n⟩ := descend_some_root hr
        have hx'ids := roots_sub_ids hx'r
        have hp : ∀ y, y ∈ ids r' ↔ y = new ∨ y ∈ ids r := fun y => by
          rw [(descend_perm c new r r' hr).mem_iff]; simp
        refine (OK_node_iff _ _ _).2 ⟨h1, hr', h3, ?_⟩
        intro z hz y hy
        rcases (hp y).1 hy with rfl | hy
        · have ⟨hzx', hx'z⟩ := h4 z hz x' hx'ids
          constructor
          · cases hzy : c z y with
            | false => rfl
            | true =>
              simp only [List.mem_cons] at hz
              rcases hz with rfl | hz
              · rw [hzy] at hx; cases hx
              · rw [hc.trans _ _ _ (h3 z hz) hzy] at hx; cases hx
          · cases hyz : c y z with
            | false => rfl
            | true => rw [hc.trans _ _ _ hx'n hyz] at hx'z; cases hx'z
        · exact h4 z hz y hy

theorem insertLoop_OK (hc : Laminar c) {f : Forest} (h : OK c f) (hnd : (ids f).Nodup)
    (hnew : new ∉ ids f) : OK c (insertLoop c new f) :=
  insertLoop_OK_of hc h hnew (descend_OK hc f h hnd hnew)

/-! ### the forest built by `buildForest` -/

theorem foldl_insert (hc : Laminar c) (order : List Nat) :
    ∀ f, OK c f → (ids f ++ order).Nodup →
      OK c (order.foldl (fun f x => insertLoop c x f) f) ∧
      (ids (order.foldl (fun f x => insertLoop c x f) f)).Perm (ids f ++ order) := by
  induction order with
  | nil => intro f h _; simpa using h
  | cons a t ih =>
    intro f h hnd
    have hp := insertLoop_perm c a f
    have hnd' : (a :: (ids f ++ t)).Nodup := (List.perm_middle.nodup_iff).1 hnd
    have ha : a ∉ ids f := by
      simp only [List.nodup_cons, List.mem_append, not_or] at hnd'
      exact hnd'.1.1
    have hndf : (ids f).Nodup := (List.nodup_append.1 hnd).1
    have hnd'' : (ids (insertLoop c a f) ++ t).Nodup :=
      ((hp.append_right t).nodup_iff).2 hnd'
    obtain ⟨h1, h2⟩ := ih (insertLoop c a f) (insertLoop_OK hc h hndf ha) hnd''
    refine ⟨h1, h2.trans ?_⟩
    exact (hp.append_right t).trans List.perm_middle.symm

theorem buildForest_OK (hc : Laminar c) {order : List Nat} (hnd : order.Nodup) :
    OK c (buildForest c order) :=
  (foldl_insert hc order Forest.nil trivial (by simpa using hnd)).1

theorem buildForest_perm (hc : Laminar c) {order : List Nat} (hnd : order.Nodup) :
    (ids (buildForest c order)).Perm order := by
  unfold buildForest
  simpa using (foldl_insert hc order Forest.nil trivial (by simpa using hnd)).2

/-- the special one-loop branch of `initNested` agrees with the general path -/
theorem initNested_single (c : Nat → Nat → Bool) (x : Nat) :
    (buildForest c [x]).flat 0 = [(x, 0)] := rfl

theorem initNested_eq (c : Nat → Nat → Bool) (order : List Nat) :
    initNested c order = (buildForest c order).flat 0 := by
  unfold initNested
  split
  · exact (initNested_single c _).symm
  · rfl

/-! ### (5) depth = number of containing loops -/

theorem filter_length_zero {l : List Nat} {p : Nat → Bool} (h : ∀ z ∈ l, p z = false) :
    (l.filter p).length = 0 := by
  have : l.filter p = [] := List.filter_eq_nil_iff.2 (fun z hz => by simp [h z hz])
  simp [this]

theorem flat_depth (hc : Laminar c) (f : Forest) :
    ∀ d, OK c f → ∀ p ∈ flat d f,
      p.2 = d + ((ids f).filter (fun z => c z p.1)).length := by
  induction f with
  | nil => intro d _ p hp; simp [flat] at hp
  | node x k r ihk ihr =>
    intro d h p hp
    obtain ⟨h1, h2, h3, h4⟩ := (OK_node_iff x k r).1 h
    simp only [flat, List.mem_cons, List.mem_append] at hp
    simp only [ids_node, List.filter_cons, List.filter_append]
    rcases hp with rfl | hp | hp
    · have e1 : c x x = false := hc.irrefl x
      have e2 : ((ids k).filter (fun z => c z x)).length = 0 :=
        filter_length_zero (fun z hz => hc.asymm (h3 z hz))
      have e3 : ((ids r).filter (fun z => c z x)).length = 0 :=
        filter_length_zero (fun z hz => (h4 x (by simp) z hz).2)
      simp [e1, e2, e3]
    · have hm := mem_flat_ids hp
      have e1 : c x p.1 = true := h3 _ hm
      have e2 := ihk (d + 1) h1 p hp
      have e3 : ((ids r).filter (fun z => c z p.1)).length = 0 :=
        filter_length_zero (fun z hz => (h4 p.1 (by simp [hm]) z hz).2)
      simp [e1, e3]
      omega
    · have hm := mem_flat_ids hp
      have e1 : c x p.1 = false := (h4 x (by simp) _ hm).1
      have e2 : ((ids k).filter (fun z => c z p.1)).length = 0 :=
        filter_length_zero (fun z hz => (h4 z (by simp [hz]) _ hm).1)
      have e3 := ihr d h2 p hp
      simp [e1, e2]
      omega

/-! ### T1 – T3 -/

/-- T1: every loop appears exactly once in the output -/
theorem initNested_perm (hc : Laminar c) {order : List Nat} (hnd : order.Nodup) :
    ((initNested c order).map Prod.fst).Perm order := by
  rw [initNested_eq, map_fst_flat]
  exact buildForest_perm hc hnd

/-- T2: the depth of a loop is the number of loops that contain it -/
theorem initNested_depth (hc : Laminar c) {order : List Nat} (hnd : order.Nodup) :
    ∀ p ∈ initNested c order, p.2 = (order.filter (fun x => c x p.1)).length := by
  intro p hp
  rw [initNested_eq] at hp
  have := flat_depth hc _ 0 (buildForest_OK hc hnd) p hp
  rw [this, Nat.zero_add]
  exact ((buildForest_perm hc hnd).filter _).length_eq

theorem isHole_iff (n : Nat) : isHole n = true ↔ n % 2 = 1 := by
  unfold isHole
  rw [Nat.and_one_is_mod]
  simp

/-- T3: a loop is a hole iff it is enclosed by an odd number of the other loops -/
theorem initNested_isHole (hc : Laminar c) {order : List Nat} (hnd : order.Nodup) :
    ∀ p ∈ initNested c order,
      (isHole p.2 = true ↔ (order.filter (fun x => c x p.1)).length % 2 = 1) := by
  intro p hp
  rw [isHole_iff, initNested_depth hc hnd p hp]

/-! ### (6) descendants are contiguous -/

/-- the list is empty or its first entry has depth `≤ d0` -/
def Stops (d0 : Nat) (tail : List (Nat × Nat)) : Prop := ∀ q ∈ tail.head?, q.2 ≤ d0

theorem Stops.mono {d0 d1 : Nat} {tail : List (Nat × Nat)} (h : Stops d0 tail) (hd : d0 ≤ d1) :
    Stops d1 tail := fun q hq => Nat.le_trans (h q hq) hd

theorem takeWhile_stops {d0 d : Nat} {tail : List (Nat × Nat)} (h : Stops d0 tail) (hd : d0 ≤ d) :
    tail.takeWhile (fun p => decide (p.2 > d)) = [] := by
  cases tail with
  | nil => rfl
  | cons q t =>
    have : q.2 ≤ d0 := h q (by simp)
    rw [List.takeWhile_cons_of_neg]
    simp
    omega

theorem flat_ge {f : Forest} {d : Nat} {p : Nat × Nat} (h : p ∈ flat d f) : d ≤ p.2 := by
  induction f generalizing d with
  | nil => simp [flat] at h
  | node x k r ihk ihr =>
    simp only [flat, List.mem_cons, List.mem_append] at h
    rcases h with rfl | h | h
    · exact Nat.le_refl _
    · have := ihk h; omega
    · exact ihr h

theorem takeWhile_flat {d d0 : Nat} (f : Forest) (tail : List (Nat × Nat)) (hd : d < d0) :
    (flat d0 f ++ tail).takeWhile (fun p => decide (p.2 > d)) =
      flat d0 f ++ tail.takeWhile (fun p => decide (p.2 > d)) :=
  List.takeWhile_append_of_pos (fun p hp => by
    have := flat_ge hp
    simp
    omega)

theorem stops_flat_append {d0 : Nat} (r : Forest) {tail : List (Nat × Nat)} (h : Stops d0 tail) :
    Stops d0 (flat d0 r ++ tail) := by
  cases r with
  | nil => simpa [flat] using h
  | node x k r => intro q hq; simp [flat] at hq; subst hq; exact Nat.le_refl _

/-- the maximal run of deeper entries that follows `x` consists exactly of the loops contained in `x` -/
theorem block_mem (hc : Laminar c) (f : Forest) :
    ∀ d0, OK c f → ∀ (pre : List (Nat × Nat)) (x d : Nat) (post tail : List (Nat × Nat)),
      flat d0 f = pre ++ (x, d) :: post → Stops d0 tail →
      ∀ y, y ∈ ((post ++ tail).takeWhile (fun p => decide (p.2 > d))).map Prod.fst ↔
        (y ∈ ids f ∧ c x y = true) := by
  induction f with
  | nil => intro d0 _ pre x d post tail h; simp [flat] at h
  | node a k r ihk ihr =>
    intro d0 h pre x d post tail hflat hstop y
    obtain ⟨h1, h2, h3, h4⟩ := (OK_node_iff a k r).1 h
    -- the two recursive situations
    have inR : ∀ pre', flat d0 r = pre' ++ (x, d) :: post →
        (y ∈ ((post ++ tail).takeWhile (fun p => decide (p.2 > d))).map Prod.fst ↔
          (y ∈ ids (Forest.node a k r) ∧ c x y = true)) := by
      intro pre' hr
      rw [ihr d0 h2 pre' x d post tail hr hstop y]
      have hx : x ∈ ids r := by
        have : (x, d) ∈ flat d0 r := by rw [hr]; simp
        exact mem_flat_ids this
      simp only [ids_node, List.mem_cons, List.mem_append]
      constructor
      · rintro ⟨hy, hxy⟩; exact ⟨Or.inr (Or.inr hy), hxy⟩
      · rintro ⟨hy | hy | hy, hxy⟩
        · subst hy; rw [(h4 y (by simp) x hx).2] at hxy; cases hxy
        · rw [(h4 y (by simp [hy]) x hx).2] at hxy; cases hxy
        · exact ⟨hy, hxy⟩
    cases pre with
    | nil =>
      simp only [flat, List.nil_append, List.cons.injEq, Prod.mk.injEq] at hflat
      obtain ⟨⟨rfl, rfl⟩, rfl⟩ := hflat
      rw [List.append_assoc, takeWhile_flat _ _ (Nat.lt_succ_self _),
        takeWhile_stops (stops_flat_append r hstop) (Nat.le_refl _), List.append_nil,
        map_fst_flat]
      simp only [ids_node, List.mem_cons, List.mem_append]
      constructor
      · intro hy; exact ⟨Or.inr (Or.inl hy), h3 y hy⟩
      · rintro ⟨hy | hy | hy, hxy⟩
        · subst hy; rw [hc.irrefl] at hxy; cases hxy
        · exact hy
        · rw [(h4 a (by simp) y hy).1] at hxy; cases hxy
    | cons q pre' =>
      simp only [flat, List.cons_append, List.cons.injEq] at hflat
      obtain ⟨rfl, hflat⟩ := hflat
      rcases List.append_eq_append_iff.1 hflat with ⟨a', _, hr⟩ | ⟨c', hk, hr⟩
      · exact inR a' hr
      · cases c' with
        | nil => exact inR [] (by simpa using hr.symm)
        | cons q' c'' =>
          simp only [List.cons_append, List.cons.injEq] at hr
          obtain ⟨rfl, rfl⟩ := hr
          rw [List.append_assoc,
            ihk (d0 + 1) h1 pre' x d c'' (flat d0 r ++ tail) hk
              ((stops_flat_append r hstop).mono (Nat.le_succ _)) y]
          have hx : x ∈ ids k := by
            have : (x, d) ∈ flat (d0 + 1) k := by rw [hk]; simp
            exact mem_flat_ids this
          simp only [ids_node, List.mem_cons, List.mem_append]
          constructor
          · rintro ⟨hy, hxy⟩; exact ⟨Or.inr (Or.inl hy), hxy⟩
          · rintro ⟨hy | hy | hy, hxy⟩
            · subst hy; rw [hc.asymm (h3 x hx)] at hxy; cases hxy
            · exact ⟨hy, hxy⟩
            · rw [(h4 x (by simp [hx]) y hy).1] at hxy; cases hxy

/-- T4: in the output, the maximal run of deeper entries following `x` (what
    `Polygon.LastDescendant` scans) is exactly the set of loops contained in `x` -/
theorem initNested_preorder (hc : Laminar c) {order : List Nat} (hnd : order.Nodup)
    (pre : List (Nat × Nat)) (x d : Nat) (post : List (Nat × Nat))
    (hr : initNested c order = pre ++ (x, d) :: post) :
    ∀ y, y ∈ (post.takeWhile (fun p => p.2 > d)).map Prod.fst ↔ (y ∈ order ∧ c x y = true) := by
  intro y
  rw [initNested_eq] at hr
  have := block_mem hc _ 0 (buildForest_OK hc hnd) pre x d post [] hr
    (fun q hq => by simp at hq) y
  rw [List.append_nil] at this
  rw [this, (buildForest_perm hc hnd).mem_iff]

/-- T4': `Polygon.LastDescendant(k)` = `k` + the number of loops contained in the `k`-th loop -/
theorem initNested_lastDescendant (hc : Laminar c) {order : List Nat} (hnd : order.Nodup)
    (k : Nat) (hk : k < (initNested c order).length) :
    lastDescendant ((initNested c order).map Prod.snd) k =
      k + (order.filter (fun y => c ((initNested c order)[k]).1 y)).length := by
  have hperm := initNested_perm hc hnd
  generalize hr : initNested c order = r at hk hperm ⊢
  have hsplit : r = r.take k ++ (r[k].1, r[k].2) :: r.drop (k + 1) := by
    show r = r.take k ++ r[k] :: r.drop (k + 1)
    rw [List.getElem_cons_drop]; exact (List.take_append_drop k r).symm
  have hT4 := initNested_preorder hc hnd (r.take k) r[k].1 r[k].2 (r.drop (k + 1))
    (hr.trans hsplit)
  unfold lastDescendant
  have hd : (r.map Prod.snd).getD k 0 = r[k].2 := by simp [hk]
  simp only [hd]
  rw [← List.map_drop, List.takeWhile_map, List.length_map]
  congr 1
  have hsub : ((r.drop (k + 1)).takeWhile (fun p => decide (p.2 > r[k].2))).Sublist r :=
    (List.takeWhile_sublist _).trans (List.drop_sublist _ _)
  have hnd1 : (((r.drop (k + 1)).takeWhile (fun p => decide (p.2 > r[k].2))).map Prod.fst).Nodup :=
    (hsub.map Prod.fst).nodup (hperm.nodup_iff.2 hnd)
  have hnd2 : (order.filter (fun y => c r[k].1 y)).Nodup := hnd.filter _
  have hp : (((r.drop (k + 1)).takeWhile (fun p => decide (p.2 > r[k].2))).map Prod.fst).Perm
      (order.filter (fun y => c r[k].1 y)) :=
    (List.perm_ext_iff_of_nodup hnd1 hnd2).2 (fun y => by rw [hT4 y]; simp)
  rw [← hp.length_eq, List.length_map]
  rfl

/-! ### T5: non-vacuity -/

/-- two shells; shell 0 has a hole 1 that contains an island 2; shell 3 has a hole 4 -/
def cEx (x y : Nat) : Bool := decide ((x, y) ∈ [(0, 1), (0, 2), (1, 2), (3, 4)])

theorem cEx_lt {x y : Nat} (h : cEx x y = true) : x < 5 ∧ y < 5 := by
  simp [cEx] at h; omega

theorem cEx_trans_bounded : ∀ x < 5, ∀ y < 5, ∀ z < 5,
    cEx x y = true → cEx y z = true → cEx x z = true := by decide

theorem cEx_lam_bounded : ∀ x < 5, ∀ y < 5, ∀ z < 5,
    (cEx x z = true ∧ cEx y z = true) → x = y ∨ cEx x y = true ∨ cEx y x = true := by decide

theorem cEx_laminar : Laminar cEx where
  irrefl := by intro x; simp [cEx]; omega
  trans := fun x y z h1 h2 =>
    cEx_trans_bounded x (cEx_lt h1).1 y (cEx_lt h1).2 z (cEx_lt h2).2 h1 h2
  lam := fun x y z h1 h2 hne =>
    (cEx_lam_bounded x (cEx_lt h1).1 y (cEx_lt h2).1 z (cEx_lt h1).2 ⟨h1, h2⟩).resolve_left hne

example : initNested cEx [0, 1, 2, 3, 4] = [(0, 0), (1, 1), (2, 2), (3, 0), (4, 1)] := by decide
example : initNested cEx [4, 2, 3, 1, 0] = [(3, 0), (4, 1), (0, 0), (1, 1), (2, 2)] := by decide
example : initNested cEx [2, 4, 1, 3, 0] = [(3, 0), (4, 1), (0, 0), (1, 1), (2, 2)] := by decide
example : initNested cEx [7] = [(7, 0)] := by decide
example : (buildForest cEx [7]).flat 0 = initNested cEx [7] := by decide

end S2Proofs.C07.Nest
