/-
  S2Proofs.C07.WalkSoundGen — a SOUNDNESS induction principle for the merge loop of
  `hasCrossingRelation` (`S2.RelateWalk.mainLoop`), for every instance of the tests:
  if every callback keeps a state invariant `J` and every callback that reports `true` yields a
  (state-independent) witness `W`, then the walk keeps `J` and a walk that returns `true` yields `W`.
  The centre callbacks are given the positional facts the walk guarantees when it issues them
  (`UnderR`: the other index's cell lies in the own edge-free cell and is strictly smaller;
  `SameR`: equal cells) — these need the index hypotheses (`Facts`, `Lam`, from `IdxOK`).
  Helper lemmas; the property theorems are in S2Proofs/Properties/C07_WalkSound.lean.
-/
import S2Proofs.C07.WalkMain
namespace S2Proofs.C07
open S2 S2.CellID S2.RelateWalk

/-- cell `y` of `IT` meets cell `x` of `IO` and is strictly smaller (so it lies inside it) -/
def UnderR (IO IT : Index) (x y : Nat) : Prop :=
  interR IO IT x y ∧ hi IT y - lo IT y < hi IO x - lo IO x

/-- cell `x` of `IA` and cell `y` of `IB` meet and have the same size (so they are the same cell) -/
def SameR (IA IB : Index) (x y : Nat) : Prop :=
  interR IA IB x y ∧ hi IA x - lo IA x = hi IB y - lo IB y

/-- every callback keeps `J`; a callback that reports a crossing yields `W`.  `CA sw x` is what a
    `true` answer of `centerA` establishes (it only selects the control path); `centerB` may use it,
    that the own cell has no edges, and the position of the two cells; `sameCenter` may use that the
    cells are equal. -/
structure SoundT {σ : Type} (T : Tests σ) (IA IB : Index) (J : σ → Prop) (W : Prop) (CA : Bool → Nat → Prop) : Prop where
  cellCell : ∀ sw x y s, J s → J (T.cellCell sw x y s).1 ∧ ((T.cellCell sw x y s).2 = true → W)
  subcell : ∀ sw x s, J s → J (T.subcell sw x s).1 ∧ ((T.subcell sw x s).2 = true → W)
  centerA : ∀ sw x s, J s → J (T.centerA sw x s).1 ∧ ((T.centerA sw x s).2 = true → CA sw x)
  centerB : ∀ sw x y s, J s → J (T.centerB sw x y s).1 ∧
    ((T.centerB sw x y s).2 = true → CA sw x → (if sw then IB else IA).numEdgesAt x = 0 →
      (if sw then UnderR IB IA x y else UnderR IA IB x y) → W)
  sameCenter : ∀ x y s, J s → J (T.sameCenter x y s).1 ∧ ((T.sameCenter x y s).2 = true → SameR IA IB x y → W)

section
variable {σ : Type} {T : Tests σ} {J : σ → Prop} {W : Prop}

theorem directCells_sound (sw : Bool) (pa : Nat)
    (hcc : ∀ y s, J s → J (T.cellCell sw pa y s).1 ∧ ((T.cellCell sw pa y s).2 = true → W)) :
    ∀ (cells : List Nat) (s : σ), J s →
      J (directCells T sw pa cells s).1 ∧ ((directCells T sw pa cells s).2 = true → W) := by
  intro cells
  induction cells with
  | nil => intro s hJ; exact ⟨hJ, fun h => by simp [directCells] at h⟩
  | cons c rest ih =>
    intro s hJ
    unfold directCells
    simp only []
    obtain ⟨h1, h2⟩ := hcc c s hJ
    by_cases hr : (T.cellCell sw pa c s).2 = true
    · rw [if_pos hr]; exact ⟨h1, fun _ => h2 hr⟩
    · rw [if_neg hr]; exact ih _ h1

theorem hasCrossing_sound (sw : Bool) (IO IT : Index) (pa pb : Nat)
    (hcc : ∀ y s, J s → J (T.cellCell sw pa y s).1 ∧ ((T.cellCell sw pa y s).2 = true → W))
    (hsub : ∀ s, J s → J (T.subcell sw pa s).1 ∧ ((T.subcell sw pa s).2 = true → W)) (s : σ) :
    J s → J (hasCrossing T sw IO IT pa pb s).1 ∧ ((hasCrossing T sw IO IT pa pb s).2.2 = true → W) := by
  intro hJ
  unfold hasCrossing
  split
  · simp only []
    obtain ⟨h1, h2⟩ := hsub s hJ
    by_cases hr : (T.subcell sw pa s).2 = true
    · rw [if_pos hr]; exact ⟨h1, fun _ => h2 hr⟩
    · rw [if_neg hr]; exact ⟨h1, fun h => by cases h⟩
  · exact directCells_sound sw pa hcc _ s hJ

theorem centerLoop_sound (sw : Bool) (IO IT : Index) (pa : Nat) {pb : Nat} (C : StepCtx IO IT pa pb)
    (hcB : ∀ y s, J s → J (T.centerB sw pa y s).1 ∧ ((T.centerB sw pa y s).2 = true → UnderR IO IT pa y → W)) :
    ∀ (fuel p : Nat) (s : σ), pb ≤ p → J s →
      J (centerLoop T sw IT (IO.rangeMaxAt pa) pa fuel p s).1 ∧
      ((centerLoop T sw IT (IO.rangeMaxAt pa) pa fuel p s).2.2 = true → W) := by
  intro fuel
  induction fuel with
  | zero => intro p s _ hJ; exact ⟨hJ, fun h => by cases h⟩
  | succ fuel ih =>
    intro p s hp hJ
    rw [centerLoop_succ]
    by_cases hle : IT.idAt p ≤ IO.rangeMaxAt pa
    · rw [if_pos hle]
      have hle' : idn IT p ≤ hi IO pa := toNat_le_iff.mp hle
      have hp1 : p < IT.size := by
        rcases Nat.lt_or_ge p IT.size with h | h
        · exact h
        · have := (C.FT.out p h).2.1; have := C.hiO_small; omega
      obtain ⟨h1, h2⟩ := hcB p s hJ
      by_cases hr : (T.centerB sw pa p s).2 = true
      · rw [if_pos hr]
        refine ⟨h1, fun _ => h2 hr ?_⟩
        have hR := C.FT.inR p hp1
        have hin := C.inside hp hp1 (by omega)
        have hRa := C.FO.inR pa C.hpa
        refine ⟨⟨C.hpa, hp1, by omega, by omega⟩, ?_⟩
        rcases Nat.lt_or_ge pb p with h' | h'
        · have := C.FT.srt pb p h' hp1
          have := C.FT.inR pb C.hpb
          have := C.sub
          omega
        · have : p = pb := by omega
          subst this; exact C.strict
      · rw [if_neg hr]; exact ih (p + 1) _ (by omega) h1
    · rw [if_neg hle]; exact ⟨hJ, fun h => by cases h⟩

theorem crosserStep_sound (sw : Bool) (IO IT : Index) (pa : Nat) {pb : Nat} (C : StepCtx IO IT pa pb) (CAx : Prop)
    (hcc : ∀ y s, J s → J (T.cellCell sw pa y s).1 ∧ ((T.cellCell sw pa y s).2 = true → W))
    (hsub : ∀ s, J s → J (T.subcell sw pa s).1 ∧ ((T.subcell sw pa s).2 = true → W))
    (hcA : ∀ s, J s → J (T.centerA sw pa s).1 ∧ ((T.centerA sw pa s).2 = true → CAx))
    (hcB : ∀ y s, J s → J (T.centerB sw pa y s).1 ∧
      ((T.centerB sw pa y s).2 = true → CAx → IO.numEdgesAt pa = 0 → UnderR IO IT pa y → W)) (s : σ) :
    J s → J (crosserStep T sw IO IT pa pb s).1 ∧ ((crosserStep T sw IO IT pa pb s).2.2.2 = true → W) := by
  intro hJ
  rw [crosserStep_eq]
  split
  · obtain ⟨h1, h2⟩ := hasCrossing_sound sw IO IT pa pb hcc hsub s hJ
    by_cases hr : (hasCrossing T sw IO IT pa pb s).2.2 = true
    · rw [if_pos hr]; exact ⟨h1, fun _ => h2 hr⟩
    · rw [if_neg hr]; exact ⟨h1, fun h => by cases h⟩
  · rename_i hne
    have h0 : IO.numEdgesAt pa = 0 := by simpa using hne
    obtain ⟨a1, a2⟩ := hcA s hJ
    split
    · rename_i hm
      obtain ⟨h1, h2⟩ := centerLoop_sound sw IO IT pa C
        (fun y s hJ => ⟨(hcB y s hJ).1, fun hf hu => (hcB y s hJ).2 hf (a2 hm) h0 hu⟩)
        (IT.size + 2 - pb) pb (T.centerA sw pa s).1 (Nat.le_refl _) a1
      by_cases hr : (centerLoop T sw IT (IO.rangeMaxAt pa) pa (IT.size + 2 - pb) pb (T.centerA sw pa s).1).2.2 = true
      · rw [if_pos hr]; exact ⟨h1, fun _ => h2 hr⟩
      · rw [if_neg hr]; exact ⟨h1, fun h => by cases h⟩
    · exact ⟨a1, fun h => by cases h⟩

end

/-- SOUNDNESS INDUCTION over the merge loop: on valid sorted disjoint indexes (`Facts`, `Lam`), from a
    frontier position (`CleanR`), a walk whose callbacks are sound (`SoundT`) keeps `J`, and if it
    returns `true` the witness `W` holds. -/
theorem mainLoop_sound {σ : Type} {T : Tests σ} {IA IB : Index} {J : σ → Prop} {W : Prop} {CA : Bool → Nat → Prop}
    (S : SoundT T IA IB J W CA) (FA : Facts IA) (FB : Facts IB) (L : Lam IA IB) :
    ∀ (fuel pa pb : Nat) (s s' : σ) (r : Bool), pa ≤ IA.size → pb ≤ IB.size → CleanR IA IB pa pb → J s →
      mainLoop T IA IB fuel pa pb s = some (s', r) → J s' ∧ (r = true → W) := by
  intro fuel
  induction fuel with
  | zero => intro pa pb s s' r _ _ _ _ h; simp [mainLoop] at h
  | succ fuel ih =>
    intro pa pb s s' r hpa hpb hc hJ h
    rw [mainLoop_succ] at h
    by_cases hd : (!(!IA.done pa || !IB.done pb)) = true
    · rw [if_pos hd] at h
      simp only [Option.some.injEq, Prod.mk.injEq] at h
      obtain ⟨rfl, rfl⟩ := h
      exact ⟨hJ, fun h => by cases h⟩
    · rw [if_neg hd] at h
      have hnd : pa < IA.size ∨ pb < IB.size := by
        rcases Nat.lt_or_ge pa IA.size with h | h
        · exact Or.inl h
        · rcases Nat.lt_or_ge pb IB.size with h' | h'
          · exact Or.inr h'
          · have a := (FA.done_iff pa).mpr h
            have b := (FB.done_iff pb).mpr h'
            rw [a, b] at hd; simp at hd
      have eloA : lo IA pa = (IA.rangeMinAt pa).toNat := rfl
      have ehiA : hi IA pa = (IA.rangeMaxAt pa).toNat := rfl
      have eloB : lo IB pb = (IB.rangeMinAt pb).toNat := rfl
      have ehiB : hi IB pb = (IB.rangeMaxAt pb).toNat := rfl
      have outA : IA.size ≤ pa → lo IA pa = SN ∧ hi IA pa = SN := fun h => ⟨(FA.out pa h).1, (FA.out pa h).2.2⟩
      have outB : IB.size ≤ pb → lo IB pb = SN ∧ hi IB pb = SN := fun h => ⟨(FB.out pb h).1, (FB.out pb h).2.2⟩
      have inA : pa < IA.size → lo IA pa ≤ hi IA pa ∧ hi IA pa < SN := fun h => by have := FA.inR pa h; omega
      have inB : pb < IB.size → lo IB pb ≤ hi IB pb ∧ hi IB pb < SN := fun h => by have := FB.inR pb h; omega
      by_cases h1 : IA.rangeMaxAt pa < IB.rangeMinAt pb
      · rw [if_pos h1] at h
        have h1' : hi IA pa < lo IB pb := toNat_lt_iff.mp h1
        have hpa' : pa < IA.size := by
          rcases Nat.lt_or_ge pa IA.size with h | h
          · exact h
          · have := outA h
            rcases Nat.lt_or_ge pb IB.size with h' | h'
            · have := inB h'; omega
            · have := outB h'; omega
        have tgt : Target IA (IB.rangeMinAt pb).toNat (IB.idAt pb).toNat (IB.rangeMaxAt pb).toNat := by
          refine ⟨?_, ?_⟩
          · rcases Nat.lt_or_ge pb IB.size with h | h
            · have := FB.inR pb h; unfold lo hi idn at this; omega
            · have := FB.out pb h; unfold lo hi idn at this; omega
          · intro p hp
            rcases Nat.lt_or_ge pb IB.size with h | h
            · exact L.lam p pb hp h
            · left; have := outB h; have := FA.inR p hp; omega
        have hq := seekTo_spec FA tgt
        obtain ⟨_, b, c, _⟩ := step_seek (mk := mkPair false) (l := []) FA FB hpa' hpb h1' hq hc
        exact ih _ pb s s' r b hpb c hJ h
      · rw [if_neg h1] at h
        have h1' : ¬ hi IA pa < lo IB pb := fun h => h1 (toNat_lt_iff.mpr h)
        by_cases h2 : IB.rangeMaxAt pb < IA.rangeMinAt pa
        · rw [if_pos h2] at h
          have h2' : hi IB pb < lo IA pa := toNat_lt_iff.mp h2
          have hpb' : pb < IB.size := by
            rcases Nat.lt_or_ge pb IB.size with h | h
            · exact h
            · have := outB h
              rcases Nat.lt_or_ge pa IA.size with h' | h'
              · have := inA h'; omega
              · have := outA h'; omega
          have tgt : Target IB (IA.rangeMinAt pa).toNat (IA.idAt pa).toNat (IA.rangeMaxAt pa).toNat := by
            refine ⟨?_, ?_⟩
            · rcases Nat.lt_or_ge pa IA.size with h | h
              · have := FA.inR pa h; unfold lo hi idn at this; omega
              · have := FA.out pa h; unfold lo hi idn at this; omega
            · intro p hp
              rcases Nat.lt_or_ge pa IA.size with h | h
              · rcases L.lam pa p h hp with x | x | x | x
                · right; left; exact x
                · left; exact x
                · right; right; right; exact x
                · right; right; left; exact x
              · left; have := outA h; have := FB.inR p hp; omega
          have hq := seekTo_spec FB tgt
          obtain ⟨_, b, c, _⟩ := step_seek (mk := fun j i => mkPair false i j) (l := []) FB FA hpb' hpa h2' hq hc.swap
          exact ih pa _ s s' r hpa b c.swap hJ h
        · rw [if_neg h2] at h
          have h2' : ¬ hi IB pb < lo IA pa := fun h => h2 (toNat_lt_iff.mpr h)
          have hpa' : pa < IA.size := by
            rcases Nat.lt_or_ge pa IA.size with h | h
            · exact h
            · have := outA h
              rcases hnd with h' | h'
              · omega
              · have := inB h'; omega
          have hpb' : pb < IB.size := by
            rcases Nat.lt_or_ge pb IB.size with h | h
            · exact h
            · have := outB h; have := inA hpa'; omega
          have hlam := L.lam pa pb hpa' hpb'
          have hrel := L.rel pa pb hpa' hpb'
          have hRa := FA.inR pa hpa'
          have hRb := FB.inR pb hpb'
          by_cases h3 : 0 < int64OfWord (lsb (IA.idAt pa) - lsb (IB.idAt pb))
          · rw [if_pos h3] at h
            have hst := hrel.1.mp h3
            have C : StepCtx IA IB pa pb :=
              { FO := FA, FT := FB, hpa := hpa', hpb := hpb', lamRow := fun j hj => L.lam pa j hpa' hj
                sub := by rcases hlam with x | x | x | x <;> omega
                strict := hst
                before := fun j hj => hc.2 pa j hj (Nat.le_refl _) hpa' }
            have hspec := crosserStep_spec T false IA IB pa (fun _ => []) (mkPair false pa) (under IA IB pa) False C
              (fun hP => hP.elim) (fun hP => hP.elim) (fun hP => hP.elim) (fun hP => hP.elim)
              ⟨under_nodup IA IB pa, mem_under IA IB pa⟩ s
            have hsound := crosserStep_sound (T := T) (J := J) (W := W) false IA IB pa C (CA false pa)
              (S.cellCell false pa) (S.subcell false pa) (S.centerA false pa)
              (fun y s hJ => S.centerB false pa y s hJ) s hJ
            by_cases hr : (crosserStep T false IA IB pa pb s).2.2.2 = true
            · rw [if_pos hr] at h
              simp only [Option.some.injEq, Prod.mk.injEq] at h
              obtain ⟨rfl, rfl⟩ := h
              exact ⟨hsound.1, fun _ => hsound.2 hr⟩
            · rw [if_neg hr] at h
              rcases hspec with hx | ⟨e1, hq, _⟩
              · exact absurd hx hr
              · obtain ⟨_, b, c, _⟩ := step_larger (l := []) mkInj_false C hq hc
                rw [e1] at h
                exact ih (pa + 1) _ _ s' r (by omega) b c hsound.1 h
          · rw [if_neg h3] at h
            by_cases h4 : int64OfWord (lsb (IA.idAt pa) - lsb (IB.idAt pb)) < 0
            · rw [if_pos h4] at h
              have hst := hrel.2.mp h4
              have C : StepCtx IB IA pb pa :=
                { FO := FB, FT := FA, hpa := hpb', hpb := hpa'
                  lamRow := fun i hi' => by
                    rcases L.lam i pb hi' hpb' with x | x | x | x
                    · right; left; exact x
                    · left; exact x
                    · right; right; right; exact x
                    · right; right; left; exact x
                  sub := by rcases hlam with x | x | x | x <;> omega
                  strict := hst
                  before := fun i hi' => hc.1 i pb hi' (Nat.le_refl _) hpb' }
              have hspec := crosserStep_spec T true IB IA pb (fun _ => []) (mkPair true pb) (under IB IA pb) False C
                (fun hP => hP.elim) (fun hP => hP.elim) (fun hP => hP.elim) (fun hP => hP.elim)
                ⟨under_nodup IB IA pb, mem_under IB IA pb⟩ s
              have hsound := crosserStep_sound (T := T) (J := J) (W := W) true IB IA pb C (CA true pb)
                (S.cellCell true pb) (S.subcell true pb) (S.centerA true pb)
                (fun y s hJ => S.centerB true pb y s hJ) s hJ
              by_cases hr : (crosserStep T true IB IA pb pa s).2.2.2 = true
              · rw [if_pos hr] at h
                simp only [Option.some.injEq, Prod.mk.injEq] at h
                obtain ⟨rfl, rfl⟩ := h
                exact ⟨hsound.1, fun _ => hsound.2 hr⟩
              · rw [if_neg hr] at h
                rcases hspec with hx | ⟨e1, hq, _⟩
                · exact absurd hx hr
                · obtain ⟨_, b, c, _⟩ := step_larger (l := []) mkInj_true C hq hc.swap
                  rw [e1] at h
                  exact ih _ (pb + 1) _ s' r b (by omega) c.swap hsound.1 h
            · rw [if_neg h4] at h
              have hsz : hi IA pa - lo IA pa = hi IB pb - lo IB pb := by
                have a := hrel.1; have b := hrel.2
                rcases Nat.lt_trichotomy (hi IB pb - lo IB pb) (hi IA pa - lo IA pa) with x | x | x
                · exact absurd (a.mpr x) h3
                · exact x.symm
                · exact absurd (b.mpr x) h4
              have hlo : lo IA pa = lo IB pb := by rcases hlam with x | x | x | x <;> omega
              have hhi : hi IA pa = hi IB pb := by rcases hlam with x | x | x | x <;> omega
              obtain ⟨c, _⟩ := step_same (l := []) (mk := mkPair false) FA FB mkInj_false hpa' hpb' hlo hhi hc
              obtain ⟨s1, s2⟩ := S.sameCenter pa pb s hJ
              have hsame : SameR IA IB pa pb := ⟨⟨hpa', hpb', by omega, by omega⟩, hsz⟩
              by_cases h5 : (T.sameCenter pa pb s).2 = true
              · rw [if_pos h5] at h
                simp only [Option.some.injEq, Prod.mk.injEq] at h
                obtain ⟨rfl, rfl⟩ := h
                exact ⟨s1, fun _ => s2 h5 hsame⟩
              · rw [if_neg h5] at h
                by_cases h6 : (decide (IA.numEdgesAt pa > 0) && decide (IB.numEdgesAt pb > 0)) = true
                · rw [if_pos h6] at h
                  obtain ⟨c1, c2⟩ := S.cellCell false pa pb _ s1
                  by_cases h7 : (T.cellCell false pa pb (T.sameCenter pa pb s).1).2 = true
                  · rw [if_pos h7] at h
                    simp only [Option.some.injEq, Prod.mk.injEq] at h
                    obtain ⟨rfl, rfl⟩ := h
                    exact ⟨c1, fun _ => c2 h7⟩
                  · rw [if_neg h7] at h
                    exact ih (pa + 1) (pb + 1) _ s' r (by omega) (by omega) c c1 h
                · rw [if_neg h6] at h
                  exact ih (pa + 1) (pb + 1) _ s' r (by omega) (by omega) c s1 h

end S2Proofs.C07
