/-
  S2Proofs.C07.Wedge — laws of the orientation predicate assumed by the C07 theorems (`SgLaws`),
  a concrete instance (five points on a circle), and the wedge dualities of
  s2/wedge_relations.go derived from them.
-/
import S2.Relate

namespace S2Proofs.C07
open S2.Relate

/-- The laws of `RobustSign` used by the C07 theorems.  For the exact instance
    (`Pred.exactDecisionI`) they are theorems of the C02 package (antisymmetry, rotation
    invariance, non-zero on distinct points by symbolic perturbation). -/
structure SgLaws {α : Type} (G : Geo α) : Prop where
  /-- values are -1, 0, +1 -/
  range : ∀ a b c, G.sg a b c = -1 ∨ G.sg a b c = 0 ∨ G.sg a b c = 1
  /-- rotating the arguments does not change the sign -/
  rot : ∀ a b c, G.sg b c a = G.sg a b c
  /-- swapping two arguments negates the sign -/
  swap : ∀ a b c, G.sg c b a = -G.sg a b c
  /-- zero exactly when two arguments coincide -/
  zero_iff : ∀ a b c, G.sg a b c = 0 ↔ (a = b ∨ b = c ∨ a = c)

section
variable {α : Type} (G : Geo α)

/-! ### dualities that hold by the very shape of the definitions (no law needed) -/

/-- A ∩ B ≠ ∅  ⇔  ¬ (complement of A ⊇ B), for wedges: the complement of the wedge (a0,o,a2)
    is the wedge (a2,o,a0). -/
theorem wedgeIntersects_eq_not_complement_contains (a0 o a2 b0 b2 : α) :
    wedgeIntersects G a0 o a2 b0 b2 = !wedgeContains G a2 o a0 b0 b2 := by
  simp [wedgeIntersects, wedgeContains, Bool.not_and]

/-- A ⊇ B  ⇔  complement of B ⊇ complement of A, for wedges. -/
theorem wedgeContains_eq_complements_swapped (a0 o a2 b0 b2 : α) :
    wedgeContains G a0 o a2 b0 b2 = wedgeContains G b2 o b0 a2 a0 := by
  simp [wedgeContains, Bool.and_comm]

/-- wedge intersection is symmetric -/
theorem wedgeIntersects_symm (a0 o a2 b0 b2 : α) :
    wedgeIntersects G a0 o a2 b0 b2 = wedgeIntersects G b0 o b2 a0 a2 := by
  simp [wedgeIntersects, Bool.or_comm]

/-! ### laws that need the sign laws -/

variable {G}

theorem orderedCCW_first_eq_second (h : SgLaws G) (x y o : α) : orderedCCW G x x y o = true := by
  have h0 : G.sg x o x = 0 := (h.zero_iff x o x).2 (Or.inr (Or.inr rfl))
  have hs : G.sg x o y = -G.sg y o x := h.swap y o x
  rcases h.range y o x with h1 | h1 | h1 <;> simp [orderedCCW, h0, hs, h1]

/-- every (non-degenerate or degenerate) wedge contains itself -/
theorem wedgeContains_refl (h : SgLaws G) (a0 o a2 : α) : wedgeContains G a0 o a2 a0 a2 = true := by
  simp [wedgeContains, orderedCCW_first_eq_second h]

theorem orderedCCW_aba_false (h : SgLaws G) (x y o : α) (hxo : x ≠ o) (hyo : y ≠ o) (hxy : x ≠ y) :
    orderedCCW G x y x o = false := by
  have h0 : G.sg x o x = 0 := (h.zero_iff x o x).2 (Or.inr (Or.inr rfl))
  have hs : G.sg x o y = -G.sg y o x := h.swap y o x
  have hnz : G.sg y o x ≠ 0 := by
    intro hz
    rcases (h.zero_iff y o x).1 hz with e | e | e
    · exact hyo e
    · exact hxo e.symm
    · exact hxy e.symm
  rcases h.range y o x with h1 | h1 | h1
  · simp [orderedCCW, h0, hs, h1]
  · exact absurd h1 hnz
  · simp [orderedCCW, h0, hs, h1]

/-- every non-degenerate wedge intersects itself -/
theorem wedgeIntersects_refl (h : SgLaws G) (a0 o a2 : α) (h0 : a0 ≠ o) (h2 : a2 ≠ o) (h02 : a0 ≠ a2) :
    wedgeIntersects G a0 o a2 a0 a2 = true := by
  simp [wedgeIntersects, orderedCCW_aba_false h a0 a2 o h0 h2 h02]

end

/-! ### non-vacuity: five points in convex position on a circle, indexed 0..4 counter-clockwise -/

/-- orientation of three of the five points: +1 if (a,b,c) is a cyclic rotation of an increasing
    triple, -1 for a decreasing one, 0 if two coincide -/
def sg5 (a b c : Fin 5) : Int :=
  if a = b ∨ b = c ∨ a = c then 0
  else if (a < b ∧ b < c) ∨ (b < c ∧ c < a) ∨ (c < a ∧ a < b) then 1 else -1

def geo5 : Geo (Fin 5) := { sg := sg5, ref := fun p => p + 1, origin := 0, zNeg := fun _ => false }

theorem sgLaws_geo5 : SgLaws geo5 where
  range := by decide
  rot := by decide
  swap := by decide
  zero_iff := by decide

/-- at vertex 0 the counter-clockwise pentagon 0,1,2,3,4 has the wedge (4,0,1) (interior on the left
    of the chain 4→0→1); it contains the wedge (3,0,2) of the triangle 0,2,3; the complement (1,0,4)
    does not meet that wedge; and the dual statements -/
example : wedgeContains geo5 4 0 1 3 2 = true ∧ wedgeIntersects geo5 1 0 4 3 2 = false ∧
    wedgeContains geo5 2 0 3 1 4 = true ∧ wedgeIntersects geo5 4 0 1 3 2 = true ∧
    wedgeContains geo5 3 0 2 4 1 = false := by decide

end S2Proofs.C07
