/-
  S2Proofs.C07.WalkReal — the real tests of the walk (`S2.RelateWalk.realTests`): a test that does not
  report a crossing has seen no properly crossing pair among the edges it was given.
  Helper lemmas; the property theorems are in S2Proofs/Properties/C07_Walk.lean.
-/
import S2Proofs.C07.WalkMain
import S2Proofs.C07.RelateLaws
namespace S2Proofs.C07
open S2 S2.CellID S2.RelateWalk S2.Relate

section
variable {α : Type} [DecidableEq α] (G : Geo α)

/-- edge `a` of `X` and edge `b` of `Y` cross at a point interior to both -/
def CrossE (X Y : Loop α) (a b : Nat) : Prop :=
  crossingSign G (X.vertex G a) (X.vertex G (a + 1)) (Y.vertex G b) (Y.vertex G (b + 1)) = 1

theorem crossE_symm (X Y : Loop α) (a b : Nat) : CrossE G X Y a b ↔ CrossE G Y X b a := by
  unfold CrossE; rw [crossingSign_swap_pairs]

theorem edgeCrossesCell_false (k : RelKind) (sw : Bool) (X Y : Loop α) (aj : Nat) :
    ∀ (bEdges : List Nat) (s : RelState), (edgeCrossesCell G k sw X Y aj bEdges s).2 = false →
      ∀ bj ∈ bEdges, ¬ CrossE G X Y aj bj := by
  intro bEdges
  induction bEdges with
  | nil => intro s _ bj hbj; simp at hbj
  | cons b rest ih =>
    intro s h bj hbj
    unfold edgeCrossesCell at h
    simp only [] at h
    have hhead : (crossingSign G (X.vertex G aj) (X.vertex G (aj + 1)) (Y.vertex G b) (Y.vertex G (b + 1)) == 1) = false := by
      cases hc : (crossingSign G (X.vertex G aj) (X.vertex G (aj + 1)) (Y.vertex G b) (Y.vertex G (b + 1)) == 1)
      · rfl
      · have hc' : crossingSign G (X.vertex G aj) (X.vertex G (aj + 1)) (Y.vertex G b) (Y.vertex G (b + 1)) = 1 := by simpa using hc
        rw [hc'] at h
        simp at h
    have htail : ∃ s', (edgeCrossesCell G k sw X Y aj rest s').2 = false := by
      split at h
      · exact ⟨_, h⟩
      · rw [hhead] at h
        simp only [Bool.false_eq_true, if_false] at h
        repeat' split at h
        all_goals first | exact ⟨_, h⟩ | (exfalso; simp at h)
    rcases List.mem_cons.mp hbj with rfl | hm
    · intro hc
      unfold CrossE at hc
      rw [hc] at hhead
      simp at hhead
    · obtain ⟨s', hs'⟩ := htail
      exact ih s' hs' bj hm

theorem cellCrossesCell_false (k : RelKind) (sw : Bool) (X Y : Loop α) (bEdges : List Nat) :
    ∀ (aEdges : List Nat) (s : RelState), (cellCrossesCell G k sw X Y bEdges aEdges s).2 = false →
      ∀ aj ∈ aEdges, ∀ bj ∈ bEdges, ¬ CrossE G X Y aj bj := by
  intro aEdges
  induction aEdges with
  | nil => intro s _ aj haj; simp at haj
  | cons a rest ih =>
    intro s h aj haj
    unfold cellCrossesCell at h
    simp only [] at h
    by_cases hr : (edgeCrossesCell G k sw X Y a bEdges s).2 = true
    · rw [if_pos hr] at h; simp at h
    · rw [if_neg hr] at h
      rcases List.mem_cons.mp haj with rfl | hm
      · exact edgeCrossesCell_false G k sw X Y aj bEdges s (by simpa using hr)
      · exact ih _ h aj hm

theorem edgeCrossesCells_false (k : RelKind) (sw : Bool) (X Y : Loop α) (IT : Index) (aj : Nat) :
    ∀ (cells : List Nat) (s : RelState), (edgeCrossesCells G k sw X Y IT aj cells s).2 = false →
      ∀ c ∈ cells, ∀ bj ∈ IT.edgesAt c, ¬ CrossE G X Y aj bj := by
  intro cells
  induction cells with
  | nil => intro s _ c hc; simp at hc
  | cons c0 rest ih =>
    intro s h c hc
    unfold edgeCrossesCells at h
    simp only [] at h
    by_cases hr : (edgeCrossesCell G k sw X Y aj (IT.edgesAt c0) s).2 = true
    · rw [if_pos hr] at h; simp at h
    · rw [if_neg hr] at h
      rcases List.mem_cons.mp hc with rfl | hm
      · exact edgeCrossesCell_false G k sw X Y aj _ s (by simpa using hr)
      · exact ih _ h c hm

theorem cellCrossesAnySubcell_false (k : RelKind) (sw : Bool) (X Y : Loop α) (IT : Index) (gc : Nat → List Nat) :
    ∀ (aEdges q : List Nat) (s : RelState), (cellCrossesAnySubcell G k sw X Y IT gc aEdges q s).2 = false →
      ∀ aj ∈ aEdges, ∀ c ∈ gc aj, ∀ bj ∈ IT.edgesAt c, ¬ CrossE G X Y aj bj := by
  intro aEdges
  induction aEdges with
  | nil => intro q s _ aj haj; simp at haj
  | cons a rest ih =>
    intro q s h aj haj
    unfold cellCrossesAnySubcell at h
    simp only [] at h
    by_cases he : (q ++ gc a).isEmpty = true
    · rw [if_pos he] at h
      rcases List.mem_cons.mp haj with rfl | hm
      · intro c hc
        have : q ++ gc aj = [] := by simpa using he
        have : gc aj = [] := (List.append_eq_nil_iff.mp this).2
        rw [this] at hc; simp at hc
      · exact ih _ _ h aj hm
    · rw [if_neg he] at h
      by_cases hr : (edgeCrossesCells G k sw X Y IT a (q ++ gc a) s).2 = true
      · rw [if_pos hr] at h; simp at h
      · rw [if_neg hr] at h
        rcases List.mem_cons.mp haj with rfl | hm
        · intro c hc
          exact edgeCrossesCells_false G k sw X Y IT aj _ s (by simpa using hr) c (List.mem_append.mpr (Or.inr hc))
        · exact ih _ _ h aj hm

/-! ### shared vertices: a test that does not fire records every shared end vertex it was given -/

/-- the edges `a` of `X` and `b` of `Y` end in the same vertex -/
def SharedEnd (X Y : Loop α) (a b : Nat) : Prop := X.vertex G (a + 1) = Y.vertex G (b + 1)

theorem wedgesCross_found (k : RelKind) (s : RelState) (a0 ab1 a2 b0 b2 : α) :
    (wedgesCross G k s a0 ab1 a2 b0 b2).1.foundSharedVertex = true := by
  cases k with
  | contains => rfl
  | intersects => rfl
  | compareBoundary r => unfold wedgesCross; simp only []; split <;> rfl

theorem wedgesCross_mono (k : RelKind) (s : RelState) (a0 ab1 a2 b0 b2 : α) :
    s.foundSharedVertex = true → (wedgesCross G k s a0 ab1 a2 b0 b2).1.foundSharedVertex = true :=
  fun _ => wedgesCross_found G k s a0 ab1 a2 b0 b2

theorem edgeCrossesCell_mono (k : RelKind) (sw : Bool) (X Y : Loop α) (aj : Nat) :
    ∀ (bEdges : List Nat) (s : RelState), s.foundSharedVertex = true →
      (edgeCrossesCell G k sw X Y aj bEdges s).1.foundSharedVertex = true := by
  intro bEdges
  induction bEdges with
  | nil => intro s h; exact h
  | cons b rest ih =>
    intro s h
    unfold edgeCrossesCell
    simp only []
    repeat' split
    all_goals first | exact h | exact ih _ h | exact ih _ (wedgesCross_found G k s _ _ _ _ _) | exact wedgesCross_found G k s _ _ _ _ _

/-- when the head edge does not make `edgeCrossesCell` return `true`, the call continues on the rest of
    the list in some state `s'` that has `foundSharedVertex` if `s` had it or the head edge ends in the shared vertex -/
theorem edgeCrossesCell_cons (k : RelKind) (sw : Bool) (X Y : Loop α) (aj b : Nat) (rest : List Nat) (s : RelState) :
    (edgeCrossesCell G k sw X Y aj (b :: rest) s).2 = false →
    ∃ s', edgeCrossesCell G k sw X Y aj (b :: rest) s = edgeCrossesCell G k sw X Y aj rest s' ∧
      (s.foundSharedVertex = true → s'.foundSharedVertex = true) ∧
      (SharedEnd G X Y aj b → s'.foundSharedVertex = true) := by
  have hz : SharedEnd G X Y aj b →
      crossingSign G (X.vertex G aj) (X.vertex G (aj + 1)) (Y.vertex G b) (Y.vertex G (b + 1)) = 0 := by
    intro hsh; rw [crossingSign_eq]; unfold SharedEnd at hsh; simp [hsh]
  unfold SharedEnd at *
  rw [edgeCrossesCell]
  simp only []
  repeat' split
  all_goals intro h
  all_goals first
    | (exfalso; simp at h)
    | exact ⟨_, rfl, fun x => x, fun hsh => by
        have := hz hsh
        simp_all⟩
    | exact ⟨_, rfl, fun _ => wedgesCross_found G k s _ _ _ _ _, fun _ => wedgesCross_found G k s _ _ _ _ _⟩

theorem edgeCrossesCell_found (k : RelKind) (sw : Bool) (X Y : Loop α) (aj : Nat) :
    ∀ (bEdges : List Nat) (s : RelState), (edgeCrossesCell G k sw X Y aj bEdges s).2 = false →
      ∀ bj ∈ bEdges, SharedEnd G X Y aj bj → (edgeCrossesCell G k sw X Y aj bEdges s).1.foundSharedVertex = true := by
  intro bEdges
  induction bEdges with
  | nil => intro s _ bj hbj; simp at hbj
  | cons b rest ih =>
    intro s h bj hbj hsh
    obtain ⟨s', e, _, h2⟩ := edgeCrossesCell_cons G k sw X Y aj b rest s h
    rw [e] at h ⊢
    rcases List.mem_cons.mp hbj with rfl | hm
    · exact edgeCrossesCell_mono G k sw X Y aj rest s' (h2 hsh)
    · exact ih s' h bj hm hsh

theorem cellCrossesCell_mono (k : RelKind) (sw : Bool) (X Y : Loop α) (bEdges : List Nat) :
    ∀ (aEdges : List Nat) (s : RelState), s.foundSharedVertex = true →
      (cellCrossesCell G k sw X Y bEdges aEdges s).1.foundSharedVertex = true := by
  intro aEdges
  induction aEdges with
  | nil => intro s h; exact h
  | cons a rest ih =>
    intro s h
    unfold cellCrossesCell
    simp only []
    have := edgeCrossesCell_mono G k sw X Y a bEdges s h
    split
    · exact this
    · exact ih _ this

theorem cellCrossesCell_found (k : RelKind) (sw : Bool) (X Y : Loop α) (bEdges : List Nat) :
    ∀ (aEdges : List Nat) (s : RelState), (cellCrossesCell G k sw X Y bEdges aEdges s).2 = false →
      ∀ aj ∈ aEdges, ∀ bj ∈ bEdges, SharedEnd G X Y aj bj →
        (cellCrossesCell G k sw X Y bEdges aEdges s).1.foundSharedVertex = true := by
  intro aEdges
  induction aEdges with
  | nil => intro s _ aj haj; simp at haj
  | cons a rest ih =>
    intro s h aj haj bj hbj hsh
    unfold cellCrossesCell at h ⊢
    simp only [] at h ⊢
    by_cases hr : (edgeCrossesCell G k sw X Y a bEdges s).2 = true
    · rw [if_pos hr] at h; simp at h
    · rw [if_neg hr] at h ⊢
      rcases List.mem_cons.mp haj with rfl | hm
      · exact cellCrossesCell_mono G k sw X Y bEdges rest _
          (edgeCrossesCell_found G k sw X Y aj bEdges s (by simpa using hr) bj hbj hsh)
      · exact ih _ h aj hm bj hbj hsh

theorem edgeCrossesCells_mono (k : RelKind) (sw : Bool) (X Y : Loop α) (IT : Index) (aj : Nat) :
    ∀ (cells : List Nat) (s : RelState), s.foundSharedVertex = true →
      (edgeCrossesCells G k sw X Y IT aj cells s).1.foundSharedVertex = true := by
  intro cells
  induction cells with
  | nil => intro s h; exact h
  | cons c rest ih =>
    intro s h
    unfold edgeCrossesCells
    simp only []
    have := edgeCrossesCell_mono G k sw X Y aj (IT.edgesAt c) s h
    split
    · exact this
    · exact ih _ this

theorem edgeCrossesCells_found (k : RelKind) (sw : Bool) (X Y : Loop α) (IT : Index) (aj : Nat) :
    ∀ (cells : List Nat) (s : RelState), (edgeCrossesCells G k sw X Y IT aj cells s).2 = false →
      ∀ c ∈ cells, ∀ bj ∈ IT.edgesAt c, SharedEnd G X Y aj bj →
        (edgeCrossesCells G k sw X Y IT aj cells s).1.foundSharedVertex = true := by
  intro cells
  induction cells with
  | nil => intro s _ c hc; simp at hc
  | cons c0 rest ih =>
    intro s h c hc bj hbj hsh
    unfold edgeCrossesCells at h ⊢
    simp only [] at h ⊢
    by_cases hr : (edgeCrossesCell G k sw X Y aj (IT.edgesAt c0) s).2 = true
    · rw [if_pos hr] at h; simp at h
    · rw [if_neg hr] at h ⊢
      rcases List.mem_cons.mp hc with rfl | hm
      · exact edgeCrossesCells_mono G k sw X Y IT aj rest _
          (edgeCrossesCell_found G k sw X Y aj _ s (by simpa using hr) bj hbj hsh)
      · exact ih _ h c hm bj hbj hsh

theorem cellCrossesAnySubcell_mono (k : RelKind) (sw : Bool) (X Y : Loop α) (IT : Index) (gc : Nat → List Nat) :
    ∀ (aEdges q : List Nat) (s : RelState), s.foundSharedVertex = true →
      (cellCrossesAnySubcell G k sw X Y IT gc aEdges q s).1.1.foundSharedVertex = true := by
  intro aEdges
  induction aEdges with
  | nil => intro q s h; exact h
  | cons a rest ih =>
    intro q s h
    unfold cellCrossesAnySubcell
    simp only []
    split
    · exact ih _ _ h
    · have := edgeCrossesCells_mono G k sw X Y IT a (q ++ gc a) s h
      split
      · exact this
      · exact ih _ _ this

theorem cellCrossesAnySubcell_found (k : RelKind) (sw : Bool) (X Y : Loop α) (IT : Index) (gc : Nat → List Nat) :
    ∀ (aEdges q : List Nat) (s : RelState), (cellCrossesAnySubcell G k sw X Y IT gc aEdges q s).2 = false →
      ∀ aj ∈ aEdges, ∀ c ∈ gc aj, ∀ bj ∈ IT.edgesAt c, SharedEnd G X Y aj bj →
        (cellCrossesAnySubcell G k sw X Y IT gc aEdges q s).1.1.foundSharedVertex = true := by
  intro aEdges
  induction aEdges with
  | nil => intro q s _ aj haj; simp at haj
  | cons a rest ih =>
    intro q s h aj haj c hc bj hbj hsh
    unfold cellCrossesAnySubcell at h ⊢
    simp only [] at h ⊢
    by_cases he : (q ++ gc a).isEmpty = true
    · rw [if_pos he] at h ⊢
      rcases List.mem_cons.mp haj with rfl | hm
      · have : q ++ gc aj = [] := by simpa using he
        have : gc aj = [] := (List.append_eq_nil_iff.mp this).2
        rw [this] at hc; simp at hc
      · exact ih _ _ h aj hm c hc bj hbj hsh
    · rw [if_neg he] at h ⊢
      by_cases hr : (edgeCrossesCells G k sw X Y IT a (q ++ gc a) s).2 = true
      · rw [if_pos hr] at h; simp at h
      · rw [if_neg hr] at h ⊢
        rcases List.mem_cons.mp haj with rfl | hm
        · exact cellCrossesAnySubcell_mono G k sw X Y IT gc rest _ _
            (edgeCrossesCells_found G k sw X Y IT aj _ s (by simpa using hr) c (List.mem_append.mpr (Or.inr hc)) bj hbj hsh)
        · exact ih _ _ h aj hm c hc bj hbj hsh
end
end S2Proofs.C07
