/-
  S2Proofs.C07.InvertPoint — the point-in-loop INVERSION LAW for the brute-force model of `S2.Relate`:
  for every geometry satisfying `SgLaws`, every loop and every point,

      A.invert.containsPoint p = !A.containsPoint p .

  This is the hypothesis `ComplementHyps.inv` ("point-in-loop inversion (C04)") of the complement laws of
  `Properties/C07.lean`; it was assumed there because package C04 proves it for ITS model (`S2.Contain`).
  Here it is proved for C07's own model, so that only the Jordan-type "same side" hypothesis remains.
-/
import S2.Relate
import S2Proofs.C07.Wedge
import S2Proofs.C07.RelateLaws
import S2Proofs.Contain.Basic
import Mathlib.Data.List.Nodup
import Mathlib.Data.List.Perm.Basic

namespace S2Proofs.C07
open S2.Relate

section
variable {α : Type} [DecidableEq α] {G : Geo α}

/-- `VertexCrossing(a,b,c,d) = VertexCrossing(a,b,d,c)` — by the shape of the definition -/
theorem vertexCrossing_swap_cd (a b c d : α) : vertexCrossing G a b d c = vertexCrossing G a b c d := by
  unfold vertexCrossing
  by_cases h1 : a = b
  · simp [h1]
  by_cases h2 : c = d
  · subst h2; simp
  have h2' : d ≠ c := Ne.symm h2
  by_cases h3 : a = c
  · subst h3
    by_cases h4 : b = d
    · subst h4; simp [h1, Ne.symm h1]
    · simp [h1, h2, h2', h4, Ne.symm h1]
  by_cases h4 : b = d
  · subst h4
    simp [h1, h2, h2', h3]
  by_cases h5 : a = d
  · subst h5
    by_cases h6 : b = c
    · subst h6; simp [h1, Ne.symm h1]
    · simp [h1, h2, h2', h6, Ne.symm h1]
  by_cases h6 : b = c
  · subst h6
    simp [h1, h2, h2', h5]
  simp [h1, h2, h2', h3, h4, h5, h6]

/-- `EdgeOrVertexCrossing(a,b,c,d) = EdgeOrVertexCrossing(a,b,d,c)` under the sign laws -/
theorem edgeOrVertexCrossing_swap_cd (h : SgLaws G) (a b c d : α) :
    edgeOrVertexCrossing G a b d c = edgeOrVertexCrossing G a b c d := by
  unfold edgeOrVertexCrossing
  rw [crossingSign_swap_cd h, vertexCrossing_swap_cd]

/-- `containsPoint` as an XOR over the edge indices -/
theorem containsPoint_eq_xorAll (A : Loop α) (p : α) :
    A.containsPoint G p = (A.originInside != S2.Contain.xorAll ((List.range A.vs.size).map fun k =>
      edgeOrVertexCrossing G G.origin p (A.vertex G k) (A.vertex G (k + 1)))) := by
  unfold Loop.containsPoint
  rw [← S2Proofs.Contain.foldl_bne, List.foldl_map]

theorem map_revEdge_perm (n : Nat) : ((List.range n).map (revEdge n)).Perm (List.range n) := by
  apply (List.perm_ext_iff_of_nodup ?_ List.nodup_range).2
  · intro x
    simp only [List.mem_map, List.mem_range]
    constructor
    · rintro ⟨k, hk, rfl⟩; exact revEdge_lt n k hk
    · intro hx; exact ⟨revEdge n x, revEdge_lt n x hx, revEdge_revEdge n x hx⟩
  · apply List.Nodup.map_on _ List.nodup_range
    intro x hx y hy hxy
    rw [List.mem_range] at hx hy
    rw [← revEdge_revEdge n x hx, ← revEdge_revEdge n y hy, hxy]

/-- **Inversion law** for the brute-force point containment of `S2.Relate`. -/
theorem containsPoint_invert (h : SgLaws G) (A : Loop α) (p : α) :
    A.invert.containsPoint G p = !A.containsPoint G p := by
  rw [containsPoint_eq_xorAll, containsPoint_eq_xorAll, invert_size, invert_originInside]
  have e : ((List.range A.vs.size).map fun k =>
        edgeOrVertexCrossing G G.origin p (A.invert.vertex G k) (A.invert.vertex G (k + 1))) =
      ((List.range A.vs.size).map (revEdge A.vs.size)).map fun k =>
        edgeOrVertexCrossing G G.origin p (A.vertex G k) (A.vertex G (k + 1)) := by
    rw [List.map_map]
    apply List.map_congr_left
    intro k hk
    rw [List.mem_range] at hk
    simp only [Function.comp]
    rw [invert_edge_fst A k hk, invert_edge_snd A k hk, edgeOrVertexCrossing_swap_cd h]
  rw [e, S2Proofs.Contain.xorAll_perm ((map_revEdge_perm A.vs.size).map _)]
  cases A.originInside <;> cases S2.Contain.xorAll _ <;> rfl

end

end S2Proofs.C07
