/-
  Order lemmas for the soft-float: for finite values the float comparisons `<`, `≤`, `>`, `≥`
  coincide with the comparison of the exact integers `toInt x = value(x)·2^1074`.
-/
import Mathlib.Tactic.Ring
import Mathlib.Tactic.Linarith
import S2.Exact
import S2.Pred

set_option linter.unusedSimpArgs false

namespace S2Proofs.F64Order
open S2 S2.Exact

/-- finite: the exponent field is not all ones -/
def Fin (x : F64) : Prop := x.expField ≠ 2047

instance (x : F64) : Decidable (Fin x) := by unfold Fin; infer_instance

theorem expo_ge (x : F64) : -1074 ≤ x.expo := by
  unfold F64.expo
  by_cases h : x.expField = 0
  · simp [h]
  · have : (x.expField == 0) = false := by simp [h]
    simp only [this]; simp; omega

theorem toIntAt_scale (x : F64) (e : Int) (he : e ≤ x.expo) (he' : -1074 ≤ e) :
    x.toIntAt (-1074) = x.toIntAt e * 2 ^ (e + 1074).toNat := by
  unfold F64.toIntAt
  have hsplit : (x.expo - (-1074)).toNat = (x.expo - e).toNat + (e + 1074).toNat := by omega
  simp only [hsplit, pow_add]
  split <;> ring

theorem isNaN_false {x : F64} (h : Fin x) : x.isNaN = false := by
  unfold Fin at h; simp [F64.isNaN, h]
theorem isInf_false {x : F64} (h : Fin x) : x.isInf = false := by
  unfold Fin at h; simp [F64.isInf, h]

theorem cmp_finite {x y : F64} (hx : Fin x) (hy : Fin y) :
    F64.cmp x y = some (compare (toInt x) (toInt y)) := by
  have e1 := expo_ge x
  have e2 := expo_ge y
  have hmin1 : min x.expo y.expo ≤ x.expo := min_le_left _ _
  have hmin2 : min x.expo y.expo ≤ y.expo := min_le_right _ _
  have hmin3 : -1074 ≤ min x.expo y.expo := le_min e1 e2
  have hK : (0 : Int) < 2 ^ (min x.expo y.expo + 1074).toNat := by positivity
  unfold F64.cmp
  simp only [isNaN_false hx, isNaN_false hy, isInf_false hx, isInf_false hy, Bool.or_self,
    Bool.false_eq_true, if_false]
  congr 1
  unfold toInt
  rw [toIntAt_scale x _ hmin1 hmin3, toIntAt_scale y _ hmin2 hmin3]
  rcases lt_trichotomy (x.toIntAt (min x.expo y.expo)) (y.toIntAt (min x.expo y.expo)) with h | h | h
  · rw [compare_lt_iff_lt.mpr h, compare_lt_iff_lt.mpr (mul_lt_mul_of_pos_right h hK)]
  · rw [h]; simp
  · rw [compare_gt_iff_gt.mpr h, compare_gt_iff_gt.mpr (mul_lt_mul_of_pos_right h hK)]

theorem lt_iff {x y : F64} (hx : Fin x) (hy : Fin y) : F64.lt x y = true ↔ toInt x < toInt y := by
  unfold F64.lt; rw [cmp_finite hx hy]
  rcases lt_trichotomy (toInt x) (toInt y) with h | h | h
  · simp [compare_lt_iff_lt.mpr h, h]
  · simp [h]
  · simp [compare_gt_iff_gt.mpr h, not_lt.mpr h.le]

theorem gt_iff {x y : F64} (hx : Fin x) (hy : Fin y) : F64.gt x y = true ↔ toInt y < toInt x := by
  unfold F64.gt; exact lt_iff hy hx

theorem le_iff {x y : F64} (hx : Fin x) (hy : Fin y) : F64.le x y = true ↔ toInt x ≤ toInt y := by
  unfold F64.le; rw [cmp_finite hx hy]
  rcases lt_trichotomy (toInt x) (toInt y) with h | h | h
  · simp [compare_lt_iff_lt.mpr h, h.le]
  · simp [h]
  · simp [compare_gt_iff_gt.mpr h, not_le.mpr h]

theorem feq_iff {x y : F64} (hx : Fin x) (hy : Fin y) : F64.feq x y = true ↔ toInt x = toInt y := by
  unfold F64.feq; rw [cmp_finite hx hy]
  rcases lt_trichotomy (toInt x) (toInt y) with h | h | h
  · simp [compare_lt_iff_lt.mpr h, h.ne]
  · simp [h]
  · simp [compare_gt_iff_gt.mpr h, h.ne']

/-- all three coordinates finite -/
def Fin3 (v : V3) : Prop := Fin v.x ∧ Fin v.y ∧ Fin v.z

instance (v : V3) : Decidable (Fin3 v) := by unfold Fin3; infer_instance

/-- the float `Cmp` is the exact lexicographic comparison -/
theorem v3cmp_eq {u v : V3} (hu : Fin3 u) (hv : Fin3 v) : V3.cmp u v = IV3.cmp (ofV3 u) (ofV3 v) := by
  obtain ⟨hu1, hu2, hu3⟩ := hu
  obtain ⟨hv1, hv2, hv3⟩ := hv
  unfold V3.cmp IV3.cmp ofV3
  simp only [lt_iff hu1 hv1, gt_iff hu1 hv1, lt_iff hu2 hv2, gt_iff hu2 hv2, lt_iff hu3 hv3, gt_iff hu3 hv3,
    gt_iff_lt]

/-- Go's `==` on points is equality of the exact vectors -/
theorem v3feq_iff {u v : V3} (hu : Fin3 u) (hv : Fin3 v) : V3.feq u v = true ↔ ofV3 u = ofV3 v := by
  obtain ⟨hu1, hu2, hu3⟩ := hu
  obtain ⟨hv1, hv2, hv3⟩ := hv
  unfold V3.feq ofV3
  simp only [Bool.and_eq_true, feq_iff hu1 hv1, feq_iff hu2 hv2, feq_iff hu3 hv3, IV3.mk.injEq, and_assoc]

open S2.Pred in
/-- `sort3` commutes with a map that preserves the comparison -/
theorem sort3_map {α β : Type} (f : α → β) (gt : α → α → Bool) (gt' : β → β → Bool) (a b c : α)
    (h : ∀ u v, gt u v = gt' (f u) (f v)) :
    sort3 gt' (f a) (f b) (f c) =
      (f (sort3 gt a b c).1, f (sort3 gt a b c).2.1, f (sort3 gt a b c).2.2.1, (sort3 gt a b c).2.2.2) := by
  unfold sort3
  cases h1 : gt a b <;> cases h2 : gt b c <;> cases h3 : gt a c <;> cases h4 : gt b a <;>
    cases h5 : gt c a <;> cases h6 : gt c b <;>
    simp [← h a b, ← h b c, ← h a c, ← h b a, ← h c a, ← h c b, h1, h2, h3, h4, h5, h6]

open S2.Pred in
/-- `sort3` only looks at the comparison on the three given elements -/
theorem sort3_congr {α : Type} (gt gt' : α → α → Bool) (a b c : α)
    (hab : gt a b = gt' a b) (hba : gt b a = gt' b a) (hbc : gt b c = gt' b c) (hcb : gt c b = gt' c b)
    (hac : gt a c = gt' a c) (hca : gt c a = gt' c a) :
    sort3 gt a b c = sort3 gt' a b c := by
  unfold sort3
  cases h1 : gt' a b <;> cases h2 : gt' b c <;> cases h3 : gt' a c <;> cases h4 : gt' b a <;>
    cases h5 : gt' c a <;> cases h6 : gt' c b <;>
    simp [hab, hba, hbc, hcb, hac, hca, h1, h2, h3, h4, h5, h6]

open S2.Pred in
theorem maxDeterminantError_facts :
    Fin maxDeterminantError ∧ Fin (-maxDeterminantError) ∧
      toInt (-maxDeterminantError) = -toInt maxDeterminantError := by decide +kernel

end S2Proofs.F64Order
