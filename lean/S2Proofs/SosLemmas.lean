/-
  Helper lemmas for the global simulation of simplicity (C02 `sos_global`) and its consequences
  (Properties/C02_Global.lean, C02_Chirotope.lean, C10_Degenerate.lean).

   * `pertDetG_expansion` : the perturbed determinant for ARBITRARY exponents A < B < C of the three rows
     (dZ, dY, dX = ε^A, ε^2A, ε^4A etc.), written with the gaps p = A−1, q = B−4A−1, s = C−4B−2A−1 ≥ 0, is the
     same list of 34 coefficients as for (1, 8, 64), in the same order, only with other gaps between the exponents
     (a ring identity); `lead` ignores the gaps.
   * counting lemmas for `rankIn`, alternation of `detR`, `rsgn` algebra, one ε₀ for finitely many requirements,
     Grassmann–Plücker / Cramer identities over ℝ and their sign consequences.
-/
import S2Proofs.PredLemmas

namespace S2Proofs.SosLemmas
open S2 S2.Exact S2.Pred S2Proofs.PredLemmas

/-! ### the perturbed determinant for arbitrary exponents -/

/-- the perturbed determinant with dZ = ε^A, ε^B, ε^C (dY = square, dX = fourth power) for the three rows -/
def pertDetG (a b c : IV3) (A B C : ℕ) (ε : ℝ) : ℝ :=
  detR (perturb a ε (4 * A) (2 * A) A) (perturb b ε (4 * B) (2 * B) B) (perturb c ε (4 * C) (2 * C) C)

def sosCoeffsG (p q s : ℕ) (a b c : IV3) : List (ℕ × ℤ) :=
  [(0, det3 a b c), (p, b.x * c.y - b.y * c.x), (p, b.z * c.x - b.x * c.z), (2 * p + 1, b.y * c.z - b.z * c.y),
   (q, c.x * a.y - c.y * a.x), (2 * p + 1, c.x), (2 * p + 1, -c.y), (q, c.z * a.x - c.x * a.z), (p, -c.x),
   (3 * p + 2, c.z),
   (4 * p + 2 * q + 5, c.y * a.z - c.z * a.y), (p, c.y), (p, -c.z), (s, a.x * b.y - a.y * b.x),
   (2 * p + 1, -b.x), (2 * p + 1, b.y),
   (4 * p + 2 * q + 5, a.x), (4 * p + 3, 1),
   (4 * p + 2 * q + 5, -a.y), (2 * p + 1, -1), (s, a.z * b.x - a.x * b.z), (p, b.x), (3 * p + 2, -b.z),
   (q, -a.x), (4 * p + 3, -1), (8 * p + 3 * q + 10, a.z),
   (p, 1), (19 * p + 4 * q + 2 * s + 24, a.y * b.z - a.z * b.y), (p, -b.y), (p, b.z), (2 * p + q + 2, a.y),
   (2 * p + 1, 1), (2 * p + q + 2, -a.z), (p, -1)]

theorem lead_sosCoeffsG (p q s : ℕ) (a b c : IV3) : lead (sosCoeffsG p q s a b c) = lead (sosCoeffs a b c) := rfl

theorem pertDetG_expansion (p q s : ℕ) (a b c : IV3) (ε : ℝ) :
    pertDetG a b c (p + 1) (4 * (p + 1) + q + 1) (4 * (4 * (p + 1) + q + 1) + 2 * (p + 1) + s + 1) ε
      = evalS (sosCoeffsG p q s a b c) ε := by
  simp only [pertDetG, detR, perturb, sosCoeffsG, evalS, det3, IV3.dot, IV3.cross]
  push_cast
  ring

theorem pow8_gap {r1 r2 : ℕ} (h : r1 < r2) : 8 * 8 ^ r1 ≤ 8 ^ r2 := by
  have : 8 ^ (r1 + 1) ≤ 8 ^ r2 := Nat.pow_le_pow_right (by decide) h
  rw [Nat.pow_succ] at this; omega

/-! ### counting -/

theorem filter_length_le {α : Type} (P Q : α → Bool) (h : ∀ x, P x = true → Q x = true) :
    ∀ l : List α, (l.filter P).length ≤ (l.filter Q).length
  | [] => le_refl _
  | y :: l => by
    have ih := filter_length_le P Q h l
    by_cases hp : P y = true
    · simp [hp, h y hp, ih]
    · by_cases hq : Q y = true
      · simp [hp, hq]; omega
      · simp [hp, hq, ih]

theorem filter_length_lt {α : Type} (P Q : α → Bool) (h : ∀ x, P x = true → Q x = true) :
    ∀ l : List α, (∃ x ∈ l, Q x = true ∧ P x = false) → (l.filter P).length < (l.filter Q).length
  | [], ⟨x, hx, _⟩ => by simp at hx
  | y :: l, ⟨x, hx, hq, hp⟩ => by
    have hle := filter_length_le P Q h l
    rcases List.mem_cons.1 hx with rfl | hx'
    · simp [hp, hq]; omega
    · have ih := filter_length_lt P Q h l ⟨x, hx', hq, hp⟩
      by_cases hp' : P y = true
      · simp [hp', h y hp', ih]
      · by_cases hq' : Q y = true
        · simp [hp', hq']; omega
        · simp [hp', hq', ih]

theorem gtI_irrefl (a : IV3) : gtI a a = false := by
  cases h : gtI a a with
  | false => rfl
  | true => have := gtI_strictTotal.asymm a a h; simp [h] at this

theorem sort3_sorted {a b c : IV3} (hab : gtI b a = true) (hbc : gtI c b = true) :
    sort3 gtI a b c = (a, b, c, 1) := by
  have h1 := gtI_strictTotal.asymm _ _ hab
  have h2 := gtI_strictTotal.asymm _ _ hbc
  simp [sort3, h1, h2]

/-! ### alternation of the real determinant -/

theorem detR_swap12 (u v w : ℝ × ℝ × ℝ) : detR v u w = -detR u v w := by simp only [detR]; ring
theorem detR_swap23 (u v w : ℝ × ℝ × ℝ) : detR u w v = -detR u v w := by simp only [detR]; ring
theorem detR_rot (u v w : ℝ × ℝ × ℝ) : detR v w u = detR u v w := by simp only [detR]; ring
theorem detR_eq12 (u w : ℝ × ℝ × ℝ) : detR u u w = 0 := by simp only [detR]; ring
theorem detR_eq23 (u w : ℝ × ℝ × ℝ) : detR u w w = 0 := by simp only [detR]; ring
theorem detR_eq13 (u w : ℝ × ℝ × ℝ) : detR u w u = 0 := by simp only [detR]; ring

theorem rsgn_neg (x : ℝ) : rsgn (-x) = -rsgn x := by
  rcases lt_trichotomy x 0 with h | h | h
  · rw [rsgn_of_neg h, rsgn_of_pos (by linarith)]; rfl
  · subst h; simp [rsgn_zero]
  · rw [rsgn_of_pos h, rsgn_of_neg (by linarith)]

/-! ### one ε₀ for finitely many requirements -/

theorem uniform_eps {α : Type} (P : α → ℝ → Prop) : ∀ l : List α,
    (∀ x ∈ l, ∃ ε₀ : ℝ, 0 < ε₀ ∧ ∀ ε : ℝ, 0 < ε → ε < ε₀ → P x ε) →
    ∃ ε₀ : ℝ, 0 < ε₀ ∧ ∀ ε : ℝ, 0 < ε → ε < ε₀ → ∀ x ∈ l, P x ε
  | [], _ => ⟨1, one_pos, fun _ _ _ x hx => by simp at hx⟩
  | y :: l, h => by
    obtain ⟨ε₁, h1, H1⟩ := h y List.mem_cons_self
    obtain ⟨ε₂, h2, H2⟩ := uniform_eps P l (fun x hx => h x (List.mem_cons_of_mem _ hx))
    refine ⟨min ε₁ ε₂, lt_min h1 h2, fun ε he he' x hx => ?_⟩
    rcases List.mem_cons.1 hx with rfl | hx'
    · exact H1 ε he (lt_of_lt_of_le he' (min_le_left _ _))
    · exact H2 ε he (lt_of_lt_of_le he' (min_le_right _ _)) x hx'

/-! ### sign algebra -/

theorem rsgn_eq_one_iff {x : ℝ} : rsgn x = 1 ↔ 0 < x := by
  rcases lt_trichotomy x 0 with h | h | h
  · rw [rsgn_of_neg h]; constructor
    · intro h'; cases h'
    · intro h'; linarith
  · subst h; simp [rsgn_zero]
  · rw [rsgn_of_pos h]; simp [h]

theorem rsgn_eq_neg_one_iff {x : ℝ} : rsgn x = -1 ↔ x < 0 := by
  rcases lt_trichotomy x 0 with h | h | h
  · rw [rsgn_of_neg h]; simp [h]
  · subst h; simp [rsgn_zero]
  · rw [rsgn_of_pos h]; constructor
    · intro h'; cases h'
    · intro h'; linarith

theorem rsgn_eq_zero_iff {x : ℝ} : rsgn x = 0 ↔ x = 0 := by
  rcases lt_trichotomy x 0 with h | h | h
  · rw [rsgn_of_neg h]; constructor
    · intro h'; cases h'
    · intro h'; linarith
  · subst h; simp [rsgn_zero]
  · rw [rsgn_of_pos h]; constructor
    · intro h'; cases h'
    · intro h'; linarith

theorem rsgn_mul (x y : ℝ) : rsgn (x * y) = rsgn x * rsgn y := by
  rcases lt_trichotomy x 0 with h | h | h
  · rw [rsgn_neg_mul h, rsgn_of_neg h]; simp
  · subst h; simp [rsgn_zero]
  · rw [rsgn_pos_mul h, rsgn_of_pos h]; simp

/-! ### Grassmann–Plücker and Cramer over ℝ -/

/-- three-term Grassmann–Plücker relation for five vectors of ℝ³ -/
theorem gpR (x a b c d : ℝ × ℝ × ℝ) :
    detR x a b * detR x c d - detR x a c * detR x b d + detR x a d * detR x b c = 0 := by
  simp only [detR]; ring

/-- three reals with sum 0: all zero, or both signs occur -/
theorem sign_pattern_of_sum_zero (X Y Z : ℝ) (h : X + Y + Z = 0) :
    (rsgn X = 0 ∧ rsgn Y = 0 ∧ rsgn Z = 0) ∨
      ((rsgn X = 1 ∨ rsgn Y = 1 ∨ rsgn Z = 1) ∧ (rsgn X = -1 ∨ rsgn Y = -1 ∨ rsgn Z = -1)) := by
  simp only [rsgn_eq_one_iff, rsgn_eq_neg_one_iff, rsgn_eq_zero_iff]
  rcases lt_trichotomy X 0 with hx | hx | hx <;> rcases lt_trichotomy Y 0 with hy | hy | hy <;>
    rcases lt_trichotomy Z 0 with hz | hz | hz <;>
    first
    | (exfalso; linarith)
    | (left; exact ⟨hx, hy, hz⟩)
    | (right; constructor <;> first
        | exact Or.inl hx | exact Or.inr (Or.inl hy) | exact Or.inr (Or.inr hz))

/-- Cramer's rule against the linear functional `det(u, v, ·)` -/
theorem cramerR (u v p q r t : ℝ × ℝ × ℝ) :
    detR u v t * detR p q r = detR t q r * detR u v p + detR p t r * detR u v q + detR p q t * detR u v r := by
  simp only [detR]; ring

theorem trans_gpR (o w a b c : ℝ × ℝ × ℝ) (ha : 0 < detR o w a) (hb : 0 < detR o w b) (hc : 0 < detR o w c)
    (hab : 0 < detR o a b) (hbc : 0 < detR o b c) : 0 < detR o a c := by
  have key := gpR o w a b c
  have h1 := mul_pos ha hbc
  have h2 := mul_pos hc hab
  by_contra hn
  have : detR o w b * detR o a c ≤ 0 := mul_nonpos_of_nonneg_of_nonpos hb.le (not_lt.mp hn)
  linarith

theorem t1_gpR (o a b c d : ℝ × ℝ × ℝ) (hab : 0 < detR o a b) (hbc : 0 < detR o b c) (hbd : 0 < detR o b d)
    (h1 : 0 < detR a b c) (h2 : 0 < detR b c d) : 0 < detR a b d := by
  have key := gpR b a c d o
  have e1 : detR b a c = -detR a b c := detR_swap12 a b c
  have e2 : detR b d o = detR o b d := detR_rot o b d
  have e3 : detR b a d = -detR a b d := detR_swap12 a b d
  have e4 : detR b c o = detR o b c := detR_rot o b c
  have e5 : detR b a o = -detR o a b := by rw [detR_swap12 a b o, ← detR_rot o a b]
  rw [e1, e2, e3, e4, e5] at key
  have p1 := mul_pos h1 hbd
  have p2 := mul_pos hab h2
  by_contra hn
  have : detR a b d * detR o b c ≤ 0 := mul_nonpos_of_nonpos_of_nonneg (not_lt.mp hn) hbc.le
  linarith

theorem t2_gpR (o p x y z : ℝ × ℝ × ℝ) (hx : 0 < detR o p x) (hy : 0 < detR o p y) (hz : 0 < detR o p z)
    (h1 : 0 < detR p x y) (h2 : 0 < detR p y z) : 0 < detR p x z := by
  have key := gpR p x y z o
  have e1 : detR p z o = detR o p z := detR_rot o p z
  have e2 : detR p y o = detR o p y := detR_rot o p y
  have e3 : detR p x o = detR o p x := detR_rot o p x
  rw [e1, e2, e3] at key
  have p1 := mul_pos h1 hz
  have p2 := mul_pos hx h2
  by_contra hn
  have : detR p x z * detR o p y ≤ 0 := mul_nonpos_of_nonpos_of_nonneg (not_lt.mp hn) hy.le
  linarith

theorem t3_gpR (o a b q p : ℝ × ℝ × ℝ) (hab : 0 < detR o a b) (hqb : 0 < detR o q b) (hbp : 0 < detR o b p)
    (h1 : 0 < detR a b q) (h2 : 0 < detR a b p) : 0 < detR b p q := by
  have key := gpR b a q p o
  have e1 : detR b a q = -detR a b q := detR_swap12 a b q
  have e2 : detR b p o = detR o b p := detR_rot o b p
  have e3 : detR b a p = -detR a b p := detR_swap12 a b p
  have e4 : detR b q o = -detR o q b := by rw [detR_rot o b q, detR_swap23 o q b]
  have e5 : detR b a o = -detR o a b := by rw [detR_swap12 a b o, ← detR_rot o a b]
  have e6 : detR b q p = -detR b p q := detR_swap23 b p q
  rw [e1, e2, e3, e4, e5, e6] at key
  have p1 := mul_pos h1 hbp
  have p2 := mul_pos h2 hqb
  by_contra hn
  have : detR o a b * detR b p q ≤ 0 := mul_nonpos_of_nonneg_of_nonpos hab.le (not_lt.mp hn)
  linarith

/-- the negated real vector -/
def negR (u : ℝ × ℝ × ℝ) : ℝ × ℝ × ℝ := (-u.1, -u.2.1, -u.2.2)

theorem detR_neg_first (o a b : ℝ × ℝ × ℝ) : detR (negR o) a b = detR o b a := by
  simp only [detR, negR]; ring

theorem detR_neg_neg (o w p : ℝ × ℝ × ℝ) : detR (negR o) (negR w) p = detR o w p := by
  simp only [detR, negR]; ring

end S2Proofs.SosLemmas
