/-
  S2Proofs.FoldInv — the INVERSE of `FoldTouch`: which boxes of the cube meet a rectangle of face f.
  Part 1 (`faceBox_meet_cases`, linear integer arithmetic, 36 face pairs): two rectangles of the cube surface meet
  iff they are on the same face and their u- and v-intervals meet, or they are on faces that share a cube edge,
  both reach that edge, and their extents along the edge (after the orientation change of the fold) meet.
  Opposite faces never meet.
  Part 2 (`fold_inv`): the same for a grid square (X,Y) of face f' ≠ f, in the vocabulary of the neighbour table
  `nbrSq`: the square is the table neighbour, across side d, of a boundary square of face f whose extent along the
  edge meets the rectangle.
-/
import S2Proofs.FoldTouch
open S2 S2.CellID S2.Hilbert S2.STUV
set_option linter.unusedVariables false
set_option linter.unusedSimpArgs false
namespace S2Proofs.C01W

/-- the face across side d of face f (d = 0: j−, 1: i+, 2: j+, 3: i−), as in `nbrSq` -/
def crossFace (f d : Nat) : Nat :=
  match d with
  | 0 => if f % 2 = 0 then (f + 5) % 6 else (f + 4) % 6
  | 1 => if f % 2 = 0 then (f + 1) % 6 else (f + 2) % 6
  | 2 => if f % 2 = 0 then (f + 2) % 6 else (f + 1) % 6
  | _ => if f % 2 = 0 then (f + 4) % 6 else (f + 5) % 6

/-- the contact condition across side d: R = (u1,u2)×(v1,v2) on face f, Q = (x1,x2)×(y1,y2) on `crossFace f d` -/
def CrossCond (f d : Nat) (u1 u2 v1 v2 x1 x2 y1 y2 : Int) : Prop :=
  match d with
  | 0 => v1 = -1073741824 ∧
      (if f % 2 = 0 then y2 = 1073741824 ∧ max u1 x1 ≤ min u2 x2 else x2 = 1073741824 ∧ max u1 (-y2) ≤ min u2 (-y1))
  | 1 => u2 = 1073741824 ∧
      (if f % 2 = 0 then x1 = -1073741824 ∧ max v1 y1 ≤ min v2 y2 else y1 = -1073741824 ∧ max v1 (-x2) ≤ min v2 (-x1))
  | 2 => v2 = 1073741824 ∧
      (if f % 2 = 0 then x1 = -1073741824 ∧ max u1 (-y2) ≤ min u2 (-y1) else y1 = -1073741824 ∧ max u1 x1 ≤ min u2 x2)
  | _ => u1 = -1073741824 ∧
      (if f % 2 = 0 then y2 = 1073741824 ∧ max v1 (-x2) ≤ min v2 (-x1) else x2 = 1073741824 ∧ max v1 y1 ≤ min v2 y2)

set_option maxHeartbeats 1600000 in
/-- two rectangles on the cube surface that meet: same face and the intervals meet, or faces sharing a cube edge -/
theorem faceBox_meet_cases (f f' : Nat) (hf : f < 6) (hf' : f' < 6) (u1 u2 v1 v2 x1 x2 y1 y2 : Int)
    (hu : -1073741824 ≤ u1 ∧ u1 ≤ u2 ∧ u2 ≤ 1073741824) (hv : -1073741824 ≤ v1 ∧ v1 ≤ v2 ∧ v2 ≤ 1073741824)
    (hx : -1073741824 ≤ x1 ∧ x1 ≤ x2 ∧ x2 ≤ 1073741824) (hy : -1073741824 ≤ y1 ∧ y1 ≤ y2 ∧ y2 ≤ 1073741824)
    (hm : boxMeet (faceBox f (u1, u2) (v1, v2)) (faceBox f' (x1, x2) (y1, y2)) ≠ none) :
    (f' = f ∧ max u1 x1 ≤ min u2 x2 ∧ max v1 y1 ≤ min v2 y2) ∨
    (f' = crossFace f 0 ∧ CrossCond f 0 u1 u2 v1 v2 x1 x2 y1 y2) ∨
    (f' = crossFace f 1 ∧ CrossCond f 1 u1 u2 v1 v2 x1 x2 y1 y2) ∨
    (f' = crossFace f 2 ∧ CrossCond f 2 u1 u2 v1 v2 x1 x2 y1 y2) ∨
    (f' = crossFace f 3 ∧ CrossCond f 3 u1 u2 v1 v2 x1 x2 y1 y2) := by
  rw [boxMeet_ne_none] at hm
  interval_cases f <;> interval_cases f' <;>
    simp only [faceBox, crossFace, CrossCond, Nat.reduceMod, Nat.reduceAdd, if_true, if_false, Nat.zero_ne_one,
      OfNat.ofNat_ne_zero, Nat.one_ne_zero, OfNat.one_ne_ofNat, OfNat.ofNat_ne_one, OfNat.zero_ne_ofNat,
      Nat.reduceEqDiff, true_and, false_and, or_false, false_or, Nat.succ_ne_self] at hm ⊢ <;>
    omega

set_option maxHeartbeats 1600000 in
/-- a grid square (X,Y) (unit N, K squares per axis) of a face f' ≠ f whose box meets the rectangle (u1,u2)×(v1,v2) of
    face f is the `nbrSq` neighbour, across a side d that the rectangle reaches, of the boundary square with coordinate
    Z along that side, and the extent of Z along the edge meets the rectangle's -/
theorem fold_inv (f f' X Y K N : Nat) (hf : f < 6) (hf' : f' < 6) (hne : f' ≠ f) (hKN : K * N = 1073741824) (hN0 : 0 < N)
    (hXle : X ≤ K - 1) (hYle : Y ≤ K - 1) (u1 u2 v1 v2 : Int)
    (hu : -1073741824 ≤ u1 ∧ u1 ≤ u2 ∧ u2 ≤ 1073741824) (hv : -1073741824 ≤ v1 ∧ v1 ≤ v2 ∧ v2 ≤ 1073741824)
    (hm : boxMeet (faceBox f (u1, u2) (v1, v2)) (sqBox f' X Y N) ≠ none) :
    (v1 = -1073741824 ∧ ∃ Z, Z ≤ K - 1 ∧ nbrSq f Z 0 (K - 1) 0 = (f', X, Y) ∧
        max u1 (cubeLo Z N) ≤ min u2 (cubeLo Z N + 2 * (N:Int))) ∨
    (u2 = 1073741824 ∧ ∃ Z, Z ≤ K - 1 ∧ nbrSq f (K - 1) Z (K - 1) 1 = (f', X, Y) ∧
        max v1 (cubeLo Z N) ≤ min v2 (cubeLo Z N + 2 * (N:Int))) ∨
    (v2 = 1073741824 ∧ ∃ Z, Z ≤ K - 1 ∧ nbrSq f Z (K - 1) (K - 1) 2 = (f', X, Y) ∧
        max u1 (cubeLo Z N) ≤ min u2 (cubeLo Z N + 2 * (N:Int))) ∨
    (u1 = -1073741824 ∧ ∃ Z, Z ≤ K - 1 ∧ nbrSq f 0 Z (K - 1) 3 = (f', X, Y) ∧
        max v1 (cubeLo Z N) ≤ min v2 (cubeLo Z N + 2 * (N:Int))) := by
  obtain ⟨hN, hSle, hX, hY, hX1, hY1, hX2, hY2, hNI, hNJ, _, _, _, _⟩ := sq_prod_facts X Y K N hKN hN0 hXle hYle
  have hK0 : 1 ≤ K := by
    rcases Nat.eq_zero_or_pos K with h | h
    · subst h; omega
    · exact h
  unfold sqBox at hm
  have hc := faceBox_meet_cases f f' hf hf' u1 u2 v1 v2 _ _ _ _ hu hv
    (by unfold cubeLo; omega) (by unfold cubeLo; omega) hm
  unfold cubeLo at hc
  rcases hc with ⟨e, _⟩ | ⟨e, c⟩ | ⟨e, c⟩ | ⟨e, c⟩ | ⟨e, c⟩
  · exact absurd e hne
  · left
    unfold crossFace at e; unfold CrossCond at c; simp only at e c
    by_cases hp : f % 2 = 0
    · rw [if_pos hp] at e c
      refine ⟨c.1, X, hXle, ?_, ?_⟩
      · have : Y = K - 1 := by omega
        simp only [nbrSq, hp, if_true]; rw [if_neg (by omega), e, this]
      · unfold cubeLo; omega
    · rw [if_neg hp] at e c
      refine ⟨c.1, K - 1 - Y, by omega, ?_, ?_⟩
      · have : X = K - 1 := by omega
        simp only [nbrSq, hp, if_false]; rw [if_neg (by omega), e, this]
        have : K - 1 - (K - 1 - Y) = Y := by omega
        rw [this]
      · unfold cubeLo; rw [hNJ]; omega
  · right; left
    unfold crossFace at e; unfold CrossCond at c; simp only at e c
    by_cases hp : f % 2 = 0
    · rw [if_pos hp] at e c
      refine ⟨c.1, Y, hYle, ?_, ?_⟩
      · have : X = 0 := by
          rcases Nat.eq_zero_or_pos X with h | h
          · exact h
          · have := hX1 h; omega
        simp only [nbrSq, hp, if_true]; rw [if_neg (by omega), e, this]
      · unfold cubeLo; omega
    · rw [if_neg hp] at e c
      refine ⟨c.1, K - 1 - X, by omega, ?_, ?_⟩
      · have : Y = 0 := by
          rcases Nat.eq_zero_or_pos Y with h | h
          · exact h
          · have := hY1 h; omega
        simp only [nbrSq, hp, if_false]; rw [if_neg (by omega), e, this]
        have : K - 1 - (K - 1 - X) = X := by omega
        rw [this]
      · unfold cubeLo; rw [hNI]; omega
  · right; right; left
    unfold crossFace at e; unfold CrossCond at c; simp only at e c
    by_cases hp : f % 2 = 0
    · rw [if_pos hp] at e c
      refine ⟨c.1, K - 1 - Y, by omega, ?_, ?_⟩
      · have : X = 0 := by
          rcases Nat.eq_zero_or_pos X with h | h
          · exact h
          · have := hX1 h; omega
        simp only [nbrSq, hp, if_true]; rw [if_neg (by omega), e, this]
        have : K - 1 - (K - 1 - Y) = Y := by omega
        rw [this]
      · unfold cubeLo; rw [hNJ]; omega
    · rw [if_neg hp] at e c
      refine ⟨c.1, X, hXle, ?_, ?_⟩
      · have : Y = 0 := by
          rcases Nat.eq_zero_or_pos Y with h | h
          · exact h
          · have := hY1 h; omega
        simp only [nbrSq, hp, if_false]; rw [if_neg (by omega), e, this]
      · unfold cubeLo; omega
  · right; right; right
    unfold crossFace at e; unfold CrossCond at c; simp only at e c
    by_cases hp : f % 2 = 0
    · rw [if_pos hp] at e c
      refine ⟨c.1, K - 1 - X, by omega, ?_, ?_⟩
      · have : Y = K - 1 := by omega
        simp only [nbrSq, hp, if_true]; rw [if_neg (by omega), e, this]
        have : K - 1 - (K - 1 - X) = X := by omega
        rw [this]
      · unfold cubeLo; rw [hNI]; omega
    · rw [if_neg hp] at e c
      refine ⟨c.1, Y, hYle, ?_, ?_⟩
      · have : X = K - 1 := by omega
        simp only [nbrSq, hp, if_false]; rw [if_neg (by omega), e, this]
      · unfold cubeLo; omega

end S2Proofs.C01W
