/-
  S2Proofs.HilbertNeighbors — same-face neighbour cells as ij-translates.
  The float part of `cellIDFromFaceIJWrap` is isolated in `wrapIJ`; that it is exact on in-range
  arguments is NOT proved here (soft-float), it enters as the decidable hypothesis `WrapExactOn`.
-/
import S2Proofs.HilbertGeometry
import S2.STUV
open S2 S2.CellID S2.Hilbert S2.STUV
namespace S2Proofs

/-- the float part of `cellIDFromFaceIJWrap`: the (face, i, j) handed to `cellIDFromFaceIJ` -/
def wrapIJ (f : Nat) (i j : Int) : Nat × Nat × Nat :=
  let i := clampInt i (-1) 1073741824
  let j := clampInt j (-1) 1073741824
  let scale : F64 := ⟨0x3E10000000000000⟩
  let limit : F64 := ⟨0x3FF0000000000001⟩
  let u := F64.fmax (-limit) (F64.fmin limit (scale * F64.ofInt (2 * i + 1 - 1073741824)))
  let v := F64.fmax (-limit) (F64.fmin limit (scale * F64.ofInt (2 * j + 1 - 1073741824)))
  let (f, u, v) := xyzToFaceUV (faceUVToXYZ f u v)
  (f, (stToIJ (F64.half * (u + F64.one))).toNat, (stToIJ (F64.half * (v + F64.one))).toNat)

theorem cellIDFromFaceIJWrap_eq (f : Nat) (i j : Int) :
    cellIDFromFaceIJWrap f i j = cellIDFromFaceIJ (wrapIJ f i j).1 (wrapIJ f i j).2.1 (wrapIJ f i j).2.2 := rfl

/-- "the wrap is the identity on these in-range arguments" (decidable; evaluates the soft-float) -/
def WrapExactOn (f : Nat) (args : List (Int × Int)) : Prop :=
  ∀ a ∈ args, wrapIJ f a.1 a.2 = (f, a.1.toNat, a.2.toNat)

instance (f : Nat) (args : List (Int × Int)) : Decidable (WrapExactOn f args) := by
  unfold WrapExactOn; infer_instance

/-- the (i,j) arguments of the four `cellIDFromFaceIJWrap` calls of `edgeNeighbors` -/
def edgeNbrArgs (ci : CellID) : List (Int × Int) :=
  let size : Int := sizeIJ (level ci)
  let i : Int := (faceIJOrientation ci).2.1
  let j : Int := (faceIJOrientation ci).2.2.1
  [(i, j - size), (i + size, j), (i, j + size), (i - size, j)]

theorem edgeNeighbors_eq (ci : CellID) :
    edgeNeighbors ci = (edgeNbrArgs ci).map
      (fun a => parent (cellIDFromFaceIJWrap (faceIJOrientation ci).1 a.1 a.2) (level ci)) := rfl

theorem sizeIJ_eq (k : Nat) : sizeIJ k = 2^(30 - k) := by
  unfold sizeIJ maxLevel; rw [Nat.shiftLeft_eq, Nat.one_mul]

theorem sub_div_self (x s : Nat) (hs : 0 < s) (h : s ≤ x) : (x - s) / s + 1 = x / s := by
  have : x = (x - s) + s := by omega
  conv => rhs; rw [this, Nat.add_div_right _ hs]

/-- square coordinates of a word at level k -/
def sqI (ci : CellID) (k : Nat) : Nat := (faceIJOrientation ci).2.1 / 2^(30 - k)
def sqJ (ci : CellID) (k : Nat) : Nat := (faceIJOrientation ci).2.2.1 / 2^(30 - k)

section
variable {L : Nat} (hL : L = 30)
include hL

/-- the level-k cell of face f containing the leaf (i',j') -/
theorem square_cell (f i' j' k : Nat) (hf : f < 6) (hi : i' < 2^30) (hj : j' < 2^30) (hk : k ≤ 30) :
    IsCell (parent (cellIDFromFaceIJ f i' j') k) k ∧ face (parent (cellIDFromFaceIJ f i' j') k) = f ∧
    sqI (parent (cellIDFromFaceIJ f i' j') k) k = i' / 2^(30 - k) ∧
    sqJ (parent (cellIDFromFaceIJ f i' j') k) k = j' / 2^(30 - k) := by
  obtain ⟨hleaf, hface, _⟩ := cellIDFromFaceIJ_facts hL f i' j' hf hi hj
  have hc := hleaf.parent_isCell hk
  have hfc : face (parent (cellIDFromFaceIJ f i' j') k) = f := by rw [hleaf.parent_face (by omega), hface]
  obtain ⟨g1, g2, g3, _, g5⟩ := faceIJOrientation_leaf_in_cell hL _ k hc
  have hf1 : (faceIJOrientation (parent (cellIDFromFaceIJ f i' j') k)).1 < 6 := by rw [g1, hfc]; exact hf
  have key := parent_cellIDFromFaceIJ_eq_iff hL (faceIJOrientation (parent (cellIDFromFaceIJ f i' j') k)).1
    (faceIJOrientation (parent (cellIDFromFaceIJ f i' j') k)).2.1
    (faceIJOrientation (parent (cellIDFromFaceIJ f i' j') k)).2.2.1 f i' j' k hf1 hf g2 g3 hi hj hk
  obtain ⟨_, k2, k3⟩ := key.mp g5
  exact ⟨hc, hfc, k2, k3⟩

omit hL in
/-- two different cells of the same level do not contain one another -/
theorem same_level_ne {a b : CellID} {k : Nat} (ha : IsCell a k) (hb : IsCell b k) (hne : a ≠ b) :
    contains a b = false ∧ contains b a = false := by
  constructor
  · rw [Bool.eq_false_iff]; intro h
    have := (ha.contains_iff_parent hb).mp h
    rw [hb.parent_self_id] at this; exact hne this.2.symm
  · rw [Bool.eq_false_iff]; intro h
    have := (hb.contains_iff_parent ha).mp h
    rw [ha.parent_self_id] at this; exact hne this.2

/-- the same-face neighbour at square offset: the level-k cell containing leaf (i',j') is a cell of
    level k on the same face, different from `ci` whenever its square differs -/
theorem translate_cell (ci : CellID) (k : Nat) (h : IsCell ci k) (i' j' : Nat) (hi : i' < 2^30) (hj : j' < 2^30)
    (hne : i' / 2^(30-k) ≠ sqI ci k ∨ j' / 2^(30-k) ≠ sqJ ci k) :
    IsCell (parent (cellIDFromFaceIJ (face ci) i' j') k) k ∧
    face (parent (cellIDFromFaceIJ (face ci) i' j') k) = face ci ∧
    sqI (parent (cellIDFromFaceIJ (face ci) i' j') k) k = i' / 2^(30 - k) ∧
    sqJ (parent (cellIDFromFaceIJ (face ci) i' j') k) k = j' / 2^(30 - k) ∧
    parent (cellIDFromFaceIJ (face ci) i' j') k ≠ ci := by
  obtain ⟨c1, c2, c3, c4⟩ := square_cell hL (face ci) i' j' k h.face_lt6 hi hj h.k_le
  refine ⟨c1, c2, c3, c4, ?_⟩
  intro he
  rw [he] at c3 c4
  rcases hne with hne | hne
  · exact hne c3.symm
  · exact hne c4.symm

end


/-! ### vertexNeighbors -/

open Lean Meta Elab Term in
elab "vertexNeighbors_body%" : term => do
  let info ← getConstInfo ``S2.STUV.vertexNeighbors
  let body := info.value!
  lambdaTelescope body fun xs b => do
    let ci := xs[0]!
    let target ← mkAppM ``S2.Hilbert.faceIJOrientation #[ci]
    withLocalDeclD `r (← inferType target) fun r => do
      let b' := (← kabstract b target).instantiate1 r
      mkLambdaFVars (xs.push r) b'

def vnAux : CellID → Nat → (Nat × Nat × Nat × Nat) → List CellID := vertexNeighbors_body%

theorem vertexNeighbors_eq (ci : CellID) (lvl : Nat) :
    vertexNeighbors ci lvl = vnAux ci lvl (faceIJOrientation ci) := rfl

/-- offset and same-face flag computed by `vertexNeighbors` for one coordinate -/
def vnOff (x lvl : Nat) : Int :=
  if x &&& sizeIJ (lvl + 1) != 0 then ((sizeIJ (lvl + 1) <<< 1 : Nat) : Int) else -((sizeIJ (lvl + 1) <<< 1 : Nat) : Int)
def vnSame (x lvl : Nat) : Bool :=
  if x &&& sizeIJ (lvl + 1) != 0 then decide ((x : Int) + ((sizeIJ (lvl + 1) <<< 1 : Nat) : Int) < 1073741824)
  else decide ((x : Int) - ((sizeIJ (lvl + 1) <<< 1 : Nat) : Int) ≥ 0)

theorem vnAux_eq (ci : CellID) (lvl f i j o : Nat) :
    vnAux ci lvl (f, i, j, o) =
      (let r := [parent ci lvl,
            parent (cellIDFromFaceIJSame f ((i:Int) + vnOff i lvl) j (vnSame i lvl)) lvl,
            parent (cellIDFromFaceIJSame f i ((j:Int) + vnOff j lvl) (vnSame j lvl)) lvl]
       if vnSame i lvl || vnSame j lvl then
         r ++ [parent (cellIDFromFaceIJSame f ((i:Int) + vnOff i lvl) ((j:Int) + vnOff j lvl) (vnSame i lvl && vnSame j lvl)) lvl]
       else r) := by
  unfold vnAux vnOff vnSame
  by_cases h1 : (i &&& sizeIJ (lvl + 1) != 0) = true <;>
  by_cases h2 : (j &&& sizeIJ (lvl + 1) != 0) = true <;>
  simp only [h1, h2, ↓reduceIte, Bool.false_eq_true]


theorem vnOff_facts (x lvl : Nat) (hl : lvl < 30) (hx : x < 2^30) (h : vnSame x lvl = true) :
    0 ≤ (x:Int) + vnOff x lvl ∧ (x:Int) + vnOff x lvl < 2^30 ∧
    (((x:Int) + vnOff x lvl).toNat / 2^(30 - lvl) = x / 2^(30 - lvl) + 1 ∨
     ((x:Int) + vnOff x lvl).toNat / 2^(30 - lvl) + 1 = x / 2^(30 - lvl)) := by
  have hs : (sizeIJ (lvl + 1) <<< 1 : Nat) = 2^(30 - lvl) := by
    rw [sizeIJ_eq, Nat.shiftLeft_eq, ← Nat.pow_succ]; congr 1; omega
  unfold vnOff
  unfold vnSame at h
  rw [hs] at h ⊢
  generalize hS : 2^(30 - lvl) = s at *
  have hs0 : 0 < s := hS ▸ Nat.two_pow_pos _
  by_cases hb : (x &&& sizeIJ (lvl + 1) != 0) = true
  · rw [if_pos hb] at h ⊢
    have h' : (x:Int) + s < 1073741824 := by simpa using h
    have e : ((x:Int) + (s:Int)).toNat = x + s := by omega
    refine ⟨by omega, by omega, Or.inl ?_⟩
    rw [e, Nat.add_div_right _ hs0]
  · rw [if_neg hb] at h ⊢
    have h' : (x:Int) - s ≥ 0 := by simpa using h
    have e : ((x:Int) + -(s:Int)).toNat = x - s := by omega
    refine ⟨by omega, by omega, Or.inr ?_⟩
    rw [e]; exact sub_div_self x s hs0 (by omega)

/-- a level-`lvl` cell other than the ancestor of `id` does not intersect `id` (ids only) -/
theorem not_ancestor_disjoint {n id : CellID} {lvl K : Nat} (hn : IsCell n lvl) (h : IsCell id K) (hl : lvl < K)
    (hne : n ≠ parent id lvl) : contains n id = false ∧ contains id n = false := by
  constructor
  · rw [Bool.eq_false_iff]; intro hc
    exact hne ((hn.contains_iff_parent h).mp hc).2.symm
  · rw [Bool.eq_false_iff]; intro hc
    have := ((h.contains_iff_parent hn).mp hc).1; omega

section
variable {L : Nat} (hL : L = 30)
include hL

/-- same-face case of `vertexNeighbors` (both same-face flags true): the result is the ancestor followed by
    three further level-`lvl` cells of the same face whose squares are the i-, j- and diagonal translates -/
theorem vertexNeighbors_sameFace (id : CellID) (K : Nat) (h : IsCell id K) (lvl : Nat) (hl : lvl < K)
    (hsi : vnSame (faceIJOrientation id).2.1 lvl = true) (hsj : vnSame (faceIJOrientation id).2.2.1 lvl = true) :
    ∃ n1 n2 n3, vertexNeighbors id lvl = [parent id lvl, n1, n2, n3] ∧
      (∀ n ∈ [n1, n2, n3], IsCell n lvl ∧ face n = face id ∧ n ≠ parent id lvl) ∧
      (n1 ≠ n2 ∧ n1 ≠ n3 ∧ n2 ≠ n3) ∧
      (sqI n1 lvl = sqI (parent id lvl) lvl + 1 ∨ sqI n1 lvl + 1 = sqI (parent id lvl) lvl) ∧
      sqJ n1 lvl = sqJ (parent id lvl) lvl ∧
      sqI n2 lvl = sqI (parent id lvl) lvl ∧
      (sqJ n2 lvl = sqJ (parent id lvl) lvl + 1 ∨ sqJ n2 lvl + 1 = sqJ (parent id lvl) lvl) ∧
      sqI n3 lvl = sqI n1 lvl ∧ sqJ n3 lvl = sqJ n2 lvl := by
  have hK := h.k_le
  obtain ⟨g1, g2, g3, _, g5⟩ := faceIJOrientation_leaf_in_cell hL id K h
  rw [vertexNeighbors_eq]
  generalize faceIJOrientation id = r at *
  obtain ⟨f, i, j, o⟩ := r
  simp only at g1 g2 g3 g5 hsi hsj
  subst g1
  rw [vnAux_eq]
  simp only [hsi, hsj, Bool.or_self, Bool.and_self, if_true, cellIDFromFaceIJSame, List.cons_append,
    List.nil_append, Int.toNat_natCast]
  -- the ancestor as a square cell
  have hanc : parent id lvl = parent (cellIDFromFaceIJ (face id) i j) lvl := by
    conv => lhs; rw [← g5]
    exact parent_parent _ lvl K (by omega) hK
  obtain ⟨a1, a2, a3, a4⟩ := square_cell hL (face id) i j lvl h.face_lt6 g2 g3 (by omega)
  rw [← hanc] at a1 a2 a3 a4
  obtain ⟨x0, x1, x2⟩ := vnOff_facts i lvl (by omega) g2 hsi
  obtain ⟨y0, y1, y2⟩ := vnOff_facts j lvl (by omega) g3 hsj
  have hx : ((i:Int) + vnOff i lvl).toNat < 2^30 := by omega
  have hy : ((j:Int) + vnOff j lvl).toNat < 2^30 := by omega
  generalize ((i:Int) + vnOff i lvl).toNat = x at *
  generalize ((j:Int) + vnOff j lvl).toNat = y at *
  have c1 := translate_cell hL (parent id lvl) lvl a1 x j hx g3 (by rw [a3]; left; omega)
  have c2 := translate_cell hL (parent id lvl) lvl a1 i y g2 hy (by rw [a4]; right; omega)
  have c3 := translate_cell hL (parent id lvl) lvl a1 x y hx hy (by rw [a3]; left; omega)
  rw [a2] at c1 c2 c3
  obtain ⟨p1, q1, r1, s1, u1⟩ := c1
  obtain ⟨p2, q2, r2, s2, u2⟩ := c2
  obtain ⟨p3, q3, r3, s3, u3⟩ := c3
  refine ⟨_, _, _, rfl, ?_, ?_, ?_, ?_, ?_, ?_, ?_, ?_⟩
  · intro n hn
    simp only [List.mem_cons, List.mem_nil_iff, or_false] at hn
    rcases hn with rfl | rfl | rfl
    · exact ⟨p1, q1, u1⟩
    · exact ⟨p2, q2, u2⟩
    · exact ⟨p3, q3, u3⟩
  · refine ⟨?_, ?_, ?_⟩ <;> intro he
    · have := congrArg (sqI · lvl) he; simp only [r1, r2] at this; omega
    · have := congrArg (sqJ · lvl) he; simp only [s1, s3] at this; omega
    · have := congrArg (sqI · lvl) he; simp only [r2, r3] at this; omega
  · rw [r1, a3]; exact x2
  · rw [s1, a4]
  · rw [r2, a3]
  · rw [s2, a4]; exact y2
  · rw [r3, r1]
  · rw [s3, s2]

end


/-! ### allNeighbors -/

open Lean Meta Elab Term in
elab "allNeighbors_body%" : term => do
  let info ← getConstInfo ``S2.STUV.allNeighbors
  let body := info.value!
  lambdaTelescope body fun xs b => do
    let ci := xs[0]!
    let target ← mkAppM ``S2.Hilbert.faceIJOrientation #[ci]
    withLocalDeclD `r (← inferType target) fun r => do
      let b' := (← kabstract b target).instantiate1 r
      mkLambdaFVars (xs.push r) b'

def anAux : CellID → Nat → (Nat × Nat × Nat × Nat) → List CellID := allNeighbors_body%

theorem allNeighbors_eq (ci : CellID) (lvl : Nat) :
    allNeighbors ci lvl = anAux ci lvl (faceIJOrientation ci) := rfl

/-- one iteration of the loop of `allNeighbors` (i, j already aligned) -/
def anRow (face lvl : Nat) (i j size nbrSize : Int) (t : Nat) : List CellID :=
  let k : Int := ((t : Nat) : Int) * nbrSize - nbrSize
  let (sameFace, tb) : Bool × List CellID :=
    if k < 0 then (decide (j + k ≥ 0), [])
    else if k ≥ size then (decide (j + k < 1073741824), [])
    else (true,
      [parent (cellIDFromFaceIJSame face (i + k) (j - nbrSize) (decide (j - size ≥ 0))) lvl,
       parent (cellIDFromFaceIJSame face (i + k) (j + size) (decide (j + size < 1073741824))) lvl])
  tb ++
    [parent (cellIDFromFaceIJSame face (i - nbrSize) (j + k) (sameFace && decide (i - size ≥ 0))) lvl,
     parent (cellIDFromFaceIJSame face (i + size) (j + k) (sameFace && decide (i + size < 1073741824))) lvl]

theorem anAux_eq (ci : CellID) (lvl f i0 j0 o : Nat) (h1 : level ci ≤ lvl) (h2 : lvl ≤ 30) :
    anAux ci lvl (f, i0, j0, o) =
      ((List.range (sizeIJ (level ci) / sizeIJ lvl + 2)).map
        (anRow f lvl ((i0:Int) - (i0:Int) % (sizeIJ (level ci) : Int)) ((j0:Int) - (j0:Int) % (sizeIJ (level ci) : Int))
          (sizeIJ (level ci) : Int) (sizeIJ lvl : Int))).flatten := by
  unfold anAux
  have hg : (decide (lvl < level ci) || decide (lvl > maxLevel)) = false := by
    simp [maxLevel]; omega
  simp only [hg, Bool.false_eq_true, if_false]
  rfl

theorem anRow_mem (f lvl : Nat) (i j S nbr : Int) (t : Nat) (hnbr : 0 < nbr) (hS : nbr ≤ S)
    (hi : S ≤ i) (hi2 : i + S < 1073741824) (hj : S ≤ j) (hj2 : j + S < 1073741824)
    (hk : (t:Int) * nbr - nbr ≤ S) (n : CellID) (hn : n ∈ anRow f lvl i j S nbr t) :
    ∃ x y : Int, n = parent (cellIDFromFaceIJ f x.toNat y.toNat) lvl ∧
      i - nbr ≤ x ∧ x ≤ i + S ∧ j - nbr ≤ y ∧ y ≤ j + S ∧
      (x = i - nbr ∨ x = i + S ∨ y = j - nbr ∨ y = j + S) := by
  unfold anRow at hn
  simp only [] at hn
  have hk0 : -nbr ≤ (t:Int) * nbr - nbr := by
    have : 0 ≤ (t:Int) * nbr := Int.mul_nonneg (Int.natCast_nonneg t) (le_of_lt hnbr)
    omega
  generalize (t:Int) * nbr - nbr = k at *
  have d2 : decide (i - S ≥ 0) = true := decide_eq_true (by omega)
  have d3 : decide (i + S < 1073741824) = true := decide_eq_true (by omega)
  have d4 : decide (j - S ≥ 0) = true := decide_eq_true (by omega)
  have d5 : decide (j + S < 1073741824) = true := decide_eq_true (by omega)
  by_cases c1 : k < 0
  · have d1 : decide (j + k ≥ 0) = true := decide_eq_true (by omega)
    simp only [c1, if_true, d1, d2, d3, Bool.and_self, cellIDFromFaceIJSame, List.nil_append,
      List.mem_cons, List.mem_nil_iff, or_false] at hn
    rcases hn with rfl | rfl
    · exact ⟨i - nbr, j + k, rfl, by omega, by omega, by omega, by omega, Or.inl rfl⟩
    · exact ⟨i + S, j + k, rfl, by omega, by omega, by omega, by omega, Or.inr (Or.inl rfl)⟩
  · by_cases c2 : k ≥ S
    · have d1 : decide (j + k < 1073741824) = true := decide_eq_true (by omega)
      simp only [c1, c2, if_true, if_false, d1, d2, d3, Bool.and_self, cellIDFromFaceIJSame, List.nil_append,
        List.mem_cons, List.mem_nil_iff, or_false] at hn
      rcases hn with rfl | rfl
      · exact ⟨i - nbr, j + k, rfl, by omega, by omega, by omega, by omega, Or.inl rfl⟩
      · exact ⟨i + S, j + k, rfl, by omega, by omega, by omega, by omega, Or.inr (Or.inl rfl)⟩
    · simp only [c1, c2, if_true, if_false, d2, d3, d4, d5, Bool.and_self, cellIDFromFaceIJSame,
        List.cons_append, List.nil_append, List.mem_cons, List.mem_nil_iff, or_false] at hn
      rcases hn with rfl | rfl | rfl | rfl
      · exact ⟨i + k, j - nbr, rfl, by omega, by omega, by omega, by omega, Or.inr (Or.inr (Or.inl rfl))⟩
      · exact ⟨i + k, j + S, rfl, by omega, by omega, by omega, by omega, Or.inr (Or.inr (Or.inr rfl))⟩
      · exact ⟨i - nbr, j + k, rfl, by omega, by omega, by omega, by omega, Or.inl rfl⟩
      · exact ⟨i + S, j + k, rfl, by omega, by omega, by omega, by omega, Or.inr (Or.inl rfl)⟩


theorem div_ne_of_lt {X I S : Nat} (h : X < I * S) : X / S ≠ I := by
  have : X / S < I := Nat.div_lt_of_lt_mul (by rw [Nat.mul_comm]; exact h)
  omega

section
variable {L : Nat} (hL : L = 30)
include hL

/-- interior case of `allNeighbors` (the cell's square is not on the face boundary): every reported cell is a
    level-`lvl` cell of the same face that neither contains nor is contained in `id` -/
theorem allNeighbors_interior (id : CellID) (K : Nat) (h : IsCell id K) (lvl : Nat) (h1 : K ≤ lvl) (h2 : lvl ≤ 30)
    (hI : 1 ≤ sqI id K ∧ sqI id K + 1 < 2^K) (hJ : 1 ≤ sqJ id K ∧ sqJ id K + 1 < 2^K)
    (n : CellID) (hn : n ∈ allNeighbors id lvl) :
    IsCell n lvl ∧ face n = face id ∧ contains id n = false ∧ contains n id = false ∧
      (sqI id K * 2^(lvl - K) ≤ sqI n lvl + 1 ∧ sqI n lvl ≤ (sqI id K + 1) * 2^(lvl - K) ∧
       sqJ id K * 2^(lvl - K) ≤ sqJ n lvl + 1 ∧ sqJ n lvl ≤ (sqJ id K + 1) * 2^(lvl - K)) := by
  have hK := h.k_le
  obtain ⟨g1, g2, g3, _, g5⟩ := faceIJOrientation_leaf_in_cell hL id K h
  rw [allNeighbors_eq] at hn
  unfold sqI at hI ⊢
  unfold sqJ at hJ ⊢
  generalize faceIJOrientation id = r at *
  obtain ⟨f, i0, j0, o⟩ := r
  simp only at g1 g2 g3 g5 hI hJ
  subst g1
  rw [anAux_eq _ _ _ _ _ _ (by rw [h.level_eq]; exact h1) h2, h.level_eq, sizeIJ_eq, sizeIJ_eq] at hn
  -- sizes
  have hpow : (2:Nat)^(30 - K) * 2^K = 2^30 := by rw [← Nat.pow_add]; congr 1; omega
  have hNS : (2:Nat)^(30 - lvl) ≤ 2^(30 - K) := Nat.pow_le_pow_right (by omega) (by omega)
  have hN0 : 0 < (2:Nat)^(30 - lvl) := Nat.two_pow_pos _
  have hSN : (2:Nat)^(30 - K) = 2^(lvl - K) * 2^(30 - lvl) := by
    rw [← Nat.pow_add]; congr 1; omega
  generalize hSdef : (2:Nat)^(30 - K) = S at *
  generalize hNdef : (2:Nat)^(30 - lvl) = N at *
  generalize hmdef : (2:Nat)^(lvl - K) = m at *
  have hS0 : 0 < S := by omega
  -- the row
  obtain ⟨l, hl, hnl⟩ := List.mem_flatten.mp hn
  obtain ⟨t, ht, rfl⟩ := List.mem_map.mp hl
  rw [List.mem_range] at ht
  have hkN : t * N ≤ S + N := by
    have : t ≤ S / N + 1 := by omega
    calc t * N ≤ (S / N + 1) * N := Nat.mul_le_mul_right _ this
      _ = S / N * N + N := by rw [Nat.add_mul, Nat.one_mul]
      _ ≤ S + N := Nat.add_le_add_right (Nat.div_mul_le_self S N) N
  -- aligned coordinates
  have hA : (i0:Int) - (i0:Int) % (S:Int) = ((i0 / S * S : Nat) : Int) := by
    have := Nat.div_add_mod i0 S
    rw [← Int.natCast_mod]
    have e : (i0:Int) = ((S * (i0 / S) + i0 % S : Nat) : Int) := by rw [this]
    rw [Nat.mul_comm] at e
    omega
  have hB : (j0:Int) - (j0:Int) % (S:Int) = ((j0 / S * S : Nat) : Int) := by
    have := Nat.div_add_mod j0 S
    rw [← Int.natCast_mod]
    have e : (j0:Int) = ((S * (j0 / S) + j0 % S : Nat) : Int) := by rw [this]
    rw [Nat.mul_comm] at e
    omega
  rw [hA, hB] at hnl
  generalize hIdef : i0 / S = I at *
  generalize hJdef : j0 / S = J at *
  have iS1 : S ≤ I * S := by
    calc S = 1 * S := (Nat.one_mul S).symm
      _ ≤ I * S := Nat.mul_le_mul_right _ hI.1
  have jS1 : S ≤ J * S := by
    calc S = 1 * S := (Nat.one_mul S).symm
      _ ≤ J * S := Nat.mul_le_mul_right _ hJ.1
  have iS2 : I * S + S + S ≤ 2^30 := by
    calc I * S + S + S = (I + 2) * S := by rw [Nat.add_mul]; omega
      _ ≤ 2^K * S := Nat.mul_le_mul_right _ (by omega)
      _ = 2^30 := by rw [Nat.mul_comm]; exact hpow
  have jS2 : J * S + S + S ≤ 2^30 := by
    calc J * S + S + S = (J + 2) * S := by rw [Nat.add_mul]; omega
      _ ≤ 2^K * S := Nat.mul_le_mul_right _ (by omega)
      _ = 2^30 := by rw [Nat.mul_comm]; exact hpow
  have hkI : ((t:Nat):Int) * (N:Int) - (N:Int) ≤ (S:Int) := by
    have : ((t * N : Nat) : Int) ≤ ((S + N : Nat) : Int) := by exact_mod_cast hkN
    push_cast at this; omega
  generalize hAdef : I * S = A at *
  generalize hBdef : J * S = B at *
  obtain ⟨x, y, rfl, x1, x2, y1, y2, hor⟩ := anRow_mem (face id) lvl (A:Int) (B:Int) (S:Int) (N:Int) t
    (by omega) (by omega) (by omega) (by omega) (by omega) (by omega) hkI n hnl
  -- natural coordinates
  have hX : x.toNat < 2^30 := by omega
  have hY : y.toNat < 2^30 := by omega
  obtain ⟨c1, c2, c3, c4⟩ := square_cell hL (face id) x.toNat y.toNat lvl h.face_lt6 hX hY h2
  unfold sqI at c3
  unfold sqJ at c4
  rw [hNdef] at c3 c4
  obtain ⟨hleaf, _, _⟩ := cellIDFromFaceIJ_facts hL (face id) x.toNat y.toNat h.face_lt6 hX hY
  -- not inside id
  have hnot : contains id (parent (cellIDFromFaceIJ (face id) x.toNat y.toNat) lvl) = false := by
    rw [Bool.eq_false_iff]; intro hc
    have hp := ((h.contains_iff_parent c1).mp hc).2
    rw [parent_parent _ K lvl h1 h2] at hp
    have key := (parent_cellIDFromFaceIJ_eq_iff hL (face id) x.toNat y.toNat (face id) i0 j0 K h.face_lt6 h.face_lt6
      hX hY g2 g3 hK).mp (hp.trans g5.symm)
    rw [hSdef, hIdef, hJdef] at key
    obtain ⟨_, kx, ky⟩ := key
    rcases hor with e | e | e | e
    · exact div_ne_of_lt (X := x.toNat) (I := I) (S := S) (by omega) kx
    · have : x.toNat = (I + 1) * S := by rw [Nat.add_mul]; omega
      rw [this, Nat.mul_div_cancel _ hS0] at kx; omega
    · exact div_ne_of_lt (X := y.toNat) (I := J) (S := S) (by omega) ky
    · have : y.toNat = (J + 1) * S := by rw [Nat.add_mul]; omega
      rw [this, Nat.mul_div_cancel _ hS0] at ky; omega
  have ring : ∀ (Q X : Nat), Q * S - N ≤ X → X ≤ Q * S + S → Q * m ≤ X / N + 1 ∧ X / N ≤ (Q + 1) * m := by
    intro Q X l1 l2
    constructor
    · have e : Q * S - N = (Q * m - 1) * N := by
        rw [Nat.sub_mul, Nat.one_mul, hSN, Nat.mul_assoc]
      have := Nat.div_le_div_right (c := N) l1
      rw [e, Nat.mul_div_cancel _ hN0] at this
      omega
    · have e : Q * S + S = (Q + 1) * m * N := by
        rw [hSN, Nat.add_mul, Nat.one_mul, Nat.add_mul, Nat.mul_assoc]
      have := Nat.div_le_div_right (c := N) l2
      rw [e, Nat.mul_div_cancel _ hN0] at this
      exact this
  have rI := ring I x.toNat (by omega) (by omega)
  have rJ := ring J y.toNat (by omega) (by omega)
  refine ⟨c1, c2, hnot, ?_, ?_⟩
  · rw [Bool.eq_false_iff]; intro hc
    obtain ⟨hle, hp⟩ := (c1.contains_iff_parent h).mp hc
    have hlk : lvl = K := by omega
    subst hlk
    rw [h.parent_self_id] at hp
    rw [← hp, (h.contains_iff_parent h).mpr ⟨le_refl _, h.parent_self_id⟩] at hnot
    cases hnot
  · rw [c3, c4]
    exact ⟨rI.1, rI.2, rJ.1, rJ.2⟩

end

end S2Proofs
