/-
  C12Dist2.MaxArcGeom — EXACT geometry (pure ℝ³, no floats) of the maximum distance between a great-circle arc and a SET of
  unit vectors (the cell), the two rules `Cell.MaxDistanceToEdge` is built on:

    * ENDPOINT RULE  (`maxArc_endpoint_rule`, `maxArc_endpoint_exact`): if every point of the set is within 90° of both
      endpoints of the arc (squared chord ≤ m ≤ 2), then it is within the same bound of EVERY point of the arc — so the maximum
      over arc × set is the larger of the two endpoint maxima, and it is attained at an endpoint of the arc;
    * ANTIPODE RULE FOR SETS (`maxArc_antipode_rule`, `maxArc_antipode_iff`, `maxArc_antipode_attained`):
      chord²(q, P) = 4 − chord²(q, −P) and `P ∈ arc(a,b) ⇔ −P ∈ arc(−a,−b)`: a number `d` is a lower bound of the squared chord
      between the set and the ANTIPODAL arc iff `4 − d` is an upper bound of the squared chord between the set and the arc,
      and one is attained iff the other is:  max = 4 − min  (i.e. π − the minimum angle to the antipodal arc).

  `arc_dot_ge` is c17pairs' `acute_arc` with a threshold.
-/
import S2Proofs.C17Pairs.MaxPair
import S2Proofs.C12Dist2.QuadCore

set_option linter.unusedSimpArgs false
set_option linter.unusedVariables false

namespace S2Proofs.C12Dist2
open S2Proofs.C17Err S2Proofs.C17Err.R3 S2Proofs.C17Pairs

/-- a point whose cosine against BOTH endpoint directions is ≥ τ ≥ 0 has cosine ≥ τ against every point of the arc -/
theorem arc_dot_ge {q a b P : R3} (ha : 0 < a.len) (hb : 0 < b.len) (hP : OnArc a b P) {τ : ℝ} (hτ : 0 ≤ τ)
    (h0 : τ ≤ q.dot (dirR a)) (h1 : τ ≤ q.dot (dirR b)) : τ ≤ q.dot P := by
  rw [dot_dirR] at h0 h1
  have d0 : 0 ≤ q.dot a := by
    have : 0 ≤ q.dot a / a.len := le_trans hτ h0
    rcases div_nonneg_iff.mp this with ⟨h, _⟩ | ⟨_, h⟩
    · exact h
    · linarith
  have d1 : 0 ≤ q.dot b := by
    have : 0 ≤ q.dot b / b.len := le_trans hτ h1
    rcases div_nonneg_iff.mp this with ⟨h, _⟩ | ⟨_, h⟩
    · exact h
    · linarith
  exact le_trans (le_min h0 h1) (acute_arc ha hb hP d0 d1)

/-- **ENDPOINT RULE.**  `S` any set of vectors.  If the squared chord from every point of `S` to both endpoint directions is
    ≤ m and m ≤ 2 (everything within 90° of both endpoints), the squared chord to every point of the arc is ≤ m. -/
theorem maxArc_endpoint_rule {S : R3 → Prop} {a b : R3} (ha : 0 < a.len) (hb : 0 < b.len) {m : ℝ} (hm : m ≤ 2)
    (hA : ∀ q, S q → chordPQ q (dirR a) ≤ m) (hB : ∀ q, S q → chordPQ q (dirR b) ≤ m)
    {q P : R3} (hq : S q) (hP : OnArc a b P) : chordPQ q P ≤ m := by
  have h0 := hA q hq
  have h1 := hB q hq
  unfold chordPQ at h0 h1 ⊢
  have := arc_dot_ge (q := q) ha hb hP (τ := (2 - m) / 2) (by linarith) (by linarith) (by linarith)
  linarith

/-- … and the bound is the exact maximum as soon as it is attained at an endpoint (the endpoints ARE points of the arc) -/
theorem maxArc_endpoint_exact {S : R3 → Prop} {a b : R3} (ha : 0 < a.len) (hb : 0 < b.len) {m : ℝ} (hm : m ≤ 2)
    (hA : ∀ q, S q → chordPQ q (dirR a) ≤ m) (hB : ∀ q, S q → chordPQ q (dirR b) ≤ m)
    (hatt : ∃ q, S q ∧ (chordPQ q (dirR a) = m ∨ chordPQ q (dirR b) = m)) :
    (∀ q P, S q → OnArc a b P → chordPQ q P ≤ m) ∧ (∃ q P, S q ∧ OnArc a b P ∧ chordPQ q P = m) := by
  refine ⟨fun q P hq hP => maxArc_endpoint_rule ha hb hm hA hB hq hP, ?_⟩
  obtain ⟨q, hq, h | h⟩ := hatt
  · exact ⟨q, dirR a, hq, onArc_left' a b ha, h⟩
  · refine ⟨q, dirR b, hq, ?_, h⟩
    obtain ⟨s, t, hs, ht, e, n⟩ := onArc_left' b a hb
    exact ⟨t, s, ht, hs, by rw [show dirR b = comb (1 / b.len) b 0 b from rfl] at *; rw [e]; unfold comb; simp; constructor <;> [skip; constructor] <;> ring, n⟩

theorem negR_onArc_iff {a b P : R3} : OnArc (negR a) (negR b) (negR P) ↔ OnArc a b P := by
  constructor
  · intro h
    have := onArc_negR h
    rwa [negR_negR, negR_negR, negR_negR] at this
  · exact onArc_negR

/-- **ANTIPODE RULE FOR SETS**: a lower bound `d` for the squared chord between `S` and the antipodal arc gives the upper
    bound `4 − d` between `S` and the arc -/
theorem maxArc_antipode_rule {S : R3 → Prop} {a b : R3} {d : ℝ}
    (h : ∀ q P', S q → OnArc (negR a) (negR b) P' → d ≤ chordPQ q P')
    {q P : R3} (hq : S q) (hP : OnArc a b P) : chordPQ q P ≤ 4 - d := by
  have := h q (negR P) hq (onArc_negR hP)
  rw [chordPQ_negR] at this
  linarith

/-- … and conversely: the two statements are equivalent -/
theorem maxArc_antipode_iff {S : R3 → Prop} {a b : R3} {d : ℝ} :
    (∀ q P, S q → OnArc a b P → chordPQ q P ≤ 4 - d) ↔
    (∀ q P', S q → OnArc (negR a) (negR b) P' → d ≤ chordPQ q P') := by
  constructor
  · intro h q P' hq hP'
    have hP : OnArc a b (negR P') := by
      have := onArc_negR hP'
      rwa [negR_negR, negR_negR] at this
    have := h q _ hq hP
    rw [chordPQ_negR] at this
    linarith
  · intro h q P hq hP
    exact maxArc_antipode_rule h hq hP

/-- the maximum over arc × set is attained iff the minimum over antipodal arc × set is: `max = 4 − min` -/
theorem maxArc_antipode_attained {S : R3 → Prop} {a b : R3} {d : ℝ} :
    (∃ q P, S q ∧ OnArc a b P ∧ chordPQ q P = 4 - d) ↔
    (∃ q P', S q ∧ OnArc (negR a) (negR b) P' ∧ chordPQ q P' = d) := by
  constructor
  · rintro ⟨q, P, hq, hP, e⟩
    refine ⟨q, negR P, hq, onArc_negR hP, ?_⟩
    rw [chordPQ_negR]; linarith
  · rintro ⟨q, P', hq, hP', e⟩
    have hP : OnArc a b (negR P') := by
      have := onArc_negR hP'
      rwa [negR_negR, negR_negR] at this
    refine ⟨q, negR P', hq, hP, ?_⟩
    rw [chordPQ_negR]; linarith

/-- **the exact maximum of `MaxDistanceToEdge`**: if `d` IS the minimum squared chord between `S` and the antipodal arc
    (lower bound + attained) then `4 − d` IS the maximum squared chord between `S` and the arc -/
theorem maxArc_antipode_exact {S : R3 → Prop} {a b : R3} {d : ℝ}
    (hlow : ∀ q P', S q → OnArc (negR a) (negR b) P' → d ≤ chordPQ q P')
    (hatt : ∃ q P', S q ∧ OnArc (negR a) (negR b) P' ∧ chordPQ q P' = d) :
    (∀ q P, S q → OnArc a b P → chordPQ q P ≤ 4 - d) ∧ (∃ q P, S q ∧ OnArc a b P ∧ chordPQ q P = 4 - d) :=
  ⟨maxArc_antipode_iff.mpr hlow, maxArc_antipode_attained.mpr hatt⟩

end S2Proofs.C12Dist2
