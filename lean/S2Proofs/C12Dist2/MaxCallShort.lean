/-
  C12Dist2.MaxCallShort — the one-ulp RIGHT-ANGLE CLASS of `UpdateMaxDistance` (known class F10: the 90° branch is skipped,
  but the true larger endpoint chord is in (2, 2 + 2^-51]) is harmless when the edge is SHORT (angle ≤ 120°, i.e.
  `a·b ≥ −|a||b|/2`) — which every float edge of an S2 cell is:

    * `arc_dot_short`       : cosines ≥ τ (τ ≤ 0) against both endpoint directions of an edge of angle ≤ 120° ⇒ cosine ≥ 2τ
                              against every point of the arc (the amplification 1/cos(θ/2) is at most 2);
    * `maxCall_upper_short` : `UnitPt` ×3, `EdgeOK`, `WedgeMargin (−x) a b`, `EdgeShort a b` ⇒ `CallUpper x a b`
                              (NO class hypothesis: inside the class the true maximum over the arc is ≤ D + 2^-51 for the true
                              endpoint maximum D, and the candidate is within 200u of D);
    * `cell_edge_short`     : the float vertices of a valid cell: consecutive ones have cosine ≥ −4u (exact corners: ≥ 0).
-/
import S2Proofs.C12Dist2.MaxCellOf
import S2Proofs.C12Dist2.FatArc

set_option linter.unusedSimpArgs false
set_option linter.unusedVariables false

namespace S2Proofs.C12Dist2
open S2 S2.CellID S2.CellM S2.CellEdgeM S2.EdgeNum S2Proofs.F64Order S2Proofs.FloatErr
open S2Proofs.C17Err S2Proofs.C17Err.R3 S2Proofs.C17Pairs S2Proofs.C17 S2Proofs.C08World S2Proofs.C12Dist S2Proofs.C12

/-- the endpoint rule with a NEGATIVE threshold, for an edge of angle ≤ 120° -/
theorem arc_dot_short {q a b P : R3} (ha : 0 < a.len) (hb : 0 < b.len) (hP : OnArc a b P)
    (hab : -(1 / 2) ≤ (dirR a).dot (dirR b)) {τ : ℝ} (hτ : τ ≤ 0)
    (h0 : τ ≤ q.dot (dirR a)) (h1 : τ ≤ q.dot (dirR b)) : 2 * τ ≤ q.dot P := by
  have hPn : P.n2 = 1 := by obtain ⟨_, _, _, _, _, h⟩ := hP; exact h
  obtain ⟨α, β, hα, hβ, hPc⟩ := onArc_dir_comb ha hb hP
  rw [hPc, comb_n2, dirR_n2 ha, dirR_n2 hb] at hPn
  rw [hPc, dot_comb]
  set c := (dirR a).dot (dirR b) with hc
  have hs : α + β ≤ 2 := by
    have h4 : (α + β) ^ 2 ≤ 4 := by nlinarith [mul_nonneg hα hβ, sq_nonneg (α - β)]
    nlinarith
  have g0 : α * τ ≤ α * q.dot (dirR a) := mul_le_mul_of_nonneg_left h0 hα
  have g1 : β * τ ≤ β * q.dot (dirR b) := mul_le_mul_of_nonneg_left h1 hβ
  nlinarith

/-- an edge of angle at most 120° -/
def EdgeShort (a b : V3) : Prop := -(1 / 2) * (len a * len b) ≤ dotR a b

theorem dir_dot (x a : V3) (hx : 0 < len x) (ha : 0 < len a) :
    (dirR (vecR x)).dot (dirR (vecR a)) = dotR x a / (len x * len a) := by
  rw [dot_dirR, dot_comm, dot_dirR, dot_comm, vecR_dot, vecR_len, vecR_len]
  field_simp

theorem dirChord2_eq (x a : V3) (hx : 0 < len x) (ha : 0 < len a) :
    dirChord2 x a = 2 - 2 * (dirR (vecR x)).dot (dirR (vecR a)) := by
  rw [dir_dot x a hx ha]; unfold dirChord2; ring

/-- **one call of `UpdateMaxDistance` against a short edge, the right-angle class included** -/
theorem maxCall_upper_short {x a b : V3} (hx : UnitPt x) (ha : UnitPt a) (hb : UnitPt b) (hE : EdgeOK a b)
    (hM : WedgeMargin (negV x) a b) (hs : EdgeShort a b) : CallUpper x a b := by
  have hu := uR_nonneg
  by_cases hcls : beyondRightAngle x a b = false ∧ 2 < maxEndpointTrue x a b
  · -- the class
    obtain ⟨hbr, hgt⟩ := hcls
    have hD := near_branch_class hx ha hb hbr
    obtain ⟨fm, h0, h4, herr, _, he⟩ := maxEndpoint_spec hx ha hb
    have hmpe := mpe_le fm h0 h4
    refine ⟨hx, ha, hb, by rw [maxCandidate_near x a b hbr]; exact fm, ?_⟩
    rw [maxCandidate_near x a b hbr]
    obtain ⟨P, hP, e⟩ := (trueMaxDist2_is_max (x := x) (a := a) (b := b) hx.1 hx.len_pos ha.len_pos hb.len_pos).2
    rw [← e, dirChordP_eq_chord]
    set D := maxEndpointTrue x a b with hDdef
    have hxl := hx.len_pos
    have hal := ha.len_pos
    have hbl := hb.len_pos
    have ca : dirChord2 x a ≤ D := le_max_left _ _
    have cb : dirChord2 x b ≤ D := le_max_right _ _
    rw [dirChord2_eq x a hxl hal] at ca
    rw [dirChord2_eq x b hxl hbl] at cb
    have hshort : -(1 / 2) ≤ (dirR (vecR a)).dot (dirR (vecR b)) := by
      rw [dir_dot a b hal hbl, le_div_iff₀ (mul_pos hal hbl)]
      exact hs
    have key := arc_dot_short (q := dirR (vecR x)) (show 0 < (vecR a).len from hal) (show 0 < (vecR b).len from hbl) hP
      hshort (τ := -(D - 2) / 2) (by linarith) (by linarith) (by linarith)
    unfold chordPQ maxCallErr
    have hl := (abs_le.mp herr).1
    have : (1 : ℝ) / 2 ^ 51 = 4 * uR := by unfold uR; norm_num
    linarith
  · exact callUpper_of_maxCallOK ⟨hx, ha, hb, hE, hM, hcls⟩

/-- consecutive float vertices of a valid cell span an angle of at most 120° (cosine ≥ −4u; exact corners: ≥ 0) -/
theorem cell_edge_short (id : CellID) (hv : isValid id = true) (k : Fin 4) :
    EdgeShort (vertex (cellFromCellID id) k.val) (vertex (cellFromCellID id) ((k.val + 1) % 4)) := by
  set c := cellFromCellID id with hc
  obtain ⟨_, _, _, _, ok, _⟩ := cellOK id hv
  have hN := nearQuad_cell id hv
  have hu := uR_nonneg
  set Q := cellQuad c.face (rectOf c) with hQ
  have hQok := cellQuad_ok c.face (rectOf c) ok
  have l0 : 0 < (floatV c k).len := hN.vpos k
  have l1 : 0 < (floatV c (k + 1)).len := hN.vpos (k + 1)
  have w0 : 0 < (Q.w k).len := hQok.wpos k
  have w1 : 0 < (Q.w (k + 1)).len := hQok.wpos (k + 1)
  -- exact corners: cosine ≥ 0
  have hex : 0 ≤ (dirR (Q.w k)).dot (dirR (Q.w (k + 1))) := by
    rw [dot_dirR, dot_comm, dot_dirR]
    have : 0 ≤ (Q.w (k + 1)).dot (Q.w k) := by
      show 0 ≤ (xyzC c.face (cornerUVW (rectOf c) (k + 1 : Fin 4).val)).dot (xyzC c.face (cornerUVW (rectOf c) k.val))
      rw [xyzC_dot, fin4_succ_val, cornerUVW_mod, dot_comm]
      exact cornerUVW_dot_succ (rectOf c) ok k.val
    positivity
  have n0 : (dirR (floatV c k)).n2 = 1 := dirR_n2 l0
  have n1 : (dirR (Q.w (k + 1))).n2 = 1 := dirR_n2 w1
  -- ŵk·ŵk1 ≤ ŵk1·V̂k + 2u ;  V̂k·ŵk1 ≤ V̂k·V̂k1 + 2u
  have s1 : (dirR (Q.w (k + 1))).dot (dirR (Q.w k)) ≤ (dirR (Q.w (k + 1))).dot (dirR (floatV c k)) + 2 * uR :=
    dot_le_of_near (by positivity) n1 (by rw [d2_comm]; exact hN.near k)
  have s2 : (dirR (floatV c k)).dot (dirR (Q.w (k + 1))) ≤ (dirR (floatV c k)).dot (dirR (floatV c (k + 1))) + 2 * uR :=
    dot_le_of_near (by positivity) n0 (by rw [d2_comm]; exact hN.near (k + 1))
  rw [dot_comm] at s1
  rw [dot_comm (dirR (Q.w (k + 1))) (dirR (floatV c k))] at s1
  have hcos : -(1 / 2) ≤ (dirR (floatV c k)).dot (dirR (floatV c (k + 1))) := by
    have : 4 * uR ≤ 1 / 2 := by unfold uR; norm_num
    linarith
  rw [floatV_succ] at hcos l1
  unfold floatV at hcos l0
  unfold EdgeShort
  have l0' : 0 < len (vertex c k.val) := l0
  have l1' : 0 < len (vertex c ((k.val + 1) % 4)) := l1
  rw [dir_dot _ _ l0' l1', le_div_iff₀ (mul_pos l0' l1')] at hcos
  exact hcos

end S2Proofs.C12Dist2
