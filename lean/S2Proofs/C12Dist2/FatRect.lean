import Mathlib.Tactic.Linarith
import Mathlib.Tactic.Ring
import Mathlib.Tactic.Positivity
import Mathlib.Tactic.NormNum
import Mathlib.Data.Real.Basic

/-!
# A fat uv-rectangle on which two great-circle half-spaces nearly hold

Pure real arithmetic.  `fat_rect_arc`: if `A = â·(u,v,1)` and `B = b̂·(u,v,1)` are both `≥ -ε` on a
uv-rectangle inside `[-1,1]²` whose widths are `≥ w ≥ 64 ε`, then every normalised nonnegative
combination `(α A + β B)/|α â + β b̂|` is `≥ -4 ε` on the rectangle.
-/

namespace S2Proofs.C12Dist2.FatRect

private lemma le_of_sq_le_sq' {x y : ℝ} (h : x ^ 2 ≤ y ^ 2) (hy : 0 ≤ y) : x ≤ y := by
  by_contra hc
  push Not at hc
  nlinarith

private lemma dir_bound {h ε e t : ℝ} (hh : 0 < h) (hε : 4 * ε ≤ h / 8)
    (h1 : h * e ≤ h * t + 4 * ε) (h2 : -(h * e) ≤ h * t + 4 * ε) :
    e ^ 2 ≤ 2 * t ^ 2 + 1 / 32 := by
  have e1 : e ≤ t + 1 / 8 := by
    have : h * e ≤ h * (t + 1 / 8) := by nlinarith
    exact le_of_mul_le_mul_left this hh
  have e2 : -e ≤ t + 1 / 8 := by
    have : h * (-e) ≤ h * (t + 1 / 8) := by nlinarith
    exact le_of_mul_le_mul_left this hh
  have e3 : e ^ 2 ≤ (t + 1 / 8) ^ 2 := by
    nlinarith [mul_nonneg (sub_nonneg.2 e1) (by linarith : (0 : ℝ) ≤ t + 1 / 8 + e)]
  nlinarith [sq_nonneg (t - 1 / 8)]

private lemma dir_step {a b A B h ε : ℝ} (hh : 0 < h) (hε : 4 * ε ≤ h / 8)
    (hA : -ε ≤ A) (hB : -ε ≤ B) (hAB : A + B < 0)
    (H : (-ε ≤ A + h * a ∧ -ε ≤ B + h * b) ∨ (-ε ≤ A - h * a ∧ -ε ≤ B - h * b)) :
    (a - b) ^ 2 ≤ 2 * (a + b) ^ 2 + 1 / 32 := by
  rcases H with ⟨H1, H2⟩ | ⟨H1, H2⟩
  · have h1 : h * (a - b) ≤ h * (a + b) + 4 * ε := by
      have : h * (a - b) = h * a - h * b := by ring
      have : h * (a + b) = h * a + h * b := by ring
      linarith
    have h2 : -(h * (a - b)) ≤ h * (a + b) + 4 * ε := by
      have : h * (a - b) = h * a - h * b := by ring
      have : h * (a + b) = h * a + h * b := by ring
      linarith
    exact dir_bound hh hε h1 h2
  · have h1 : h * (a - b) ≤ h * (-(a + b)) + 4 * ε := by
      have : h * (a - b) = h * a - h * b := by ring
      have : h * (-(a + b)) = -(h * a) - h * b := by ring
      linarith
    have h2 : -(h * (a - b)) ≤ h * (-(a + b)) + 4 * ε := by
      have : h * (a - b) = h * a - h * b := by ring
      have : h * (-(a + b)) = -(h * a) - h * b := by ring
      linarith
    have e := dir_bound hh hε h1 h2
    have : (-(a + b)) ^ 2 = (a + b) ^ 2 := by ring
    rw [this] at e
    exact e

private lemma cs2 {x y u v : ℝ} (hu : u ^ 2 ≤ 1) (hv : v ^ 2 ≤ 1) :
    (x * u + y * v) ^ 2 ≤ 2 * (x ^ 2 + y ^ 2) := by
  nlinarith [sq_nonneg (x * v - y * u), mul_nonneg (sq_nonneg x) (sub_nonneg.2 hu),
    mul_nonneg (sq_nonneg x) (sub_nonneg.2 hv), mul_nonneg (sq_nonneg y) (sub_nonneg.2 hu),
    mul_nonneg (sq_nonneg y) (sub_nonneg.2 hv)]

private lemma sq_lt_of_abs {r : ℝ} (h1 : -(1 / 16) < r) (h2 : r < 1 / 16) : r ^ 2 < 1 / 256 := by
  nlinarith

private lemma sq_split (d e : ℝ) : e ^ 2 ≤ 2 * (d + e) ^ 2 + 2 * d ^ 2 := by
  nlinarith [sq_nonneg (d + e + d)]

private lemma comb_case1 {α β c N A B ε : ℝ} (hα : 0 ≤ α) (hβ : 0 ≤ β) (hN0 : 0 < N)
    (hN : N ^ 2 = α ^ 2 + β ^ 2 + 2 * α * β * c) (hc : -7 / 8 ≤ c) (hε0 : 0 ≤ ε)
    (hA : -ε ≤ A) (hB : -ε ≤ B) : -(4 * ε) * N ≤ α * A + β * B := by
  have hαβ : 0 ≤ α * β := mul_nonneg hα hβ
  have hsum : α + β ≤ 4 * N := by
    apply le_of_sq_le_sq' _ (by linarith)
    nlinarith [sq_nonneg (α - β), mul_nonneg hαβ (by linarith : (0:ℝ) ≤ c + 7/8)]
  have h1 : 0 ≤ α * (A + ε) := mul_nonneg hα (by linarith)
  have h2 : 0 ≤ β * (B + ε) := mul_nonneg hβ (by linarith)
  have h3 : ε * (α + β) ≤ ε * (4 * N) := mul_le_mul_of_nonneg_left hsum hε0
  linarith

private lemma comb_case2 {α β c N A B ε : ℝ} (hβ : 0 ≤ β) (hle : β ≤ α) (hN0 : 0 < N)
    (hN : N ^ 2 = α ^ 2 + β ^ 2 + 2 * α * β * c) (hc : -1 ≤ c) (hε0 : 0 ≤ ε)
    (hA : -ε ≤ A) (hS : 0 ≤ A + B) : -(4 * ε) * N ≤ α * A + β * B := by
  have hαβ : 0 ≤ α * β := mul_nonneg (hβ.trans hle) hβ
  have hdiff : α - β ≤ N := by
    apply le_of_sq_le_sq' _ hN0.le
    nlinarith [mul_nonneg hαβ (by linarith : (0:ℝ) ≤ c + 1)]
  have h1 : 0 ≤ (α - β) * (A + ε) := mul_nonneg (sub_nonneg.2 hle) (by linarith)
  have h2 : 0 ≤ β * (A + B) := mul_nonneg hβ hS
  have h3 : ε * (α - β) ≤ ε * N := mul_le_mul_of_nonneg_left hdiff hε0
  have h4 : 0 ≤ ε * N := mul_nonneg hε0 hN0.le
  linarith

private lemma sq_le_one {x : ℝ} (h0 : -1 ≤ x) (h1 : x ≤ 1) : x ^ 2 ≤ 1 := by nlinarith

/-- Sub-claim S: when the two normals are nearly opposite, `A + B ≥ 0` on the whole rectangle. -/
private lemma sum_nonneg_on_rect {a1 a2 a3 b1 b2 b3 u0 u1 v0 v1 w ε : ℝ}
    (ha : a1^2 + a2^2 + a3^2 = 1) (hb : b1^2 + b2^2 + b3^2 = 1)
    (hu0 : -1 ≤ u0) (hu : u0 + w ≤ u1) (hu1 : u1 ≤ 1) (hv0 : -1 ≤ v0) (hv : v0 + w ≤ v1) (hv1 : v1 ≤ 1)
    (hw : 0 < w) (hε0 : 0 ≤ ε) (hεw : 64 * ε ≤ w)
    (hA : ∀ u v, u0 ≤ u → u ≤ u1 → v0 ≤ v → v ≤ v1 → -ε ≤ a1 * u + a2 * v + a3)
    (hB : ∀ u v, u0 ≤ u → u ≤ u1 → v0 ≤ v → v ≤ v1 → -ε ≤ b1 * u + b2 * v + b3)
    (hc : a1*b1 + a2*b2 + a3*b3 < -7/8)
    {u v : ℝ} (hu0' : u0 ≤ u) (hu1' : u ≤ u1) (hv0' : v0 ≤ v) (hv1' : v ≤ v1) :
    0 ≤ (a1 * u + a2 * v + a3) + (b1 * u + b2 * v + b3) := by
  by_contra hneg
  push Not at hneg
  have hAp := hA u v hu0' hu1' hv0' hv1'
  have hBp := hB u v hu0' hu1' hv0' hv1'
  have hh : 0 < w / 2 := by linarith
  have hε : 4 * ε ≤ (w / 2) / 8 := by linarith
  -- u direction
  have E1 : (a1 - b1) ^ 2 ≤ 2 * (a1 + b1) ^ 2 + 1 / 32 := by
    refine dir_step hh hε hAp hBp hneg ?_
    rcases le_total (u + w / 2) u1 with hcase | hcase
    · left
      have h1 := hA (u + w / 2) v (by linarith) hcase hv0' hv1'
      have h2 := hB (u + w / 2) v (by linarith) hcase hv0' hv1'
      constructor <;> linarith
    · right
      have h1 := hA (u - w / 2) v (by linarith) (by linarith) hv0' hv1'
      have h2 := hB (u - w / 2) v (by linarith) (by linarith) hv0' hv1'
      constructor <;> linarith
  -- v direction
  have E2 : (a2 - b2) ^ 2 ≤ 2 * (a2 + b2) ^ 2 + 1 / 32 := by
    refine dir_step hh hε hAp hBp hneg ?_
    rcases le_total (v + w / 2) v1 with hcase | hcase
    · left
      have h1 := hA u (v + w / 2) hu0' hu1' (by linarith) hcase
      have h2 := hB u (v + w / 2) hu0' hu1' (by linarith) hcase
      constructor <;> linarith
    · right
      have h1 := hA u (v - w / 2) hu0' hu1' (by linarith) (by linarith)
      have h2 := hB u (v - w / 2) hu0' hu1' (by linarith) (by linarith)
      constructor <;> linarith
  have hS : (a1 + b1) ^ 2 + (a2 + b2) ^ 2 + (a3 + b3) ^ 2 < 1 / 4 := by nlinarith
  have hE : 15 / 4 < (a1 - b1) ^ 2 + (a2 - b2) ^ 2 + (a3 - b3) ^ 2 := by nlinarith
  have hE12 : (a1 - b1) ^ 2 + (a2 - b2) ^ 2 ≤ 9 / 16 := by
    nlinarith [sq_nonneg (a3 + b3)]
  have hE3 : 51 / 16 < (a3 - b3) ^ 2 := by linarith
  have hu2 : u ^ 2 ≤ 1 := sq_le_one (by linarith) (by linarith)
  have hv2 : v ^ 2 ≤ 1 := sq_le_one (by linarith) (by linarith)
  have hd := cs2 (x := a1 - b1) (y := a2 - b2) hu2 hv2
  have hε32 : ε ≤ 1 / 32 := by linarith
  -- r = A - B = d + e3
  obtain ⟨d, hddef⟩ : ∃ d, d = (a1 - b1) * u + (a2 - b2) * v := ⟨_, rfl⟩
  rw [← hddef] at hd
  have hr1 : d + (a3 - b3) < 1 / 16 := by rw [hddef]; linarith
  have hr2 : -(1 / 16) < d + (a3 - b3) := by rw [hddef]; linarith
  have hr : (d + (a3 - b3)) ^ 2 < 1 / 256 := sq_lt_of_abs hr2 hr1
  have hsp := sq_split d (a3 - b3)
  linarith

theorem fat_rect_arc {a1 a2 a3 b1 b2 b3 u0 u1 v0 v1 w ε α β N : ℝ}
    (ha : a1^2 + a2^2 + a3^2 = 1) (hb : b1^2 + b2^2 + b3^2 = 1)
    (hu0 : -1 ≤ u0) (hu : u0 + w ≤ u1) (hu1 : u1 ≤ 1) (hv0 : -1 ≤ v0) (hv : v0 + w ≤ v1) (hv1 : v1 ≤ 1)
    (hw : 0 < w) (hε0 : 0 ≤ ε) (hεw : 64 * ε ≤ w)
    (hA : ∀ u v, u0 ≤ u → u ≤ u1 → v0 ≤ v → v ≤ v1 → -ε ≤ a1 * u + a2 * v + a3)
    (hB : ∀ u v, u0 ≤ u → u ≤ u1 → v0 ≤ v → v ≤ v1 → -ε ≤ b1 * u + b2 * v + b3)
    (hα : 0 ≤ α) (hβ : 0 ≤ β) (hN0 : 0 < N)
    (hN : N^2 = α^2 + β^2 + 2 * α * β * (a1*b1 + a2*b2 + a3*b3))
    {u v : ℝ} (hu0' : u0 ≤ u) (hu1' : u ≤ u1) (hv0' : v0 ≤ v) (hv1' : v ≤ v1) :
    -(4 * ε) * N ≤ α * (a1 * u + a2 * v + a3) + β * (b1 * u + b2 * v + b3) := by
  have hAp := hA u v hu0' hu1' hv0' hv1'
  have hBp := hB u v hu0' hu1' hv0' hv1'
  obtain ⟨c, hcdef⟩ : ∃ c, c = a1*b1 + a2*b2 + a3*b3 := ⟨_, rfl⟩
  obtain ⟨A, hAdef⟩ : ∃ A, A = a1 * u + a2 * v + a3 := ⟨_, rfl⟩
  obtain ⟨B, hBdef⟩ : ∃ B, B = b1 * u + b2 * v + b3 := ⟨_, rfl⟩
  have hc1 : -1 ≤ c := by
    rw [hcdef]; nlinarith [sq_nonneg (a1 + b1), sq_nonneg (a2 + b2), sq_nonneg (a3 + b3)]
  rw [← hcdef] at hN
  rw [← hAdef] at hAp ⊢
  rw [← hBdef] at hBp ⊢
  rcases le_or_gt (-7/8) c with hc | hc
  · exact comb_case1 hα hβ hN0 hN hc hε0 hAp hBp
  · have hS : 0 ≤ A + B := by
      rw [hAdef, hBdef]
      exact sum_nonneg_on_rect ha hb hu0 hu hu1 hv0 hv hv1 hw hε0 hεw hA hB (hcdef ▸ hc)
        hu0' hu1' hv0' hv1'
    rcases le_total β α with hle | hle
    · exact comb_case2 hβ hle hN0 hN hc1 hε0 hAp hS
    · have hN' : N ^ 2 = β ^ 2 + α ^ 2 + 2 * β * α * c := by rw [hN]; ring
      have := comb_case2 hα hle hN0 hN' hc1 hε0 hBp (by linarith : 0 ≤ B + A)
      linarith

end S2Proofs.C12Dist2.FatRect
