/-
  C12Dist2.EdgeLower — float glue for `Cell.DistanceToEdge(a, b)` (model `S2.CellEdgeM.distanceToEdge`):

      distanceToEdge_lower_of :  the reported value is a finite float and
            val (DistanceToEdge(a,b)) ≤ chord²(q, r) + 2^-45 + 2^-49 + 2ε + 2η + η²
      for EVERY point q of the exact cell and EVERY point r of the arc ab,

  from  * C12 `distance_lower_bound` (2^-45) + the C12↔C17 bridge (2^-49) for `Distance(a)`, `Distance(b)`,
        * c08world's contract of `UpdateMinDistance` with a limit (2^-46) for the loop over the four float vertices,
        * the pure geometry `quad_arc_robust`,
  parametrised by the three facts proved in other files: `NearQuad` (the float vertices are within ε of the exact corners,
  the float edges within η of the exact edges: `VertexDir.lean`), `TouchLemma` (`Touch.lean`) and `NoCrossLink`
  (`DoNotCross` four times ⇒ no proper crossing with a float edge: `NoCross.lean`).
  Returning 0 (an endpoint in the cell, or a crossing reported) is trivially a lower bound.
-/
import S2Proofs.C12Dist2.Robust
import S2Proofs.C12Dist2.CellQuad
import S2Proofs.C12Dist2.Chain
import S2Proofs.C12Dist2.DistNonneg

set_option linter.unusedSimpArgs false
set_option linter.unusedVariables false

namespace S2Proofs.C12Dist2
open S2 S2.CellID S2.CellM S2.CellEdgeM S2.EdgeNum S2Proofs.F64Order S2Proofs.FloatErr
open S2Proofs.C17Err S2Proofs.C17Err.R3 S2Proofs.C17Pairs S2Proofs.C17 S2Proofs.C08World S2Proofs.C12Dist S2Proofs.C12

/-- the float vertices `c.Vertex(k)` as real vectors -/
noncomputable def floatV (c : Cell) : Fin 4 → R3 := fun k => vecR (vertex c k.val)

/-- the crossing loop of `DistanceToEdge` answers `DoNotCross` four times ⇒ the arc crosses no float edge properly -/
def NoCrossLink (c : Cell) (a b : V3) : Prop :=
  anyCrossing (Crosser.initChain a b (vertex c 3)) (vertices c) = false →
    ∀ k : Fin 4, ¬ ProperCrossR (vecR a) (vecR b) (floatV c k) (floatV c (k + 1))

/-- `minChordAngle(x, y)` on finite floats -/
theorem minChord2 {x y : F64} (fx : Fin x) (fy : Fin y) :
    Fin (minChord x [y]) ∧ val (minChord x [y]) ≤ val x ∧ val (minChord x [y]) ≤ val y ∧
    (minChord x [y] = x ∨ minChord x [y] = y) := by
  unfold minChord
  simp only [List.foldl_cons, List.foldl_nil]
  by_cases h : F64.lt y x = true
  · rw [if_pos h]
    have := (lt_val fy fx).mp h
    exact ⟨fy, this.le, le_refl _, Or.inr rfl⟩
  · rw [if_neg h]
    refine ⟨fx, le_refl _, ?_, Or.inl rfl⟩
    by_contra hc
    exact h ((lt_val fy fx).mpr (not_le.mp hc))

theorem dirChordP_eq_chord (x : V3) (P : R3) : dirChordP x P = chordPQ (dirR (vecR x)) P := by
  unfold dirChordP; rw [chord_dir]; rfl

theorem chordPQ_nonneg' {x y : R3} (hx : x.n2 = 1) (hy : y.n2 = 1) : 0 ≤ chordPQ x y := chordPQ_nonneg hx hy

theorem distanceToEdge_lower_of (id : CellID) (hv : isValid id = true) (a b : V3)
    (ha : UnitPt a) (hb : UnitPt b) (hE : EdgeOK a b)
    (hV : ∀ k, k < 4 → VertexCallOK (vertex (cellFromCellID id) k) a b)
    {ε η : ℝ} (hN : NearQuad (cellQuad (cellFromCellID id).face (rectOf (cellFromCellID id))) (floatV (cellFromCellID id)) ε η)
    (touch : TouchLemma) (hX : NoCrossLink (cellFromCellID id) a b)
    {q r : R3} (hq : InCellXYZ (cellFromCellID id) (toAcc q)) (hr : OnArc (vecR a) (vecR b) r) :
    Fin (distanceToEdge (cellFromCellID id) a b) ∧
    val (distanceToEdge (cellFromCellID id) a b)
      ≤ chordPQ q r + (1 / 2 ^ 45 + 1 / 2 ^ 49 + 2 * ε + 2 * η + η ^ 2) := by
  set c := cellFromCellID id with hcdef
  obtain ⟨_, _, _, _, ok, _⟩ := cellOK id hv
  have hQ := cellQuad_ok c.face (rectOf c) ok
  set Q := cellQuad c.face (rectOf c) with hQdef
  have hqPt : Q.Pt q := (pt_iff_inCell c.face (rectOf c) ok q).mpr hq
  have hq1 := hqPt.1
  have hr1 := onArc_n2 hr
  have hch0 : 0 ≤ chordPQ q r := chordPQ_nonneg hq1 hr1
  have hε := hN.ε0
  have hη := hN.η0
  have hslack : 0 ≤ (1 : ℝ) / 2 ^ 45 + 1 / 2 ^ 49 + 2 * ε + 2 * η + η ^ 2 := by positivity
  have pa := unitPt_ptOK ha
  have pb := unitPt_ptOK hb
  -- Distance(a), Distance(b)
  obtain ⟨fDa, _⟩ := distance_lower_bound id hv a pa (toAcc q) hq
  obtain ⟨fDb, _⟩ := distance_lower_bound id hv b pb (toAcc q) hq
  have nDa := distance_nonneg id hv a pa
  have nDb := distance_nonneg id hv b pb
  obtain ⟨fm, mDa, mDb, mcase⟩ := minChord2 fDa fDb
  have nm : 0 ≤ val (minChord (distance c a) [distance c b]) := by
    rcases mcase with h | h <;> rw [h] <;> assumption
  unfold distanceToEdge
  simp only
  split
  · -- minDist == 0
    rename_i hz
    have fz0 : Fin fzero := by decide
    have := (feq_iff fm fz0).mp hz
    have hv0 : val (minChord (distance c a) [distance c b]) = val fzero := (S2Proofs.C12Dist.VertexErr.val_eq_iff _ _).mpr this
    rw [val_fzero] at hv0
    exact ⟨fm, by rw [hv0]; linarith⟩
  split
  · -- a crossing is reported
    exact ⟨by decide, by rw [val_fzero]; linarith⟩
  · rename_i hnz hnc
    have hnc' : anyCrossing (Crosser.initChain a b (vertex c 3)) (vertices c) = false := by
      cases h : anyCrossing (Crosser.initChain a b (vertex c 3)) (vertices c)
      · rfl
      · exact absurd h hnc
    have hvs : vertices c = [vertex c 0, vertex c 1, vertex c 2, vertex c 3] := rfl
    rw [hvs]
    obtain ⟨fR, nR, lm, t0, t1, t2, t3⟩ :=
      vertexChain_bound ha hb hE (hV 0 (by norm_num)) (hV 1 (by norm_num)) (hV 2 (by norm_num)) (hV 3 (by norm_num)) fm nm
    set R := val (vertexChain a b (minChord (distance c a) [distance c b]) [vertex c 0, vertex c 1, vertex c 2, vertex c 3])
      with hRdef
    refine ⟨fR, ?_⟩
    have hla := ha.len_pos
    have hlb := hb.len_pos
    have hab : NotAntipodal (vecR a) (vecR b) := Or.inl (len_pos_iff.mp (edgeOK_normal_pos hE))
    -- the four vertex bounds
    have hRvN : ∀ i, i < 4 → ∀ P, OnArc (vecR a) (vecR b) P →
        R ≤ chordPQ (dirR (vecR (vertex c i))) P + C08World.edgeErr := by
      intro i hi P hP
      have hlen : 0 < len (vertex c i) := (hV i hi).hv.len_pos
      have h1 := trueDist2_le hlen hla hlb hP
      rw [dirChordP_eq_chord] at h1
      interval_cases i <;> linarith
    have hRv : ∀ k P, OnArc (vecR a) (vecR b) P → R ≤ chordPQ (dirR (floatV c k)) P + C08World.edgeErr :=
      fun k P hP => hRvN k.val k.isLt P hP
    -- the two endpoint bounds
    have hEnd : ∀ (e : V3) (he : UnitPt e), val (distance c e) ≤ val (distance c a) ∨ val (distance c e) ≤ val (distance c b) →
        R ≤ val (distance c e) → ∀ x, Q.Pt x → R ≤ chordPQ (dirR (vecR e)) x + (1 / 2 ^ 45 + 1 / 2 ^ 49) := by
      intro e he _ hRe x hx
      have hxin : InCellXYZ c (toAcc x) := (pt_iff_inCell c.face (rectOf c) ok x).mp hx
      obtain ⟨_, h1⟩ := distance_lower_bound id hv e (unitPt_ptOK he) (toAcc x) hxin
      obtain ⟨h2, _⟩ := dist2_bridge he x hx.1
      rw [dirChordP_eq_chord] at h2
      linarith
    have hRa := hEnd a ha (Or.inl (le_refl _)) (by linarith)
    have hRb := hEnd b hb (Or.inr (le_refl _)) (by linarith)
    have hsV : (0 : ℝ) ≤ C08World.edgeErr := by unfold C08World.edgeErr; positivity
    have hmax : max ((1 : ℝ) / 2 ^ 45 + 1 / 2 ^ 49) C08World.edgeErr = 1 / 2 ^ 45 + 1 / 2 ^ 49 := by
      apply max_eq_left; unfold C08World.edgeErr; norm_num
    have := quad_arc_robust hQ hN touch (a := vecR a) (b := vecR b) hla hlb hab (hX hnc') (by positivity) hsV hRa hRb hRv hqPt hr
    rw [hmax] at this
    exact this

end S2Proofs.C12Dist2
