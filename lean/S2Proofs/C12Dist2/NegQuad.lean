/-
  C12Dist2.NegQuad — the antipodal image of a cone (`negQuad`) and of an S2 cell.

      A.  `negQuad Q` keeps all the structure of `Q` (`OK`, `EdgesOK`, `Pointed`, `NearQuad`): negation is a linear isometry
      B.  the antipode of the cell `(f, r)` is the cell `(oppFace f, transposeR r)`, corners in reversed cyclic order
          (`cellQuad_opp_corner`, `cellQuad_opp_in`)
      C.  for `Apart f (oppFace f') r (transposeR r')` the cell `(f, r)` and the ANTIPODE of the cell `(f', r')` have no
          proper edge crossing and every corner of one in the other lies on an edge of the other.
-/
import S2Proofs.C12Dist2.CellsApart
import S2Proofs.C12Dist2.Robust2
import S2Proofs.C12Dist2.Exact
import S2Proofs.C17Pairs.MaxPair
set_option linter.unusedSimpArgs false
set_option linter.unusedVariables false
namespace S2Proofs.C12Dist2
open S2Proofs.C17Err S2Proofs.C17Err.R3 S2Proofs.C17Pairs S2Proofs.C12Dist

/-- the antipodal cone -/
def negQuad (Q : Quad) : Quad := ⟨fun k x => Q.h k (negR x), fun k => negR (Q.w k)⟩
/-- the uv rectangle of the antipodal cell (`antipodalUV := r2.Rect{X: target.uv.Y, Y: target.uv.X}` in s2/cell.go) -/
def transposeR (r : RRect) : RRect := ⟨r.v0, r.v1, r.u0, r.u1⟩
/-- `oppositeFace` -/
def oppFace (f : Nat) : Nat := (f + 3) % 6

/-! ### negation: linear isometry -/

theorem negR_comb (s : ℝ) (x : R3) (t : ℝ) (y : R3) : negR (comb s x t y) = comb s (negR x) t (negR y) := by
  apply r3_ext <;> simp only [negR, comb] <;> ring

theorem negR_dot (x y : R3) : (negR x).dot (negR y) = x.dot y := by unfold negR R3.dot; ring

theorem dirR_negR (x : R3) : dirR (negR x) = negR (dirR x) := by
  unfold dirR; rw [negR_len, negR_comb]

theorem d2_negR (x y : R3) : d2 (negR x) (negR y) = d2 x y := by
  rw [d2_eq, d2_eq, negR_n2, negR_n2, negR_dot]

theorem onArc_negR_iff (a b P : R3) : OnArc (negR a) (negR b) P ↔ OnArc a b (negR P) := by
  constructor
  · intro h
    have := onArc_negR h
    rwa [negR_negR, negR_negR] at this
  · intro h
    have := onArc_negR h
    rwa [negR_negR] at this

theorem negR_eq_iff (x y : R3) : negR x = y ↔ x = negR y := by
  constructor
  · intro h; rw [← h, negR_negR]
  · intro h; rw [h, negR_negR]

/-! ### A. the antipodal cone -/

theorem negQuad_in (Q : Quad) (x : R3) : (negQuad Q).In x ↔ Q.In (negR x) := Iff.rfl

theorem negQuad_pt (Q : Quad) (x : R3) : (negQuad Q).Pt x ↔ Q.Pt (negR x) := by
  unfold Quad.Pt
  rw [negQuad_in, negR_n2]

theorem negQuad_ok {Q : Quad} (h : Q.OK) : (negQuad Q).OK where
  lin := by
    intro k s x t y
    show Q.h k (negR (comb s x t y)) = s * Q.h k (negR x) + t * Q.h k (negR y)
    rw [negR_comb, h.lin]
  wpos := by
    intro k
    show 0 < (negR (Q.w k)).len
    rw [negR_len]; exact h.wpos k
  edge := by
    intro k x hin h0
    obtain ⟨s, t, hs, ht, e⟩ := h.edge k (negR x) hin h0
    refine ⟨s, t, hs, ht, ?_⟩
    show x = comb s (negR (Q.w k)) t (negR (Q.w (k + 1)))
    rw [← negR_comb, ← e, negR_negR]
  corner := by
    intro k
    show Q.In (negR (negR (Q.w k)))
    rw [negR_negR]; exact h.corner k

theorem negQuad_edgesOK {Q : Quad} (h : Q.EdgesOK) : (negQuad Q).EdgesOK := by
  intro k
  exact notAntipodal_negR (h k)

theorem negQuad_pointed {Q : Quad} (hQ : Q.OK) (h : Q.Pointed) : (negQuad Q).Pointed := by
  intro z h1 h2
  have h2' : Q.In (negR (comb (-1) z 0 z)) := h2
  rw [negR_comb] at h2'
  have := h (negR z) h1 h2'
  rwa [negR_n2] at this

theorem negQuad_near {Q : Quad} {V : Fin 4 → R3} {ε η : ℝ} (h : NearQuad Q V ε η) :
    NearQuad (negQuad Q) (fun k => negR (V k)) ε η where
  ε0 := h.ε0
  η0 := h.η0
  vpos := by
    intro k
    show 0 < (negR (V k)).len
    rw [negR_len]; exact h.vpos k
  vna := by
    intro k
    exact notAntipodal_negR (h.vna k)
  near := by
    intro k
    show d2 (dirR (negR (V k))) (dirR (negR (Q.w k))) ≤ ε ^ 2
    rw [dirR_negR, dirR_negR, d2_negR]; exact h.near k
  toFloat := by
    intro k Y hY
    have hY' : OnArc (Q.w k) (Q.w (k + 1)) (negR Y) := (onArc_negR_iff _ _ _).mp hY
    obtain ⟨Y', hY'1, hd⟩ := h.toFloat k (negR Y) hY'
    refine ⟨negR Y', onArc_negR hY'1, ?_⟩
    have := d2_negR Y' (negR Y)
    rw [negR_negR] at this
    rw [this]; exact hd
  toExact := by
    intro k Y' hY'
    have hY'' : OnArc (V k) (V (k + 1)) (negR Y') := (onArc_negR_iff _ _ _).mp hY'
    obtain ⟨Y, hY1, hd⟩ := h.toExact k (negR Y') hY''
    refine ⟨negR Y, onArc_negR hY1, ?_⟩
    have := d2_negR (negR Y') Y
    rw [negR_negR] at this
    rw [this]; exact hd

/-! ### B. the antipode of a cell -/

theorem oppFace_lt {f : Nat} (hf : f < 6) : oppFace f < 6 := Nat.mod_lt _ (by norm_num)

theorem transposeR_ok {r : RRect} (ok : r.OK) : (transposeR r).OK :=
  ⟨ok.v0_ge, ok.v_lt, ok.v1_le, ok.u0_ge, ok.u_lt, ok.u1_le⟩

/-- uvw frame: `uvwC (oppFace f) (negR p)` is `uvwC f p` with x and y swapped -/
theorem uvwC_opp {f : Nat} (hf : f < 6) (p : R3) :
    uvwC (oppFace f) (negR p) = ⟨(uvwC f p).y, (uvwC f p).x, (uvwC f p).z⟩ := by
  interval_cases f <;> simp [oppFace, uvwC, negR]

/-- the inverse frame: the negated `xyzC f c` is `xyzC (oppFace f)` of `c` with x and y swapped -/
theorem xyzC_opp {f : Nat} (hf : f < 6) (c : R3) : xyzC (oppFace f) ⟨c.y, c.x, c.z⟩ = negR (xyzC f c) := by
  have h := uvwC_opp hf (xyzC f c)
  rw [uvwC_xyzC] at h
  rw [← h, xyzC_uvwC]

/-- the index map of the corners: `σ k = (4 − k) % 4` -/
def sg (k : Fin 4) : Fin 4 := ⟨(4 - k.val) % 4, Nat.mod_lt _ (by norm_num)⟩

theorem sg_succ (j : Fin 4) : sg (j + 1) + 1 = sg j := by
  revert j; decide

theorem sg_inv (m : Fin 4) : sg (sg (m + 1)) = m + 1 ∧ sg (m + 1) + 1 = sg m ∧ sg (sg (m + 1) + 1) = m := by
  revert m; decide

/-- corner σ(k) = (4 − k) % 4 of the antipodal cell is the negated corner k -/
theorem cellQuad_opp_corner {f : Nat} (hf : f < 6) (r : RRect) (k : Fin 4) :
    (cellQuad (oppFace f) (transposeR r)).w ⟨(4 - k.val) % 4, Nat.mod_lt _ (by norm_num)⟩ = negR ((cellQuad f r).w k) := by
  show xyzC (oppFace f) (cornerUVW (transposeR r) ((4 - k.val) % 4)) = negR (xyzC f (cornerUVW r k.val))
  rw [← xyzC_opp hf]
  congr 1
  fin_cases k <;> simp [cornerUVW, transposeR]

theorem cellQuad_opp_corner' {f : Nat} (hf : f < 6) (r : RRect) (k : Fin 4) :
    (cellQuad (oppFace f) (transposeR r)).w (sg k) = negR ((cellQuad f r).w k) := cellQuad_opp_corner hf r k

/-- same cone -/
theorem cellQuad_opp_in {f : Nat} (hf : f < 6) (r : RRect) (x : R3) :
    (cellQuad (oppFace f) (transposeR r)).In x ↔ (negQuad (cellQuad f r)).In x := by
  have e : uvwC (oppFace f) x = ⟨(uvwC f (negR x)).y, (uvwC f (negR x)).x, (uvwC f (negR x)).z⟩ := by
    rw [← uvwC_opp hf, negR_negR]
  have hform : ∀ k : Fin 4, (cellQuad (oppFace f) (transposeR r)).h k x
      = (negQuad (cellQuad f r)).h ⟨3 - k.val, by omega⟩ x := by
    intro k
    show formUVW (transposeR r) k.val (uvwC (oppFace f) x) = formUVW r (3 - k.val) (uvwC f (negR x))
    rw [e]
    fin_cases k <;> simp [formUVW, transposeR]
  constructor
  · intro h k
    have := h ⟨3 - k.val, by omega⟩
    rw [hform] at this
    have e2 : (⟨3 - (⟨3 - k.val, by omega⟩ : Fin 4).val, by omega⟩ : Fin 4) = k := by
      apply Fin.ext; simp only []; omega
    rwa [e2] at this
  · intro h k
    rw [hform]; exact h _

/-! ### C. a cell against the antipode of a cell -/

/-- reversing the second edge keeps a proper crossing -/
theorem properCrossR_swap_right {a0 a1 b0 b1 : R3} (h : ProperCrossR a0 a1 b0 b1) : ProperCrossR a0 a1 b1 b0 := by
  obtain ⟨h1, h2, h3⟩ := h
  have e0 : a0.dot (b1.cross b0) = -(a0.dot (b0.cross b1)) := by unfold R3.dot R3.cross; ring
  have e1 : a1.dot (b1.cross b0) = -(a1.dot (b0.cross b1)) := by unfold R3.dot R3.cross; ring
  unfold ProperCrossR
  rw [e0, e1]
  generalize b0.dot (a0.cross a1) = p0 at *
  generalize b1.dot (a0.cross a1) = p1 at *
  generalize a0.dot (b0.cross b1) = q0 at *
  generalize a1.dot (b0.cross b1) = q1 at *
  refine ⟨by linarith, by linarith, ?_⟩
  rcases lt_trichotomy p1 0 with hp | hp | hp
  · have hq0 : q0 < 0 := by
      by_contra hc
      have := mul_nonpos_of_nonneg_of_nonpos (not_lt.mp hc) hp.le
      linarith
    have hp0 : 0 < p0 := by
      by_contra hc
      have := mul_nonneg_of_nonpos_of_nonpos (not_lt.mp hc) hp.le
      linarith
    nlinarith [mul_pos (neg_pos.mpr hq0) hp0]
  · rw [hp] at h3; simp at h3
  · have hq0 : 0 < q0 := by
      by_contra hc
      have := mul_nonpos_of_nonpos_of_nonneg (not_lt.mp hc) hp.le
      linarith
    have hp0 : p0 < 0 := by
      by_contra hc
      have := mul_nonneg (not_lt.mp hc) hp.le
      linarith
    nlinarith [mul_pos hq0 (neg_pos.mpr hp0)]

theorem comb_swap (s : ℝ) (a : R3) (t : ℝ) (b : R3) : comb s a t b = comb t b s a := by
  apply r3_ext <;> simp only [comb] <;> ring

theorem onArc_swap {a b P : R3} (h : OnArc a b P) : OnArc b a P := by
  obtain ⟨s, t, hs, ht, e, h1⟩ := h
  exact ⟨t, s, ht, hs, by rw [e, comb_swap], h1⟩

theorem dirOn_swap {a b x : R3} (h : dirOn a b x) : dirOn b a x := onArc_swap h

theorem dirOn_swap_iff (a b x : R3) : dirOn a b x ↔ dirOn b a x := ⟨dirOn_swap, dirOn_swap⟩

theorem apart_opp_ok {f' : Nat} (hf' : f' < 6) {r' : RRect} (ok' : r'.OK) :
    oppFace f' < 6 ∧ (transposeR r').OK := ⟨oppFace_lt hf', transposeR_ok ok'⟩

theorem negCell_noProperCross {f f' : Nat} (hf : f < 6) (hf' : f' < 6) {r r' : RRect} (ok : r.OK) (ok' : r'.OK)
    (hA : Apart f (oppFace f') r (transposeR r')) : NoProperCross (cellQuad f r) (negQuad (cellQuad f' r')) := by
  intro k j hP
  have hP' : ProperCrossR ((cellQuad f r).w k) ((cellQuad f r).w (k + 1))
      (negR ((cellQuad f' r').w j)) (negR ((cellQuad f' r').w (j + 1))) := hP
  rw [← cellQuad_opp_corner' hf', ← cellQuad_opp_corner' hf', ← sg_succ j] at hP'
  exact cells_no_proper_cross hf (oppFace_lt hf') ok (transposeR_ok ok') hA k (sg (j + 1)) (properCrossR_swap_right hP')

theorem negCell_corners1 {f f' : Nat} (hf : f < 6) (hf' : f' < 6) {r r' : RRect} (ok : r.OK) (ok' : r'.OK)
    (hA : Apart f (oppFace f') r (transposeR r')) : CornersOnEdges (cellQuad f r) (negQuad (cellQuad f' r')) := by
  intro j h
  have h' : (cellQuad f r).In (negR ((cellQuad f' r').w j)) := h
  show ∃ k, dirOn ((cellQuad f r).w k) ((cellQuad f r).w (k + 1)) (negR ((cellQuad f' r').w j))
  rw [← cellQuad_opp_corner' hf'] at h' ⊢
  exact corner_in_on_edge hf (oppFace_lt hf') ok (transposeR_ok ok') hA (sg j) h'

theorem negCell_corners2 {f f' : Nat} (hf : f < 6) (hf' : f' < 6) {r r' : RRect} (ok : r.OK) (ok' : r'.OK)
    (hA : Apart f (oppFace f') r (transposeR r')) : CornersOnEdges (negQuad (cellQuad f' r')) (cellQuad f r) := by
  intro j h
  have h' : (cellQuad (oppFace f') (transposeR r')).In ((cellQuad f r).w j) := (cellQuad_opp_in hf' r' _).mpr h
  obtain ⟨m, hm⟩ := corner_in_on_edge' hf (oppFace_lt hf') ok (transposeR_ok ok') hA j h'
  obtain ⟨i1, i2, i3⟩ := sg_inv m
  refine ⟨sg (m + 1), ?_⟩
  show dirOn (negR ((cellQuad f' r').w (sg (m + 1)))) (negR ((cellQuad f' r').w (sg (m + 1) + 1))) ((cellQuad f r).w j)
  rw [← cellQuad_opp_corner' hf', ← cellQuad_opp_corner' hf', i1, i3]
  exact dirOn_swap hm

end S2Proofs.C12Dist2
