/-
  C12Dist2.CellsApart — exact geometry of two S2 cells that do NOT overlap in the sense of `Cell.DistanceToCell`
  (`Apart`: not (same face ∧ the closed uv rectangles intersect)):

      cells_no_proper_cross   no edge of one cell crosses an edge of the other PROPERLY (`ProperCrossR`)
      corner_in_on_edge       a corner of one cell that lies in the (closed cone of the) other lies on one of its EDGES
      cells_meet_corner       hence: two edges of the two cells that meet do so at (the direction of) a corner of one of them
      cellCell_exact_apart    hence: a common lower bound of the 32 (corner, edge) squared chords bounds the squared chord between
                              ANY two points of the two cells (`cellCell_exact` without its exceptional alternatives)
      not_apart_dist_zero     the other branch: cells that are not `Apart` have a common point (distance 0 is exact);
      apart_same_face_disjoint  and `Apart` cells of one face have none

  Proof.  `ax f X = (uvwC f X).z` is the signed coordinate of the axis of face `f`.  A point of the cone of a cell on face
  `f` satisfies `ax g X ≤ ax f X` for all six faces `g` (`in_faceMax`: |u|, |v| ≤ 1).
  * Same face: a common point X of the two cones with `ax f X > 0` gives `u0 ≤ u1'`, … (`same_face_rects`): excluded by `Apart`.
  * Different faces: a common point has `ax f X = ax f' X`; `ax f'` is one of `±x, ±y, −z` of the frame of `f` (`ax_other`), so X
    lies on the boundary of the face square, which forces `u1 = 1` (etc.) and `h k X = 0` (`common_on_plane`); `Quad.OK.edge`
    then puts X on edge k.  For a proper crossing, the common point is a strictly positive combination of both pairs of
    endpoints (`proper_cross_point`); the linear form `P = ax f − ax f'` is ≥ 0 on cell C, ≤ 0 on cell T and 0 at X, so it vanishes
    at all four endpoints: they are coplanar with 0 (`coplanar_det`, `P = n·` with `n ≠ 0`), contradicting the first clause
    of `ProperCrossR`.
-/
import S2Proofs.C12Dist2.Exact
import S2Proofs.C12Dist2.Touch

set_option linter.unusedSimpArgs false
set_option linter.unusedVariables false

namespace S2Proofs.C12Dist2
open S2Proofs.C17Err S2Proofs.C17Err.R3 S2Proofs.C17Pairs S2Proofs.C12Dist S2Proofs.C08World

/-- the two cells are NOT (same face ∧ uv rectangles intersect as closed sets) -/
def Apart (f f' : Nat) (r r' : RRect) : Prop :=
  ¬ (f = f' ∧ r.u0 ≤ r'.u1 ∧ r'.u0 ≤ r.u1 ∧ r.v0 ≤ r'.v1 ∧ r'.v0 ≤ r.v1)

theorem Apart.symm {f f' : Nat} {r r' : RRect} (h : Apart f f' r r') : Apart f' f r' r := by
  rintro ⟨e, h1, h2, h3, h4⟩
  exact h ⟨e.symm, h2, h1, h4, h3⟩

/-! ### a proper crossing has a common point that is a strictly positive combination of both endpoint pairs -/

theorem proper_cross_point {a0 a1 b0 b1 : R3} (h : ProperCrossR a0 a1 b0 b1) :
    ∃ α β γ δ : ℝ, 0 < α ∧ 0 < β ∧ 0 < γ ∧ 0 < δ ∧ comb α a0 β a1 = comb γ b0 δ b1 := by
  obtain ⟨h1, h2, h3⟩ := h
  have idx : ∀ k : ℝ, (comb (k * -(a1.dot (b0.cross b1))) a0 (k * a0.dot (b0.cross b1)) a1)
      = (comb (k * b1.dot (a0.cross a1)) b0 (k * -(b0.dot (a0.cross a1))) b1) := by
    intro k
    unfold comb R3.dot R3.cross
    simp only [R3.mk.injEq]
    refine ⟨by ring, by ring, by ring⟩
  generalize b0.dot (a0.cross a1) = p0 at *
  generalize b1.dot (a0.cross a1) = p1 at *
  generalize a0.dot (b0.cross b1) = q0 at *
  generalize a1.dot (b0.cross b1) = q1 at *
  rcases lt_trichotomy q0 0 with hq | hq | hq
  · have g1 : 0 < q1 := by
      by_contra hc
      have := mul_nonneg_of_nonpos_of_nonpos hq.le (not_lt.mp hc)
      linarith
    have g3 : p1 < 0 := by
      by_contra hc
      have := mul_nonpos_of_nonpos_of_nonneg hq.le (not_lt.mp hc)
      linarith
    have g4 : 0 < p0 := by
      by_contra hc
      have := mul_nonneg_of_nonpos_of_nonpos (not_lt.mp hc) g3.le
      linarith
    exact ⟨_, _, _, _, by linarith, by linarith, by linarith, by linarith, idx (-1)⟩
  · rw [hq] at h2; simp at h2
  · have g1 : q1 < 0 := by
      by_contra hc
      have := mul_nonneg hq.le (not_lt.mp hc)
      linarith
    have g3 : 0 < p1 := by
      by_contra hc
      have := mul_nonpos_of_nonneg_of_nonpos hq.le (not_lt.mp hc)
      linarith
    have g4 : p0 < 0 := by
      by_contra hc
      have := mul_nonneg (not_lt.mp hc) g3.le
      linarith
    exact ⟨_, _, _, _, by linarith, by linarith, by linarith, by linarith, idx 1⟩

/-! ### three vectors in a plane through 0 -/

theorem coplanar_det {n a0 a1 b0 : R3} (hn : 0 < n.n2) (h0 : n.dot a0 = 0) (h1 : n.dot a1 = 0) (h2 : n.dot b0 = 0) :
    b0.dot (a0.cross a1) = 0 := by
  have e : b0.dot (a0.cross a1) * n.n2
      = n.dot a0 * n.dot (a1.cross b0) + n.dot a1 * n.dot (b0.cross a0) + n.dot b0 * n.dot (a0.cross a1) := by
    unfold R3.n2 R3.dot R3.cross; ring
  rw [h0, h1, h2] at e
  have : b0.dot (a0.cross a1) * n.n2 = 0 := by linarith
  exact (mul_eq_zero.mp this).resolve_right hn.ne'

/-! ### the axis coordinate of a face -/

/-- the signed coordinate of the axis of face `f` (the third face-frame coordinate) -/
def ax (f : Nat) (x : R3) : ℝ := (uvwC f x).z

/-- the axis vector of face `f` -/
def axv (f : Nat) : R3 :=
  match f with
  | 0 => ⟨1, 0, 0⟩
  | 1 => ⟨0, 1, 0⟩
  | 2 => ⟨0, 0, 1⟩
  | 3 => ⟨-1, 0, 0⟩
  | 4 => ⟨0, -1, 0⟩
  | _ => ⟨0, 0, -1⟩

theorem ax_eq_dot (f : Nat) (x : R3) : ax f x = (axv f).dot x := by
  match f with
  | 0 | 1 | 2 | 3 | 4 | (n + 5) => (simp only [ax, axv, uvwC, R3.dot]; ring)

theorem ax_comb (f : Nat) (s : ℝ) (x : R3) (t : ℝ) (y : R3) : ax f (comb s x t y) = s * ax f x + t * ax f y := by
  unfold ax; rw [uvwC_comb]; rfl

/-- the difference of two axis vectors -/
def axd (f f' : Nat) : R3 := ⟨(axv f).x - (axv f').x, (axv f).y - (axv f').y, (axv f).z - (axv f').z⟩

theorem axd_dot (f f' : Nat) (x : R3) : (axd f f').dot x = ax f x - ax f' x := by
  rw [ax_eq_dot, ax_eq_dot]; unfold axd R3.dot; ring

theorem axd_n2 {f f' : Nat} (hf : f < 6) (hf' : f' < 6) (hne : f ≠ f') : 0 < (axd f f').n2 := by
  interval_cases f <;> interval_cases f' <;> first | exact absurd rfl hne | (norm_num [axd, axv, R3.n2, R3.dot])

/-- the axis coordinate of another face is one of `±x, ±y, −z` of this face's frame -/
theorem ax_other {f f' : Nat} (hf : f < 6) (hf' : f' < 6) (hne : f ≠ f') (X : R3) :
    ax f' X = (uvwC f X).x ∨ ax f' X = -(uvwC f X).x ∨ ax f' X = (uvwC f X).y ∨ ax f' X = -(uvwC f X).y ∨
      ax f' X = -(uvwC f X).z := by
  interval_cases f <;> interval_cases f' <;>
    first
    | exact absurd rfl hne
    | (simp [ax, uvwC])

/-! ### the four forms of a cell, spelled out -/

theorem in_forms {f : Nat} {r : RRect} {X : R3} (hin : (cellQuad f r).In X) :
    0 ≤ (uvwC f X).y - r.v0 * (uvwC f X).z ∧ 0 ≤ r.u1 * (uvwC f X).z - (uvwC f X).x ∧
    0 ≤ r.v1 * (uvwC f X).z - (uvwC f X).y ∧ 0 ≤ (uvwC f X).x - r.u0 * (uvwC f X).z := by
  have f0 : 0 ≤ (uvwC f X).y - r.v0 * (uvwC f X).z := by have := hin 0; unfold cellQuad formUVW at this; simpa using this
  have f1 : 0 ≤ r.u1 * (uvwC f X).z - (uvwC f X).x := by have := hin 1; unfold cellQuad formUVW at this; simpa using this
  have f2 : 0 ≤ r.v1 * (uvwC f X).z - (uvwC f X).y := by have := hin 2; unfold cellQuad formUVW at this; simpa using this
  have f3 : 0 ≤ (uvwC f X).x - r.u0 * (uvwC f X).z := by have := hin 3; unfold cellQuad formUVW at this; simpa using this
  exact ⟨f0, f1, f2, f3⟩

theorem h0_eq (f : Nat) (r : RRect) (X : R3) : (cellQuad f r).h 0 X = (uvwC f X).y - r.v0 * (uvwC f X).z := by
  unfold cellQuad formUVW; simp
theorem h1_eq (f : Nat) (r : RRect) (X : R3) : (cellQuad f r).h 1 X = r.u1 * (uvwC f X).z - (uvwC f X).x := by
  unfold cellQuad formUVW; simp
theorem h2_eq (f : Nat) (r : RRect) (X : R3) : (cellQuad f r).h 2 X = r.v1 * (uvwC f X).z - (uvwC f X).y := by
  unfold cellQuad formUVW; simp
theorem h3_eq (f : Nat) (r : RRect) (X : R3) : (cellQuad f r).h 3 X = (uvwC f X).x - r.u0 * (uvwC f X).z := by
  unfold cellQuad formUVW; simp

/-- a corner has axis coordinate 1 -/
theorem ax_corner (f : Nat) (r : RRect) (k : Fin 4) : ax f ((cellQuad f r).w k) = 1 := by
  show (uvwC f (xyzC f (cornerUVW r k.val))).z = 1
  rw [uvwC_xyzC]; unfold cornerUVW; split <;> rfl

/-- in the frame of its face, a point of the cone of a cell lies in the cone over the face square -/
theorem in_square {f : Nat} {r : RRect} (ok : r.OK) {X : R3} (hin : (cellQuad f r).In X) :
    0 ≤ (uvwC f X).z ∧ -(uvwC f X).z ≤ (uvwC f X).x ∧ (uvwC f X).x ≤ (uvwC f X).z ∧
    -(uvwC f X).z ≤ (uvwC f X).y ∧ (uvwC f X).y ≤ (uvwC f X).z := by
  obtain ⟨f0, f1, f2, f3⟩ := in_forms hin
  obtain ⟨a1, a2, a3, a4, a5, a6⟩ := ok
  have hz : 0 ≤ (uvwC f X).z := by nlinarith
  refine ⟨hz, ?_, ?_, ?_, ?_⟩ <;> nlinarith

/-- **the axis coordinate of the cell's own face dominates all six axis coordinates** -/
theorem in_faceMax {f : Nat} (hf : f < 6) {r : RRect} (ok : r.OK) {X : R3} (hin : (cellQuad f r).In X)
    {g : Nat} (hg : g < 6) : ax g X ≤ ax f X := by
  obtain ⟨hz, x1, x2, y1, y2⟩ := in_square ok hin
  by_cases hne : f = g
  · rw [hne]
  · rcases ax_other hf hg hne X with e | e | e | e | e <;> (rw [e]; unfold ax; linarith)

/-! ### same face -/

/-- a common point (not the origin) of two cells on the same face: the closed uv rectangles intersect -/
theorem same_face_rects {f : Nat} {r r' : RRect} {X : R3} (h : (cellQuad f r).In X) (h' : (cellQuad f r').In X)
    (hz : 0 < ax f X) : r.u0 ≤ r'.u1 ∧ r'.u0 ≤ r.u1 ∧ r.v0 ≤ r'.v1 ∧ r'.v0 ≤ r.v1 := by
  obtain ⟨f0, f1, f2, f3⟩ := in_forms h
  obtain ⟨g0, g1, g2, g3⟩ := in_forms h'
  unfold ax at hz
  refine ⟨?_, ?_, ?_, ?_⟩ <;> (apply le_of_mul_le_mul_right _ hz; linarith)

/-! ### different faces -/

/-- a common point (not the origin) of two cells on different faces lies on the plane of one of the four edges of the first -/
theorem common_on_plane {f f' : Nat} (hf : f < 6) (hf' : f' < 6) (hne : f ≠ f') {r r' : RRect} (ok : r.OK) (ok' : r'.OK)
    {X : R3} (h : (cellQuad f r).In X) (h' : (cellQuad f' r').In X) (hz : 0 < ax f X) :
    ∃ k : Fin 4, (cellQuad f r).h k X = 0 := by
  have e1 : ax f' X ≤ ax f X := in_faceMax hf ok h hf'
  have e2 : ax f X ≤ ax f' X := in_faceMax hf' ok' h' hf
  have e : ax f' X = ax f X := le_antisymm e1 e2
  obtain ⟨f0, f1, f2, f3⟩ := in_forms h
  obtain ⟨a1, a2, a3, a4, a5, a6⟩ := ok
  have hzz : ax f X = (uvwC f X).z := rfl
  rw [hzz] at hz
  rcases ax_other hf hf' hne X with g | g | g | g | g
  · -- z = x : u1 = 1
    have ex : (uvwC f X).x = (uvwC f X).z := by rw [← g, e, hzz]
    refine ⟨1, ?_⟩
    rw [h1_eq]
    have : (1 - r.u1) * (uvwC f X).z ≤ 0 := by rw [ex] at f1; linarith
    have : 0 ≤ (1 - r.u1) * (uvwC f X).z := mul_nonneg (by linarith) hz.le
    rw [ex]; linarith
  · have ex : (uvwC f X).x = -(uvwC f X).z := by have : ax f' X = -(uvwC f X).x := g; rw [e, hzz] at this; linarith
    refine ⟨3, ?_⟩
    rw [h3_eq]
    have : (1 + r.u0) * (uvwC f X).z ≤ 0 := by rw [ex] at f3; linarith
    have : 0 ≤ (1 + r.u0) * (uvwC f X).z := mul_nonneg (by linarith) hz.le
    rw [ex]; linarith
  · have ey : (uvwC f X).y = (uvwC f X).z := by rw [← g, e, hzz]
    refine ⟨2, ?_⟩
    rw [h2_eq]
    have : (1 - r.v1) * (uvwC f X).z ≤ 0 := by rw [ey] at f2; linarith
    have : 0 ≤ (1 - r.v1) * (uvwC f X).z := mul_nonneg (by linarith) hz.le
    rw [ey]; linarith
  · have ey : (uvwC f X).y = -(uvwC f X).z := by have : ax f' X = -(uvwC f X).y := g; rw [e, hzz] at this; linarith
    refine ⟨0, ?_⟩
    rw [h0_eq]
    have : (1 + r.v0) * (uvwC f X).z ≤ 0 := by rw [ey] at f0; linarith
    have : 0 ≤ (1 + r.v0) * (uvwC f X).z := mul_nonneg (by linarith) hz.le
    rw [ey]; linarith
  · exfalso
    rw [e, hzz] at g; linarith

/-- **two cells that are `Apart`: a common non-zero point of the two cones lies on an edge of the first** (and, by symmetry, of
    the second); on the same face there is no common point at all -/
theorem common_on_edge {f f' : Nat} (hf : f < 6) (hf' : f' < 6) {r r' : RRect} (ok : r.OK) (ok' : r'.OK)
    (hA : Apart f f' r r') {X : R3} (h : (cellQuad f r).In X) (h' : (cellQuad f' r').In X) (hz : 0 < ax f X) :
    ∃ k : Fin 4, InCone ((cellQuad f r).w k) ((cellQuad f r).w (k + 1)) X := by
  by_cases hne : f = f'
  · subst hne
    exact absurd ⟨rfl, same_face_rects h h' hz⟩ hA
  · obtain ⟨k, hk⟩ := common_on_plane hf hf' hne ok ok' h h' hz
    exact ⟨k, (cellQuad_ok f r ok).edge k X h hk⟩

/-! ### the two theorems -/

/-- **a corner of the second cell that lies in the first lies on one of its edges** -/
theorem corner_in_on_edge {f f' : Nat} (hf : f < 6) (hf' : f' < 6) {r r' : RRect} (ok : r.OK) (ok' : r'.OK)
    (hA : Apart f f' r r') (j : Fin 4) (h : (cellQuad f r).In ((cellQuad f' r').w j)) :
    ∃ k : Fin 4, dirOn ((cellQuad f r).w k) ((cellQuad f r).w (k + 1)) ((cellQuad f' r').w j) := by
  have hT := cellQuad_ok f' r' ok'
  have h' : (cellQuad f' r').In ((cellQuad f' r').w j) := hT.corner j
  have hz : 0 < ax f ((cellQuad f' r').w j) := by
    have := in_faceMax hf ok h hf'
    rw [ax_corner] at this
    linarith
  obtain ⟨k, hk⟩ := common_on_edge hf hf' ok ok' hA h h' hz
  exact ⟨k, dirOn_of_inCone (hT.wpos j) hk⟩

/-- **no edge of the first cell crosses an edge of the second properly** -/
theorem cells_no_proper_cross {f f' : Nat} (hf : f < 6) (hf' : f' < 6) {r r' : RRect} (ok : r.OK) (ok' : r'.OK)
    (hA : Apart f f' r r') (k j : Fin 4) :
    ¬ ProperCrossR ((cellQuad f r).w k) ((cellQuad f r).w (k + 1)) ((cellQuad f' r').w j) ((cellQuad f' r').w (j + 1)) := by
  intro hP
  have hC := cellQuad_ok f r ok
  have hT := cellQuad_ok f' r' ok'
  obtain ⟨α, β, γ, δ, hα, hβ, hγ, hδ, E⟩ := proper_cross_point hP
  set a0 := (cellQuad f r).w k with ha0
  set a1 := (cellQuad f r).w (k + 1) with ha1
  set b0 := (cellQuad f' r').w j with hb0
  set b1 := (cellQuad f' r').w (j + 1) with hb1
  set X := comb α a0 β a1 with hX
  have hXC : (cellQuad f r).In X := by
    intro i
    rw [hX, hC.lin]
    exact add_nonneg (mul_nonneg hα.le (hC.corner k i)) (mul_nonneg hβ.le (hC.corner (k + 1) i))
  have hXT : (cellQuad f' r').In X := by
    intro i
    rw [E, hT.lin]
    exact add_nonneg (mul_nonneg hγ.le (hT.corner j i)) (mul_nonneg hδ.le (hT.corner (j + 1) i))
  have hz : 0 < ax f X := by
    rw [hX, ax_comb, ha0, ha1, ax_corner, ax_corner]; linarith
  by_cases hne : f = f'
  · subst hne
    exact hA ⟨rfl, same_face_rects hXC hXT hz⟩
  · -- P = ax f − ax f' vanishes at X, is ≥ 0 at a0, a1 and ≤ 0 at b0, b1
    have e1 : ax f' X ≤ ax f X := in_faceMax hf ok hXC hf'
    have e2 : ax f X ≤ ax f' X := in_faceMax hf' ok' hXT hf
    have pa0 : ax f' a0 ≤ ax f a0 := in_faceMax hf ok (hC.corner k) hf'
    have pa1 : ax f' a1 ≤ ax f a1 := in_faceMax hf ok (hC.corner (k + 1)) hf'
    have pb0 : ax f b0 ≤ ax f' b0 := in_faceMax hf' ok' (hT.corner j) hf
    have pb1 : ax f b1 ≤ ax f' b1 := in_faceMax hf' ok' (hT.corner (j + 1)) hf
    have xa : ax f X - ax f' X = α * (ax f a0 - ax f' a0) + β * (ax f a1 - ax f' a1) := by
      rw [hX, ax_comb, ax_comb]; ring
    have xb : ax f X - ax f' X = γ * (ax f b0 - ax f' b0) + δ * (ax f b1 - ax f' b1) := by
      rw [E, ax_comb, ax_comb]; ring
    have m1 := mul_nonneg hα.le (sub_nonneg.mpr pa0)
    have m2 := mul_nonneg hβ.le (sub_nonneg.mpr pa1)
    have m3 := mul_nonneg hγ.le (sub_nonneg.mpr pb0)
    have m4 := mul_nonneg hδ.le (sub_nonneg.mpr pb1)
    have za0 : α * (ax f a0 - ax f' a0) = 0 := by linarith
    have za1 : β * (ax f a1 - ax f' a1) = 0 := by linarith
    have zb0 : γ * (ax f' b0 - ax f b0) = 0 := by linarith
    have za0' : ax f a0 - ax f' a0 = 0 := (mul_eq_zero.mp za0).resolve_left hα.ne'
    have za1' : ax f a1 - ax f' a1 = 0 := (mul_eq_zero.mp za1).resolve_left hβ.ne'
    have zb0' : ax f' b0 - ax f b0 = 0 := (mul_eq_zero.mp zb0).resolve_left hγ.ne'
    have hdet : b0.dot (a0.cross a1) = 0 :=
      coplanar_det (axd_n2 hf hf' hne) (by rw [axd_dot]; exact za0') (by rw [axd_dot]; exact za1')
        (by rw [axd_dot]; linarith)
    obtain ⟨c1, _, _⟩ := hP
    rw [hdet] at c1
    simp at c1

/-! ### symmetric forms and the consequence for meeting edges -/

/-- a corner of the FIRST cell that lies in the second lies on one of the second's edges -/
theorem corner_in_on_edge' {f f' : Nat} (hf : f < 6) (hf' : f' < 6) {r r' : RRect} (ok : r.OK) (ok' : r'.OK)
    (hA : Apart f f' r r') (k : Fin 4) (h : (cellQuad f' r').In ((cellQuad f r).w k)) :
    ∃ j : Fin 4, dirOn ((cellQuad f' r').w j) ((cellQuad f' r').w (j + 1)) ((cellQuad f r).w k) :=
  corner_in_on_edge hf' hf ok' ok hA.symm k h

/-- the crossing test with the roles of the two cells exchanged -/
theorem cells_no_proper_cross' {f f' : Nat} (hf : f < 6) (hf' : f' < 6) {r r' : RRect} (ok : r.OK) (ok' : r'.OK)
    (hA : Apart f f' r r') (k j : Fin 4) :
    ¬ ProperCrossR ((cellQuad f' r').w j) ((cellQuad f' r').w (j + 1)) ((cellQuad f r).w k) ((cellQuad f r).w (k + 1)) :=
  cells_no_proper_cross hf' hf ok' ok hA.symm j k

/-- **two edges of two `Apart` cells that meet, meet at the direction of an endpoint of one of them** -/
theorem cells_meet_corner {f f' : Nat} (hf : f < 6) (hf' : f' < 6) {r r' : RRect} (ok : r.OK) (ok' : r'.OK)
    (hA : Apart f f' r r') (k j : Fin 4)
    (h : ArcsMeetR ((cellQuad f r).w k) ((cellQuad f r).w (k + 1)) ((cellQuad f' r').w j) ((cellQuad f' r').w (j + 1))) :
    dirOn ((cellQuad f r).w k) ((cellQuad f r).w (k + 1)) ((cellQuad f' r').w j) ∨
    dirOn ((cellQuad f r).w k) ((cellQuad f r).w (k + 1)) ((cellQuad f' r').w (j + 1)) ∨
    dirOn ((cellQuad f' r').w j) ((cellQuad f' r').w (j + 1)) ((cellQuad f r).w k) ∨
    dirOn ((cellQuad f' r').w j) ((cellQuad f' r').w (j + 1)) ((cellQuad f r).w (k + 1)) := by
  have hC := cellQuad_ok f r ok
  have hT := cellQuad_ok f' r' ok'
  rcases meet_cases (hC.wpos k) (hC.wpos (k + 1)) (hT.wpos j) (hT.wpos (j + 1)) (cellQuad_edgesOK f r ok k)
      (cellQuad_edgesOK f' r' ok' j) h with g | g
  · exact absurd g (cells_no_proper_cross hf hf' ok ok' hA k j)
  · exact g

/-! ### consequence for `cellCell_exact`: for `Apart` cells the 32 (corner, edge) distances bound ALL distances -/

/-- a lower bound `m` on the squared chord between the direction of a corner and every point of an arc that contains that
    direction is `≤ 0` -/
theorem bound_nonpos_of_dirOn {a b x : R3} {m : ℝ} (h : dirOn a b x)
    (hb : ∀ P, OnArc a b P → m ≤ chordPQ (dirR x) P) : m ≤ 0 := by
  have h1 := hb _ h
  have e : chordPQ (dirR x) (comb (1 / x.len) x 0 x) = 0 := chordPQ_self (dirOn_unit h)
  rw [e] at h1; exact h1

/-- **exact geometry of `DistanceToCell` for cells that are `Apart`**: a common lower bound of the 32 (corner, edge) squared
    chords is a lower bound of the squared chord between ANY two points of the two cells — no crossing test is needed -/
theorem cellCell_exact_apart {f f' : Nat} (hf : f < 6) (hf' : f' < 6) {r r' : RRect} (ok : r.OK) (ok' : r'.OK)
    (hA : Apart f f' r r') {m : ℝ} (hm4 : m ≤ 4)
    (hCT : ∀ k j P, OnArc ((cellQuad f' r').w j) ((cellQuad f' r').w (j + 1)) P → m ≤ chordPQ (dirR ((cellQuad f r).w k)) P)
    (hTC : ∀ j k P, OnArc ((cellQuad f r).w k) ((cellQuad f r).w (k + 1)) P → m ≤ chordPQ (dirR ((cellQuad f' r').w j)) P)
    {q q' : R3} (hq : InCell r (uvwR f (toAcc q))) (hq' : InCell r' (uvwR f' (toAcc q'))) :
    m ≤ chordPQ q q' := by
  have hq1 : q.n2 = 1 := ((pt_iff_inCell f r ok q).mpr hq).1
  have hq1' : q'.n2 = 1 := ((pt_iff_inCell f' r' ok' q').mpr hq').1
  have h0 : 0 ≤ chordPQ q q' := chordPQ_nonneg hq1 hq1'
  rcases cellCell_exact f f' r r' ok ok' hm4 hCT hTC hq hq' with h | ⟨k, j, h⟩ | ⟨j, h⟩ | ⟨k, h⟩
  · exact h
  · rcases cells_meet_corner hf hf' ok ok' hA k j h with g | g | g | g
    · exact le_trans (bound_nonpos_of_dirOn g (hTC j k)) h0
    · exact le_trans (bound_nonpos_of_dirOn g (hTC (j + 1) k)) h0
    · exact le_trans (bound_nonpos_of_dirOn g (hCT k j)) h0
    · exact le_trans (bound_nonpos_of_dirOn g (hCT (k + 1) j)) h0
  · obtain ⟨k, g⟩ := corner_in_on_edge hf hf' ok ok' hA j h
    exact le_trans (bound_nonpos_of_dirOn g (hTC j k)) h0
  · obtain ⟨j, g⟩ := corner_in_on_edge' hf hf' ok ok' hA k h
    exact le_trans (bound_nonpos_of_dirOn g (hCT k j)) h0

/-! ### the other branch: cells that are NOT `Apart` have a common point (the value 0 returned by the code is exact) -/

/-- same face and intersecting closed uv rectangles: the two exact cells have a common point -/
theorem overlap_common_point {f : Nat} {r r' : RRect} (ok : r.OK) (ok' : r'.OK)
    (h : r.u0 ≤ r'.u1 ∧ r'.u0 ≤ r.u1 ∧ r.v0 ≤ r'.v1 ∧ r'.v0 ≤ r.v1) :
    ∃ q : R3, InCell r (uvwR f (toAcc q)) ∧ InCell r' (uvwR f (toAcc q)) := by
  obtain ⟨h1, h2, h3, h4⟩ := h
  obtain ⟨a1, a2, a3, a4, a5, a6⟩ := ok
  obtain ⟨b1, b2, b3, b4, b5, b6⟩ := ok'
  set u := max r.u0 r'.u0 with hu
  set v := max r.v0 r'.v0 with hv
  have u1 : r.u0 ≤ u := le_max_left _ _
  have u2 : r'.u0 ≤ u := le_max_right _ _
  have u3 : u ≤ r.u1 := max_le a2.le h2
  have u4 : u ≤ r'.u1 := max_le h1 b2.le
  have v1 : r.v0 ≤ v := le_max_left _ _
  have v2 : r'.v0 ≤ v := le_max_right _ _
  have v3 : v ≤ r.v1 := max_le a5.le h4
  have v4 : v ≤ r'.v1 := max_le h3 b5.le
  set X := xyzC f ⟨u, v, 1⟩ with hX
  have hXlen : 0 < X.len := by
    rw [len_pos_iff, hX, xyzC_n2]; unfold R3.n2 R3.dot; simp only
    nlinarith [mul_self_nonneg u, mul_self_nonneg v]
  have hin : (cellQuad f r).In X := by
    intro k
    show 0 ≤ formUVW r k.val (uvwC f X)
    rw [hX, uvwC_xyzC]; unfold formUVW; split <;> simp only <;> linarith
  have hin' : (cellQuad f r').In X := by
    intro k
    show 0 ≤ formUVW r' k.val (uvwC f X)
    rw [hX, uvwC_xyzC]; unfold formUVW; split <;> simp only <;> linarith
  have hs : 0 ≤ 1 / X.len := by positivity
  refine ⟨dirR X, ?_, ?_⟩
  · exact (pt_iff_inCell f r ⟨a1, a2, a3, a4, a5, a6⟩ _).mp ⟨dirR_n2 hXlen, (cellQuad_ok f r ⟨a1, a2, a3, a4, a5, a6⟩).scale hs hin⟩
  · exact (pt_iff_inCell f r' ⟨b1, b2, b3, b4, b5, b6⟩ _).mp ⟨dirR_n2 hXlen, (cellQuad_ok f r' ⟨b1, b2, b3, b4, b5, b6⟩).scale hs hin'⟩

/-- … so the true minimum squared chord between them is 0 -/
theorem not_apart_dist_zero {f f' : Nat} {r r' : RRect} (ok : r.OK) (ok' : r'.OK) (h : ¬ Apart f f' r r') :
    ∃ q q' : R3, InCell r (uvwR f (toAcc q)) ∧ InCell r' (uvwR f' (toAcc q')) ∧ chordPQ q q' = 0 := by
  unfold Apart at h
  rw [not_not] at h
  obtain ⟨e, h⟩ := h
  subst e
  obtain ⟨q, h1, h2⟩ := overlap_common_point (f := f) ok ok' h
  exact ⟨q, q, h1, h2, chordPQ_self ((pt_iff_inCell f r ok q).mpr h1).1⟩

/-- and conversely: `Apart` cells have NO common point (same face), so `Apart` is exactly "the cells on one face are disjoint" there -/
theorem apart_same_face_disjoint {f : Nat} {r r' : RRect} (ok : r.OK) (ok' : r'.OK) (hA : Apart f f r r') (q : R3)
    (h1 : InCell r (uvwR f (toAcc q))) (h2 : InCell r' (uvwR f (toAcc q))) : False := by
  have p1 := (pt_iff_inCell f r ok q).mpr h1
  have p2 := (pt_iff_inCell f r' ok' q).mpr h2
  have hz : 0 < ax f q := by
    have := h1.2.1
    rw [← toAcc_uvwC] at this
    exact this
  exact hA ⟨rfl, same_face_rects p1.2 p2.2 hz⟩

/-! ### non-vacuity -/

/-- the hypotheses of `corner_in_on_edge` hold for two cells on the adjacent faces 0 and 1 that share the corner (1,1,0):
    corner 0 of the second lies in the first -/
example : ∃ (f f' : Nat) (r r' : RRect) (j : Fin 4), f < 6 ∧ f' < 6 ∧ r.OK ∧ r'.OK ∧ Apart f f' r r' ∧
    (cellQuad f r).In ((cellQuad f' r').w j) := by
  refine ⟨0, 1, ⟨0, 1, 0, 1⟩, ⟨-1, 0, 0, 1⟩, 0, by norm_num, by norm_num, ?_, ?_, ?_, ?_⟩
  · constructor <;> norm_num
  · constructor <;> norm_num
  · rintro ⟨e, _⟩; norm_num at e
  · intro k
    fin_cases k <;> norm_num [cellQuad, formUVW, cornerUVW, uvwC, xyzC]

/-- `Apart` on the SAME face: two cells of face 0 whose u-intervals [−1,0] and [1/2,1] are disjoint -/
example : ∃ (r r' : RRect), r.OK ∧ r'.OK ∧ Apart 0 0 r r' := by
  refine ⟨⟨-1, 0, -1, 0⟩, ⟨1 / 2, 1, -1, 0⟩, ?_, ?_, ?_⟩
  · constructor <;> norm_num
  · constructor <;> norm_num
  · rintro ⟨_, _, h, _⟩; norm_num at h

/-- without `Apart` the first theorem is FALSE: two overlapping cells of face 0 whose edges cross properly -/
example : ∃ (r r' : RRect) (k j : Fin 4), r.OK ∧ r'.OK ∧
    ProperCrossR ((cellQuad 0 r).w k) ((cellQuad 0 r).w (k + 1)) ((cellQuad 0 r').w j) ((cellQuad 0 r').w (j + 1)) := by
  refine ⟨⟨-1, 0, -1, 0⟩, ⟨-1 / 2, 1 / 2, -1 / 2, 1 / 2⟩, 1, 0, ?_, ?_, ?_⟩
  · constructor <;> norm_num
  · constructor <;> norm_num
  · have e1 : (1 : Fin 4) + 1 = 2 := rfl
    have e2 : (0 : Fin 4) + 1 = 1 := rfl
    rw [e1, e2]
    norm_num [ProperCrossR, cellQuad, cornerUVW, xyzC, R3.dot, R3.cross]

end S2Proofs.C12Dist2
