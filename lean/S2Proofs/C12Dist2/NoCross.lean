/-
  C12Dist2.NoCross — the crossing loop of `Cell.DistanceToEdge`

      crosser := NewChainEdgeCrosser(a, b, c.Vertex(3))
      for i := 0; i < 4; i++ { if crosser.ChainCrossingSign(c.Vertex(i)) != DoNotCross { return 0 } }

  (model `S2.CellEdgeM.anyCrossing`) answers `DoNotCross` four times  ⇒  the arc `ab` crosses none of the four cell edges
  (between the FLOAT vertices `c.Vertex(k)`) PROPERLY, in exact real arithmetic (`ProperCrossR` of c17pairs).

  Chain of the proof
    * C03 (`chainCrossingSign_specZ`, all unit-ish points, ±0 included): every output of the chained crosser is the exact
      specification `exactCrossing a b e.c d`, the cache invariant is kept, the chain vertex becomes `d`;
    * `exactCrossing = -1` (DoNotCross) excludes the four-determinant crossing pattern: if all four determinants are non-zero
      with the signs of `ProperCrossZ`, the exact decisions ARE the determinant signs (`C02.exactDecision_of_det_ne`), no two
      vertices coincide, and `fourSameWith` holds, so the specification answers `Cross`;
    * `ProperCrossR` of the real vectors `vecR p = ofV3 p / 2^1074` is `ProperCrossZ` of the integer vectors (`det_int`).
  Bridge: C17's point class `UnitPt` (= `UnitWithin δ0`) implies C02/C03's `Unitish`.
-/
import S2.CellEdgeM
import S2Proofs.Properties.C03_AllZeros
import S2Proofs.C17Pairs.CrossLink

set_option linter.unusedSimpArgs false
set_option linter.unusedVariables false

namespace S2Proofs.C12Dist2
open S2 S2.Exact S2.Pred S2.Crossing S2.Crosser S2.CellM S2.CellEdgeM
open S2Proofs.F64Order S2Proofs.C02Err S2Proofs.C03 S2Proofs.C17 S2Proofs.C17Err S2Proofs.C17Pairs S2Proofs.ExactLaws

local notation "E" => S2.Pred.exactDecision

/-! ## 1. `DoNotCross` of the exact specification excludes the proper crossing -/

/-- the exact decision of a non-zero determinant is its sign (finite points) -/
theorem nc_E_det {a b c : V3} (ha : Fin3 a) (hb : Fin3 b) (hc : Fin3 c)
    (h : det3 (ofV3 a) (ofV3 b) (ofV3 c) ≠ 0) : E a b c = Int.sign (det3 (ofV3 a) (ofV3 b) (ofV3 c)) := by
  have hne : detSign a b c ≠ 0 := by
    unfold detSign sgn
    intro h0
    exact h (Int.sign_eq_zero_iff_zero.mp h0)
  rw [S2Proofs.C02.exactDecision_of_det_ne a b c ha hb hc hne]
  rfl

theorem nc_sign_opp_of_mul_neg {x y : Int} (h : x * y < 0) : Int.sign y = -Int.sign x := by
  rcases lt_trichotomy x 0 with hx | hx | hx
  · have hy : 0 < y := by
      by_contra hy
      have : 0 ≤ x * y := mul_nonneg_of_nonpos_of_nonpos hx.le (not_lt.mp hy)
      omega
    rw [Int.sign_eq_neg_one_of_neg hx, Int.sign_eq_one_of_pos hy]; rfl
  · subst hx; simp at h
  · have hy : y < 0 := by
      by_contra hy
      have : 0 ≤ x * y := mul_nonneg hx.le (not_lt.mp hy)
      omega
    rw [Int.sign_eq_one_of_pos hx, Int.sign_eq_neg_one_of_neg hy]

theorem nc_sign_eq_of_mul_pos {x y : Int} (h : 0 < x * y) : Int.sign y = Int.sign x := by
  rcases lt_trichotomy x 0 with hx | hx | hx
  · have hy : y < 0 := by
      by_contra hy
      have : x * y ≤ 0 := mul_nonpos_of_nonpos_of_nonneg hx.le (not_lt.mp hy)
      omega
    rw [Int.sign_eq_neg_one_of_neg hx, Int.sign_eq_neg_one_of_neg hy]
  · subst hx; simp at h
  · have hy : 0 < y := by
      by_contra hy
      have : x * y ≤ 0 := mul_nonpos_of_nonneg_of_nonpos hx.le (not_lt.mp hy)
      omega
    rw [Int.sign_eq_one_of_pos hx, Int.sign_eq_one_of_pos hy]

/-- **the four-determinant crossing pattern makes the exact specification answer `Cross`** — all finite float vectors -/
theorem exactCrossing_of_proper {a b c d : V3} (ha : Fin3 a) (hb : Fin3 b) (hc : Fin3 c) (hd : Fin3 d)
    (h : ProperCrossZ a b c d) : exactCrossing a b c d = 1 := by
  obtain ⟨h1, h2, h3⟩ := h
  -- cyclic forms used by `ProperCrossZ`
  have c1 : (ofV3 c).dot ((ofV3 a).cross (ofV3 b)) = det3 (ofV3 a) (ofV3 b) (ofV3 c) := by
    unfold det3 IV3.dot IV3.cross; ring
  have c2 : (ofV3 d).dot ((ofV3 a).cross (ofV3 b)) = det3 (ofV3 a) (ofV3 b) (ofV3 d) := by
    unfold det3 IV3.dot IV3.cross; ring
  have c3 : (ofV3 a).dot ((ofV3 c).cross (ofV3 d)) = det3 (ofV3 c) (ofV3 d) (ofV3 a) := by
    unfold det3 IV3.dot IV3.cross; ring
  have c4 : (ofV3 b).dot ((ofV3 c).cross (ofV3 d)) = det3 (ofV3 c) (ofV3 d) (ofV3 b) := by
    unfold det3 IV3.dot IV3.cross; ring
  rw [c1, c2] at h1
  rw [c3, c4] at h2
  rw [c3, c2] at h3
  set D1 := det3 (ofV3 a) (ofV3 b) (ofV3 c) with hD1
  set D2 := det3 (ofV3 a) (ofV3 b) (ofV3 d) with hD2
  set D3 := det3 (ofV3 c) (ofV3 d) (ofV3 a) with hD3
  set D4 := det3 (ofV3 c) (ofV3 d) (ofV3 b) with hD4
  have n1 : D1 ≠ 0 := by intro h0; rw [h0] at h1; simp at h1
  have n2 : D2 ≠ 0 := by intro h0; rw [h0] at h1; simp at h1
  have n3 : D3 ≠ 0 := by intro h0; rw [h0] at h2; simp at h2
  have n4 : D4 ≠ 0 := by intro h0; rw [h0] at h2; simp at h2
  have e1 : E a b c = Int.sign D1 := nc_E_det ha hb hc n1
  have e2 : E a b d = Int.sign D2 := nc_E_det ha hb hd n2
  have e3 : E c d a = Int.sign D3 := nc_E_det hc hd ha n3
  have e4 : E c d b = Int.sign D4 := nc_E_det hc hd hb n4
  have s21 : Int.sign D2 = -Int.sign D1 := nc_sign_opp_of_mul_neg h1
  have s43 : Int.sign D4 = -Int.sign D3 := nc_sign_opp_of_mul_neg h2
  have s23 : Int.sign D2 = Int.sign D3 := nc_sign_eq_of_mul_pos h3
  have s1 : Int.sign D1 ≠ 0 := fun h0 => n1 (Int.sign_eq_zero_iff_zero.mp h0)
  have hfour : fourSameWith exactDecision a b c d = true := by
    rw [fourSame_iff_exact ha hb hc hd, e1, e2, e3, e4]
    refine ⟨s1, ?_, s21, ?_⟩ <;> omega
  -- no shared endpoint: a shared endpoint makes one of the exact decisions 0
  have nz : ∀ {x y z : V3}, Fin3 x → Fin3 y → Fin3 z → E x y z ≠ 0 →
      V3.feq x y = false ∧ V3.feq y z = false ∧ V3.feq z x = false := by
    intro x y z fx fy fz h
    have := mt (E_zero_iff fx fy fz).2 h
    simp only [not_or, Bool.not_eq_true] at this
    exact this
  have p1 : E a b c ≠ 0 := by rw [e1]; exact s1
  have p2 : E a b d ≠ 0 := by rw [e2, s21]; omega
  obtain ⟨_, hbc, hca⟩ := nz ha hb hc p1
  obtain ⟨_, hbd, hda⟩ := nz ha hb hd p2
  have hsh : sharesEndpoint a b c d = false := by
    unfold sharesEndpoint
    rw [feq_comm ha hc, feq_comm ha hd, hca, hda, hbc, hbd]; rfl
  exact exactCrossing_one hsh hfour

/-- **`DoNotCross` of the exact specification ⇒ no proper crossing** (integer form) -/
theorem exactCrossing_neg_not_proper {a b c d : V3} (ha : Unitish a) (hb : Unitish b) (hc : Unitish c) (hd : Unitish d)
    (h : exactCrossing a b c d = -1) : ¬ ProperCrossZ a b c d := by
  intro hp
  rw [exactCrossing_of_proper ha.1 hb.1 hc.1 hd.1 hp] at h
  exact absurd h (by decide)

/-- the real crossing pattern of the directions is the integer one -/
theorem properCrossZ_of_real {a b c d : V3} (h : ProperCrossR (vecR a) (vecR b) (vecR c) (vecR d)) :
    ProperCrossZ a b c d := by
  unfold ProperCrossR at h
  rw [det_int c a b, det_int d a b, det_int a c d, det_int b c d] at h
  obtain ⟨h1, h2, h3⟩ := h
  have key : ∀ I J : ℤ, ((I : ℝ) / (2 ^ 1074) ^ 3) * ((J : ℝ) / (2 ^ 1074) ^ 3)
      = ((I * J : ℤ) : ℝ) / ((2 ^ 1074) ^ 3 * (2 ^ 1074) ^ 3) := by
    intro I J; push_cast; field_simp
  have hpp : (0 : ℝ) < (2 ^ 1074) ^ 3 * (2 ^ 1074) ^ 3 := by positivity
  rw [key] at h1 h2 h3
  rw [div_lt_iff₀ hpp, zero_mul] at h1 h2
  rw [lt_div_iff₀ hpp, zero_mul] at h3
  refine ⟨?_, ?_, ?_⟩
  · exact_mod_cast h1
  · exact_mod_cast h2
  · exact_mod_cast h3

/-- `ProperCrossR` of the float directions ⇔ `ProperCrossZ` -/
theorem properCrossR_iff {a b c d : V3} :
    ProperCrossR (vecR a) (vecR b) (vecR c) (vecR d) ↔ ProperCrossZ a b c d :=
  ⟨properCrossZ_of_real, fun h => properCross_of_int h⟩

/-- **`DoNotCross` of the exact specification ⇒ no proper crossing** (real-vector form) -/
theorem exactCrossing_neg_not_properR {a b c d : V3} (ha : Unitish a) (hb : Unitish b) (hc : Unitish c) (hd : Unitish d)
    (h : exactCrossing a b c d = -1) : ¬ ProperCrossR (vecR a) (vecR b) (vecR c) (vecR d) :=
  fun hp => exactCrossing_neg_not_proper ha hb hc hd h (properCrossZ_of_real hp)

/-- the same without the norm hypothesis: only finiteness of the four float vectors is used -/
theorem exactCrossing_neg_not_properR_fin {a b c d : V3} (ha : Fin3 a) (hb : Fin3 b) (hc : Fin3 c) (hd : Fin3 d)
    (h : exactCrossing a b c d = -1) : ¬ ProperCrossR (vecR a) (vecR b) (vecR c) (vecR d) := by
  intro hp
  rw [exactCrossing_of_proper ha hb hc hd (properCrossZ_of_real hp)] at h
  exact absurd h (by decide)

/-- `DoNotCross` of the exact specification: no vertex of one edge is Go-`==` to a vertex of the other -/
theorem exactCrossing_neg_not_shares {a b c d : V3} (h : exactCrossing a b c d = -1) : sharesEndpoint a b c d = false := by
  cases hs : sharesEndpoint a b c d
  · rfl
  · rw [exactCrossing_of_shares hs] at h
    exact absurd h (by decide)

/-- the crossing pattern does not depend on the direction of the second arc … -/
theorem properCrossR_swap_cd {a0 a1 b0 b1 : R3} (h : ProperCrossR a0 a1 b0 b1) : ProperCrossR a0 a1 b1 b0 := by
  obtain ⟨h1, h2, h3⟩ := h
  have e0 : a0.dot (b1.cross b0) = -(a0.dot (b0.cross b1)) := by unfold R3.dot R3.cross; ring
  have e1 : a1.dot (b1.cross b0) = -(a1.dot (b0.cross b1)) := by unfold R3.dot R3.cross; ring
  unfold ProperCrossR
  rw [e0, e1]
  generalize b0.dot (a0.cross a1) = p0 at *
  generalize b1.dot (a0.cross a1) = p1 at *
  generalize a0.dot (b0.cross b1) = q0 at *
  generalize a1.dot (b0.cross b1) = q1 at *
  refine ⟨by linarith, by linarith, ?_⟩
  -- q0, p1 have the same sign, p0 the opposite one
  rcases lt_trichotomy p1 0 with hp | hp | hp
  · have hq : q0 < 0 := by
      by_contra hq
      have : q0 * p1 ≤ 0 := mul_nonpos_of_nonneg_of_nonpos (not_lt.mp hq) hp.le
      linarith
    have hp0 : 0 < p0 := by
      by_contra hp0
      have : 0 ≤ p0 * p1 := mul_nonneg_of_nonpos_of_nonpos (not_lt.mp hp0) hp.le
      linarith
    nlinarith
  · subst hp; simp at h3
  · have hq : 0 < q0 := by
      by_contra hq
      have : q0 * p1 ≤ 0 := mul_nonpos_of_nonpos_of_nonneg (not_lt.mp hq) hp.le
      linarith
    have hp0 : p0 < 0 := by
      by_contra hp0
      have : 0 ≤ p0 * p1 := mul_nonneg (not_lt.mp hp0) hp.le
      linarith
    nlinarith

/-- … so the four conclusions of the main theorem also hold with every cell edge reversed -/
theorem not_properCrossR_swap_cd {a0 a1 b0 b1 : R3} (h : ¬ ProperCrossR a0 a1 b0 b1) : ¬ ProperCrossR a0 a1 b1 b0 :=
  fun h' => h (properCrossR_swap_cd h')

/-! ## 2. the loop: four `DoNotCross` answers of the chained crosser -/

/-- one step of the loop on a crosser state satisfying the C03 invariant -/
theorem anyCrossing_cons_false {a b : V3} (ha : Unitish a) (hb : Unitish b) {e : St} (hI : Inv Unitish a b e)
    (hc : Unitish e.c) {v : V3} (hv : Unitish v) {rest : List V3} (h : anyCrossing e (v :: rest) = false) :
    exactCrossing a b e.c v = -1 ∧ Inv Unitish a b (chainCrossingSign e v).1 ∧ (chainCrossingSign e v).1.c = v ∧
      anyCrossing (chainCrossingSign e v).1 rest = false := by
  obtain ⟨h1, h2, h3⟩ := chainCrossingSign_specZ unitish_zdom floatSound_unitish ha hb hI hc hv
  unfold anyCrossing at h
  simp only at h
  by_cases hr : (chainCrossingSign e v).2 = -1
  · refine ⟨by rw [← h1]; exact hr, h2, h3, ?_⟩
    simpa [hr] using h
  · exfalso
    have : ((chainCrossingSign e v).2 != -1) = true := by simpa using hr
    rw [this] at h
    simp at h

/-- **four `DoNotCross` answers of the loop are four `DoNotCross` values of the exact specification**, for the chain
    `s → v0 → v1 → v2 → v3` -/
theorem anyCrossing_false {a b s v0 v1 v2 v3 : V3} (ha : Unitish a) (hb : Unitish b) (hs : Unitish s)
    (h0 : Unitish v0) (h1 : Unitish v1) (h2 : Unitish v2) (h3 : Unitish v3)
    (h : anyCrossing (Crosser.initChain a b s) [v0, v1, v2, v3] = false) :
    exactCrossing a b s v0 = -1 ∧ exactCrossing a b v0 v1 = -1 ∧ exactCrossing a b v1 v2 = -1 ∧
      exactCrossing a b v2 v3 = -1 := by
  obtain ⟨hI, hcs⟩ := restartAt_inv (S := Unitish) floatSound_unitish ha hb (init_inv (S := Unitish) (a := a) (b := b)) hs
  have hI' : Inv Unitish a b (Crosser.initChain a b s) := hI
  have hcs' : (Crosser.initChain a b s).c = s := hcs
  obtain ⟨r0, I0, c0, t0⟩ := anyCrossing_cons_false ha hb hI' (by rw [hcs']; exact hs) h0 h
  rw [hcs'] at r0
  obtain ⟨r1, I1, c1, t1⟩ := anyCrossing_cons_false ha hb I0 (by rw [c0]; exact h0) h1 t0
  rw [c0] at r1
  obtain ⟨r2, I2, c2, t2⟩ := anyCrossing_cons_false ha hb I1 (by rw [c1]; exact h1) h2 t1
  rw [c1] at r2
  obtain ⟨r3, _, _, _⟩ := anyCrossing_cons_false ha hb I2 (by rw [c2]; exact h2) h3 t2
  rw [c2] at r3
  exact ⟨r0, r1, r2, r3⟩

/-- the converse: four `DoNotCross` values of the exact specification make the loop answer `false` (so the loop result is
    EXACTLY "none of the four exact crossing signs differs from `DoNotCross`") -/
theorem anyCrossing_eq_false_iff {a b s v0 v1 v2 v3 : V3} (ha : Unitish a) (hb : Unitish b) (hs : Unitish s)
    (h0 : Unitish v0) (h1 : Unitish v1) (h2 : Unitish v2) (h3 : Unitish v3) :
    anyCrossing (Crosser.initChain a b s) [v0, v1, v2, v3] = false ↔
      (exactCrossing a b s v0 = -1 ∧ exactCrossing a b v0 v1 = -1 ∧ exactCrossing a b v1 v2 = -1 ∧
        exactCrossing a b v2 v3 = -1) := by
  refine ⟨anyCrossing_false ha hb hs h0 h1 h2 h3, ?_⟩
  rintro ⟨r0, r1, r2, r3⟩
  obtain ⟨hI, hcs⟩ := restartAt_inv (S := Unitish) floatSound_unitish ha hb (init_inv (S := Unitish) (a := a) (b := b)) hs
  have hI' : Inv Unitish a b (Crosser.initChain a b s) := hI
  have hcs' : (Crosser.initChain a b s).c = s := hcs
  obtain ⟨o0, I0, c0⟩ := chainCrossingSign_specZ unitish_zdom floatSound_unitish ha hb hI' (by rw [hcs']; exact hs) h0
  rw [hcs', r0] at o0
  obtain ⟨o1, I1, c1⟩ := chainCrossingSign_specZ unitish_zdom floatSound_unitish ha hb I0 (by rw [c0]; exact h0) h1
  rw [c0, r1] at o1
  obtain ⟨o2, I2, c2⟩ := chainCrossingSign_specZ unitish_zdom floatSound_unitish ha hb I1 (by rw [c1]; exact h1) h2
  rw [c1, r2] at o2
  obtain ⟨o3, _, _⟩ := chainCrossingSign_specZ unitish_zdom floatSound_unitish ha hb I2 (by rw [c2]; exact h2) h3
  rw [c2, r3] at o3
  simp only [anyCrossing, o0, o1, o2, o3]
  rfl

/-! ## 3. main theorem -/

/-- **the crossing loop of `DistanceToEdge` answered `DoNotCross` four times ⇒ the arc `ab` crosses none of the four cell
    edges (between the float vertices) properly** — `a`, `b` and the four float vertices unit-ish (finite,
    `| ‖p‖² − 1 | ≤ 2^-16`; ±0 coordinates allowed). -/
theorem noCross_float (c : Cell) {a b : V3} (ha : Unitish a) (hb : Unitish b) (hv : ∀ k, k < 4 → Unitish (vertex c k))
    (h : anyCrossing (Crosser.initChain a b (vertex c 3)) (vertices c) = false) :
    ¬ ProperCrossR (vecR a) (vecR b) (vecR (vertex c 3)) (vecR (vertex c 0)) ∧
    ¬ ProperCrossR (vecR a) (vecR b) (vecR (vertex c 0)) (vecR (vertex c 1)) ∧
    ¬ ProperCrossR (vecR a) (vecR b) (vecR (vertex c 1)) (vecR (vertex c 2)) ∧
    ¬ ProperCrossR (vecR a) (vecR b) (vecR (vertex c 2)) (vecR (vertex c 3)) := by
  have u0 := hv 0 (by norm_num)
  have u1 := hv 1 (by norm_num)
  have u2 := hv 2 (by norm_num)
  have u3 := hv 3 (by norm_num)
  obtain ⟨r0, r1, r2, r3⟩ := anyCrossing_false ha hb u3 u0 u1 u2 u3 (by simpa [vertices] using h)
  exact ⟨exactCrossing_neg_not_properR ha hb u3 u0 r0, exactCrossing_neg_not_properR ha hb u0 u1 r1,
    exactCrossing_neg_not_properR ha hb u1 u2 r2, exactCrossing_neg_not_properR ha hb u2 u3 r3⟩

/-- the same in the form `DistanceToEdge` uses it: the model did not return 0 from the crossing loop -/
theorem noCross_float_k (c : Cell) {a b : V3} (ha : Unitish a) (hb : Unitish b) (hv : ∀ k, k < 4 → Unitish (vertex c k))
    (h : anyCrossing (Crosser.initChain a b (vertex c 3)) (vertices c) = false) (k : Nat) (hk : k < 4) :
    ¬ ProperCrossR (vecR a) (vecR b) (vecR (vertex c ((k + 3) % 4))) (vecR (vertex c k)) := by
  obtain ⟨n0, n1, n2, n3⟩ := noCross_float c ha hb hv h
  have : k = 0 ∨ k = 1 ∨ k = 2 ∨ k = 3 := by omega
  rcases this with rfl | rfl | rfl | rfl
  · exact n0
  · exact n1
  · exact n2
  · exact n3

/-! ## 4. bridge from the C17 point classes -/

/-- the exact squared norm of C17 (`n2`, real) is the integer squared norm of C02 over `scale²` -/
theorem nc_n2_norm2I (p : V3) : n2 p = (S2Proofs.FloatErr.norm2I p : ℝ) / (2 ^ 1074) ^ 2 := by
  rw [n2_int]
  congr 2
  unfold n2Z S2Proofs.FloatErr.norm2I IV3.norm2 IV3.dot ofV3
  ring

theorem nc_unit_aux {δ K N : ℝ} (h0 : 0 ≤ δ) (hδ : δ ≤ 1 / 2 ^ 18) (hP : 0 < K) (hl : (1 - δ) ^ 2 * K ≤ N)
    (hu : N ≤ (1 + δ) ^ 2 * K) : |N - K| * 2 ^ 16 ≤ K := by
  have hlo : 1 - 1 / 2 ^ 17 ≤ (1 - δ) ^ 2 := by nlinarith
  have hhi : (1 + δ) ^ 2 ≤ 1 + 1 / 2 ^ 16 := by nlinarith
  have b1 : N ≤ (1 + 1 / 2 ^ 16) * K := le_trans hu (mul_le_mul_of_nonneg_right hhi hP.le)
  have b2 : (1 - 1 / 2 ^ 17) * K ≤ N := le_trans (mul_le_mul_of_nonneg_right hlo hP.le) hl
  have : |N - K| ≤ K * (1 / 2 ^ 16) := by
    rw [abs_le]
    constructor <;> nlinarith
  calc |N - K| * 2 ^ 16 ≤ K * (1 / 2 ^ 16) * 2 ^ 16 := mul_le_mul_of_nonneg_right this (by positivity)
    _ = K := by ring

/-- **every finite point whose exact norm is within `δ ≤ 2^-18` of 1 is `Unitish`** -/
theorem unitish_of_unitWithin {δ : ℝ} (h0 : 0 ≤ δ) (hδ : δ ≤ 1 / 2 ^ 18) {p : V3} (h : UnitWithin δ p) : Unitish p := by
  obtain ⟨hf, hl, hu⟩ := h
  refine ⟨hf, ?_⟩
  rw [nc_n2_norm2I] at hl hu
  have hP : (0 : ℝ) < (2 ^ 1074) ^ 2 := by positivity
  rw [le_div_iff₀ hP] at hl
  rw [div_le_iff₀ hP] at hu
  have hreal := nc_unit_aux h0 hδ hP hl hu
  have hcast : ((|S2Proofs.FloatErr.norm2I p - (scale : ℤ) ^ 2| * 2 ^ 16 : ℤ) : ℝ) ≤ (((scale : ℤ) ^ 2 : ℤ) : ℝ) := by
    push_cast
    rw [S2Proofs.FloatErr.scale_cast]
    have e : (65536 : ℝ) = 2 ^ 16 := by norm_num
    first
      | exact hreal
      | (rw [e]; exact hreal)
  exact_mod_cast hcast

/-- **C17's `UnitPt` (norm within `δ0 = 2^-52 − 2^-80` of 1) implies C02/C03's `Unitish`** -/
theorem unitish_of_unitPt {p : V3} (h : S2Proofs.C17.UnitPt p) : Unitish p :=
  unitish_of_unitWithin delta0_nonneg (le_trans delta0_le (by norm_num)) h

/-- the wider class `UnitWithin 2^-40` (covers `UnitPtWide` = `UnitWithin (2·δ0)` and every `Normalize` output) -/
theorem unitish_of_unitWithin40 {p : V3} (h : UnitWithin (1 / 2 ^ 40) p) : Unitish p :=
  unitish_of_unitWithin (by positivity) (by norm_num) h

theorem unitish_of_unitPtWide {p : V3} (h : S2Proofs.C17.UnitPtWide p) : Unitish p :=
  unitish_of_unitWithin (by have := delta0_nonneg; linarith)
    (by have := delta0_le; unfold S2Proofs.C17.UnitPtWide at h; norm_num at this ⊢; linarith) h

/-- the main theorem with the C17 point class as hypothesis -/
theorem noCross_float_unitPt (c : Cell) {a b : V3} (ha : S2Proofs.C17.UnitPt a) (hb : S2Proofs.C17.UnitPt b)
    (hv : ∀ k, k < 4 → S2Proofs.C17.UnitPt (vertex c k))
    (h : anyCrossing (Crosser.initChain a b (vertex c 3)) (vertices c) = false) :
    ¬ ProperCrossR (vecR a) (vecR b) (vecR (vertex c 3)) (vecR (vertex c 0)) ∧
    ¬ ProperCrossR (vecR a) (vecR b) (vecR (vertex c 0)) (vecR (vertex c 1)) ∧
    ¬ ProperCrossR (vecR a) (vecR b) (vecR (vertex c 1)) (vecR (vertex c 2)) ∧
    ¬ ProperCrossR (vecR a) (vecR b) (vecR (vertex c 2)) (vecR (vertex c 3)) :=
  noCross_float c (unitish_of_unitPt ha) (unitish_of_unitPt hb) (fun k hk => unitish_of_unitPt (hv k hk)) h

/-! ## 5. non-vacuity (kernel-checked)

  The cell is the level-2 cell `0x0100000000000000` of face 0 (uv = [−1, −5/12]²) written as a structure literal — the kernel
  evaluates `cellFromCellID` (lookup tables as `Array`s) in ≈ 90 s, so the equality `ncCell = cellFromCellID 0x01…` is
  checked in the separate file `S2Proofs/C12Dist2/NoCrossExample.lean`.
    * `ncA → ncB` = (1, 0.2, −0.7)^ → (1, −0.3, −0.7)^ : the great circle cuts the cell (two vertices on each side: the
      triage fast path is NOT taken, the slow path `crossingSign` runs) but the arc stops short of it: four `DoNotCross`;
    * `ncA' → ncB'` = (1, 0.2, 0.1)^ → (1, −0.9, −0.6)^ ends inside the cell: the loop reports a crossing, and the edge
      `v2 v3` IS crossed properly. -/

def ncCell : Cell := Cell.mk 0 2 0 0x0100000000000000
  ((⟨0xBFF0000000000000⟩, ⟨0xBFDAAAAAAAAAAAAA⟩), (⟨0xBFF0000000000000⟩, ⟨0xBFDAAAAAAAAAAAAA⟩))
def ncA : V3 := ⟨⟨0x3fe9ded6e75a3c97⟩, ⟨0x3fc4b24585e1ca13⟩, ⟨0xbfe21bfcd52590d0⟩⟩
def ncB : V3 := ⟨⟨0x3fe975348cb4238b⟩, ⟨0xbfce8ca575a4f773⟩, ⟨0xbfe1d20b2f4ae5ae⟩⟩
def ncA' : V3 := ⟨⟨0x3fef3a92ca2f4b7b⟩, ⟨0x3fc8fba8a1bf6f96⟩, ⟨0x3fb8fba8a1bf6f96⟩⟩
def ncB' : V3 := ⟨⟨0x3fe5b9178aa38c0b⟩, ⟨0xbfe38cfb965ffe0a⟩, ⟨0xbfda114f732aa80d⟩⟩

set_option maxRecDepth 100000 in
/-- all hypotheses of `noCross_float` hold for the sample, and the fast path is not the reason -/
theorem nc_facts : CellID.isValid ncCell.id = true ∧ Unitish ncA ∧ Unitish ncB ∧ Unitish (vertex ncCell 0) ∧
    Unitish (vertex ncCell 1) ∧ Unitish (vertex ncCell 2) ∧ Unitish (vertex ncCell 3) ∧
    anyCrossing (Crosser.initChain ncA ncB (vertex ncCell 3)) (vertices ncCell) = false ∧
    (vertices ncCell).map (triageSign ncA ncB) = [1, 1, -1, -1] := by
  decide +kernel

/-- the main theorem instantiated -/
example : ¬ ProperCrossR (vecR ncA) (vecR ncB) (vecR (vertex ncCell 1)) (vecR (vertex ncCell 2)) := by
  obtain ⟨_, ha, hb, h0, h1, h2, h3, h, _⟩ := nc_facts
  refine (noCross_float ncCell ha hb ?_ h).2.2.1
  intro k hk
  have : k = 0 ∨ k = 1 ∨ k = 2 ∨ k = 3 := by omega
  rcases this with rfl | rfl | rfl | rfl
  · exact h0
  · exact h1
  · exact h2
  · exact h3

set_option maxRecDepth 100000 in
/-- the loop does discriminate: for the arc that ends inside the cell it reports a crossing, and the edge `v2 v3` is crossed
    properly (so the conclusion of `noCross_float` is false there) -/
theorem nc_contrast : Unitish ncA' ∧ Unitish ncB' ∧
    anyCrossing (Crosser.initChain ncA' ncB' (vertex ncCell 3)) (vertices ncCell) = true ∧
    ProperCrossZ ncA' ncB' (vertex ncCell 2) (vertex ncCell 3) := by
  decide +kernel

example : ProperCrossR (vecR ncA') (vecR ncB') (vecR (vertex ncCell 2)) (vecR (vertex ncCell 3)) :=
  properCrossR_iff.mpr nc_contrast.2.2.2

end S2Proofs.C12Dist2
