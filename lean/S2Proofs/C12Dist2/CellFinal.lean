/-
  C12Dist2.CellFinal — `Cell.DistanceToCell`: the early-return test of the code (`c.face == target.face && c.uv.Intersects(target.uv)`,
  float comparisons of the uv bounds) is exactly the negation of `Apart` on the exact rectangles, so in the other branch the
  two exact cells are apart (`CellsApart.lean`) and `distanceToCell_lower_of` applies without any geometric hypothesis.
-/
import S2Proofs.C12Dist2.CellLower
import S2Proofs.C12Dist2.CellsApart

set_option linter.unusedSimpArgs false
set_option linter.unusedVariables false

namespace S2Proofs.C12Dist2
open S2 S2.CellID S2.CellM S2.CellEdgeM S2.EdgeNum S2Proofs.F64Order S2Proofs.FloatErr
open S2Proofs.C17Err S2Proofs.C17Err.R3 S2Proofs.C17Pairs S2Proofs.C17 S2Proofs.C08World S2Proofs.C12Dist S2Proofs.C12

/-- `r1.Interval.Intersects` on finite non-empty intervals -/
theorem ivl_intersects {a b a' b' : F64} (fa : Fin a) (fb : Fin b) (fa' : Fin a') (fb' : Fin b')
    (h1 : val a ≤ val b) (h2 : val a' ≤ val b') (h3 : val a ≤ val b') (h4 : val a' ≤ val b) :
    Ivl.intersects (a, b) (a', b') = true := by
  unfold Ivl.intersects
  simp only
  by_cases h : F64.le a a' = true
  · rw [if_pos h]
    simp only [Bool.and_eq_true]
    exact ⟨(le_val fa' fb).mpr h4, (le_val fa' fb').mpr h2⟩
  · rw [if_neg h]
    simp only [Bool.and_eq_true]
    exact ⟨(le_val fa fb').mpr h3, (le_val fa fb).mpr h1⟩

/-- not in the early-return case ⇒ the exact cells are apart -/
theorem apart_of_notEarly (id id' : CellID) (hv : isValid id = true) (hv' : isValid id' = true)
    (h : NotEarly (cellFromCellID id) (cellFromCellID id')) :
    Apart (cellFromCellID id).face (cellFromCellID id').face (rectOf (cellFromCellID id)) (rectOf (cellFromCellID id')) := by
  obtain ⟨f1, f2, f3, f4, ok, _⟩ := cellOK id hv
  obtain ⟨g1, g2, g3, g4, ok', _⟩ := cellOK id' hv'
  intro ⟨hf, a1, a2, a3, a4⟩
  apply h
  refine ⟨hf, ?_⟩
  unfold Rect2.intersects
  simp only [Bool.and_eq_true]
  unfold rectOf at a1 a2 a3 a4 ok ok'
  simp only at a1 a2 a3 a4
  have o1 := ok.u_lt
  have o2 := ok.v_lt
  have o3 := ok'.u_lt
  have o4 := ok'.v_lt
  simp only at o1 o2 o3 o4
  constructor
  · exact ivl_intersects (a := (cellFromCellID id).uv.1.1) (b := (cellFromCellID id).uv.1.2)
      (a' := (cellFromCellID id').uv.1.1) (b' := (cellFromCellID id').uv.1.2) f1 f2 g1 g2 o1.le o3.le a1 a2
  · exact ivl_intersects (a := (cellFromCellID id).uv.2.1) (b := (cellFromCellID id).uv.2.2)
      (a' := (cellFromCellID id').uv.2.1) (b' := (cellFromCellID id').uv.2.2) f3 f4 g3 g4 o2.le o4.le a3 a4

/-- **LOWER BOUND of `DistanceToCell`** (float model, exact cells) -/
theorem distanceToCell_lower (id id' : CellID) (hv : isValid id = true) (hv' : isValid id' = true)
    (hcalls : ∀ t ∈ pairCalls (vertices (cellFromCellID id)) (vertices (cellFromCellID id')), CallOK t.1 t.2.1 t.2.2)
    {q q' : R3} (hq : InCellXYZ (cellFromCellID id) (toAcc q)) (hq' : InCellXYZ (cellFromCellID id') (toAcc q')) :
    Fin (distanceToCell (cellFromCellID id) (cellFromCellID id')) ∧
    val (distanceToCell (cellFromCellID id) (cellFromCellID id'))
      ≤ chordPQ q q' + (C08World.edgeErr + 2 * (2 * uR) + 2 * (8 * uR) + (2 * uR + 8 * uR) ^ 2) := by
  obtain ⟨_, _, _, _, ok, hf⟩ := cellOK id hv
  obtain ⟨_, _, _, _, ok', hf'⟩ := cellOK id' hv'
  apply distanceToCell_lower_of id id' hv hv' hcalls _ hq hq'
  intro hne
  have hA := apart_of_notEarly id id' hv hv' hne
  refine ⟨fun k j => cells_no_proper_cross hf hf' ok ok' hA k j, fun j h => corner_in_on_edge hf hf' ok ok' hA j h,
    fun k h => corner_in_on_edge' hf hf' ok ok' hA k h⟩

end S2Proofs.C12Dist2
