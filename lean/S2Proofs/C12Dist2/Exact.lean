/-
  C12Dist2.Exact — the candidate sets of `Cell.DistanceToEdge` and `Cell.DistanceToCell` are COMPLETE, in exact arithmetic,
  for the exact regions of S2 cells (`C12Dist.InCell`: the cone over the uv rectangle on the cell's face):

      cellEdge_exact :  `m ≤ chord²(â, x)`, `m ≤ chord²(b̂, x)` for every cell point x, and `m ≤ chord²(corner k, P)` for every
                        corner and every point P of the arc ab   ⇒   `m ≤ chord²(q, r)` for EVERY cell point q and arc point r,
                        unless the arc meets one of the four cell edges (then the true distance is 0).
      cellCell_exact :  `m ≤ chord²(corner, P)` for the 32 (corner, edge) pairs of two cells   ⇒   `m ≤ chord²(q, q')` for every
                        pair of points of the two cells, unless two edges meet or a corner of one lies in the other.
-/
import S2Proofs.C12Dist2.CellQuad
import S2Proofs.C12Dist2.QuadQuad

set_option linter.unusedSimpArgs false
set_option linter.unusedVariables false

namespace S2Proofs.C12Dist2
open S2Proofs.C17Err S2Proofs.C17Err.R3 S2Proofs.C17Pairs S2Proofs.C12Dist S2Proofs.C08World

theorem cornerUVW_cross (r : RRect) (ok : r.OK) (i : Nat) : 0 < ((cornerUVW r i).cross (cornerUVW r (i + 1))).n2 := by
  obtain ⟨_, hu, _, _, hv, _⟩ := ok
  have hdu' : 0 < r.u1 - r.u0 := by linarith
  have hdv' : 0 < r.v1 - r.v0 := by linarith
  have hdu : 0 < (r.u1 - r.u0) ^ 2 := by positivity
  have hdv : 0 < (r.v1 - r.v0) ^ 2 := by positivity
  have hm : i % 4 = 0 ∨ i % 4 = 1 ∨ i % 4 = 2 ∨ i % 4 = 3 := by omega
  rcases hm with hm | hm | hm | hm
  · have hm' : (i + 1) % 4 = 1 := by omega
    unfold cornerUVW; rw [hm, hm']; unfold R3.n2 R3.dot R3.cross; simp only
    nlinarith [sq_nonneg (r.v0 * (r.u1 - r.u0))]
  · have hm' : (i + 1) % 4 = 2 := by omega
    unfold cornerUVW; rw [hm, hm']; unfold R3.n2 R3.dot R3.cross; simp only
    nlinarith [sq_nonneg (r.u1 * (r.v1 - r.v0))]
  · have hm' : (i + 1) % 4 = 3 := by omega
    unfold cornerUVW; rw [hm, hm']; unfold R3.n2 R3.dot R3.cross; simp only
    nlinarith [sq_nonneg (r.v1 * (r.u1 - r.u0))]
  · have hm' : (i + 1) % 4 = 0 := by omega
    unfold cornerUVW; rw [hm, hm']; unfold R3.n2 R3.dot R3.cross; simp only
    nlinarith [sq_nonneg (r.u0 * (r.v1 - r.v0))]

theorem cellQuad_edgesOK (f : Nat) (r : RRect) (ok : r.OK) : (cellQuad f r).EdgesOK := by
  intro k
  left
  show 0 < ((xyzC f (cornerUVW r k.val)).cross (xyzC f (cornerUVW r (k + 1 : Fin 4).val))).n2
  rw [lagrange, xyzC_n2, xyzC_n2, xyzC_dot, ← lagrange, fin4_succ_val, cornerUVW_mod]
  exact cornerUVW_cross r ok _

theorem cellQuad_pointed (f : Nat) (r : RRect) (ok : r.OK) : (cellQuad f r).Pointed := by
  intro z h1 h2
  have hQ := cellQuad_ok f r ok
  obtain ⟨_, hu, _, _, hv, _⟩ := ok
  have hz : ∀ k : Fin 4, (cellQuad f r).h k z = 0 := by
    intro k
    have a := h1 k
    have b := h2 k
    rw [hQ.lin] at b
    linarith
  have f0 : (uvwC f z).y - r.v0 * (uvwC f z).z = 0 := by have := hz 0; unfold cellQuad formUVW at this; simpa using this
  have f1 : r.u1 * (uvwC f z).z - (uvwC f z).x = 0 := by have := hz 1; unfold cellQuad formUVW at this; simpa using this
  have f2 : r.v1 * (uvwC f z).z - (uvwC f z).y = 0 := by have := hz 2; unfold cellQuad formUVW at this; simpa using this
  have f3 : (uvwC f z).x - r.u0 * (uvwC f z).z = 0 := by have := hz 3; unfold cellQuad formUVW at this; simpa using this
  have hzz : (uvwC f z).z = 0 := by
    have : (r.v1 - r.v0) * (uvwC f z).z = 0 := by linarith
    rcases mul_eq_zero.mp this with h | h
    · linarith
    · exact h
  rw [hzz] at f0 f3
  rw [← uvwC_n2 f z]
  unfold R3.n2 R3.dot
  have ex : (uvwC f z).x = 0 := by linarith
  have ey : (uvwC f z).y = 0 := by linarith
  rw [ex, ey, hzz]; ring

/-- `m ≤ chord²(â, x)` as a cosine bound -/
theorem cos_of_chord' {a x : R3} {m : ℝ} (ha : 0 < a.len) (h : m ≤ chordPQ (dirR a) x) : a.dot x ≤ (1 - m / 2) * a.len := by
  rw [chord_dir] at h
  have : a.dot x / a.len ≤ 1 - m / 2 := by linarith
  rwa [div_le_iff₀ ha] at this
where
  chord_dir (a x : R3) : chordPQ (dirR a) x = 2 - 2 * (a.dot x / a.len) := by
    unfold chordPQ; rw [dot_comm, dot_dirR, dot_comm]

/-- **exact geometry of `DistanceToEdge`** -/
theorem cellEdge_exact (f : Nat) (r : RRect) (ok : r.OK) {a b : R3} (ha : 0 < a.len) (hb : 0 < b.len)
    (hab : NotAntipodal a b) {m : ℝ} (hm0 : 0 < m) (hm4 : m ≤ 4)
    (hA : ∀ x, InCell r (uvwR f (toAcc x)) → m ≤ chordPQ (dirR a) x)
    (hB : ∀ x, InCell r (uvwR f (toAcc x)) → m ≤ chordPQ (dirR b) x)
    (hW : ∀ k P, OnArc a b P → m ≤ chordPQ (dirR ((cellQuad f r).w k)) P)
    {q p : R3} (hq : InCell r (uvwR f (toAcc q))) (hp : OnArc a b p) :
    m ≤ chordPQ q p ∨ ∃ k, ArcsMeetR ((cellQuad f r).w k) ((cellQuad f r).w (k + 1)) a b := by
  have hQ := cellQuad_ok f r ok
  rcases quad_arc_core (c := 1 - m / 2) hQ (by linarith) (by linarith) ha hb hab
      ((pt_iff_inCell f r ok q).mpr hq) hp
      (fun x hx => cos_of_chord' ha (hA x ((pt_iff_inCell f r ok x).mp hx)))
      (fun x hx => cos_of_chord' hb (hB x ((pt_iff_inCell f r ok x).mp hx)))
      (fun k P hP => cos_of_chord' (hQ.wpos k) (hW k P hP)) with h | h
  · left; unfold chordPQ; linarith
  · exact Or.inr h

/-- **exact geometry of `DistanceToCell`** -/
theorem cellCell_exact (f f' : Nat) (r r' : RRect) (ok : r.OK) (ok' : r'.OK) {m : ℝ} (hm4 : m ≤ 4)
    (hCT : ∀ k j P, OnArc ((cellQuad f' r').w j) ((cellQuad f' r').w (j + 1)) P → m ≤ chordPQ (dirR ((cellQuad f r).w k)) P)
    (hTC : ∀ j k P, OnArc ((cellQuad f r).w k) ((cellQuad f r).w (k + 1)) P → m ≤ chordPQ (dirR ((cellQuad f' r').w j)) P)
    {q q' : R3} (hq : InCell r (uvwR f (toAcc q))) (hq' : InCell r' (uvwR f' (toAcc q'))) :
    m ≤ chordPQ q q' ∨
    (∃ k j, ArcsMeetR ((cellQuad f r).w k) ((cellQuad f r).w (k + 1)) ((cellQuad f' r').w j) ((cellQuad f' r').w (j + 1))) ∨
    (∃ j, (cellQuad f r).In ((cellQuad f' r').w j)) ∨ (∃ k, (cellQuad f' r').In ((cellQuad f r).w k)) := by
  have hC := cellQuad_ok f r ok
  have hT := cellQuad_ok f' r' ok'
  rcases quad_quad_core (c := 1 - m / 2) hC hT (cellQuad_edgesOK f r ok) (cellQuad_edgesOK f' r' ok') (cellQuad_pointed f' r' ok')
      (by linarith)
      (fun k j P hP => cos_of_chord' (hC.wpos k) (hCT k j P hP))
      (fun j k P hP => cos_of_chord' (hT.wpos j) (hTC j k P hP))
      ((pt_iff_inCell f r ok q).mpr hq) ((pt_iff_inCell f' r' ok' q').mpr hq') with h | h
  · left; unfold chordPQ; linarith
  · exact Or.inr h

end S2Proofs.C12Dist2
