/-
  C12Dist2.MaxCell — `Cell.MaxDistanceToCell`: all parameters of `maxDistanceToCell_upper_of` discharged.

  * the antipode of the target cell is the cone `negQuad (cellQuad f' r')`, its float corners are the negated float vertices
    (`NegQuad.lean`: the antipode of an S2 cell is the S2 cell of the opposite face with the transposed uv rectangle, corners in
    reversed order — exactly the `antipodalUV` of the code);
  * `apartMax_of_notEarly` : the early-return test of the code (`c.face == oppositeFace(target.face) &&
    c.uv.Intersects(antipodalUV)`, float comparisons) is exactly the negation of `Apart` for the cell and the antipodal cell,
    so in the other branch the cell and the antipodal target are apart and the 32 (vertex, edge) pairs suffice
    (`negCell_noProperCross`, `negCell_corners1/2`);
  * `maxDistanceToCell_upper` : chord²(q, q') ≤ MaxDistanceToCell + 205u + 2·2u + 2·8u + (10u)² ≤ … + 2^-45.
-/
import S2Proofs.C12Dist2.MaxCellOf
import S2Proofs.C12Dist2.NegQuad

set_option linter.unusedSimpArgs false
set_option linter.unusedVariables false

namespace S2Proofs.C12Dist2
open S2 S2.CellID S2.CellM S2.CellEdgeM S2.EdgeNum S2Proofs.F64Order S2Proofs.FloatErr
open S2Proofs.C17Err S2Proofs.C17Err.R3 S2Proofs.C17Pairs S2Proofs.C17 S2Proofs.C08World S2Proofs.C12Dist S2Proofs.C12

/-- not in the early-return case ⇒ the exact cell and the exact ANTIPODAL target are apart -/
theorem apartMax_of_notEarly (id id' : CellID) (hv : isValid id = true) (hv' : isValid id' = true)
    (h : NotEarlyMax (cellFromCellID id) (cellFromCellID id')) :
    Apart (cellFromCellID id).face (oppFace (cellFromCellID id').face) (rectOf (cellFromCellID id))
      (transposeR (rectOf (cellFromCellID id'))) := by
  obtain ⟨f1, f2, f3, f4, ok, _⟩ := cellOK id hv
  obtain ⟨g1, g2, g3, g4, ok', _⟩ := cellOK id' hv'
  intro ⟨hf, a1, a2, a3, a4⟩
  apply h
  refine ⟨hf, ?_⟩
  unfold Rect2.intersects
  simp only [Bool.and_eq_true]
  unfold transposeR rectOf at a1 a2 a3 a4
  unfold rectOf at ok ok'
  simp only at a1 a2 a3 a4
  have o1 := ok.u_lt
  have o2 := ok.v_lt
  have o3 := ok'.u_lt
  have o4 := ok'.v_lt
  simp only at o1 o2 o3 o4
  constructor
  · exact ivl_intersects (a := (cellFromCellID id).uv.1.1) (b := (cellFromCellID id).uv.1.2)
      (a' := (cellFromCellID id').uv.2.1) (b' := (cellFromCellID id').uv.2.2) f1 f2 g3 g4 o1.le o4.le a1 a2
  · exact ivl_intersects (a := (cellFromCellID id).uv.2.1) (b := (cellFromCellID id).uv.2.2)
      (a' := (cellFromCellID id').uv.1.1) (b' := (cellFromCellID id').uv.1.2) f3 f4 g1 g2 o2.le o3.le a3 a4

/-- the slack of `MaxDistanceToCell`: `205u + 2·2u + 2·8u + (10u)² ≤ 2^-45` -/
theorem cellMaxSlack_le : maxCallErr + 2 * (2 * uR) + 2 * (8 * uR) + (2 * uR + 8 * uR) ^ 2 ≤ 1 / 2 ^ 45 := by
  unfold maxCallErr uR; norm_num

/-- **UPPER BOUND of `MaxDistanceToCell`** (float model, exact cells), from the one-call property `CallUpper` -/
theorem maxDistanceToCell_upper' (id id' : CellID) (hv : isValid id = true) (hv' : isValid id' = true)
    (hcalls : ∀ t ∈ pairCalls (vertices (cellFromCellID id)) (vertices (cellFromCellID id')), CallUpper t.1 t.2.1 t.2.2)
    {q q' : R3} (hq : InCellXYZ (cellFromCellID id) (toAcc q)) (hq' : InCellXYZ (cellFromCellID id') (toAcc q')) :
    Fin (maxDistanceToCell (cellFromCellID id) (cellFromCellID id')) ∧
    chordPQ q q' ≤ val (maxDistanceToCell (cellFromCellID id) (cellFromCellID id')) + 1 / 2 ^ 45 := by
  obtain ⟨_, _, _, _, ok, hf⟩ := cellOK id hv
  obtain ⟨_, _, _, _, ok', hf'⟩ := cellOK id' hv'
  have hT := cellQuad_ok (cellFromCellID id').face (rectOf (cellFromCellID id')) ok'
  obtain ⟨hfin, h⟩ := maxDistanceToCell_upper_of id id' hv hv' hcalls
    (T' := negQuad (cellQuad (cellFromCellID id').face (rectOf (cellFromCellID id'))))
    (W' := fun k => negR (floatV (cellFromCellID id') k))
    (nearQuad_cell id hv) (negQuad_ok hT) (negQuad_edgesOK (cellQuad_edgesOK _ _ ok'))
    (negQuad_pointed hT (cellQuad_pointed _ _ ok')) (negQuad_near (nearQuad_cell id' hv'))
    (fun _ => rfl)
    (fun x hx => by rw [negQuad_pt, negR_negR]; exact hx)
    (fun hne => by
      have hA := apartMax_of_notEarly id id' hv hv' hne
      exact ⟨negCell_noProperCross hf hf' ok ok' hA, negCell_corners1 hf hf' ok ok' hA,
        negCell_corners2 hf hf' ok ok' hA⟩)
    hq hq'
  exact ⟨hfin, by have := cellMaxSlack_le; linarith⟩

/-- … under c17pairs' `MaxCallOK` (which contains the complement of the one-ulp right-angle class) -/
theorem maxDistanceToCell_upper (id id' : CellID) (hv : isValid id = true) (hv' : isValid id' = true)
    (hcalls : ∀ t ∈ pairCalls (vertices (cellFromCellID id)) (vertices (cellFromCellID id')), MaxCallOK t.1 t.2.1 t.2.2)
    {q q' : R3} (hq : InCellXYZ (cellFromCellID id) (toAcc q)) (hq' : InCellXYZ (cellFromCellID id') (toAcc q')) :
    Fin (maxDistanceToCell (cellFromCellID id) (cellFromCellID id')) ∧
    chordPQ q q' ≤ val (maxDistanceToCell (cellFromCellID id) (cellFromCellID id')) + 1 / 2 ^ 45 :=
  maxDistanceToCell_upper' id id' hv hv' (fun t ht => callUpper_of_maxCallOK (hcalls t ht)) hq hq'

end S2Proofs.C12Dist2
