/-
  C12Dist2.Robust — the cell-to-edge theorem for the situation of the CODE (still pure ℝ³, no floats):

  the distances are measured to the EXACT cone `Q` (the cell) and to its exact corners only up to the slacks `sA`, `sV`;
  the crossing test was made against a NEARBY quadrilateral `V` (the float vertices `c.Vertex(k)`, within `ε` of the exact
  corners as directions, edges within `η` of the exact edges), and only says "no PROPER crossing".

      quad_arc_robust :   R ≤ chord²(q, r) + max sA sV + 2ε + 2η + η²     for every point q of the cell and r of the arc ab

  where `R` is any number that is (i) ≤ chord²(â, x) + sA and ≤ chord²(b̂, x) + sA for every point x of the cell
  (`Cell.Distance(a)`, `Cell.Distance(b)` by C12's lower bound), (ii) ≤ chord²(V̂_k, P) + sV for every vertex and every point
  P of the arc (the `UpdateMinDistance` loop by C17's contract).  The proof applies `quad_arc_core` to the exact cone; if the
  arc meets an exact edge, `pair_core` on the nearby float edge shows that either one of the candidate distances is already
  tiny, or the arc MEETS the float edge, and then — no proper crossing — an endpoint of one lies on the other (`TouchLemma`),
  so again a candidate distance is tiny.
-/
import S2Proofs.C12Dist2.QuadCore
import S2Proofs.C12Dist2.Touch

set_option linter.unusedSimpArgs false
set_option linter.unusedVariables false

namespace S2Proofs.C12Dist2
open S2Proofs.C17Err S2Proofs.C17Err.R3 S2Proofs.C17Pairs

/-- squared Euclidean distance of two vectors -/
def d2 (x y : R3) : ℝ := (comb 1 x (-1) y).n2

theorem d2_eq (x y : R3) : d2 x y = x.n2 + y.n2 - 2 * x.dot y := by
  unfold d2 R3.n2 R3.dot comb; ring

theorem d2_unit {x y : R3} (hx : x.n2 = 1) (hy : y.n2 = 1) : d2 x y = chordPQ x y := by
  rw [d2_eq, hx, hy]; unfold chordPQ; ring

theorem d2_comm (x y : R3) : d2 x y = d2 y x := by rw [d2_eq, d2_eq, dot_comm]; ring

/-- moving one argument of a dot product by at most `η` -/
theorem dot_le_of_near {u y y' : R3} {η : ℝ} (hη : 0 ≤ η) (hu : u.n2 = 1) (h : d2 y' y ≤ η ^ 2) :
    u.dot y' ≤ u.dot y + η := by
  have e : u.dot y' = u.dot y + u.dot (comb 1 y' (-1) y) := by unfold R3.dot comb; ring
  have h1 := abs_dot_le u (comb 1 y' (-1) y)
  have hul : u.len = 1 := len_eq_one hu
  have h2 : (comb 1 y' (-1) y).len ≤ η := len_le_of_sq hη (by unfold d2 at h; nlinarith)
  rw [hul, one_mul] at h1
  have := (abs_le.mp h1).2
  linarith

/-- the geometric fact proved in `Touch.lean` (`meet_cases`), as a named statement (`dirOn a b x` = the direction of `x`
    lies on the arc `ab`) -/
def TouchLemma : Prop :=
  ∀ {a0 a1 b0 b1 : R3}, 0 < a0.len → 0 < a1.len → 0 < b0.len → 0 < b1.len → NotAntipodal a0 a1 → NotAntipodal b0 b1 →
    ArcsMeetR a0 a1 b0 b1 →
    ProperCrossR a0 a1 b0 b1 ∨ dirOn a0 a1 b0 ∨ dirOn a0 a1 b1 ∨ dirOn b0 b1 a0 ∨ dirOn b0 b1 a1

/-- the float quadrilateral `V` is near the exact cone `Q` -/
structure NearQuad (Q : Quad) (V : Fin 4 → R3) (ε η : ℝ) : Prop where
  ε0 : 0 ≤ ε
  η0 : 0 ≤ η
  vpos : ∀ k, 0 < (V k).len
  vna : ∀ k, NotAntipodal (V k) (V (k + 1))
  /-- corner directions -/
  near : ∀ k, d2 (dirR (V k)) (dirR (Q.w k)) ≤ ε ^ 2
  /-- every point of an exact edge is near a point of the float edge … -/
  toFloat : ∀ k Y, OnArc (Q.w k) (Q.w (k + 1)) Y → ∃ Y', OnArc (V k) (V (k + 1)) Y' ∧ d2 Y' Y ≤ η ^ 2
  /-- … and conversely -/
  toExact : ∀ k Y', OnArc (V k) (V (k + 1)) Y' → ∃ Y, OnArc (Q.w k) (Q.w (k + 1)) Y ∧ d2 Y' Y ≤ η ^ 2

theorem touchLemma : TouchLemma := fun ha0 ha1 hb0 hb1 hA hB h => meet_cases ha0 ha1 hb0 hb1 hA hB h

theorem arcsMeetR_symm {a0 a1 b0 b1 : R3} (h : ArcsMeetR a0 a1 b0 b1) : ArcsMeetR b0 b1 a0 a1 := by
  obtain ⟨X, h1, h2⟩ := h; exact ⟨X, h2, h1⟩

theorem onArc_n2 {a b P : R3} (h : OnArc a b P) : P.n2 = 1 := h.choose_spec.choose_spec.2.2.2

theorem chord_dir (a x : R3) : chordPQ (dirR a) x = 2 - 2 * (a.dot x / a.len) := by
  unfold chordPQ; rw [dot_comm, dot_dirR, dot_comm]

/-- `R ≤ chord²(â, x) + s` as a cosine bound -/
theorem cos_of_chord {a x : R3} {R s c : ℝ} (ha : 0 < a.len) (h : R ≤ chordPQ (dirR a) x + s) (hc : 1 - (R - s) / 2 ≤ c) :
    a.dot x ≤ c * a.len := by
  rw [chord_dir] at h
  have : a.dot x / a.len ≤ c := by linarith
  rwa [div_le_iff₀ ha] at this

theorem quad_arc_robust {Q : Quad} (hQ : Q.OK) {V : Fin 4 → R3} {ε η : ℝ} (hN : NearQuad Q V ε η) (touch : TouchLemma)
    {a b : R3} (ha : 0 < a.len) (hb : 0 < b.len) (hab : NotAntipodal a b)
    (hX : ∀ k, ¬ ProperCrossR a b (V k) (V (k + 1)))
    {R sA sV : ℝ} (hsA : 0 ≤ sA) (hsV : 0 ≤ sV)
    (hRa : ∀ x, Q.Pt x → R ≤ chordPQ (dirR a) x + sA)
    (hRb : ∀ x, Q.Pt x → R ≤ chordPQ (dirR b) x + sA)
    (hRv : ∀ k P, OnArc a b P → R ≤ chordPQ (dirR (V k)) P + sV)
    {q r : R3} (hq : Q.Pt q) (hr : OnArc a b r) :
    R ≤ chordPQ q r + (max sA sV + 2 * ε + 2 * η + η ^ 2) := by
  obtain ⟨hε, hη, vpos, vna, near, toF, toE⟩ := hN
  set S := max sA sV + 2 * ε + 2 * η + η ^ 2 with hS
  have hsA' : sA ≤ max sA sV := le_max_left _ _
  have hsV' : sV ≤ max sA sV := le_max_right _ _
  have hη2 : 0 ≤ η ^ 2 := sq_nonneg η
  have hq1 := hq.1
  have hr1 := onArc_n2 hr
  have hch0 : 0 ≤ chordPQ q r := chordPQ_nonneg hq1 hr1
  by_cases hsmall : R ≤ S
  · linarith
  have hbig : S < R := not_le.mp hsmall
  set c := 1 - (R - S) / 2 with hc
  have hc1 : c < 1 := by rw [hc]; linarith
  have hc0 : -1 ≤ c := by
    rw [hc]
    have h1 := hRa q hq
    have h2 : chordPQ (dirR a) q ≤ 4 := by
      unfold chordPQ
      have hcs := cs (dirR a) q
      rw [dirR_n2 ha, hq1] at hcs
      nlinarith
    have : sA ≤ S := by rw [hS]; linarith
    linarith
  -- the hypotheses of the exact theorem
  have hA : ∀ x, Q.Pt x → a.dot x ≤ c * a.len := fun x hx =>
    cos_of_chord ha (hRa x hx) (by rw [hc, hS]; linarith)
  have hB : ∀ x, Q.Pt x → b.dot x ≤ c * b.len := fun x hx =>
    cos_of_chord hb (hRb x hx) (by rw [hc, hS]; linarith)
  have hW : ∀ k, ∀ P, OnArc a b P → (Q.w k).dot P ≤ c * (Q.w k).len := by
    intro k P hP
    have hP1 := onArc_n2 hP
    have h1 := hRv k P hP
    -- ŵ·P ≤ V̂·P + ε
    have h2 : P.dot (dirR (Q.w k)) ≤ P.dot (dirR (V k)) + ε := by
      have := dot_le_of_near hε hP1 (by rw [d2_comm]; exact near k)
      exact this
    have h3 : R ≤ chordPQ (dirR (Q.w k)) P + (sV + 2 * ε) := by
      unfold chordPQ at h1 ⊢
      rw [dot_comm] at h2
      rw [dot_comm (dirR (V k)) P] at h1
      rw [dot_comm (dirR (Q.w k)) P]
      rw [dot_comm P (dirR (V k))] at h2
      rw [dot_comm (dirR (V k)) P] at h2
      rw [dot_comm (dirR (Q.w k)) P] at h2
      linarith
    exact cos_of_chord (hQ.wpos k) h3 (by rw [hc, hS]; linarith)
  rcases quad_arc_core hQ hc0 hc1 ha hb hab hq hr hA hB hW with h | ⟨k, X, hXe, hXab⟩
  · unfold chordPQ; rw [hc] at h; linarith
  · -- the arc meets the exact edge k at X : contradiction with R > S
    exfalso
    obtain ⟨X', hX'f, hX'near⟩ := toF k X hXe
    have hX1 := onArc_n2 hXab
    have hX'1 := onArc_n2 hX'f
    -- cosine bound for the float edge against the arc
    set S' := max sA sV + 2 * η with hS'
    set c' := 1 - (R - S') / 2 with hc'
    have hA0 : ∀ k', ∀ P, OnArc a b P → (V k').dot P ≤ c' * (V k').len := fun k' P hP =>
      cos_of_chord (vpos k') (hRv k' P hP) (by rw [hc', hS']; linarith)
    have hfloatA : ∀ (e : R3), 0 < e.len → (∀ x, Q.Pt x → R ≤ chordPQ (dirR e) x + sA) →
        ∀ P, OnArc (V k) (V (k + 1)) P → e.dot P ≤ c' * e.len := by
      intro e he hRe P hP
      obtain ⟨Y, hYe, hYn⟩ := toE k P hP
      have hY := hRe Y (hQ.edge_in hYe)
      have hd := dot_le_of_near hη (dirR_n2 he) hYn
      have h3 : R ≤ chordPQ (dirR e) P + (sA + 2 * η) := by
        unfold chordPQ at hY ⊢; linarith
      exact cos_of_chord he h3 (by rw [hc', hS']; linarith)
    have hmeet : ArcsMeetR (V k) (V (k + 1)) a b := by
      rcases pair_core (c := c') (vpos k) (vpos (k + 1)) ha hb hab hX'f hXab (hA0 k) (hA0 (k + 1))
          (hfloatA a ha hRa) (hfloatA b hb hRb) with h | h
      · exact h
      · exfalso
        -- X'·X ≥ 1 − η²/2
        have h1 : d2 X' X = chordPQ X' X := d2_unit hX'1 hX1
        unfold chordPQ at h1
        rw [hc', hS'] at h
        rw [hS] at hbig
        nlinarith
    -- an endpoint of one lies on the other
    rcases touch ha hb (vpos k) (vpos (k + 1)) hab (vna k) (arcsMeetR_symm hmeet) with h | h | h | h | h
    · exact hX k h
    · -- V̂_k on the arc ab
      have := hRv k (dirR (V k)) h
      rw [chordPQ_self (dirR_n2 (vpos k))] at this
      rw [hS] at hbig; linarith
    · have := hRv (k + 1) (dirR (V (k + 1))) h
      rw [chordPQ_self (dirR_n2 (vpos (k + 1)))] at this
      rw [hS] at hbig; linarith
    · -- â on the float edge
      obtain ⟨Y, hYe, hYn⟩ := toE k (dirR a) h
      have := hRa Y (hQ.edge_in hYe)
      rw [← d2_unit (dirR_n2 ha) (onArc_n2 hYe)] at this
      rw [hS] at hbig; linarith
    · obtain ⟨Y, hYe, hYn⟩ := toE k (dirR b) h
      have := hRb Y (hQ.edge_in hYe)
      rw [← d2_unit (dirR_n2 hb) (onArc_n2 hYe)] at this
      rw [hS] at hbig; linarith

end S2Proofs.C12Dist2
