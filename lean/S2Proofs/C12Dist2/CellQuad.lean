/-
  C12Dist2.CellQuad — the exact region of a cell (`C12Dist.InCellXYZ`: the cone over the uv rectangle on the cell's face) as a
  `Quad` of `QuadCore.lean`, in the XYZ frame and in the vocabulary of C17 (`C17Err.R3`).

      uvwC / xyzC       the face frame and its inverse on `C17Err.R3` (signed permutations)
      cellQuad f r      forms: bottom (y − v0 z), right (u1 z − x), top (v1 z − y), left (x − u0 z) of the face-frame image;
                        corners k = 0..3: (u0,v0,1), (u1,v0,1), (u1,v1,1), (u0,v1,1) mapped back to XYZ  (the order of `Cell.Vertex(k)`)
      cellQuad_ok       it is a `Quad.OK` for every non-degenerate rectangle
      pt_iff_inCell     `Pt (cellQuad f r) x ↔ InCell r (uvwR f (toAcc x))`
-/
import S2Proofs.C12Dist2.QuadCore
import S2Proofs.EdgeQuery.PointWorld

set_option linter.unusedSimpArgs false
set_option linter.unusedVariables false

namespace S2Proofs.C12Dist2
open S2Proofs.C17Err S2Proofs.C17Err.R3 S2Proofs.C17Pairs S2Proofs.C12Dist S2Proofs.C08World

/-- `faceXYZtoUVW` on real vectors (C17 vocabulary) -/
def uvwC (face : Nat) (p : R3) : R3 :=
  match face with
  | 0 => ⟨p.y, p.z, p.x⟩
  | 1 => ⟨-p.x, p.z, p.y⟩
  | 2 => ⟨-p.x, -p.y, p.z⟩
  | 3 => ⟨-p.z, -p.y, -p.x⟩
  | 4 => ⟨-p.z, p.x, -p.y⟩
  | _ => ⟨p.y, p.x, -p.z⟩

/-- its inverse -/
def xyzC (face : Nat) (w : R3) : R3 :=
  match face with
  | 0 => ⟨w.z, w.x, w.y⟩
  | 1 => ⟨-w.x, w.z, w.y⟩
  | 2 => ⟨-w.x, -w.y, w.z⟩
  | 3 => ⟨-w.z, -w.y, -w.x⟩
  | 4 => ⟨w.y, -w.z, -w.x⟩
  | _ => ⟨w.y, w.x, -w.z⟩

theorem r3_ext {a b : R3} (hx : a.x = b.x) (hy : a.y = b.y) (hz : a.z = b.z) : a = b := by
  cases a; cases b; simp_all

theorem uvwC_xyzC (f : Nat) (w : R3) : uvwC f (xyzC f w) = w := by
  unfold uvwC xyzC; split <;> simp

theorem xyzC_uvwC (f : Nat) (p : R3) : xyzC f (uvwC f p) = p := by
  unfold uvwC xyzC; split <;> simp

theorem uvwC_comb (f : Nat) (s : ℝ) (x : R3) (t : ℝ) (y : R3) :
    uvwC f (comb s x t y) = comb s (uvwC f x) t (uvwC f y) := by
  match f with
  | 0 | 1 | 2 | 3 | 4 | (n + 5) => (apply r3_ext <;> simp only [uvwC, comb] <;> ring)

theorem xyzC_comb (f : Nat) (s : ℝ) (x : R3) (t : ℝ) (y : R3) :
    xyzC f (comb s x t y) = comb s (xyzC f x) t (xyzC f y) := by
  match f with
  | 0 | 1 | 2 | 3 | 4 | (n + 5) => (apply r3_ext <;> simp only [xyzC, comb] <;> ring)

theorem uvwC_dot (f : Nat) (x y : R3) : (uvwC f x).dot (uvwC f y) = x.dot y := by
  unfold uvwC R3.dot; split <;> simp <;> ring

theorem xyzC_dot (f : Nat) (x y : R3) : (xyzC f x).dot (xyzC f y) = x.dot y := by
  unfold xyzC R3.dot; split <;> simp <;> ring

theorem xyzC_n2 (f : Nat) (x : R3) : (xyzC f x).n2 = x.n2 := xyzC_dot f x x
theorem uvwC_n2 (f : Nat) (x : R3) : (uvwC f x).n2 = x.n2 := uvwC_dot f x x

theorem toAcc_uvwC (f : Nat) (x : R3) : toAcc (uvwC f x) = uvwR f (toAcc x) := by
  match f with
  | 0 => rfl
  | 1 => rfl
  | 2 => rfl
  | 3 => rfl
  | 4 => rfl
  | (n + 5) => rfl

/-- the four forms on the face-frame image -/
def formUVW (r : RRect) (i : Nat) (y : R3) : ℝ :=
  match i % 4 with
  | 0 => y.y - r.v0 * y.z
  | 1 => r.u1 * y.z - y.x
  | 2 => r.v1 * y.z - y.y
  | _ => y.x - r.u0 * y.z

/-- the four corners `(u, v, 1)` in the face frame, in the order of `Cell.Vertex` -/
def cornerUVW (r : RRect) (i : Nat) : R3 :=
  match i % 4 with
  | 0 => ⟨r.u0, r.v0, 1⟩
  | 1 => ⟨r.u1, r.v0, 1⟩
  | 2 => ⟨r.u1, r.v1, 1⟩
  | _ => ⟨r.u0, r.v1, 1⟩

/-- **the cell as a cone** (XYZ frame) -/
def cellQuad (f : Nat) (r : RRect) : Quad where
  h := fun k x => formUVW r k.val (uvwC f x)
  w := fun k => xyzC f (cornerUVW r k.val)

theorem formUVW_comb (r : RRect) (i : Nat) (s : ℝ) (x : R3) (t : ℝ) (y : R3) :
    formUVW r i (comb s x t y) = s * formUVW r i x + t * formUVW r i y := by
  unfold formUVW comb; split <;> simp <;> ring

theorem cornerUVW_in (r : RRect) (ok : r.OK) (i j : Nat) : 0 ≤ formUVW r j (cornerUVW r i) := by
  obtain ⟨_, h1, _, _, h2, _⟩ := ok
  unfold formUVW cornerUVW
  split <;> split <;> simp <;> linarith

theorem cornerUVW_n2 (r : RRect) (i : Nat) : 0 < (cornerUVW r i).n2 := by
  unfold cornerUVW R3.n2 R3.dot
  split <;> simp <;> nlinarith [sq_nonneg r.u0, sq_nonneg r.u1, sq_nonneg r.v0, sq_nonneg r.v1]

/-- a point of the cone on the plane of edge `i` is a non-negative combination of the two corners of the edge -/
theorem edge_cone (r : RRect) (ok : r.OK) (i : Nat) (y : R3) (hin : ∀ j, 0 ≤ formUVW r j y) (h0 : formUVW r i y = 0) :
    ∃ s t, 0 ≤ s ∧ 0 ≤ t ∧ y = comb s (cornerUVW r i) t (cornerUVW r (i + 1)) := by
  obtain ⟨_, hu, _, _, hv, _⟩ := ok
  have f0 : 0 ≤ y.y - r.v0 * y.z := by have := hin 0; unfold formUVW at this; simpa using this
  have f1 : 0 ≤ r.u1 * y.z - y.x := by have := hin 1; unfold formUVW at this; simpa using this
  have f2 : 0 ≤ r.v1 * y.z - y.y := by have := hin 2; unfold formUVW at this; simpa using this
  have f3 : 0 ≤ y.x - r.u0 * y.z := by have := hin 3; unfold formUVW at this; simpa using this
  have hdu : 0 < r.u1 - r.u0 := by linarith
  have hdv : 0 < r.v1 - r.v0 := by linarith
  have hm : i % 4 = 0 ∨ i % 4 = 1 ∨ i % 4 = 2 ∨ i % 4 = 3 := by omega
  rcases hm with hm | hm | hm | hm
  · -- bottom : from (u0,v0) to (u1,v0)
    have hm' : (i + 1) % 4 = 1 := by omega
    have e0 : y.y = r.v0 * y.z := by unfold formUVW at h0; rw [hm] at h0; simp at h0; linarith
    refine ⟨(r.u1 * y.z - y.x) / (r.u1 - r.u0), (y.x - r.u0 * y.z) / (r.u1 - r.u0), div_nonneg f1 hdu.le, div_nonneg f3 hdu.le, ?_⟩
    unfold cornerUVW comb; rw [hm, hm']
    rcases y with ⟨yx, yy, yz⟩
    simp only [R3.mk.injEq] at e0 ⊢
    refine ⟨?_, ?_, ?_⟩ <;> field_simp <;> (try rw [e0]) <;> ring
  · -- right : from (u1,v0) to (u1,v1)
    have hm' : (i + 1) % 4 = 2 := by omega
    have e0 : y.x = r.u1 * y.z := by unfold formUVW at h0; rw [hm] at h0; simp at h0; linarith
    refine ⟨(r.v1 * y.z - y.y) / (r.v1 - r.v0), (y.y - r.v0 * y.z) / (r.v1 - r.v0), div_nonneg f2 hdv.le, div_nonneg f0 hdv.le, ?_⟩
    unfold cornerUVW comb; rw [hm, hm']
    rcases y with ⟨yx, yy, yz⟩
    simp only [R3.mk.injEq] at e0 ⊢
    refine ⟨?_, ?_, ?_⟩ <;> field_simp <;> (try rw [e0]) <;> ring
  · -- top : from (u1,v1) to (u0,v1)
    have hm' : (i + 1) % 4 = 3 := by omega
    have e0 : y.y = r.v1 * y.z := by unfold formUVW at h0; rw [hm] at h0; simp at h0; linarith
    refine ⟨(y.x - r.u0 * y.z) / (r.u1 - r.u0), (r.u1 * y.z - y.x) / (r.u1 - r.u0), div_nonneg f3 hdu.le, div_nonneg f1 hdu.le, ?_⟩
    unfold cornerUVW comb; rw [hm, hm']
    rcases y with ⟨yx, yy, yz⟩
    simp only [R3.mk.injEq] at e0 ⊢
    refine ⟨?_, ?_, ?_⟩ <;> field_simp <;> (try rw [e0]) <;> ring
  · -- left : from (u0,v1) to (u0,v0)
    have hm' : (i + 1) % 4 = 0 := by omega
    have e0 : y.x = r.u0 * y.z := by unfold formUVW at h0; rw [hm] at h0; simp at h0; linarith
    refine ⟨(y.y - r.v0 * y.z) / (r.v1 - r.v0), (r.v1 * y.z - y.y) / (r.v1 - r.v0), div_nonneg f0 hdv.le, div_nonneg f2 hdv.le, ?_⟩
    unfold cornerUVW comb; rw [hm, hm']
    rcases y with ⟨yx, yy, yz⟩
    simp only [R3.mk.injEq] at e0 ⊢
    refine ⟨?_, ?_, ?_⟩ <;> field_simp <;> (try rw [e0]) <;> ring

theorem formUVW_mod (r : RRect) (i : Nat) (y : R3) : formUVW r (i % 4) y = formUVW r i y := by
  unfold formUVW; rw [Nat.mod_mod]

theorem cornerUVW_mod (r : RRect) (i : Nat) : cornerUVW r (i % 4) = cornerUVW r i := by
  unfold cornerUVW; rw [Nat.mod_mod]

theorem fin4_succ_val (k : Fin 4) : (k + 1 : Fin 4).val = (k.val + 1) % 4 := by
  rw [Fin.val_add]; rfl

theorem cellQuad_ok (f : Nat) (r : RRect) (ok : r.OK) : (cellQuad f r).OK where
  lin := by
    intro k s x t y
    show formUVW r k.val (uvwC f (comb s x t y)) = _
    rw [uvwC_comb, formUVW_comb]; rfl
  wpos := by
    intro k
    rw [len_pos_iff]
    show 0 < (xyzC f (cornerUVW r k.val)).n2
    rw [xyzC_n2]; exact cornerUVW_n2 r _
  edge := by
    intro k x hin h0
    have hin' : ∀ j, 0 ≤ formUVW r j (uvwC f x) := by
      intro j
      have := hin ⟨j % 4, Nat.mod_lt _ (by norm_num)⟩
      rw [← formUVW_mod]; exact this
    obtain ⟨s, t, hs, ht, e⟩ := edge_cone r ok k.val (uvwC f x) hin' h0
    refine ⟨s, t, hs, ht, ?_⟩
    show x = comb s (xyzC f (cornerUVW r k.val)) t (xyzC f (cornerUVW r (k + 1 : Fin 4).val))
    rw [fin4_succ_val, cornerUVW_mod, ← xyzC_comb, ← e, xyzC_uvwC]
  corner := by
    intro k j
    show 0 ≤ formUVW r j.val (uvwC f (xyzC f (cornerUVW r k.val)))
    rw [uvwC_xyzC]; exact cornerUVW_in r ok _ _

/-- the points of the cone are the points of the exact cell -/
theorem pt_iff_inCell (f : Nat) (r : RRect) (ok : r.OK) (x : R3) :
    (cellQuad f r).Pt x ↔ InCell r (uvwR f (toAcc x)) := by
  rw [← toAcc_uvwC]
  have hn : (toAcc (uvwC f x)).norm2 = x.n2 := by
    rw [← uvwC_n2 f x]; unfold toAcc S2Proofs.C16Acc.R3.norm2 R3.n2 R3.dot; ring
  obtain ⟨_, hu, _, _, hv, _⟩ := ok
  constructor
  · rintro ⟨h1, hin⟩
    have f0 : 0 ≤ (uvwC f x).y - r.v0 * (uvwC f x).z := by have := hin 0; unfold cellQuad formUVW at this; simpa using this
    have f1 : 0 ≤ r.u1 * (uvwC f x).z - (uvwC f x).x := by have := hin 1; unfold cellQuad formUVW at this; simpa using this
    have f2 : 0 ≤ r.v1 * (uvwC f x).z - (uvwC f x).y := by have := hin 2; unfold cellQuad formUVW at this; simpa using this
    have f3 : 0 ≤ (uvwC f x).x - r.u0 * (uvwC f x).z := by have := hin 3; unfold cellQuad formUVW at this; simpa using this
    have hz0 : 0 ≤ (uvwC f x).z := by nlinarith
    have hzpos : 0 < (uvwC f x).z := by
      rcases hz0.lt_or_eq with h | h
      · exact h
      · exfalso
        rw [← h] at f0 f1 f2 f3
        have ex : (uvwC f x).x = 0 := by linarith
        have ey : (uvwC f x).y = 0 := by linarith
        have : (uvwC f x).n2 = 0 := by unfold R3.n2 R3.dot; rw [ex, ey, ← h]; ring
        rw [uvwC_n2, h1] at this
        norm_num at this
    refine ⟨by rw [hn]; exact h1, hzpos, ?_, ?_, ?_, ?_⟩ <;> (unfold toAcc; simp only; linarith)
  · rintro ⟨h1, hz, a1, a2, a3, a4⟩
    unfold toAcc at hz a1 a2 a3 a4; simp only at hz a1 a2 a3 a4
    refine ⟨by rw [← hn]; exact h1, ?_⟩
    intro k
    show 0 ≤ formUVW r k.val (uvwC f x)
    unfold formUVW
    split <;> linarith

end S2Proofs.C12Dist2
