/-
  C12Dist2.MaxCellAttained — the OTHER side for `Cell.MaxDistanceToCell`: some pair of points of the two exact cells is at least
  the reported value − (205u + 2·2u + 2·8u) apart (so, with `maxDistanceToCell_upper_noclass`, the value is within `2^-45` of the
  TRUE maximum).

  * early return 4: opposite faces and intersecting (transposed) rectangles (float test) ⇒ the exact cell meets the exact ANTIPODAL
    target ⇒ some pair of points is exactly antipodal (chord² = 4);
  * otherwise the result is the value of one of the 32 candidates (`maxFold_cases`; the start value −1 is excluded because every
    candidate is ≥ −205u), which is at most 205u above the TRUE maximum from a float vertex to a float edge (`maxCall_lower`:
    no class condition — in the near branch the candidate approximates an ENDPOINT chord, and the endpoints are arc points),
    attained at a point of that float edge; float vertex within 2u of an exact corner, float edge point within 8u of an exact
    edge point.
-/
import S2Proofs.C12Dist2.MaxCellFinal

set_option linter.unusedSimpArgs false
set_option linter.unusedVariables false

namespace S2Proofs.C12Dist2
open S2 S2.CellID S2.CellM S2.CellEdgeM S2.EdgeNum S2Proofs.F64Order S2Proofs.FloatErr
open S2Proofs.C17Err S2Proofs.C17Err.R3 S2Proofs.C17Pairs S2Proofs.C17 S2Proofs.C08World S2Proofs.C12Dist S2Proofs.C12

/-- one call: the candidate is at most 205u ABOVE the true maximum over the arc — no class condition -/
theorem maxCall_lower {x a b : V3} (h : AntiCallOK x a b) :
    Fin (maxCandidate x a b) ∧ val (maxCandidate x a b) ≤ trueMaxDist2 x a b + maxCallErr ∧ 0 ≤ trueMaxDist2 x a b := by
  obtain ⟨hx, ha, hb, hE, hM⟩ := h
  have hu := uR_nonneg
  have hxl := hx.len_pos
  have hal := ha.len_pos
  have hbl := hb.len_pos
  have hmax := (trueMaxDist2_is_max (x := x) (a := a) (b := b) hx.1 hxl hal hbl).1
  have hPa : OnArc (vecR a) (vecR b) (dirR (vecR a)) := onArc_left' _ _ hal
  have hPb : OnArc (vecR a) (vecR b) (dirR (vecR b)) := by
    obtain ⟨s, t, hs, ht, e, n⟩ := onArc_left' (vecR b) (vecR a) hbl
    refine ⟨t, s, ht, hs, ?_, n⟩
    rw [show dirR (vecR b) = comb (1 / (vecR b).len) (vecR b) 0 (vecR b) from rfl, e]
    unfold comb; simp only [R3.mk.injEq]
    refine ⟨by ring, by ring, by ring⟩
  have ea := hmax _ hPa
  have eb := hmax _ hPb
  have ca : dirChordP x (dirR (vecR a)) = dirChord2 x a := by
    rw [dirChordP_eq_chord, dirChord2_eq x a hxl hal]; rfl
  have cb : dirChordP x (dirR (vecR b)) = dirChord2 x b := by
    rw [dirChordP_eq_chord, dirChord2_eq x b hxl hbl]; rfl
  rw [ca] at ea
  rw [cb] at eb
  have hD : maxEndpointTrue x a b ≤ trueMaxDist2 x a b := max_le ea eb
  have hT0 : 0 ≤ trueMaxDist2 x a b := by
    obtain ⟨_, _, _, da0, _, _⟩ := chordBetween_spec hx ha
    linarith
  unfold maxCallErr
  cases hbr : beyondRightAngle x a b
  · obtain ⟨fm, h0, h4, herr, _, he⟩ := maxEndpoint_spec hx ha hb
    have hmpe := mpe_le fm h0 h4
    rw [maxCandidate_near x a b hbr]
    have := (abs_le.mp herr).2
    exact ⟨fm, by linarith, hT0⟩
  · obtain ⟨fc, he⟩ := maxCandidate_far_bound hx ha hb hE hM hbr
    obtain ⟨_, al⟩ := allowedError_small (unitWithin_negV hx) ha hb hE
    have := (abs_le.mp he).2
    exact ⟨fc, by linarith, hT0⟩

/-- the fold returns (the value of) its start value or the value of one of the candidates -/
theorem maxFold_cases (l : List (V3 × V3 × V3)) : ∀ m : F64, Fin m →
    (∀ t ∈ l, Fin (maxCandidate t.1 t.2.1 t.2.2)) →
    val (l.foldl (fun m t => (updateMaxDistance t.1 t.2.1 t.2.2 m).1) m) = val m ∨
    ∃ t ∈ l, val (l.foldl (fun m t => (updateMaxDistance t.1 t.2.1 t.2.2 m).1) m) = val (maxCandidate t.1 t.2.1 t.2.2) := by
  induction l with
  | nil => intro m _ _; exact Or.inl rfl
  | cons t l ih =>
    intro m fm hall
    simp only [List.foldl_cons]
    obtain ⟨f1, v1⟩ := maxStep (x := t.1) (a := t.2.1) (b := t.2.2) fm (hall t (by simp))
    rcases ih _ f1 (fun t' ht' => hall t' (by simp [ht'])) with h | ⟨t', ht', he⟩
    · rw [h, v1]
      rcases max_cases (val m) (val (maxCandidate t.1 t.2.1 t.2.2)) with ⟨e, _⟩ | ⟨e, _⟩
      · left; exact e
      · right; exact ⟨t, by simp, e⟩
    · right; exact ⟨t', by simp [ht'], he⟩

/-- a float vertex of one valid cell against a float edge of another: a pair (exact corner, exact edge point) is at most
    `2ε + 2η` NEARER than the float pair -/
theorem float_pair_to_exact_max (id id' : CellID) (hv : isValid id = true) (hv' : isValid id' = true) (k j : Fin 4) {P : R3}
    (hP : OnArc (floatV (cellFromCellID id') j) (floatV (cellFromCellID id') (j + 1)) P) :
    ∃ q q' : R3, InCellXYZ (cellFromCellID id) (toAcc q) ∧ InCellXYZ (cellFromCellID id') (toAcc q') ∧
      chordPQ (dirR (floatV (cellFromCellID id) k)) P ≤ chordPQ q q' + (2 * (2 * uR) + 2 * (8 * uR)) := by
  obtain ⟨_, _, _, _, ok, _⟩ := cellOK id hv
  obtain ⟨_, _, _, _, ok', _⟩ := cellOK id' hv'
  have hC := cellQuad_ok (cellFromCellID id).face (rectOf (cellFromCellID id)) ok
  have hT := cellQuad_ok (cellFromCellID id').face (rectOf (cellFromCellID id')) ok'
  have hNC := nearQuad_cell id hv
  have hNT := nearQuad_cell id' hv'
  obtain ⟨Y, hYe, hYn⟩ := hNT.toExact j P hP
  have hYpt := hT.edge_in hYe
  set w := dirR ((cellQuad (cellFromCellID id).face (rectOf (cellFromCellID id))).w k) with hw
  have hwpt : (cellQuad (cellFromCellID id).face (rectOf (cellFromCellID id))).Pt w :=
    ⟨dirR_n2 (hC.wpos k), hC.in_dirR (hC.corner k)⟩
  refine ⟨w, Y, (pt_iff_inCell _ _ ok w).mp hwpt, (pt_iff_inCell _ _ ok' Y).mp hYpt, ?_⟩
  have hV1 : (dirR (floatV (cellFromCellID id) k)).n2 = 1 := dirR_n2 (hNC.vpos k)
  -- V̂·Y ≤ V̂·P + η ,  Y·ŵ ≤ Y·V̂ + ε
  have d1 : (dirR (floatV (cellFromCellID id) k)).dot Y ≤ (dirR (floatV (cellFromCellID id) k)).dot P + 8 * uR :=
    dot_le_of_near hNT.η0 hV1 (by rw [d2_comm]; exact hYn)
  have d2' : Y.dot w ≤ Y.dot (dirR (floatV (cellFromCellID id) k)) + 2 * uR :=
    dot_le_of_near hNC.ε0 hYpt.1 (by rw [d2_comm]; exact hNC.near k)
  unfold chordPQ
  rw [dot_comm Y] at d2'
  rw [dot_comm Y (dirR (floatV (cellFromCellID id) k))] at d2'
  linarith

/-- the float early-return test of `MaxDistanceToCell` implies that the exact cell meets the exact antipodal target -/
theorem not_apartMax_of_early (id id' : CellID) (hv : isValid id = true) (hv' : isValid id' = true)
    (h : ¬ NotEarlyMax (cellFromCellID id) (cellFromCellID id')) :
    ¬ Apart (cellFromCellID id).face (oppFace (cellFromCellID id').face) (rectOf (cellFromCellID id))
      (transposeR (rectOf (cellFromCellID id'))) := by
  obtain ⟨f1, f2, f3, f4, ok, _⟩ := cellOK id hv
  obtain ⟨g1, g2, g3, g4, ok', _⟩ := cellOK id' hv'
  unfold NotEarlyMax at h
  have h' := not_not.mp h
  obtain ⟨hf, hi⟩ := h'
  unfold Apart
  rw [not_not]
  unfold Rect2.intersects at hi
  simp only [Bool.and_eq_true] at hi
  obtain ⟨hu, hv2⟩ := hi
  have key : ∀ {a b a' b' : F64}, Fin a → Fin b → Fin a' → Fin b' → Ivl.intersects (a, b) (a', b') = true →
      val a ≤ val b' ∧ val a' ≤ val b := by
    intro a b a' b' fa fb fa' fb' hint
    unfold Ivl.intersects at hint
    simp only at hint
    by_cases hle : F64.le a a' = true
    · rw [if_pos hle] at hint
      simp only [Bool.and_eq_true] at hint
      have h1 := (le_val fa fa').mp hle
      have h2 := (le_val fa' fb).mp hint.1
      have h3 := (le_val fa' fb').mp hint.2
      exact ⟨by linarith, h2⟩
    · rw [if_neg hle] at hint
      simp only [Bool.and_eq_true] at hint
      have h1 : val a' < val a := by
        by_contra hc
        exact hle ((le_val fa fa').mpr (not_lt.mp hc))
      have h2 := (le_val fa fb').mp hint.1
      have h3 := (le_val fa fb).mp hint.2
      exact ⟨h2, by linarith⟩
  obtain ⟨a1, a2⟩ := key (a := (cellFromCellID id).uv.1.1) (b := (cellFromCellID id).uv.1.2)
    (a' := (cellFromCellID id').uv.2.1) (b' := (cellFromCellID id').uv.2.2) f1 f2 g3 g4 hu
  obtain ⟨a3, a4⟩ := key (a := (cellFromCellID id).uv.2.1) (b := (cellFromCellID id).uv.2.2)
    (a' := (cellFromCellID id').uv.1.1) (b' := (cellFromCellID id').uv.1.2) f3 f4 g1 g2 hv2
  exact ⟨hf, a1, a2, a3, a4⟩

/-- the antipode of an exact S2 cell is the exact S2 cell of the opposite face with the transposed rectangle -/
theorem antipodal_inCell {f : Nat} (hf : f < 6) (r : RRect) (ok : r.OK) (x : R3) :
    InCell (transposeR r) (uvwR (oppFace f) (toAcc (negR x))) ↔ InCell r (uvwR f (toAcc x)) := by
  rw [← pt_iff_inCell (oppFace f) (transposeR r) (transposeR_ok ok), ← pt_iff_inCell f r ok]
  unfold Quad.Pt
  rw [cellQuad_opp_in hf, negQuad_in, negR_negR, negR_n2]

/-- `¬Apart (cell, antipodal target)` ⇒ some point of the cell is antipodal to a point of the target -/
theorem not_apartMax_dist_four {f f' : Nat} (hf' : f' < 6) {r r' : RRect} (ok : r.OK) (ok' : r'.OK)
    (h : ¬ Apart f (oppFace f') r (transposeR r')) :
    ∃ q q' : R3, InCell r (uvwR f (toAcc q)) ∧ InCell r' (uvwR f' (toAcc q')) ∧ chordPQ q q' = 4 := by
  obtain ⟨q, q'', hq, hq'', e⟩ := not_apart_dist_zero ok (transposeR_ok ok') h
  refine ⟨q, negR q'', hq, ?_, ?_⟩
  · rw [← antipodal_inCell hf' r' ok', negR_negR]; exact hq''
  · rw [chordPQ_negR, e]; norm_num

/-- **ATTAINED for `MaxDistanceToCell`**: some pair of points of the two exact cells is at least the reported value minus
    `205u + 2ε + 2η` apart — every branch, no class condition -/
theorem maxDistanceToCell_attained (id id' : CellID) (hv : isValid id = true) (hv' : isValid id' = true)
    (hcalls : ∀ t ∈ pairCalls (vertices (cellFromCellID id)) (vertices (cellFromCellID id')), AntiCallOK t.1 t.2.1 t.2.2) :
    ∃ q q' : R3, InCellXYZ (cellFromCellID id) (toAcc q) ∧ InCellXYZ (cellFromCellID id') (toAcc q') ∧
      val (maxDistanceToCell (cellFromCellID id) (cellFromCellID id')) ≤ chordPQ q q'
        + (maxCallErr + 2 * (2 * uR) + 2 * (8 * uR)) := by
  set c := cellFromCellID id with hcdef
  set t := cellFromCellID id' with htdef
  obtain ⟨_, _, _, _, ok, _⟩ := cellOK id hv
  obtain ⟨_, _, _, _, ok', hf'⟩ := cellOK id' hv'
  have hu := uR_nonneg
  have hE0 : (0 : ℝ) ≤ maxCallErr := by unfold maxCallErr; positivity
  by_cases hne : NotEarlyMax c t
  · have hval : maxDistanceToCell c t =
        (pairCalls (vertices c) (vertices t)).foldl (fun m t => (updateMaxDistance t.1 t.2.1 t.2.2 m).1) negativeChord := by
      unfold maxDistanceToCell
      simp only
      rw [if_neg]
      intro h
      apply hne
      simp only [Bool.and_eq_true, beq_iff_eq] at h
      exact h
    have hvs : vertices c = [vertex c 0, vertex c 1, vertex c 2, vertex c 3] := rfl
    have hvt : vertices t = [vertex t 0, vertex t 1, vertex t 2, vertex t 3] := rfl
    rw [hval]
    rw [hvs, hvt] at hcalls ⊢
    have hcases := fun tt (h : tt ∈ pairCalls [vertex c 0, vertex c 1, vertex c 2, vertex c 3]
        [vertex t 0, vertex t 1, vertex t 2, vertex t 3]) => mem_pairCalls_cases (vertex c) (vertex t) (t := tt) h
    have hfin : ∀ tt ∈ pairCalls [vertex c 0, vertex c 1, vertex c 2, vertex c 3]
        [vertex t 0, vertex t 1, vertex t 2, vertex t 3], Fin (maxCandidate tt.1 tt.2.1 tt.2.2) :=
      fun tt htt => (maxCall_lower (hcalls tt htt)).1
    -- the start value −1 is not the result
    have hup : ∀ tt ∈ pairCalls [vertex c 0, vertex c 1, vertex c 2, vertex c 3]
        [vertex t 0, vertex t 1, vertex t 2, vertex t 3], CallUpper tt.1 tt.2.1 tt.2.2 := by
      intro tt htt
      obtain ⟨hx, ha, hb, hE, hM⟩ := hcalls tt htt
      rcases hcases tt htt with ⟨k, j, rfl⟩ | ⟨j, k, rfl⟩
      · exact maxCall_upper_short hx ha hb hE hM (cell_edge_short id' hv' j)
      · exact maxCall_upper_short hx ha hb hE hM (cell_edge_short id hv k)
    obtain ⟨fR, _, hdom⟩ := maxFold _ negativeChord fin_negativeChord hup
    have hneg1 : val negativeChord = -1 := by
      have h : S2.Exact.toInt negativeChord = (-1) * 2 ^ 1074 := by decide +kernel
      rw [val_of_toInt (j := 0) h (by norm_num)]; norm_num
    rcases maxFold_cases _ negativeChord fin_negativeChord hfin with h | ⟨tt, htt, he⟩
    · exfalso
      have hm0 := mem_pairCalls_ab (vertex c) (vertex t) 0 0
      have h1 := hdom _ hm0
      have h2 := (maxCall_lower (hcalls _ hm0)).2.2
      rw [h, hneg1] at h1
      have : maxCallErr ≤ 1 / 2 := by unfold maxCallErr uR; norm_num
      linarith
    · rw [he]
      have hcall := hcalls tt htt
      obtain ⟨_, hlow, _⟩ := maxCall_lower hcall
      obtain ⟨P, hP, hPe⟩ := (trueMaxDist2_is_max (x := tt.1) (a := tt.2.1) (b := tt.2.2) hcall.hx.1 hcall.hx.len_pos
        hcall.ha.len_pos hcall.hb.len_pos).2
      rw [dirChordP_eq_chord] at hPe
      rcases hcases tt htt with ⟨k, j, rfl⟩ | ⟨j, k, rfl⟩
      · simp only at hP hPe hlow ⊢
        have hP' : OnArc (floatV t j) (floatV t (j + 1)) P := by rw [floatV_succ]; exact hP
        obtain ⟨q, q', hq, hq', hle⟩ := float_pair_to_exact_max id id' hv hv' k j hP'
        refine ⟨q, q', hq, hq', ?_⟩
        have : chordPQ (dirR (floatV c k)) P = chordPQ (dirR (vecR (vertex c k.val))) P := rfl
        linarith
      · simp only at hP hPe hlow ⊢
        have hP' : OnArc (floatV c k) (floatV c (k + 1)) P := by rw [floatV_succ]; exact hP
        obtain ⟨q', q, hq', hq, hle⟩ := float_pair_to_exact_max id' id hv' hv j k hP'
        refine ⟨q, q', hq, hq', ?_⟩
        have : chordPQ (dirR (floatV t j)) P = chordPQ (dirR (vecR (vertex t j.val))) P := rfl
        rw [chordPQ_comm q q']
        linarith
  · have hval : maxDistanceToCell c t = F64.four := by
      unfold maxDistanceToCell
      simp only
      rw [if_pos]
      unfold NotEarlyMax at hne
      have := not_not.mp hne
      simp only [Bool.and_eq_true, beq_iff_eq]
      exact this
    obtain ⟨q, q', hq, hq', h4⟩ := not_apartMax_dist_four hf' ok ok' (not_apartMax_of_early id id' hv hv' hne)
    refine ⟨q, q', hq, hq', ?_⟩
    rw [hval, S2Proofs.C12Dist.VertexErr.val_four, h4]
    linarith

end S2Proofs.C12Dist2
