/-
  C12Dist2.EdgeAttained2 — the branch `return 0` of the crossing loop of `Cell.DistanceToEdge`

      crosser := NewChainEdgeCrosser(a, b, c.Vertex(3))
      for i := 0; i < 4; i++ { if crosser.ChainCrossingSign(c.Vertex(i)) != DoNotCross { return 0 } }

  is RIGHT up to `2^-100` (squared chord): if the loop returns, some point of the EXACT cell is within `2^-100` of a point of
  the arc `ab`.  This removes the proviso of `distanceToEdge_attained_partial` (c12dist2), except for one class.

  Chain
    * C03 (`anyCrossing_eq_false_iff`): the loop returns ⇔ one of the four values `exactCrossing a b V_k V_{k+1}` of the exact
      specification is not `DoNotCross` (k = 3, 0, 1, 2; `V_k = c.Vertex(k)` the FLOAT vertices);
    * value `MaybeCross` (0): an endpoint of `ab` is Go-`==` to a float vertex, and the float vertex is within `2u` of the exact
      corner of the cell (`nearQuad_cell`): chord² ≤ 4u² = 2^-104;
    * value `Cross` (+1) with the two great circles different (`CirclesDifferZ`): the four exact signs are `RobustSign`s (C02), they
      satisfy the sign pattern of c17pairs2's `crosses_meets`, so the CLOSED arcs `ab` and `V_k V_{k+1}` have a common point — whatever
      determinants vanish (symbolic perturbation included); the float edge is within `8u` of the exact edge (`NearQuad.toExact`),
      whose points are cell points: chord² ≤ 64u² = 2^-100.
  NOT covered (explicit hypothesis `CrossCirclesDiffer`): a `Cross` answer for a cell edge whose two FLOAT vertices lie on the great
  circle of `ab` (all four determinants vanish, the answer is purely the symbolic perturbation's).
-/
import S2Proofs.C12Dist2.EdgeAttained
import S2Proofs.C12Dist2.MaxAttained
import S2Proofs.C17Pairs.CrossWeak

set_option linter.unusedSimpArgs false
set_option linter.unusedVariables false

namespace S2Proofs.C12Dist2
open S2 S2.Exact S2.Pred S2.Crossing S2.Crosser S2.CellID S2.CellM S2.CellEdgeM S2.EdgeNum
open S2Proofs.F64Order S2Proofs.FloatErr S2Proofs.C02Err S2Proofs.C03 S2Proofs.ExactLaws
open S2Proofs.C17Err S2Proofs.C17Err.R3 S2Proofs.C17Pairs S2Proofs.C17 S2Proofs.C08World S2Proofs.C12Dist S2Proofs.C12

/-! ## 1. the sign pattern of a `Cross` answer on different great circles ⇒ the closed arcs meet -/

/-- the body of c17pairs2's `crosses_meets`, with the three sign relations as hypotheses (so that it applies to the exact
    specification `exactCrossing` as well as to the float `CrossingSign`) -/
theorem signs_meet {a0 a1 b0 b1 : V3} (ha0 : Unitish a0) (ha1 : Unitish a1) (hb0 : Unitish b0) (hb1 : Unitish b1)
    (hd : CirclesDifferZ a0 a1 b0 b1)
    (s1 : robustSign a0 a1 b1 = -(robustSign a0 a1 b0)) (s2 : robustSign b0 b1 a1 = robustSign a0 a1 b0)
    (s3 : robustSign b0 b1 a0 = -(robustSign a0 a1 b0)) : ArcsMeet a0 a1 b0 b1 := by
  obtain ⟨w0, z0⟩ := rs_weak ha0 ha1 hb0
  obtain ⟨w1, z1⟩ := rs_weak ha0 ha1 hb1
  obtain ⟨w2, z2⟩ := rs_weak hb0 hb1 ha1
  obtain ⟨w3, z3⟩ := rs_weak hb0 hb1 ha0
  rw [s1] at w1 z1
  rw [s2] at w2 z2
  rw [s3] at w3 z3
  set s := robustSign a0 a1 b0 with hs
  have c1 : (ofV3 b0).dot ((ofV3 a0).cross (ofV3 a1)) = det3 (ofV3 a0) (ofV3 a1) (ofV3 b0) := by
    unfold det3 IV3.dot IV3.cross; ring
  have c2 : (ofV3 b1).dot ((ofV3 a0).cross (ofV3 a1)) = det3 (ofV3 a0) (ofV3 a1) (ofV3 b1) := by
    unfold det3 IV3.dot IV3.cross; ring
  have c3 : (ofV3 a0).dot ((ofV3 b0).cross (ofV3 b1)) = det3 (ofV3 b0) (ofV3 b1) (ofV3 a0) := by
    unfold det3 IV3.dot IV3.cross; ring
  have c4 : (ofV3 a1).dot ((ofV3 b0).cross (ofV3 b1)) = det3 (ofV3 b0) (ofV3 b1) (ofV3 a1) := by
    unfold det3 IV3.dot IV3.cross; ring
  rw [← c1] at w0 z0
  rw [← c2] at w1 z1
  rw [← c4] at w2 z2
  rw [← c3] at w3 z3
  set P0 := (ofV3 b0).dot ((ofV3 a0).cross (ofV3 a1)) with hP0
  set P1 := (ofV3 b1).dot ((ofV3 a0).cross (ofV3 a1)) with hP1
  set Q0 := (ofV3 a0).dot ((ofV3 b0).cross (ofV3 b1)) with hQ0
  set Q1 := (ofV3 a1).dot ((ofV3 b0).cross (ofV3 b1)) with hQ1
  have hWr := circlesDiffer_real hd
  have hS3 : (0 : ℝ) < (2 ^ 1074) ^ 3 := by positivity
  -- the perturbed sign is not 0
  have hs0 : s ≠ 0 := by
    intro h0
    have e0 := z0 h0
    have e1 := z1 (by rw [h0]; rfl)
    have e2 := z2 h0
    have e3 := z3 (by rw [h0]; rfl)
    have hW0 : (((ofV3 a0).cross (ofV3 a1)).cross ((ofV3 b0).cross (ofV3 b1))).norm2 = 0 := by
      have ex : ((ofV3 a0).cross (ofV3 a1)).cross ((ofV3 b0).cross (ofV3 b1))
          = ⟨Q0 * (ofV3 a1).x - Q1 * (ofV3 a0).x, Q0 * (ofV3 a1).y - Q1 * (ofV3 a0).y,
             Q0 * (ofV3 a1).z - Q1 * (ofV3 a0).z⟩ := by
        rw [hQ0, hQ1]
        unfold IV3.dot IV3.cross
        simp only [IV3.mk.injEq]
        refine ⟨by ring, by ring, by ring⟩
      rw [ex, e2, e3]
      unfold IV3.norm2 IV3.dot
      ring
    unfold CirclesDifferZ at hd
    omega
  have hσ : (-(s : ℝ)) ≠ 0 := by
    intro h
    apply hs0
    have : (s : ℝ) = 0 := by linarith
    exact_mod_cast this
  unfold ArcsMeet
  apply weak_cross_meets (σ := -(s : ℝ)) hσ _ _ _ _ hWr
  · rw [det_int b1 a0 a1]
    have : (0 : ℝ) ≤ ((-s * P1 : ℤ) : ℝ) := by exact_mod_cast w1
    push_cast at this
    have e : -(s : ℝ) * ((P1 : ℝ) / (2 ^ 1074) ^ 3) = (-(s : ℝ) * (P1 : ℝ)) / (2 ^ 1074) ^ 3 := by ring
    rw [e]; exact div_nonneg this hS3.le
  · rw [det_int b0 a0 a1]
    have : (0 : ℝ) ≤ ((s * P0 : ℤ) : ℝ) := by exact_mod_cast w0
    push_cast at this
    have e : -(s : ℝ) * ((P0 : ℝ) / (2 ^ 1074) ^ 3) = -(((s : ℝ) * (P0 : ℝ)) / (2 ^ 1074) ^ 3) := by ring
    rw [e]
    have := div_nonneg this hS3.le
    linarith
  · rw [det_int a1 b0 b1]
    have : (0 : ℝ) ≤ ((s * Q1 : ℤ) : ℝ) := by exact_mod_cast w2
    push_cast at this
    have e : -(s : ℝ) * ((Q1 : ℝ) / (2 ^ 1074) ^ 3) = -(((s : ℝ) * (Q1 : ℝ)) / (2 ^ 1074) ^ 3) := by ring
    rw [e]
    have := div_nonneg this hS3.le
    linarith
  · rw [det_int a0 b0 b1]
    have : (0 : ℝ) ≤ ((-s * Q0 : ℤ) : ℝ) := by exact_mod_cast w3
    push_cast at this
    have e : -(s : ℝ) * ((Q0 : ℝ) / (2 ^ 1074) ^ 3) = (-(s : ℝ) * (Q0 : ℝ)) / (2 ^ 1074) ^ 3 := by ring
    rw [e]; exact div_nonneg this hS3.le

/-- the three values of the exact specification -/
theorem exactCrossing_cases (a b c d : V3) :
    (sharesEndpoint a b c d = true ∧ exactCrossing a b c d = 0) ∨
    (sharesEndpoint a b c d = false ∧ fourSameWith exactDecision a b c d = true ∧ exactCrossing a b c d = 1) ∨
    exactCrossing a b c d = -1 := by
  cases hs : sharesEndpoint a b c d
  · by_cases h4 : fourSameWith exactDecision a b c d = true
    · exact Or.inr (Or.inl ⟨rfl, h4, exactCrossing_one hs h4⟩)
    · exact Or.inr (Or.inr (exactCrossing_neg_one hs h4))
  · exact Or.inl ⟨rfl, exactCrossing_of_shares hs⟩

/-- **`Cross` of the exact specification on different great circles ⇒ the closed arcs have a common point**, whatever
    determinants vanish -/
theorem exactCross_meets {a b c d : V3} (ha : Unitish a) (hb : Unitish b) (hc : Unitish c) (hd : Unitish d)
    (hcirc : CirclesDifferZ a b c d) (h4 : fourSameWith exactDecision a b c d = true) : ArcsMeet a b c d := by
  obtain ⟨n0, e1, e2, e3⟩ := (fourSame_iff_exact ha.1 hb.1 hc.1 hd.1).1 h4
  have r1 := S2Proofs.C02StableErr.robustSign_exact a b c ha hb hc
  have r2 := S2Proofs.C02StableErr.robustSign_exact a b d ha hb hd
  have r3 := S2Proofs.C02StableErr.robustSign_exact c d b hc hd hb
  have r4 := S2Proofs.C02StableErr.robustSign_exact c d a hc hd ha
  apply signs_meet ha hb hc hd hcirc
  · rw [r2, r1]; exact e2
  · rw [r3, r1]; exact e1
  · rw [r4, r1]; exact e3

/-! ## 2. the loop returns ⇒ one of the four exact values is not `DoNotCross` -/

theorem anyCrossing_true_cases (c : Cell) {a b : V3} (ha : Unitish a) (hb : Unitish b)
    (hv : ∀ k, k < 4 → Unitish (vertex c k))
    (h : anyCrossing (Crosser.initChain a b (vertex c 3)) (vertices c) = true) :
    ∃ k : Fin 4, exactCrossing a b (vertex c k.val) (vertex c (k + 1).val) ≠ -1 := by
  by_contra hall
  push_neg at hall
  have u0 := hv 0 (by norm_num)
  have u1 := hv 1 (by norm_num)
  have u2 := hv 2 (by norm_num)
  have u3 := hv 3 (by norm_num)
  have hf := (anyCrossing_eq_false_iff ha hb u3 u0 u1 u2 u3).2 ⟨hall 3, hall 0, hall 1, hall 2⟩
  have hvs : vertices c = [vertex c 0, vertex c 1, vertex c 2, vertex c 3] := rfl
  rw [hvs, hf] at h
  cases h

/-- every float vertex of a valid cell is `Unitish` (C02/C03's point class) — no hypothesis -/
theorem vertex_unitish (id : CellID) (hv : isValid id = true) (k : Nat) : Unitish (vertex (cellFromCellID id) k) := by
  obtain ⟨f3, hpos, hlen, _⟩ := vertex_dir id hv k
  apply unitish_of_unitWithin40
  rw [vecR_len] at hlen
  obtain ⟨l1, l2⟩ := abs_le.mp hlen
  have hu : (10 : ℝ) * uR ≤ 1 / 2 ^ 40 := by unfold uR; norm_num
  have h0 : (0 : ℝ) ≤ 1 - 1 / 2 ^ 40 := by norm_num
  refine ⟨f3, ?_, ?_⟩
  · rw [← C17Err.len_sq]
    nlinarith
  · rw [← C17Err.len_sq]
    nlinarith

/-- Go's `==` on finite vectors is equality of the real vectors -/
theorem vecR_eq_of_feq {x y : V3} (hx : Fin3 x) (hy : Fin3 y) (h : V3.feq x y = true) : vecR x = vecR y := by
  unfold V3.feq at h
  simp only [Bool.and_eq_true] at h
  obtain ⟨⟨h1, h2⟩, h3⟩ := h
  have e1 := (feq_iff hx.1 hy.1).1 h1
  have e2 := (feq_iff hx.2.1 hy.2.1).1 h2
  have e3 := (feq_iff hx.2.2 hy.2.2).1 h3
  unfold vecR FloatErr.val
  rw [e1, e2, e3]

/-! ## 3. the branch -/

/-- the class that is NOT covered: the exact specification answers `Cross` for a cell edge whose two float vertices lie on the
    great circle of `ab`.  `CrossCirclesDiffer` excludes it (decidable: integer arithmetic on the six float vectors). -/
def CrossCirclesDiffer (c : Cell) (a b : V3) : Prop :=
  ∀ k : Fin 4, exactCrossing a b (vertex c k.val) (vertex c (k + 1).val) = 1 →
    CirclesDifferZ a b (vertex c k.val) (vertex c (k + 1).val)

instance (c : Cell) (a b : V3) : Decidable (CrossCirclesDiffer c a b) := by unfold CrossCirclesDiffer; infer_instance

/-- the stronger, simpler condition: no float cell edge lies on the great circle of `ab` -/
def EdgeCirclesDiffer (c : Cell) (a b : V3) : Prop :=
  ∀ k : Fin 4, CirclesDifferZ a b (vertex c k.val) (vertex c (k + 1).val)

instance (c : Cell) (a b : V3) : Decidable (EdgeCirclesDiffer c a b) := by unfold EdgeCirclesDiffer; infer_instance

theorem crossCirclesDiffer_of_edge {c : Cell} {a b : V3} (h : EdgeCirclesDiffer c a b) : CrossCirclesDiffer c a b :=
  fun k _ => h k

/-- **the crossing loop of `DistanceToEdge` returned ⇒ a point of the exact cell is within `2^-100` (squared chord) of a point of
    the arc** — `a`, `b` unit-ish, every valid cell; only hypothesis beyond the domain: `CrossCirclesDiffer`. -/
theorem crossing_loop_attained (id : CellID) (hv : isValid id = true) {a b : V3} (ha : Unitish a) (hb : Unitish b)
    (hpa : 0 < (vecR a).len) (hpb : 0 < (vecR b).len)
    (hcirc : CrossCirclesDiffer (cellFromCellID id) a b)
    (h : anyCrossing (Crosser.initChain a b (vertex (cellFromCellID id) 3)) (vertices (cellFromCellID id)) = true) :
    ∃ q r : R3, InCellXYZ (cellFromCellID id) (toAcc q) ∧ OnArc (vecR a) (vecR b) r ∧ chordPQ q r ≤ 1 / 2 ^ 100 := by
  obtain ⟨_, _, _, _, ok, _⟩ := cellOK id hv
  set c := cellFromCellID id with hc
  have hC := cellQuad_ok c.face (rectOf c) ok
  have hN := nearQuad_cell id hv
  rw [← hc] at hN
  have hVu : ∀ k, k < 4 → Unitish (vertex c k) := fun k _ => vertex_unitish id hv k
  obtain ⟨k, hk⟩ := anyCrossing_true_cases c ha hb hVu h
  have fk : ∀ j : Fin 4, floatV c j = vecR (vertex c j.val) := fun j => rfl
  -- an endpoint `e` of `ab` whose real vector is a float vertex
  have viaVertex : ∀ (j : Fin 4) (r : R3), OnArc (vecR a) (vecR b) r → r = dirR (floatV c j) →
      ∃ q r : R3, InCellXYZ c (toAcc q) ∧ OnArc (vecR a) (vecR b) r ∧ chordPQ q r ≤ 1 / 2 ^ 100 := by
    intro j r hr hrj
    set w := dirR ((cellQuad c.face (rectOf c)).w j) with hw
    have hw1 : w.n2 = 1 := dirR_n2 (hC.wpos j)
    have hwpt : (cellQuad c.face (rectOf c)).Pt w := ⟨hw1, hC.in_dirR (hC.corner j)⟩
    refine ⟨w, r, (pt_iff_inCell _ _ ok w).mp hwpt, hr, ?_⟩
    have hnear := hN.near j
    rw [← hrj, d2_unit (onArc_n2 hr) hw1] at hnear
    rw [chordPQ_comm]
    have : (2 * uR) ^ 2 ≤ 1 / 2 ^ 100 := by unfold uR; norm_num
    linarith
  rcases exactCrossing_cases a b (vertex c k.val) (vertex c (k + 1).val) with ⟨hs, _⟩ | ⟨_, h4, h1⟩ | hneg
  · -- MaybeCross: a shared endpoint
    unfold sharesEndpoint at hs
    simp only [Bool.or_eq_true] at hs
    have f0 := (hVu k.val k.isLt).1
    have f1 := (hVu (k + 1).val (k + 1).isLt).1
    rcases hs with ((hs | hs) | hs) | hs
    · exact viaVertex k _ (onArc_left' _ _ hpa) (by rw [fk, vecR_eq_of_feq ha.1 f0 hs]; rfl)
    · exact viaVertex (k + 1) _ (onArc_left' _ _ hpa) (by rw [fk, vecR_eq_of_feq ha.1 f1 hs]; rfl)
    · exact viaVertex k _ (onArc_right' _ _ hpb) (by rw [fk, vecR_eq_of_feq hb.1 f0 hs]; rfl)
    · exact viaVertex (k + 1) _ (onArc_right' _ _ hpb) (by rw [fk, vecR_eq_of_feq hb.1 f1 hs]; rfl)
  · -- Cross: the closed arcs meet; the float edge is within 8u of the exact edge
    have hm := exactCross_meets ha hb (hVu k.val k.isLt) (hVu (k + 1).val (k + 1).isLt) (hcirc k h1) h4
    obtain ⟨X, hXa, hXe⟩ := hm
    obtain ⟨Y, hY, hd⟩ := hN.toExact k X hXe
    have hYpt := hC.edge_in hY
    refine ⟨Y, X, (pt_iff_inCell _ _ ok Y).mp hYpt, hXa, ?_⟩
    rw [d2_unit (onArc_n2 hXa) hYpt.1] at hd
    rw [chordPQ_comm]
    have : (8 * uR) ^ 2 ≤ 1 / 2 ^ 100 := by unfold uR; norm_num
    linarith
  · exact absurd hneg hk

/-! ## 4. what the remaining class is, in terms of determinants -/

/-- **sufficient for `CirclesDifferZ`**: the edge `ab` is not degenerate (`a × b ≠ 0`: implied by `EdgeOK`) and one of its endpoints
    is off the plane of `c`, `d`.  So `¬ CirclesDifferZ a b V_k V_{k+1}` on the domain means: BOTH `a` and `b` are exactly coplanar
    with the two float vertices (and the centre of the sphere). -/
theorem circlesDiffer_of_det {a b c d : V3} (hab : 0 < ((ofV3 a).cross (ofV3 b)).norm2)
    (h : det3 (ofV3 c) (ofV3 d) (ofV3 a) ≠ 0 ∨ det3 (ofV3 c) (ofV3 d) (ofV3 b) ≠ 0) : CirclesDifferZ a b c d := by
  unfold CirclesDifferZ
  by_contra hW
  have hW0 : (((ofV3 a).cross (ofV3 b)).cross ((ofV3 c).cross (ofV3 d))).norm2 = 0 := by
    have : 0 ≤ (((ofV3 a).cross (ofV3 b)).cross ((ofV3 c).cross (ofV3 d))).norm2 := by
      unfold IV3.norm2 IV3.dot
      exact add_nonneg (mul_self_nonneg _) (add_nonneg (mul_self_nonneg _) (mul_self_nonneg _))
    omega
  generalize ofV3 a = A at *
  generalize ofV3 b = B at *
  generalize ofV3 c = C at *
  generalize ofV3 d = D at *
  obtain ⟨a1, a2, a3⟩ := A
  obtain ⟨b1, b2, b3⟩ := B
  obtain ⟨c1, c2, c3⟩ := C
  obtain ⟨d1, d2, d3⟩ := D
  simp only [IV3.norm2, IV3.dot, IV3.cross, det3] at hab h hW0
  -- the three components of W vanish
  have sq0 : ∀ x y z : ℤ, x * x + (y * y + z * z) = 0 → x = 0 ∧ y = 0 ∧ z = 0 := by
    intro x y z hxyz
    have hx := mul_self_nonneg x
    have hy := mul_self_nonneg y
    have hz := mul_self_nonneg z
    refine ⟨?_, ?_, ?_⟩
    · exact mul_self_eq_zero.mp (by omega)
    · exact mul_self_eq_zero.mp (by omega)
    · exact mul_self_eq_zero.mp (by omega)
  obtain ⟨w1, w2, w3⟩ := sq0 _ _ _ hW0
  set n1 := a2 * b3 - a3 * b2 with hn1
  set n2 := a3 * b1 - a1 * b3 with hn2
  set n3 := a1 * b2 - a2 * b1 with hn3
  set Q0 := c1 * (d2 * a3 - d3 * a2) + (c2 * (d3 * a1 - d1 * a3) + c3 * (d1 * a2 - d2 * a1)) with hQ0
  set Q1 := c1 * (d2 * b3 - d3 * b2) + (c2 * (d3 * b1 - d1 * b3) + c3 * (d1 * b2 - d2 * b1)) with hQ1
  have p1 : Q0 * n1 = 0 := by rw [hQ0, hn1]; linear_combination (-a3) * w2 + a2 * w3
  have p2 : Q0 * n2 = 0 := by rw [hQ0, hn2]; linear_combination (-a1) * w3 + a3 * w1
  have p3 : Q0 * n3 = 0 := by rw [hQ0, hn3]; linear_combination (-a2) * w1 + a1 * w2
  have r1 : Q1 * n1 = 0 := by rw [hQ1, hn1]; linear_combination (-b3) * w2 + b2 * w3
  have r2 : Q1 * n2 = 0 := by rw [hQ1, hn2]; linear_combination (-b1) * w3 + b3 * w1
  have r3 : Q1 * n3 = 0 := by rw [hQ1, hn3]; linear_combination (-b2) * w1 + b1 * w2
  have key : ∀ Q : ℤ, Q * n1 = 0 → Q * n2 = 0 → Q * n3 = 0 → Q = 0 := by
    intro Q q1 q2 q3
    by_contra hQ
    have e1 : n1 = 0 := (mul_eq_zero.mp q1).resolve_left hQ
    have e2 : n2 = 0 := (mul_eq_zero.mp q2).resolve_left hQ
    have e3 : n3 = 0 := (mul_eq_zero.mp q3).resolve_left hQ
    rw [e1, e2, e3] at hab
    simp at hab
  rcases h with h | h
  · exact h (key Q0 p1 p2 p3)
  · exact h (key Q1 r1 r2 r3)

set_option exponentiation.threshold 3000 in
/-- `EdgeOK a b` (c17err: `|2 a×b|² ≥ 2^-68`) ⇒ the exact cross product is not 0 -/
theorem edge_cross_pos {a b : V3} (h : C17Err.EdgeOK a b) : 0 < ((ofV3 a).cross (ofV3 b)).norm2 := by
  unfold EdgeOK at h
  obtain ⟨c1, c2, c3⟩ := vC_two a b
  have e : (vC a b).n2 = 4 * (((ofV3 a).cross (ofV3 b)).norm2 : ℝ) / ((2 ^ 1074) ^ 4) := by
    unfold R3.n2 R3.dot
    rw [c1, c2, c3]
    unfold R3.cross vecR IV3.norm2 IV3.dot IV3.cross ofV3 FloatErr.val
    push_cast
    field_simp
    ring
  rw [e] at h
  by_contra hn
  have hN : ((((ofV3 a).cross (ofV3 b)).norm2 : ℤ) : ℝ) ≤ 0 := by exact_mod_cast (not_lt.mp hn)
  have h1 : 4 * ((((ofV3 a).cross (ofV3 b)).norm2 : ℤ) : ℝ) / ((2 ^ 1074) ^ 4) ≤ 0 :=
    div_nonpos_of_nonpos_of_nonneg (by linarith) (by positivity)
  have h2 : (0 : ℝ) < 1 / 2 ^ 68 := by positivity
  linarith

/-- the remaining class of `crossing_loop_attained`, spelled out: if `ab` is not degenerate and for every cell edge at least one
    of `a`, `b` is off the plane of its two float vertices, nothing is excluded -/
theorem edgeCirclesDiffer_of_det {c : Cell} {a b : V3} (hab : 0 < ((ofV3 a).cross (ofV3 b)).norm2)
    (h : ∀ k : Fin 4, det3 (ofV3 (vertex c k.val)) (ofV3 (vertex c (k + 1).val)) (ofV3 a) ≠ 0 ∨
      det3 (ofV3 (vertex c k.val)) (ofV3 (vertex c (k + 1).val)) (ofV3 b) ≠ 0) : EdgeCirclesDiffer c a b :=
  fun k => circlesDiffer_of_det hab (h k)

/-- in that branch the code returns exactly `0` -/
theorem distanceToEdge_crossing_value (c : Cell) (a b : V3)
    (hz : ¬ F64.feq (minChord (distance c a) [distance c b]) CellM.fzero = true)
    (hany : anyCrossing (Crosser.initChain a b (vertex c 3)) (vertices c) = true) :
    distanceToEdge c a b = CellM.fzero := by
  unfold distanceToEdge; simp only; rw [if_neg hz, hany]; simp

/-- **ATTAINED for `DistanceToEdge`, every branch** — the proviso of `distanceToEdge_attained_partial` is gone; what remains is the
    class `¬ CrossCirclesDiffer` (a `Cross` answer for a float cell edge on the great circle of `ab`). -/
theorem distanceToEdge_attained2 (id : CellID) (hv : isValid id = true) (a b : V3)
    (ha : C17.UnitPt a) (hb : C17.UnitPt b) (hE : EdgeOK a b)
    (hV : ∀ k, k < 4 → VertexCallOK (vertex (cellFromCellID id) k) a b)
    (hcirc : CrossCirclesDiffer (cellFromCellID id) a b) :
    ∃ q r : R3, InCellXYZ (cellFromCellID id) (toAcc q) ∧ OnArc (vecR a) (vecR b) r ∧
      chordPQ q r ≤ val (distanceToEdge (cellFromCellID id) a b) + 1 / 2 ^ 45 := by
  by_cases hz : F64.feq (minChord (distance (cellFromCellID id) a) [distance (cellFromCellID id) b]) CellM.fzero = true
  · exact distanceToEdge_attained_partial id hv a b ha hb hE hV (Or.inl hz)
  · cases hany : anyCrossing (Crosser.initChain a b (vertex (cellFromCellID id) 3)) (vertices (cellFromCellID id))
    · exact distanceToEdge_attained_partial id hv a b ha hb hE hV (Or.inr hany)
    · obtain ⟨q, r, hq, hr, hle⟩ := crossing_loop_attained id hv (unitish_of_unitPt ha) (unitish_of_unitPt hb)
        ha.len_pos hb.len_pos hcirc hany
      refine ⟨q, r, hq, hr, ?_⟩
      rw [distanceToEdge_crossing_value _ a b hz hany]
      have h0 : val CellM.fzero = 0 := (zero_val false).2
      rw [h0]
      have : (1 : ℝ) / 2 ^ 100 ≤ 0 + 1 / 2 ^ 45 := by norm_num
      linarith

/-- `MaxDistanceToEdge` from an "attained" statement for the antipodal edge in the far branch (the proof of c12max's
    `maxDistanceToEdge_attained_partial`, with the far-branch input as a hypothesis) -/
theorem maxDistanceToEdge_attained_of (id : CellID) (hv : isValid id = true) (a b : V3)
    (ha : C17.UnitPt a) (hb : C17.UnitPt b) (hE : EdgeOK a b)
    (hV : ∀ k, k < 4 → VertexCallOK (vertex (cellFromCellID id) k) (negV a) (negV b))
    (hatt : ¬ F64.le (endMax (cellFromCellID id) a b) F64.two = true →
      ∃ q r' : R3, InCellXYZ (cellFromCellID id) (toAcc q) ∧ OnArc (vecR (negV a)) (vecR (negV b)) r' ∧
        chordPQ q r' ≤ val (distanceToEdge (cellFromCellID id) (negV a) (negV b)) + 1 / 2 ^ 45) :
    ∃ q r : R3, InCellXYZ (cellFromCellID id) (toAcc q) ∧ OnArc (vecR a) (vecR b) r ∧
      val (maxDistanceToEdge (cellFromCellID id) a b) ≤ chordPQ q r + 1 / 2 ^ 44 := by
  have H := stdModel
  have hu := uR_nonneg
  obtain ⟨q0, hq0⟩ : ∃ q : R3, InCellXYZ (cellFromCellID id) (toAcc q) := ⟨_, corner_inCell id hv 0⟩
  obtain ⟨fa, _⟩ := endpoint_chord_le id hv ha hq0
  obtain ⟨fb, _⟩ := endpoint_chord_le id hv hb hq0
  obtain ⟨fm, _, _, mcase⟩ := maxChord2 fa fb
  have h45 : (1 : ℝ) / 2 ^ 45 ≤ 1 / 2 ^ 44 := by norm_num
  by_cases hnear : F64.le (endMax (cellFromCellID id) a b) F64.two = true
  · exact maxDistanceToEdge_attained_partial id hv a b ha hb hE hV (Or.inl hnear)
  · have hval : maxDistanceToEdge (cellFromCellID id) a b
        = F64.four - distanceToEdge (cellFromCellID id) (a.mul negOne) (b.mul negOne) := by
      unfold maxDistanceToEdge
      simp only
      have : ¬ F64.le (maxChord (maxDistance (cellFromCellID id) a) [maxDistance (cellFromCellID id) b]) F64.two = true := hnear
      rw [if_neg this]
    have ha' : C17.UnitPt (negV a) := unitWithin_negV ha
    have hb' : C17.UnitPt (negV b) := unitWithin_negV hb
    have hE' := edgeOK_negV ha.1 hb.1 hE
    obtain ⟨q, r', hq, hr', hle⟩ := hatt hnear
    have hr : OnArc (vecR a) (vecR b) (negR r') := by
      rw [vecR_negV ha.1, vecR_negV hb.1] at hr'
      have := onArc_negR hr'
      rwa [negR_negR, negR_negR] at this
    refine ⟨q, negR r', hq, hr, ?_⟩
    rw [hval, mul_negOne_eq, mul_negOne_eq, chordPQ_negR]
    obtain ⟨fD, hD⟩ := distanceToEdge_lower id hv (negV a) (negV b) ha' hb' hE' hV hq hr'
    have nD := distanceToEdge_nonneg id hv (negV a) (negV b) ha' hb' hE' hV
    have hq1 := cell_pt_n2 id hv hq
    have hr1 := onArc_n2 hr'
    have hc4 : chordPQ q r' ≤ 4 := chordPQ_le_four hq1 hr1
    set D := distanceToEdge (cellFromCellID id) (negV a) (negV b) with hDdef
    have hDhi : val D ≤ 5 := by
      have : (1 : ℝ) / 2 ^ 44 ≤ 1 := by norm_num
      linarith
    have m : |val F64.four - val D| ≤ 5 := by
      rw [S2Proofs.C12Dist.VertexErr.val_four, abs_le]; constructor <;> linarith
    obtain ⟨fr, rr, _⟩ := sub_step H S2Proofs.C12Dist.VertexErr.fin_four fD m (by norm_num)
    unfold Rnd at rr
    rw [S2Proofs.C12Dist.VertexErr.val_four] at rr m
    have h1 := (abs_le.1 rr).2
    have h2 : uR * |4 - val D| ≤ uR * 5 := mul_le_mul_of_nonneg_left m hu
    have : (1 : ℝ) / 2 ^ 45 + 5 * uR ≤ 1 / 2 ^ 44 := by unfold uR; norm_num
    linarith

/-- **ATTAINED for `MaxDistanceToEdge`, every branch**: near branch unconditional; far branch through `distanceToEdge_attained2`
    for the antipodal edge — remaining class: `¬ CrossCirclesDiffer` for the antipodal edge. -/
theorem maxDistanceToEdge_attained2 (id : CellID) (hv : isValid id = true) (a b : V3)
    (ha : C17.UnitPt a) (hb : C17.UnitPt b) (hE : EdgeOK a b)
    (hV : ∀ k, k < 4 → VertexCallOK (vertex (cellFromCellID id) k) (negV a) (negV b))
    (hcirc : CrossCirclesDiffer (cellFromCellID id) (negV a) (negV b)) :
    ∃ q r : R3, InCellXYZ (cellFromCellID id) (toAcc q) ∧ OnArc (vecR a) (vecR b) r ∧
      val (maxDistanceToEdge (cellFromCellID id) a b) ≤ chordPQ q r + 1 / 2 ^ 44 :=
  maxDistanceToEdge_attained_of id hv a b ha hb hE hV fun _ =>
    distanceToEdge_attained2 id hv (negV a) (negV b) (unitWithin_negV ha) (unitWithin_negV hb)
      (edgeOK_negV ha.1 hb.1 hE) hV hcirc

end S2Proofs.C12Dist2
