/-
  C12Dist2.DistNonneg — `Cell.Distance(p)` is a NON-NEGATIVE float (every branch: `edgeDistance` is a sum of a quotient of
  squares and a square, the vertex values are clamped squared lengths, the interior value is +0).  Needed because the running
  minimum of `DistanceToEdge` is handed to `UpdateMinDistance` as a limit.
-/
import S2Proofs.Properties.C12_Distance

set_option linter.unusedSimpArgs false
set_option linter.unusedVariables false

namespace S2Proofs.C12Dist2
open S2 S2.CellID S2.CellM S2Proofs.FloatErr S2Proofs.F64Order S2Proofs.C16Acc S2Proofs.C12Dist

/-- the value of one edge branch is non-negative (same arguments as `C12Dist.edge_value`) -/
theorem edge_nonneg (a y z k ij : F64) (ha : Fin a) (hy : Fin y) (hz : Fin z) (hk : Fin k)
    (bk : |val k| ≤ 1) (bn : val a ^ 2 + val y ^ 2 + val z ^ 2 ≤ 1 + 1 / 2 ^ 21)
    (hij : ij = a - z * k ∨ ij = -(a - z * k)) :
    0 ≤ val (edgeDistance ij k y (k * a + z)) := by
  have ba : |val a| ≤ 1 + 1 / 2 ^ 20 := abs_le_of_sq_le21 (by nlinarith [sq_nonneg (val y), sq_nonneg (val z)])
  have bz : |val z| ≤ 1 + 1 / 2 ^ 20 := abs_le_of_sq_le21 (by nlinarith [sq_nonneg (val y), sq_nonneg (val a)])
  obtain ⟨fd, fw, ed, ew, _⟩ := edge_args a z k ha hz hk bk ba bz
  obtain ⟨bsum, _⟩ := edge_value_real (val k) (val y) (val a) (val z) _ _ bk bn ed ew
  have fij : Fin ij := by
    rcases hij with h | h
    · rw [h]; exact fd
    · rw [h]; exact fin_neg' fd
  have vij : val ij ^ 2 = val (a - z * k) ^ 2 := by
    rcases hij with h | h
    · rw [h]
    · rw [h, val_neg', neg_sq]
  rw [← vij] at bsum
  exact (edgeDistance_range ij k y (k * a + z) fij hk hy fw bk bsum).1

theorem distUVW_nonneg {c : Cell} {t : V3} (X : Ctx c t) : 0 ≤ val (distUVW c t) := by
  unfold distUVW
  simp only
  split
  · exact edge_nonneg t.x t.y t.z c.uv.1.1 _ X.ft.1 X.ft.2.1 X.ft.2.2 X.fu0 X.bu0 X.bnx (Or.inr rfl)
  split
  · exact edge_nonneg t.x t.y t.z c.uv.1.2 _ X.ft.1 X.ft.2.1 X.ft.2.2 X.fu1 X.bu1 X.bnx (Or.inl rfl)
  split
  · exact edge_nonneg t.y t.x t.z c.uv.2.1 _ X.ft.2.1 X.ft.1 X.ft.2.2 X.fv0 X.bv0 X.bny (Or.inr rfl)
  split
  · exact edge_nonneg t.y t.x t.z c.uv.2.2 _ X.ft.2.1 X.ft.1 X.ft.2.2 X.fv1 X.bv1 X.bny (Or.inl rfl)
  split
  · rw [val_fzero]
  · obtain ⟨f00, n00, _, _⟩ := X.vertex_val false false
    obtain ⟨f10, n10, _, _⟩ := X.vertex_val true false
    obtain ⟨f01, n01, _, _⟩ := X.vertex_val false true
    obtain ⟨f11, n11, _, _⟩ := X.vertex_val true true
    obtain ⟨hmem, _⟩ := minChord4 _ _ _ _ f00 f10 f01 f11
    rcases hmem with h | h | h | h <;> rw [h] <;> assumption

/-- **`Cell.Distance(p) ≥ 0`** for every valid cell and admissible point -/
theorem distance_nonneg (id : CellID) (hv : isValid id = true) (p : V3) (hp : PtOK p) :
    0 ≤ val (distance (cellFromCellID id) p) := by
  obtain ⟨hf, _, hn⟩ := hp
  have X := mkCtx id hv p (fin3_of_finite3 hf) hn
  rw [distance_eq_distUVW]
  exact distUVW_nonneg X

end S2Proofs.C12Dist2
