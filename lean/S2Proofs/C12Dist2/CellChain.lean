/-
  C12Dist2.CellChain — the double loop of `Cell.DistanceToCell`: 32 calls `minDist, _ = UpdateMinDistance(x, e0, e1, minDist)`
  starting from `s1.InfChordAngle()`.  On the domain of c17err (`CallOK` for each call) the result is a finite non-negative float
  that is not above the TRUE distance of any of the 32 (vertex, edge) pairs by more than `edgeErr = 2^-46`.
-/
import S2Proofs.C12Dist2.Chain
import S2Proofs.C17Pairs.PairFloat
import Mathlib.Tactic.IntervalCases

set_option linter.unusedSimpArgs false
set_option linter.unusedVariables false

namespace S2Proofs.C12Dist2
open S2 S2.Exact S2.EdgeNum S2.CellEdgeM S2Proofs.F64Order S2Proofs.FloatErr S2Proofs.C17Err S2Proofs.C17 S2Proofs.C08World
open S2Proofs.C17Pairs (CallOK)

/-- one call, the limit being a finite non-negative float or `+Inf` -/
theorem step_any {x a b : V3} (h : CallOK x a b) {m : F64} (hm : (Fin m ∧ 0 ≤ val m) ∨ m = F64.inf false) :
    Fin (updateMinDistancePub x a b m).1 ∧ 0 ≤ val (updateMinDistancePub x a b m).1 ∧
    val (updateMinDistancePub x a b m).1 ≤ trueDist2 x a b + edgeErr ∧
    (Fin m → val (updateMinDistancePub x a b m).1 ≤ val m) := by
  obtain ⟨c1, c2⟩ := updateMin_contract x a b h.hx h.ha h.hb h.hE h.hM m hm
  cases hok : (updateMinDistancePub x a b m).2
  · have e := updateMin_not_ok x a b m hok
    obtain ⟨fl, hle⟩ := c2 hok
    rw [e]
    have n0 : 0 ≤ val m := by
      rcases hm with ⟨_, n⟩ | rfl
      · exact n
      · exact absurd fl (by decide)
    exact ⟨fl, n0, hle, fun _ => le_refl _⟩
  · obtain ⟨fd, d0, _, hlt, herr⟩ := c1 hok
    have := (abs_le.mp herr).2
    refine ⟨fd, d0, by linarith, fun fm => ?_⟩
    exact ((lt_val fd fm).mp hlt).le

/-- the fold from a finite non-negative value -/
theorem fold_fin (l : List (V3 × V3 × V3)) : ∀ m : F64, Fin m → 0 ≤ val m →
    (∀ t ∈ l, CallOK t.1 t.2.1 t.2.2) →
    Fin (l.foldl (fun m t => (updateMinDistancePub t.1 t.2.1 t.2.2 m).1) m) ∧
    0 ≤ val (l.foldl (fun m t => (updateMinDistancePub t.1 t.2.1 t.2.2 m).1) m) ∧
    val (l.foldl (fun m t => (updateMinDistancePub t.1 t.2.1 t.2.2 m).1) m) ≤ val m ∧
    ∀ t ∈ l, val (l.foldl (fun m t => (updateMinDistancePub t.1 t.2.1 t.2.2 m).1) m)
      ≤ trueDist2 t.1 t.2.1 t.2.2 + edgeErr := by
  induction l with
  | nil => intro m fm n0 _; exact ⟨fm, n0, le_refl _, fun t ht => by cases ht⟩
  | cons t l ih =>
    intro m fm n0 hall
    simp only [List.foldl_cons]
    obtain ⟨f1, n1, e1, l1⟩ := step_any (hall t (by simp)) (Or.inl ⟨fm, n0⟩)
    obtain ⟨f2, n2, l2, e2⟩ := ih _ f1 n1 (fun t' ht' => hall t' (by simp [ht']))
    refine ⟨f2, n2, le_trans l2 (l1 fm), ?_⟩
    intro t' ht'
    rcases List.mem_cons.mp ht' with rfl | h
    · linarith
    · exact e2 t' h

/-- the fold from `+Inf` over a non-empty list -/
theorem fold_inf (t : V3 × V3 × V3) (l : List (V3 × V3 × V3)) (hall : ∀ t' ∈ t :: l, CallOK t'.1 t'.2.1 t'.2.2) :
    Fin ((t :: l).foldl (fun m t => (updateMinDistancePub t.1 t.2.1 t.2.2 m).1) (F64.inf false)) ∧
    0 ≤ val ((t :: l).foldl (fun m t => (updateMinDistancePub t.1 t.2.1 t.2.2 m).1) (F64.inf false)) ∧
    ∀ t' ∈ t :: l, val ((t :: l).foldl (fun m t => (updateMinDistancePub t.1 t.2.1 t.2.2 m).1) (F64.inf false))
      ≤ trueDist2 t'.1 t'.2.1 t'.2.2 + edgeErr := by
  simp only [List.foldl_cons]
  obtain ⟨f1, n1, e1, _⟩ := step_any (hall t (by simp)) (Or.inr rfl)
  obtain ⟨f2, n2, l2, e2⟩ := fold_fin l _ f1 n1 (fun t' ht' => hall t' (by simp [ht']))
  refine ⟨f2, n2, ?_⟩
  intro t' ht'
  rcases List.mem_cons.mp ht' with rfl | h
  · linarith
  · exact e2 t' h

/-- the 32 calls, written out -/
theorem pairCalls_eq (a0 a1 a2 a3 b0 b1 b2 b3 : V3) :
    pairCalls [a0, a1, a2, a3] [b0, b1, b2, b3] =
      [(a0,b0,b1),(b0,a0,a1),(a0,b1,b2),(b0,a1,a2),(a0,b2,b3),(b0,a2,a3),(a0,b3,b0),(b0,a3,a0),
       (a1,b0,b1),(b1,a0,a1),(a1,b1,b2),(b1,a1,a2),(a1,b2,b3),(b1,a2,a3),(a1,b3,b0),(b1,a3,a0),
       (a2,b0,b1),(b2,a0,a1),(a2,b1,b2),(b2,a1,a2),(a2,b2,b3),(b2,a2,a3),(a2,b3,b0),(b2,a3,a0),
       (a3,b0,b1),(b3,a0,a1),(a3,b1,b2),(b3,a1,a2),(a3,b2,b3),(b3,a2,a3),(a3,b3,b0),(b3,a3,a0)] := rfl

/-- vertex `k` of the first list against edge `j` of the second is one of the calls … -/
theorem mem_pairCalls_ab (va vb : Nat → V3) (k j : Fin 4) :
    (va k.val, vb j.val, vb ((j.val + 1) % 4)) ∈ pairCalls [va 0, va 1, va 2, va 3] [vb 0, vb 1, vb 2, vb 3] := by
  rw [pairCalls_eq]
  rcases k with ⟨k, hk⟩
  rcases j with ⟨j, hj⟩
  interval_cases k <;> interval_cases j <;> simp

/-- … and vertex `j` of the second against edge `k` of the first -/
theorem mem_pairCalls_ba (va vb : Nat → V3) (j k : Fin 4) :
    (vb j.val, va k.val, va ((k.val + 1) % 4)) ∈ pairCalls [va 0, va 1, va 2, va 3] [vb 0, vb 1, vb 2, vb 3] := by
  rw [pairCalls_eq]
  rcases k with ⟨k, hk⟩
  rcases j with ⟨j, hj⟩
  interval_cases k <;> interval_cases j <;> simp

end S2Proofs.C12Dist2
