/-
  C12Dist2.FatArc — the RIGHT-ANGLE CLASS of `Cell.MaxDistanceToEdge`, pure geometry.

  When the endpoint maxima are only known up to a slack (cosines `≥ −ε` instead of `≥ 0`), the endpoint rule
  (`arc_dot_ge`) is NOT robust for an arbitrary set: for a nearly antipodal edge (angle π − δ) a point at distance
  `ε / sin(δ/2)` from the pole of the edge plane, on the side opposite to the arc's midpoint, has cosine `−ε` against both
  endpoints and `−ε / sin(δ/2)` against the midpoint (amplification up to 2^36 under `EdgeOK`).  For an S2 CELL it is
  robust, because a cell is FAT: its uv-rectangle has both widths ≥ 2^-31, and a fat rectangle cannot live in the thin
  wedge between two nearly opposite half-spaces near its apex (`FatRect.fat_rect_arc`, pure real arithmetic).

      arc_dot_fat :  every point of the cell has cosine ≥ −ε against both endpoint directions, 128·ε ≤ width
                     ⇒  every point of the cell has cosine ≥ −8ε against EVERY point of the arc.
-/
import S2Proofs.C12Dist2.FatRect
import S2Proofs.C12Dist2.CellQuad
import S2Proofs.C12Dist2.MaxArcGeom

set_option linter.unusedSimpArgs false
set_option linter.unusedVariables false

namespace S2Proofs.C12Dist2
open S2Proofs.C17Err S2Proofs.C17Err.R3 S2Proofs.C17Pairs S2Proofs.C12Dist

/-- the unit vector of `(u, v, 1)` (face frame) mapped to the XYZ frame is a point of the cell -/
theorem uv_point_pt (f : Nat) (r : RRect) {u v : ℝ} (hu0 : r.u0 ≤ u) (hu1 : u ≤ r.u1) (hv0 : r.v0 ≤ v) (hv1 : v ≤ r.v1) :
    0 < (⟨u, v, 1⟩ : R3).len ∧ (⟨u, v, 1⟩ : R3).len ≤ 2 + (u ^ 2 + v ^ 2) ∧
    (cellQuad f r).Pt (xyzC f (dirR ⟨u, v, 1⟩)) := by
  have hn : (⟨u, v, 1⟩ : R3).n2 = u ^ 2 + v ^ 2 + 1 := by unfold R3.n2 R3.dot; ring
  have hL : 0 < (⟨u, v, 1⟩ : R3).len := by
    unfold R3.len; rw [hn]; apply Real.sqrt_pos.mpr; positivity
  have hL2 : (⟨u, v, 1⟩ : R3).len ≤ 2 + (u ^ 2 + v ^ 2) := by
    have h1 := len_sq (⟨u, v, 1⟩ : R3)
    rw [hn] at h1
    nlinarith [sq_nonneg ((⟨u, v, 1⟩ : R3).len - 1), sq_nonneg u, sq_nonneg v]
  refine ⟨hL, hL2, ?_, ?_⟩
  · rw [xyzC_n2]; exact dirR_n2 hL
  · intro k
    show 0 ≤ formUVW r k.val (uvwC f (xyzC f (dirR ⟨u, v, 1⟩)))
    rw [uvwC_xyzC]
    unfold dirR
    rw [formUVW_comb]
    have hp : 0 ≤ 1 / (⟨u, v, 1⟩ : R3).len := by positivity
    have h0 : 0 ≤ formUVW r k.val ⟨u, v, 1⟩ := by
      unfold formUVW; split <;> simp <;> linarith
    have := mul_nonneg hp h0
    linarith

/-- a cosine bound `≥ −ε` against a direction on the whole cell, as an affine bound on the uv-rectangle -/
theorem aff_of_dot (f : Nat) (r : RRect) (ok : r.OK) {ε : ℝ} (hε0 : 0 ≤ ε) (e : R3) (E' : R3) (hE' : E' = uvwC f (dirR e))
    (hE : ∀ x, (cellQuad f r).Pt x → -ε ≤ x.dot (dirR e))
    (u v : ℝ) (h1 : r.u0 ≤ u) (h2 : u ≤ r.u1) (h3 : r.v0 ≤ v) (h4 : v ≤ r.v1) :
    -(2 * ε) ≤ E'.x * u + E'.y * v + E'.z := by
  obtain ⟨ou0, _, ou1, ov0, _, ov1⟩ := ok
  obtain ⟨hL, hL2, hpt⟩ := uv_point_pt f r h1 h2 h3 h4
  have h := hE _ hpt
  rw [← uvwC_dot f, uvwC_xyzC, ← hE', dot_comm, dot_dirR] at h
  have hd : E'.dot ⟨u, v, 1⟩ = E'.x * u + E'.y * v + E'.z := by unfold R3.dot; ring
  rw [hd] at h
  have hu2 : u ^ 2 ≤ 1 := by nlinarith
  have hv2 : v ^ 2 ≤ 1 := by nlinarith
  have hLs : (⟨u, v, 1⟩ : R3).len ≤ 2 := by
    have h1 := len_sq (⟨u, v, 1⟩ : R3)
    have hn : (⟨u, v, 1⟩ : R3).n2 = u ^ 2 + v ^ 2 + 1 := by unfold R3.n2 R3.dot; ring
    rw [hn] at h1
    nlinarith [len_nonneg (⟨u, v, 1⟩ : R3)]
  rw [le_div_iff₀ hL] at h
  nlinarith

/-- an arc point as a non-negative combination of the two endpoint DIRECTIONS -/
theorem onArc_dir_comb {a b P : R3} (ha : 0 < a.len) (hb : 0 < b.len) (hP : OnArc a b P) :
    ∃ α β : ℝ, 0 ≤ α ∧ 0 ≤ β ∧ P = comb α (dirR a) β (dirR b) := by
  obtain ⟨s, t, hs, ht, hPe, hPn⟩ := hP
  refine ⟨s * a.len, t * b.len, mul_nonneg hs ha.le, mul_nonneg ht hb.le, ?_⟩
  rw [hPe]
  have h1 : a.len ≠ 0 := ha.ne'
  have h2 : b.len ≠ 0 := hb.ne'
  apply r3_ext
  · unfold dirR comb; simp only; field_simp; ring
  · unfold dirR comb; simp only; field_simp; ring
  · unfold dirR comb; simp only; field_simp; ring

/-- **the endpoint rule with slack, for a fat cell** -/
theorem arc_dot_fat (f : Nat) (r : RRect) (ok : r.OK) {w : ℝ} (hw : 0 < w)
    (hwu : r.u0 + w ≤ r.u1) (hwv : r.v0 + w ≤ r.v1)
    {a b : R3} (ha : 0 < a.len) (hb : 0 < b.len) {ε : ℝ} (hε0 : 0 ≤ ε) (hεw : 128 * ε ≤ w)
    (hA : ∀ x, (cellQuad f r).Pt x → -ε ≤ x.dot (dirR a))
    (hB : ∀ x, (cellQuad f r).Pt x → -ε ≤ x.dot (dirR b))
    {q P : R3} (hq : (cellQuad f r).Pt q) (hP : OnArc a b P) : -(8 * ε) ≤ q.dot P := by
  have ok' := ok
  obtain ⟨ou0, _, ou1, ov0, _, ov1⟩ := ok
  -- the endpoint directions in the face frame
  set A' := uvwC f (dirR a) with hA'
  set B' := uvwC f (dirR b) with hB'
  have nA : A'.x ^ 2 + A'.y ^ 2 + A'.z ^ 2 = 1 := by
    have : A'.n2 = 1 := by rw [hA', uvwC_n2]; exact dirR_n2 ha
    unfold R3.n2 R3.dot at this; linarith
  have nB : B'.x ^ 2 + B'.y ^ 2 + B'.z ^ 2 = 1 := by
    have : B'.n2 = 1 := by rw [hB', uvwC_n2]; exact dirR_n2 hb
    unfold R3.n2 R3.dot at this; linarith
  have affA := aff_of_dot f r ok' hε0 a A' hA' hA
  have affB := aff_of_dot f r ok' hε0 b B' hB' hB
  have hPn := (by obtain ⟨_, _, _, _, _, h⟩ := hP; exact h : P.n2 = 1)
  obtain ⟨α, β, hα0, hβ0, hPc⟩ := onArc_dir_comb ha hb hP
  have hPu : uvwC f P = comb α A' β B' := by rw [hPc, uvwC_comb]
  have hN : (1 : ℝ) ^ 2 = α ^ 2 + β ^ 2 + 2 * α * β * (A'.x * B'.x + A'.y * B'.y + A'.z * B'.z) := by
    have h1 : (uvwC f P).n2 = 1 := by rw [uvwC_n2]; exact hPn
    rw [hPu, comb_n2] at h1
    have e1 : A'.n2 = 1 := by unfold R3.n2 R3.dot; linarith
    have e2 : B'.n2 = 1 := by unfold R3.n2 R3.dot; linarith
    rw [e1, e2] at h1
    have e3 : A'.dot B' = A'.x * B'.x + A'.y * B'.y + A'.z * B'.z := rfl
    rw [e3] at h1
    linarith
  -- the cell point in the face frame
  set Q := uvwC f q with hQ
  have hin := hq.2
  have f0 : 0 ≤ Q.y - r.v0 * Q.z := by have := hin 0; unfold cellQuad formUVW at this; simpa using this
  have f1 : 0 ≤ r.u1 * Q.z - Q.x := by have := hin 1; unfold cellQuad formUVW at this; simpa using this
  have f2 : 0 ≤ r.v1 * Q.z - Q.y := by have := hin 2; unfold cellQuad formUVW at this; simpa using this
  have f3 : 0 ≤ Q.x - r.u0 * Q.z := by have := hin 3; unfold cellQuad formUVW at this; simpa using this
  have hQn : Q.x ^ 2 + Q.y ^ 2 + Q.z ^ 2 = 1 := by
    have : Q.n2 = 1 := by rw [hQ, uvwC_n2]; exact hq.1
    unfold R3.n2 R3.dot at this; linarith
  have hz0 : 0 ≤ Q.z := by nlinarith
  have hz : 0 < Q.z := by
    rcases hz0.lt_or_eq with h | h
    · exact h
    · exfalso
      rw [← h] at f0 f1 f2 f3
      have ex : Q.x = 0 := by linarith
      have ey : Q.y = 0 := by linarith
      rw [ex, ey, ← h] at hQn
      norm_num at hQn
  have hz1 : Q.z ≤ 1 := by nlinarith [sq_nonneg Q.x, sq_nonneg Q.y]
  have hzne : Q.z ≠ 0 := hz.ne'
  have hu0 : r.u0 ≤ Q.x / Q.z := by rw [le_div_iff₀ hz]; linarith
  have hu1 : Q.x / Q.z ≤ r.u1 := by rw [div_le_iff₀ hz]; linarith
  have hv0 : r.v0 ≤ Q.y / Q.z := by rw [le_div_iff₀ hz]; linarith
  have hv1 : Q.y / Q.z ≤ r.v1 := by rw [div_le_iff₀ hz]; linarith
  have key := FatRect.fat_rect_arc (ε := 2 * ε) (w := w) (N := 1) nA nB ou0 hwu ou1 ov0 hwv ov1 hw (by linarith) (by linarith)
    (fun u v h1 h2 h3 h4 => affA u v h1 h2 h3 h4) (fun u v h1 h2 h3 h4 => affB u v h1 h2 h3 h4)
    hα0 hβ0 one_pos hN hu0 hu1 hv0 hv1
  -- q·P = Q.z · (α A(u,v) + β B(u,v))
  have hdot : q.dot P = Q.z * (α * (A'.x * (Q.x / Q.z) + A'.y * (Q.y / Q.z) + A'.z)
      + β * (B'.x * (Q.x / Q.z) + B'.y * (Q.y / Q.z) + B'.z)) := by
    rw [← uvwC_dot f q P, hPu, dot_comb, ← hQ]
    unfold R3.dot
    field_simp
  rw [hdot]
  have hmul := mul_le_mul_of_nonneg_left key hz0
  nlinarith
end S2Proofs.C12Dist2
