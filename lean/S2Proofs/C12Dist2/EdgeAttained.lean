/-
  C12Dist2.EdgeAttained — the OTHER side for `Cell.DistanceToEdge`, outside the branch `return 0` of the crossing loop:
  some pair (point of the exact cell, point of the arc) is at most `2^-45` farther apart than the reported value.

  * `minDist == 0` or the loop leaves the running minimum unchanged: the value is `Distance(a)` or `Distance(b)`, attained
    within `2^-47` by a cell point (C12 `distance_attained`), the arc point being the endpoint itself;
  * the loop returns the value of a call `UpdateMinDistance(c.Vertex(k), a, b, ·)` that answered "ok": within `2^-46` of the true
    vertex-to-arc distance (C17), attained on the arc; the float vertex is within 2u of an exact corner of the cell.
  NOT covered: the crossing loop returned 0 (needs "`CrossingSign ≠ DoNotCross` ⇒ the closed arcs meet" also for vanishing
  determinants — open in c17pairs).
-/
import S2Proofs.C12Dist2.EdgeFinal
import S2Proofs.C12Dist2.CellAttained

set_option linter.unusedSimpArgs false
set_option linter.unusedVariables false

namespace S2Proofs.C12Dist2
open S2 S2.CellID S2.CellM S2.CellEdgeM S2.EdgeNum S2Proofs.F64Order S2Proofs.FloatErr
open S2Proofs.C17Err S2Proofs.C17Err.R3 S2Proofs.C17Pairs S2Proofs.C17 S2Proofs.C08World S2Proofs.C12Dist S2Proofs.C12

/-- the reverse of c08world's `dist2_bridge`: the chord from the DIRECTION of `p` is at most `|p − Q|² + 2^-49` -/
theorem chord_le_dist2 {p : V3} (hp : UnitPt p) (Q : R3) (hQ : Q.n2 = 1) :
    dirChordP p Q ≤ S2Proofs.C12Dist.dist2 (S2Proofs.C16Acc.ofV p) (toAcc Q) + 1 / 2 ^ 49 := by
  obtain ⟨hL1, hL0, hLle⟩ := unit_len delta0_nonneg (le_refl _) hp
  have hQl : Q.len = 1 := by unfold R3.len; rw [hQ]; simp
  have hcs := R3.abs_dot_le (vecR p) Q
  rw [hQl, mul_one, vecR_len] at hcs
  have hd2 : S2Proofs.C12Dist.dist2 (S2Proofs.C16Acc.ofV p) (toAcc Q)
      = len p * len p + 1 - 2 * (vecR p).dot Q := by
    rw [S2Proofs.C12Dist.dist2_eq]
    have h1 : (S2Proofs.C16Acc.ofV p).norm2 = len p * len p := by
      rw [C17Err.len_sq]; unfold S2Proofs.C16Acc.ofV S2Proofs.C16Acc.R3.norm2 C17Err.n2; ring
    have h2 : (toAcc Q).norm2 = 1 := by
      rw [← hQ]; unfold toAcc S2Proofs.C16Acc.R3.norm2 R3.n2 R3.dot; ring
    have h3 : S2Proofs.C16Acc.R3.dot (S2Proofs.C16Acc.ofV p) (toAcc Q) = (vecR p).dot Q := by
      unfold toAcc S2Proofs.C16Acc.ofV S2Proofs.C16Acc.R3.dot vecR R3.dot; ring
    rw [h1, h2, h3]
  set L := len p with hLd
  set d := (vecR p).dot Q with hdd
  set t := d / L with htd
  have hdt : d = t * L := by rw [htd]; field_simp
  have ht : |t| ≤ 1 := by
    rw [htd, abs_div, abs_of_pos hL0]
    exact (div_le_one hL0).mpr hcs
  obtain ⟨t1, t2⟩ := abs_le.mp ht
  obtain ⟨l1, l2⟩ := abs_le.mp hL1
  have hδ := delta0_le
  have hδ0 := delta0_nonneg
  rw [hd2]
  unfold dirChordP
  rw [← hdd, ← hLd, ← htd, hdt]
  have key : -(5 * delta0) ≤ (L - 1) * (L + 1 - 2 * t) := by
    have a1 : |L - 1| * |L + 1 - 2 * t| ≤ delta0 * 5 := by
      apply mul_le_mul hL1 _ (abs_nonneg _) hδ0
      rw [abs_le]; constructor <;> nlinarith
    have : -|(L - 1) * (L + 1 - 2 * t)| ≤ (L - 1) * (L + 1 - 2 * t) := neg_abs_le _
    rw [abs_mul] at this
    linarith
  have : (5 : ℝ) * (1 / 2 ^ 52) ≤ 1 / 2 ^ 49 := by norm_num
  nlinarith

/-- `Cell.Distance(e)` of an endpoint is attained by a cell point, the arc point being the endpoint -/
theorem endpoint_attained (id : CellID) (hv : isValid id = true) {e : V3} (he : UnitPt e) :
    ∃ q : R3, InCellXYZ (cellFromCellID id) (toAcc q) ∧
      chordPQ q (dirR (vecR e)) ≤ val (distance (cellFromCellID id) e) + 1 / 2 ^ 46 := by
  obtain ⟨q, hq, _, hatt⟩ := distance_attained id hv e (unitPt_ptOK he)
  refine ⟨ofAcc q, hq, ?_⟩
  have hq1 : (ofAcc q).n2 = 1 := by
    have := hq.1
    rw [← this]; unfold ofAcc uvwR C16Acc.R3.norm2 R3.n2 R3.dot; split <;> ring
  have h1 := chord_le_dist2 he (ofAcc q) hq1
  rw [dirChordP_eq_chord] at h1
  have e1 : toAcc (ofAcc q) = q := rfl
  rw [e1] at h1
  have h4 : chordPQ (dirR (vecR e)) (ofAcc q) ≤ 4 := chordPQ_le_four (dirR_n2 he.len_pos) hq1
  have hmin : chordPQ (dirR (vecR e)) (ofAcc q) ≤ min 4 (dist2 (C16Acc.ofV e) q) + 1 / 2 ^ 49 := by
    rcases le_total 4 (dist2 (C16Acc.ofV e) q) with h | h
    · rw [min_eq_left h]; have : (0 : ℝ) ≤ 1 / 2 ^ 49 := by positivity
      linarith
    · rw [min_eq_right h]; exact h1
  have hnorm : ((C16Acc.ofV e).norm - 1) ^ 2 ≤ 1 / 2 ^ 100 := by
    obtain ⟨hL1, _, _⟩ := unit_len delta0_nonneg (le_refl _) he
    rw [← vecR_len_acc, vecR_len]
    have hδ := delta0_le
    have hδ0 := delta0_nonneg
    obtain ⟨l1, l2⟩ := abs_le.mp hL1
    have : (len e - 1) ^ 2 ≤ (1 / 2 ^ 52) ^ 2 := by
      apply sq_le_sq'
      · linarith
      · linarith
    have : ((1 : ℝ) / 2 ^ 52) ^ 2 ≤ 1 / 2 ^ 100 := by norm_num
    linarith
  have h5 := (abs_le.mp hatt).1
  rw [chordPQ_comm]
  have : (1 : ℝ) / 2 ^ 47 + 1 / 2 ^ 100 + 1 / 2 ^ 49 ≤ 1 / 2 ^ 46 := by norm_num
  linarith

/-- the loop of `DistanceToEdge` as a fold over triples -/
theorem vertexChain_eq_fold (a b : V3) (m : F64) (vs : List V3) :
    vertexChain a b m vs =
      (vs.map fun v => (v, a, b)).foldl (fun m t => (updateMinDistancePub t.1 t.2.1 t.2.2 m).1) m := by
  unfold vertexChain
  rw [List.foldl_map]

/-- **ATTAINED for `DistanceToEdge`, outside the crossing-loop return** -/
theorem distanceToEdge_attained_partial (id : CellID) (hv : isValid id = true) (a b : V3)
    (ha : UnitPt a) (hb : UnitPt b) (hE : EdgeOK a b)
    (hV : ∀ k, k < 4 → VertexCallOK (vertex (cellFromCellID id) k) a b)
    (hcode : F64.feq (minChord (distance (cellFromCellID id) a) [distance (cellFromCellID id) b]) fzero = true ∨
      anyCrossing (Crosser.initChain a b (vertex (cellFromCellID id) 3)) (vertices (cellFromCellID id)) = false) :
    ∃ q r : R3, InCellXYZ (cellFromCellID id) (toAcc q) ∧ OnArc (vecR a) (vecR b) r ∧
      chordPQ q r ≤ val (distanceToEdge (cellFromCellID id) a b) + 1 / 2 ^ 45 := by
  obtain ⟨_, _, _, _, ok, _⟩ := cellOK id hv
  have pa := unitPt_ptOK ha
  have pb := unitPt_ptOK hb
  obtain ⟨q0, hq0⟩ : ∃ q : R3, InCellXYZ (cellFromCellID id) (toAcc q) := ⟨_, corner_inCell id hv 0⟩
  obtain ⟨fDa, _⟩ := distance_lower_bound id hv a pa (toAcc q0) hq0
  obtain ⟨fDb, _⟩ := distance_lower_bound id hv b pb (toAcc q0) hq0
  have nDa := distance_nonneg id hv a pa
  have nDb := distance_nonneg id hv b pb
  obtain ⟨fm, _, _, mcase⟩ := minChord2 fDa fDb
  have nm : 0 ≤ val (minChord (distance (cellFromCellID id) a) [distance (cellFromCellID id) b]) := by
    rcases mcase with h | h <;> rw [h] <;> assumption
  have h46 : (1 : ℝ) / 2 ^ 46 ≤ 1 / 2 ^ 45 := by norm_num
  -- the value `minDist` itself is attained through an endpoint
  have viaEnd : ∃ q r : R3, InCellXYZ (cellFromCellID id) (toAcc q) ∧ OnArc (vecR a) (vecR b) r ∧
      chordPQ q r ≤ val (minChord (distance (cellFromCellID id) a) [distance (cellFromCellID id) b]) + 1 / 2 ^ 45 := by
    rcases mcase with h | h
    · obtain ⟨q, hq, hle⟩ := endpoint_attained id hv ha
      exact ⟨q, dirR (vecR a), hq, onArc_left' _ _ ha.len_pos, by rw [h]; linarith⟩
    · obtain ⟨q, hq, hle⟩ := endpoint_attained id hv hb
      exact ⟨q, dirR (vecR b), hq, onArc_right' _ _ hb.len_pos, by rw [h]; linarith⟩
  by_cases hz : F64.feq (minChord (distance (cellFromCellID id) a) [distance (cellFromCellID id) b]) fzero = true
  · have hval : distanceToEdge (cellFromCellID id) a b = minChord (distance (cellFromCellID id) a) [distance (cellFromCellID id) b] := by
      unfold distanceToEdge; simp only; rw [if_pos hz]
    rw [hval]; exact viaEnd
  · have hnc : anyCrossing (Crosser.initChain a b (vertex (cellFromCellID id) 3)) (vertices (cellFromCellID id)) = false := by
      rcases hcode with h | h
      · exact absurd h hz
      · exact h
    have hval : distanceToEdge (cellFromCellID id) a b = vertexChain a b (minChord (distance (cellFromCellID id) a) [distance (cellFromCellID id) b]) (vertices (cellFromCellID id)) := by
      unfold distanceToEdge; simp only; rw [if_neg hz, hnc]; simp
    rw [hval, vertexChain_eq_fold]
    have hvs : vertices (cellFromCellID id) = [vertex (cellFromCellID id) 0, vertex (cellFromCellID id) 1, vertex (cellFromCellID id) 2, vertex (cellFromCellID id) 3] := rfl
    rw [hvs]
    have hcalls : ∀ t ∈ ([vertex (cellFromCellID id) 0, vertex (cellFromCellID id) 1, vertex (cellFromCellID id) 2, vertex (cellFromCellID id) 3].map fun v => (v, a, b)), CallOK t.1 t.2.1 t.2.2 := by
      intro t ht
      simp only [List.map_cons, List.map_nil, List.mem_cons, List.mem_nil_iff, or_false] at ht
      rcases ht with rfl | rfl | rfl | rfl
      · exact ⟨(hV 0 (by norm_num)).hv, ha, hb, hE, (hV 0 (by norm_num)).hM⟩
      · exact ⟨(hV 1 (by norm_num)).hv, ha, hb, hE, (hV 1 (by norm_num)).hM⟩
      · exact ⟨(hV 2 (by norm_num)).hv, ha, hb, hE, (hV 2 (by norm_num)).hM⟩
      · exact ⟨(hV 3 (by norm_num)).hv, ha, hb, hE, (hV 3 (by norm_num)).hM⟩
    rcases fold_cases _ _ (Or.inl ⟨fm, nm⟩) hcalls with h | ⟨t, ht, m', hm', hok, he⟩
    · rw [h]; exact viaEnd
    · rw [he]
      have hcall := hcalls t ht
      obtain ⟨c1, _⟩ := updateMin_contract t.1 t.2.1 t.2.2 hcall.hx hcall.ha hcall.hb hcall.hE hcall.hM m' hm'
      obtain ⟨_, _, _, _, herr⟩ := c1 hok
      have herr' := (abs_le.mp herr).1
      obtain ⟨P, hP, hPe⟩ := trueDist2_attained hcall.hx.len_pos hcall.ha.len_pos hcall.hb.len_pos
        (x := t.1) (a := t.2.1) (b := t.2.2)
      rw [dirChordP_eq_chord] at hPe
      -- which vertex
      have hk : ∃ k : Fin 4, t = (vertex (cellFromCellID id) k.val, a, b) := by
        simp only [List.map_cons, List.map_nil, List.mem_cons, List.mem_nil_iff, or_false] at ht
        rcases ht with rfl | rfl | rfl | rfl
        · exact ⟨0, rfl⟩
        · exact ⟨1, rfl⟩
        · exact ⟨2, rfl⟩
        · exact ⟨3, rfl⟩
      obtain ⟨k, rfl⟩ := hk
      simp only at hP hPe herr' ⊢
      have hC := cellQuad_ok (cellFromCellID id).face (rectOf (cellFromCellID id)) ok
      have hN := nearQuad_cell id hv
      set w := dirR ((cellQuad (cellFromCellID id).face (rectOf (cellFromCellID id))).w k) with hw
      have hwpt : (cellQuad (cellFromCellID id).face (rectOf (cellFromCellID id))).Pt w := ⟨dirR_n2 (hC.wpos k), hC.in_dirR (hC.corner k)⟩
      refine ⟨w, P, (pt_iff_inCell _ _ ok w).mp hwpt, hP, ?_⟩
      have hP1 := onArc_n2 hP
      have d1 : P.dot (dirR (floatV (cellFromCellID id) k)) ≤ P.dot w + 2 * uR := dot_le_of_near hN.ε0 hP1 (hN.near k)
      have e1 : chordPQ (dirR (vecR (vertex (cellFromCellID id) k.val))) P = 2 - 2 * (dirR (floatV (cellFromCellID id) k)).dot P := rfl
      rw [e1] at hPe
      unfold chordPQ
      rw [dot_comm P] at d1
      rw [dot_comm P w] at d1
      have hE128 : C08World.edgeErr + 2 * (2 * uR) ≤ 1 / 2 ^ 45 := by unfold C08World.edgeErr uR; norm_num
      linarith

end S2Proofs.C12Dist2
