/-
  C12Dist2.Touch — pure ℝ³ geometry: two great-circle arcs (closed cones `{s·a + t·b}`, arcs shorter than π) that MEET
  either cross properly (`ProperCrossR`, the converse of `C17Pairs.proper_cross_meets`) or the direction of an endpoint of
  one of them lies on the other (`dirOn`).

      meet_cases_cone   the statement with the scale-free predicate `InCone a b x`  (x = s·a + t·b, s, t ≥ 0)
      meet_cases        the statement with `dirOn a b x`  (the unit vector x/|x| is a point of the arc ab)

  Proof.  X = α a0 + β a1 = γ b0 + δ b1.  If one coefficient vanishes an endpoint is a positive multiple of X.  Otherwise,
  with d1 = b0·N_A, d2 = b1·N_A, d3 = a0·N_B, d4 = a1·N_B:  γ d1 + δ d2 = 0, α d3 + β d4 = 0, β d2 = γ d3 (dot the
  identity with N_A, N_B, a0×b1).  Either all four d ≠ 0 (proper crossing, orientation from β d2 = γ d3), or a "half
  crossing" which would make one arc antipodal (`no_half_cross`), or all four vanish: the arcs are coplanar.  Then either
  one of them is degenerate (`parallel_case`) or in the oblique basis a0, a1 of the common plane the claim is the 2-D lemma
  `planar2`.
-/
import S2Proofs.C17Pairs.PairDist
import Mathlib.Tactic.LinearCombination

set_option linter.unusedSimpArgs false
set_option linter.unusedVariables false

namespace S2Proofs.C12Dist2
open S2Proofs.C17Err S2Proofs.C17Err.R3 S2Proofs.C17Pairs

/-- the direction of `x` lies on the arc `ab` -/
def dirOn (a b x : R3) : Prop := OnArc a b (comb (1 / x.len) x 0 x)

/-- `x` lies in the closed cone spanned by `a`, `b` -/
def InCone (a b x : R3) : Prop := ∃ s t : ℝ, 0 ≤ s ∧ 0 ≤ t ∧ x = comb s a t b

theorem eq_comb_iff (x a b : R3) (s t : ℝ) :
    x = comb s a t b ↔ x.x = s * a.x + t * b.x ∧ x.y = s * a.y + t * b.y ∧ x.z = s * a.z + t * b.z := by
  cases x; unfold comb; simp only [R3.mk.injEq]

theorem dirOn_of_inCone {a b x : R3} (hx : 0 < x.len) (h : InCone a b x) : dirOn a b x := by
  obtain ⟨s, t, hs, ht, e⟩ := h
  exact onArc_of_cone hs ht e hx

theorem inCone_of_dirOn {a b x : R3} (hx : 0 < x.len) (h : dirOn a b x) : InCone a b x := by
  obtain ⟨s, t, hs, ht, e, _⟩ := h
  refine ⟨x.len * s, x.len * t, mul_nonneg hx.le hs, mul_nonneg hx.le ht, ?_⟩
  rw [eq_comb_iff] at e ⊢
  obtain ⟨e1, e2, e3⟩ := e
  have hne : x.len ≠ 0 := hx.ne'
  have k : ∀ p q : ℝ, 1 / x.len * p + 0 * p = q → p = x.len * q := by
    intro p q h; rw [← h]; field_simp; ring
  refine ⟨?_, ?_, ?_⟩
  · rw [k _ _ e1]; ring
  · rw [k _ _ e2]; ring
  · rw [k _ _ e3]; ring

theorem inCone_of_scaled {a b x : R3} {s t m : ℝ} (hm : 0 < m) (hs : 0 ≤ s) (ht : 0 ≤ t)
    (hx : m * x.x = s * a.x + t * b.x) (hy : m * x.y = s * a.y + t * b.y) (hz : m * x.z = s * a.z + t * b.z) :
    InCone a b x := by
  have k : ∀ p q r : ℝ, m * p = s * q + t * r → p = s / m * q + t / m * r := by
    intro p q r h
    have : p = (s * q + t * r) / m := by rw [eq_div_iff hm.ne']; linarith
    rw [this]; ring
  exact ⟨s / m, t / m, div_nonneg hs hm.le, div_nonneg ht hm.le,
    (eq_comb_iff _ _ _ _ _).2 ⟨k _ _ _ hx, k _ _ _ hy, k _ _ _ hz⟩⟩

theorem comps_of_n2_zero {u : R3} (h : u.n2 = 0) : u.x = 0 ∧ u.y = 0 ∧ u.z = 0 := by
  unfold R3.n2 R3.dot at h
  have q1 := mul_self_nonneg u.x
  have q2 := mul_self_nonneg u.y
  have q3 := mul_self_nonneg u.z
  exact ⟨mul_self_eq_zero.mp (by linarith), mul_self_eq_zero.mp (by linarith), mul_self_eq_zero.mp (by linarith)⟩

theorem n2_zero_of_comps {u : R3} (h1 : u.x = 0) (h2 : u.y = 0) (h3 : u.z = 0) : u.n2 = 0 := by
  unfold R3.n2 R3.dot; rw [h1, h2, h3]; ring

/-! ### a half crossing is impossible -/

/-- `a0`, `a1` in the plane of `B` (or `B` degenerate) while `b0`, `b1` are strictly on opposite sides of the plane of `A`:
    then `b0`, `b1` are antipodal -/
theorem no_half_cross {a0 a1 b0 b1 : R3} (hB : NotAntipodal b0 b1) (hb1 : 0 < b1.n2)
    (h3 : a0.dot (b0.cross b1) = 0) (h4 : a1.dot (b0.cross b1) = 0)
    (h12 : b0.dot (a0.cross a1) * b1.dot (a0.cross a1) < 0) : False := by
  have wx : b1.dot (a0.cross a1) * b0.x = b0.dot (a0.cross a1) * b1.x := by
    have : a0.dot (b0.cross b1) * a1.x - a1.dot (b0.cross b1) * a0.x
        = b1.dot (a0.cross a1) * b0.x - b0.dot (a0.cross a1) * b1.x := by unfold R3.dot R3.cross; ring
    rw [h3, h4] at this; linarith
  have wy : b1.dot (a0.cross a1) * b0.y = b0.dot (a0.cross a1) * b1.y := by
    have : a0.dot (b0.cross b1) * a1.y - a1.dot (b0.cross b1) * a0.y
        = b1.dot (a0.cross a1) * b0.y - b0.dot (a0.cross a1) * b1.y := by unfold R3.dot R3.cross; ring
    rw [h3, h4] at this; linarith
  have wz : b1.dot (a0.cross a1) * b0.z = b0.dot (a0.cross a1) * b1.z := by
    have : a0.dot (b0.cross b1) * a1.z - a1.dot (b0.cross b1) * a0.z
        = b1.dot (a0.cross a1) * b0.z - b0.dot (a0.cross a1) * b1.z := by unfold R3.dot R3.cross; ring
    rw [h3, h4] at this; linarith
  generalize b0.dot (a0.cross a1) = d1 at *
  generalize b1.dot (a0.cross a1) = d2 at *
  have hd2 : d2 ≠ 0 := by rintro rfl; simp at h12
  have nx : b0.y * b1.z - b0.z * b1.y = 0 := by
    have : d2 * (b0.y * b1.z - b0.z * b1.y) = 0 := by linear_combination b1.z * wy - b1.y * wz
    exact (mul_eq_zero.mp this).resolve_left hd2
  have ny : b0.z * b1.x - b0.x * b1.z = 0 := by
    have : d2 * (b0.z * b1.x - b0.x * b1.z) = 0 := by linear_combination b1.x * wz - b1.z * wx
    exact (mul_eq_zero.mp this).resolve_left hd2
  have nz : b0.x * b1.y - b0.y * b1.x = 0 := by
    have : d2 * (b0.x * b1.y - b0.y * b1.x) = 0 := by linear_combination b1.y * wx - b1.x * wy
    exact (mul_eq_zero.mp this).resolve_left hd2
  have hN : (b0.cross b1).n2 = 0 := n2_zero_of_comps nx ny nz
  have hdot : 0 < b0.dot b1 := by
    rcases hB with h | h
    · rw [hN] at h; exact absurd h (lt_irrefl _)
    · exact h
  have e : d2 * b0.dot b1 = d1 * b1.n2 := by
    unfold R3.n2 R3.dot; linear_combination b1.x * wx + b1.y * wy + b1.z * wz
  have h5 : 0 < d2 * d2 * b0.dot b1 := mul_pos (mul_self_pos.mpr hd2) hdot
  have h6 : d2 * d2 * b0.dot b1 = (d1 * d2) * b1.n2 := by linear_combination d2 * e
  have h7 : (d1 * d2) * b1.n2 < 0 := mul_neg_of_neg_of_pos h12 hb1
  linarith

/-! ### a degenerate arc -/

/-- `a0 ∥ a1` (same direction): the common point is a positive multiple of `a0` -/
theorem parallel_case {a0 a1 b0 b1 : R3} {α β γ δ : ℝ} (hα : 0 < α) (hβ : 0 ≤ β) (hγ : 0 ≤ γ) (hδ : 0 ≤ δ)
    (ha0 : 0 < a0.n2) (hA : NotAntipodal a0 a1) (hN : (a0.cross a1).n2 = 0)
    (hx : α * a0.x + β * a1.x = γ * b0.x + δ * b1.x) (hy : α * a0.y + β * a1.y = γ * b0.y + δ * b1.y)
    (hz : α * a0.z + β * a1.z = γ * b0.z + δ * b1.z) : InCone b0 b1 a0 := by
  have hdot : 0 < a0.dot a1 := by
    rcases hA with h | h
    · rw [hN] at h; exact absurd h (lt_irrefl _)
    · exact h
  obtain ⟨nx, ny, nz⟩ := comps_of_n2_zero hN
  have nx : a0.y * a1.z - a0.z * a1.y = 0 := nx
  have ny : a0.z * a1.x - a0.x * a1.z = 0 := ny
  have nz : a0.x * a1.y - a0.y * a1.x = 0 := nz
  have hm : 0 < α * a0.n2 + β * a0.dot a1 := add_pos_of_pos_of_nonneg (mul_pos hα ha0) (mul_nonneg hβ hdot.le)
  refine inCone_of_scaled hm (mul_nonneg ha0.le hγ) (mul_nonneg ha0.le hδ) ?_ ?_ ?_
  · unfold R3.n2 R3.dot at *
    linear_combination (a0.x * a0.x + a0.y * a0.y + a0.z * a0.z) * hx + β * a0.y * nz - β * a0.z * ny
  · unfold R3.n2 R3.dot at *
    linear_combination (a0.x * a0.x + a0.y * a0.y + a0.z * a0.z) * hy + β * a0.z * nx - β * a0.x * nz
  · unfold R3.n2 R3.dot at *
    linear_combination (a0.x * a0.x + a0.y * a0.y + a0.z * a0.z) * hz + β * a0.x * ny - β * a0.y * nx

/-! ### the coplanar case -/

/-- in the plane, coordinates w.r.t. `a0 = (1,0)`, `a1 = (0,1)`: `b0 = (u0,v0)`, `b1 = (u1,v1)` positively oriented, a positive
    combination of them in the open first quadrant -/
theorem planar2 {u0 v0 u1 v1 γ δ : ℝ} (hγ : 0 < γ) (hδ : 0 < δ) (hu : 0 < γ * u0 + δ * u1)
    (hv : 0 < γ * v0 + δ * v1) (hD : 0 < u0 * v1 - u1 * v0) :
    (0 ≤ u0 ∧ 0 ≤ v0) ∨ (0 ≤ u1 ∧ 0 ≤ v1) ∨ (0 ≤ v1 ∧ v0 ≤ 0) ∨ (u1 ≤ 0 ∧ 0 ≤ u0) := by
  by_cases h0 : 0 ≤ u0
  · by_cases h1 : 0 ≤ v0
    · exact Or.inl ⟨h0, h1⟩
    · have h1 := not_le.mp h1
      have hv1 : 0 < v1 := by
        have : 0 < δ * v1 := by nlinarith
        exact (pos_iff_pos_of_mul_pos this).mp hδ
      by_cases h2 : u1 ≤ 0
      · exact Or.inr (Or.inr (Or.inr ⟨h2, h0⟩))
      · exact Or.inr (Or.inl ⟨(not_le.mp h2).le, hv1.le⟩)
  · have h0 := not_le.mp h0
    have hu1 : 0 < u1 := by
      have : 0 < δ * u1 := by nlinarith
      exact (pos_iff_pos_of_mul_pos this).mp hδ
    by_cases h2 : 0 ≤ v1
    · exact Or.inr (Or.inl ⟨hu1.le, h2⟩)
    · exfalso
      have h2 := not_le.mp h2
      have hv0 : 0 < v0 := by
        have : 0 < γ * v0 := by nlinarith
        exact (pos_iff_pos_of_mul_pos this).mp hγ
      have p1 : 0 < -(γ * u0) := by nlinarith
      have p2 : 0 < -(δ * v1) := by nlinarith
      have k : (-(γ * u0)) * (-(δ * v1)) < (δ * u1) * (γ * v0) :=
        mul_lt_mul'' (by linarith) (by linarith) p1.le p2.le
      have : 0 < (γ * δ) * (u0 * v1 - u1 * v0) := mul_pos (mul_pos hγ hδ) hD
      nlinarith

theorem planar_case {a0 a1 b0 b1 : R3} {α β γ δ : ℝ} (hα : 0 < α) (hβ : 0 < β) (hγ : 0 < γ) (hδ : 0 < δ)
    (hn : 0 < (a0.cross a1).n2) (hc : (a0.cross a1).dot (b0.cross b1) ≠ 0)
    (h1 : b0.dot (a0.cross a1) = 0) (h2 : b1.dot (a0.cross a1) = 0)
    (hx : α * a0.x + β * a1.x = γ * b0.x + δ * b1.x) (hy : α * a0.y + β * a1.y = γ * b0.y + δ * b1.y)
    (hz : α * a0.z + β * a1.z = γ * b0.z + δ * b1.z) :
    InCone a0 a1 b0 ∨ InCone a0 a1 b1 ∨ InCone b0 b1 a0 ∨ InCone b0 b1 a1 := by
  obtain ⟨e0x, e0y, e0z⟩ := basis_expand a0 a1 b0
  obtain ⟨e1x, e1y, e1z⟩ := basis_expand a0 a1 b1
  rw [h1, zero_mul, add_zero] at e0x e0y e0z
  rw [h2, zero_mul, add_zero] at e1x e1y e1z
  have hu : α * (a0.cross a1).n2
      = γ * (-(b0.dot ((a0.cross a1).cross a1))) + δ * (-(b1.dot ((a0.cross a1).cross a1))) := by
    linear_combination (norm := (simp only [R3.n2, R3.dot, R3.cross]; ring)) (-((a0.cross a1).cross a1).x) * hx + (-((a0.cross a1).cross a1).y) * hy
      + (-((a0.cross a1).cross a1).z) * hz
  have hv : β * (a0.cross a1).n2
      = γ * (b0.dot ((a0.cross a1).cross a0)) + δ * (b1.dot ((a0.cross a1).cross a0)) := by
    linear_combination (norm := (simp only [R3.n2, R3.dot, R3.cross]; ring)) (((a0.cross a1).cross a0).x) * hx + (((a0.cross a1).cross a0).y) * hy
      + (((a0.cross a1).cross a0).z) * hz
  have hD : (-(b0.dot ((a0.cross a1).cross a1))) * (b1.dot ((a0.cross a1).cross a0))
      - (-(b1.dot ((a0.cross a1).cross a1))) * (b0.dot ((a0.cross a1).cross a0))
      = (a0.cross a1).n2 * (a0.cross a1).dot (b0.cross b1) := by
    unfold R3.n2 R3.dot R3.cross; ring
  generalize (-(b0.dot ((a0.cross a1).cross a1))) = u0 at *
  generalize (b0.dot ((a0.cross a1).cross a0)) = v0 at *
  generalize (-(b1.dot ((a0.cross a1).cross a1))) = u1 at *
  generalize (b1.dot ((a0.cross a1).cross a0)) = v1 at *
  generalize (a0.cross a1).dot (b0.cross b1) = c at *
  generalize (a0.cross a1).n2 = m at *
  have hup : 0 < γ * u0 + δ * u1 := by rw [← hu]; exact mul_pos hα hn
  have hvp : 0 < γ * v0 + δ * v1 := by rw [← hv]; exact mul_pos hβ hn
  rcases lt_or_gt_of_ne hc with hneg | hpos
  · -- opposite orientation: swap b0, b1
    have hD' : 0 < u1 * v0 - u0 * v1 := by
      have : 0 < m * (-c) := mul_pos hn (by linarith)
      nlinarith
    rcases planar2 hδ hγ (by linarith) (by linarith) hD' with ⟨g1, g2⟩ | ⟨g1, g2⟩ | ⟨g1, g2⟩ | ⟨g1, g2⟩
    · exact Or.inr (Or.inl (inCone_of_scaled hn g1 g2 e1x e1y e1z))
    · exact Or.inl (inCone_of_scaled hn g1 g2 e0x e0y e0z)
    · -- 0 ≤ v0, v1 ≤ 0 :  (u1 v0 − u0 v1) a0 = m (v0 b1 − v1 b0)
      refine Or.inr (Or.inr (Or.inl (inCone_of_scaled hD' (mul_nonneg hn.le (neg_nonneg.mpr g2)) (mul_nonneg hn.le g1)
        ?_ ?_ ?_)))
      · linear_combination v1 * e0x - v0 * e1x
      · linear_combination v1 * e0y - v0 * e1y
      · linear_combination v1 * e0z - v0 * e1z
    · -- u0 ≤ 0, 0 ≤ u1 : (u1 v0 − u0 v1) a1 = m (u1 b0 − u0 b1)
      refine Or.inr (Or.inr (Or.inr (inCone_of_scaled hD' (mul_nonneg hn.le g2) (mul_nonneg hn.le (neg_nonneg.mpr g1))
        ?_ ?_ ?_)))
      · linear_combination u0 * e1x - u1 * e0x
      · linear_combination u0 * e1y - u1 * e0y
      · linear_combination u0 * e1z - u1 * e0z
  · have hD' : 0 < u0 * v1 - u1 * v0 := by rw [hD]; exact mul_pos hn hpos
    rcases planar2 hγ hδ hup hvp hD' with ⟨g1, g2⟩ | ⟨g1, g2⟩ | ⟨g1, g2⟩ | ⟨g1, g2⟩
    · exact Or.inl (inCone_of_scaled hn g1 g2 e0x e0y e0z)
    · exact Or.inr (Or.inl (inCone_of_scaled hn g1 g2 e1x e1y e1z))
    · -- 0 ≤ v1, v0 ≤ 0 : D a0 = m (v1 b0 − v0 b1)
      refine Or.inr (Or.inr (Or.inl (inCone_of_scaled hD' (mul_nonneg hn.le g1) (mul_nonneg hn.le (neg_nonneg.mpr g2))
        ?_ ?_ ?_)))
      · linear_combination v0 * e1x - v1 * e0x
      · linear_combination v0 * e1y - v1 * e0y
      · linear_combination v0 * e1z - v1 * e0z
    · -- u1 ≤ 0, 0 ≤ u0 : D a1 = m (−u1 b0 + u0 b1)
      refine Or.inr (Or.inr (Or.inr (inCone_of_scaled hD' (mul_nonneg hn.le (neg_nonneg.mpr g1)) (mul_nonneg hn.le g2)
        ?_ ?_ ?_)))
      · linear_combination u1 * e0x - u0 * e1x
      · linear_combination u1 * e0y - u0 * e1y
      · linear_combination u1 * e0z - u0 * e1z

/-! ### the main theorem -/

/-- scalar core of the proper-crossing case -/
theorem cross_signs {α β γ δ d1 d2 d3 d4 : ℝ} (hα : 0 < α) (hβ : 0 < β) (hγ : 0 < γ) (hδ : 0 < δ)
    (r1 : γ * d1 + δ * d2 = 0) (r2 : α * d3 + β * d4 = 0) (r3 : β * d2 = γ * d3) (h1 : d1 ≠ 0) (h3 : d3 ≠ 0) :
    d1 * d2 < 0 ∧ d3 * d4 < 0 ∧ 0 < d3 * d2 := by
  have s1 : 0 < d1 * d1 := mul_self_pos.mpr h1
  have s3 : 0 < d3 * d3 := mul_self_pos.mpr h3
  refine ⟨?_, ?_, ?_⟩
  · have e : δ * (d1 * d2) = -(γ * (d1 * d1)) := by linear_combination d1 * r1
    have : δ * (d1 * d2) < 0 := by rw [e]; exact neg_neg_of_pos (mul_pos hγ s1)
    by_contra hc
    have := mul_nonneg hδ.le (not_lt.mp hc)
    linarith
  · have e : β * (d3 * d4) = -(α * (d3 * d3)) := by linear_combination d3 * r2
    have : β * (d3 * d4) < 0 := by rw [e]; exact neg_neg_of_pos (mul_pos hα s3)
    by_contra hc
    have := mul_nonneg hβ.le (not_lt.mp hc)
    linarith
  · have e : β * (d3 * d2) = γ * (d3 * d3) := by linear_combination d3 * r3
    have : 0 < β * (d3 * d2) := by rw [e]; exact mul_pos hγ s3
    exact (pos_iff_pos_of_mul_pos this).mp hβ

/-- **two arcs that meet: proper crossing, or an endpoint of one lies in the cone of the other** (scale-free form) -/
theorem meet_cases_cone {a0 a1 b0 b1 : R3} (ha0 : 0 < a0.n2) (ha1 : 0 < a1.n2) (hb0 : 0 < b0.n2) (hb1 : 0 < b1.n2)
    (hA : NotAntipodal a0 a1) (hB : NotAntipodal b0 b1) (h : ArcsMeetR a0 a1 b0 b1) :
    ProperCrossR a0 a1 b0 b1 ∨ InCone a0 a1 b0 ∨ InCone a0 a1 b1 ∨ InCone b0 b1 a0 ∨ InCone b0 b1 a1 := by
  obtain ⟨X, ⟨α, β, hα, hβ, hXa, hX1⟩, ⟨γ, δ, hγ, hδ, hXb, _⟩⟩ := h
  have E : comb α a0 β a1 = comb γ b0 δ b1 := hXa.symm.trans hXb
  have hx : α * a0.x + β * a1.x = γ * b0.x + δ * b1.x := congrArg R3.x E
  have hy : α * a0.y + β * a1.y = γ * b0.y + δ * b1.y := congrArg R3.y E
  have hz : α * a0.z + β * a1.z = γ * b0.z + δ * b1.z := congrArg R3.z E
  have hXA : (comb α a0 β a1).n2 = 1 := by rw [← hXa]; exact hX1
  have hXB : (comb γ b0 δ b1).n2 = 1 := by rw [← hXb]; exact hX1
  rw [comb_n2] at hXA hXB
  -- a vanishing coefficient: an endpoint is a positive multiple of X
  rcases hδ.eq_or_lt with hδ0 | hδ
  · have hγp : 0 < γ := by
      rcases hγ.eq_or_lt with h | h
      · exfalso; rw [← h, ← hδ0] at hXB; norm_num at hXB
      · exact h
    rw [← hδ0] at hx hy hz
    exact Or.inr (Or.inl (inCone_of_scaled hγp hα hβ (by linarith) (by linarith) (by linarith)))
  rcases hγ.eq_or_lt with hγ0 | hγ
  · rw [← hγ0] at hx hy hz
    exact Or.inr (Or.inr (Or.inl (inCone_of_scaled hδ hα hβ (by linarith) (by linarith) (by linarith))))
  rcases hβ.eq_or_lt with hβ0 | hβ
  · have hαp : 0 < α := by
      rcases hα.eq_or_lt with h | h
      · exfalso; rw [← h, ← hβ0] at hXA; norm_num at hXA
      · exact h
    rw [← hβ0] at hx hy hz
    exact Or.inr (Or.inr (Or.inr (Or.inl (inCone_of_scaled hαp hγ.le hδ.le (by linarith) (by linarith) (by linarith)))))
  rcases hα.eq_or_lt with hα0 | hα
  · rw [← hα0] at hx hy hz
    exact Or.inr (Or.inr (Or.inr (Or.inr (inCone_of_scaled hβ hγ.le hδ.le (by linarith) (by linarith) (by linarith)))))
  -- all four coefficients positive
  have r1 : γ * b0.dot (a0.cross a1) + δ * b1.dot (a0.cross a1) = 0 := by
    linear_combination (norm := (simp only [R3.dot, R3.cross]; ring))
      (-(a0.cross a1).x) * hx + (-(a0.cross a1).y) * hy + (-(a0.cross a1).z) * hz
  have r2 : α * a0.dot (b0.cross b1) + β * a1.dot (b0.cross b1) = 0 := by
    linear_combination (norm := (simp only [R3.dot, R3.cross]; ring))
      ((b0.cross b1).x) * hx + ((b0.cross b1).y) * hy + ((b0.cross b1).z) * hz
  have r3 : β * b1.dot (a0.cross a1) = γ * a0.dot (b0.cross b1) := by
    linear_combination (norm := (simp only [R3.dot, R3.cross]; ring))
      (-(a0.cross b1).x) * hx + (-(a0.cross b1).y) * hy + (-(a0.cross b1).z) * hz
  by_cases h1 : b0.dot (a0.cross a1) = 0
  · by_cases h3 : a0.dot (b0.cross b1) = 0
    · -- coplanar
      have h2 : b1.dot (a0.cross a1) = 0 := by
        rw [h1, mul_zero, zero_add] at r1
        exact (mul_eq_zero.mp r1).resolve_left hδ.ne'
      have h4 : a1.dot (b0.cross b1) = 0 := by
        rw [h3, mul_zero, zero_add] at r2
        exact (mul_eq_zero.mp r2).resolve_left hβ.ne'
      right
      rcases (n2_nonneg (a0.cross a1)).eq_or_lt with hnA | hnA
      · exact Or.inr (Or.inr (Or.inl (parallel_case hα hβ.le hγ.le hδ.le ha0 hA hnA.symm hx hy hz)))
      rcases (n2_nonneg (b0.cross b1)).eq_or_lt with hnB | hnB
      · exact Or.inl (parallel_case hγ hδ.le hα.le hβ.le hb0 hB hnB.symm hx.symm hy.symm hz.symm)
      have hcr : ((a0.cross a1).cross (b0.cross b1)).n2 = 0 := by
        apply n2_zero_of_comps
        · have : ((a0.cross a1).cross (b0.cross b1)).x
              = a0.dot (b0.cross b1) * a1.x - a1.dot (b0.cross b1) * a0.x := by
            simp only [R3.dot, R3.cross]; ring
          rw [this, h3, h4]; ring
        · have : ((a0.cross a1).cross (b0.cross b1)).y
              = a0.dot (b0.cross b1) * a1.y - a1.dot (b0.cross b1) * a0.y := by
            simp only [R3.dot, R3.cross]; ring
          rw [this, h3, h4]; ring
        · have : ((a0.cross a1).cross (b0.cross b1)).z
              = a0.dot (b0.cross b1) * a1.z - a1.dot (b0.cross b1) * a0.z := by
            simp only [R3.dot, R3.cross]; ring
          rw [this, h3, h4]; ring
      have hc : (a0.cross a1).dot (b0.cross b1) ≠ 0 := by
        intro h0
        have hl := lagrange (a0.cross a1) (b0.cross b1)
        rw [hcr, h0] at hl
        have := mul_pos hnA hnB
        linarith
      exact planar_case hα hβ hγ hδ hnA hc h1 h2 hx hy hz
    · exfalso
      have h2 : b1.dot (a0.cross a1) = 0 := by
        rw [h1, mul_zero, zero_add] at r1
        exact (mul_eq_zero.mp r1).resolve_left hδ.ne'
      have h34 : a0.dot (b0.cross b1) * a1.dot (b0.cross b1) < 0 := by
        have e : β * (a0.dot (b0.cross b1) * a1.dot (b0.cross b1))
            = -(α * (a0.dot (b0.cross b1) * a0.dot (b0.cross b1))) := by
          linear_combination a0.dot (b0.cross b1) * r2
        have : β * (a0.dot (b0.cross b1) * a1.dot (b0.cross b1)) < 0 := by
          rw [e]; exact neg_neg_of_pos (mul_pos hα (mul_self_pos.mpr h3))
        by_contra hc
        have := mul_nonneg hβ.le (not_lt.mp hc)
        linarith
      exact no_half_cross hA ha1 h1 h2 h34
  · by_cases h3 : a0.dot (b0.cross b1) = 0
    · exfalso
      have h4 : a1.dot (b0.cross b1) = 0 := by
        rw [h3, mul_zero, zero_add] at r2
        exact (mul_eq_zero.mp r2).resolve_left hβ.ne'
      have h12 : b0.dot (a0.cross a1) * b1.dot (a0.cross a1) < 0 := by
        have e : δ * (b0.dot (a0.cross a1) * b1.dot (a0.cross a1))
            = -(γ * (b0.dot (a0.cross a1) * b0.dot (a0.cross a1))) := by
          linear_combination b0.dot (a0.cross a1) * r1
        have : δ * (b0.dot (a0.cross a1) * b1.dot (a0.cross a1)) < 0 := by
          rw [e]; exact neg_neg_of_pos (mul_pos hγ (mul_self_pos.mpr h1))
        by_contra hc
        have := mul_nonneg hδ.le (not_lt.mp hc)
        linarith
      exact no_half_cross hB hb1 h3 h4 h12
    · exact Or.inl (cross_signs hα hβ hγ hδ r1 r2 r3 h1 h3)

/-- **two arcs that meet either cross properly or the direction of an endpoint of one lies on the other** -/
theorem meet_cases {a0 a1 b0 b1 : R3} (ha0 : 0 < a0.len) (ha1 : 0 < a1.len) (hb0 : 0 < b0.len) (hb1 : 0 < b1.len)
    (hA : NotAntipodal a0 a1) (hB : NotAntipodal b0 b1) (h : ArcsMeetR a0 a1 b0 b1) :
    ProperCrossR a0 a1 b0 b1 ∨ dirOn a0 a1 b0 ∨ dirOn a0 a1 b1 ∨ dirOn b0 b1 a0 ∨ dirOn b0 b1 a1 := by
  rcases meet_cases_cone (len_pos_iff.mp ha0) (len_pos_iff.mp ha1) (len_pos_iff.mp hb0) (len_pos_iff.mp hb1) hA hB h
    with h | h | h | h | h
  · exact Or.inl h
  · exact Or.inr (Or.inl (dirOn_of_inCone hb0 h))
  · exact Or.inr (Or.inr (Or.inl (dirOn_of_inCone hb1 h)))
  · exact Or.inr (Or.inr (Or.inr (Or.inl (dirOn_of_inCone ha0 h))))
  · exact Or.inr (Or.inr (Or.inr (Or.inr (dirOn_of_inCone ha1 h))))

/-! ### the converse and the equivalence -/

theorem dirOn_unit {a b x : R3} (h : dirOn a b x) : (comb (1 / x.len) x 0 x).n2 = 1 :=
  h.choose_spec.choose_spec.2.2.2

/-- the direction of `b0` on arc `A` is a common point -/
theorem meets_of_dirOn_b0 {a0 a1 b0 b1 : R3} (hb0 : 0 < b0.len) (h : dirOn a0 a1 b0) : ArcsMeetR a0 a1 b0 b1 :=
  ⟨_, h, onArc_left' b0 b1 hb0⟩

theorem meets_of_dirOn_b1 {a0 a1 b0 b1 : R3} (hb1 : 0 < b1.len) (h : dirOn a0 a1 b1) : ArcsMeetR a0 a1 b0 b1 :=
  ⟨_, h, onArc_right' b0 b1 hb1⟩

theorem meets_of_dirOn_a0 {a0 a1 b0 b1 : R3} (ha0 : 0 < a0.len) (h : dirOn b0 b1 a0) : ArcsMeetR a0 a1 b0 b1 :=
  ⟨_, onArc_left' a0 a1 ha0, h⟩

theorem meets_of_dirOn_a1 {a0 a1 b0 b1 : R3} (ha1 : 0 < a1.len) (h : dirOn b0 b1 a1) : ArcsMeetR a0 a1 b0 b1 :=
  ⟨_, onArc_right' a0 a1 ha1, h⟩

/-- **the arcs meet iff they cross properly or an endpoint direction of one lies on the other** -/
theorem meet_iff {a0 a1 b0 b1 : R3} (ha0 : 0 < a0.len) (ha1 : 0 < a1.len) (hb0 : 0 < b0.len) (hb1 : 0 < b1.len)
    (hA : NotAntipodal a0 a1) (hB : NotAntipodal b0 b1) :
    ArcsMeetR a0 a1 b0 b1 ↔
      (ProperCrossR a0 a1 b0 b1 ∨ dirOn a0 a1 b0 ∨ dirOn a0 a1 b1 ∨ dirOn b0 b1 a0 ∨ dirOn b0 b1 a1) := by
  constructor
  · exact meet_cases ha0 ha1 hb0 hb1 hA hB
  · rintro (h | h | h | h | h)
    · exact proper_cross_meets h
    · exact meets_of_dirOn_b0 hb0 h
    · exact meets_of_dirOn_b1 hb1 h
    · exact meets_of_dirOn_a0 ha0 h
    · exact meets_of_dirOn_a1 ha1 h

/-- contrapositive form used for "no crossing and no endpoint on the other arc ⇒ the arcs are disjoint" -/
theorem not_meet_of_no_case {a0 a1 b0 b1 : R3} (ha0 : 0 < a0.len) (ha1 : 0 < a1.len) (hb0 : 0 < b0.len)
    (hb1 : 0 < b1.len) (hA : NotAntipodal a0 a1) (hB : NotAntipodal b0 b1)
    (hx : ¬ ProperCrossR a0 a1 b0 b1) (h1 : ¬ dirOn a0 a1 b0) (h2 : ¬ dirOn a0 a1 b1) (h3 : ¬ dirOn b0 b1 a0)
    (h4 : ¬ dirOn b0 b1 a1) : ¬ ArcsMeetR a0 a1 b0 b1 := by
  intro h
  rcases meet_cases ha0 ha1 hb0 hb1 hA hB h with g | g | g | g | g
  · exact hx g
  · exact h1 g
  · exact h2 g
  · exact h3 g
  · exact h4 g

/-! ### non-vacuity: a T-junction (the arcs meet at `a1 = b0`, no proper crossing) satisfies all hypotheses -/

example : ∃ a0 a1 b0 b1 : R3, 0 < a0.len ∧ 0 < a1.len ∧ 0 < b0.len ∧ 0 < b1.len ∧ NotAntipodal a0 a1 ∧
    NotAntipodal b0 b1 ∧ ArcsMeetR a0 a1 b0 b1 ∧ ¬ ProperCrossR a0 a1 b0 b1 := by
  refine ⟨⟨1, 0, 0⟩, ⟨0, 1, 0⟩, ⟨0, 1, 0⟩, ⟨0, 0, 1⟩, ?_, ?_, ?_, ?_, ?_, ?_, ?_, ?_⟩
  · exact len_pos_iff.mpr (by norm_num [R3.n2, R3.dot])
  · exact len_pos_iff.mpr (by norm_num [R3.n2, R3.dot])
  · exact len_pos_iff.mpr (by norm_num [R3.n2, R3.dot])
  · exact len_pos_iff.mpr (by norm_num [R3.n2, R3.dot])
  · exact Or.inl (by norm_num [R3.n2, R3.dot, R3.cross])
  · exact Or.inl (by norm_num [R3.n2, R3.dot, R3.cross])
  · refine ⟨⟨0, 1, 0⟩, ⟨0, 1, le_refl _, zero_le_one, ?_, ?_⟩, ⟨1, 0, zero_le_one, le_refl _, ?_, ?_⟩⟩
    · simp [R3.comb]
    · norm_num [R3.n2, R3.dot]
    · simp [R3.comb]
    · norm_num [R3.n2, R3.dot]
  · rintro ⟨h, _, _⟩
    norm_num [R3.dot, R3.cross] at h

/-- a proper crossing also satisfies them (and then `ProperCrossR` is the alternative that holds) -/
example : ∃ a0 a1 b0 b1 : R3, 0 < a0.len ∧ 0 < a1.len ∧ 0 < b0.len ∧ 0 < b1.len ∧ NotAntipodal a0 a1 ∧
    NotAntipodal b0 b1 ∧ ProperCrossR a0 a1 b0 b1 := by
  refine ⟨⟨1, -1, 0⟩, ⟨1, 1, 0⟩, ⟨1, 0, -1⟩, ⟨1, 0, 1⟩, ?_, ?_, ?_, ?_, ?_, ?_, ?_, ?_, ?_⟩
  · exact len_pos_iff.mpr (by norm_num [R3.n2, R3.dot])
  · exact len_pos_iff.mpr (by norm_num [R3.n2, R3.dot])
  · exact len_pos_iff.mpr (by norm_num [R3.n2, R3.dot])
  · exact len_pos_iff.mpr (by norm_num [R3.n2, R3.dot])
  · exact Or.inl (by norm_num [R3.n2, R3.dot, R3.cross])
  · exact Or.inl (by norm_num [R3.n2, R3.dot, R3.cross])
  · norm_num [R3.dot, R3.cross]
  · norm_num [R3.dot, R3.cross]
  · norm_num [R3.dot, R3.cross]

end S2Proofs.C12Dist2
