/-
  C12Dist2.EdgeFinal — `Cell.DistanceToEdge`: all three parametrised facts of `distanceToEdge_lower_of` discharged
  (`nearQuad_cell`, `touchLemma`, `noCross_float_unitPt`): the LOWER BOUND with explicit slack and the hypotheses of c17err only.
-/
import S2Proofs.C12Dist2.CellNear
import S2Proofs.C12Dist2.NoCross

set_option linter.unusedSimpArgs false
set_option linter.unusedVariables false

namespace S2Proofs.C12Dist2
open S2 S2.CellID S2.CellM S2.CellEdgeM S2.EdgeNum S2Proofs.F64Order S2Proofs.FloatErr
open S2Proofs.C17Err S2Proofs.C17Err.R3 S2Proofs.C17Pairs S2Proofs.C17 S2Proofs.C08World S2Proofs.C12Dist S2Proofs.C12

/-- the crossing loop against the float edges, in the indexing of `NoCrossLink` -/
theorem noCrossLink_cell (c : Cell) {a b : V3} (ha : UnitPt a) (hb : UnitPt b)
    (hv : ∀ k, k < 4 → UnitPt (vertex c k)) : NoCrossLink c a b := by
  intro h k
  obtain ⟨n0, n1, n2, n3⟩ := noCross_float_unitPt c ha hb hv h
  rcases k with ⟨k, hk⟩
  unfold floatV
  interval_cases k
  · exact n1
  · exact n2
  · exact n3
  · exact n0

/-- the slack of `DistanceToEdge` : `2^-45 + 2^-49 + 2·2u + 2·8u + (8u)² ≤ 2^-44` -/
theorem edgeSlack_le : (1 : ℝ) / 2 ^ 45 + 1 / 2 ^ 49 + 2 * (2 * uR) + 2 * (8 * uR) + (8 * uR) ^ 2 ≤ 1 / 2 ^ 44 := by
  unfold uR; norm_num

/-- **LOWER BOUND of `DistanceToEdge`** (float model, exact cell, exact arc) -/
theorem distanceToEdge_lower (id : CellID) (hv : isValid id = true) (a b : V3)
    (ha : UnitPt a) (hb : UnitPt b) (hE : EdgeOK a b)
    (hV : ∀ k, k < 4 → VertexCallOK (vertex (cellFromCellID id) k) a b)
    {q r : R3} (hq : InCellXYZ (cellFromCellID id) (toAcc q)) (hr : OnArc (vecR a) (vecR b) r) :
    Fin (distanceToEdge (cellFromCellID id) a b) ∧
    val (distanceToEdge (cellFromCellID id) a b) ≤ chordPQ q r + 1 / 2 ^ 44 := by
  obtain ⟨hf, h⟩ := distanceToEdge_lower_of id hv a b ha hb hE hV (nearQuad_cell id hv) touchLemma
    (noCrossLink_cell _ ha hb (fun k hk => (hV k hk).hv)) hq hr
  exact ⟨hf, by have := edgeSlack_le; linarith⟩

end S2Proofs.C12Dist2
