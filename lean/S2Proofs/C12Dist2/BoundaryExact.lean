/-
  C12Dist2.BoundaryExact — the case analysis of `Cell.BoundaryDistance` (`distanceInternal c p false`) is geometrically
  right IN EXACT ARITHMETIC.

  `bdExact r T` is the algorithm evaluated on real numbers: the four edge tests in the code's order, in the interior case
  the least of the four `edgeReal`s (`bdExactInside`), otherwise the minimum over the four vertices.
  `bdExact_correct` : for a unit target it is exactly the minimum of `|T − q|²` over the cell's BOUNDARY, and it is
  attained at a boundary point.  The new part is the interior case (`bdExactInside_correct`, any non-zero target of the
  closed cone): every boundary point lies on one of the four edge circles (`boundary_lower`), and for EACH edge the
  segment from the target to the foot of that edge's circle leaves the cone through a boundary point that is at least
  as close (`walk`).
-/
import S2Proofs.C12Dist2.BoundaryGeom
import S2Proofs.C12Dist.ExactAlg

namespace S2Proofs.C12Dist2
open S2Proofs.C16Acc S2Proofs.C12Dist S2Proofs.C12Dist2.BdGeom
open Classical

/-- the interior case of `BoundaryDistance` over the reals: the least of the four edge values -/
noncomputable def bdExactInside (r : RRect) (t : R3) : ℝ :=
  min (min (edgeReal (-(sL r t)) r.u0 t.y (r.u0 * t.x + t.z)) (edgeReal (sR r t) r.u1 t.y (r.u1 * t.x + t.z)))
      (min (edgeReal (-(sB r t)) r.v0 t.x (r.v0 * t.y + t.z)) (edgeReal (sT r t) r.v1 t.x (r.v1 * t.y + t.z)))

theorem bd_z_pos_of_inside (r : RRect) (hr : r.OK) (t : R3) (hI : ExInside r t) (ht : 0 < t.norm2) : 0 < t.z := by
  obtain ⟨h1, h2, h3, h4⟩ := hI
  unfold sL at h1; unfold sR at h2; unfold sB at h3; unfold sT at h4
  have hz0 : 0 ≤ t.z := by
    have hu := hr.u_lt
    by_contra hneg
    have hneg' : t.z < 0 := not_le.1 hneg
    nlinarith
  rcases lt_or_eq_of_le hz0 with h | h
  · exact h
  · exfalso
    rw [← h] at h1 h2 h3 h4
    have hx : t.x = 0 := by linarith
    have hy : t.y = 0 := by linarith
    unfold R3.norm2 at ht; rw [hx, hy, ← h] at ht; simp at ht

section exact
variable (r : RRect) (hr : r.OK) (t : R3) (hI : ExInside r t) (ht : 0 < t.norm2)
include hr hI ht

theorem bd_exact_attained_L :
    ∃ q, OnBoundary r q ∧ dist2 t q ≤ edgeReal (-(sL r t)) r.u0 t.y (r.u0 * t.x + t.z) := by
  obtain ⟨f, f1, f2, f3⟩ := foot_u r.u0 t
  obtain ⟨q, hq, hd⟩ := walk r hr t f hI (bd_z_pos_of_inside r hr t hI ht) f1 (Or.inl (by unfold sL; rw [f2]; ring))
  refine ⟨q, hq, ?_⟩
  rw [edgeReal_eq, dist2_eq, hq.1.1, neg_sq]
  unfold sL
  have := frame_norm_u r.u0 t
  linarith

theorem bd_exact_attained_R :
    ∃ q, OnBoundary r q ∧ dist2 t q ≤ edgeReal (sR r t) r.u1 t.y (r.u1 * t.x + t.z) := by
  obtain ⟨f, f1, f2, f3⟩ := foot_u r.u1 t
  obtain ⟨q, hq, hd⟩ := walk r hr t f hI (bd_z_pos_of_inside r hr t hI ht) f1
    (Or.inr (Or.inl (by unfold sR; rw [f2]; ring)))
  refine ⟨q, hq, ?_⟩
  rw [edgeReal_eq, dist2_eq, hq.1.1]
  unfold sR
  have := frame_norm_u r.u1 t
  linarith

theorem bd_exact_attained_B :
    ∃ q, OnBoundary r q ∧ dist2 t q ≤ edgeReal (-(sB r t)) r.v0 t.x (r.v0 * t.y + t.z) := by
  obtain ⟨f, f1, f2, f3⟩ := foot_v r.v0 t
  obtain ⟨q, hq, hd⟩ := walk r hr t f hI (bd_z_pos_of_inside r hr t hI ht) f1
    (Or.inr (Or.inr (Or.inl (by unfold sB; rw [f2]; ring))))
  refine ⟨q, hq, ?_⟩
  rw [edgeReal_eq, dist2_eq, hq.1.1, neg_sq]
  unfold sB
  have := frame_norm_v r.v0 t
  linarith

theorem bd_exact_attained_T :
    ∃ q, OnBoundary r q ∧ dist2 t q ≤ edgeReal (sT r t) r.v1 t.x (r.v1 * t.y + t.z) := by
  obtain ⟨f, f1, f2, f3⟩ := foot_v r.v1 t
  obtain ⟨q, hq, hd⟩ := walk r hr t f hI (bd_z_pos_of_inside r hr t hI ht) f1
    (Or.inr (Or.inr (Or.inr (by unfold sT; rw [f2]; ring))))
  refine ⟨q, hq, ?_⟩
  rw [edgeReal_eq, dist2_eq, hq.1.1]
  unfold sT
  have := frame_norm_v r.v1 t
  linarith

end exact

/-- the lower half needs nothing about the target: every boundary point is at least `bdExactInside` away -/
theorem bdExactInside_le (r : RRect) (t q : R3) (hq : OnBoundary r q) : bdExactInside r t ≤ dist2 t q := by
  unfold bdExactInside
  rcases boundary_lower r t q hq with h | h | h | h
  · exact le_trans (le_trans (min_le_left _ _) (min_le_left _ _)) h
  · exact le_trans (le_trans (min_le_left _ _) (min_le_right _ _)) h
  · exact le_trans (le_trans (min_le_right _ _) (min_le_left _ _)) h
  · exact le_trans (le_trans (min_le_right _ _) (min_le_right _ _)) h

/-- **the interior case in exact arithmetic**: for a non-zero target in the closed cone over the rectangle, the least of
    the four edge values IS the minimum of `|t − q|²` over the boundary of the cell, and it is attained -/
theorem bdExactInside_correct (r : RRect) (hr : r.OK) (t : R3) (hI : ExInside r t) (ht : 0 < t.norm2) :
    (∀ q, OnBoundary r q → bdExactInside r t ≤ dist2 t q) ∧
    (∃ q, OnBoundary r q ∧ dist2 t q = bdExactInside r t) := by
  refine ⟨fun q hq => bdExactInside_le r t q hq, ?_⟩
  have fin : ∀ q, OnBoundary r q → dist2 t q ≤ bdExactInside r t → ∃ q, OnBoundary r q ∧ dist2 t q = bdExactInside r t :=
    fun q hq h => ⟨q, hq, le_antisymm h (bdExactInside_le r t q hq)⟩
  rcases min_choice (min (edgeReal (-(sL r t)) r.u0 t.y (r.u0 * t.x + t.z)) (edgeReal (sR r t) r.u1 t.y (r.u1 * t.x + t.z)))
      (min (edgeReal (-(sB r t)) r.v0 t.x (r.v0 * t.y + t.z)) (edgeReal (sT r t) r.v1 t.x (r.v1 * t.y + t.z))) with h | h
  · rcases min_choice (edgeReal (-(sL r t)) r.u0 t.y (r.u0 * t.x + t.z)) (edgeReal (sR r t) r.u1 t.y (r.u1 * t.x + t.z)) with h' | h'
    · obtain ⟨q, hq, hd⟩ := bd_exact_attained_L r hr t hI ht
      exact fin q hq (by unfold bdExactInside; rw [h, h']; exact hd)
    · obtain ⟨q, hq, hd⟩ := bd_exact_attained_R r hr t hI ht
      exact fin q hq (by unfold bdExactInside; rw [h, h']; exact hd)
  · rcases min_choice (edgeReal (-(sB r t)) r.v0 t.x (r.v0 * t.y + t.z)) (edgeReal (sT r t) r.v1 t.x (r.v1 * t.y + t.z)) with h' | h'
    · obtain ⟨q, hq, hd⟩ := bd_exact_attained_B r hr t hI ht
      exact fin q hq (by unfold bdExactInside; rw [h, h']; exact hd)
    · obtain ⟨q, hq, hd⟩ := bd_exact_attained_T r hr t hI ht
      exact fin q hq (by unfold bdExactInside; rw [h, h']; exact hd)

/-- `distanceInternal … false` (= `BoundaryDistance`) over the reals -/
noncomputable def bdExact (r : RRect) (T : R3) : ℝ :=
  if ExL r T then edgeReal (-(sL r T)) r.u0 T.y (r.u0 * T.x + T.z)
  else if ExR r T then edgeReal (sR r T) r.u1 T.y (r.u1 * T.x + T.z)
  else if ExB r T then edgeReal (-(sB r T)) r.v0 T.x (r.v0 * T.y + T.z)
  else if ExT r T then edgeReal (sT r T) r.v1 T.x (r.v1 * T.y + T.z)
  else if ExInside r T then bdExactInside r T
  else T.norm2 + 1 - 2 * maxVertexDot r T

/-- **The case split of `BoundaryDistance` is right in exact arithmetic**: for a unit target the value is a lower bound
    of the distance to every point of the cell's boundary, and it is attained at a boundary point. -/
theorem bdExact_correct (r : RRect) (hr : r.OK) (T : R3) (hT : T.norm2 = 1) :
    (∀ q, OnBoundary r q → bdExact r T ≤ dist2 T q) ∧ (∃ q, OnBoundary r q ∧ dist2 T q = bdExact r T) := by
  unfold bdExact
  by_cases hL : ExL r T
  · rw [if_pos hL]
    refine ⟨fun q hq => ?_, ?_⟩
    · have := edge_lower_L r T q hq.1
      rw [max_eq_right (le_of_lt hL.1)] at this; linarith
    · exact edge_attained_L r hr T hL.2.1 hL.2.2
  rw [if_neg hL]
  by_cases hR : ExR r T
  · rw [if_pos hR]
    refine ⟨fun q hq => ?_, ?_⟩
    · have := edge_lower_R r T q hq.1
      rw [max_eq_right (by linarith [hR.1])] at this; linarith
    · exact edge_attained_R r hr T hR.2.1 hR.2.2
  rw [if_neg hR]
  by_cases hB : ExB r T
  · rw [if_pos hB]
    refine ⟨fun q hq => ?_, ?_⟩
    · have := edge_lower_B r T q hq.1
      rw [max_eq_right (le_of_lt hB.1)] at this; linarith
    · exact edge_attained_B r hr T hB.2.1 hB.2.2
  rw [if_neg hB]
  by_cases hT' : ExT r T
  · rw [if_pos hT']
    refine ⟨fun q hq => ?_, ?_⟩
    · have := edge_lower_T r T q hq.1
      rw [max_eq_right (by linarith [hT'.1])] at this; linarith
    · exact edge_attained_T r hr T hT'.2.1 hT'.2.2
  rw [if_neg hT']
  by_cases hI : ExInside r T
  · rw [if_pos hI]
    exact bdExactInside_correct r hr T hI (by rw [hT]; norm_num)
  rw [if_neg hI]
  refine ⟨fun q hq => ?_, maxVertexDot_attained r hr T⟩
  have := vertex_cover r hr T q hq.1 hI hL hR hB hT'
  rw [dist2_eq, hq.1.1]; linarith

-- non-vacuity: the face square, the unit target (0,0,1) is in the interior case; its boundary distance is
-- `bdExactInside = 2 − √2` (45° to each edge) — the hypotheses of both theorems hold
example : (⟨-1, 1, -1, 1⟩ : RRect).OK ∧ ExInside ⟨-1, 1, -1, 1⟩ (⟨0, 0, 1⟩ : R3) ∧ (⟨0, 0, 1⟩ : R3).norm2 = 1 :=
  ⟨⟨by norm_num, by norm_num, by norm_num, by norm_num, by norm_num, by norm_num⟩,
   by unfold ExInside sL sR sB sT; norm_num, by unfold R3.norm2; norm_num⟩

end S2Proofs.C12Dist2
