/-
  C12Dist2.BoundaryOrder — `Distance(p) ≤ BoundaryDistance(p)` as floats (the boundary is a subset of the cell), and the
  range of the interior value: outside the interior branch the two floats coincide, inside it `Distance = 0` and each of
  the four edge values is in `[0, 3]` (`edgeDistance_range`).
-/
import S2Proofs.C12Dist2.Boundary

namespace S2Proofs.C12Dist2
open S2 S2.CellID S2.CellM S2Proofs.FloatErr S2Proofs.F64Order S2Proofs.C16Acc S2Proofs.C12Dist

/-- range of one edge value on the float arguments of `distanceInternal` (same arguments as `edge_value`) -/
theorem bd_edge_range (a y z k ij : F64) (ha : Fin a) (hy : Fin y) (hz : Fin z) (hk : Fin k)
    (bk : |val k| ≤ 1) (bn : val a ^ 2 + val y ^ 2 + val z ^ 2 ≤ 1 + 1 / 2 ^ 21)
    (hij : ij = a - z * k ∨ ij = -(a - z * k)) :
    0 ≤ val (edgeDistance ij k y (k * a + z)) ∧ val (edgeDistance ij k y (k * a + z)) ≤ 3 := by
  have ba : |val a| ≤ 1 + 1 / 2 ^ 20 := abs_le_of_sq_le21 (by nlinarith [sq_nonneg (val y), sq_nonneg (val z)])
  have bz : |val z| ≤ 1 + 1 / 2 ^ 20 := abs_le_of_sq_le21 (by nlinarith [sq_nonneg (val y), sq_nonneg (val a)])
  obtain ⟨fd, fw, ed, ew, _⟩ := edge_args a z k ha hz hk bk ba bz
  obtain ⟨bsum, _⟩ := edge_value_real (val k) (val y) (val a) (val z) _ _ bk bn ed ew
  have fij : Fin ij := by
    rcases hij with h | h
    · rw [h]; exact fd
    · rw [h]; exact fin_neg' fd
  have vij : val ij ^ 2 = val (a - z * k) ^ 2 := by
    rcases hij with h | h
    · rw [h]
    · rw [h, val_neg', neg_sq]
  rw [← vij] at bsum
  exact edgeDistance_range ij k y (k * a + z) fij hk hy fw bk bsum

/-- the interior value of `BoundaryDistance` is in `[0, 3]` -/
theorem edgeMin_range {c : Cell} {t : V3} (X : Ctx c t) : 0 ≤ val (edgeMin c t) ∧ val (edgeMin c t) ≤ 3 := by
  obtain ⟨fL, _⟩ := X.edgeL_val S2Proofs.C12.edgeSpec
  obtain ⟨fR, _⟩ := X.edgeR_val S2Proofs.C12.edgeSpec
  obtain ⟨fB, _⟩ := X.edgeB_val S2Proofs.C12.edgeSpec
  obtain ⟨fT, _⟩ := X.edgeT_val S2Proofs.C12.edgeSpec
  have rL := bd_edge_range t.x t.y t.z c.uv.1.1 (-(dirs c t).dir00) X.ft.1 X.ft.2.1 X.ft.2.2 X.fu0 X.bu0 X.bnx (Or.inr rfl)
  have rR := bd_edge_range t.x t.y t.z c.uv.1.2 (dirs c t).dir01 X.ft.1 X.ft.2.1 X.ft.2.2 X.fu1 X.bu1 X.bnx (Or.inl rfl)
  have rB := bd_edge_range t.y t.x t.z c.uv.2.1 (-(dirs c t).dir10) X.ft.2.1 X.ft.1 X.ft.2.2 X.fv0 X.bv0 X.bny (Or.inr rfl)
  have rT := bd_edge_range t.y t.x t.z c.uv.2.2 (dirs c t).dir11 X.ft.2.1 X.ft.1 X.ft.2.2 X.fv1 X.bv1 X.bny (Or.inl rfl)
  obtain ⟨hmem, -⟩ := minChord4 _ _ _ _ fL fR fB fT
  unfold edgeMin
  rcases hmem with h | h | h | h <;> rw [h] <;> assumption

/-- **`Distance(p) ≤ BoundaryDistance(p)`** (exact comparison of the two floats) for every valid cell and admissible point -/
theorem distance_le_boundaryDistance (id : CellID) (hv : isValid id = true) (p : V3) (hp : PtOK p) :
    val (distance (cellFromCellID id) p) ≤ val (boundaryDistance (cellFromCellID id) p) := by
  by_cases hb : distanceBranch (cellFromCellID id) p = 4
  · obtain ⟨hf, _, hn⟩ := hp
    have X := mkCtx id hv p (fin3_of_finite3 hf) hn
    rw [distance_inside_zero _ p hb, val_fzero, boundaryDistance_eq_bdUVW,
      bdUVW_of_interior ((distanceBranch_eq_four _ p).1 hb)]
    exact (edgeMin_range X).1
  · rw [boundaryDistance_eq_distance_of_branch _ p hb]

/-- in the interior branch `0 ≤ BoundaryDistance(p) ≤ 3` -/
theorem boundaryDistance_inside_range (id : CellID) (hv : isValid id = true) (p : V3) (hp : PtOK p)
    (hb : distanceBranch (cellFromCellID id) p = 4) :
    0 ≤ val (boundaryDistance (cellFromCellID id) p) ∧ val (boundaryDistance (cellFromCellID id) p) ≤ 3 := by
  obtain ⟨hf, _, hn⟩ := hp
  have X := mkCtx id hv p (fin3_of_finite3 hf) hn
  rw [boundaryDistance_eq_bdUVW, bdUVW_of_interior ((distanceBranch_eq_four _ p).1 hb)]
  exact edgeMin_range X

end S2Proofs.C12Dist2
