/-
  C12Dist2.Chain — the float loop `for i { minDist, _ = UpdateMinDistance(c.Vertex(i), a, b, minDist) }` of
  `Cell.DistanceToEdge`: the result is finite, non-negative, not above the starting value, and not above the TRUE distance
  from any of the vertices to the arc `ab` by more than `edgeErr = 2^-46` (c08world's contract of `UpdateMinDistance`
  with a limit: all exits of `interiorDist` included).
-/
import S2Proofs.EdgeQuery.PointEdgeNum
import S2.CellEdgeM

set_option linter.unusedSimpArgs false
set_option linter.unusedVariables false

namespace S2Proofs.C12Dist2
open S2 S2.Exact S2.EdgeNum S2.CellEdgeM S2Proofs.F64Order S2Proofs.FloatErr S2Proofs.C17Err S2Proofs.C17 S2Proofs.C08World

/-- the hypotheses of c17err's two-sided theorem for the call `UpdateMinDistance(v, a, b, ·)` -/
structure VertexCallOK (v a b : V3) : Prop where
  hv : UnitPt v
  hM : WedgeMargin v a b

/-- "not ok" returns the limit unchanged -/
theorem updateMin_not_ok (x a b : V3) (lim : F64) (h : (updateMinDistancePub x a b lim).2 = false) :
    (updateMinDistancePub x a b lim).1 = lim := by
  rcases updateMin_cases x a b lim with ⟨e, _⟩ | ⟨_, ⟨e, _⟩ | ⟨e, _⟩⟩
  · rw [e] at h; cases h
  · rw [e] at h; cases h
  · rw [e]

/-- **one step** of the loop with a finite non-negative running minimum -/
theorem chain_step {v a b : V3} (ha : UnitPt a) (hb : UnitPt b) (hE : EdgeOK a b) (h : VertexCallOK v a b)
    {m : F64} (fm : Fin m) (m0 : 0 ≤ val m) :
    Fin (updateMinDistancePub v a b m).1 ∧ 0 ≤ val (updateMinDistancePub v a b m).1 ∧
    val (updateMinDistancePub v a b m).1 ≤ val m ∧
    val (updateMinDistancePub v a b m).1 ≤ trueDist2 v a b + edgeErr := by
  obtain ⟨c1, c2⟩ := updateMin_contract v a b h.hv ha hb hE h.hM m (Or.inl ⟨fm, m0⟩)
  cases hok : (updateMinDistancePub v a b m).2
  · have e := updateMin_not_ok v a b m hok
    obtain ⟨_, hle⟩ := c2 hok
    rw [e]
    exact ⟨fm, m0, le_refl _, hle⟩
  · obtain ⟨fd, d0, _, hlt, herr⟩ := c1 hok
    have := (lt_val fd fm).mp hlt
    have := (abs_le.mp herr).2
    exact ⟨fd, d0, by linarith, by linarith⟩

/-- **the loop over the four vertices** -/
theorem vertexChain_bound {a b v0 v1 v2 v3 : V3} (ha : UnitPt a) (hb : UnitPt b) (hE : EdgeOK a b)
    (h0 : VertexCallOK v0 a b) (h1 : VertexCallOK v1 a b) (h2 : VertexCallOK v2 a b) (h3 : VertexCallOK v3 a b)
    {m : F64} (fm : Fin m) (m0 : 0 ≤ val m) :
    Fin (vertexChain a b m [v0, v1, v2, v3]) ∧ 0 ≤ val (vertexChain a b m [v0, v1, v2, v3]) ∧
    val (vertexChain a b m [v0, v1, v2, v3]) ≤ val m ∧
    val (vertexChain a b m [v0, v1, v2, v3]) ≤ trueDist2 v0 a b + edgeErr ∧
    val (vertexChain a b m [v0, v1, v2, v3]) ≤ trueDist2 v1 a b + edgeErr ∧
    val (vertexChain a b m [v0, v1, v2, v3]) ≤ trueDist2 v2 a b + edgeErr ∧
    val (vertexChain a b m [v0, v1, v2, v3]) ≤ trueDist2 v3 a b + edgeErr := by
  unfold vertexChain
  simp only [List.foldl_cons, List.foldl_nil]
  obtain ⟨f1, n1, l1, t1⟩ := chain_step ha hb hE h0 fm m0
  obtain ⟨f2, n2, l2, t2⟩ := chain_step ha hb hE h1 f1 n1
  obtain ⟨f3, n3, l3, t3⟩ := chain_step ha hb hE h2 f2 n2
  obtain ⟨f4, n4, l4, t4⟩ := chain_step ha hb hE h3 f3 n3
  exact ⟨f4, n4, by linarith, by linarith, by linarith, by linarith, t4⟩

end S2Proofs.C12Dist2
