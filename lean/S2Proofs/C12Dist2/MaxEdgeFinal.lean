/-
  C12Dist2.MaxEdgeFinal — `Cell.MaxDistanceToEdge`: both branches put together.

  * `maxEdge_near_sharp` : branch `return maxDist`, reported value + endSlack ≤ 2 (OUTSIDE the right-angle class):
                           endpoint rule, slack `endSlack = 2^-44 + 2^-48`;
  * `maxEdge_near_class` : the same branch INSIDE the class (2 − endSlack < maxDist ≤ 2): the cell is fat
                           (`cellOK_gap`: widths ≥ 2^-31), `arc_dot_fat`: slack `8·endSlack`;
  * `maxDistanceToEdge_upper` : every branch, slack 2^-40;  `maxDistanceToEdge_upper_sharp` : outside the class, 2^-43.
-/
import S2Proofs.C12Dist2.MaxEdge
import S2Proofs.C12Dist2.FatArc

set_option linter.unusedSimpArgs false
set_option linter.unusedVariables false

namespace S2Proofs.C12Dist2
open S2 S2.CellID S2.CellM S2.CellEdgeM S2.EdgeNum S2Proofs.F64Order S2Proofs.FloatErr
open S2Proofs.C17Err S2Proofs.C17Err.R3 S2Proofs.C17Pairs S2Proofs.C17 S2Proofs.C08World S2Proofs.C12Dist S2Proofs.C12

/-- the value `maxChordAngle(c.MaxDistance(a), c.MaxDistance(b))` -/
def endMax (c : Cell) (a b : V3) : F64 := maxChord (maxDistance c a) [maxDistance c b]

/-- **the right-angle class**: the near branch is taken (`maxDist ≤ 2`) but the reported endpoint maximum is within
    `endSlack` of 2, so that the TRUE endpoint maxima may exceed 90° -/
def RightAngleClass (c : Cell) (a b : V3) : Prop := 2 - endSlack < val (endMax c a b) ∧ val (endMax c a b) ≤ 2

/-- near branch outside the class: the endpoint rule -/
theorem maxEdge_near_sharp (id : CellID) (hv : isValid id = true) (a b : V3) (ha : UnitPt a) (hb : UnitPt b)
    (hle : val (endMax (cellFromCellID id) a b) + endSlack ≤ 2)
    {q r : R3} (hq : InCellXYZ (cellFromCellID id) (toAcc q)) (hr : OnArc (vecR a) (vecR b) r) :
    chordPQ q r ≤ val (endMax (cellFromCellID id) a b) + endSlack := by
  obtain ⟨_, hend⟩ := maxEdge_endpoints id hv a b ha hb
  have hla : 0 < (vecR a).len := ha.len_pos
  have hlb : 0 < (vecR b).len := hb.len_pos
  exact maxArc_endpoint_rule (S := fun x => InCellXYZ (cellFromCellID id) (toAcc x)) hla hlb hle
    (fun x hx => (hend x hx).1) (fun x hx => (hend x hx).2) hq hr

/-- near branch inside the class: a cell is fat -/
theorem maxEdge_near_class (id : CellID) (hv : isValid id = true) (a b : V3) (ha : UnitPt a) (hb : UnitPt b)
    (hcl : RightAngleClass (cellFromCellID id) a b)
    {q r : R3} (hq : InCellXYZ (cellFromCellID id) (toAcc q)) (hr : OnArc (vecR a) (vecR b) r) :
    chordPQ q r ≤ val (endMax (cellFromCellID id) a b) + 8 * endSlack := by
  obtain ⟨hlo, hhi⟩ := hcl
  obtain ⟨_, hend⟩ := maxEdge_endpoints id hv a b ha hb
  obtain ⟨_, _, _, _, ok, _, gu, gv⟩ := cellOK_gap id hv
  set c := cellFromCellID id with hc
  set M := val (endMax c a b) with hM
  have hQ : ∀ x : R3, (cellQuad c.face (rectOf c)).Pt x → InCellXYZ c (toAcc x) :=
    fun x hx => (pt_iff_inCell c.face (rectOf c) ok x).mp hx
  have hqPt : (cellQuad c.face (rectOf c)).Pt q := (pt_iff_inCell c.face (rectOf c) ok q).mpr hq
  have hε0 : 0 ≤ (M + endSlack - 2) / 2 := by linarith
  have hes : endSlack = 1 / 2 ^ 44 + 1 / 2 ^ 48 := rfl
  have hεw : 128 * ((M + endSlack - 2) / 2) ≤ 1 / 2 ^ 31 := by
    have : 128 * ((M + endSlack - 2) / 2) ≤ 64 * endSlack := by linarith
    rw [hes] at this
    have h2 : (64 : ℝ) * (1 / 2 ^ 44 + 1 / 2 ^ 48) ≤ 1 / 2 ^ 31 := by norm_num
    linarith
  have hA : ∀ x, (cellQuad c.face (rectOf c)).Pt x → -((M + endSlack - 2) / 2) ≤ x.dot (dirR (vecR a)) := by
    intro x hx
    have := (hend x (hQ x hx)).1
    unfold chordPQ at this
    change 2 - 2 * x.dot (dirR (vecR a)) ≤ M + endSlack at this
    linarith
  have hB : ∀ x, (cellQuad c.face (rectOf c)).Pt x → -((M + endSlack - 2) / 2) ≤ x.dot (dirR (vecR b)) := by
    intro x hx
    have := (hend x (hQ x hx)).2
    unfold chordPQ at this
    change 2 - 2 * x.dot (dirR (vecR b)) ≤ M + endSlack at this
    linarith
  have key := arc_dot_fat c.face (rectOf c) ok (w := 1 / 2 ^ 31) (by positivity) (by linarith) (by linarith)
    (a := vecR a) (b := vecR b) (show 0 < (vecR a).len from ha.len_pos) (show 0 < (vecR b).len from hb.len_pos)
    hε0 hεw hA hB hqPt hr
  unfold chordPQ
  linarith

/-- `8·endSlack ≤ 2^-40`, `endSlack ≤ 2^-43`, `farSlack ≤ endSlack` -/
theorem slack_facts : 8 * endSlack ≤ 1 / 2 ^ 40 ∧ endSlack ≤ 1 / 2 ^ 43 ∧ farSlack ≤ endSlack ∧ 0 ≤ endSlack := by
  unfold endSlack farSlack uR; norm_num

/-- which branch: the float comparison against the real one -/
theorem near_branch_iff (id : CellID) (hv : isValid id = true) (a b : V3) (ha : UnitPt a) (hb : UnitPt b) :
    F64.le (endMax (cellFromCellID id) a b) F64.two = true ↔ val (endMax (cellFromCellID id) a b) ≤ 2 := by
  obtain ⟨fm, _⟩ := maxEdge_endpoints id hv a b ha hb
  unfold endMax
  rw [le_val fm S2Proofs.C12Dist.fin_two, S2Proofs.C12Dist.val_two]

/-- **UPPER BOUND of `MaxDistanceToEdge`, every branch** (float model, exact cell, exact arc), with the slack of each branch -/
theorem maxDistanceToEdge_upper_cases (id : CellID) (hv : isValid id = true) (a b : V3)
    (ha : UnitPt a) (hb : UnitPt b) (hE : EdgeOK a b)
    (hV : ∀ k, k < 4 → VertexCallOK (vertex (cellFromCellID id) k) (negV a) (negV b))
    {q r : R3} (hq : InCellXYZ (cellFromCellID id) (toAcc q)) (hr : OnArc (vecR a) (vecR b) r) :
    Fin (maxDistanceToEdge (cellFromCellID id) a b) ∧
    chordPQ q r ≤ val (maxDistanceToEdge (cellFromCellID id) a b) + 8 * endSlack ∧
    (¬ RightAngleClass (cellFromCellID id) a b →
      chordPQ q r ≤ val (maxDistanceToEdge (cellFromCellID id) a b) + endSlack) := by
  obtain ⟨s40, s43, sfar, s0⟩ := slack_facts
  obtain ⟨fm, _⟩ := maxEdge_endpoints id hv a b ha hb
  have hbr := near_branch_iff id hv a b ha hb
  unfold maxDistanceToEdge
  simp only
  split
  · rename_i hnear
    have hle : val (endMax (cellFromCellID id) a b) ≤ 2 := hbr.mp hnear
    refine ⟨fm, ?_, ?_⟩
    · by_cases hs : val (endMax (cellFromCellID id) a b) + endSlack ≤ 2
      · have := maxEdge_near_sharp id hv a b ha hb hs hq hr
        unfold endMax at this
        linarith
      · have := maxEdge_near_class id hv a b ha hb ⟨by linarith, hle⟩ hq hr
        exact this
    · intro hncl
      have hs : val (endMax (cellFromCellID id) a b) + endSlack ≤ 2 := by
        by_contra hc
        exact hncl ⟨by linarith, hle⟩
      exact maxEdge_near_sharp id hv a b ha hb hs hq hr
  · rw [mul_negOne_eq, mul_negOne_eq]
    obtain ⟨ff, h⟩ := maxEdge_far id hv a b ha hb hE hV hq hr
    exact ⟨ff, by linarith, fun _ => by linarith⟩

end S2Proofs.C12Dist2
