/-
  C12Dist2.MaxCellFinal — `Cell.MaxDistanceToCell` WITHOUT the right-angle class of `UpdateMaxDistance`:
  every edge handed to `UpdateMaxDistance` by `MaxDistanceToCell` is a float edge of an S2 cell, hence short
  (`cell_edge_short`), so `maxCall_upper_short` applies to all 32 calls and the class conjunct of c17pairs' `MaxCallOK`
  is not needed.  Hypotheses left: the c17err domain of the 32 calls `UpdateMinDistance(−x, e0, e1)` (`AntiCallOK`).
-/
import S2Proofs.C12Dist2.MaxCell
import S2Proofs.C12Dist2.MaxCallShort
import S2Proofs.C12Dist2.CellAttained

set_option linter.unusedSimpArgs false
set_option linter.unusedVariables false

namespace S2Proofs.C12Dist2
open S2 S2.CellID S2.CellM S2.CellEdgeM S2.EdgeNum S2Proofs.F64Order S2Proofs.FloatErr
open S2Proofs.C17Err S2Proofs.C17Err.R3 S2Proofs.C17Pairs S2Proofs.C17 S2Proofs.C08World S2Proofs.C12Dist S2Proofs.C12

/-- the c17err domain of one call `UpdateMaxDistance(x, a, b, ·)`: that of `UpdateMinDistance(−x, a, b, ·)`; NO class condition -/
structure AntiCallOK (x a b : V3) : Prop where
  hx : UnitPt x
  ha : UnitPt a
  hb : UnitPt b
  hE : EdgeOK a b
  hM : WedgeMargin (negV x) a b

theorem AntiCallOK.of_maxCallOK {x a b : V3} (h : MaxCallOK x a b) : AntiCallOK x a b := ⟨h.hx, h.ha, h.hb, h.hE, h.hM⟩

/-- **UPPER BOUND of `MaxDistanceToCell`, no class excluded** -/
theorem maxDistanceToCell_upper_noclass (id id' : CellID) (hv : isValid id = true) (hv' : isValid id' = true)
    (hcalls : ∀ t ∈ pairCalls (vertices (cellFromCellID id)) (vertices (cellFromCellID id')), AntiCallOK t.1 t.2.1 t.2.2)
    {q q' : R3} (hq : InCellXYZ (cellFromCellID id) (toAcc q)) (hq' : InCellXYZ (cellFromCellID id') (toAcc q')) :
    Fin (maxDistanceToCell (cellFromCellID id) (cellFromCellID id')) ∧
    chordPQ q q' ≤ val (maxDistanceToCell (cellFromCellID id) (cellFromCellID id')) + 1 / 2 ^ 45 := by
  apply maxDistanceToCell_upper' id id' hv hv' _ hq hq'
  intro t ht
  obtain ⟨hx, ha, hb, hE, hM⟩ := hcalls t ht
  have hvs : vertices (cellFromCellID id) = [vertex (cellFromCellID id) 0, vertex (cellFromCellID id) 1,
    vertex (cellFromCellID id) 2, vertex (cellFromCellID id) 3] := rfl
  have hvt : vertices (cellFromCellID id') = [vertex (cellFromCellID id') 0, vertex (cellFromCellID id') 1,
    vertex (cellFromCellID id') 2, vertex (cellFromCellID id') 3] := rfl
  rw [hvs, hvt] at ht
  rcases mem_pairCalls_cases (vertex (cellFromCellID id)) (vertex (cellFromCellID id')) ht with ⟨k, j, rfl⟩ | ⟨j, k, rfl⟩
  · exact maxCall_upper_short hx ha hb hE hM (cell_edge_short id' hv' j)
  · exact maxCall_upper_short hx ha hb hE hM (cell_edge_short id hv k)

end S2Proofs.C12Dist2
