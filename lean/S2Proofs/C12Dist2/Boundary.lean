/-
  C12Dist2.Boundary — `Cell.BoundaryDistance(p)` (`distanceInternal c p false`): LOWER BOUND and ATTAINED.

  `boundaryDistance` differs from `distance` only in the interior branch (`distanceBranch = 4`), where it returns the
  minimum of the four `edgeDistance`s instead of the literal 0 (`boundaryDistance_eq_distance_of_branch`,
  `boundaryDistance_inside`).

  For EVERY valid cell id and every `PtOK` point (`u = 2^-53`):
  * `boundaryDistance_lower_bound` : `BoundaryDistance(p) ≤ |p − q|² + 2^-45` for every point `q` of the cell's BOUNDARY
    (non-interior branches: `distUVW_lower`, 253u; interior branch: the value is ≤ each edge value, each edge value is
    within `9u + 27u` of `edgeReal`, and a point ON an edge circle is at least `edgeReal` away: 36u);
  * `boundaryDistance_attained` : some point `q` of the boundary has `|BoundaryDistance(p) − min 4 |p − q|²| ≤ 2^-47`
    (57u; NO `(|p|−1)²` term is needed; interior branch: `9u + 27u + 8·1.02u ≤ 45u` by the clamp-and-walk argument
    `BdGeom.inside_attained_*`; edge / vertex branches: the witnesses of `Distance` are boundary points).
-/
import S2Proofs.C12Dist2.BoundaryGeom
import S2Proofs.Properties.C12_Distance

namespace S2Proofs.C12Dist2
open S2 S2.CellID S2.CellM S2Proofs.FloatErr S2Proofs.F64Order S2Proofs.C16Acc S2Proofs.C12Dist
open S2Proofs.C12Dist2.BdGeom

/-! ### definitional facts -/

/-- the value of the interior branch of `BoundaryDistance`: the minimum of the four edge distances -/
def edgeMin (c : Cell) (t : V3) : F64 :=
  minChord (edgeDistance (-(dirs c t).dir00) c.uv.1.1 t.y (c.uv.1.1 * t.x + t.z))
    [edgeDistance (dirs c t).dir01 c.uv.1.2 t.y (c.uv.1.2 * t.x + t.z),
     edgeDistance (-(dirs c t).dir10) c.uv.2.1 t.x (c.uv.2.1 * t.y + t.z),
     edgeDistance (dirs c t).dir11 c.uv.2.2 t.x (c.uv.2.2 * t.y + t.z)]

/-- `Cell.BoundaryDistance` as a function of the face-frame target -/
def bdUVW (c : Cell) (t : V3) : F64 :=
  let d := dirs c t
  if F64.lt d.dir00 fzero && vEdgeIsClosest c t false then edgeDistance (-d.dir00) c.uv.1.1 t.y (c.uv.1.1 * t.x + t.z)
  else if F64.gt d.dir01 fzero && vEdgeIsClosest c t true then edgeDistance d.dir01 c.uv.1.2 t.y (c.uv.1.2 * t.x + t.z)
  else if F64.lt d.dir10 fzero && uEdgeIsClosest c t false then edgeDistance (-d.dir10) c.uv.2.1 t.x (c.uv.2.1 * t.y + t.z)
  else if F64.gt d.dir11 fzero && uEdgeIsClosest c t true then edgeDistance d.dir11 c.uv.2.2 t.x (c.uv.2.2 * t.y + t.z)
  else if d.inside then edgeMin c t
  else minChord (vertexChordDist2 c t false false)
      [vertexChordDist2 c t true false, vertexChordDist2 c t false true, vertexChordDist2 c t true true]

theorem boundaryDistance_eq_bdUVW (c : Cell) (p : V3) :
    boundaryDistance c p = bdUVW c (faceXYZtoUVW c.face p) := by
  unfold boundaryDistance distanceInternal bdUVW edgeMin
  simp only [Bool.false_eq_true, if_false]

/-- the interior branch is taken (face-frame form of `distanceBranch = 4`) -/
def interiorBranch (c : Cell) (t : V3) : Bool :=
  !(F64.lt (dirs c t).dir00 fzero && vEdgeIsClosest c t false) &&
  !(F64.gt (dirs c t).dir01 fzero && vEdgeIsClosest c t true) &&
  !(F64.lt (dirs c t).dir10 fzero && uEdgeIsClosest c t false) &&
  !(F64.gt (dirs c t).dir11 fzero && uEdgeIsClosest c t true) && (dirs c t).inside

theorem distanceBranch_eq_four (c : Cell) (p : V3) :
    distanceBranch c p = 4 ↔ interiorBranch c (faceXYZtoUVW c.face p) = true := by
  unfold distanceBranch interiorBranch
  simp only
  cases (F64.lt (dirs c (faceXYZtoUVW c.face p)).dir00 fzero && vEdgeIsClosest c (faceXYZtoUVW c.face p) false) <;>
  cases (F64.gt (dirs c (faceXYZtoUVW c.face p)).dir01 fzero && vEdgeIsClosest c (faceXYZtoUVW c.face p) true) <;>
  cases (F64.lt (dirs c (faceXYZtoUVW c.face p)).dir10 fzero && uEdgeIsClosest c (faceXYZtoUVW c.face p) false) <;>
  cases (F64.gt (dirs c (faceXYZtoUVW c.face p)).dir11 fzero && uEdgeIsClosest c (faceXYZtoUVW c.face p) true) <;>
  cases (dirs c (faceXYZtoUVW c.face p)).inside <;> simp

theorem bdUVW_of_interior {c : Cell} {t : V3} (h : interiorBranch c t = true) : bdUVW c t = edgeMin c t := by
  unfold interiorBranch at h
  unfold bdUVW
  simp only
  split_ifs with h1 h2 h3 h4 h5 <;> simp_all

theorem bdUVW_of_not_interior {c : Cell} {t : V3} (h : interiorBranch c t = false) : bdUVW c t = distUVW c t := by
  unfold interiorBranch at h
  unfold bdUVW distUVW
  simp only
  split_ifs with h1 h2 h3 h4 h5 <;> simp_all

/-- **`BoundaryDistance = Distance` outside the interior branch** -/
theorem boundaryDistance_eq_distance_of_branch (c : Cell) (p : V3) (h : distanceBranch c p ≠ 4) :
    boundaryDistance c p = distance c p := by
  rw [boundaryDistance_eq_bdUVW, distance_eq_distUVW]
  apply bdUVW_of_not_interior
  rw [Ne, distanceBranch_eq_four] at h
  exact Bool.eq_false_iff.2 h

/-- **in the interior branch `BoundaryDistance` is the minimum of the four edge distances** -/
theorem boundaryDistance_inside (c : Cell) (p : V3) (h : distanceBranch c p = 4) :
    boundaryDistance c p =
      minChord (edgeDistance (-(dirs c (faceXYZtoUVW c.face p)).dir00) c.uv.1.1 (faceXYZtoUVW c.face p).y
          (c.uv.1.1 * (faceXYZtoUVW c.face p).x + (faceXYZtoUVW c.face p).z))
        [edgeDistance (dirs c (faceXYZtoUVW c.face p)).dir01 c.uv.1.2 (faceXYZtoUVW c.face p).y
          (c.uv.1.2 * (faceXYZtoUVW c.face p).x + (faceXYZtoUVW c.face p).z),
         edgeDistance (-(dirs c (faceXYZtoUVW c.face p)).dir10) c.uv.2.1 (faceXYZtoUVW c.face p).x
          (c.uv.2.1 * (faceXYZtoUVW c.face p).y + (faceXYZtoUVW c.face p).z),
         edgeDistance (dirs c (faceXYZtoUVW c.face p)).dir11 c.uv.2.2 (faceXYZtoUVW c.face p).x
          (c.uv.2.2 * (faceXYZtoUVW c.face p).y + (faceXYZtoUVW c.face p).z)] := by
  rw [boundaryDistance_eq_bdUVW, bdUVW_of_interior ((distanceBranch_eq_four c p).1 h)]
  rfl

/-! ### the four edge values in the interior branch -/

/-- all four edge values are finite and within `eE + 27u` of their `edgeReal`; the minimum is one of them and below all -/
theorem edgeMin_facts {eE : ℝ} (HE : EdgeSpec eE) {c : Cell} {t : V3} (X : Ctx c t) :
    Fin (edgeMin c t) ∧
    (val (edgeMin c t) ≤ edgeReal (-(sL (rectOf c) (ofV t))) (rectOf c).u0 (ofV t).y ((rectOf c).u0 * (ofV t).x + (ofV t).z) + (eE + 27 * uR) ∧
     val (edgeMin c t) ≤ edgeReal (sR (rectOf c) (ofV t)) (rectOf c).u1 (ofV t).y ((rectOf c).u1 * (ofV t).x + (ofV t).z) + (eE + 27 * uR) ∧
     val (edgeMin c t) ≤ edgeReal (-(sB (rectOf c) (ofV t))) (rectOf c).v0 (ofV t).x ((rectOf c).v0 * (ofV t).y + (ofV t).z) + (eE + 27 * uR) ∧
     val (edgeMin c t) ≤ edgeReal (sT (rectOf c) (ofV t)) (rectOf c).v1 (ofV t).x ((rectOf c).v1 * (ofV t).y + (ofV t).z) + (eE + 27 * uR)) ∧
    (|val (edgeMin c t) - edgeReal (-(sL (rectOf c) (ofV t))) (rectOf c).u0 (ofV t).y ((rectOf c).u0 * (ofV t).x + (ofV t).z)| ≤ eE + 27 * uR ∨
     |val (edgeMin c t) - edgeReal (sR (rectOf c) (ofV t)) (rectOf c).u1 (ofV t).y ((rectOf c).u1 * (ofV t).x + (ofV t).z)| ≤ eE + 27 * uR ∨
     |val (edgeMin c t) - edgeReal (-(sB (rectOf c) (ofV t))) (rectOf c).v0 (ofV t).x ((rectOf c).v0 * (ofV t).y + (ofV t).z)| ≤ eE + 27 * uR ∨
     |val (edgeMin c t) - edgeReal (sT (rectOf c) (ofV t)) (rectOf c).v1 (ofV t).x ((rectOf c).v1 * (ofV t).y + (ofV t).z)| ≤ eE + 27 * uR) := by
  obtain ⟨fL, eL⟩ := X.edgeL_val HE
  obtain ⟨fR, eR'⟩ := X.edgeR_val HE
  obtain ⟨fB, eB⟩ := X.edgeB_val HE
  obtain ⟨fT, eT⟩ := X.edgeT_val HE
  obtain ⟨hmem, lL, lR, lB, lT⟩ := minChord4 _ _ _ _ fL fR fB fT
  have uL := (abs_le.1 eL).2
  have uR' := (abs_le.1 eR').2
  have uB := (abs_le.1 eB).2
  have uT := (abs_le.1 eT).2
  unfold edgeMin
  refine ⟨?_, ⟨by linarith, by linarith, by linarith, by linarith⟩, ?_⟩
  · rcases hmem with h | h | h | h <;> rw [h] <;> assumption
  · rcases hmem with h | h | h | h
    · left; rw [h]; exact eL
    · right; left; rw [h]; exact eR'
    · right; right; left; rw [h]; exact eB
    · right; right; right; rw [h]; exact eT

/-! ### LOWER BOUND, face frame -/

theorem bd_lowErr_ge_edge {eE C : ℝ} : eE + 27 * uR ≤ lowErr eE C := by
  have : eE + 30 * uR ≤ lowErr eE C := le_max_left _ _
  have := uR_nonneg
  linarith

/-- **LOWER BOUND of `BoundaryDistance`, face frame**: every BOUNDARY point is at least the reported value minus the
    error away (interior branch: `eE + 27u`; the other branches as for `Distance`) -/
theorem bdUVW_lower {eE C : ℝ} (HE : EdgeSpec eE) (HR : RobustCover C) {c : Cell} {t : V3} (X : Ctx c t)
    (bl : 1 / 2 ≤ (ofV t).norm2) (q : R3) (hq : OnBoundary (rectOf c) q) :
    Fin (bdUVW c t) ∧ val (bdUVW c t) ≤ dist2 (ofV t) q + lowErr eE C := by
  by_cases hI : interiorBranch c t = true
  · rw [bdUVW_of_interior hI]
    obtain ⟨ff, ⟨lL, lR, lB, lT⟩, _⟩ := edgeMin_facts HE X
    have hle := bd_lowErr_ge_edge (eE := eE) (C := C)
    refine ⟨ff, ?_⟩
    rcases boundary_lower (rectOf c) (ofV t) q hq with h | h | h | h <;> linarith
  · rw [bdUVW_of_not_interior (Bool.eq_false_iff.2 hI)]
    exact distUVW_lower HE HR X bl q hq.1

/-- in the interior branch the error is only `eE + 27u` -/
theorem bdUVW_lower_interior {eE : ℝ} (HE : EdgeSpec eE) {c : Cell} {t : V3} (X : Ctx c t)
    (hI : interiorBranch c t = true) (q : R3) (hq : OnBoundary (rectOf c) q) :
    Fin (bdUVW c t) ∧ val (bdUVW c t) ≤ dist2 (ofV t) q + (eE + 27 * uR) := by
  rw [bdUVW_of_interior hI]
  obtain ⟨ff, ⟨lL, lR, lB, lT⟩, _⟩ := edgeMin_facts HE X
  refine ⟨ff, ?_⟩
  rcases boundary_lower (rectOf c) (ofV t) q hq with h | h | h | h <;> linarith

/-! ### ATTAINED, face frame -/

theorem bd_eL_le (r : RRect) (t : R3) : edgeReal (-(sL r t)) r.u0 t.y (r.u0 * t.x + t.z) ≤ t.norm2 + 1 := by
  rw [edgeReal_eq, neg_sq]; unfold sL
  have := frame_norm_u r.u0 t
  have := Real.sqrt_nonneg (t.y ^ 2 + (r.u0 * t.x + t.z) ^ 2 / (1 + r.u0 ^ 2))
  linarith
theorem bd_eR_le (r : RRect) (t : R3) : edgeReal (sR r t) r.u1 t.y (r.u1 * t.x + t.z) ≤ t.norm2 + 1 := by
  rw [edgeReal_eq]; unfold sR
  have := frame_norm_u r.u1 t
  have := Real.sqrt_nonneg (t.y ^ 2 + (r.u1 * t.x + t.z) ^ 2 / (1 + r.u1 ^ 2))
  linarith
theorem bd_eB_le (r : RRect) (t : R3) : edgeReal (-(sB r t)) r.v0 t.x (r.v0 * t.y + t.z) ≤ t.norm2 + 1 := by
  rw [edgeReal_eq, neg_sq]; unfold sB
  have := frame_norm_v r.v0 t
  have := Real.sqrt_nonneg (t.x ^ 2 + (r.v0 * t.y + t.z) ^ 2 / (1 + r.v0 ^ 2))
  linarith
theorem bd_eT_le (r : RRect) (t : R3) : edgeReal (sT r t) r.v1 t.x (r.v1 * t.y + t.z) ≤ t.norm2 + 1 := by
  rw [edgeReal_eq]; unfold sT
  have := frame_norm_v r.v1 t
  have := Real.sqrt_nonneg (t.x ^ 2 + (r.v1 * t.y + t.z) ^ 2 / (1 + r.v1 ^ 2))
  linarith

/-- pure real: the end of an edge branch (the witness is exactly at distance `e`) -/
theorem bd_edge_close0 {x d e E n2 : ℝ} (h : |x - e| ≤ E) (hd : d = e) (he : e ≤ n2 + 1)
    (hn : n2 ≤ 1 + 1 / 2 ^ 21) : |x - min 4 d| ≤ E := by
  have h4 : d ≤ 4 := by
    have : (1 : ℝ) + 1 / 2 ^ 21 + 1 ≤ 4 := by norm_num
    linarith
  rw [min_eq_right h4, hd]; exact h

/-- pure real: the end of the interior branch -/
theorem bd_interior_close {v d e E δ n2 : ℝ} (hlow : v ≤ d + E) (hv : |v - e| ≤ E) (hd : d ≤ e + δ)
    (he : e ≤ n2 + 1) (hn : n2 ≤ 1 + 1 / 2 ^ 21) (hδ0 : 0 ≤ δ) (hδ : δ ≤ 1) : |v - min 4 d| ≤ E + δ := by
  have h4 : d ≤ 4 := by
    have : (1 : ℝ) + 1 / 2 ^ 21 + 1 + 1 ≤ 4 := by norm_num
    linarith
  rw [min_eq_right h4, abs_le]
  have := abs_le.1 hv
  constructor <;> linarith

/-- error of ATTAINED for `BoundaryDistance`: `max (eE + 36u) 57u` -/
noncomputable def bdAttErr (eE : ℝ) : ℝ := max (eE + 36 * uR) vertErr

/-- **ATTAINED for `BoundaryDistance`, face frame** -/
theorem bdUVW_attained {eE : ℝ} (HE : EdgeSpec eE) {c : Cell} {t : V3} (X : Ctx c t) (bl : 1 / 2 ≤ (ofV t).norm2) :
    ∃ q : R3, OnBoundary (rectOf c) q ∧ |val (bdUVW c t) - min 4 (dist2 (ofV t) q)| ≤ bdAttErr eE := by
  obtain ⟨xL, xR, xB, xT⟩ := edge_tests_exact X
  have hu := uR_nonneg
  have le1 : eE + 27 * uR ≤ bdAttErr eE := by
    have : eE + 36 * uR ≤ bdAttErr eE := le_max_left _ _
    linarith
  have le2 : vertErr ≤ bdAttErr eE := le_max_right _ _
  unfold bdUVW
  simp only
  by_cases cL : (F64.lt (dirs c t).dir00 fzero && vEdgeIsClosest c t false) = true
  · rw [if_pos cL]
    obtain ⟨_, er⟩ := X.edgeL_val HE
    obtain ⟨q, hb, hd⟩ := edge_attained_L (rectOf c) X.ok (ofV t) (xL cL).1 (xL cL).2
    exact ⟨q, hb, le_trans (bd_edge_close0 er hd (bd_eL_le _ _) X.bn) le1⟩
  rw [if_neg cL]
  by_cases cR : (F64.gt (dirs c t).dir01 fzero && vEdgeIsClosest c t true) = true
  · rw [if_pos cR]
    obtain ⟨_, er⟩ := X.edgeR_val HE
    obtain ⟨q, hb, hd⟩ := edge_attained_R (rectOf c) X.ok (ofV t) (xR cR).1 (xR cR).2
    exact ⟨q, hb, le_trans (bd_edge_close0 er hd (bd_eR_le _ _) X.bn) le1⟩
  rw [if_neg cR]
  by_cases cB : (F64.lt (dirs c t).dir10 fzero && uEdgeIsClosest c t false) = true
  · rw [if_pos cB]
    obtain ⟨_, er⟩ := X.edgeB_val HE
    obtain ⟨q, hb, hd⟩ := edge_attained_B (rectOf c) X.ok (ofV t) (xB cB).1 (xB cB).2
    exact ⟨q, hb, le_trans (bd_edge_close0 er hd (bd_eB_le _ _) X.bn) le1⟩
  rw [if_neg cB]
  by_cases cT : (F64.gt (dirs c t).dir11 fzero && uEdgeIsClosest c t true) = true
  · rw [if_pos cT]
    obtain ⟨_, er⟩ := X.edgeT_val HE
    obtain ⟨q, hb, hd⟩ := edge_attained_T (rectOf c) X.ok (ofV t) (xT cT).1 (xT cT).2
    exact ⟨q, hb, le_trans (bd_edge_close0 er hd (bd_eT_le _ _) X.bn) le1⟩
  rw [if_neg cT]
  by_cases cI : (dirs c t).inside = true
  · rw [if_pos cI]
    -- float `inside`: the exact sign quantities are within 1.02·u of the inside condition
    unfold Dirs.inside at cI
    simp only [Bool.and_eq_true, Bool.not_eq_true'] at cI
    obtain ⟨⟨⟨n1, n2⟩, n3⟩, n4⟩ := cI
    have hus := uR_small
    have hε0 : 0 ≤ (102 / 100) * uR := by linarith
    have hε : (102 / 100) * uR ≤ 1 / 2 ^ 50 := by unfold uR; norm_num
    have hL : -((102 / 100) * uR) ≤ sL (rectOf c) (ofV t) := by have := X.signL.2 n1; linarith
    have hR := X.signR.2 n2
    have hB : -((102 / 100) * uR) ≤ sB (rectOf c) (ofV t) := by have := X.signB.2 n3; linarith
    have hT := X.signT.2 n4
    obtain ⟨_, ⟨lL, lR, lB, lT⟩, hmem⟩ := edgeMin_facts HE X
    have low : ∀ q, OnBoundary (rectOf c) q → val (edgeMin c t) ≤ dist2 (ofV t) q + (eE + 27 * uR) := by
      intro q hq
      rcases boundary_lower (rectOf c) (ofV t) q hq with h | h | h | h <;> linarith
    have hδ0 : 0 ≤ 8 * ((102 / 100) * uR) := by linarith
    have hδ1 : 8 * ((102 / 100) * uR) ≤ 1 := by unfold uR; norm_num
    have fin : eE + 27 * uR + 8 * ((102 / 100) * uR) ≤ bdAttErr eE := by
      have : eE + 36 * uR ≤ bdAttErr eE := le_max_left _ _
      linarith
    rcases hmem with h | h | h | h
    · obtain ⟨q, hq, hd⟩ := inside_attained_L (rectOf c) X.ok X.gu (ofV t) _ hε0 hε hL hR hB hT bl
      exact ⟨q, hq, le_trans (bd_interior_close (low q hq) h hd (bd_eL_le _ _) X.bn hδ0 hδ1) fin⟩
    · obtain ⟨q, hq, hd⟩ := inside_attained_R (rectOf c) X.ok X.gu (ofV t) _ hε0 hε hL hR hB hT bl
      exact ⟨q, hq, le_trans (bd_interior_close (low q hq) h hd (bd_eR_le _ _) X.bn hδ0 hδ1) fin⟩
    · obtain ⟨q, hq, hd⟩ := inside_attained_B (rectOf c) X.ok X.gu (ofV t) _ hε0 hε hL hR hB hT bl
      exact ⟨q, hq, le_trans (bd_interior_close (low q hq) h hd (bd_eB_le _ _) X.bn hδ0 hδ1) fin⟩
    · obtain ⟨q, hq, hd⟩ := inside_attained_T (rectOf c) X.ok X.gu (ofV t) _ hε0 hε hL hR hB hT bl
      exact ⟨q, hq, le_trans (bd_interior_close (low q hq) h hd (bd_eT_le _ _) X.bn hδ0 hδ1) fin⟩
  rw [if_neg cI]
  obtain ⟨q, hb, he⟩ := vertex_branch_attained X
  exact ⟨q, hb, le_trans he le2⟩

/-! ### the statements in the XYZ frame, for `cellFromCellID id` of a valid id and a `PtOK` point -/

open S2Proofs.C12 in
/-- **LOWER BOUND of `Cell.BoundaryDistance`.**  For every valid cell id and every finite unit-ish point `p` the reported
    `BoundaryDistance(p)` is a finite float and no point `q` of the cell's BOUNDARY is closer to `p` than the reported
    value minus `2^-45` (squared chord length). -/
theorem boundaryDistance_lower_bound (id : CellID) (hv : isValid id = true) (p : V3) (hp : PtOK p) (q : R3)
    (hq : OnBoundaryXYZ (cellFromCellID id) q) :
    Fin (boundaryDistance (cellFromCellID id) p) ∧
    val (boundaryDistance (cellFromCellID id) p) ≤ dist2 (ofV p) q + 1 / 2 ^ 45 := by
  obtain ⟨hf, hl, hn⟩ := hp
  have X := mkCtx id hv p (fin3_of_finite3 hf) hn
  rw [boundaryDistance_eq_bdUVW]
  have h := bdUVW_lower edgeSpec robustCover X (by rw [ofV_uvw, uvwR_norm2]; exact hl) _ hq
  rw [ofV_uvw, uvwR_dist2] at h
  exact ⟨h.1, by have := lowErr_le; linarith [h.2]⟩

open S2Proofs.C12 in
/-- in the INTERIOR branch (`distanceBranch = 4`, the only one where `BoundaryDistance ≠ Distance`) the error of the lower
    bound is `36·u ≤ 2^-47` -/
theorem boundaryDistance_lower_bound_inside (id : CellID) (hv : isValid id = true) (p : V3) (hp : PtOK p)
    (hb : distanceBranch (cellFromCellID id) p = 4) (q : R3) (hq : OnBoundaryXYZ (cellFromCellID id) q) :
    val (boundaryDistance (cellFromCellID id) p) ≤ dist2 (ofV p) q + 1 / 2 ^ 47 := by
  obtain ⟨hf, hl, hn⟩ := hp
  have X := mkCtx id hv p (fin3_of_finite3 hf) hn
  rw [boundaryDistance_eq_bdUVW]
  have h := bdUVW_lower_interior edgeSpec X ((distanceBranch_eq_four _ p).1 hb) _ hq
  rw [ofV_uvw, uvwR_dist2] at h
  have : edgeErr + 27 * uR ≤ 1 / 2 ^ 47 := by unfold edgeErr uR; norm_num
  linarith [h.2]

theorem bdAttErr_le : bdAttErr edgeErr ≤ 1 / 2 ^ 47 := by
  have hu : uR = 1 / 2 ^ 53 := rfl
  unfold bdAttErr edgeErr vertErr
  rw [hu]
  apply max_le <;> norm_num

open S2Proofs.C12 in
/-- **ATTAINED for `Cell.BoundaryDistance` — all branches, no proviso.**  Some point `q` of the cell's BOUNDARY is at
    squared distance within `2^-47` of the reported value (`min 4`: the clamp of chord angles). -/
theorem boundaryDistance_attained_strong (id : CellID) (hv : isValid id = true) (p : V3) (hp : PtOK p) :
    ∃ q : R3, OnBoundaryXYZ (cellFromCellID id) q ∧
      |val (boundaryDistance (cellFromCellID id) p) - min 4 (dist2 (ofV p) q)| ≤ 1 / 2 ^ 47 := by
  obtain ⟨hf, hl, hn⟩ := hp
  have X := mkCtx id hv p (fin3_of_finite3 hf) hn
  have hlow : 1 / 2 ≤ (ofV (faceXYZtoUVW (cellFromCellID id).face p)).norm2 := by
    rw [ofV_uvw, uvwR_norm2]; exact hl
  obtain ⟨q', h1, h3⟩ := bdUVW_attained edgeSpec X hlow
  obtain ⟨q, hq⟩ := uvwR_surj (cellFromCellID id).face q'
  rw [← boundaryDistance_eq_bdUVW] at h3
  rw [ofV_uvw, ← hq, uvwR_dist2] at h3
  exact ⟨q, by unfold OnBoundaryXYZ; rw [hq]; exact h1, le_trans h3 bdAttErr_le⟩

/-- **ATTAINED** in the form of `distance_attained` (with the — here superfluous — term `(|p| − 1)²`) -/
theorem boundaryDistance_attained (id : CellID) (hv : isValid id = true) (p : V3) (hp : PtOK p) :
    ∃ q : R3, OnBoundaryXYZ (cellFromCellID id) q ∧
      |val (boundaryDistance (cellFromCellID id) p) - min 4 (dist2 (ofV p) q)|
        ≤ 1 / 2 ^ 47 + ((ofV p).norm - 1) ^ 2 := by
  obtain ⟨q, h1, h2⟩ := boundaryDistance_attained_strong id hv p hp
  exact ⟨q, h1, by have := sq_nonneg ((ofV p).norm - 1); linarith⟩

/-- the two claims as propositions … -/
def BoundaryDistanceLowerBoundReal (err : ℝ) : Prop :=
  ∀ (id : CellID) (p : V3), isValid id = true → PtOK p → ∀ q : R3, OnBoundaryXYZ (cellFromCellID id) q →
    Fin (boundaryDistance (cellFromCellID id) p) ∧ val (boundaryDistance (cellFromCellID id) p) ≤ dist2 (ofV p) q + err

def BoundaryDistanceAttainedClaim (err : ℝ) : Prop :=
  ∀ (id : CellID) (p : V3), isValid id = true → PtOK p →
    ∃ q : R3, OnBoundaryXYZ (cellFromCellID id) q ∧
      |val (boundaryDistance (cellFromCellID id) p) - min 4 (dist2 (ofV p) q)| ≤ err

/-- … which HOLD with `2^-45` and `2^-47` -/
theorem boundaryDistanceLowerBound_holds : BoundaryDistanceLowerBoundReal (1 / 2 ^ 45) :=
  fun id p hv hp q hq => boundaryDistance_lower_bound id hv p hp q hq

theorem boundaryDistanceAttained_holds : BoundaryDistanceAttainedClaim (1 / 2 ^ 47) :=
  fun id p hv hp => boundaryDistance_attained_strong id hv p hp

/-- `BoundaryDistance` is never NaN for admissible inputs -/
theorem boundaryDistance_not_nan (id : CellID) (hv : isValid id = true) (p : V3) (hp : PtOK p) :
    (boundaryDistance (cellFromCellID id) p).isNaN = false := by
  obtain ⟨q, hq⟩ := cell_nonempty id hv
  exact isNaN_false (boundaryDistance_lower_bound id hv p hp q hq).1

/-- `Distance ≤ BoundaryDistance + 2^-45 + 2^-47`-free comparison is not claimed; what IS immediate: outside the interior
    branch the two floats coincide, inside it `Distance = 0`. -/
theorem distance_inside_zero (c : Cell) (p : V3) (h : distanceBranch c p = 4) : distance c p = fzero := by
  rw [distance_eq_distUVW]
  have := (distanceBranch_eq_four c p).1 h
  unfold interiorBranch at this
  unfold distUVW
  simp only
  split_ifs with h1 h2 h3 h4 h5 <;> simp_all

/-! ### non-vacuity -/

open Counter Witness in
-- a valid level-30 cell, an admissible point INSIDE it (interior branch 4), and the boundary is not empty
example : isValid (0x151f46a85da62db5 : CellID) = true ∧ PtOK pI ∧
    distanceBranch (cellFromCellID 0x151f46a85da62db5) pI = 4 ∧
    ∃ q, OnBoundaryXYZ (cellFromCellID 0x151f46a85da62db5) q :=
  ⟨by decide, witness_inside.1, witness_inside.2.1, cell_nonempty _ (by decide)⟩

open Counter Witness in
-- … an admissible point OUTSIDE it in the left-edge branch (0) and one in the vertex branch (5)
example : PtOK pE ∧ distanceBranch (cellFromCellID 0x151f46a85da62db5) pE = 0 ∧
    PtOK pV ∧ distanceBranch (cellFromCellID 0x151f46a85da62db5) pV = 5 :=
  ⟨witness_edge.1, witness_edge.2.1, witness_vertex.1, witness_vertex.2⟩

/-- bit-exact values of the model on the two instances = the values the Go code returns
    (`cellpt 151f46a85da62db5 3fe58bd166064b19 3fdeec281043ed1c 3fe1e8908b10718a = T 0000000000000000 3c1aa4d007056e52 …`,
     `cellpt 151f46a85da62db5 3fe8aaf448c41d95 3fd49a154fd3032e 3fe196e9d020a7ac = F 3fa23ccbbb3d3bbd 3fa23ccbbb3d3bbd …`):
    inside the cell `Distance = 0` and `BoundaryDistance = 3.6e-19 > 0`; outside the two coincide. -/
theorem boundaryDistance_values :
    distance cX pI = fzero ∧ boundaryDistance cX pI = ⟨0x3c1aa4d007056e52⟩ ∧
    distance cX pE = ⟨0x3fa23ccbbb3d3bbd⟩ ∧ boundaryDistance cX pE = ⟨0x3fa23ccbbb3d3bbd⟩ := by
  rw [Counter.cX_eq]
  refine ⟨?_, ?_, ?_, ?_⟩ <;> decide +kernel

end S2Proofs.C12Dist2
