/-
  C12Dist2.QuadQuad — exact geometry of `Cell.DistanceToCell` (pure ℝ³): two convex cones `C`, `T` (`Quad`s).

      quad_quad_core :  if `c` bounds the cosine between every corner of one and every point of every edge of the other
                        (the 32 (vertex, edge) pairs of the Go code), then it bounds the cosine between ANY point of `C` and
                        ANY point of `T` — unless an edge of `C` meets an edge of `T`, or a corner of one lies in the other
                        (the cases in which the true distance is 0).
-/
import S2Proofs.C12Dist2.QuadCore

set_option linter.unusedSimpArgs false
set_option linter.unusedVariables false

namespace S2Proofs.C12Dist2
open S2Proofs.C17Err S2Proofs.C17Err.R3 S2Proofs.C17Pairs

/-- the cone contains no line -/
def Quad.Pointed (Q : Quad) : Prop := ∀ z, Q.In z → Q.In (comb (-1) z 0 z) → z.n2 = 0

/-- the four edges are shorter than π -/
def Quad.EdgesOK (Q : Quad) : Prop := ∀ k, NotAntipodal (Q.w k) (Q.w (k + 1))

theorem n2_zero_of_len {x : R3} (h : ¬ 0 < x.len) : x.n2 = 0 := by
  have : x.len = 0 := le_antisymm (not_lt.mp h) (len_nonneg x)
  rw [← R3.len_sq, this]; ring

theorem Quad.OK.conv {Q : Quad} (hQ : Q.OK) {x y : R3} {s t : ℝ} (hs : 0 ≤ s) (ht : 0 ≤ t) (hx : Q.In x) (hy : Q.In y) :
    Q.In (comb s x t y) := by
  intro k
  rw [hQ.lin]
  exact add_nonneg (mul_nonneg hs (hx k)) (mul_nonneg ht (hy k))

theorem Quad.OK.in_dirR {Q : Quad} (hQ : Q.OK) {x : R3} (hx : Q.In x) : Q.In (dirR x) := by
  unfold dirR
  exact hQ.conv (by have := len_nonneg x; positivity) (le_refl _) hx hx

/-- a segment from a unit vector that ends at `0` ends at the antipode -/
theorem seg_zero {q r : R3} {s : ℝ} (hq : q.n2 = 1) (hr : r.n2 = 1) (hs0 : 0 ≤ s) (hs1 : s ≤ 1)
    (h : (comb (1 - s) q s r).n2 = 0) : q.dot r = -1 := by
  have hn2 := seg_n2 q r s hq hr
  rw [h] at hn2
  have hcs := cs q r
  rw [hq, hr] at hcs
  have hd1 : -1 ≤ q.dot r := by nlinarith
  have hs12 : s = 1 / 2 := by
    have := mul_nonneg (mul_nonneg (by linarith : 0 ≤ 1 - s) hs0) (by linarith : 0 ≤ 1 + q.dot r)
    nlinarith [sq_nonneg (1 - 2 * s)]
  rw [hs12] at hn2
  nlinarith

/-- a point of an edge of `C` that lies in `T`: the edge meets an edge of `T`, or the first corner of the edge lies in `T` -/
theorem edge_point_in {C T : Quad} (hC : C.OK) (hT : T.OK) (hCe : C.EdgesOK) {k : Fin 4} {x : R3}
    (hx : OnArc (C.w k) (C.w (k + 1)) x) (hxT : T.In x) :
    (∃ j, ArcsMeetR (C.w k) (C.w (k + 1)) (T.w j) (T.w (j + 1))) ∨ T.In (C.w k) := by
  by_cases hw : T.In (C.w k)
  · exact Or.inr hw
  left
  obtain ⟨s, hs0, hs1, hyin, j, hj⟩ := exit_lemma hT hxT hw
  set y := comb (1 - s) x s (C.w k) with hy
  obtain ⟨σ, τ, hσ, hτ, ey⟩ := hT.edge j y hyin hj
  obtain ⟨α, β, hα, hβ, ex, hx1⟩ := hx
  have eyC : y = comb ((1 - s) * α + s) (C.w k) ((1 - s) * β) (C.w (k + 1)) := by
    rw [hy, ex]; apply (fun a b h1 h2 h3 => by cases a; cases b; simp_all : ∀ a b : R3, a.x = b.x → a.y = b.y → a.z = b.z → a = b)
    <;> simp only [comb] <;> ring
  have hc1 : 0 ≤ (1 - s) * α + s := add_nonneg (mul_nonneg (by linarith) hα) hs0
  have hc2 : 0 ≤ (1 - s) * β := mul_nonneg (by linarith) hβ
  have hypos : 0 < y.len := by
    rw [len_pos_iff]
    by_contra hcon
    have hy0 : y.n2 = 0 := le_antisymm (not_lt.mp hcon) (n2_nonneg y)
    -- y = 0 : x is a negative multiple of w_k, impossible on the arc
    have hwpos := hC.wpos k
    apply arc_no_antipode hwpos (hCe k) ⟨α, β, hα, hβ, ex, hx1⟩
    have hy0' : y.x = 0 ∧ y.y = 0 ∧ y.z = 0 := by
      unfold R3.n2 R3.dot at hy0
      have q1 := mul_self_nonneg y.x
      have q2 := mul_self_nonneg y.y
      have q3 := mul_self_nonneg y.z
      exact ⟨mul_self_eq_zero.mp (by linarith), mul_self_eq_zero.mp (by linarith), mul_self_eq_zero.mp (by linarith)⟩
    have hs1p : 0 < 1 - s := by linarith
    have hspos : 0 < s := by
      rcases hs0.lt_or_eq with h | h
      · exact h
      · exfalso
        have : y = x := by
          rw [hy, ← h]
          apply (fun a b h1 h2 h3 => by cases a; cases b; simp_all : ∀ a b : R3, a.x = b.x → a.y = b.y → a.z = b.z → a = b)
          <;> simp [comb]
        rw [this] at hy0
        rw [hy0] at hx1; norm_num at hx1
    refine ⟨s / (1 - s), by positivity, ?_⟩
    have e1 : (1 - s) * x.x + s * (C.w k).x = 0 := by have := hy0'.1; rw [hy] at this; simpa [comb] using this
    have e2 : (1 - s) * x.y + s * (C.w k).y = 0 := by have := hy0'.2.1; rw [hy] at this; simpa [comb] using this
    have e3 : (1 - s) * x.z + s * (C.w k).z = 0 := by have := hy0'.2.2; rw [hy] at this; simpa [comb] using this
    have hne : (1 - s) ≠ 0 := hs1p.ne'
    apply (fun a b h1 h2 h3 => by cases a; cases b; simp_all : ∀ a b : R3, a.x = b.x → a.y = b.y → a.z = b.z → a = b)
    · simp only [comb]; field_simp; linarith
    · simp only [comb]; field_simp; linarith
    · simp only [comb]; field_simp; linarith
  exact ⟨j, dirR y, onArc_of_cone hc1 hc2 eyC hypos, onArc_of_cone hσ hτ ey hypos⟩

/-- **the cell-to-cell theorem** -/
theorem quad_quad_core {C T : Quad} (hC : C.OK) (hT : T.OK) (hCe : C.EdgesOK) (hTe : T.EdgesOK) (hTp : T.Pointed)
    {c : ℝ} (hc0 : -1 ≤ c)
    (hCT : ∀ k j, ∀ P, OnArc (T.w j) (T.w (j + 1)) P → (C.w k).dot P ≤ c * (C.w k).len)
    (hTC : ∀ j k, ∀ P, OnArc (C.w k) (C.w (k + 1)) P → (T.w j).dot P ≤ c * (T.w j).len)
    {q q' : R3} (hq : C.Pt q) (hq' : T.Pt q') :
    q.dot q' ≤ c ∨ (∃ k j, ArcsMeetR (C.w k) (C.w (k + 1)) (T.w j) (T.w (j + 1))) ∨
      (∃ j, C.In (T.w j)) ∨ (∃ k, T.In (C.w k)) := by
  obtain ⟨hq1, hqin⟩ := hq
  obtain ⟨hq'1, hq'in⟩ := hq'
  -- a point of an edge of C in T
  have edgeCase : ∀ k x, OnArc (C.w k) (C.w (k + 1)) x → T.In x →
      q.dot q' ≤ c ∨ (∃ k j, ArcsMeetR (C.w k) (C.w (k + 1)) (T.w j) (T.w (j + 1))) ∨
        (∃ j, C.In (T.w j)) ∨ (∃ k, T.In (C.w k)) := by
    intro k x hx hxT
    rcases edge_point_in hC hT hCe hx hxT with ⟨j, h⟩ | h
    · exact Or.inr (Or.inl ⟨k, j, h⟩)
    · exact Or.inr (Or.inr (Or.inr ⟨k, h⟩))
  by_cases hq'C : C.In q'
  · -- q' in C : walk inside T from q' to the corner T.w 0
    by_cases hw : C.In (T.w 0)
    · exact Or.inr (Or.inr (Or.inl ⟨0, hw⟩))
    obtain ⟨s, hs0, hs1, hxin, k, hk⟩ := exit_lemma hC hq'C hw
    set x := comb (1 - s) q' s (T.w 0) with hx
    obtain ⟨σ, τ, hσ, hτ, ex⟩ := hC.edge k x hxin hk
    have hxT : T.In x := hT.conv (by linarith) hs0 hq'in (hT.corner 0)
    by_cases hxz : 0 < x.len
    · exact edgeCase k (dirR x) (onArc_of_cone hσ hτ ex hxz) (hT.in_dirR hxT)
    · -- x = 0 : q' and T.w 0 antiparallel inside the pointed cone T
      exfalso
      have hx0 := n2_zero_of_len hxz
      have hx0' : x.x = 0 ∧ x.y = 0 ∧ x.z = 0 := by
        unfold R3.n2 R3.dot at hx0
        have q1 := mul_self_nonneg x.x
        have q2 := mul_self_nonneg x.y
        have q3 := mul_self_nonneg x.z
        exact ⟨mul_self_eq_zero.mp (by linarith), mul_self_eq_zero.mp (by linarith), mul_self_eq_zero.mp (by linarith)⟩
      have hs1p : 0 < 1 - s := by linarith
      -- −q' = (s/(1−s)) · T.w 0  is in T
      have hneg : comb (-1) q' 0 q' = comb (s / (1 - s)) (T.w 0) 0 (T.w 0) := by
        have e1 : (1 - s) * q'.x + s * (T.w 0).x = 0 := by have := hx0'.1; rw [hx] at this; simpa [comb] using this
        have e2 : (1 - s) * q'.y + s * (T.w 0).y = 0 := by have := hx0'.2.1; rw [hx] at this; simpa [comb] using this
        have e3 : (1 - s) * q'.z + s * (T.w 0).z = 0 := by have := hx0'.2.2; rw [hx] at this; simpa [comb] using this
        have hne : (1 - s) ≠ 0 := hs1p.ne'
        apply (fun a b h1 h2 h3 => by cases a; cases b; simp_all : ∀ a b : R3, a.x = b.x → a.y = b.y → a.z = b.z → a = b)
        · simp only [comb]; field_simp; linarith
        · simp only [comb]; field_simp; linarith
        · simp only [comb]; field_simp; linarith
      have hin : T.In (comb (-1) q' 0 q') := by
        rw [hneg]; exact hT.conv (div_nonneg hs0 hs1p.le) (le_refl _) (hT.corner 0) (hT.corner 0)
      have := hTp q' hq'in hin
      rw [hq'1] at this; norm_num at this
  · -- q' outside C : leave C from q towards q'
    obtain ⟨s, hs0, hs1, hxin, k, hk⟩ := exit_lemma hC hqin hq'C
    set x := comb (1 - s) q s q' with hx
    obtain ⟨σ, τ, hσ, hτ, ex⟩ := hC.edge k x hxin hk
    by_cases hxz : 0 < x.len
    · have hxe : OnArc (C.w k) (C.w (k + 1)) (dirR x) := onArc_of_cone hσ hτ ex hxz
      have hmono := toward hq1 hq'1 hs0 hs1.le hxz
      rw [← hx] at hmono
      by_cases hxT : T.In (dirR x)
      · exact edgeCase k (dirR x) hxe hxT
      · -- leave T from q' towards x̂
        have hx1 : (dirR x).n2 = 1 := dirR_n2 hxz
        obtain ⟨s', hs'0, hs'1, hyin, j, hj⟩ := exit_lemma hT hq'in hxT
        set y := comb (1 - s') q' s' (dirR x) with hy
        obtain ⟨σ', τ', hσ', hτ', ey⟩ := hT.edge j y hyin hj
        by_cases hyz : 0 < y.len
        · have hye : OnArc (T.w j) (T.w (j + 1)) (dirR y) := onArc_of_cone hσ' hτ' ey hyz
          have hmono' := toward hq'1 hx1 hs'0 hs'1.le hyz
          rw [← hy] at hmono'
          rcases pair_core (c := c) (hC.wpos k) (hC.wpos (k + 1)) (hT.wpos j) (hT.wpos (j + 1)) (hTe j) hxe hye
              (hCT k j) (hCT (k + 1) j) (hTC j k) (hTC (j + 1) k) with h | h
          · exact Or.inr (Or.inl ⟨k, j, h⟩)
          · left
            rw [dot_comm q' (dirR x)] at hmono'
            rw [dot_comm (dirR y) (dirR x)] at hmono'
            linarith
        · left
          have := seg_zero hq'1 hx1 hs'0 hs'1.le (n2_zero_of_len hyz)
          rw [dot_comm] at this
          linarith
    · left
      have := seg_zero hq1 hq'1 hs0 hs1.le (n2_zero_of_len hxz)
      linarith

end S2Proofs.C12Dist2
