/-
  C12Dist2.CellAttained — the OTHER side for `Cell.DistanceToCell`: some pair of points of the two exact cells realises the
  reported value within the slack (so the value is within `2^-45` of the true minimum, with `distanceToCell_lower`).

  * early return 0: same face and intersecting uv rectangles (float test) ⇒ the exact rectangles intersect ⇒ common point;
  * otherwise the result is the value of one of the 32 calls that answered "ok" (`fold_cases`), which is within `2^-46` of the
    TRUE distance from a float vertex to a float edge (c08world's contract), attained at a point of that float edge; the float
    vertex is within 2u of an exact corner (a cell point), the float edge point within 8u of an exact edge point.
-/
import S2Proofs.C12Dist2.CellFinal

set_option linter.unusedSimpArgs false
set_option linter.unusedVariables false

namespace S2Proofs.C12Dist2
open S2 S2.CellID S2.CellM S2.CellEdgeM S2.EdgeNum S2Proofs.F64Order S2Proofs.FloatErr
open S2Proofs.C17Err S2Proofs.C17Err.R3 S2Proofs.C17Pairs S2Proofs.C17 S2Proofs.C08World S2Proofs.C12Dist S2Proofs.C12

/-- a limit handed to `UpdateMinDistance` -/
def Lim (m : F64) : Prop := (Fin m ∧ 0 ≤ val m) ∨ m = F64.inf false

/-- the fold returns its start value, or the value of a call that answered "ok" -/
theorem fold_cases (l : List (V3 × V3 × V3)) : ∀ m : F64, Lim m → (∀ t ∈ l, CallOK t.1 t.2.1 t.2.2) →
    l.foldl (fun m t => (updateMinDistancePub t.1 t.2.1 t.2.2 m).1) m = m ∨
    ∃ t ∈ l, ∃ m', Lim m' ∧ (updateMinDistancePub t.1 t.2.1 t.2.2 m').2 = true ∧
      l.foldl (fun m t => (updateMinDistancePub t.1 t.2.1 t.2.2 m).1) m = (updateMinDistancePub t.1 t.2.1 t.2.2 m').1 := by
  induction l with
  | nil => intro m _ _; exact Or.inl rfl
  | cons t l ih =>
    intro m hm hall
    simp only [List.foldl_cons]
    obtain ⟨f1, n1, _, _⟩ := step_any (hall t (by simp)) hm
    rcases ih _ (Or.inl ⟨f1, n1⟩) (fun t' ht' => hall t' (by simp [ht'])) with h | ⟨t', ht', m', hm', hok, he⟩
    · rw [h]
      cases hok : (updateMinDistancePub t.1 t.2.1 t.2.2 m).2
      · left; exact updateMin_not_ok _ _ _ _ hok
      · right; exact ⟨t, by simp, m, hm, hok, rfl⟩
    · right; exact ⟨t', by simp [ht'], m', hm', hok, he⟩

/-- every call is (vertex of the first, edge of the second) or (vertex of the second, edge of the first) -/
theorem mem_pairCalls_cases (va vb : Nat → V3) {t : V3 × V3 × V3}
    (h : t ∈ pairCalls [va 0, va 1, va 2, va 3] [vb 0, vb 1, vb 2, vb 3]) :
    (∃ k j : Fin 4, t = (va k.val, vb j.val, vb ((j.val + 1) % 4))) ∨
    (∃ j k : Fin 4, t = (vb j.val, va k.val, va ((k.val + 1) % 4))) := by
  rw [pairCalls_eq] at h
  simp only [List.mem_cons, List.mem_nil_iff, or_false] at h
  rcases h with rfl | rfl | rfl | rfl | rfl | rfl | rfl | rfl | rfl | rfl | rfl | rfl | rfl | rfl | rfl | rfl |
    rfl | rfl | rfl | rfl | rfl | rfl | rfl | rfl | rfl | rfl | rfl | rfl | rfl | rfl | rfl | rfl
  all_goals first
    | exact Or.inl ⟨0, 0, rfl⟩ | exact Or.inl ⟨0, 1, rfl⟩ | exact Or.inl ⟨0, 2, rfl⟩ | exact Or.inl ⟨0, 3, rfl⟩
    | exact Or.inl ⟨1, 0, rfl⟩ | exact Or.inl ⟨1, 1, rfl⟩ | exact Or.inl ⟨1, 2, rfl⟩ | exact Or.inl ⟨1, 3, rfl⟩
    | exact Or.inl ⟨2, 0, rfl⟩ | exact Or.inl ⟨2, 1, rfl⟩ | exact Or.inl ⟨2, 2, rfl⟩ | exact Or.inl ⟨2, 3, rfl⟩
    | exact Or.inl ⟨3, 0, rfl⟩ | exact Or.inl ⟨3, 1, rfl⟩ | exact Or.inl ⟨3, 2, rfl⟩ | exact Or.inl ⟨3, 3, rfl⟩
    | exact Or.inr ⟨0, 0, rfl⟩ | exact Or.inr ⟨0, 1, rfl⟩ | exact Or.inr ⟨0, 2, rfl⟩ | exact Or.inr ⟨0, 3, rfl⟩
    | exact Or.inr ⟨1, 0, rfl⟩ | exact Or.inr ⟨1, 1, rfl⟩ | exact Or.inr ⟨1, 2, rfl⟩ | exact Or.inr ⟨1, 3, rfl⟩
    | exact Or.inr ⟨2, 0, rfl⟩ | exact Or.inr ⟨2, 1, rfl⟩ | exact Or.inr ⟨2, 2, rfl⟩ | exact Or.inr ⟨2, 3, rfl⟩
    | exact Or.inr ⟨3, 0, rfl⟩ | exact Or.inr ⟨3, 1, rfl⟩ | exact Or.inr ⟨3, 2, rfl⟩ | exact Or.inr ⟨3, 3, rfl⟩

/-- a float vertex of one valid cell against a float edge of another: a pair (exact corner, exact edge point) is at most
    `2ε + 2η` farther apart than the float pair -/
theorem float_pair_to_exact (id id' : CellID) (hv : isValid id = true) (hv' : isValid id' = true) (k j : Fin 4) {P : R3}
    (hP : OnArc (floatV (cellFromCellID id') j) (floatV (cellFromCellID id') (j + 1)) P) :
    ∃ q q' : R3, InCellXYZ (cellFromCellID id) (toAcc q) ∧ InCellXYZ (cellFromCellID id') (toAcc q') ∧
      chordPQ q q' ≤ chordPQ (dirR (floatV (cellFromCellID id) k)) P + (2 * (2 * uR) + 2 * (8 * uR)) := by
  obtain ⟨_, _, _, _, ok, _⟩ := cellOK id hv
  obtain ⟨_, _, _, _, ok', _⟩ := cellOK id' hv'
  have hC := cellQuad_ok (cellFromCellID id).face (rectOf (cellFromCellID id)) ok
  have hT := cellQuad_ok (cellFromCellID id').face (rectOf (cellFromCellID id')) ok'
  have hNC := nearQuad_cell id hv
  have hNT := nearQuad_cell id' hv'
  obtain ⟨Y, hYe, hYn⟩ := hNT.toExact j P hP
  have hYpt := hT.edge_in hYe
  set w := dirR ((cellQuad (cellFromCellID id).face (rectOf (cellFromCellID id))).w k) with hw
  have hwpt : (cellQuad (cellFromCellID id).face (rectOf (cellFromCellID id))).Pt w :=
    ⟨dirR_n2 (hC.wpos k), hC.in_dirR (hC.corner k)⟩
  refine ⟨w, Y, (pt_iff_inCell _ _ ok w).mp hwpt, (pt_iff_inCell _ _ ok' Y).mp hYpt, ?_⟩
  have hP1 := onArc_n2 hP
  have hV1 : (dirR (floatV (cellFromCellID id) k)).n2 = 1 := dirR_n2 (hNC.vpos k)
  -- V̂·P ≤ V̂·Y + η ,  Y·V̂ ≤ Y·ŵ + ε
  have d1 : (dirR (floatV (cellFromCellID id) k)).dot P ≤ (dirR (floatV (cellFromCellID id) k)).dot Y + 8 * uR :=
    dot_le_of_near hNT.η0 hV1 hYn
  have d2' : Y.dot (dirR (floatV (cellFromCellID id) k)) ≤ Y.dot w + 2 * uR :=
    dot_le_of_near hNC.ε0 hYpt.1 (hNC.near k)
  unfold chordPQ
  rw [dot_comm Y] at d2'
  rw [dot_comm Y w] at d2'
  linarith

/-- the float early-return test implies that the exact rectangles intersect -/
theorem not_apart_of_early (id id' : CellID) (hv : isValid id = true) (hv' : isValid id' = true)
    (h : ¬ NotEarly (cellFromCellID id) (cellFromCellID id')) :
    ¬ Apart (cellFromCellID id).face (cellFromCellID id').face (rectOf (cellFromCellID id)) (rectOf (cellFromCellID id')) := by
  obtain ⟨f1, f2, f3, f4, ok, _⟩ := cellOK id hv
  obtain ⟨g1, g2, g3, g4, ok', _⟩ := cellOK id' hv'
  unfold NotEarly at h
  have h' := not_not.mp h
  obtain ⟨hf, hi⟩ := h'
  unfold Apart
  rw [not_not]
  unfold Rect2.intersects at hi
  simp only [Bool.and_eq_true] at hi
  obtain ⟨hu, hv2⟩ := hi
  have key : ∀ {a b a' b' : F64}, Fin a → Fin b → Fin a' → Fin b' → Ivl.intersects (a, b) (a', b') = true →
      val a ≤ val b' ∧ val a' ≤ val b := by
    intro a b a' b' fa fb fa' fb' hint
    unfold Ivl.intersects at hint
    simp only at hint
    by_cases hle : F64.le a a' = true
    · rw [if_pos hle] at hint
      simp only [Bool.and_eq_true] at hint
      have h1 := (le_val fa fa').mp hle
      have h2 := (le_val fa' fb).mp hint.1
      have h3 := (le_val fa' fb').mp hint.2
      exact ⟨by linarith, h2⟩
    · rw [if_neg hle] at hint
      simp only [Bool.and_eq_true] at hint
      have h1 : val a' < val a := by
        by_contra hc
        exact hle ((le_val fa fa').mpr (not_lt.mp hc))
      have h2 := (le_val fa fb').mp hint.1
      have h3 := (le_val fa fb).mp hint.2
      exact ⟨h2, by linarith⟩
  obtain ⟨a1, a2⟩ := key (a := (cellFromCellID id).uv.1.1) (b := (cellFromCellID id).uv.1.2)
    (a' := (cellFromCellID id').uv.1.1) (b' := (cellFromCellID id').uv.1.2) f1 f2 g1 g2 hu
  obtain ⟨a3, a4⟩ := key (a := (cellFromCellID id).uv.2.1) (b := (cellFromCellID id).uv.2.2)
    (a' := (cellFromCellID id').uv.2.1) (b' := (cellFromCellID id').uv.2.2) f3 f4 g3 g4 hv2
  exact ⟨hf, a1, a2, a3, a4⟩

/-- **ATTAINED for `DistanceToCell`**: some pair of points of the two exact cells is at most `2^-46 + 2ε + 2η` farther apart
    than the reported value -/
theorem distanceToCell_attained (id id' : CellID) (hv : isValid id = true) (hv' : isValid id' = true)
    (hcalls : ∀ t ∈ pairCalls (vertices (cellFromCellID id)) (vertices (cellFromCellID id')), CallOK t.1 t.2.1 t.2.2) :
    ∃ q q' : R3, InCellXYZ (cellFromCellID id) (toAcc q) ∧ InCellXYZ (cellFromCellID id') (toAcc q') ∧
      chordPQ q q' ≤ val (distanceToCell (cellFromCellID id) (cellFromCellID id'))
        + (C08World.edgeErr + 2 * (2 * uR) + 2 * (8 * uR)) := by
  set c := cellFromCellID id with hcdef
  set t := cellFromCellID id' with htdef
  obtain ⟨_, _, _, _, ok, _⟩ := cellOK id hv
  obtain ⟨_, _, _, _, ok', _⟩ := cellOK id' hv'
  have hu := uR_nonneg
  have hE0 : (0 : ℝ) ≤ C08World.edgeErr := by unfold C08World.edgeErr; positivity
  by_cases hne : NotEarly c t
  · -- the double loop
    have hval : distanceToCell c t =
        (pairCalls (vertices c) (vertices t)).foldl (fun m t => (updateMinDistancePub t.1 t.2.1 t.2.2 m).1) (F64.inf false) := by
      unfold distanceToCell
      rw [if_neg]
      intro h
      apply hne
      simp only [Bool.and_eq_true, beq_iff_eq] at h
      exact h
    have hvs : vertices c = [vertex c 0, vertex c 1, vertex c 2, vertex c 3] := rfl
    have hvt : vertices t = [vertex t 0, vertex t 1, vertex t 2, vertex t 3] := rfl
    rw [hval]
    rw [hvs, hvt] at hcalls ⊢
    obtain ⟨t0, l, hl⟩ : ∃ t0 l, pairCalls [vertex c 0, vertex c 1, vertex c 2, vertex c 3]
        [vertex t 0, vertex t 1, vertex t 2, vertex t 3] = t0 :: l := ⟨_, _, pairCalls_eq _ _ _ _ _ _ _ _⟩
    have hcases := fun tt (h : tt ∈ t0 :: l) => mem_pairCalls_cases (vertex c) (vertex t) (t := tt) (by rw [hl]; exact h)
    rw [hl] at hcalls ⊢
    obtain ⟨fR, _, _⟩ := fold_inf t0 l hcalls
    rcases fold_cases (t0 :: l) (F64.inf false) (Or.inr rfl) hcalls with h | ⟨tt, htt, m', hm', hok, he⟩
    · exfalso
      rw [h] at fR
      exact absurd fR (by decide)
    · rw [he]
      have hcall := hcalls tt htt
      obtain ⟨c1, _⟩ := updateMin_contract tt.1 tt.2.1 tt.2.2 hcall.hx hcall.ha hcall.hb hcall.hE hcall.hM m' hm'
      obtain ⟨_, _, _, _, herr⟩ := c1 hok
      have herr' := (abs_le.mp herr).1
      obtain ⟨P, hP, hPe⟩ := trueDist2_attained hcall.hx.len_pos hcall.ha.len_pos hcall.hb.len_pos
        (x := tt.1) (a := tt.2.1) (b := tt.2.2)
      rw [dirChordP_eq_chord] at hPe
      rcases hcases tt htt with ⟨k, j, rfl⟩ | ⟨j, k, rfl⟩
      · -- vertex k of c against edge j of t
        simp only at hP hPe herr' ⊢
        have hP' : OnArc (floatV t j) (floatV t (j + 1)) P := by rw [floatV_succ]; exact hP
        obtain ⟨q, q', hq, hq', hle⟩ := float_pair_to_exact id id' hv hv' k j hP'
        refine ⟨q, q', hq, hq', ?_⟩
        have : chordPQ (dirR (floatV c k)) P = chordPQ (dirR (vecR (vertex c k.val))) P := rfl
        linarith
      · -- vertex j of t against edge k of c
        simp only at hP hPe herr' ⊢
        have hP' : OnArc (floatV c k) (floatV c (k + 1)) P := by rw [floatV_succ]; exact hP
        obtain ⟨q', q, hq', hq, hle⟩ := float_pair_to_exact id' id hv' hv j k hP'
        refine ⟨q, q', hq, hq', ?_⟩
        have : chordPQ (dirR (floatV t j)) P = chordPQ (dirR (vecR (vertex t j.val))) P := rfl
        rw [chordPQ_comm q q']
        linarith
  · -- early return 0 : the exact cells have a common point
    have hval : distanceToCell c t = fzero := by
      unfold distanceToCell
      rw [if_pos]
      unfold NotEarly at hne
      have := not_not.mp hne
      simp only [Bool.and_eq_true, beq_iff_eq]
      exact this
    obtain ⟨q, q', hq, hq', h0⟩ := not_apart_dist_zero ok ok' (not_apart_of_early id id' hv hv' hne)
    refine ⟨q, q', hq, hq', ?_⟩
    rw [hval, val_fzero, h0]
    positivity

end S2Proofs.C12Dist2
