/-
  C12Dist2.CellNear — the float vertices `c.Vertex(k)` of a valid cell form a `NearQuad` of the exact cell cone:
  corner directions within `ε = 2u`, edges within `η = 8u` (`u = 2^-53`), from `VertexDir.lean`.
-/
import S2Proofs.C12Dist2.EdgeLower
import S2Proofs.C12Dist2.VertexDir

set_option linter.unusedSimpArgs false
set_option linter.unusedVariables false

namespace S2Proofs.C12Dist2
open S2 S2.CellID S2.CellM S2Proofs.FloatErr
open S2Proofs.C17Err S2Proofs.C17Err.R3 S2Proofs.C17Pairs S2Proofs.C12Dist S2Proofs.C08World

theorem d2_eq_sub (x y : R3) : d2 x y = (x.sub y).n2 := by
  unfold d2 R3.sub R3.n2 R3.dot comb; ring

/-- two non-zero vectors whose directions are not antipodal -/
theorem notAntipodal_of_dirs {a b : R3} (ha : 0 < a.len) (hb : 0 < b.len) (h : -1 < (dirR a).dot (dirR b)) :
    NotAntipodal a b := by
  have e : (dirR a).dot (dirR b) = a.dot b / (a.len * b.len) := by
    rw [dot_dirR, dot_comm, dot_dirR, dot_comm]; field_simp
  set t := (dirR a).dot (dirR b) with ht
  have hab : a.dot b = t * (a.len * b.len) := by rw [e]; field_simp
  have hpos : 0 < a.len * b.len := mul_pos ha hb
  by_cases h0 : 0 < t
  · right; rw [hab]; exact mul_pos h0 hpos
  · left
    have ht0 : t ≤ 0 := not_lt.mp h0
    rw [R3.lagrange, ← R3.len_sq a, ← R3.len_sq b, hab]
    have : t * t < 1 := by nlinarith
    have h2 : 0 < (a.len * b.len) * (a.len * b.len) := mul_pos hpos hpos
    nlinarith

/-- **the float vertices of a valid cell are near the exact cell** -/
theorem nearQuad_cell (id : CellID) (hv : isValid id = true) :
    NearQuad (cellQuad (cellFromCellID id).face (rectOf (cellFromCellID id))) (floatV (cellFromCellID id))
      (2 * uR) (8 * uR) := by
  set c := cellFromCellID id with hc
  have hu := uR_nonneg
  have vlen : ∀ k : Fin 4, 0 < (floatV c k).len := fun k => (vertex_dir id hv k.val).2.1
  have vnear : ∀ k : Fin 4, d2 (dirR (floatV c k)) (dirR ((cellQuad c.face (rectOf c)).w k)) ≤ (2 * uR) ^ 2 := by
    intro k
    rw [d2_eq_sub, ← corner_eq]
    exact (vertex_dir id hv k.val).2.2.2
  have vsucc : ∀ k : Fin 4, floatV c (k + 1) = vecR (vertex c ((k.val + 1) % 4)) := by
    intro k; unfold floatV; rw [fin4_succ_val]
  refine ⟨by linarith, by linarith, vlen, ?_, vnear, ?_, ?_⟩
  · -- not antipodal
    intro k
    apply notAntipodal_of_dirs (vlen k) (vlen (k + 1))
    have h0 := vnear k
    have h1 := vnear (k + 1)
    rw [d2_eq_sub] at h0 h1
    have hd := dot_near (by linarith : (0 : ℝ) ≤ 2 * uR) (dirR_n2 (vlen k))
      (dirR_n2 ((cellQuad_ok c.face (rectOf c) (cellOK id hv).2.2.2.2.1).wpos (k + 1))) h0 h1
    have hcd := corner_dot_nonneg id hv k.val
    rw [← corner_eq, ← corner_eq] at hd
    have e : corner c (k + 1 : Fin 4).val = corner c ((k.val + 1) % 4) := by rw [fin4_succ_val]
    rw [e] at hd
    have hsmall : 2 * (2 * uR) < 1 := by unfold uR; norm_num
    linarith
  · -- exact edge → float edge
    intro k Y hY
    have hY' := (onArc_corner c k Y).mpr hY
    obtain ⟨Y', h1, h2⟩ := edge_arc_near id hv k.val hY'
    refine ⟨Y', ?_, by rw [d2_eq_sub]; exact h2⟩
    rw [vsucc]; exact h1
  · intro k Y' hY'
    rw [vsucc] at hY'
    obtain ⟨Y, h1, h2⟩ := edge_arc_near' id hv k.val hY'
    exact ⟨Y, (onArc_corner c k Y).mp h1, by rw [d2_eq_sub]; exact h2⟩

end S2Proofs.C12Dist2
