/-
  C12Dist2.QuadCore — exact geometry of `Cell.DistanceToEdge` (pure ℝ³, no floats).

  A `Quad` is a convex cone cut out by four linear forms `h k` ("inward normals"), with four corner vectors `w k`;
  edge `k` is the arc from `w k` to `w (k+1)` and lies on the plane `h k = 0`.  The cell of an S2 cell id is such a cone
  (`CellQuad.lean`).

      exit_lemma       a straight segment from a point of the cone to a point outside leaves the cone through a point of
                       one of the four planes `h k = 0` (all forms are linear along the segment)
      toward           the normalised point of the segment between unit `q` and `r` is at least as close to `r` as `q`
      quad_arc_core    **the cell-to-edge theorem**: if `c` bounds the cosine between `a` / `b` and every point of the
                       cone, and between every corner and every point of the arc `ab`, then it bounds the cosine between ANY
                       point of the cone and ANY point of the arc — unless the arc meets one of the four edges.
  (`pair_core` of c17pairs does the edge-against-edge part.)
-/
import S2Proofs.C17Pairs.PairDist

set_option linter.unusedSimpArgs false
set_option linter.unusedVariables false

namespace S2Proofs.C12Dist2
open S2Proofs.C17Err S2Proofs.C17Err.R3 S2Proofs.C17Pairs

/-- direction of a non-zero vector -/
noncomputable def dirR (x : R3) : R3 := comb (1 / x.len) x 0 x

theorem dirR_n2 {x : R3} (h : 0 < x.len) : (dirR x).n2 = 1 := by
  unfold dirR
  rw [comb_n2, ← len_sq x]
  have : x.len ≠ 0 := h.ne'
  field_simp; ring

theorem dot_dirR (y x : R3) : y.dot (dirR x) = y.dot x / x.len := dot_normalise y x

/-- four linear forms and four corners -/
structure Quad where
  h : Fin 4 → R3 → ℝ
  w : Fin 4 → R3

/-- the closed cone -/
def Quad.In (Q : Quad) (x : R3) : Prop := ∀ k, 0 ≤ Q.h k x
/-- a unit vector of the cone: a point of the spherical quadrilateral -/
def Quad.Pt (Q : Quad) (x : R3) : Prop := x.n2 = 1 ∧ Q.In x

structure Quad.OK (Q : Quad) : Prop where
  lin : ∀ k s x t y, Q.h k (comb s x t y) = s * Q.h k x + t * Q.h k y
  wpos : ∀ k, 0 < (Q.w k).len
  /-- a point of the cone on the plane of edge `k` lies in the cone of the two corners of that edge -/
  edge : ∀ k x, Q.In x → Q.h k x = 0 → ∃ s t, 0 ≤ s ∧ 0 ≤ t ∧ x = comb s (Q.w k) t (Q.w (k + 1))
  /-- the corners belong to the cone -/
  corner : ∀ k, Q.In (Q.w k)

theorem Quad.OK.edge_in {Q : Quad} (hQ : Q.OK) {k : Fin 4} {x : R3} (hx : OnArc (Q.w k) (Q.w (k + 1)) x) : Q.Pt x := by
  obtain ⟨s, t, hs, ht, e, hn⟩ := hx
  refine ⟨hn, fun j => ?_⟩
  rw [e, hQ.lin]
  exact add_nonneg (mul_nonneg hs (hQ.corner k j)) (mul_nonneg ht (hQ.corner (k + 1) j))

theorem Quad.OK.scale {Q : Quad} (hQ : Q.OK) {x : R3} {s : ℝ} (hs : 0 ≤ s) (hx : Q.In x) : Q.In (comb s x 0 x) := by
  intro k
  rw [hQ.lin]
  have := hx k
  nlinarith [mul_nonneg hs this]

/-! ### the segment leaves the cone through a boundary plane -/

theorem exit_lemma {Q : Quad} (hQ : Q.OK) {q r : R3} (hq : Q.In q) (hr : ¬ Q.In r) :
    ∃ s : ℝ, 0 ≤ s ∧ s < 1 ∧ Q.In (comb (1 - s) q s r) ∧ ∃ k, Q.h k (comb (1 - s) q s r) = 0 := by
  classical
  unfold Quad.In at hr
  push Not at hr
  obtain ⟨k0, hk0⟩ := hr
  -- the forms that are negative at r
  set S : Finset (Fin 4) := Finset.univ.filter (fun k => Q.h k r < 0) with hS
  have hne : S.Nonempty := ⟨k0, by rw [hS]; simp [hk0]⟩
  let f : Fin 4 → ℝ := fun k => Q.h k q / (Q.h k q - Q.h k r)
  obtain ⟨k, hkS, hkmin⟩ := Finset.exists_min_image S f hne
  have hkr : Q.h k r < 0 := by rw [hS] at hkS; simpa using hkS
  have hkq := hq k
  have hden : 0 < Q.h k q - Q.h k r := by linarith
  refine ⟨f k, div_nonneg hkq hden.le, ?_, ?_, k, ?_⟩
  · show Q.h k q / (Q.h k q - Q.h k r) < 1
    rw [div_lt_one hden]; linarith
  · intro j
    rw [hQ.lin]
    by_cases hj : Q.h j r < 0
    · have hjS : j ∈ S := by rw [hS]; simp [hj]
      have hmin := hkmin j hjS
      have hjq := hq j
      have hdj : 0 < Q.h j q - Q.h j r := by linarith
      have : f k * (Q.h j q - Q.h j r) ≤ Q.h j q := by
        have := mul_le_mul_of_nonneg_right hmin hdj.le
        have e : f j * (Q.h j q - Q.h j r) = Q.h j q := by
          show Q.h j q / (Q.h j q - Q.h j r) * (Q.h j q - Q.h j r) = Q.h j q
          field_simp
        linarith
      nlinarith
    · have hjr : 0 ≤ Q.h j r := not_lt.mp hj
      have hjq := hq j
      have h0 : 0 ≤ f k := div_nonneg hkq hden.le
      have h1 : f k < 1 := by
        show Q.h k q / (Q.h k q - Q.h k r) < 1
        rw [div_lt_one hden]; linarith
      have := mul_nonneg h0 hjr
      have := mul_nonneg (by linarith : 0 ≤ 1 - f k) hjq
      linarith
  · rw [hQ.lin]
    show (1 - Q.h k q / (Q.h k q - Q.h k r)) * Q.h k q + Q.h k q / (Q.h k q - Q.h k r) * Q.h k r = 0
    field_simp
    ring

/-! ### moving towards `r` along the segment does not increase the angle to `r` -/

theorem seg_n2 (q r : R3) (s : ℝ) (hq : q.n2 = 1) (hr : r.n2 = 1) :
    (comb (1 - s) q s r).n2 = (1 - s) * (1 - s) + 2 * ((1 - s) * s) * q.dot r + s * s := by
  rw [comb_n2, hq, hr]; ring

theorem toward {q r : R3} {s : ℝ} (hq : q.n2 = 1) (hr : r.n2 = 1) (hs0 : 0 ≤ s) (hs1 : s ≤ 1)
    (hx : 0 < (comb (1 - s) q s r).len) : q.dot r ≤ (dirR (comb (1 - s) q s r)).dot r := by
  set x := comb (1 - s) q s r with hxdef
  set c0 := q.dot r with hc0
  have hcs := cs q r
  rw [hq, hr] at hcs
  have hc1 : c0 ≤ 1 := by nlinarith
  have hc2 : -1 ≤ c0 := by nlinarith
  have hn2 := seg_n2 q r s hq hr
  rw [← hxdef, ← hc0] at hn2
  have hL := len_sq x
  have hL0 := len_nonneg x
  -- |x| ≤ 1
  have hle1 : x.len ≤ 1 := by
    by_contra hcon
    have hcon := not_le.mp hcon
    have : 1 < x.len * x.len := by nlinarith
    have : x.n2 ≤ 1 := by
      rw [hn2]
      have := mul_nonneg (mul_nonneg (by linarith : 0 ≤ 1 - s) hs0) (by linarith : 0 ≤ 1 - c0)
      nlinarith
    linarith
  -- |x| ≥ 1 − 2s
  have hge : 1 - 2 * s ≤ x.len := by
    by_contra hcon
    have hcon := not_le.mp hcon
    have hpos : 0 < 1 - 2 * s := lt_of_le_of_lt hL0 hcon
    have : x.len * x.len < (1 - 2 * s) * (1 - 2 * s) := by nlinarith
    have : (1 - 2 * s) * (1 - 2 * s) ≤ x.n2 := by
      rw [hn2]
      have := mul_nonneg (mul_nonneg (by linarith : 0 ≤ 1 - s) hs0) (by linarith : 0 ≤ 1 + c0)
      nlinarith
    linarith
  have hxr : x.dot r = (1 - s) * c0 + s := by
    rw [hxdef, dot_comm, dot_comb, hc0, dot_comm r q]
    have : r.dot r = 1 := hr
    rw [this]; ring
  rw [dot_comm, dot_dirR, dot_comm, hxr, le_div_iff₀ hx]
  rcases le_or_gt 0 c0 with hpos | hneg
  · have := mul_nonneg hs0 (by linarith : 0 ≤ 1 - c0)
    nlinarith
  · rcases le_or_gt (1 - s) x.len with h1 | h1
    · nlinarith
    · -- |x| < 1 − s :  c0 (|x| − (1−s)) ≤ (1−s) − |x| ≤ s
      nlinarith

/-! ### an arc shorter than π does not contain the antipode of an endpoint -/

theorem arc_no_antipode {a b P : R3} (ha : 0 < a.len) (hab : NotAntipodal a b) (hP : OnArc a b P) :
    ¬ (∃ μ : ℝ, 0 < μ ∧ P = comb (-μ) a 0 a) := by
  rintro ⟨μ, hμ, e⟩
  obtain ⟨s, t, hs, ht, e2, hn⟩ := hP
  -- (s + μ) a + t b = 0
  have hz : comb (s + μ) a t b = ⟨0, 0, 0⟩ := by
    have := e.symm.trans e2
    unfold comb at this ⊢
    simp only [R3.mk.injEq] at this ⊢
    obtain ⟨h1, h2, h3⟩ := this
    refine ⟨by linarith, by linarith, by linarith⟩
  have han : 0 < a.n2 := len_pos_iff.mp ha
  have hsm : 0 < s + μ := by linarith
  -- dot with a: (s+μ)|a|² + t a·b = 0 ; cross with b …
  have d1 : (s + μ) * a.n2 + t * a.dot b = 0 := by
    have := congrArg (fun v => a.dot v) hz
    simp only [dot_comb] at this
    have z : a.dot (⟨0, 0, 0⟩ : R3) = 0 := by unfold dot; ring
    rw [z] at this
    exact this
  have d2 : (s + μ) * (s + μ) * (a.cross b).n2 = 0 := by
    -- (s+μ) a = −t b ⇒ (s+μ) a × b = 0
    unfold comb at hz
    simp only [R3.mk.injEq] at hz
    obtain ⟨h1, h2, h3⟩ := hz
    have e1 : (s + μ) * a.x = -(t * b.x) := by linarith
    have e2 : (s + μ) * a.y = -(t * b.y) := by linarith
    have e3 : (s + μ) * a.z = -(t * b.z) := by linarith
    have c1 : (s + μ) * (a.y * b.z - a.z * b.y) = 0 := by
      have : (s + μ) * (a.y * b.z - a.z * b.y) = ((s + μ) * a.y) * b.z - ((s + μ) * a.z) * b.y := by ring
      rw [this, e2, e3]; ring
    have c2 : (s + μ) * (a.z * b.x - a.x * b.z) = 0 := by
      have : (s + μ) * (a.z * b.x - a.x * b.z) = ((s + μ) * a.z) * b.x - ((s + μ) * a.x) * b.z := by ring
      rw [this, e3, e1]; ring
    have c3 : (s + μ) * (a.x * b.y - a.y * b.x) = 0 := by
      have : (s + μ) * (a.x * b.y - a.y * b.x) = ((s + μ) * a.x) * b.y - ((s + μ) * a.y) * b.x := by ring
      rw [this, e1, e2]; ring
    unfold R3.n2 R3.dot R3.cross
    simp only
    nlinarith [c1, c2, c3]
  rcases hab with h | h
  · have : 0 < (s + μ) * (s + μ) * (a.cross b).n2 := by positivity
    linarith
  · have := mul_pos hsm han
    have := mul_nonneg ht h.le
    linarith

/-! ### the cell-to-edge theorem -/

theorem quad_arc_core {Q : Quad} (hQ : Q.OK) {a b q r : R3} {c : ℝ} (hc0 : -1 ≤ c) (hc1 : c < 1)
    (ha : 0 < a.len) (hb : 0 < b.len) (hab : NotAntipodal a b)
    (hq : Q.Pt q) (hr : OnArc a b r)
    (hA : ∀ x, Q.Pt x → a.dot x ≤ c * a.len)
    (hB : ∀ x, Q.Pt x → b.dot x ≤ c * b.len)
    (hW : ∀ k, ∀ P, OnArc a b P → (Q.w k).dot P ≤ c * (Q.w k).len) :
    q.dot r ≤ c ∨ ∃ k, ArcsMeetR (Q.w k) (Q.w (k + 1)) a b := by
  obtain ⟨hq1, hqin⟩ := hq
  have hr1 : r.n2 = 1 := hr.choose_spec.choose_spec.2.2.2
  -- the direction of a is not in the cone
  have haout : ¬ Q.In (dirR a) := by
    intro hin
    have := hA (dirR a) ⟨dirR_n2 ha, hin⟩
    rw [dot_dirR] at this
    have e : a.dot a / a.len = a.len := by
      have : a.dot a = a.len * a.len := (len_sq a).symm
      rw [this]; field_simp
    rw [e] at this
    nlinarith
  by_cases hrin : Q.In r
  · -- the arc enters the cone: it meets an edge between r and a
    right
    obtain ⟨s, hs0, hs1, hxin, k, hk⟩ := exit_lemma hQ hrin haout
    set x := comb (1 - s) r s (dirR a) with hx
    obtain ⟨σ, τ, hσ, hτ, ex⟩ := hQ.edge k x hxin hk
    -- x is in the cone of a, b
    obtain ⟨s1, t1, hs1', ht1', er, _⟩ := hr
    have exab : x = comb ((1 - s) * s1 + s / a.len) a ((1 - s) * t1) b := by
      rw [hx, er]; unfold dirR comb
      simp only [R3.mk.injEq]
      refine ⟨by ring, by ring, by ring⟩
    have hc1' : 0 ≤ (1 - s) * s1 + s / a.len :=
      add_nonneg (mul_nonneg (by linarith) hs1') (div_nonneg hs0 ha.le)
    have hc2' : 0 ≤ (1 - s) * t1 := mul_nonneg (by linarith) ht1'
    -- x ≠ 0
    have hxpos : 0 < x.len := by
      rw [len_pos_iff]
      rcases (n2_nonneg x).lt_or_eq with h | h
      · exact h
      · exfalso
        have hx0 : x.x = 0 ∧ x.y = 0 ∧ x.z = 0 := by
          unfold R3.n2 R3.dot at h
          have q1 := mul_self_nonneg x.x
          have q2 := mul_self_nonneg x.y
          have q3 := mul_self_nonneg x.z
          exact ⟨mul_self_eq_zero.mp (by linarith), mul_self_eq_zero.mp (by linarith), mul_self_eq_zero.mp (by linarith)⟩
        -- (1−s) r = −(s/|a|) a
        have hs1p : 0 < 1 - s := by linarith
        apply arc_no_antipode ha hab ⟨s1, t1, hs1', ht1', er, hr1⟩
        refine ⟨s / a.len / (1 - s), ?_, ?_⟩
        · have hspos : 0 < s := by
            rcases hs0.lt_or_eq with h | h
            · exact h
            · exfalso
              -- s = 0 : x = r, |r| = 1 ≠ 0
              have : x = r := by rw [hx, ← h]; unfold comb; simp
              rw [this] at hx0
              unfold R3.n2 R3.dot at hr1
              rw [hx0.1, hx0.2.1, hx0.2.2] at hr1
              norm_num at hr1
          positivity
        · have e1 : (1 - s) * r.x + s * (1 / a.len * a.x + 0 * a.x) = 0 := by
            have := hx0.1; rw [hx] at this; simp only [dirR, comb] at this; simpa using this
          have e2 : (1 - s) * r.y + s * (1 / a.len * a.y + 0 * a.y) = 0 := by
            have := hx0.2.1; rw [hx] at this; simp only [dirR, comb] at this; simpa using this
          have e3 : (1 - s) * r.z + s * (1 / a.len * a.z + 0 * a.z) = 0 := by
            have := hx0.2.2; rw [hx] at this; simp only [dirR, comb] at this; simpa using this
          have hne : (1 - s) ≠ 0 := hs1p.ne'
          have hal : a.len ≠ 0 := ha.ne'
          unfold comb
          rcases r with ⟨rx, ry, rz⟩
          simp only [R3.mk.injEq] at e1 e2 e3 ⊢
          refine ⟨?_, ?_, ?_⟩
          · field_simp; field_simp at e1; linarith
          · field_simp; field_simp at e2; linarith
          · field_simp; field_simp at e3; linarith
    exact ⟨k, dirR x, onArc_of_cone hσ hτ ex hxpos, onArc_of_cone hc1' hc2' exab hxpos⟩
  · -- r outside: leave the cone from q towards r
    obtain ⟨s, hs0, hs1, hxin, k, hk⟩ := exit_lemma hQ hqin hrin
    set x := comb (1 - s) q s r with hx
    obtain ⟨σ, τ, hσ, hτ, ex⟩ := hQ.edge k x hxin hk
    by_cases hxz : 0 < x.len
    · have hq' : OnArc (Q.w k) (Q.w (k + 1)) (dirR x) := onArc_of_cone hσ hτ ex hxz
      have hmono := toward hq1 hr1 hs0 hs1.le hxz
      rcases pair_core (c := c) (hQ.wpos k) (hQ.wpos (k + 1)) ha hb hab hq' hr (hW k) (hW (k + 1))
          (fun P hP => hA P (hQ.edge_in hP)) (fun P hP => hB P (hQ.edge_in hP)) with h | h
      · exact Or.inr ⟨k, h⟩
      · left; rw [← hx] at hmono; linarith
    · -- x = 0 : r = −q
      left
      have hx0 : x.n2 = 0 := by
        have : x.len = 0 := le_antisymm (not_lt.mp hxz) (len_nonneg x)
        rw [← R3.len_sq, this]; ring
      have hn2 := seg_n2 q r s hq1 hr1
      rw [← hx, hx0] at hn2
      have hcs := cs q r
      rw [hq1, hr1] at hcs
      have hd1 : -1 ≤ q.dot r := by nlinarith
      have hd2 : q.dot r ≤ 1 := by nlinarith
      -- 0 = (1−s)² + s² + 2 s (1−s) d ≥ (1 − 2s)² ⇒ s = 1/2, d = −1
      have hs12 : s = 1 / 2 := by
        have := mul_nonneg (mul_nonneg (by linarith : 0 ≤ 1 - s) hs0) (by linarith : 0 ≤ 1 + q.dot r)
        nlinarith [sq_nonneg (1 - 2 * s)]
      rw [hs12] at hn2
      nlinarith

end S2Proofs.C12Dist2
