/-
  C12Dist2.CellLower — float glue for `Cell.DistanceToCell(target)` (model `S2.CellEdgeM.distanceToCell`):

      distanceToCell_lower_of :  the reported value is a finite float and
            val (DistanceToCell(target)) ≤ chord²(q, q') + 2^-46 + 2ε + 2η + (ε + η)²        (ε = 2u, η = 8u, u = 2^-53)
      for EVERY point q of the exact cell and EVERY point q' of the exact target cell,

  from c08world's contract of `UpdateMinDistance` for the 32 calls (`CellChain.lean`), the nearness of the float vertices of
  both cells (`CellNear.lean`) and the pure geometry `quad_quad_robust`, parametrised by the geometric facts about two
  exact S2 cells that are not (same face ∧ intersecting uv rectangles) — the case in which the code returns 0.
-/
import S2Proofs.C12Dist2.CellNear
import S2Proofs.C12Dist2.CellChain
import S2Proofs.C12Dist2.Robust2
import S2Proofs.C12Dist2.Exact

set_option linter.unusedSimpArgs false
set_option linter.unusedVariables false

namespace S2Proofs.C12Dist2
open S2 S2.CellID S2.CellM S2.CellEdgeM S2.EdgeNum S2Proofs.F64Order S2Proofs.FloatErr
open S2Proofs.C17Err S2Proofs.C17Err.R3 S2Proofs.C17Pairs S2Proofs.C17 S2Proofs.C08World S2Proofs.C12Dist S2Proofs.C12

/-- the cells are not in the early-return case of `DistanceToCell` -/
def NotEarly (c t : Cell) : Prop := ¬ (c.face = t.face ∧ Rect2.intersects c.uv t.uv = true)

theorem floatV_succ (c : Cell) (k : Fin 4) : floatV c (k + 1) = vecR (vertex c ((k.val + 1) % 4)) := by
  unfold floatV; rw [fin4_succ_val]

theorem distanceToCell_lower_of (id id' : CellID) (hv : isValid id = true) (hv' : isValid id' = true)
    (hcalls : ∀ t ∈ pairCalls (vertices (cellFromCellID id)) (vertices (cellFromCellID id')), CallOK t.1 t.2.1 t.2.2)
    (hgeo : NotEarly (cellFromCellID id) (cellFromCellID id') →
      NoProperCross (cellQuad (cellFromCellID id).face (rectOf (cellFromCellID id)))
          (cellQuad (cellFromCellID id').face (rectOf (cellFromCellID id'))) ∧
      CornersOnEdges (cellQuad (cellFromCellID id).face (rectOf (cellFromCellID id)))
          (cellQuad (cellFromCellID id').face (rectOf (cellFromCellID id'))) ∧
      CornersOnEdges (cellQuad (cellFromCellID id').face (rectOf (cellFromCellID id')))
          (cellQuad (cellFromCellID id).face (rectOf (cellFromCellID id))))
    {q q' : R3} (hq : InCellXYZ (cellFromCellID id) (toAcc q)) (hq' : InCellXYZ (cellFromCellID id') (toAcc q')) :
    Fin (distanceToCell (cellFromCellID id) (cellFromCellID id')) ∧
    val (distanceToCell (cellFromCellID id) (cellFromCellID id'))
      ≤ chordPQ q q' + (C08World.edgeErr + 2 * (2 * uR) + 2 * (8 * uR) + (2 * uR + 8 * uR) ^ 2) := by
  set c := cellFromCellID id with hcdef
  set t := cellFromCellID id' with htdef
  obtain ⟨_, _, _, _, ok, _⟩ := cellOK id hv
  obtain ⟨_, _, _, _, ok', _⟩ := cellOK id' hv'
  have hC := cellQuad_ok c.face (rectOf c) ok
  have hT := cellQuad_ok t.face (rectOf t) ok'
  have hqPt := (pt_iff_inCell c.face (rectOf c) ok q).mpr hq
  have hq'Pt := (pt_iff_inCell t.face (rectOf t) ok' q').mpr hq'
  have hch0 : 0 ≤ chordPQ q q' := chordPQ_nonneg hqPt.1 hq'Pt.1
  have hu := uR_nonneg
  have hE0 : (0 : ℝ) ≤ C08World.edgeErr := by unfold C08World.edgeErr; positivity
  unfold distanceToCell
  split
  · exact ⟨by decide, by rw [val_fzero]; positivity⟩
  · rename_i hne
    have hNE : NotEarly c t := by
      intro h
      apply hne
      simp only [Bool.and_eq_true, beq_iff_eq]
      exact h
    obtain ⟨hx, hc1, hc2⟩ := hgeo hNE
    have hvs : vertices c = [vertex c 0, vertex c 1, vertex c 2, vertex c 3] := rfl
    have hvt : vertices t = [vertex t 0, vertex t 1, vertex t 2, vertex t 3] := rfl
    rw [hvs, hvt] at hcalls ⊢
    have hab := mem_pairCalls_ab (vertex c) (vertex t)
    have hba := mem_pairCalls_ba (vertex c) (vertex t)
    obtain ⟨t0, l, hl⟩ : ∃ t0 l, pairCalls [vertex c 0, vertex c 1, vertex c 2, vertex c 3]
        [vertex t 0, vertex t 1, vertex t 2, vertex t 3] = t0 :: l := ⟨_, _, pairCalls_eq _ _ _ _ _ _ _ _⟩
    rw [hl] at hcalls hab hba ⊢
    obtain ⟨fR, nR, hall⟩ := fold_inf t0 l hcalls
    set R := val ((t0 :: l).foldl (fun m t => (updateMinDistancePub t.1 t.2.1 t.2.2 m).1) (F64.inf false)) with hR
    refine ⟨fR, ?_⟩
    have hR1 : ∀ k j P, OnArc (floatV t j) (floatV t (j + 1)) P → R ≤ chordPQ (dirR (floatV c k)) P + C08World.edgeErr := by
      intro k j P hP
      have hm := hab k j
      have hok := hcalls _ hm
      have h1 := hall _ hm
      rw [floatV_succ] at hP
      have h2 := trueDist2_le hok.hx.len_pos hok.ha.len_pos hok.hb.len_pos hP
      rw [dirChordP_eq_chord] at h2
      simp only at h1
      unfold floatV
      linarith
    have hR2 : ∀ j k P, OnArc (floatV c k) (floatV c (k + 1)) P → R ≤ chordPQ (dirR (floatV t j)) P + C08World.edgeErr := by
      intro j k P hP
      have hm := hba j k
      have hok := hcalls _ hm
      have h1 := hall _ hm
      rw [floatV_succ] at hP
      have h2 := trueDist2_le hok.hx.len_pos hok.ha.len_pos hok.hb.len_pos hP
      rw [dirChordP_eq_chord] at h2
      simp only at h1
      unfold floatV
      linarith
    exact quad_quad_robust hC hT (cellQuad_edgesOK _ _ ok) (cellQuad_edgesOK _ _ ok') (cellQuad_pointed _ _ ok')
      (nearQuad_cell id hv) (nearQuad_cell id' hv') hx hc1 hc2 hE0 hR1 hR2 hqPt hq'Pt

end S2Proofs.C12Dist2
