/-
  C12Dist2.Robust2 — the cell-to-cell theorem for the situation of the CODE (pure ℝ³): `DistanceToCell` takes the least of the
  32 (float vertex, float edge) distances, without any crossing test.  That is a lower bound for ALL pairs of points of the two
  exact cells, up to the slack, PROVIDED the exact cells are "apart": no two edges cross properly, and a corner of one that
  lies in the other lies on one of its edges (`CellsApart.lean`: true for two S2 cells unless they are on the same face with
  intersecting uv rectangles — the case in which the code returns 0).

      quad_quad_robust :  R ≤ chord²(q, q') + sV + 2ε + 2η + (ε + η)²
-/
import S2Proofs.C12Dist2.Robust
import S2Proofs.C12Dist2.QuadQuad

set_option linter.unusedSimpArgs false
set_option linter.unusedVariables false

namespace S2Proofs.C12Dist2
open S2Proofs.C17Err S2Proofs.C17Err.R3 S2Proofs.C17Pairs

/-- triangle inequality for the squared distance -/
theorem d2_triangle {x y z : R3} {ε η : ℝ} (hε : 0 ≤ ε) (hη : 0 ≤ η) (h1 : d2 x y ≤ ε ^ 2) (h2 : d2 y z ≤ η ^ 2) :
    d2 x z ≤ (ε + η) ^ 2 := by
  have e : comb 1 x (-1) z = comb 1 (comb 1 x (-1) y) 1 (comb 1 y (-1) z) := by
    cases x; cases y; cases z; simp only [comb, R3.mk.injEq]; refine ⟨by ring, by ring, by ring⟩
  have l1 : (comb 1 x (-1) y).len ≤ ε := len_le_of_sq hε (by unfold d2 at h1; nlinarith)
  have l2 : (comb 1 y (-1) z).len ≤ η := len_le_of_sq hη (by unfold d2 at h2; nlinarith)
  have l3 := comb_len_le (s := 1) (t := 1) (by norm_num) (by norm_num) (comb 1 x (-1) y) (comb 1 y (-1) z)
  rw [← e] at l3
  have l0 := len_nonneg (comb 1 x (-1) z)
  unfold d2
  rw [← R3.len_sq]
  nlinarith

def NoProperCross (C T : Quad) : Prop := ∀ k j, ¬ ProperCrossR (C.w k) (C.w (k + 1)) (T.w j) (T.w (j + 1))
def CornersOnEdges (C T : Quad) : Prop := ∀ j, C.In (T.w j) → ∃ k, dirOn (C.w k) (C.w (k + 1)) (T.w j)

theorem chordPQ_le_four {x y : R3} (hx : x.n2 = 1) (hy : y.n2 = 1) : chordPQ x y ≤ 4 := by
  unfold chordPQ
  have hcs := cs x y
  rw [hx, hy] at hcs
  nlinarith

theorem chordPQ_comm (x y : R3) : chordPQ x y = chordPQ y x := by unfold chordPQ; rw [dot_comm]

/-- a corner of `T` whose direction lies on an edge of `C` : the corresponding float candidate is tiny -/
theorem corner_on_edge_small {C T : Quad} (hT : T.OK) {V W : Fin 4 → R3} {ε η : ℝ}
    (hNC : NearQuad C V ε η) (hNT : NearQuad T W ε η) {R sV : ℝ}
    (hR2 : ∀ j k P, OnArc (V k) (V (k + 1)) P → R ≤ chordPQ (dirR (W j)) P + sV)
    {k j : Fin 4} (h : dirOn (C.w k) (C.w (k + 1)) (T.w j)) : R ≤ sV + (ε + η) ^ 2 := by
  have hY : OnArc (C.w k) (C.w (k + 1)) (dirR (T.w j)) := h
  obtain ⟨Y', hY'f, hY'n⟩ := hNC.toFloat k _ hY
  have h1 := hR2 j k Y' hY'f
  have hW1 : (dirR (W j)).n2 = 1 := dirR_n2 (hNT.vpos j)
  have hY'1 := onArc_n2 hY'f
  rw [← d2_unit hW1 hY'1] at h1
  have h2 := d2_triangle hNT.ε0 hNT.η0 (hNT.near j) (by rw [d2_comm]; exact hY'n)
  linarith

theorem quad_quad_robust {C T : Quad} (hC : C.OK) (hT : T.OK) (hCe : C.EdgesOK) (hTe : T.EdgesOK) (hTp : T.Pointed)
    {V W : Fin 4 → R3} {ε η : ℝ} (hNC : NearQuad C V ε η) (hNT : NearQuad T W ε η)
    (hx : NoProperCross C T) (hc1 : CornersOnEdges C T) (hc2 : CornersOnEdges T C)
    {R sV : ℝ} (hsV : 0 ≤ sV)
    (hR1 : ∀ k j P, OnArc (W j) (W (j + 1)) P → R ≤ chordPQ (dirR (V k)) P + sV)
    (hR2 : ∀ j k P, OnArc (V k) (V (k + 1)) P → R ≤ chordPQ (dirR (W j)) P + sV)
    {q q' : R3} (hq : C.Pt q) (hq' : T.Pt q') :
    R ≤ chordPQ q q' + (sV + 2 * ε + 2 * η + (ε + η) ^ 2) := by
  have hε := hNC.ε0
  have hη := hNC.η0
  set S := sV + 2 * ε + 2 * η + (ε + η) ^ 2 with hS
  have hsq : 0 ≤ (ε + η) ^ 2 := sq_nonneg _
  have hch0 : 0 ≤ chordPQ q q' := chordPQ_nonneg hq.1 hq'.1
  by_cases hsmall : R ≤ S
  · linarith
  have hbig : S < R := not_le.mp hsmall
  set c := 1 - (R - S) / 2 with hc
  have hc0 : -1 ≤ c := by
    rw [hc]
    have hP : OnArc (W 0) (W (0 + 1)) (dirR (W 0)) := onArc_left' _ _ (hNT.vpos 0)
    have h1 := hR1 0 0 _ hP
    have h2 := chordPQ_le_four (dirR_n2 (hNC.vpos 0)) (dirR_n2 (hNT.vpos 0))
    have : sV ≤ S := by rw [hS]; linarith
    linarith
  -- bounds for exact corners against exact edges
  have key : ∀ {A B : Quad} {VA VB : Fin 4 → R3} (hA : A.OK) (hNA : NearQuad A VA ε η) (hNB : NearQuad B VB ε η)
      (hR : ∀ k j P, OnArc (VB j) (VB (j + 1)) P → R ≤ chordPQ (dirR (VA k)) P + sV),
      ∀ k j P, OnArc (B.w j) (B.w (j + 1)) P → (A.w k).dot P ≤ c * (A.w k).len := by
    intro A B VA VB hA hNA hNB hR k j P hP
    have hP1 := onArc_n2 hP
    obtain ⟨P', hP'f, hP'n⟩ := hNB.toFloat j P hP
    have h1 := hR k j P' hP'f
    have hVA1 : (dirR (VA k)).n2 = 1 := dirR_n2 (hNA.vpos k)
    -- ŵ·P ≤ V̂·P + ε ≤ V̂·P' + η + ε
    have d1 : P.dot (dirR (A.w k)) ≤ P.dot (dirR (VA k)) + ε :=
      dot_le_of_near hε hP1 (by rw [d2_comm]; exact hNA.near k)
    have d2' : (dirR (VA k)).dot P ≤ (dirR (VA k)).dot P' + η :=
      dot_le_of_near hη hVA1 (by rw [d2_comm]; exact hP'n)
    have h3 : R ≤ chordPQ (dirR (A.w k)) P + (sV + 2 * ε + 2 * η) := by
      unfold chordPQ at h1 ⊢
      rw [dot_comm P (dirR (A.w k))] at d1
      rw [dot_comm P (dirR (VA k))] at d1
      linarith
    exact cos_of_chord (hA.wpos k) h3 (by rw [hc, hS]; linarith)
  have hCT := key hC hNC hNT hR1
  have hTC := key hT hNT hNC hR2
  have smallT : ∀ {k j : Fin 4}, dirOn (C.w k) (C.w (k + 1)) (T.w j) → False := by
    intro k j h
    have := corner_on_edge_small hT hNC hNT hR2 h
    rw [hS] at hbig; linarith
  have smallC : ∀ {k j : Fin 4}, dirOn (T.w j) (T.w (j + 1)) (C.w k) → False := by
    intro k j h
    have := corner_on_edge_small hC hNT hNC hR1 h
    rw [hS] at hbig; linarith
  rcases quad_quad_core hC hT hCe hTe hTp hc0 hCT hTC hq hq' with h | ⟨k, j, h⟩ | ⟨j, h⟩ | ⟨k, h⟩
  · rw [hc] at h
    unfold chordPQ; linarith
  · exfalso
    rcases meet_cases (hC.wpos k) (hC.wpos (k + 1)) (hT.wpos j) (hT.wpos (j + 1)) (hCe k) (hTe j) h with h | h | h | h | h
    · exact hx k j h
    · exact smallT h
    · exact smallT h
    · exact smallC h
    · exact smallC h
  · obtain ⟨k, hk⟩ := hc1 j h
    exact (smallT hk).elim
  · obtain ⟨j, hj⟩ := hc2 k h
    exact (smallC hj).elim

end S2Proofs.C12Dist2
