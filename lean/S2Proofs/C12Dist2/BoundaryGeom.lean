/-
  C12Dist2.BoundaryGeom — the real-analysis core of the INTERIOR branch of `Cell.BoundaryDistance`
  (`distanceInternal c p false` with the flag `inside`): the value is the minimum of the four `edgeDistance`s.

  * `on_edge_lower_L/R/B/T` : a unit vector ON the great circle of an edge (`q.x = u·q.z`, whatever the side of the
    target) is at squared distance ≥ `edgeReal` of that edge from the target  (LOWER BOUND, no `max(outward,0)` term).
  * `walk` : for a point `t'` of the closed cone over the rectangle and ANY unit vector `f` in the plane of one of the
    four edge circles there is a point `q` of the cell's BOUNDARY with `t'·f ≤ t'·q`: the straight segment from `t'` to
    `f` leaves the cone (all four forms are linear along it, `seg_exit4`) through a boundary point, whose direction is at
    least as close to `t'` as `f` (`angle_real`).
  * `inside_attained_L/R/B/T` : if the four exact sign quantities are within `ε` of the inside condition, then for EACH
    edge some boundary point of the cell is at squared distance ≤ `edgeReal(edge) + 8·ε` from the target
    (clamp the target into the cone, walk towards the foot of that edge's circle).
-/
import S2Proofs.C12Dist.InsideRobust

namespace S2Proofs.C12Dist2.BdGeom
open S2Proofs.C16Acc S2Proofs.C12Dist

/-! ### LOWER BOUND for points on an edge circle -/

/-- a unit vector in the plane `x = u·z` has `t·q ≤ √(y² + w²/D)` (the length of the projection of `t` on that plane) -/
theorem on_circle_u (u : ℝ) (t q : R3) (hn : q.norm2 = 1) (h : q.x = u * q.z) :
    R3.dot t q ≤ Real.sqrt (t.y ^ 2 + (u * t.x + t.z) ^ 2 / (1 + u ^ 2)) := by
  have hs : q.x - q.z * u = 0 := by rw [h]; ring
  rcases le_total (t.x - t.z * u) 0 with hle | hle
  · have := edge_dot_le_u u 1 (Or.inl rfl) t q hn (by rw [hs]; simp)
    rw [one_mul, max_eq_right hle] at this
    linarith
  · have := edge_dot_le_u u (-1) (Or.inr rfl) t q hn (by rw [hs]; simp)
    rw [max_eq_right (by linarith)] at this
    linarith

theorem on_circle_v (v : ℝ) (t q : R3) (hn : q.norm2 = 1) (h : q.y = v * q.z) :
    R3.dot t q ≤ Real.sqrt (t.x ^ 2 + (v * t.y + t.z) ^ 2 / (1 + v ^ 2)) := by
  have hs : q.y - q.z * v = 0 := by rw [h]; ring
  rcases le_total (t.y - t.z * v) 0 with hle | hle
  · have := edge_dot_le_v v 1 (Or.inl rfl) t q hn (by rw [hs]; simp)
    rw [one_mul, max_eq_right hle] at this
    linarith
  · have := edge_dot_le_v v (-1) (Or.inr rfl) t q hn (by rw [hs]; simp)
    rw [max_eq_right (by linarith)] at this
    linarith

theorem on_edge_lower_L (r : RRect) (t q : R3) (hn : q.norm2 = 1) (h : q.x = r.u0 * q.z) :
    edgeReal (-(sL r t)) r.u0 t.y (r.u0 * t.x + t.z) ≤ dist2 t q := by
  have hd := on_circle_u r.u0 t q hn h
  rw [edgeReal_eq, dist2_eq, hn, neg_sq]
  unfold sL
  have := frame_norm_u r.u0 t
  linarith

theorem on_edge_lower_R (r : RRect) (t q : R3) (hn : q.norm2 = 1) (h : q.x = r.u1 * q.z) :
    edgeReal (sR r t) r.u1 t.y (r.u1 * t.x + t.z) ≤ dist2 t q := by
  have hd := on_circle_u r.u1 t q hn h
  rw [edgeReal_eq, dist2_eq, hn]
  unfold sR
  have := frame_norm_u r.u1 t
  linarith

theorem on_edge_lower_B (r : RRect) (t q : R3) (hn : q.norm2 = 1) (h : q.y = r.v0 * q.z) :
    edgeReal (-(sB r t)) r.v0 t.x (r.v0 * t.y + t.z) ≤ dist2 t q := by
  have hd := on_circle_v r.v0 t q hn h
  rw [edgeReal_eq, dist2_eq, hn, neg_sq]
  unfold sB
  have := frame_norm_v r.v0 t
  linarith

theorem on_edge_lower_T (r : RRect) (t q : R3) (hn : q.norm2 = 1) (h : q.y = r.v1 * q.z) :
    edgeReal (sT r t) r.v1 t.x (r.v1 * t.y + t.z) ≤ dist2 t q := by
  have hd := on_circle_v r.v1 t q hn h
  rw [edgeReal_eq, dist2_eq, hn]
  unfold sT
  have := frame_norm_v r.v1 t
  linarith

/-- **every boundary point is at least the smallest of the four `edgeReal`s away** (it lies on one of the four circles) -/
theorem boundary_lower (r : RRect) (t q : R3) (hq : OnBoundary r q) :
    edgeReal (-(sL r t)) r.u0 t.y (r.u0 * t.x + t.z) ≤ dist2 t q ∨
    edgeReal (sR r t) r.u1 t.y (r.u1 * t.x + t.z) ≤ dist2 t q ∨
    edgeReal (-(sB r t)) r.v0 t.x (r.v0 * t.y + t.z) ≤ dist2 t q ∨
    edgeReal (sT r t) r.v1 t.x (r.v1 * t.y + t.z) ≤ dist2 t q := by
  obtain ⟨hc, h | h | h | h⟩ := hq
  · exact Or.inl (on_edge_lower_L r t q hc.1 h)
  · exact Or.inr (Or.inl (on_edge_lower_R r t q hc.1 h))
  · exact Or.inr (Or.inr (Or.inl (on_edge_lower_B r t q hc.1 h)))
  · exact Or.inr (Or.inr (Or.inr (on_edge_lower_T r t q hc.1 h)))

/-! ### leaving a cone along a segment -/

/-- one linear form along a segment: it stays non-negative up to a parameter `l` where it vanishes (or `l = 1`) -/
theorem lam1 (p f : ℝ) (hp : 0 ≤ p) :
    ∃ l : ℝ, 0 ≤ l ∧ l ≤ 1 ∧ (∀ μ, 0 ≤ μ → μ ≤ l → 0 ≤ (1 - μ) * p + μ * f) ∧
      (l = 1 ∨ (1 - l) * p + l * f = 0) := by
  by_cases hf : 0 ≤ f
  · refine ⟨1, by norm_num, le_refl _, ?_, Or.inl rfl⟩
    intro μ h0 h1
    have a : 0 ≤ (1 - μ) * p := mul_nonneg (by linarith) hp
    have b : 0 ≤ μ * f := mul_nonneg h0 hf
    linarith
  · have hf' : f < 0 := not_le.1 hf
    have hd : 0 < p - f := by linarith
    have hne : p - f ≠ 0 := ne_of_gt hd
    refine ⟨p / (p - f), div_nonneg hp hd.le, ?_, ?_, Or.inr ?_⟩
    · rw [div_le_one hd]; linarith
    · intro μ h0 h1
      have : μ * (p - f) ≤ p := by rwa [le_div_iff₀ hd] at h1
      nlinarith
    · field_simp; ring

/-- four linear forms, all non-negative at the start: a parameter `l ∈ [0,1]` at which all are still non-negative and
    one vanishes (or `l = 1`) -/
theorem seg_exit4 (p1 p2 p3 p4 f1 f2 f3 f4 : ℝ) (h1 : 0 ≤ p1) (h2 : 0 ≤ p2) (h3 : 0 ≤ p3) (h4 : 0 ≤ p4) :
    ∃ l : ℝ, 0 ≤ l ∧ l ≤ 1 ∧ 0 ≤ (1 - l) * p1 + l * f1 ∧ 0 ≤ (1 - l) * p2 + l * f2 ∧
      0 ≤ (1 - l) * p3 + l * f3 ∧ 0 ≤ (1 - l) * p4 + l * f4 ∧
      (l = 1 ∨ (1 - l) * p1 + l * f1 = 0 ∨ (1 - l) * p2 + l * f2 = 0 ∨ (1 - l) * p3 + l * f3 = 0 ∨
        (1 - l) * p4 + l * f4 = 0) := by
  obtain ⟨l1, a1, b1, c1, d1⟩ := lam1 p1 f1 h1
  obtain ⟨l2, a2, b2, c2, d2⟩ := lam1 p2 f2 h2
  obtain ⟨l3, a3, b3, c3, d3⟩ := lam1 p3 f3 h3
  obtain ⟨l4, a4, b4, c4, d4⟩ := lam1 p4 f4 h4
  have hl0 : 0 ≤ min (min l1 l2) (min l3 l4) := le_min (le_min a1 a2) (le_min a3 a4)
  have hl1 : min (min l1 l2) (min l3 l4) ≤ l1 := le_trans (min_le_left _ _) (min_le_left _ _)
  have hl2 : min (min l1 l2) (min l3 l4) ≤ l2 := le_trans (min_le_left _ _) (min_le_right _ _)
  have hl3 : min (min l1 l2) (min l3 l4) ≤ l3 := le_trans (min_le_right _ _) (min_le_left _ _)
  have hl4 : min (min l1 l2) (min l3 l4) ≤ l4 := le_trans (min_le_right _ _) (min_le_right _ _)
  refine ⟨min (min l1 l2) (min l3 l4), hl0, by linarith, c1 _ hl0 hl1, c2 _ hl0 hl2, c3 _ hl0 hl3, c4 _ hl0 hl4, ?_⟩
  have hsel : min (min l1 l2) (min l3 l4) = l1 ∨ min (min l1 l2) (min l3 l4) = l2 ∨
      min (min l1 l2) (min l3 l4) = l3 ∨ min (min l1 l2) (min l3 l4) = l4 := by
    rcases min_choice (min l1 l2) (min l3 l4) with h | h
    · rcases min_choice l1 l2 with h' | h'
      · left; rw [h, h']
      · right; left; rw [h, h']
    · rcases min_choice l3 l4 with h' | h'
      · right; right; left; rw [h, h']
      · right; right; right; rw [h, h']
  rcases hsel with h | h | h | h
  · rw [h]; rcases d1 with d | d
    · exact Or.inl d
    · exact Or.inr (Or.inl d)
  · rw [h]; rcases d2 with d | d
    · exact Or.inl d
    · exact Or.inr (Or.inr (Or.inl d))
  · rw [h]; rcases d3 with d | d
    · exact Or.inl d
    · exact Or.inr (Or.inr (Or.inr (Or.inl d)))
  · rw [h]; rcases d4 with d | d
    · exact Or.inl d
    · exact Or.inr (Or.inr (Or.inr (Or.inr d)))

/-- the planar fact behind "a point of the segment between `t` and the unit vector `f` is, after normalisation, at
    least as close to `t` as `f`": with `a = |t|²`, `b = t·f`, `N = |(1−l)t + l f|` : `b·N ≤ t·((1−l)t + l f)` -/
theorem angle_real (a b l N : ℝ) (hb : b ^ 2 ≤ a) (hl0 : 0 ≤ l) (hl1 : l ≤ 1) (hN : 0 ≤ N)
    (hN2 : N ^ 2 = (1 - l) ^ 2 * a + 2 * l * (1 - l) * b + l ^ 2) :
    b * N ≤ (1 - l) * a + l * b := by
  have ha : 0 ≤ a := le_trans (sq_nonneg b) hb
  have key : ((1 - l) * a + l * b) ^ 2 - (b * N) ^ 2
      = (1 - l) * (a - b ^ 2) * (((1 - l) * a + l * b) + l * b) := by
    rw [mul_pow, hN2]; ring
  have h1l : 0 ≤ 1 - l := by linarith
  have hab : 0 ≤ a - b ^ 2 := by linarith
  have hla : 0 ≤ (1 - l) * a := mul_nonneg h1l ha
  rcases le_or_gt 0 b with hb0 | hb0
  · have hlb : 0 ≤ l * b := mul_nonneg hl0 hb0
    have hP0 : 0 ≤ (1 - l) * a + l * b := by linarith
    have h3 : 0 ≤ (1 - l) * (a - b ^ 2) * (((1 - l) * a + l * b) + l * b) :=
      mul_nonneg (mul_nonneg h1l hab) (by linarith)
    have hsq : (b * N) ^ 2 ≤ ((1 - l) * a + l * b) ^ 2 := by linarith
    exact (abs_le_of_sq_le_sq' hsq hP0).2
  · have hbN : b * N ≤ 0 := mul_nonpos_of_nonpos_of_nonneg hb0.le hN
    rcases le_or_gt 0 ((1 - l) * a + l * b) with hP0 | hP0
    · linarith
    · have hlb : l * b ≤ 0 := mul_nonpos_of_nonneg_of_nonpos hl0 hb0.le
      have h3 : (1 - l) * (a - b ^ 2) * (((1 - l) * a + l * b) + l * b) ≤ 0 :=
        mul_nonpos_of_nonneg_of_nonpos (mul_nonneg h1l hab) (by linarith)
      have hsq : (-((1 - l) * a + l * b)) ^ 2 ≤ (-(b * N)) ^ 2 := by
        rw [neg_sq, neg_sq]; linarith
      have := (abs_le_of_sq_le_sq' hsq (by linarith)).2
      linarith

/-! ### the segment and the four linear forms -/

/-- the point `(1−l)·t + l·f` of the segment -/
def seg (l : ℝ) (t f : R3) : R3 :=
  ⟨(1 - l) * t.x + l * f.x, (1 - l) * t.y + l * f.y, (1 - l) * t.z + l * f.z⟩

theorem sL_seg (r : RRect) (l : ℝ) (t f : R3) : sL r (seg l t f) = (1 - l) * sL r t + l * sL r f := by
  unfold sL seg; ring
theorem sR_seg (r : RRect) (l : ℝ) (t f : R3) : sR r (seg l t f) = (1 - l) * sR r t + l * sR r f := by
  unfold sR seg; ring
theorem sB_seg (r : RRect) (l : ℝ) (t f : R3) : sB r (seg l t f) = (1 - l) * sB r t + l * sB r f := by
  unfold sB seg; ring
theorem sT_seg (r : RRect) (l : ℝ) (t f : R3) : sT r (seg l t f) = (1 - l) * sT r t + l * sT r f := by
  unfold sT seg; ring

theorem dot_seg (l : ℝ) (t f : R3) : R3.dot t (seg l t f) = (1 - l) * t.norm2 + l * R3.dot t f := by
  unfold R3.dot seg R3.norm2; ring

theorem norm2_seg (l : ℝ) (t f : R3) :
    (seg l t f).norm2 = (1 - l) ^ 2 * t.norm2 + 2 * l * (1 - l) * R3.dot t f + l ^ 2 * f.norm2 := by
  unfold R3.dot seg R3.norm2; ring

theorem dot_smul_right (c : ℝ) (t g : R3) : R3.dot t (R3.smul c g) = c * R3.dot t g := by
  unfold R3.dot R3.smul; ring

/-- a non-zero vector of the closed cone on which one of the four forms vanishes: its direction is a boundary point -/
theorem normalize_onBoundary (r : RRect) (g : R3) (hI : ExInside r g) (hz : 0 < g.z)
    (h0 : sL r g = 0 ∨ sR r g = 0 ∨ sB r g = 0 ∨ sT r g = 0) :
    OnBoundary r (R3.smul (1 / g.norm) g) := by
  obtain ⟨h1, h2, h3, h4⟩ := hI
  unfold sL at h1 h0; unfold sR at h2 h0; unfold sB at h3 h0; unfold sT at h4 h0
  have hpos : 0 < g.norm2 := by
    unfold R3.norm2
    have := sq_nonneg g.x; have := sq_nonneg g.y; have : 0 < g.z ^ 2 := by positivity
    linarith
  have hn : 0 < g.norm := Real.sqrt_pos.2 hpos
  have hn2 : g.norm ^ 2 = g.norm2 := g.norm_sq
  have hc : 0 ≤ 1 / g.norm := by positivity
  refine ⟨⟨?_, ?_, ?_, ?_, ?_, ?_⟩, ?_⟩
  · rw [R3.norm2_smul, ← hn2]; field_simp
  · unfold R3.smul; simp only; positivity
  · unfold R3.smul; simp only
    rw [show r.u0 * (1 / g.norm * g.z) = 1 / g.norm * (g.z * r.u0) by ring]
    exact mul_le_mul_of_nonneg_left (by linarith) hc
  · unfold R3.smul; simp only
    rw [show r.u1 * (1 / g.norm * g.z) = 1 / g.norm * (g.z * r.u1) by ring]
    exact mul_le_mul_of_nonneg_left (by linarith) hc
  · unfold R3.smul; simp only
    rw [show r.v0 * (1 / g.norm * g.z) = 1 / g.norm * (g.z * r.v0) by ring]
    exact mul_le_mul_of_nonneg_left (by linarith) hc
  · unfold R3.smul; simp only
    rw [show r.v1 * (1 / g.norm * g.z) = 1 / g.norm * (g.z * r.v1) by ring]
    exact mul_le_mul_of_nonneg_left (by linarith) hc
  · unfold R3.smul; simp only
    rcases h0 with h | h | h | h
    · left; rw [show g.x = g.z * r.u0 by linarith]; ring
    · right; left; rw [show g.x = g.z * r.u1 by linarith]; ring
    · right; right; left; rw [show g.y = g.z * r.v0 by linarith]; ring
    · right; right; right; rw [show g.y = g.z * r.v1 by linarith]; ring

theorem dot_normalize_self (t : R3) (hpos : 0 < t.norm2) : R3.dot t (R3.smul (1 / t.norm) t) = t.norm := by
  have hn : 0 < t.norm := Real.sqrt_pos.2 hpos
  rw [dot_smul_right, ← R3.norm2_eq_dot, ← t.norm_mul_self]
  field_simp

/-- **walking out of the cone**: for `t` in the closed cone (`t.z > 0`) and a unit vector `f` in the plane of one of
    the four edge circles, some BOUNDARY point `q` of the cell has `t·f ≤ t·q` -/
theorem walk (r : RRect) (hr : r.OK) (t f : R3) (hI : ExInside r t) (hz : 0 < t.z) (hf : f.norm2 = 1)
    (hf0 : sL r f = 0 ∨ sR r f = 0 ∨ sB r f = 0 ∨ sT r f = 0) :
    ∃ q, OnBoundary r q ∧ R3.dot t f ≤ R3.dot t q := by
  obtain ⟨h1, h2, h3, h4⟩ := hI
  obtain ⟨l, l0, l1, c1, c2, c3, c4, hz0⟩ := seg_exit4 (sL r t) (-(sR r t)) (sB r t) (-(sT r t))
    (sL r f) (-(sR r f)) (sB r f) (-(sT r f)) h1 (by linarith) h3 (by linarith)
  have hIg : ExInside r (seg l t f) :=
    ⟨by rw [sL_seg]; exact c1, by rw [sR_seg]; linarith, by rw [sB_seg]; exact c3, by rw [sT_seg]; linarith⟩
  have hg0 : sL r (seg l t f) = 0 ∨ sR r (seg l t f) = 0 ∨ sB r (seg l t f) = 0 ∨ sT r (seg l t f) = 0 := by
    rw [sL_seg, sR_seg, sB_seg, sT_seg]
    rcases hz0 with h | h | h | h | h
    · rw [h]
      rcases hf0 with e | e | e | e
      · left; rw [e]; ring
      · right; left; rw [e]; ring
      · right; right; left; rw [e]; ring
      · right; right; right; rw [e]; ring
    · left; exact h
    · right; left; linarith
    · right; right; left; exact h
    · right; right; right; linarith
  have hpos : 0 < t.norm2 := by
    unfold R3.norm2
    have := sq_nonneg t.x; have := sq_nonneg t.y; have : 0 < t.z ^ 2 := by positivity
    linarith
  have hbsq : (R3.dot t f) ^ 2 ≤ t.norm2 := by
    have := R3.dot_sq_le t f; rw [hf, mul_one] at this; exact this
  -- the z coordinate of the exit point is ≥ 0
  have hgz : 0 ≤ (seg l t f).z := by
    have a := hIg.1; have b := hIg.2.1
    unfold sL at a; unfold sR at b
    have hu := hr.u_lt
    by_contra hneg
    have hneg' : (seg l t f).z < 0 := not_le.1 hneg
    nlinarith
  rcases lt_or_eq_of_le hgz with hgz | hgz
  · -- the generic case: normalise the exit point
    refine ⟨_, normalize_onBoundary r (seg l t f) hIg hgz hg0, ?_⟩
    have hgpos : 0 < (seg l t f).norm2 := by
      unfold R3.norm2
      have := sq_nonneg (seg l t f).x; have := sq_nonneg (seg l t f).y
      have : 0 < (seg l t f).z ^ 2 := by positivity
      linarith
    have hn : 0 < (seg l t f).norm := Real.sqrt_pos.2 hgpos
    have hN2 : (seg l t f).norm ^ 2 = (1 - l) ^ 2 * t.norm2 + 2 * l * (1 - l) * R3.dot t f + l ^ 2 := by
      rw [R3.norm_sq, norm2_seg, hf, mul_one]
    have hang := angle_real t.norm2 (R3.dot t f) l (seg l t f).norm hbsq l0 l1 hn.le hN2
    rw [dot_smul_right, dot_seg, one_div, ← div_eq_inv_mul, le_div_iff₀ hn]
    exact hang
  · -- the exit point is the origin: `f` is a negative multiple of `t`, and `t` itself lies on that edge plane
    have hgx : (seg l t f).x = 0 := by
      have a := hIg.1; have b := hIg.2.1
      unfold sL at a; unfold sR at b
      rw [← hgz] at a b; linarith
    have hgy : (seg l t f).y = 0 := by
      have a := hIg.2.2.1; have b := hIg.2.2.2
      unfold sB at a; unfold sT at b
      rw [← hgz] at a b; linarith
    have hd0 : (1 - l) * t.norm2 + l * R3.dot t f = 0 := by
      rw [← dot_seg]; unfold R3.dot; rw [hgx, hgy, ← hgz]; ring
    have hlpos : 0 < l := by
      rcases lt_or_eq_of_le l0 with h | h
      · exact h
      · exfalso
        have : (seg l t f).z = t.z := by unfold seg; simp only; rw [← h]; ring
        rw [this] at hgz; linarith
    have hl1 : l ≠ 1 := by
      intro h
      have e := norm2_seg l t f
      rw [h, hf] at e
      have : (seg 1 t f).norm2 = 0 := by
        rw [← h]; unfold R3.norm2; rw [hgx, hgy, ← hgz]; ring
      rw [this] at e; norm_num at e
    have hdot : R3.dot t f ≤ 0 := by
      by_contra hc
      have hc' : 0 < R3.dot t f := not_le.1 hc
      have a : 0 ≤ (1 - l) * t.norm2 := mul_nonneg (by linarith) hpos.le
      have b : 0 < l * R3.dot t f := mul_pos hlpos hc'
      linarith
    have hsz : sL r (seg l t f) = 0 ∧ sR r (seg l t f) = 0 ∧ sB r (seg l t f) = 0 ∧ sT r (seg l t f) = 0 := by
      unfold sL sR sB sT; rw [hgx, hgy, ← hgz]; simp
    rw [sL_seg, sR_seg, sB_seg, sT_seg] at hsz
    have h1l : (1 - l) ≠ 0 := fun h => hl1 (by linarith)
    have ht0 : sL r t = 0 ∨ sR r t = 0 ∨ sB r t = 0 ∨ sT r t = 0 := by
      rcases hf0 with e | e | e | e
      · left
        have := hsz.1; rw [e, mul_zero, add_zero] at this
        exact (mul_eq_zero.1 this).resolve_left h1l
      · right; left
        have := hsz.2.1; rw [e, mul_zero, add_zero] at this
        exact (mul_eq_zero.1 this).resolve_left h1l
      · right; right; left
        have := hsz.2.2.1; rw [e, mul_zero, add_zero] at this
        exact (mul_eq_zero.1 this).resolve_left h1l
      · right; right; right
        have := hsz.2.2.2; rw [e, mul_zero, add_zero] at this
        exact (mul_eq_zero.1 this).resolve_left h1l
    refine ⟨_, normalize_onBoundary r t ⟨h1, h2, h3, h4⟩ hz ht0, ?_⟩
    rw [dot_normalize_self t hpos]
    have := t.norm_nonneg
    linarith

/-! ### the foot of the target on an edge circle -/

/-- a unit vector of the plane `x = u·z` with `t·f = √(y² + w²/D)` -/
theorem foot_u (u : ℝ) (t : R3) : ∃ f : R3, f.norm2 = 1 ∧ f.x = u * f.z ∧
    R3.dot t f = Real.sqrt (t.y ^ 2 + (u * t.x + t.z) ^ 2 / (1 + u ^ 2)) := by
  set D := 1 + u ^ 2 with hD
  set w := u * t.x + t.z with hw
  have hD0 : 0 < D := by positivity
  have hnn : 0 ≤ t.y ^ 2 + w ^ 2 / D := by positivity
  set ρ := Real.sqrt (t.y ^ 2 + w ^ 2 / D) with hρ
  have hρ2 : ρ ^ 2 = t.y ^ 2 + w ^ 2 / D := Real.sq_sqrt hnn
  rcases lt_or_eq_of_le (Real.sqrt_nonneg (t.y ^ 2 + w ^ 2 / D)) with hρpos | hρ0
  · rw [← hρ] at hρpos
    refine ⟨⟨u * w / D / ρ, t.y / ρ, w / D / ρ⟩, ?_, ?_, ?_⟩
    · unfold R3.norm2
      simp only
      have : (u * w / D / ρ) ^ 2 + (t.y / ρ) ^ 2 + (w / D / ρ) ^ 2 = (t.y ^ 2 + w ^ 2 / D) / ρ ^ 2 := by
        rw [hD]; field_simp; ring
      rw [this, hρ2]; exact div_self (by rw [← hρ2]; positivity)
    · simp only; field_simp
    · unfold R3.dot
      simp only
      have : t.x * (u * w / D / ρ) + t.y * (t.y / ρ) + t.z * (w / D / ρ) = (t.y ^ 2 + w ^ 2 / D) / ρ := by
        rw [hw]; field_simp; ring
      rw [this, ← hρ2, pow_two, mul_div_assoc, div_self (ne_of_gt hρpos), mul_one]
  · rw [← hρ] at hρ0
    have hz : t.y ^ 2 + w ^ 2 / D = 0 := by rw [← hρ2, ← hρ0]; ring
    have hy : t.y = 0 := by
      have h1 : 0 ≤ w ^ 2 / D := by positivity
      have h2 : t.y ^ 2 ≤ 0 := by linarith
      have h3 := sq_nonneg t.y
      exact pow_eq_zero_iff (two_ne_zero) |>.1 (le_antisymm h2 h3)
    refine ⟨⟨0, 1, 0⟩, by unfold R3.norm2; norm_num, by simp, ?_⟩
    unfold R3.dot; simp only; rw [← hρ0, hy]; ring

theorem foot_v (v : ℝ) (t : R3) : ∃ f : R3, f.norm2 = 1 ∧ f.y = v * f.z ∧
    R3.dot t f = Real.sqrt (t.x ^ 2 + (v * t.y + t.z) ^ 2 / (1 + v ^ 2)) := by
  obtain ⟨f, a1, a2, a3⟩ := foot_u v ⟨t.y, t.x, t.z⟩
  refine ⟨⟨f.y, f.x, f.z⟩, ?_, a2, ?_⟩
  · unfold R3.norm2 at a1 ⊢; simp only; linarith
  · unfold R3.dot at a3 ⊢; simp only at a3 ⊢; rw [← a3]; ring

/-! ### the clamped target -/

/-- the clamp of `InsideRobust.inside_point_robust`, with the clamped vector exposed -/
theorem clamp_exists (r : RRect) (hr : r.OK) (gu : 1 / 2 ^ 31 ≤ r.u1 - r.u0)
    (t : R3) (ε : ℝ) (h0 : 0 ≤ ε) (hε : ε ≤ 1 / 2 ^ 50)
    (hL : -ε ≤ sL r t) (hR : sR r t ≤ ε) (hB : -ε ≤ sB r t) (hT : sT r t ≤ ε)
    (ht : 1 / 2 ≤ t.norm2) :
    ∃ t' : R3, ExInside r t' ∧ 0 < t'.z ∧ (R3.sub t t').norm ≤ 2 * ε := by
  have hz := z_pos_of_relaxed r hr gu t ε h0 hε hL hR hB hT ht
  unfold sL at hL; unfold sR at hR; unfold sB at hB; unfold sT at hT
  have hu : r.u0 * t.z ≤ r.u1 * t.z := mul_le_mul_of_nonneg_right hr.u_lt.le hz.le
  have hv : r.v0 * t.z ≤ r.v1 * t.z := mul_le_mul_of_nonneg_right hr.v_lt.le hz.le
  have hx' : |t.x - clampR (r.u0 * t.z) (r.u1 * t.z) t.x| ≤ ε := clampR_close hu h0 (by linarith) (by linarith)
  have hy' : |t.y - clampR (r.v0 * t.z) (r.v1 * t.z) t.y| ≤ ε := clampR_close hv h0 (by linarith) (by linarith)
  refine ⟨⟨clampR (r.u0 * t.z) (r.u1 * t.z) t.x, clampR (r.v0 * t.z) (r.v1 * t.z) t.y, t.z⟩,
    ⟨?_, ?_, ?_, ?_⟩, hz, ?_⟩
  · unfold sL; simp only
    have := clampR_ge (a := r.u0 * t.z) (b := r.u1 * t.z) t.x; linarith
  · unfold sR; simp only
    have := clampR_le hu t.x; linarith
  · unfold sB; simp only
    have := clampR_ge (a := r.v0 * t.z) (b := r.v1 * t.z) t.y; linarith
  · unfold sT; simp only
    have := clampR_le hv t.y; linarith
  · apply R3.norm_le_of_comp_le h0
    · exact hx'
    · exact hy'
    · show |t.z - t.z| ≤ ε; rw [sub_self, abs_zero]; exact h0

theorem dot_sub_left (t t' q : R3) : R3.dot t q = R3.dot t' q + R3.dot (R3.sub t t') q := by
  unfold R3.dot R3.sub; ring

theorem norm_of_unit {q : R3} (h : q.norm2 = 1) : q.norm = 1 := by
  unfold R3.norm; rw [h]; simp

/-- for a target within `ε` of the inside condition and a unit vector `f` of one of the four edge planes, some boundary
    point `q` has `t·q ≥ t·f − 4ε` -/
theorem near_boundary (r : RRect) (hr : r.OK) (gu : 1 / 2 ^ 31 ≤ r.u1 - r.u0)
    (t : R3) (ε : ℝ) (h0 : 0 ≤ ε) (hε : ε ≤ 1 / 2 ^ 50)
    (hL : -ε ≤ sL r t) (hR : sR r t ≤ ε) (hB : -ε ≤ sB r t) (hT : sT r t ≤ ε)
    (ht : 1 / 2 ≤ t.norm2) (f : R3) (hf : f.norm2 = 1)
    (hf0 : sL r f = 0 ∨ sR r f = 0 ∨ sB r f = 0 ∨ sT r f = 0) :
    ∃ q, OnBoundary r q ∧ R3.dot t f - 4 * ε ≤ R3.dot t q := by
  obtain ⟨t', hI, hz, he⟩ := clamp_exists r hr gu t ε h0 hε hL hR hB hT ht
  obtain ⟨q, hq, hd⟩ := walk r hr t' f hI hz hf hf0
  refine ⟨q, hq, ?_⟩
  have e1 := dot_sub_left t t' q
  have e2 := dot_sub_left t t' f
  have b1 := R3.abs_dot_le (R3.sub t t') q
  have b2 := R3.abs_dot_le (R3.sub t t') f
  rw [norm_of_unit hq.1.1, mul_one] at b1
  rw [norm_of_unit hf, mul_one] at b2
  have c1 := (abs_le.1 b1).1
  have c2 := (abs_le.1 b2).2
  linarith

/-! ### ATTAINED in the interior branch: each edge value is (nearly) the distance to some boundary point -/

section attained
variable (r : RRect) (hr : r.OK) (gu : 1 / 2 ^ 31 ≤ r.u1 - r.u0)
  (t : R3) (ε : ℝ) (h0 : 0 ≤ ε) (hε : ε ≤ 1 / 2 ^ 50)
  (hL : -ε ≤ sL r t) (hR : sR r t ≤ ε) (hB : -ε ≤ sB r t) (hT : sT r t ≤ ε)
  (ht : 1 / 2 ≤ t.norm2)
include hr gu h0 hε hL hR hB hT ht

theorem inside_attained_L :
    ∃ q, OnBoundary r q ∧ dist2 t q ≤ edgeReal (-(sL r t)) r.u0 t.y (r.u0 * t.x + t.z) + 8 * ε := by
  obtain ⟨f, f1, f2, f3⟩ := foot_u r.u0 t
  obtain ⟨q, hq, hd⟩ := near_boundary r hr gu t ε h0 hε hL hR hB hT ht f f1
    (Or.inl (by unfold sL; rw [f2]; ring))
  refine ⟨q, hq, ?_⟩
  rw [edgeReal_eq, dist2_eq, hq.1.1, neg_sq]
  unfold sL
  have := frame_norm_u r.u0 t
  linarith

theorem inside_attained_R :
    ∃ q, OnBoundary r q ∧ dist2 t q ≤ edgeReal (sR r t) r.u1 t.y (r.u1 * t.x + t.z) + 8 * ε := by
  obtain ⟨f, f1, f2, f3⟩ := foot_u r.u1 t
  obtain ⟨q, hq, hd⟩ := near_boundary r hr gu t ε h0 hε hL hR hB hT ht f f1
    (Or.inr (Or.inl (by unfold sR; rw [f2]; ring)))
  refine ⟨q, hq, ?_⟩
  rw [edgeReal_eq, dist2_eq, hq.1.1]
  unfold sR
  have := frame_norm_u r.u1 t
  linarith

theorem inside_attained_B :
    ∃ q, OnBoundary r q ∧ dist2 t q ≤ edgeReal (-(sB r t)) r.v0 t.x (r.v0 * t.y + t.z) + 8 * ε := by
  obtain ⟨f, f1, f2, f3⟩ := foot_v r.v0 t
  obtain ⟨q, hq, hd⟩ := near_boundary r hr gu t ε h0 hε hL hR hB hT ht f f1
    (Or.inr (Or.inr (Or.inl (by unfold sB; rw [f2]; ring))))
  refine ⟨q, hq, ?_⟩
  rw [edgeReal_eq, dist2_eq, hq.1.1, neg_sq]
  unfold sB
  have := frame_norm_v r.v0 t
  linarith

theorem inside_attained_T :
    ∃ q, OnBoundary r q ∧ dist2 t q ≤ edgeReal (sT r t) r.v1 t.x (r.v1 * t.y + t.z) + 8 * ε := by
  obtain ⟨f, f1, f2, f3⟩ := foot_v r.v1 t
  obtain ⟨q, hq, hd⟩ := near_boundary r hr gu t ε h0 hε hL hR hB hT ht f f1
    (Or.inr (Or.inr (Or.inr (by unfold sT; rw [f2]; ring))))
  refine ⟨q, hq, ?_⟩
  rw [edgeReal_eq, dist2_eq, hq.1.1]
  unfold sT
  have := frame_norm_v r.v1 t
  linarith

end attained

end S2Proofs.C12Dist2.BdGeom
