/-
  C12Dist2.VertexDir — the float vertices `Cell.Vertex(k)` against the exact corners of the cell.

      corner c k            the exact UNIT corner `k` of the cell (XYZ frame, `C17Err.R3`):
                            `dirR (xyzC c.face (cornerUVW (rectOf c) k))`, i.e. the direction of `(cellQuad c.face (rectOf c)).w k`
      vecR_vertexRaw        `vecR (vertexRaw c k) = xyzC c.face (cornerUVW (rectOf c) k)`  — EXACT (signed permutation of `(u, v, 1)`)
      normalize_dir         general: `V3.normalize` of a finite vector with `1 ≤ |x|²`, coordinates ≤ 2^14: the result is finite,
                            its length is within `10u` of 1 and its DIRECTION is within `2u` of the direction of `x`
                            (the scale factor of `scaleSpec` does not matter for the direction; only the three roundings of `mul` do)
      vertex_dir            … for `vertex c k` and `corner c k`, every valid cell
      corner_unit, corner_uvw, corner_dot_nonneg, corner_inCell, corner_pt
-/
import S2Proofs.C12Dist2.CellQuad
import S2Proofs.C12Dist2.ArcNear
import S2Proofs.C12Dist.VertexErr
import S2Proofs.C12Dist.CellOK
import S2Proofs.C17Err.InteriorChain

set_option linter.unusedSimpArgs false
set_option linter.unusedVariables false

namespace S2Proofs.C12Dist2
open S2 S2.CellM S2.STUV S2Proofs.FloatErr
open S2Proofs.C17Err S2Proofs.C17Err.R3 S2Proofs.C17Pairs S2Proofs.C12Dist S2Proofs.C08World

/-! ### the two real vector types -/

/-- `C16Acc.R3 → C17Err.R3` -/
def ofAcc (a : C16Acc.R3) : R3 := ⟨a.x, a.y, a.z⟩

theorem ofAcc_len (a : C16Acc.R3) : (ofAcc a).len = a.norm := by
  unfold R3.len C16Acc.R3.norm; congr 1
  unfold ofAcc R3.n2 R3.dot C16Acc.R3.norm2; ring

theorem ofAcc_ofV (p : V3) : ofAcc (C16Acc.ofV p) = vecR p := rfl

theorem vecR_len_acc (p : V3) : (vecR p).len = (C16Acc.ofV p).norm := by rw [← ofAcc_ofV, ofAcc_len]

theorem vecR_n2' (p : V3) : (vecR p).n2 = (C16Acc.ofV p).norm2 := by
  unfold vecR R3.n2 R3.dot C16Acc.ofV C16Acc.R3.norm2; ring

/-! ### the exact corner -/

/-- the exact unit corner `k` of the cell in the XYZ frame -/
noncomputable def corner (c : Cell) (k : Nat) : R3 := dirR (xyzC c.face (cornerUVW (rectOf c) k))

theorem corner_eq (c : Cell) (k : Fin 4) : corner c k.val = dirR ((cellQuad c.face (rectOf c)).w k) := rfl

theorem corner_mod (c : Cell) (k : Nat) : corner c (k % 4) = corner c k := by
  unfold corner; rw [cornerUVW_mod]

theorem cornerRaw_len_pos (f : Nat) (r : RRect) (k : Nat) : 0 < (xyzC f (cornerUVW r k)).len := by
  rw [len_pos_iff, xyzC_n2]; exact cornerUVW_n2 r k

theorem cornerRaw_n2_ge (f : Nat) (r : RRect) (k : Nat) : 1 ≤ (xyzC f (cornerUVW r k)).n2 := by
  rw [xyzC_n2]
  unfold cornerUVW R3.n2 R3.dot
  split <;> simp <;> nlinarith [sq_nonneg r.u0, sq_nonneg r.u1, sq_nonneg r.v0, sq_nonneg r.v1]

theorem corner_unit (c : Cell) (k : Nat) : (corner c k).n2 = 1 := dirR_n2 (cornerRaw_len_pos _ _ _)

theorem cornerUVW_vertex (c : Cell) (k : Nat) :
    cornerUVW (rectOf c) k = ⟨val (Rect2.vertex c.uv k).1, val (Rect2.vertex c.uv k).2, 1⟩ := by
  have hm : k % 4 = 0 ∨ k % 4 = 1 ∨ k % 4 = 2 ∨ k % 4 = 3 := by omega
  unfold cornerUVW Rect2.vertex rectOf
  rcases hm with hm | hm | hm | hm <;> rw [hm] <;> rfl

theorem uvwC_dirR (f : Nat) (x : R3) : uvwC f (dirR x) = dirR (uvwC f x) := by
  unfold dirR
  rw [uvwC_comb]
  have : (uvwC f x).len = x.len := by unfold R3.len; rw [uvwC_n2]
  rw [this]

theorem toAcc_dirR_uv1 (u v : ℝ) : toAcc (dirR ⟨u, v, 1⟩) = vhat u v := by
  unfold dirR vhat toAcc comb C16Acc.R3.smul R3.len
  have e : (⟨u, v, 1⟩ : R3).n2 = 1 + u ^ 2 + v ^ 2 := by unfold R3.n2 R3.dot; ring
  rw [e]
  simp

/-- the face-frame image of the corner is the unit vector of `(u_k, v_k, 1)` -/
theorem corner_uvw (c : Cell) (k : Nat) :
    uvwR c.face (toAcc (corner c k)) = vhat (val (Rect2.vertex c.uv k).1) (val (Rect2.vertex c.uv k).2) := by
  rw [← toAcc_uvwC]
  unfold corner
  rw [uvwC_dirR, uvwC_xyzC, cornerUVW_vertex, toAcc_dirR_uv1]

/-- the corner is a point of the cell-cone `cellQuad` -/
theorem corner_pt (c : Cell) (hr : (rectOf c).OK) (k : Nat) : (cellQuad c.face (rectOf c)).Pt (corner c k) := by
  refine ⟨corner_unit c k, ?_⟩
  have hQ := cellQuad_ok c.face (rectOf c) hr
  have hc := hQ.corner ⟨k % 4, Nat.mod_lt _ (by norm_num)⟩
  have e : (cellQuad c.face (rectOf c)).w ⟨k % 4, Nat.mod_lt _ (by norm_num)⟩ = xyzC c.face (cornerUVW (rectOf c) k) := by
    show xyzC c.face (cornerUVW (rectOf c) (k % 4)) = _
    rw [cornerUVW_mod]
  rw [e] at hc
  unfold corner dirR
  exact hQ.scale (div_nonneg zero_le_one (len_nonneg _)) hc

theorem corner_inCell' (c : Cell) (hr : (rectOf c).OK) (k : Nat) : InCellXYZ c (toAcc (corner c k)) :=
  (pt_iff_inCell c.face (rectOf c) hr _).1 (corner_pt c hr k)

theorem cornerUVW_dot_succ (r : RRect) (hr : r.OK) (k : Nat) : 0 ≤ (cornerUVW r k).dot (cornerUVW r (k + 1)) := by
  obtain ⟨a0, a, a1, b0, b, b1⟩ := hr
  have hm : k % 4 = 0 ∨ k % 4 = 1 ∨ k % 4 = 2 ∨ k % 4 = 3 := by omega
  have q1 := mul_nonneg (by linarith : 0 ≤ 1 + r.u0) (by linarith : 0 ≤ 1 + r.u1)
  have q2 := mul_nonneg (by linarith : 0 ≤ 1 - r.u0) (by linarith : 0 ≤ 1 - r.u1)
  have q3 := mul_nonneg (by linarith : 0 ≤ 1 + r.v0) (by linarith : 0 ≤ 1 + r.v1)
  have q4 := mul_nonneg (by linarith : 0 ≤ 1 - r.v0) (by linarith : 0 ≤ 1 - r.v1)
  have p1 : -1 ≤ r.u0 * r.u1 := by nlinarith
  have p2 : -1 ≤ r.v0 * r.v1 := by nlinarith
  unfold cornerUVW R3.dot
  rcases hm with hm | hm | hm | hm
  · rw [hm, show (k + 1) % 4 = 1 by omega]; simp only; nlinarith [sq_nonneg r.v0]
  · rw [hm, show (k + 1) % 4 = 2 by omega]; simp only; nlinarith [sq_nonneg r.u1]
  · rw [hm, show (k + 1) % 4 = 3 by omega]; simp only; nlinarith [sq_nonneg r.v1]
  · rw [hm, show (k + 1) % 4 = 0 by omega]; simp only; nlinarith [sq_nonneg r.u0]

theorem dirR_dot_dirR (a b : R3) : (dirR a).dot (dirR b) = a.dot b / (a.len * b.len) := by
  rw [dot_dirR, dot_comm, dot_dirR, dot_comm, div_div]

/-- consecutive corners make an angle ≤ 90° -/
theorem corner_dot_nonneg' (c : Cell) (hr : (rectOf c).OK) (k : Nat) : 0 ≤ (corner c k).dot (corner c ((k + 1) % 4)) := by
  rw [corner_mod]
  unfold corner
  rw [dirR_dot_dirR, xyzC_dot]
  exact div_nonneg (cornerUVW_dot_succ _ hr k) (mul_nonneg (len_nonneg _) (len_nonneg _))

/-! ### the raw vertex is exactly the un-normalised corner -/

theorem vecR_faceUVToXYZ (f : Nat) (u v : F64) : vecR (faceUVToXYZ f u v) = xyzC f ⟨val u, val v, 1⟩ := by
  have hn : ∀ x : F64, val (-x) = - val x := fun x => val_neg x
  have h1 := VertexErr.val_one
  match f with
  | 0 | 1 | 2 | 3 | 4 | (n + 5) => simp [faceUVToXYZ, xyzC, vecR, hn, h1]

theorem fin3_faceUVToXYZ (f : Nat) {u v : F64} (hu : F64Order.Fin u) (hv : F64Order.Fin v) :
    F64Order.Fin3 (faceUVToXYZ f u v) := by
  have hn : ∀ x : F64, F64Order.Fin x → F64Order.Fin (-x) := fun x hx => (S2Proofs.F64Sym.isFinite_neg x).2 hx
  have h1 := VertexErr.fin_one
  unfold faceUVToXYZ F64Order.Fin3
  split <;> simp only <;> refine ⟨?_, ?_, ?_⟩ <;> first | assumption | (apply hn; assumption)

theorem vecR_vertexRaw (c : Cell) (k : Nat) : vecR (vertexRaw c k) = xyzC c.face (cornerUVW (rectOf c) k) := by
  unfold vertexRaw
  simp only
  rw [vecR_faceUVToXYZ, cornerUVW_vertex]

theorem xyzC_abs_le (f : Nat) (w : R3) {m : ℝ} (hx : |w.x| ≤ m) (hy : |w.y| ≤ m) (hz : |w.z| ≤ m) :
    |(xyzC f w).x| ≤ m ∧ |(xyzC f w).y| ≤ m ∧ |(xyzC f w).z| ≤ m := by
  unfold xyzC
  split <;> simp only [abs_neg] <;> exact ⟨by assumption, by assumption, by assumption⟩

theorem fin_vertex_uv (c : Cell) (k : Nat) (fu0 : F64Order.Fin c.uv.1.1) (fu1 : F64Order.Fin c.uv.1.2)
    (fv0 : F64Order.Fin c.uv.2.1) (fv1 : F64Order.Fin c.uv.2.2) :
    F64Order.Fin (Rect2.vertex c.uv k).1 ∧ F64Order.Fin (Rect2.vertex c.uv k).2 := by
  unfold Rect2.vertex
  split <;> exact ⟨by assumption, by assumption⟩

theorem cornerUVW_abs_le (r : RRect) (hr : r.OK) (k : Nat) :
    |(cornerUVW r k).x| ≤ 1 ∧ |(cornerUVW r k).y| ≤ 1 ∧ |(cornerUVW r k).z| ≤ 1 := by
  obtain ⟨a0, a, a1, b0, b, b1⟩ := hr
  unfold cornerUVW
  split <;> simp only [abs_one, le_refl, and_true] <;> constructor <;> (rw [abs_le]; constructor <;> linarith)

/-! ### `Normalize` keeps the direction to within `2u` -/

theorem delta_small : uR + 1 / 2 ^ 500 ≤ (1 + 1 / 1000) * uR := by
  have hw : (1 : ℝ) / 2 ^ 500 ≤ uR / 1000 := by
    unfold uR
    rw [div_div]
    exact one_div_le_one_div_of_le (by positivity)
      (le_trans (by norm_num : (2 : ℝ) ^ 53 * 1000 ≤ 2 ^ 70) (pow_le_pow_right₀ (by norm_num) (by norm_num)))
  linarith

/-- pure real core: `r = s·(X + N)`, `s|X| ∈ 1 ± 8u`, `|N| ≤ δ|X|` -/
theorem scaled_dir {X N : R3} {s δ : ℝ} (hX : 0 < X.len) (hs : 0 < s) (hδ : δ ≤ 1 / 2)
    (hN : N.len ≤ δ * X.len) :
    0 < (comb 1 X 1 N).len ∧
    s * X.len * (1 - δ) ≤ (comb s (comb 1 X 1 N) 0 (comb 1 X 1 N)).len ∧
    (comb s (comb 1 X 1 N) 0 (comb 1 X 1 N)).len ≤ s * X.len * (1 + δ) ∧
    ((dirR (comb s (comb 1 X 1 N) 0 (comb 1 X 1 N))).sub (dirR X)).n2 ≤ 2 * δ ^ 2 := by
  set Z0 := comb 1 X 1 N with hZ0
  set L := X.len with hL
  have hLne : L ≠ 0 := hX.ne'
  -- Z = Z0 / L, Y = X / L
  set Z := comb (1 / L) Z0 0 Z0 with hZ
  have hY : (dirR X).n2 = 1 := dirR_n2 hX
  have hsub : Z.sub (dirR X) = comb (1 / L) N 0 N := by
    rw [hZ, hZ0]; unfold dirR comb R3.sub; rw [← hL]; simp only [R3.mk.injEq]
    refine ⟨by ring, by ring, by ring⟩
  have hD : (Z.sub (dirR X)).len ≤ δ := by
    rw [hsub, len_scale (by positivity)]
    rw [div_mul_eq_mul_div, one_mul, div_le_iff₀ hX]; exact hN
  obtain ⟨hZpos, hdir⟩ := normalise_near hY hδ hD
  have hZlen : Z.len = Z0.len / L := by
    rw [hZ, len_scale (by positivity)]; ring
  have hZ0pos : 0 < Z0.len := by
    rw [hZlen] at hZpos
    rcases (len_nonneg Z0).lt_or_eq with h | h
    · exact h
    · rw [← h] at hZpos; simp at hZpos
  -- the length of Z is within δ of 1
  have hlen := len_sub_le Z (dirR X)
  rw [len_eq_one hY] at hlen
  have hlen' := abs_le.mp (le_trans hlen hD)
  have hZ0L : Z0.len = L * Z.len := by rw [hZlen]; field_simp
  have hrl : (comb s Z0 0 Z0).len = s * L * Z.len := by rw [len_scale hs.le, hZ0L]; ring
  have hsL : 0 < s * L := mul_pos hs hX
  refine ⟨hZ0pos, ?_, ?_, ?_⟩
  · rw [hrl]; nlinarith
  · rw [hrl]; nlinarith
  · rw [dirR_scale hs hZ0pos]
    have : dirR Z0 = dirR Z := by rw [hZ, dirR_scale (by positivity) hZ0pos]
    rw [this]; exact hdir

/-- **`V3.normalize` of a finite vector with `1 ≤ |x|²` and coordinates `≤ 2^14`**: finite, length within `10u` of 1,
    direction within `2u` of the direction of `x` -/
theorem normalize_dir (x : V3) (hx : F64Order.Fin3 x)
    (m1 : |val x.x| ≤ 2 ^ 14) (m2 : |val x.y| ≤ 2 ^ 14) (m3 : |val x.z| ≤ 2 ^ 14) (h1 : 1 ≤ (vecR x).n2) :
    F64Order.Fin3 x.normalize ∧ 0 < (vecR x.normalize).len ∧ |(vecR x.normalize).len - 1| ≤ 10 * uR ∧
    ((dirR (vecR x.normalize)).sub (dirR (vecR x))).n2 ≤ (2 * uR) ^ 2 := by
  have hu0 := uR_nonneg
  obtain ⟨fn, herr⟩ := C16Acc.norm2_wide _ hx ⟨m1, m2, m3⟩
  have hS1 : 1 ≤ (C16Acc.ofV x).norm2 := by rw [← vecR_n2']; exact h1
  have hn2 : 1 / 4 ≤ val x.norm2 := by
    have hρ := C16Acc.rhoU_le3
    have hρ2 : rhoU uR ≤ 1 / 2 := le_trans hρ (by unfold uR; norm_num)
    have h1' := mul_le_mul_of_nonneg_right hρ2 (le_trans (by norm_num) hS1 : (0 : ℝ) ≤ _)
    have h2 := VertexErr.four_eR_le_u
    have h3 : uR / 1000 ≤ 1 / 4 := by unfold uR; norm_num
    have hb := abs_le.mp herr
    linarith
  have hlo : 1 / 2 ^ 1022 ≤ val x.norm2 :=
    le_trans (one_div_le_one_div_of_le (by norm_num)
      (le_trans (by norm_num : (4 : ℝ) ≤ 2 ^ 2) (pow_le_pow_right₀ (by norm_num) (by norm_num)))) hn2
  have hfeq : F64.feq x.norm2 (F64.zero false) = false := by
    cases h : F64.feq x.norm2 (F64.zero false)
    · rfl
    · exfalso
      have h1 := (F64Order.feq_iff fn (zero_val false).1).1 h
      have h2 := (VertexErr.val_eq_iff _ _).2 h1
      rw [VertexErr.val_zero] at h2
      linarith
  rw [C16Acc.normalize_eq x hfeq]
  obtain ⟨_, _, fq, hn512, _, s, ν, hs0, hsn, heq, hν⟩ := C16Acc.scaleSpec _ hx m1 m2 m3 hlo
  have hXpos : 0 < (vecR x).len := by rw [vecR_len_acc]; exact lt_of_lt_of_le (by positivity) hn512
  have hδ := delta_small
  have hδ2 : uR + 1 / 2 ^ 500 ≤ 1 / 2 := le_trans hδ (by unfold uR; norm_num)
  have hN : (ofAcc ν).len ≤ (uR + 1 / 2 ^ 500) * (vecR x).len := by rw [ofAcc_len, vecR_len_acc]; exact hν
  obtain ⟨hp, hl1, hl2, hdir⟩ := scaled_dir hXpos hs0 hδ2 hN
  have hr : vecR (x.mul (F64.one / F64.sqrt x.norm2))
      = comb s (comb 1 (vecR x) 1 (ofAcc ν)) 0 (comb 1 (vecR x) 1 (ofAcc ν)) := by
    rw [← ofAcc_ofV, heq]
    unfold ofAcc C16Acc.R3.smul C16Acc.R3.add comb vecR C16Acc.ofV
    simp only [R3.mk.injEq]
    refine ⟨by ring, by ring, by ring⟩
  rw [hr]
  rw [vecR_len_acc] at hl1 hl2
  have hb := abs_le.mp hsn
  have hδ0 : 0 ≤ uR + 1 / 2 ^ 500 := by positivity
  generalize uR + 1 / 2 ^ 500 = δ at *
  have hu1 : uR ≤ 1 / 2 ^ 53 := by unfold uR; exact le_refl _
  refine ⟨fq, ?_, ?_, le_trans hdir ?_⟩
  · have : 0 < s * (C16Acc.ofV x).norm * (1 - δ) := by nlinarith
    linarith
  · rw [abs_le]
    constructor <;> nlinarith
  · nlinarith

/-! ### the vertices of a valid cell -/

/-- **the float vertex `Cell.Vertex(k)` of a valid cell**: finite, length within `10u` of 1, its direction within `2u`
    (Euclidean, i.e. chord) of the exact corner -/
theorem vertex_dir (id : CellID) (hv : CellID.isValid id = true) (k : Nat) :
    F64Order.Fin3 (vertex (cellFromCellID id) k) ∧ 0 < (vecR (vertex (cellFromCellID id) k)).len ∧
    |(vecR (vertex (cellFromCellID id) k)).len - 1| ≤ 10 * uR ∧
    ((dirR (vecR (vertex (cellFromCellID id) k))).sub (corner (cellFromCellID id) k)).n2 ≤ (2 * uR) ^ 2 := by
  obtain ⟨fu0, fu1, fv0, fv1, hr, -⟩ := cellOK id hv
  set c := cellFromCellID id with hc
  obtain ⟨f1, f2⟩ := fin_vertex_uv c k fu0 fu1 fv0 fv1
  have hx : F64Order.Fin3 (vertexRaw c k) := by
    unfold vertexRaw; exact fin3_faceUVToXYZ _ f1 f2
  have hraw := vecR_vertexRaw c k
  obtain ⟨a1, a2, a3⟩ := cornerUVW_abs_le _ hr k
  obtain ⟨b1, b2, b3⟩ := xyzC_abs_le c.face _ a1 a2 a3
  rw [← hraw] at b1 b2 b3
  have p14 : (1 : ℝ) ≤ 2 ^ 14 := by norm_num
  have hn : 1 ≤ (vecR (vertexRaw c k)).n2 := by rw [hraw]; exact cornerRaw_n2_ge _ _ _
  have := normalize_dir (vertexRaw c k) hx (le_trans b1 p14) (le_trans b2 p14) (le_trans b3 p14) hn
  unfold vertex corner
  rw [← hraw]
  exact this

theorem corner_dot_nonneg (id : CellID) (hv : CellID.isValid id = true) (k : Nat) :
    0 ≤ (corner (cellFromCellID id) k).dot (corner (cellFromCellID id) ((k + 1) % 4)) :=
  corner_dot_nonneg' _ (cellOK id hv).2.2.2.2.1 k

theorem corner_inCell (id : CellID) (hv : CellID.isValid id = true) (k : Nat) :
    InCellXYZ (cellFromCellID id) (toAcc (corner (cellFromCellID id) k)) :=
  corner_inCell' _ (cellOK id hv).2.2.2.2.1 k

/-! ### the float edges against the exact edges -/

/-- the exact edge `k` of the cell-cone is the arc between the unit corners `k` and `k+1` -/
theorem onArc_corner (c : Cell) (k : Fin 4) (Y : R3) :
    OnArc (corner c k.val) (corner c ((k.val + 1) % 4)) Y ↔
      OnArc ((cellQuad c.face (rectOf c)).w k) ((cellQuad c.face (rectOf c)).w (k + 1)) Y := by
  have e : (cellQuad c.face (rectOf c)).w (k + 1) = xyzC c.face (cornerUVW (rectOf c) ((k.val + 1) % 4)) := by
    show xyzC c.face (cornerUVW (rectOf c) (k + 1 : Fin 4).val) = _
    rw [fin4_succ_val]
  rw [e]
  exact onArc_dirR (cornerRaw_len_pos _ _ _) (cornerRaw_len_pos _ _ _) Y

theorem two_uR_le : 2 * uR ≤ 1 / 4 := by unfold uR; norm_num

/-- **every point of the exact edge `k` of a valid cell is within `8u` of a point of the arc between the float vertices
    `Vertex(k)` and `Vertex(k+1)`** -/
theorem edge_arc_near (id : CellID) (hv : CellID.isValid id = true) (k : Nat) {Y : R3}
    (hY : OnArc (corner (cellFromCellID id) k) (corner (cellFromCellID id) ((k + 1) % 4)) Y) :
    ∃ Y', OnArc (vecR (vertex (cellFromCellID id) k)) (vecR (vertex (cellFromCellID id) ((k + 1) % 4))) Y' ∧
      (Y'.sub Y).n2 ≤ (8 * uR) ^ 2 := by
  obtain ⟨-, p0, -, d0⟩ := vertex_dir id hv k
  obtain ⟨-, p1, -, d1⟩ := vertex_dir id hv ((k + 1) % 4)
  have := arc_near (by have := uR_nonneg; linarith) two_uR_le p0 p1 (corner_unit _ _) (corner_unit _ _)
    (corner_dot_nonneg id hv k) d0 d1 hY
  rw [show (4 : ℝ) * (2 * uR) = 8 * uR by ring] at this
  exact this

/-- **every point of the arc between the float vertices `Vertex(k)` and `Vertex(k+1)` of a valid cell is within `8u` of a
    point of the exact edge `k`** -/
theorem edge_arc_near' (id : CellID) (hv : CellID.isValid id = true) (k : Nat) {Y' : R3}
    (hY' : OnArc (vecR (vertex (cellFromCellID id) k)) (vecR (vertex (cellFromCellID id) ((k + 1) % 4))) Y') :
    ∃ Y, OnArc (corner (cellFromCellID id) k) (corner (cellFromCellID id) ((k + 1) % 4)) Y ∧
      (Y'.sub Y).n2 ≤ (8 * uR) ^ 2 := by
  obtain ⟨-, p0, -, d0⟩ := vertex_dir id hv k
  obtain ⟨-, p1, -, d1⟩ := vertex_dir id hv ((k + 1) % 4)
  have := arc_near' (by have := uR_nonneg; linarith) two_uR_le p0 p1 (corner_unit _ _) (corner_unit _ _)
    (corner_dot_nonneg id hv k) d0 d1 hY'
  rw [show (4 : ℝ) * (2 * uR) = 8 * uR by ring] at this
  exact this

end S2Proofs.C12Dist2
