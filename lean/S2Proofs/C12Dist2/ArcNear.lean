/-
  C12Dist2.ArcNear — arcs whose endpoint DIRECTIONS are within `ε` of each other are within `4ε` of each other (pure ℝ³,
  `C17Err.R3`, no floats).

      normalise_near   a vector `Z` within `δ ≤ 1/2` of a unit vector `Y` is non-zero and its direction is within `√2·δ` of `Y`
      coef_sum_le_two  a unit vector `s·a + t·b` (`s, t ≥ 0`, `a, b` unit, `a·b ≥ −1/2`) has `s + t ≤ 2`
      cone_near        `s·a + t·b` against `s·q0 + t·q1` (unit), `|a − q0|, |b − q1| ≤ ε`, `s + t ≤ 2`
      arc_near         every point of the arc `q0 q1` has a point of the arc `p0 p1` within `4ε`
      arc_near'        every point of the arc `p0 p1` has a point of the arc `q0 q1` within `4ε`  (SAME hypotheses, in particular
                       only `0 ≤ q0·q1` is assumed; `dirR p0 · dirR p1 ≥ −2ε ≥ −1/2` is derived)
  (the constant actually obtained is `√8·ε`; the statements say `4ε`.)
-/
import S2Proofs.C12Dist2.QuadCore
import S2Proofs.C17Err.VecCore

set_option linter.unusedSimpArgs false
set_option linter.unusedVariables false

namespace S2Proofs.C12Dist2
open S2Proofs.C17Err S2Proofs.C17Err.R3 S2Proofs.C17Pairs

theorem sub_n2_comm (u v : R3) : (u.sub v).n2 = (v.sub u).n2 := by
  unfold R3.sub R3.n2 R3.dot; ring

theorem len_le_of_n2_le {u : R3} {e : ℝ} (he : 0 ≤ e) (h : u.n2 ≤ e ^ 2) : u.len ≤ e :=
  len_le_of_sq he (by rw [← sq]; exact h)

/-- a vector within `δ ≤ 1/2` of a unit vector is non-zero and its direction is within `√2·δ` of that unit vector -/
theorem normalise_near {Y Z : R3} {δ : ℝ} (hY : Y.n2 = 1) (hδ1 : δ ≤ 1 / 2) (hD : (Z.sub Y).len ≤ δ) :
    0 < Z.len ∧ ((dirR Z).sub Y).n2 ≤ 2 * δ ^ 2 := by
  set D := Z.sub Y with hDd
  set e := D.len with he
  have he0 : 0 ≤ e := len_nonneg D
  have hee : e * e = D.n2 := len_sq D
  have hYl : Y.len = 1 := len_eq_one hY
  have hYD : |Y.dot D| ≤ e := by
    have := abs_dot_le Y D
    rw [hYl, one_mul] at this; exact this
  obtain ⟨hYD1, hYD2⟩ := abs_le.mp hYD
  have hYZ : Y.dot Z = 1 + Y.dot D := by
    have : Y.dot D = Y.dot Z - Y.n2 := by rw [hDd]; unfold R3.sub R3.n2 R3.dot; ring
    rw [this, hY]; ring
  have hZn : Z.n2 = 1 + 2 * Y.dot D + D.n2 := by
    have : D.n2 = Z.n2 + Y.n2 - 2 * Z.dot Y := sub_n2 Z Y
    rw [dot_comm Z Y, hY] at this
    rw [this, ← (by linarith : Y.dot Z - 1 = Y.dot D)]; ring
  set L := Z.len with hL
  have hL0 : 0 ≤ L := len_nonneg Z
  have hLL : L * L = Z.n2 := len_sq Z
  have hLge : 1 - e ≤ L := by
    by_contra hcon
    have hcon := not_le.mp hcon
    have : L * L < (1 - e) * (1 - e) := by nlinarith
    nlinarith
  have hLpos : 0 < L := by linarith
  refine ⟨hLpos, ?_⟩
  rw [sub_n2, dirR_n2 hLpos, hY, dot_comm, dot_dirR, ← hL, hYZ]
  have hd0 : 0 ≤ δ := le_trans he0 hD
  have hee' : e * e ≤ δ * δ := by nlinarith
  rw [show (1 : ℝ) + 1 - 2 * ((1 + Y.dot D) / L) = (2 * L - 2 * (1 + Y.dot D)) / L by field_simp; ring]
  rw [div_le_iff₀ hLpos]
  nlinarith [sq_nonneg (L - 1), sq_nonneg δ]

/-- a unit combination of two unit vectors making an angle ≤ 120° has coefficient sum ≤ 2 -/
theorem coef_sum_le_two {c s t : ℝ} (hc : -(1 / 2) ≤ c) (hs : 0 ≤ s) (ht : 0 ≤ t)
    (h : s * s + 2 * (s * t) * c + t * t = 1) : s + t ≤ 2 := by
  have hst : 0 ≤ s * t := mul_nonneg hs ht
  have h1 : s * s + t * t - s * t ≤ 1 := by nlinarith
  nlinarith [sq_nonneg (s - t), sq_nonneg (s + t)]

theorem comb_sub_comb (s t : ℝ) (a b q0 q1 : R3) :
    (comb s a t b).sub (comb s q0 t q1) = comb s (a.sub q0) t (b.sub q1) := by
  unfold comb R3.sub; simp only [R3.mk.injEq]; refine ⟨by ring, by ring, by ring⟩

/-- the same non-negative combination of two pairs of nearby vectors -/
theorem cone_near {a b q0 q1 : R3} {ε s t : ℝ} (hε : 0 ≤ ε) (hε1 : ε ≤ 1 / 4) (hs : 0 ≤ s) (ht : 0 ≤ t) (hst : s + t ≤ 2)
    (h0 : (a.sub q0).n2 ≤ ε ^ 2) (h1 : (b.sub q1).n2 ≤ ε ^ 2) (hY : (comb s q0 t q1).n2 = 1) :
    0 < (comb s a t b).len ∧ ((dirR (comb s a t b)).sub (comb s q0 t q1)).n2 ≤ (4 * ε) ^ 2 := by
  have l0 := len_le_of_n2_le hε h0
  have l1 := len_le_of_n2_le hε h1
  have hD : ((comb s a t b).sub (comb s q0 t q1)).len ≤ 2 * ε := by
    rw [comb_sub_comb]
    have := comb_len_le hs ht (a.sub q0) (b.sub q1)
    have m0 := mul_le_mul_of_nonneg_left l0 hs
    have m1 := mul_le_mul_of_nonneg_left l1 ht
    nlinarith
  obtain ⟨hp, hn⟩ := normalise_near hY (by linarith : 2 * ε ≤ 1 / 2) hD
  refine ⟨hp, le_trans hn ?_⟩
  nlinarith [sq_nonneg ε]

theorem comb_dirR (s t : ℝ) (p0 p1 : R3) :
    comb s (dirR p0) t (dirR p1) = comb (s / p0.len) p0 (t / p1.len) p1 := by
  unfold dirR comb; simp only [R3.mk.injEq]; refine ⟨by ring, by ring, by ring⟩

theorem comb_eq_dirR (s t : ℝ) {p0 p1 : R3} (hp0 : 0 < p0.len) (hp1 : 0 < p1.len) :
    comb s p0 t p1 = comb (s * p0.len) (dirR p0) (t * p1.len) (dirR p1) := by
  rw [comb_dirR]
  have h0 : p0.len ≠ 0 := hp0.ne'
  have h1 : p1.len ≠ 0 := hp1.ne'
  rw [mul_div_assoc, mul_div_assoc, div_self h0, div_self h1, mul_one, mul_one]

/-- the directions of nearby pairs: the cosine changes by at most `2ε` -/
theorem dot_near {a b q0 q1 : R3} {ε : ℝ} (hε : 0 ≤ ε) (ha : a.n2 = 1) (hq1 : q1.n2 = 1)
    (h0 : (a.sub q0).n2 ≤ ε ^ 2) (h1 : (b.sub q1).n2 ≤ ε ^ 2) : q0.dot q1 - 2 * ε ≤ a.dot b := by
  have l0 := len_le_of_n2_le hε h0
  have l1 := len_le_of_n2_le hε h1
  have e : a.dot b = q0.dot q1 + (a.sub q0).dot q1 + a.dot (b.sub q1) := by unfold R3.sub R3.dot; ring
  have b0 := abs_dot_le (a.sub q0) q1
  have b1 := abs_dot_le a (b.sub q1)
  rw [len_eq_one hq1, mul_one] at b0
  rw [len_eq_one ha, one_mul] at b1
  have := (abs_le.mp b0).1
  have := (abs_le.mp b1).1
  rw [e]; linarith

/-- **every point of the arc `q0 q1` is within `4ε` of a point of the arc `p0 p1`** when the endpoint directions are within `ε` -/
theorem arc_near {p0 p1 q0 q1 : R3} {ε : ℝ} (hε : 0 ≤ ε) (hε1 : ε ≤ 1 / 4)
    (hp0 : 0 < p0.len) (hp1 : 0 < p1.len) (hq0 : q0.n2 = 1) (hq1 : q1.n2 = 1) (hq : 0 ≤ q0.dot q1)
    (h0 : ((dirR p0).sub q0).n2 ≤ ε ^ 2) (h1 : ((dirR p1).sub q1).n2 ≤ ε ^ 2)
    {Y : R3} (hY : OnArc q0 q1 Y) : ∃ Y', OnArc p0 p1 Y' ∧ (Y'.sub Y).n2 ≤ (4 * ε) ^ 2 := by
  obtain ⟨s, t, hs, ht, rfl, hn⟩ := hY
  have hst : s + t ≤ 2 := by
    apply coef_sum_le_two (c := q0.dot q1) (by linarith) hs ht
    rw [comb_n2, hq0, hq1] at hn; linarith
  obtain ⟨hp, hd⟩ := cone_near hε hε1 hs ht hst h0 h1 hn
  refine ⟨dirR (comb s (dirR p0) t (dirR p1)), ?_, hd⟩
  exact onArc_of_cone (div_nonneg hs hp0.le) (div_nonneg ht hp1.le) (comb_dirR s t p0 p1) hp

/-- **every point of the arc `p0 p1` is within `4ε` of a point of the arc `q0 q1`** (same hypotheses) -/
theorem arc_near' {p0 p1 q0 q1 : R3} {ε : ℝ} (hε : 0 ≤ ε) (hε1 : ε ≤ 1 / 4)
    (hp0 : 0 < p0.len) (hp1 : 0 < p1.len) (hq0 : q0.n2 = 1) (hq1 : q1.n2 = 1) (hq : 0 ≤ q0.dot q1)
    (h0 : ((dirR p0).sub q0).n2 ≤ ε ^ 2) (h1 : ((dirR p1).sub q1).n2 ≤ ε ^ 2)
    {Y' : R3} (hY' : OnArc p0 p1 Y') : ∃ Y, OnArc q0 q1 Y ∧ (Y'.sub Y).n2 ≤ (4 * ε) ^ 2 := by
  obtain ⟨s, t, hs, ht, rfl, hn⟩ := hY'
  rw [comb_eq_dirR s t hp0 hp1] at hn ⊢
  set s' := s * p0.len with hs'
  set t' := t * p1.len with ht'
  have hs0 : 0 ≤ s' := mul_nonneg hs hp0.le
  have ht0 : 0 ≤ t' := mul_nonneg ht hp1.le
  have ha := dirR_n2 hp0
  have hb := dirR_n2 hp1
  have hc : -(1 / 2) ≤ (dirR p0).dot (dirR p1) := by
    have := dot_near hε ha hq1 h0 h1
    linarith
  have hst : s' + t' ≤ 2 := by
    apply coef_sum_le_two hc hs0 ht0
    rw [comb_n2, ha, hb] at hn; linarith
  have h0' : (q0.sub (dirR p0)).n2 ≤ ε ^ 2 := by rw [sub_n2_comm]; exact h0
  have h1' : (q1.sub (dirR p1)).n2 ≤ ε ^ 2 := by rw [sub_n2_comm]; exact h1
  obtain ⟨hp, hd⟩ := cone_near hε hε1 hs0 ht0 hst h0' h1' hn
  refine ⟨dirR (comb s' q0 t' q1), onArc_of_cone hs0 ht0 rfl hp, ?_⟩
  rw [sub_n2_comm]; exact hd

/-- the arc only depends on the directions of its endpoints -/
theorem onArc_dirR {a b : R3} (ha : 0 < a.len) (hb : 0 < b.len) (P : R3) :
    OnArc (dirR a) (dirR b) P ↔ OnArc a b P := by
  constructor
  · rintro ⟨s, t, hs, ht, rfl, hn⟩
    rw [comb_dirR] at hn ⊢
    exact ⟨s / a.len, t / b.len, div_nonneg hs ha.le, div_nonneg ht hb.le, rfl, hn⟩
  · rintro ⟨s, t, hs, ht, rfl, hn⟩
    rw [comb_eq_dirR s t ha hb] at hn ⊢
    exact ⟨s * a.len, t * b.len, mul_nonneg hs ha.le, mul_nonneg ht hb.le, rfl, hn⟩

/-- `|c·x| = c·|x|` -/
theorem len_scale {c : ℝ} (hc : 0 ≤ c) (x : R3) : (comb c x 0 x).len = c * x.len := by
  unfold R3.len
  rw [comb_n2, show c * c * x.n2 + 2 * (c * 0) * x.dot x + 0 * 0 * x.n2 = c * c * x.n2 by ring,
    Real.sqrt_mul (mul_self_nonneg c), Real.sqrt_mul_self hc]

/-- the direction does not change under positive scaling -/
theorem dirR_scale {c : ℝ} (hc : 0 < c) {x : R3} (hx : 0 < x.len) : dirR (comb c x 0 x) = dirR x := by
  unfold dirR
  rw [len_scale hc.le]
  have h1 : x.len ≠ 0 := hx.ne'
  have h2 : c ≠ 0 := hc.ne'
  unfold comb; simp only [R3.mk.injEq]
  refine ⟨by field_simp; ring, by field_simp; ring, by field_simp; ring⟩

end S2Proofs.C12Dist2
