/-
  C12Dist2.MaxCellOf — float glue for `Cell.MaxDistanceToCell(target)` (model `S2.CellEdgeM.maxDistanceToCell`):

      if c.face == oppositeFace(target.face) && c.uv.Intersects(antipodalUV) { return 4 }
      maxDist := -1;  32 × maxDist, _ = UpdateMaxDistance(vertex, edge…, maxDist)

  * `maxCall_upper`  : one call in c17pairs' domain `MaxCallOK`: the candidate is at least the TRUE maximum of the squared chord
                       between the vertex direction and the arc, minus 205u;
  * `maxFold`        : the fold is finite, monotone, and dominates every candidate;
  * `maxDistanceToCell_upper_of` : chord²(q, q') ≤ reported + 205u + 2ε + 2η + (ε+η)² for all points of the two exact cells,
        by the ANTIPODE RULE FOR TWO SETS (chord²(q, q') = 4 − chord²(q, −q')) and the cell-to-cell theorem
        `quad_quad_robust` applied to the cell and the ANTIPODAL target; parametrised by a cone `T'` / float corners `W'`
        for the antipodal target and the facts about them (discharged in `NegQuad.lean` / `MaxCell.lean`).
-/
import S2Proofs.C12Dist2.CellFinal
import S2Proofs.C17Pairs.SlackNum
import S2Proofs.C12Dist2.MaxArcGeom

set_option linter.unusedSimpArgs false
set_option linter.unusedVariables false

namespace S2Proofs.C12Dist2
open S2 S2.CellID S2.CellM S2.CellEdgeM S2.EdgeNum S2Proofs.F64Order S2Proofs.FloatErr
open S2Proofs.C17Err S2Proofs.C17Err.R3 S2Proofs.C17Pairs S2Proofs.C17 S2Proofs.C08World S2Proofs.C12Dist S2Proofs.C12

/-- slack of one `UpdateMaxDistance` candidate (one-sided) -/
noncomputable def maxCallErr : ℝ := 205 * uR

/-- one call: the candidate is finite and not below the true maximum − 205u -/
theorem maxCall_upper {x a b : V3} (h : MaxCallOK x a b) :
    Fin (maxCandidate x a b) ∧ trueMaxDist2 x a b ≤ val (maxCandidate x a b) + maxCallErr := by
  obtain ⟨hx, ha, hb, hE, hM, hcls⟩ := h
  have hu := uR_nonneg
  unfold maxCallErr
  cases hbr : beyondRightAngle x a b
  · have hac : maxEndpointTrue x a b ≤ 2 := by
      by_contra hc
      exact hcls ⟨hbr, not_le.mp hc⟩
    obtain ⟨fc, he⟩ := maxCandidate_near_bound hx ha hb hbr hac
    obtain ⟨fm, h0, h4, _⟩ := maxEndpoint_spec hx ha hb
    rw [maxCandidate_near x a b hbr] at he ⊢
    have := mpe_le fm h0 h4
    have := (abs_le.mp he).1
    exact ⟨fm, by linarith⟩
  · obtain ⟨fc, he⟩ := maxCandidate_far_bound hx ha hb hE hM hbr
    obtain ⟨_, al⟩ := allowedError_small (unitWithin_negV hx) ha hb hE
    have := (abs_le.mp he).1
    exact ⟨fc, by linarith⟩

/-- what the fold needs to know about one call: unit points, a finite candidate that is not below the true maximum − 205u -/
structure CallUpper (x a b : V3) : Prop where
  hx : UnitPt x
  ha : UnitPt a
  hb : UnitPt b
  fin : Fin (maxCandidate x a b)
  up : trueMaxDist2 x a b ≤ val (maxCandidate x a b) + maxCallErr

theorem callUpper_of_maxCallOK {x a b : V3} (h : MaxCallOK x a b) : CallUpper x a b :=
  ⟨h.hx, h.ha, h.hb, (maxCall_upper h).1, (maxCall_upper h).2⟩

/-- the fold of `UpdateMaxDistance` from a finite value -/
theorem maxFold (l : List (V3 × V3 × V3)) : ∀ m : F64, Fin m →
    (∀ t ∈ l, CallUpper t.1 t.2.1 t.2.2) →
    Fin (l.foldl (fun m t => (updateMaxDistance t.1 t.2.1 t.2.2 m).1) m) ∧
    val m ≤ val (l.foldl (fun m t => (updateMaxDistance t.1 t.2.1 t.2.2 m).1) m) ∧
    ∀ t ∈ l, trueMaxDist2 t.1 t.2.1 t.2.2
      ≤ val (l.foldl (fun m t => (updateMaxDistance t.1 t.2.1 t.2.2 m).1) m) + maxCallErr := by
  induction l with
  | nil => intro m fm _; exact ⟨fm, le_refl _, fun t ht => by cases ht⟩
  | cons t l ih =>
    intro m fm hall
    simp only [List.foldl_cons]
    obtain ⟨_, _, _, fc, hc⟩ := hall t (by simp)
    obtain ⟨f1, v1⟩ := maxStep (x := t.1) (a := t.2.1) (b := t.2.2) fm fc
    obtain ⟨f2, l2, e2⟩ := ih _ f1 (fun t' ht' => hall t' (by simp [ht']))
    have hm1 : val m ≤ val (updateMaxDistance t.1 t.2.1 t.2.2 m).1 := by rw [v1]; exact le_max_left _ _
    have hc1 : val (maxCandidate t.1 t.2.1 t.2.2) ≤ val (updateMaxDistance t.1 t.2.1 t.2.2 m).1 := by
      rw [v1]; exact le_max_right _ _
    refine ⟨f2, le_trans hm1 l2, ?_⟩
    intro t' ht'
    rcases List.mem_cons.mp ht' with rfl | h
    · linarith
    · exact e2 t' h

/-- the cells are not in the early-return case of `MaxDistanceToCell` -/
def NotEarlyMax (c t : Cell) : Prop :=
  ¬ (c.face = (t.face + 3) % 6 ∧ Rect2.intersects c.uv (t.uv.2, t.uv.1) = true)

theorem chord_dir_negR (w P : R3) : chordPQ (dirR (negR w)) P = 4 - chordPQ (dirR w) P := by
  rw [chord_dir, chord_dir, negR_len]
  have : (negR w).dot P = -(w.dot P) := by unfold negR R3.dot; ring
  rw [this]; ring

theorem fin_negativeChord : Fin negativeChord := by decide

/-- **UPPER BOUND of `MaxDistanceToCell`**, parametrised by the description `T'`, `W'` of the antipodal target -/
theorem maxDistanceToCell_upper_of (id id' : CellID) (hv : isValid id = true) (hv' : isValid id' = true)
    (hcalls : ∀ t ∈ pairCalls (vertices (cellFromCellID id)) (vertices (cellFromCellID id')), CallUpper t.1 t.2.1 t.2.2)
    {T' : Quad} {W' : Fin 4 → R3} {ε η : ℝ}
    (hNC : NearQuad (cellQuad (cellFromCellID id).face (rectOf (cellFromCellID id))) (floatV (cellFromCellID id)) ε η)
    (hT : T'.OK) (hTe : T'.EdgesOK) (hTp : T'.Pointed) (hNT : NearQuad T' W' ε η)
    (hW : ∀ j, W' j = negR (floatV (cellFromCellID id') j))
    (hpt : ∀ x, (cellQuad (cellFromCellID id').face (rectOf (cellFromCellID id'))).Pt x → T'.Pt (negR x))
    (hgeo : NotEarlyMax (cellFromCellID id) (cellFromCellID id') →
      NoProperCross (cellQuad (cellFromCellID id).face (rectOf (cellFromCellID id))) T' ∧
      CornersOnEdges (cellQuad (cellFromCellID id).face (rectOf (cellFromCellID id))) T' ∧
      CornersOnEdges T' (cellQuad (cellFromCellID id).face (rectOf (cellFromCellID id))))
    {q q' : R3} (hq : InCellXYZ (cellFromCellID id) (toAcc q)) (hq' : InCellXYZ (cellFromCellID id') (toAcc q')) :
    Fin (maxDistanceToCell (cellFromCellID id) (cellFromCellID id')) ∧
    chordPQ q q' ≤ val (maxDistanceToCell (cellFromCellID id) (cellFromCellID id'))
      + (maxCallErr + 2 * ε + 2 * η + (ε + η) ^ 2) := by
  set c := cellFromCellID id with hcdef
  set t := cellFromCellID id' with htdef
  obtain ⟨_, _, _, _, ok, _⟩ := cellOK id hv
  obtain ⟨_, _, _, _, ok', _⟩ := cellOK id' hv'
  have hC := cellQuad_ok c.face (rectOf c) ok
  have hqPt := (pt_iff_inCell c.face (rectOf c) ok q).mpr hq
  have hq'Pt := (pt_iff_inCell t.face (rectOf t) ok' q').mpr hq'
  have hu := uR_nonneg
  have hε := hNC.ε0
  have hη := hNC.η0
  have hE0 : (0 : ℝ) ≤ maxCallErr := by unfold maxCallErr; positivity
  have hch4 : chordPQ q q' ≤ 4 := chordPQ_le_four hqPt.1 hq'Pt.1
  unfold maxDistanceToCell
  simp only
  split
  · refine ⟨S2Proofs.C12Dist.VertexErr.fin_four, ?_⟩
    rw [S2Proofs.C12Dist.VertexErr.val_four]
    have : 0 ≤ (ε + η) ^ 2 := sq_nonneg _
    linarith
  · rename_i hne
    have hNE : NotEarlyMax c t := by
      intro h
      apply hne
      simp only [Bool.and_eq_true, beq_iff_eq]
      exact h
    obtain ⟨hx, hc1, hc2⟩ := hgeo hNE
    have hvs : vertices c = [vertex c 0, vertex c 1, vertex c 2, vertex c 3] := rfl
    have hvt : vertices t = [vertex t 0, vertex t 1, vertex t 2, vertex t 3] := rfl
    rw [hvs, hvt] at hcalls ⊢
    have hab := mem_pairCalls_ab (vertex c) (vertex t)
    have hba := mem_pairCalls_ba (vertex c) (vertex t)
    obtain ⟨fR, nR, hall⟩ := maxFold _ negativeChord fin_negativeChord hcalls
    set R := val ((pairCalls [vertex c 0, vertex c 1, vertex c 2, vertex c 3]
      [vertex t 0, vertex t 1, vertex t 2, vertex t 3]).foldl
        (fun m t => (updateMaxDistance t.1 t.2.1 t.2.2 m).1) negativeChord) with hR
    refine ⟨fR, ?_⟩
    -- vertex k of c against the antipodal float edge j of the target
    have hR1 : ∀ k j P, OnArc (W' j) (W' (j + 1)) P → 4 - R ≤ chordPQ (dirR (floatV c k)) P + maxCallErr := by
      intro k j P hP
      have hm := hab k j
      have hok := hcalls _ hm
      have h1 := hall _ hm
      rw [hW, hW, floatV_succ] at hP
      have hP0 : OnArc (vecR (vertex t j.val)) (vecR (vertex t ((j.val + 1) % 4))) (negR P) := by
        have := onArc_negR hP
        rwa [negR_negR, negR_negR] at this
      have h2 := (trueMaxDist2_is_max hok.hx.1 hok.hx.len_pos hok.ha.len_pos hok.hb.len_pos).1 _ hP0
      rw [dirChordP_eq_chord, chordPQ_negR] at h2
      simp only at h1
      unfold floatV
      linarith
    -- antipodal float vertex j of the target against the float edge k of c
    have hR2 : ∀ j k P, OnArc (floatV c k) (floatV c (k + 1)) P → 4 - R ≤ chordPQ (dirR (W' j)) P + maxCallErr := by
      intro j k P hP
      have hm := hba j k
      have hok := hcalls _ hm
      have h1 := hall _ hm
      rw [floatV_succ] at hP
      have h2 := (trueMaxDist2_is_max hok.hx.1 hok.hx.len_pos hok.ha.len_pos hok.hb.len_pos).1 _ hP
      rw [dirChordP_eq_chord] at h2
      simp only at h1
      rw [hW, chord_dir_negR]
      unfold floatV
      linarith
    have key := quad_quad_robust hC hT (cellQuad_edgesOK _ _ ok) hTe hTp hNC hNT hx hc1 hc2 hE0 hR1 hR2 hqPt (hpt q' hq'Pt)
    rw [chordPQ_negR] at key
    linarith

end S2Proofs.C12Dist2
