/-
  C12Dist2.MaxEdge — float glue for `Cell.MaxDistanceToEdge(a, b)` (model `S2.CellEdgeM.maxDistanceToEdge`):

      maxDist := maxChordAngle(c.MaxDistance(a), c.MaxDistance(b))
      if maxDist <= RightChordAngle { return maxDist }
      return StraightChordAngle - c.DistanceToEdge(-a, -b)

  * `endpoint_chord_le`     : chord²(q, â) ≤ MaxDistance(a) + endSlack for every point q of the exact cell
                              (C12 `maxDistance_upper_bound` 2^-44 + the deviation of |a| from 1: 2^-48);
  * `distanceToEdge_nonneg` : `DistanceToEdge` is a non-negative float on its domain;
  * `maxEdge_far`           : the branch `4 − DistanceToEdge(−a, −b)`: antipode rule + `distanceToEdge_lower` (2^-44) + the
                              rounding of the subtraction (5u);
  * `maxEdge_near_of`       : the branch `return maxDist`, parametrised by the cosine bound against the arc
                              (endpoint rule outside the right-angle class, `FatArc.arc_dot_fat` inside it).
-/
import S2Proofs.C12Dist2.EdgeFinal
import S2Proofs.C12Dist2.EdgeAttained
import S2Proofs.C12Dist2.MaxArcGeom

set_option linter.unusedSimpArgs false
set_option linter.unusedVariables false

namespace S2Proofs.C12Dist2
open S2 S2.CellID S2.CellM S2.CellEdgeM S2.EdgeNum S2Proofs.F64Order S2Proofs.FloatErr
open S2Proofs.C17Err S2Proofs.C17Err.R3 S2Proofs.C17Pairs S2Proofs.C17 S2Proofs.C08World S2Proofs.C12Dist S2Proofs.C12

/-- slack of one endpoint maximum: `MaxDistance` 2^-44 (C12 after D58) + `|e|² ≠ 1` (≤ 2^-49) + the C12↔C17 bridge (2^-49) -/
noncomputable def endSlack : ℝ := 1 / 2 ^ 44 + 1 / 2 ^ 48

theorem endSlack_pos : 0 < endSlack := by unfold endSlack; positivity

/-- the model's `a.Mul(-1)` is c17pairs' `negV` -/
theorem mul_negOne_eq (a : V3) : a.mul negOne = negV a := rfl

theorem cell_pt_n2 (id : CellID) (hv : isValid id = true) {q : R3}
    (hq : InCellXYZ (cellFromCellID id) (toAcc q)) : q.n2 = 1 := by
  obtain ⟨_, _, _, _, ok, _⟩ := cellOK id hv
  exact ((pt_iff_inCell (cellFromCellID id).face (rectOf (cellFromCellID id)) ok q).mpr hq).1

/-- **endpoint maximum**: no point of the exact cell is farther from the direction of `e` than `MaxDistance(e) + endSlack` -/
theorem endpoint_chord_le (id : CellID) (hv : isValid id = true) {e : V3} (he : UnitPt e) {q : R3}
    (hq : InCellXYZ (cellFromCellID id) (toAcc q)) :
    Fin (maxDistance (cellFromCellID id) e) ∧
    chordPQ q (dirR (vecR e)) ≤ val (maxDistance (cellFromCellID id) e) + endSlack := by
  have hq1 := cell_pt_n2 id hv hq
  obtain ⟨fM, h1⟩ := maxDistance_upper_bound id hv e (unitPt_ptOK he) (toAcc q) hq
  have h2 := chord_le_dist2 he q hq1
  rw [dirChordP_eq_chord, chordPQ_comm] at h2
  refine ⟨fM, ?_⟩
  have hn : (S2Proofs.C16Acc.ofV e).norm2 = C17Err.n2 e := by
    unfold S2Proofs.C16Acc.ofV S2Proofs.C16Acc.R3.norm2 C17Err.n2; ring
  obtain ⟨_, lo, hi⟩ := he
  rw [hn] at h1
  have hd0 := delta0_nonneg
  have hdv : (1 + delta0) ^ 2 ≤ 1 + 1 / 2 ^ 51 := by unfold delta0; norm_num
  have hdw : 1 - 1 / 2 ^ 51 ≤ (1 - delta0) ^ 2 := by unfold delta0; norm_num
  have e1 : C17Err.n2 e - 1 ≤ 1 / 2 ^ 51 := by linarith
  have e2 : 1 - C17Err.n2 e ≤ 1 / 2 ^ 51 := by linarith
  have m1 : max 0 (C17Err.n2 e - 1) ≤ 1 / 2 ^ 51 := max_le (by positivity) e1
  have m2 : max 0 (1 - C17Err.n2 e) ≤ 1 / 2 ^ 51 := max_le (by positivity) e2
  unfold endSlack
  have : (1 : ℝ) / 2 ^ 49 + 2 * (1 / 2 ^ 51) + 1 / 2 ^ 51 ≤ 1 / 2 ^ 48 := by norm_num
  linarith

/-- `maxChordAngle(x, y)` on finite floats -/
theorem maxChord2 {x y : F64} (fx : Fin x) (fy : Fin y) :
    Fin (maxChord x [y]) ∧ val x ≤ val (maxChord x [y]) ∧ val y ≤ val (maxChord x [y]) ∧
    (maxChord x [y] = x ∨ maxChord x [y] = y) := by
  unfold maxChord
  simp only [List.foldl_cons, List.foldl_nil]
  by_cases h : F64.gt y x = true
  · rw [if_pos h]
    have := (val_lt_iff _ _).2 ((gt_iff fy fx).1 h)
    exact ⟨fy, this.le, le_refl _, Or.inr rfl⟩
  · rw [if_neg h]
    have : ¬ val x < val y := fun hc => h ((gt_iff fy fx).2 ((val_lt_iff _ _).1 hc))
    exact ⟨fx, le_refl _, not_lt.1 this, Or.inl rfl⟩

/-- the domain of `DistanceToEdge` is closed under negating the edge (for `UnitPt` and `EdgeOK`) -/
theorem edgeOK_negV {a b : V3} (ha : Fin3 a) (hb : Fin3 b) (hE : EdgeOK a b) : EdgeOK (negV a) (negV b) := by
  unfold EdgeOK at hE ⊢
  obtain ⟨x1, y1, z1⟩ := vC_two a b
  obtain ⟨x2, y2, z2⟩ := vC_two (negV a) (negV b)
  rw [vecR_negV ha, vecR_negV hb] at x2 y2 z2
  have : (vC (negV a) (negV b)).n2 = (vC a b).n2 := by
    unfold R3.n2 R3.dot
    rw [x1, y1, z1, x2, y2, z2]
    unfold negR R3.cross; ring
  rw [this]; exact hE

/-- `DistanceToEdge` is a finite NON-NEGATIVE float on its domain -/
theorem distanceToEdge_nonneg (id : CellID) (hv : isValid id = true) (a b : V3)
    (ha : UnitPt a) (hb : UnitPt b) (hE : EdgeOK a b)
    (hV : ∀ k, k < 4 → VertexCallOK (vertex (cellFromCellID id) k) a b) :
    0 ≤ val (distanceToEdge (cellFromCellID id) a b) := by
  set c := cellFromCellID id with hcdef
  have pa := unitPt_ptOK ha
  have pb := unitPt_ptOK hb
  obtain ⟨q, hq⟩ : ∃ q : R3, InCellXYZ c (toAcc q) := ⟨_, corner_inCell id hv 0⟩
  obtain ⟨fDa, _⟩ := distance_lower_bound id hv a pa (toAcc q) hq
  obtain ⟨fDb, _⟩ := distance_lower_bound id hv b pb (toAcc q) hq
  have nDa := distance_nonneg id hv a pa
  have nDb := distance_nonneg id hv b pb
  obtain ⟨fm, mDa, mDb, mcase⟩ := minChord2 fDa fDb
  have nm : 0 ≤ val (minChord (distance c a) [distance c b]) := by
    rcases mcase with h | h <;> rw [h] <;> assumption
  unfold distanceToEdge
  simp only
  split
  · exact nm
  split
  · rw [val_fzero]
  · have hvs : vertices c = [vertex c 0, vertex c 1, vertex c 2, vertex c 3] := rfl
    rw [hvs]
    exact (vertexChain_bound ha hb hE (hV 0 (by norm_num)) (hV 1 (by norm_num)) (hV 2 (by norm_num))
      (hV 3 (by norm_num)) fm nm).2.1

/-- slack of the far branch: `DistanceToEdge` 2^-44 + rounding of `4 − ·` (≤ 5u) -/
noncomputable def farSlack : ℝ := 1 / 2 ^ 44 + 5 * uR

/-- **the far branch** `4 − DistanceToEdge(−a, −b)`: antipode rule for sets + `distanceToEdge_lower` on the antipodal arc -/
theorem maxEdge_far (id : CellID) (hv : isValid id = true) (a b : V3)
    (ha : UnitPt a) (hb : UnitPt b) (hE : EdgeOK a b)
    (hV : ∀ k, k < 4 → VertexCallOK (vertex (cellFromCellID id) k) (negV a) (negV b))
    {q r : R3} (hq : InCellXYZ (cellFromCellID id) (toAcc q)) (hr : OnArc (vecR a) (vecR b) r) :
    Fin (F64.four - distanceToEdge (cellFromCellID id) (negV a) (negV b)) ∧
    chordPQ q r ≤ val (F64.four - distanceToEdge (cellFromCellID id) (negV a) (negV b)) + farSlack := by
  have H := stdModel
  have hu := uR_nonneg
  have ha' : UnitPt (negV a) := unitWithin_negV ha
  have hb' : UnitPt (negV b) := unitWithin_negV hb
  have hE' := edgeOK_negV ha.1 hb.1 hE
  have hr' : OnArc (vecR (negV a)) (vecR (negV b)) (negR r) := by
    rw [vecR_negV ha.1, vecR_negV hb.1]; exact onArc_negR hr
  obtain ⟨fD, hD⟩ := distanceToEdge_lower id hv (negV a) (negV b) ha' hb' hE' hV hq hr'
  have nD := distanceToEdge_nonneg id hv (negV a) (negV b) ha' hb' hE' hV
  rw [chordPQ_negR] at hD
  have hq1 := cell_pt_n2 id hv hq
  have hr1 := onArc_n2 hr
  have hc0 : 0 ≤ chordPQ q r := chordPQ_nonneg hq1 hr1
  set D := distanceToEdge (cellFromCellID id) (negV a) (negV b) with hDdef
  have hDhi : val D ≤ 5 := by
    have : (1 : ℝ) / 2 ^ 44 ≤ 1 := by norm_num
    linarith
  have m : |val F64.four - val D| ≤ 5 := by
    rw [S2Proofs.C12Dist.VertexErr.val_four, abs_le]; constructor <;> linarith
  obtain ⟨fr, rr, _⟩ := sub_step H S2Proofs.C12Dist.VertexErr.fin_four fD m (by norm_num)
  unfold Rnd at rr
  rw [S2Proofs.C12Dist.VertexErr.val_four] at rr m
  refine ⟨fr, ?_⟩
  have h1 := (abs_le.1 rr).1
  have h2 : uR * |4 - val D| ≤ uR * 5 := mul_le_mul_of_nonneg_left m hu
  unfold farSlack
  linarith

/-- **the near branch** `return maxDist`, parametrised by a cosine bound against the arc: if, for the slack `s`, every point
    of the cell has squared chord ≤ `maxDist + s` to every arc point, that is the statement; this lemma only packages the
    float side (`maxDist` is finite, is one of the two endpoint maxima, dominates both). -/
theorem maxEdge_endpoints (id : CellID) (hv : isValid id = true) (a b : V3) (ha : UnitPt a) (hb : UnitPt b) :
    Fin (maxChord (maxDistance (cellFromCellID id) a) [maxDistance (cellFromCellID id) b]) ∧
    ∀ q : R3, InCellXYZ (cellFromCellID id) (toAcc q) →
      chordPQ q (dirR (vecR a)) ≤ val (maxChord (maxDistance (cellFromCellID id) a) [maxDistance (cellFromCellID id) b]) + endSlack ∧
      chordPQ q (dirR (vecR b)) ≤ val (maxChord (maxDistance (cellFromCellID id) a) [maxDistance (cellFromCellID id) b]) + endSlack := by
  obtain ⟨q0, hq0⟩ : ∃ q : R3, InCellXYZ (cellFromCellID id) (toAcc q) := ⟨_, corner_inCell id hv 0⟩
  obtain ⟨fa, _⟩ := endpoint_chord_le id hv ha hq0
  obtain ⟨fb, _⟩ := endpoint_chord_le id hv hb hq0
  obtain ⟨fm, la, lb, _⟩ := maxChord2 fa fb
  refine ⟨fm, fun q hq => ?_⟩
  obtain ⟨_, h1⟩ := endpoint_chord_le id hv ha hq
  obtain ⟨_, h2⟩ := endpoint_chord_le id hv hb hq
  exact ⟨by linarith, by linarith⟩

end S2Proofs.C12Dist2
