/-
  C12Dist2.MaxAttained — the OTHER direction for the maxima: the reported maximum is not too large.

  * `maxDistance_attained`   (point target, `UnitPt p`): some point of the exact cell is at least `MaxDistance(p) − 2^-46` away from
                             `p` — near branch: a corner (`Ctx.vertex_val`, 57u); far branch: C12's `distance_attained` for `−p`;
  * `maxDistanceToEdge_attained_partial` : some (cell point, arc point) pair is at least `MaxDistanceToEdge(a,b) − 2^-44` apart —
                             near branch: unconditional (an endpoint of the arc); far branch: `distanceToEdge_attained_partial` on the
                             antipodal edge, hence with its proviso (the crossing loop of `DistanceToEdge(−a,−b)` does not return).
-/
import S2Proofs.C12Dist2.MaxEdgeFinal
import S2Proofs.C12Dist.Examples

set_option linter.unusedSimpArgs false
set_option linter.unusedVariables false

namespace S2Proofs.C12Dist2
open S2 S2.CellID S2.CellM S2.CellEdgeM S2.EdgeNum S2Proofs.F64Order S2Proofs.FloatErr
open S2Proofs.C17Err S2Proofs.C17Err.R3 S2Proofs.C17Pairs S2Proofs.C17 S2Proofs.C08World S2Proofs.C12Dist S2Proofs.C12

/-- `|p|²` of a `UnitPt` -/
theorem unitPt_norm2 {p : V3} (hp : UnitPt p) :
    |(S2Proofs.C16Acc.ofV p).norm2 - 1| ≤ 1 / 2 ^ 51 := by
  have hn : (S2Proofs.C16Acc.ofV p).norm2 = C17Err.n2 p := by
    unfold S2Proofs.C16Acc.ofV S2Proofs.C16Acc.R3.norm2 C17Err.n2; ring
  obtain ⟨_, lo, hi⟩ := hp
  have hdv : (1 + delta0) ^ 2 ≤ 1 + 1 / 2 ^ 51 := by unfold delta0; norm_num
  have hdw : 1 - 1 / 2 ^ 51 ≤ (1 - delta0) ^ 2 := by unfold delta0; norm_num
  rw [hn, abs_le]; constructor <;> linarith

/-- **ATTAINED for `MaxDistance`** (point target): some point of the exact cell is at least `MaxDistance(p) − 2^-46` away -/
theorem maxDistance_attained (id : CellID) (hv : isValid id = true) {p : V3} (hp : UnitPt p) :
    ∃ q : S2Proofs.C16Acc.R3, InCellXYZ (cellFromCellID id) q ∧
      val (maxDistance (cellFromCellID id) p) ≤ S2Proofs.C12Dist.dist2 (S2Proofs.C16Acc.ofV p) q + 1 / 2 ^ 46 := by
  have H := stdModel
  have hu := uR_nonneg
  have pp := unitPt_ptOK hp
  obtain ⟨hf, hl, hn⟩ := pp
  have hf3 := fin3_of_finite3 hf
  have X := mkCtx id hv p hf3 hn
  obtain ⟨_, _, _, _, ok, _⟩ := cellOK id hv
  set c := cellFromCellID id with hc
  have hN := unitPt_norm2 hp
  obtain ⟨nlo, nhi⟩ := abs_le.mp hN
  unfold maxDistance maxVertexDist
  simp only
  split
  · -- near branch: one of the four corners
    obtain ⟨f00, _, _, e00⟩ := X.vertex_val false false
    obtain ⟨f10, _, _, e10⟩ := X.vertex_val true false
    obtain ⟨f01, _, _, e01⟩ := X.vertex_val false true
    obtain ⟨f11, _, _, e11⟩ := X.vertex_val true true
    obtain ⟨hcase, _⟩ := maxChord4 _ _ _ _ f00 f10 f01 f11
    have hve : vertErr ≤ 1 / 2 ^ 46 := by unfold vertErr uR; norm_num
    have corner : ∀ (xHi yHi : Bool),
        |val (vertexChordDist2 c (faceXYZtoUVW c.face p) xHi yHi)
          - min 4 (S2Proofs.C12Dist.dist2 (S2Proofs.C16Acc.ofV (faceXYZtoUVW c.face p))
              (vhat (if xHi then (rectOf c).u1 else (rectOf c).u0) (if yHi then (rectOf c).v1 else (rectOf c).v0)))| ≤ vertErr →
        ∃ q : S2Proofs.C16Acc.R3, InCellXYZ c q ∧
          val (vertexChordDist2 c (faceXYZtoUVW c.face p) xHi yHi) ≤ S2Proofs.C12Dist.dist2 (S2Proofs.C16Acc.ofV p) q + 1 / 2 ^ 46 := by
      intro xHi yHi he
      obtain ⟨q, hq⟩ := uvwR_surj c.face
        (vhat (if xHi then (rectOf c).u1 else (rectOf c).u0) (if yHi then (rectOf c).v1 else (rectOf c).v0))
      have hin : InCell (rectOf c) (vhat (if xHi then (rectOf c).u1 else (rectOf c).u0)
          (if yHi then (rectOf c).v1 else (rectOf c).v0)) := by
        apply vhat_inCell _ ok
        · cases xHi <;> simp <;> [exact ok.u_lt.le; exact ok.u_lt.le]
        · cases yHi <;> simp <;> [exact ok.v_lt.le; exact ok.v_lt.le]
      refine ⟨q, by unfold InCellXYZ; rw [hq]; exact hin, ?_⟩
      rw [ofV_uvw, ← hq, uvwR_dist2] at he
      have := (abs_le.mp he).2
      have := min_le_right 4 (S2Proofs.C12Dist.dist2 (S2Proofs.C16Acc.ofV p) q)
      linarith
    rcases hcase with h | h | h | h <;> rw [h]
    · exact corner false false e00
    · exact corner true false e10
    · exact corner false true e01
    · exact corner true true e11
  · -- far branch: 4 − Distance(−p)
    have hp' : UnitPt (negV p) := unitWithin_negV hp
    have pp' := unitPt_ptOK hp'
    obtain ⟨q, hq, _, hatt⟩ := distance_attained id hv (negV p) pp'
    obtain ⟨_, hneg⟩ := antipode p hf3 hn
    have hneg' : S2Proofs.C16Acc.ofV (negV p) = S2Proofs.C16Acc.R3.neg (S2Proofs.C16Acc.ofV p) := hneg
    obtain ⟨fD, _⟩ := distance_lower_bound id hv (negV p) pp' q hq
    have nD := distance_nonneg id hv (negV p) pp'
    refine ⟨q, hq, ?_⟩
    show val (F64.four - distance c (negV p)) ≤ _
    set D := distance c (negV p) with hD
    have hq1 : q.norm2 = 1 := by have := hq.1; rwa [uvwR_norm2] at this
    have hsum := dist2_neg_add (S2Proofs.C16Acc.ofV p) q
    rw [← hneg', hq1] at hsum
    have hd0 : 0 ≤ S2Proofs.C12Dist.dist2 (S2Proofs.C16Acc.ofV p) q := by unfold S2Proofs.C12Dist.dist2; exact S2Proofs.C16Acc.R3.norm2_nonneg _
    -- the (|p| − 1)² term
    have hsq : ((S2Proofs.C16Acc.ofV (negV p)).norm - 1) ^ 2 ≤ 1 / 2 ^ 100 := by
      have hN' := unitPt_norm2 hp'
      set nn := (S2Proofs.C16Acc.ofV (negV p)).norm with hnn
      have h0 : 0 ≤ nn := S2Proofs.C16Acc.R3.norm_nonneg _
      have hsqn : nn ^ 2 = (S2Proofs.C16Acc.ofV (negV p)).norm2 := S2Proofs.C16Acc.R3.norm_sq _
      obtain ⟨a1, a2⟩ := abs_le.mp hN'
      have : (nn - 1) ^ 2 ≤ ((nn - 1) * (nn + 1)) ^ 2 := by
        have : (nn - 1) ^ 2 * 1 ≤ (nn - 1) ^ 2 * (nn + 1) ^ 2 :=
          mul_le_mul_of_nonneg_left (by nlinarith) (sq_nonneg _)
        nlinarith
      have e : (nn - 1) * (nn + 1) = nn ^ 2 - 1 := by ring
      rw [e, hsqn] at this
      have : ((S2Proofs.C16Acc.ofV (negV p)).norm2 - 1) ^ 2 ≤ (1 / 2 ^ 51) ^ 2 := by
        apply sq_le_sq'
        · linarith
        · linarith
      have : ((1 : ℝ) / 2 ^ 51) ^ 2 ≤ 1 / 2 ^ 100 := by norm_num
      linarith
    obtain ⟨l1, l2⟩ := abs_le.mp hatt
    have hDhi : val D ≤ 5 := by
      have := min_le_left 4 (S2Proofs.C12Dist.dist2 (S2Proofs.C16Acc.ofV (negV p)) q)
      have : (1 : ℝ) / 2 ^ 47 + 1 / 2 ^ 100 ≤ 1 := by norm_num
      linarith
    have m : |val F64.four - val D| ≤ 5 := by
      rw [S2Proofs.C12Dist.VertexErr.val_four, abs_le]; constructor <;> linarith
    obtain ⟨fr, rr, _⟩ := sub_step H S2Proofs.C12Dist.VertexErr.fin_four fD m (by norm_num)
    unfold Rnd at rr
    rw [S2Proofs.C12Dist.VertexErr.val_four] at rr m
    have h1 := (abs_le.1 rr).2
    have h2 : uR * |4 - val D| ≤ uR * 5 := mul_le_mul_of_nonneg_left m hu
    have hnum : (1 : ℝ) / 2 ^ 47 + 1 / 2 ^ 100 + 5 * uR + 2 * (1 / 2 ^ 51) ≤ 1 / 2 ^ 46 := by unfold uR; norm_num
    by_cases h4 : S2Proofs.C12Dist.dist2 (S2Proofs.C16Acc.ofV (negV p)) q ≤ 4
    · rw [min_eq_right h4] at l1
      linarith
    · rw [min_eq_left (not_le.mp h4).le] at l1
      linarith

theorem toAcc_mk (q : S2Proofs.C16Acc.R3) : toAcc (⟨q.x, q.y, q.z⟩ : R3) = q := by
  cases q; rfl

/-- the endpoint version in C17's vocabulary: a cell point whose chord to the DIRECTION of `e` is ≥ `MaxDistance(e) − 2^-45` -/
theorem endpoint_chord_attained (id : CellID) (hv : isValid id = true) {e : V3} (he : UnitPt e) :
    ∃ q : R3, InCellXYZ (cellFromCellID id) (toAcc q) ∧
      val (maxDistance (cellFromCellID id) e) ≤ chordPQ q (dirR (vecR e)) + 1 / 2 ^ 45 := by
  obtain ⟨q0, hq0, h⟩ := maxDistance_attained id hv he
  refine ⟨⟨q0.x, q0.y, q0.z⟩, by rw [toAcc_mk]; exact hq0, ?_⟩
  have hq' : InCellXYZ (cellFromCellID id) (toAcc (⟨q0.x, q0.y, q0.z⟩ : R3)) := by rw [toAcc_mk]; exact hq0
  have hq1 := cell_pt_n2 id hv hq'
  obtain ⟨hb, _⟩ := dist2_bridge he (⟨q0.x, q0.y, q0.z⟩ : R3) hq1
  rw [toAcc_mk, dirChordP_eq_chord, chordPQ_comm] at hb
  have : (1 : ℝ) / 2 ^ 46 + 1 / 2 ^ 49 ≤ 1 / 2 ^ 45 := by norm_num
  linarith

theorem onArc_right_dir (a b : R3) (hb : 0 < b.len) : OnArc a b (dirR b) := by
  obtain ⟨s, t, hs, ht, e, n⟩ := onArc_left' b a hb
  refine ⟨t, s, ht, hs, ?_, n⟩
  rw [show dirR b = comb (1 / b.len) b 0 b from rfl, e]
  unfold comb; simp only [R3.mk.injEq]
  refine ⟨by ring, by ring, by ring⟩

/-- **ATTAINED for `MaxDistanceToEdge`, partial**: near branch unconditional; far branch under the proviso of
    `distanceToEdge_attained_partial` for the antipodal edge -/
theorem maxDistanceToEdge_attained_partial (id : CellID) (hv : isValid id = true) (a b : V3)
    (ha : UnitPt a) (hb : UnitPt b) (hE : EdgeOK a b)
    (hV : ∀ k, k < 4 → VertexCallOK (vertex (cellFromCellID id) k) (negV a) (negV b))
    (hcode : F64.le (endMax (cellFromCellID id) a b) F64.two = true ∨
      F64.feq (minChord (distance (cellFromCellID id) (negV a)) [distance (cellFromCellID id) (negV b)]) fzero = true ∨
      anyCrossing (Crosser.initChain (negV a) (negV b) (vertex (cellFromCellID id) 3)) (vertices (cellFromCellID id)) = false) :
    ∃ q r : R3, InCellXYZ (cellFromCellID id) (toAcc q) ∧ OnArc (vecR a) (vecR b) r ∧
      val (maxDistanceToEdge (cellFromCellID id) a b) ≤ chordPQ q r + 1 / 2 ^ 44 := by
  have H := stdModel
  have hu := uR_nonneg
  obtain ⟨q0, hq0⟩ : ∃ q : R3, InCellXYZ (cellFromCellID id) (toAcc q) := ⟨_, corner_inCell id hv 0⟩
  obtain ⟨fa, _⟩ := endpoint_chord_le id hv ha hq0
  obtain ⟨fb, _⟩ := endpoint_chord_le id hv hb hq0
  obtain ⟨fm, _, _, mcase⟩ := maxChord2 fa fb
  have h45 : (1 : ℝ) / 2 ^ 45 ≤ 1 / 2 ^ 44 := by norm_num
  unfold maxDistanceToEdge
  simp only
  split
  · rcases mcase with h | h
    · obtain ⟨q, hq, hle⟩ := endpoint_chord_attained id hv ha
      exact ⟨q, dirR (vecR a), hq, onArc_left' _ _ ha.len_pos, by rw [h]; linarith⟩
    · obtain ⟨q, hq, hle⟩ := endpoint_chord_attained id hv hb
      exact ⟨q, dirR (vecR b), hq, onArc_right_dir _ _ hb.len_pos, by rw [h]; linarith⟩
  · rename_i hfar
    have hcode' : F64.feq (minChord (distance (cellFromCellID id) (negV a)) [distance (cellFromCellID id) (negV b)]) fzero = true ∨
        anyCrossing (Crosser.initChain (negV a) (negV b) (vertex (cellFromCellID id) 3)) (vertices (cellFromCellID id)) = false := by
      rcases hcode with h | h
      · exact absurd h hfar
      · exact h
    have ha' : UnitPt (negV a) := unitWithin_negV ha
    have hb' : UnitPt (negV b) := unitWithin_negV hb
    have hE' := edgeOK_negV ha.1 hb.1 hE
    obtain ⟨q, r', hq, hr', hle⟩ := distanceToEdge_attained_partial id hv (negV a) (negV b) ha' hb' hE' hV hcode'
    have hr : OnArc (vecR a) (vecR b) (negR r') := by
      rw [vecR_negV ha.1, vecR_negV hb.1] at hr'
      have := onArc_negR hr'
      rwa [negR_negR, negR_negR] at this
    refine ⟨q, negR r', hq, hr, ?_⟩
    rw [mul_negOne_eq, mul_negOne_eq, chordPQ_negR]
    obtain ⟨fD, hD⟩ := distanceToEdge_lower id hv (negV a) (negV b) ha' hb' hE' hV hq hr'
    have nD := distanceToEdge_nonneg id hv (negV a) (negV b) ha' hb' hE' hV
    have hq1 := cell_pt_n2 id hv hq
    have hr1 := onArc_n2 hr'
    have hc4 : chordPQ q r' ≤ 4 := chordPQ_le_four hq1 hr1
    set D := distanceToEdge (cellFromCellID id) (negV a) (negV b) with hDdef
    have hDhi : val D ≤ 5 := by
      have : (1 : ℝ) / 2 ^ 44 ≤ 1 := by norm_num
      linarith
    have m : |val F64.four - val D| ≤ 5 := by
      rw [S2Proofs.C12Dist.VertexErr.val_four, abs_le]; constructor <;> linarith
    obtain ⟨fr, rr, _⟩ := sub_step H S2Proofs.C12Dist.VertexErr.fin_four fD m (by norm_num)
    unfold Rnd at rr
    rw [S2Proofs.C12Dist.VertexErr.val_four] at rr m
    have h1 := (abs_le.1 rr).2
    have h2 : uR * |4 - val D| ≤ uR * 5 := mul_le_mul_of_nonneg_left m hu
    have : (1 : ℝ) / 2 ^ 45 + 5 * uR ≤ 1 / 2 ^ 44 := by unfold uR; norm_num
    linarith

end S2Proofs.C12Dist2
