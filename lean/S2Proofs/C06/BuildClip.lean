/-
  S2Proofs.C06.BuildClip — the step-level clipping hypothesis `ClipSound` of index invariant I1
  (`S2Proofs.C06.BuildI1`) reduced to PER-CALL facts about `clipUBound` / `clipVBound` and four
  comparisons (`ClipSoundN`, `clipSound_of_narrow`): the case analysis of `edgeChildren` / `clipVAxis` /
  `Quad.get` is discharged here once and for all.

  Also: exact facts about the model
    (E1) `rectFromPoints_contains`   — the root bound contains both endpoints (finite coordinates)
    (E2) `clipUBound_shape`, `clipVBound_shape` — clipping replaces one end of each interval, the new
         end of the other axis is clamped into the old interval
    (E3) `edgeChildren_exhaustive`   — every edge is passed to at least one child
-/
import S2Proofs.C06.BuildI1
import S2Proofs.F64Carrier
open S2 S2.CellID S2.Hilbert S2.PaddedCellM S2.IndexBuild S2Proofs.C12H S2Proofs.C06PC S2Proofs.C06BuildH

set_option linter.unusedSimpArgs false
namespace S2Proofs.C06BuildH

/-- a region index along one axis: `none` (whole padded cell) or `some 0` / `some 1` (lower / upper half) -/
def RegIdx (o : Option Nat) : Prop := ∀ n, o = some n → n < 2

theorem regIdx_none : RegIdx none := by intro n h; cases h
theorem regIdx_some {n : Nat} (h : n < 2) : RegIdx (some n) := by
  intro m hm; cases hm; exact h

/-- Narrow, per-call form of `ClipSound`.  A region of the padded cell `c` is `(i, j)` with `i, j : Option Nat`:
    `none` = the whole padded cell along that axis, `some 0` / `some 1` = the lower / upper child half
    (u for `i`, v for `j`); only indices `< 2` are ever used (`RegIdx`).
    `M fe c i j` : the true face edge meets that region.
    `B ce c i j` : the float bound of `ce` contains the part of the true edge inside that region.
    In the per-call fields `mid = middle (fromCellID c) cellPadding pre` for a cell `IsCell c k`, `k < 30`. -/
structure ClipSoundN (Meets : FaceEdge → CellID → Prop) (BoundOK : ClippedEdge → CellID → Prop)
    (M : FaceEdge → CellID → Option Nat → Option Nat → Prop)
    (B : ClippedEdge → CellID → Option Nat → Option Nat → Prop) : Prop where
  /-- an edge that meets a cell meets every valid cell containing it (as in `ClipSound`) -/
  meets_mono : ∀ (fe : FaceEdge) (c c' : CellID), isValid c = true → isValid c' = true →
    lo c ≤ lo c' → hi c' ≤ hi c → Meets fe c' → Meets fe c
  /-- link: a bound sound for the cell is sound for the whole-cell region -/
  B_whole : ∀ (c : CellID) (k : Nat) (ce : ClippedEdge), IsCell c k → BoundOK ce c → B ce c none none
  /-- link: a bound sound for the quarter region `(i, j)` is sound for the child cell at that position -/
  B_child : ∀ (c : CellID) (k : Nat) (ce : ClippedEdge) (pos : Nat), IsCell c k → k < 30 → pos < 4 →
    B ce c (some (childIJ (fromCellID c) pos).1) (some (childIJ (fromCellID c) pos).2) → BoundOK ce (child c pos)
  /-- link: an edge that meets the child cell meets the quarter region at that position -/
  M_child : ∀ (c : CellID) (k : Nat) (fe : FaceEdge) (pos : Nat), IsCell c k → k < 30 → pos < 4 →
    Meets fe (child c pos) →
    M fe c (some (childIJ (fromCellID c) pos).1) (some (childIJ (fromCellID c) pos).2)
  /-- monotonicity: meeting a u-half (restricted to the v-region `j`) implies meeting the full u-range -/
  M_mono_u : ∀ (fe : FaceEdge) (c : CellID) (i : Nat) (j : Option Nat), i < 2 → RegIdx j →
    M fe c (some i) j → M fe c none j
  /-- monotonicity: meeting a v-half (restricted to the u-region `i`) implies meeting the full v-range -/
  M_mono_v : ∀ (fe : FaceEdge) (c : CellID) (i : Option Nat) (j : Nat), RegIdx i → j < 2 →
    M fe c i (some j) → M fe c i none
  /-- monotonicity: a bound sound for the whole cell is sound for a u-half -/
  B_mono_u : ∀ (ce : ClippedEdge) (c : CellID) (i : Nat), i < 2 → B ce c none none → B ce c (some i) none
  /-- monotonicity: a bound sound for the full v-range of the u-region `i` is sound for a v-half of it -/
  B_mono_v : ∀ (ce : ClippedEdge) (c : CellID) (i : Option Nat) (j : Nat), RegIdx i → j < 2 →
    B ce c i none → B ce c i (some j)
  /-- ONE call `clipUBound e 1 mid.u.hi` (lower u child), reached only when the bound straddles `mid.u` -/
  clipU_hi : ∀ (c : CellID) (k : Nat) (pre : Bool) (ce : ClippedEdge), IsCell c k → k < 30 →
    B ce c none none →
    F64.le ce.bound.1.2 (middle (fromCellID c) cellPadding pre).1.1 = false →
    F64.ge ce.bound.1.1 (middle (fromCellID c) cellPadding pre).1.2 = false →
    B (clipUBound ce 1 (middle (fromCellID c) cellPadding pre).1.2) c (some 0) none
  /-- ONE call `clipUBound e 0 mid.u.lo` (upper u child), same guards -/
  clipU_lo : ∀ (c : CellID) (k : Nat) (pre : Bool) (ce : ClippedEdge), IsCell c k → k < 30 →
    B ce c none none →
    F64.le ce.bound.1.2 (middle (fromCellID c) cellPadding pre).1.1 = false →
    F64.ge ce.bound.1.1 (middle (fromCellID c) cellPadding pre).1.2 = false →
    B (clipUBound ce 0 (middle (fromCellID c) cellPadding pre).1.1) c (some 1) none
  /-- ONE call `clipVBound e 1 mid.v.hi` (lower v child of the u-region `i`), reached only when the
      bound straddles `mid.v` -/
  clipV_hi : ∀ (c : CellID) (k : Nat) (pre : Bool) (ce : ClippedEdge) (i : Option Nat), IsCell c k → k < 30 →
    RegIdx i → B ce c i none →
    F64.le ce.bound.2.2 (middle (fromCellID c) cellPadding pre).2.1 = false →
    F64.ge ce.bound.2.1 (middle (fromCellID c) cellPadding pre).2.2 = false →
    B (clipVBound ce 1 (middle (fromCellID c) cellPadding pre).2.2) c i (some 0)
  /-- ONE call `clipVBound e 0 mid.v.lo` (upper v child of the u-region `i`), same guards -/
  clipV_lo : ∀ (c : CellID) (k : Nat) (pre : Bool) (ce : ClippedEdge) (i : Option Nat), IsCell c k → k < 30 →
    RegIdx i → B ce c i none →
    F64.le ce.bound.2.2 (middle (fromCellID c) cellPadding pre).2.1 = false →
    F64.ge ce.bound.2.1 (middle (fromCellID c) cellPadding pre).2.2 = false →
    B (clipVBound ce 0 (middle (fromCellID c) cellPadding pre).2.1) c i (some 1)
  /-- ONE comparison: an edge that meets the lower u half is not sent to the upper u child only -/
  keepU_lo : ∀ (c : CellID) (k : Nat) (pre : Bool) (ce : ClippedEdge), IsCell c k → k < 30 →
    B ce c none none → M ce.fe c (some 0) none →
    F64.ge ce.bound.1.1 (middle (fromCellID c) cellPadding pre).1.2 = false
  /-- ONE comparison: an edge that meets the upper u half is not sent to the lower u child only -/
  keepU_hi : ∀ (c : CellID) (k : Nat) (pre : Bool) (ce : ClippedEdge), IsCell c k → k < 30 →
    B ce c none none → M ce.fe c (some 1) none →
    F64.le ce.bound.1.2 (middle (fromCellID c) cellPadding pre).1.1 = false
  /-- ONE comparison: an edge that meets the lower v half of the u-region `i` is not sent to the upper v
      child only -/
  keepV_lo : ∀ (c : CellID) (k : Nat) (pre : Bool) (ce : ClippedEdge) (i : Option Nat), IsCell c k → k < 30 →
    RegIdx i → B ce c i none → M ce.fe c i (some 0) →
    F64.ge ce.bound.2.1 (middle (fromCellID c) cellPadding pre).2.2 = false
  /-- ONE comparison: an edge that meets the upper v half of the u-region `i` is not sent to the lower v
      child only -/
  keepV_hi : ∀ (c : CellID) (k : Nat) (pre : Bool) (ce : ClippedEdge) (i : Option Nat), IsCell c k → k < 30 →
    RegIdx i → B ce c i none → M ce.fe c i (some 1) →
    F64.le ce.bound.2.2 (middle (fromCellID c) cellPadding pre).2.1 = false

/-- non-vacuity: the hypothesis record is consistent -/
example : ClipSoundN (fun _ _ => False) (fun _ _ => True) (fun _ _ _ _ => False) (fun _ _ _ _ => True) := by
  constructor <;> intros <;> trivial

section Narrow
variable {Meets : FaceEdge → CellID → Prop} {BoundOK : ClippedEdge → CellID → Prop}
  {M : FaceEdge → CellID → Option Nat → Option Nat → Prop}
  {B : ClippedEdge → CellID → Option Nat → Option Nat → Prop}

/-- `clipVAxis`: whatever it passes on is sound for the corresponding v half -/
theorem clipVAxis_bound (h : ClipSoundN Meets BoundOK M B) {c : CellID} {k : Nat} (pre : Bool)
    (hc : IsCell c k) (hk : k < 30) (e : ClippedEdge) (i : Option Nat) (hi : RegIdx i) (hB : B e c i none) :
    (∀ x, (clipVAxis e (middle (fromCellID c) cellPadding pre).2).1 = some x → B x c i (some 0)) ∧
    (∀ x, (clipVAxis e (middle (fromCellID c) cellPadding pre).2).2 = some x → B x c i (some 1)) := by
  unfold clipVAxis
  by_cases h1 : F64.le e.bound.2.2 (middle (fromCellID c) cellPadding pre).2.1 = true
  · simp only [h1, ↓reduceIte]
    refine ⟨?_, ?_⟩
    · intro x hx; simp at hx; subst hx; exact h.B_mono_v _ _ _ 0 hi (by omega) hB
    · intro x hx; simp at hx
  · simp only [h1, ↓reduceIte]
    by_cases h2 : F64.ge e.bound.2.1 (middle (fromCellID c) cellPadding pre).2.2 = true
    · simp only [h2, ↓reduceIte]
      refine ⟨?_, ?_⟩
      · intro x hx; simp at hx
      · intro x hx; simp at hx; subst hx; exact h.B_mono_v _ _ _ 1 hi (by omega) hB
    · simp only [h2, ↓reduceIte]
      have h1' : F64.le e.bound.2.2 (middle (fromCellID c) cellPadding pre).2.1 = false := by simpa using h1
      have h2' : F64.ge e.bound.2.1 (middle (fromCellID c) cellPadding pre).2.2 = false := by simpa using h2
      refine ⟨?_, ?_⟩
      · intro x hx; simp at hx; subst hx; exact h.clipV_hi c k pre e i hc hk hi hB h1' h2'
      · intro x hx; simp at hx; subst hx; exact h.clipV_lo c k pre e i hc hk hi hB h1' h2'

/-- `clipVAxis`: an edge that meets a v half is passed to it -/
theorem clipVAxis_keep (h : ClipSoundN Meets BoundOK M B) {c : CellID} {k : Nat} (pre : Bool)
    (hc : IsCell c k) (hk : k < 30) (e : ClippedEdge) (i : Option Nat) (hi : RegIdx i) (hB : B e c i none) :
    (M e.fe c i (some 0) → (clipVAxis e (middle (fromCellID c) cellPadding pre).2).1 ≠ none) ∧
    (M e.fe c i (some 1) → (clipVAxis e (middle (fromCellID c) cellPadding pre).2).2 ≠ none) := by
  unfold clipVAxis
  by_cases h1 : F64.le e.bound.2.2 (middle (fromCellID c) cellPadding pre).2.1 = true
  · simp only [h1, ↓reduceIte]
    refine ⟨fun _ => by simp, ?_⟩
    intro hm
    have := h.keepV_hi c k pre e i hc hk hi hB hm
    rw [h1] at this; cases this
  · simp only [h1, ↓reduceIte]
    by_cases h2 : F64.ge e.bound.2.1 (middle (fromCellID c) cellPadding pre).2.2 = true
    · simp only [h2, ↓reduceIte]
      refine ⟨?_, fun _ => by simp⟩
      intro hm
      have := h.keepV_lo c k pre e i hc hk hi hB hm
      rw [h2] at this; cases this
    · simp only [h2, ↓reduceIte]
      exact ⟨fun _ => by simp, fun _ => by simp⟩

/-- `edgeChildren`: each of the four slots, when filled, carries a bound sound for its quarter -/
theorem edgeChildren_bound (h : ClipSoundN Meets BoundOK M B) {c : CellID} {k : Nat} (pre : Bool)
    (hc : IsCell c k) (hk : k < 30) (e : ClippedEdge) (hB : B e c none none) :
    (∀ x, (edgeChildren (middle (fromCellID c) cellPadding pre) e).c00 = some x → B x c (some 0) (some 0)) ∧
    (∀ x, (edgeChildren (middle (fromCellID c) cellPadding pre) e).c01 = some x → B x c (some 0) (some 1)) ∧
    (∀ x, (edgeChildren (middle (fromCellID c) cellPadding pre) e).c10 = some x → B x c (some 1) (some 0)) ∧
    (∀ x, (edgeChildren (middle (fromCellID c) cellPadding pre) e).c11 = some x → B x c (some 1) (some 1)) := by
  have r0 : RegIdx (some 0) := regIdx_some (by omega)
  have r1 : RegIdx (some 1) := regIdx_some (by omega)
  unfold edgeChildren
  by_cases h1 : F64.le e.bound.1.2 (middle (fromCellID c) cellPadding pre).1.1 = true
  · simp only [h1, ↓reduceIte]
    have hv := clipVAxis_bound h pre hc hk e (some 0) r0 (h.B_mono_u _ _ 0 (by omega) hB)
    exact ⟨hv.1, hv.2, (fun x hx => by simp at hx), (fun x hx => by simp at hx)⟩
  · simp only [h1, ↓reduceIte]
    by_cases h2 : F64.ge e.bound.1.1 (middle (fromCellID c) cellPadding pre).1.2 = true
    · simp only [h2, ↓reduceIte]
      have hv := clipVAxis_bound h pre hc hk e (some 1) r1 (h.B_mono_u _ _ 1 (by omega) hB)
      exact ⟨(fun x hx => by simp at hx), (fun x hx => by simp at hx), hv.1, hv.2⟩
    · simp only [h2, ↓reduceIte]
      have h1' : F64.le e.bound.1.2 (middle (fromCellID c) cellPadding pre).1.1 = false := by simpa using h1
      have h2' : F64.ge e.bound.1.1 (middle (fromCellID c) cellPadding pre).1.2 = false := by simpa using h2
      have hU0 := h.clipU_hi c k pre e hc hk hB h1' h2'
      have hU1 := h.clipU_lo c k pre e hc hk hB h1' h2'
      by_cases h3 : F64.le e.bound.2.2 (middle (fromCellID c) cellPadding pre).2.1 = true
      · simp only [h3, ↓reduceIte]
        refine ⟨?_, (fun x hx => by simp at hx), ?_, (fun x hx => by simp at hx)⟩
        · intro x hx; simp at hx; subst hx; exact h.B_mono_v _ _ _ 0 r0 (by omega) hU0
        · intro x hx; simp at hx; subst hx; exact h.B_mono_v _ _ _ 0 r1 (by omega) hU1
      · simp only [h3, ↓reduceIte]
        by_cases h4 : F64.ge e.bound.2.1 (middle (fromCellID c) cellPadding pre).2.2 = true
        · simp only [h4, ↓reduceIte]
          refine ⟨(fun x hx => by simp at hx), ?_, (fun x hx => by simp at hx), ?_⟩
          · intro x hx; simp at hx; subst hx; exact h.B_mono_v _ _ _ 1 r0 (by omega) hU0
          · intro x hx; simp at hx; subst hx; exact h.B_mono_v _ _ _ 1 r1 (by omega) hU1
        · simp only [h4, ↓reduceIte]
          have hv0 := clipVAxis_bound h pre hc hk _ (some 0) r0 hU0
          have hv1 := clipVAxis_bound h pre hc hk _ (some 1) r1 hU1
          exact ⟨hv0.1, hv0.2, hv1.1, hv1.2⟩

/-- `edgeChildren`: an edge that meets a quarter fills the slot of that quarter -/
theorem edgeChildren_keep (h : ClipSoundN Meets BoundOK M B) {c : CellID} {k : Nat} (pre : Bool)
    (hc : IsCell c k) (hk : k < 30) (e : ClippedEdge) (hB : B e c none none) :
    (M e.fe c (some 0) (some 0) → (edgeChildren (middle (fromCellID c) cellPadding pre) e).c00 ≠ none) ∧
    (M e.fe c (some 0) (some 1) → (edgeChildren (middle (fromCellID c) cellPadding pre) e).c01 ≠ none) ∧
    (M e.fe c (some 1) (some 0) → (edgeChildren (middle (fromCellID c) cellPadding pre) e).c10 ≠ none) ∧
    (M e.fe c (some 1) (some 1) → (edgeChildren (middle (fromCellID c) cellPadding pre) e).c11 ≠ none) := by
  have r0 : RegIdx (some 0) := regIdx_some (by omega)
  have r1 : RegIdx (some 1) := regIdx_some (by omega)
  -- consequences of meeting a quarter
  have mU0 : ∀ j, j < 2 → M e.fe c (some 0) (some j) → M e.fe c (some 0) none :=
    fun j hj hm => h.M_mono_v _ _ _ j r0 hj hm
  have mU1 : ∀ j, j < 2 → M e.fe c (some 1) (some j) → M e.fe c (some 1) none :=
    fun j hj hm => h.M_mono_v _ _ _ j r1 hj hm
  have mV0 : ∀ i, i < 2 → M e.fe c (some i) (some 0) → M e.fe c none (some 0) :=
    fun i hi hm => h.M_mono_u _ _ i _ hi r0 hm
  have mV1 : ∀ i, i < 2 → M e.fe c (some i) (some 1) → M e.fe c none (some 1) :=
    fun i hi hm => h.M_mono_u _ _ i _ hi r1 hm
  unfold edgeChildren
  by_cases h1 : F64.le e.bound.1.2 (middle (fromCellID c) cellPadding pre).1.1 = true
  · simp only [h1, ↓reduceIte]
    have hv := clipVAxis_keep h pre hc hk e (some 0) r0 (h.B_mono_u _ _ 0 (by omega) hB)
    have no1 : ∀ j, j < 2 → M e.fe c (some 1) (some j) → False := by
      intro j hj hm
      have := h.keepU_hi c k pre e hc hk hB (mU1 j hj hm)
      rw [h1] at this; cases this
    exact ⟨hv.1, hv.2, (fun hm => (no1 0 (by omega) hm).elim), (fun hm => (no1 1 (by omega) hm).elim)⟩
  · simp only [h1, ↓reduceIte]
    by_cases h2 : F64.ge e.bound.1.1 (middle (fromCellID c) cellPadding pre).1.2 = true
    · simp only [h2, ↓reduceIte]
      have hv := clipVAxis_keep h pre hc hk e (some 1) r1 (h.B_mono_u _ _ 1 (by omega) hB)
      have no0 : ∀ j, j < 2 → M e.fe c (some 0) (some j) → False := by
        intro j hj hm
        have := h.keepU_lo c k pre e hc hk hB (mU0 j hj hm)
        rw [h2] at this; cases this
      exact ⟨(fun hm => (no0 0 (by omega) hm).elim), (fun hm => (no0 1 (by omega) hm).elim), hv.1, hv.2⟩
    · simp only [h2, ↓reduceIte]
      have h1' : F64.le e.bound.1.2 (middle (fromCellID c) cellPadding pre).1.1 = false := by simpa using h1
      have h2' : F64.ge e.bound.1.1 (middle (fromCellID c) cellPadding pre).1.2 = false := by simpa using h2
      by_cases h3 : F64.le e.bound.2.2 (middle (fromCellID c) cellPadding pre).2.1 = true
      · simp only [h3, ↓reduceIte]
        have no1 : ∀ i, i < 2 → M e.fe c (some i) (some 1) → False := by
          intro i hi hm
          have := h.keepV_hi c k pre e none hc hk regIdx_none hB (mV1 i hi hm)
          rw [h3] at this; cases this
        exact ⟨fun _ => by simp, (fun hm => (no1 0 (by omega) hm).elim), fun _ => by simp,
          (fun hm => (no1 1 (by omega) hm).elim)⟩
      · simp only [h3, ↓reduceIte]
        by_cases h4 : F64.ge e.bound.2.1 (middle (fromCellID c) cellPadding pre).2.2 = true
        · simp only [h4, ↓reduceIte]
          have no0 : ∀ i, i < 2 → M e.fe c (some i) (some 0) → False := by
            intro i hi hm
            have := h.keepV_lo c k pre e none hc hk regIdx_none hB (mV0 i hi hm)
            rw [h4] at this; cases this
          exact ⟨(fun hm => (no0 0 (by omega) hm).elim), fun _ => by simp,
            (fun hm => (no0 1 (by omega) hm).elim), fun _ => by simp⟩
        · simp only [h4, ↓reduceIte]
          have hU0 := h.clipU_hi c k pre e hc hk hB h1' h2'
          have hU1 := h.clipU_lo c k pre e hc hk hB h1' h2'
          have hv0 := clipVAxis_keep h pre hc hk _ (some 0) r0 hU0
          have hv1 := clipVAxis_keep h pre hc hk _ (some 1) r1 hU1
          rw [clipUBound_fe] at hv0 hv1
          exact ⟨hv0.1, hv0.2, hv1.1, hv1.2⟩

/-- the child position indices are in `{0, 1}` -/
theorem childIJ_fromCellID_lt {c : CellID} {k : Nat} (hc : IsCell c k) (pos : Nat) (hp : pos < 4) :
    (childIJ (fromCellID c) pos).1 < 2 ∧ (childIJ (fromCellID c) pos).2 < 2 := by
  have hlt := split_ij _ (posToIJ_lt _ (fromCellID_orientation_lt hc) _ hp)
  exact ⟨hlt.1, hlt.2.1⟩

/-- the per-call facts imply the step-level hypothesis of I1 -/
theorem clipSound_of_narrow (h : ClipSoundN Meets BoundOK M B) : ClipSound Meets BoundOK where
  meets_mono := h.meets_mono
  bound_step := by
    intro c k pre ce ce' pos hc hk hpos hOK hget
    have hB := h.B_whole c k ce hc hOK
    obtain ⟨b00, b01, b10, b11⟩ := edgeChildren_bound h pre hc hk ce hB
    apply h.B_child c k ce' pos hc hk hpos
    obtain ⟨hi, hj⟩ := childIJ_fromCellID_lt hc pos hpos
    generalize (childIJ (fromCellID c) pos).1 = i at hi hget ⊢
    generalize (childIJ (fromCellID c) pos).2 = j at hj hget ⊢
    have hi' : i = 0 ∨ i = 1 := by omega
    have hj' : j = 0 ∨ j = 1 := by omega
    rcases hi' with rfl | rfl <;> rcases hj' with rfl | rfl <;> simp [Quad.get] at hget
    · exact b00 _ hget
    · exact b01 _ hget
    · exact b10 _ hget
    · exact b11 _ hget
  keep_step := by
    intro c k pre ce pos hc hk hpos hOK hm
    have hB := h.B_whole c k ce hc hOK
    obtain ⟨k00, k01, k10, k11⟩ := edgeChildren_keep h pre hc hk ce hB
    have hM := h.M_child c k ce.fe pos hc hk hpos hm
    obtain ⟨hi, hj⟩ := childIJ_fromCellID_lt hc pos hpos
    generalize (childIJ (fromCellID c) pos).1 = i at hi hM ⊢
    generalize (childIJ (fromCellID c) pos).2 = j at hj hM ⊢
    have hi' : i = 0 ∨ i = 1 := by omega
    have hj' : j = 0 ∨ j = 1 := by omega
    rcases hi' with rfl | rfl <;> rcases hj' with rfl | rfl <;> simp only [Quad.get] <;> simp
    · exact k00 hM
    · exact k01 hM
    · exact k10 hM
    · exact k11 hM

end Narrow


/-! ### (E3) exhaustiveness of the distribution step -/

/-- `clipVAxis` passes the edge to at least one of the two v children -/
theorem clipVAxis_exhaustive (e : ClippedEdge) (m : CellM.Ivl) :
    (clipVAxis e m).1 ≠ none ∨ (clipVAxis e m).2 ≠ none := by
  unfold clipVAxis
  by_cases h1 : F64.le e.bound.2.2 m.1 = true
  · simp [h1]
  · by_cases h2 : F64.ge e.bound.2.1 m.2 = true
    · simp [h1, h2]
    · simp [h1, h2]

/-- (E3) `edgeChildren mid e` passes `e` to at least one of the four children -/
theorem edgeChildren_exhaustive (mid : CellM.Rect2) (e : ClippedEdge) :
    ∃ i j, i < 2 ∧ j < 2 ∧ (edgeChildren mid e).get i j ≠ none := by
  unfold edgeChildren
  by_cases h1 : F64.le e.bound.1.2 mid.1.1 = true
  · simp only [h1, ↓reduceIte]
    rcases clipVAxis_exhaustive e mid.2 with h | h
    · exact ⟨0, 0, by omega, by omega, by simpa [Quad.get] using h⟩
    · exact ⟨0, 1, by omega, by omega, by simpa [Quad.get] using h⟩
  · simp only [h1, ↓reduceIte]
    by_cases h2 : F64.ge e.bound.1.1 mid.1.2 = true
    · simp only [h2, ↓reduceIte]
      rcases clipVAxis_exhaustive e mid.2 with h | h
      · exact ⟨1, 0, by omega, by omega, by simpa [Quad.get] using h⟩
      · exact ⟨1, 1, by omega, by omega, by simpa [Quad.get] using h⟩
    · simp only [h2, ↓reduceIte]
      by_cases h3 : F64.le e.bound.2.2 mid.2.1 = true
      · simp only [h3, ↓reduceIte]
        exact ⟨0, 0, by omega, by omega, by simp [Quad.get]⟩
      · simp only [h3, ↓reduceIte]
        by_cases h4 : F64.ge e.bound.2.1 mid.2.2 = true
        · simp only [h4, ↓reduceIte]
          exact ⟨0, 1, by omega, by omega, by simp [Quad.get]⟩
        · simp only [h4, ↓reduceIte]
          rcases clipVAxis_exhaustive (clipUBound e 1 mid.1.2) mid.2 with h | h
          · exact ⟨0, 0, by omega, by omega, by simpa [Quad.get] using h⟩
          · exact ⟨0, 1, by omega, by omega, by simpa [Quad.get] using h⟩

/-! ### order facts on non-NaN floats (through `F64Carrier.key`) -/

open S2Proofs.F64Carrier (le_iff_key lt_iff_key fmax_spec fmin_spec)

theorem le_refl_nn {x : F64} (hx : x.isNaN = false) : F64.le x x = true :=
  (le_iff_key (x := x) (y := x) hx hx).2 (le_refl _)

/-- `ge a b = false` on non-NaN floats is the strict `a < b` (hence `a ≤ b`) -/
theorem le_of_ge_false {a b : F64} (ha : a.isNaN = false) (hb : b.isNaN = false)
    (h : F64.ge a b = false) : F64.le a b = true := by
  unfold F64.ge at h
  apply (le_iff_key (x := a) (y := b) ha hb).2
  have : ¬ F64Carrier.key b ≤ F64Carrier.key a := fun hc => by
    rw [(le_iff_key (x := b) (y := a) hb ha).2 hc] at h; cases h
  omega

/-- `le a b = false` on non-NaN floats is the strict `b < a` (hence `b ≤ a`) -/
theorem le_of_le_false {a b : F64} (ha : a.isNaN = false) (hb : b.isNaN = false)
    (h : F64.le a b = false) : F64.le b a = true := by
  apply (le_iff_key (x := b) (y := a) hb ha).2
  have : ¬ F64Carrier.key a ≤ F64Carrier.key b := fun hc => by
    rw [(le_iff_key (x := a) (y := b) ha hb).2 hc] at h; cases h
  omega

/-! ### (E1) the root bound contains both endpoints -/

/-- `AddPoint` on the degenerate interval `[a, a]` : the result contains `a` and `b` -/
theorem addPoint_self_contains (a b : F64) (ha : a.isNaN = false) (hb : b.isNaN = false) :
    F64.le (Ivl.addPoint (a, a) b).1 a = true ∧ F64.le a (Ivl.addPoint (a, a) b).2 = true ∧
    F64.le (Ivl.addPoint (a, a) b).1 b = true ∧ F64.le b (Ivl.addPoint (a, a) b).2 = true := by
  have haa := le_refl_nn ha
  have hbb := le_refl_nn hb
  have he : CellM.Ivl.isEmpty (a, a) = false := by
    unfold CellM.Ivl.isEmpty F64.gt
    cases hlt : F64.lt a a
    · rfl
    · have := (lt_iff_key (x := a) (y := a) ha ha).1 hlt; omega
  unfold Ivl.addPoint
  simp only [he, Bool.false_eq_true, if_false]
  by_cases h1 : F64.lt b a = true
  · simp only [h1, if_true]
    have := (lt_iff_key (x := b) (y := a) hb ha).1 h1
    exact ⟨(le_iff_key (x := b) (y := a) hb ha).2 (by omega), haa, hbb,
      (le_iff_key (x := b) (y := a) hb ha).2 (by omega)⟩
  · simp only [h1, if_false]
    have n1 : ¬ F64Carrier.key b < F64Carrier.key a := fun hc => h1 ((lt_iff_key (x := b) (y := a) hb ha).2 hc)
    by_cases h2 : F64.gt b a = true
    · simp only [h2, if_true]
      exact ⟨haa, (le_iff_key (x := a) (y := b) ha hb).2 (by omega),
        (le_iff_key (x := a) (y := b) ha hb).2 (by omega), hbb⟩
    · simp only [h2, if_false]
      have n2 : ¬ F64Carrier.key a < F64Carrier.key b := fun hc => h2 (by
        unfold F64.gt; exact (lt_iff_key (x := a) (y := b) ha hb).2 hc)
      exact ⟨haa, haa, (le_iff_key (x := a) (y := b) ha hb).2 (by omega),
        (le_iff_key (x := b) (y := a) hb ha).2 (by omega)⟩

/-- (E1) the bound `rectFromPoints a b` the builder starts from contains both endpoints, in both
    coordinates (for non-NaN, in particular for finite, coordinates) -/
theorem rectFromPoints_contains (a b : R2) (ha1 : a.1.isNaN = false) (ha2 : a.2.isNaN = false)
    (hb1 : b.1.isNaN = false) (hb2 : b.2.isNaN = false) :
    (F64.le (rectFromPoints a b).1.1 a.1 = true ∧ F64.le a.1 (rectFromPoints a b).1.2 = true ∧
     F64.le (rectFromPoints a b).1.1 b.1 = true ∧ F64.le b.1 (rectFromPoints a b).1.2 = true) ∧
    (F64.le (rectFromPoints a b).2.1 a.2 = true ∧ F64.le a.2 (rectFromPoints a b).2.2 = true ∧
     F64.le (rectFromPoints a b).2.1 b.2 = true ∧ F64.le b.2 (rectFromPoints a b).2.2 = true) :=
  ⟨addPoint_self_contains a.1 b.1 ha1 hb1, addPoint_self_contains a.2 b.2 ha2 hb2⟩

/-- (E1), finite form -/
theorem rectFromPoints_contains_fin (a b : R2) (ha1 : a.1.isFinite = true) (ha2 : a.2.isFinite = true)
    (hb1 : b.1.isFinite = true) (hb2 : b.2.isFinite = true) :
    (F64.le (rectFromPoints a b).1.1 a.1 = true ∧ F64.le a.1 (rectFromPoints a b).1.2 = true ∧
     F64.le (rectFromPoints a b).1.1 b.1 = true ∧ F64.le b.1 (rectFromPoints a b).1.2 = true) ∧
    (F64.le (rectFromPoints a b).2.1 a.2 = true ∧ F64.le a.2 (rectFromPoints a b).2.2 = true ∧
     F64.le (rectFromPoints a b).2.1 b.2 = true ∧ F64.le b.2 (rectFromPoints a b).2.2 = true) := by
  have nn : ∀ x : F64, x.isFinite = true → x.isNaN = false := by
    intro x hx; unfold F64.isFinite at hx; unfold F64.isNaN; simp at hx; simp [hx]
  exact rectFromPoints_contains a b (nn _ ha1) (nn _ ha2) (nn _ hb1) (nn _ hb2)

/-! ### (E2) clipping only shrinks -/

/-- `ClampPoint` of a non-NaN value into a non-empty non-NaN interval lies in the interval, and is one of
    the two ends or the value itself -/
theorem clampPoint_mem (i : CellM.Ivl) (p : F64) (h1 : i.1.isNaN = false) (h2 : i.2.isNaN = false)
    (hp : p.isNaN = false) (hne : F64.le i.1 i.2 = true) :
    F64.le i.1 (Ivl.clampPoint i p) = true ∧ F64.le (Ivl.clampPoint i p) i.2 = true ∧
    (Ivl.clampPoint i p).isNaN = false ∧
    (Ivl.clampPoint i p = i.1 ∨ Ivl.clampPoint i p = i.2 ∨ Ivl.clampPoint i p = p) := by
  unfold Ivl.clampPoint
  obtain ⟨hmin, kmin⟩ := fmin_spec (x := i.2) (y := p) h2 hp
  have nmin : (F64.fmin i.2 p).isNaN = false := by rcases hmin with h | h <;> rw [h] <;> assumption
  obtain ⟨hmax, kmax⟩ := fmax_spec (x := i.1) (y := F64.fmin i.2 p) h1 nmin
  have nmax : (F64.fmax i.1 (F64.fmin i.2 p)).isNaN = false := by
    rcases hmax with h | h <;> rw [h] <;> assumption
  have hk := (le_iff_key (x := i.1) (y := i.2) h1 h2).1 hne
  refine ⟨(le_iff_key (x := i.1) h1 nmax).2 ?_, (le_iff_key (y := i.2) nmax h2).2 ?_, nmax, ?_⟩
  · rw [kmax]; exact le_max_left _ _
  · rw [kmax, kmin]; exact max_le hk (min_le_left _ _)
  · rcases hmax with h | h
    · exact Or.inl h
    · rw [h]; rcases hmin with h' | h'
      · exact Or.inr (Or.inl h')
      · exact Or.inr (Or.inr h')

/-- the two intervals of `updateBound` -/
theorem updateBound_bound (e : ClippedEdge) (uEnd : Nat) (u : F64) (vEnd : Nat) (v : F64) :
    (updateBound e uEnd u vEnd v).bound =
      ((if uEnd == 0 then (u, e.bound.1.2) else (e.bound.1.1, u)),
       (if vEnd == 0 then (v, e.bound.2.2) else (e.bound.2.1, v))) := rfl

/-- (E2, u) exact shape of `clipUBound`: either the edge is returned unchanged, or the guard comparison is
    false and the result is `updateBound` of the `uEnd` end of the u-interval (which becomes `u`) and of
    the end of the v-interval selected by `positiveSlope` (which becomes the interpolated value clamped into
    the old v-interval). -/
theorem clipUBound_shape (e : ClippedEdge) (uEnd : Nat) (u : F64) :
    clipUBound e uEnd u = e ∨
    ((if uEnd == 0 then F64.ge e.bound.1.1 u else F64.le e.bound.1.2 u) = false ∧
      clipUBound e uEnd u =
        updateBound e uEnd u (if (uEnd == 1) == positiveSlope e.fe then 1 else 0)
          (Ivl.clampPoint e.bound.2 (interpolateFloat64 u e.fe.a.1 e.fe.b.1 e.fe.a.2 e.fe.b.2))) := by
  unfold clipUBound
  by_cases h : (if uEnd == 0 then F64.ge e.bound.1.1 u else F64.le e.bound.1.2 u) = true
  · left; rw [if_pos h]
  · right; rw [if_neg h]; exact ⟨by simpa using h, rfl⟩

/-- (E2, v) exact shape of `clipVBound` -/
theorem clipVBound_shape (e : ClippedEdge) (vEnd : Nat) (v : F64) :
    clipVBound e vEnd v = e ∨
    ((if vEnd == 0 then F64.ge e.bound.2.1 v else F64.le e.bound.2.2 v) = false ∧
      clipVBound e vEnd v =
        updateBound e (if (vEnd == 1) == positiveSlope e.fe then 1 else 0)
          (Ivl.clampPoint e.bound.1 (interpolateFloat64 v e.fe.a.2 e.fe.b.2 e.fe.a.1 e.fe.b.1)) vEnd v) := by
  unfold clipVBound
  by_cases h : (if vEnd == 0 then F64.ge e.bound.2.1 v else F64.le e.bound.2.2 v) = true
  · left; rw [if_pos h]
  · right; rw [if_neg h]; exact ⟨by simpa using h, rfl⟩

/-- the four ends of `r` lie inside `b` (interval-wise `b.lo ≤ r.lo`, `r.hi ≤ b.hi`) -/
def RectWithin (r b : CellM.Rect2) : Prop :=
  F64.le b.1.1 r.1.1 = true ∧ F64.le r.1.2 b.1.2 = true ∧ F64.le b.2.1 r.2.1 = true ∧ F64.le r.2.2 b.2.2 = true

/-- replacing one end of a non-NaN interval by a value on the inner side of that end -/
theorem ivl_replace_within (lo hi x : F64) (hlo : lo.isNaN = false) (hhi : hi.isNaN = false)
    (k : Nat) (h : if k == 0 then F64.le lo x = true else F64.le x hi = true) :
    F64.le lo (if k == 0 then (x, hi) else (lo, x)).1 = true ∧
    F64.le (if k == 0 then (x, hi) else (lo, x)).2 hi = true := by
  by_cases hk : (k == 0) = true
  · simp only [hk, if_true] at h ⊢; exact ⟨h, le_refl_nn hhi⟩
  · simp only [hk, if_false] at h ⊢; exact ⟨le_refl_nn hlo, h⟩

/-- (E2, u) clipping only shrinks: for a non-NaN bound with non-empty v-interval, a non-NaN clip value and a
    non-NaN interpolated value, every end of the new bound lies inside the old bound -/
theorem clipUBound_within (e : ClippedEdge) (uEnd : Nat) (u : F64)
    (h11 : e.bound.1.1.isNaN = false) (h12 : e.bound.1.2.isNaN = false)
    (h21 : e.bound.2.1.isNaN = false) (h22 : e.bound.2.2.isNaN = false) (hu : u.isNaN = false)
    (hv : (interpolateFloat64 u e.fe.a.1 e.fe.b.1 e.fe.a.2 e.fe.b.2).isNaN = false)
    (hne : F64.le e.bound.2.1 e.bound.2.2 = true) :
    RectWithin (clipUBound e uEnd u).bound e.bound := by
  rcases clipUBound_shape e uEnd u with h | ⟨hg, h⟩
  · rw [h]; exact ⟨le_refl_nn h11, le_refl_nn h12, le_refl_nn h21, le_refl_nn h22⟩
  · rw [h, updateBound_bound]
    obtain ⟨c1, c2, _, _⟩ := clampPoint_mem e.bound.2 _ h21 h22 hv hne
    have a := ivl_replace_within e.bound.1.1 e.bound.1.2 u h11 h12 uEnd (by
      by_cases hk : (uEnd == 0) = true
      · simp only [hk, if_true] at hg ⊢; exact le_of_ge_false h11 hu hg
      · simp only [hk, if_false] at hg ⊢; exact le_of_le_false h12 hu hg)
    have b := ivl_replace_within e.bound.2.1 e.bound.2.2 _ h21 h22
      (if (uEnd == 1) == positiveSlope e.fe then 1 else 0) (by
      by_cases hk : ((if (uEnd == 1) == positiveSlope e.fe then 1 else 0) == 0) = true
      · simp only [hk, if_true]; exact c1
      · simp only [hk, if_false]; exact c2)
    exact ⟨a.1, a.2, b.1, b.2⟩

/-- (E2, v) clipping only shrinks, `clipVBound` -/
theorem clipVBound_within (e : ClippedEdge) (vEnd : Nat) (v : F64)
    (h11 : e.bound.1.1.isNaN = false) (h12 : e.bound.1.2.isNaN = false)
    (h21 : e.bound.2.1.isNaN = false) (h22 : e.bound.2.2.isNaN = false) (hv : v.isNaN = false)
    (hu : (interpolateFloat64 v e.fe.a.2 e.fe.b.2 e.fe.a.1 e.fe.b.1).isNaN = false)
    (hne : F64.le e.bound.1.1 e.bound.1.2 = true) :
    RectWithin (clipVBound e vEnd v).bound e.bound := by
  rcases clipVBound_shape e vEnd v with h | ⟨hg, h⟩
  · rw [h]; exact ⟨le_refl_nn h11, le_refl_nn h12, le_refl_nn h21, le_refl_nn h22⟩
  · rw [h, updateBound_bound]
    obtain ⟨c1, c2, _, _⟩ := clampPoint_mem e.bound.1 _ h11 h12 hu hne
    have b := ivl_replace_within e.bound.2.1 e.bound.2.2 v h21 h22 vEnd (by
      by_cases hk : (vEnd == 0) = true
      · simp only [hk, if_true] at hg ⊢; exact le_of_ge_false h21 hv hg
      · simp only [hk, if_false] at hg ⊢; exact le_of_le_false h22 hv hg)
    have a := ivl_replace_within e.bound.1.1 e.bound.1.2 _ h11 h12
      (if (vEnd == 1) == positiveSlope e.fe then 1 else 0) (by
      by_cases hk : ((if (vEnd == 1) == positiveSlope e.fe then 1 else 0) == 0) = true
      · simp only [hk, if_true]; exact c1
      · simp only [hk, if_false]; exact c2)
    exact ⟨a.1, a.2, b.1, b.2⟩

end S2Proofs.C06BuildH
