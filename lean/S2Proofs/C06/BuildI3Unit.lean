/-
  S2Proofs.C06.BuildI3Unit — the hypothesis record `TrackSound` of I3 from its purely GEOMETRIC clauses (`TrackGeom`:
  `local_`, `jump`, `interior`) and DECIDABLE conditions on the input (`ShapesUnit`, `CellPtsOK`): the float clauses
  (`init_exact`, `crosser_exact`) and the parity cocycle (`parity_step`) are theorems on unit points
  (`BuildI3Hyp`).
-/
import S2Proofs.C06.BuildI3Hyp
open S2 S2.CellID S2.Hilbert S2.PaddedCellM S2.IndexBuild S2Proofs.C12H S2Proofs.C06PC
namespace S2Proofs.C06BuildH

/-- the purely GEOMETRIC hypotheses of I3 (exact model, no floats) -/
structure TrackGeom (shapes : Array Shape) (Meets : FaceEdge → CellID → Prop) : Prop where
  /-- locality: an edge that crosses a segment of index cell `c` has a face edge on the face of `c` that meets `c` -/
  local_ : ∀ a b c, IsEdgeCell shapes c → CellSeg a b c → ∀ sid, sid < shapes.size → (shapes[sid]!).dim = 2 →
    ∀ eid, eid < (shapes[sid]!).edges.size →
      Contain.edgeOrVertexCrossing Contain.exactGeo a b ((shapes[sid]!).edges[eid]!).1 ((shapes[sid]!).edges[eid]!).2 = true →
      ∃ f, f < 6 ∧ lo (fromFace f) ≤ lo c ∧ hi c ≤ hi (fromFace f) ∧
        ∃ fe ∈ faceEdgesOf (allFaceEdges shapes) f, fe.shapeID = sid ∧ fe.edgeID = eid ∧ Meets fe c
  /-- `moveTo(EntryVertex)`: jumping over a range of leaf cells that no edge meets does not change containment -/
  jump : ∀ f N c, FocusAt (IsEdgeCell shapes) f N → IsEdgeCell shapes c → isValid c = true → N.toNat ≤ lo c →
    rangeMin c ≠ N → ClearLeaves shapes Meets N.toNat (lo c) → Conn shapes f (entryVertex (fromCellID c))
  /-- interior-only cells: the centre of an index cell at the end of a range of leaf cells that no edge meets is
      contained in the same shapes as the focus -/
  interior : ∀ f N c, FocusAt (IsEdgeCell shapes) f N → IsIndexCell shapes c → isValid c = true → N.toNat ≤ lo c →
    ClearLeaves shapes Meets N.toNat (hi c + 2) → Conn shapes f (center (fromCellID c))

/-- a point usable as an endpoint of a tracker segment / as a reference point: unit, no negative zero, its reference
    direction `s2Ortho` is unit-ish and not `==` to the point (all decidable) -/
def PtOK (p : V3) : Prop :=
  S2Proofs.C03.UnitPt p ∧ S2Proofs.C02Err.Unitish (Contain.s2Ortho p) ∧ V3.feq p (Contain.s2Ortho p) = false

instance (p : V3) : Decidable (PtOK p) := by unfold PtOK; infer_instance

/-- the 2-dimensional shapes: edges are closed chains, all vertices unit points, reference point `PtOK` -/
structure ShapesUnit (shapes : Array Shape) : Prop where
  chains : ∀ sid, sid < shapes.size → (shapes[sid]!).dim = 2 →
    ∃ chains : List (List V3), (shapes[sid]!).edges.toList = chains.flatMap Contain.loopEdges
  edges : ∀ sid, sid < shapes.size → (shapes[sid]!).dim = 2 → ∀ e ∈ (shapes[sid]!).edges.toList,
    S2Proofs.C03.UnitPt e.1 ∧ S2Proofs.C03.UnitPt e.2
  ref : ∀ sid, sid < shapes.size → (shapes[sid]!).dim = 2 → PtOK (shapes[sid]!).refPoint

/-- the tracker origin and the entry vertex / centre / exit vertex of every index cell WITH EDGES are `PtOK`
    (finitely many decidable conditions for a concrete input) -/
def CellPtsOK (shapes : Array Shape) : Prop :=
  PtOK trackerOrigin ∧ ∀ c, IsEdgeCell shapes c →
    PtOK (entryVertex (fromCellID c)) ∧ PtOK (center (fromCellID c)) ∧ PtOK (exitVertex (fromCellID c))

/-! ### helpers -/

theorem PtOK.fin {p : V3} (h : PtOK p) : S2Proofs.F64Order.Fin3 p := h.1.1.1

theorem PtOK.finOrtho {p : V3} (h : PtOK p) : S2Proofs.F64Order.Fin3 (Contain.s2Ortho p) := h.2.1.1

/-- two `PtOK` points are not `==`, or their reference directions are `==` (they are the same vector) -/
theorem PtOK.pair {x y : V3} (hx : PtOK x) (hy : PtOK y) :
    V3.feq x y = false ∨ V3.feq (Contain.s2Ortho x) (Contain.s2Ortho y) = true := by
  cases hq : V3.feq x y with
  | false => exact Or.inl rfl
  | true =>
    right
    have e : x = y := (S2Proofs.C03.unitPt_dom.feq_iff x y hx.1 hy.1).mp hq
    subst e
    exact (S2Proofs.F64Order.v3feq_iff hx.finOrtho hx.finOrtho).mpr rfl

/-- the first components of the closed chain of `vs` are `vs` -/
theorem loopEdges_map_fst (vs : List V3) : (Contain.loopEdges vs).map Prod.fst = vs := by
  cases vs with
  | nil => rfl
  | cons v rest =>
    show ((v :: rest).zip (rest ++ [v])).map Prod.fst = v :: rest
    apply List.map_fst_zip
    simp

/-- every vertex of a chain is the first component of an edge of the chain -/
theorem mem_loopEdges_of_mem {vs : List V3} {v : V3} (hv : v ∈ vs) : ∃ e ∈ Contain.loopEdges vs, e.1 = v := by
  rw [← loopEdges_map_fst vs] at hv
  obtain ⟨e, he, h⟩ := List.mem_map.mp hv
  exact ⟨e, he, h⟩

/-- an `IsShapeEdge` is a member of the edge list of a 2-dimensional shape -/
theorem IsShapeEdge.mem {shapes : Array Shape} {e : V3 × V3} (h : IsShapeEdge shapes e) :
    ∃ sid, sid < shapes.size ∧ (shapes[sid]!).dim = 2 ∧ e ∈ (shapes[sid]!).edges.toList := by
  obtain ⟨sid, hsid, hdim, eid, heid, he⟩ := h
  refine ⟨sid, hsid, hdim, ?_⟩
  rw [he, getElem!_pos _ eid heid]
  exact Array.mem_toList_iff.mpr (Array.getElem_mem heid)

/-- the endpoints of a segment of an index cell with edges are `PtOK` -/
theorem CellSeg.ptOK {shapes : Array Shape} (hc : CellPtsOK shapes) {a b : V3} {c : CellID}
    (hK : IsEdgeCell shapes c) (hseg : CellSeg a b c) : PtOK a ∧ PtOK b := by
  obtain ⟨h1, h2, h3⟩ := hc.2 c hK
  cases hseg with
  | entry _ _ => exact ⟨h1, h2⟩
  | exit _ _ => exact ⟨h2, h3⟩

/-- the class of the parity cocycle from `PtOK` points and unit chain vertices -/
theorem cocycleDomAny_of_ptOK {ref a b : V3} (hr : PtOK ref) (ha : PtOK a) (hb : PtOK b) {chains : List (List V3)}
    (hv : ∀ vs ∈ chains, ∀ v ∈ vs, S2Proofs.C03.UnitPt v) :
    S2Proofs.C04.CocycleDomAny ref a b chains :=
  ⟨hr.fin, ha.fin, hb.fin, hr.pair ha, ha.pair hb, hr.pair hb, ⟨hr.finOrtho, hr.2.2⟩, ⟨ha.finOrtho, ha.2.2⟩,
    ⟨hb.finOrtho, hb.2.2⟩, fun vs hvs v hvv => (hv vs hvs v hvv).1.1⟩

/-! ### the theorem -/

/-- the float and cocycle clauses of `TrackSound` are theorems on unit points -/
theorem trackSound_of_geom (shapes : Array Shape) {Meets : FaceEdge → CellID → Prop} (hg : TrackGeom shapes Meets)
    (hsu : ShapesUnit shapes) (hc : CellPtsOK shapes) : TrackSound shapes Meets where
  init_exact := by
    intro sid hsid hdim
    have hr := hsu.ref sid hsid hdim
    exact init_exact_of_unitPt (shapes[sid]!) trackerOrigin hr.1 hc.1.1 hr.2.1 hc.1.2.1 (hsu.edges sid hsid hdim)
  crosser_exact := by
    intro a b c hK hseg l hl
    obtain ⟨ha, hb⟩ := hseg.ptOK hc hK
    apply crosser_exact_of_unitPt a b ha.1 hb.1 ha.2.1 hb.2.1 l
    intro e he
    obtain ⟨sid, hsid, hdim, hm⟩ := (hl e he).mem
    exact hsu.edges sid hsid hdim e hm
  local_ := hg.local_
  parity_step := by
    intro a b c hK hseg sid hsid hdim
    obtain ⟨ha, hb⟩ := hseg.ptOK hc hK
    obtain ⟨chains, hch⟩ := hsu.chains sid hsid hdim
    have hr := hsu.ref sid hsid hdim
    have hv : ∀ vs ∈ chains, ∀ v ∈ vs, S2Proofs.C03.UnitPt v := by
      intro vs hvs v hvv
      obtain ⟨e, he, rfl⟩ := mem_loopEdges_of_mem hvv
      have hm : e ∈ (shapes[sid]!).edges.toList := by
        rw [hch]; exact List.mem_flatMap.mpr ⟨vs, hvs, he⟩
      exact (hsu.edges sid hsid hdim e hm).1
    exact parity_step_of_cocycleDom (S2Proofs.C06Build.toShapeM (shapes[sid]!)) hdim (chains := chains) hch
      (cocycleDomAny_of_ptOK (ref := (shapes[sid]!).refPoint) hr ha hb hv)
  jump := hg.jump
  interior := hg.interior

end S2Proofs.C06BuildH
