/-
  S2Proofs.C06.BuildDefs — shared definitions of the work package `c06i3` (full I1, I3 of the index build):
  the strict (shape id, edge id) order of face edges, the extended face-edge fact `FEQ2`, the tracker
  well-formedness `TrOK`, and `makeIndexCell` written with its two intermediate trackers named.
-/
import S2Proofs.C06.BuildTop
import S2Proofs.C06.BuildMerge
open S2 S2.CellID S2.Hilbert S2.PaddedCellM S2.IndexBuild S2Proofs.C12H S2Proofs.C06PC
namespace S2Proofs.C06BuildH

/-- strict lexicographic order of face edges by (shape id, edge id) -/
def FLt (x y : FaceEdge) : Prop :=
  x.shapeID < y.shapeID ∨ (x.shapeID = y.shapeID ∧ x.edgeID < y.edgeID)

/-- the face edge points to an existing edge of an existing shape (`FEQ`) and carries that edge's
    endpoints and the shape's "has interior" flag -/
def FEQ2 (shapes : Array Shape) (fe : FaceEdge) : Prop :=
  FEQ shapes fe ∧
  fe.v0 = ((shapes[fe.shapeID]!).edges[fe.edgeID]!).1 ∧
  fe.v1 = ((shapes[fe.shapeID]!).edges[fe.edgeID]!).2 ∧
  fe.hasInterior = ((shapes[fe.shapeID]!).dim == 2)

/-- the tracker's id list is strictly increasing with all ids below the sentinel `n` -/
def TrOK (n : Nat) (t : Tracker) : Prop :=
  List.Pairwise (fun x y : Nat => x < y) t.shapeIDs ∧ ∀ c ∈ t.shapeIDs, c < n

/-- the tracker with which `makeIndexCell` starts drawing: after the optional `moveTo(EntryVertex)` -/
def t0Of (p : PaddedCell) (t : Tracker) : Tracker :=
  if !t.atCellID p.id then t.moveTo (entryVertex p) else t

/-- the tracker after `drawTo(Center)` + `testAllEdges` (the one whose id list fills the cell) -/
def t1Of (p : PaddedCell) (es : List ClippedEdge) (t : Tracker) : Tracker :=
  if t.isActive && !es.isEmpty then testAllEdges es ((t0Of p t).drawTo (center p)) else t

/-- the tracker `makeIndexCell` leaves behind: after `drawTo(ExitVertex)` + `testAllEdges` + `setNextCellID` -/
def t2Of (p : PaddedCell) (es : List ClippedEdge) (t : Tracker) : Tracker :=
  if (t1Of p es t).isActive && !es.isEmpty then
    (testAllEdges es ((t1Of p es t).drawTo (exitVertex p))).setNextCellID (next p.id)
  else t1Of p es t

/-- `makeIndexCell` with its intermediate trackers named -/
theorem makeIndexCell_eq (n : Nat) (p : PaddedCell) (es : List ClippedEdge) (t : Tracker) :
    makeIndexCell n p es t =
      if es.isEmpty && t.shapeIDs.isEmpty then some ([], t)
      else if countExceeds p.level 0 es then none
      else some ([⟨p.id, fillShapes n (countShapes es (t1Of p es t).shapeIDs) es (t1Of p es t).shapeIDs⟩],
        t2Of p es t) := by
  unfold makeIndexCell t2Of t1Of t0Of
  rfl

/-- where the tracker's focus can be, together with the stored `nextCellID`: at the origin before the first cell
    with edges, afterwards at the exit vertex of the last cell with edges (a cell satisfying `K`) -/
inductive FocusAt (K : CellID → Prop) : V3 → CellID → Prop
  | origin : FocusAt K trackerOrigin (childBeginAtLevel (fromFace 0) maxLevel)
  | exit (q : CellID) : isValid q = true → K q → FocusAt K (exitVertex (fromCellID q)) (rangeMin (next q))

/-- the two segments the tracker draws in a cell: entry vertex → centre, centre → exit vertex -/
inductive CellSeg : V3 → V3 → CellID → Prop
  | entry (c : CellID) : isValid c = true → CellSeg (entryVertex (fromCellID c)) (center (fromCellID c)) c
  | exit (c : CellID) : isValid c = true → CellSeg (center (fromCellID c)) (exitVertex (fromCellID c)) c

end S2Proofs.C06BuildH
