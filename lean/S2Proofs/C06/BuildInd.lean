/-
  S2Proofs.C06.BuildInd — ONE induction principle for the whole index build (`buildRes`): a tracker
  invariant `TP t m` ("tracker `t` is fine when the build is about to process leaf position `m`"), an
  edge-list invariant `EI c es` ("`es` is a correct edge list for cell `c`") and a per-cell conclusion `CP`
  are threaded through `updateEdges` / `subdivide` / `visitChild` / `skipCellRange` / `updateFaceEdges` /
  `faceStep` in Hilbert order.  What has to be supplied (`BuildStep`) is local:
    mk    one `makeIndexCell` call that returns (a cell or nothing) keeps `TP` and produces `CP`-cells
    ch    the child lists of `subdivide` satisfy `EI` for the children
    skip  `TP` survives a range of leaf positions all of whose cells have the empty list as correct edge list
  Used twice: for I1 in full (tracker list strictly increasing, edge lists sorted — `S2Proofs.C06.BuildSorted`) and
  for I3 (`S2Proofs.C06.BuildI3`).
-/
import S2Proofs.C06.BuildDefs
import S2Proofs.C06.BuildI1
open S2 S2.CellID S2.Hilbert S2.PaddedCellM S2.IndexBuild S2Proofs.C12H S2Proofs.C06PC
namespace S2Proofs.C06BuildH

/-- the local obligations of the build induction -/
structure BuildStep (n : Nat) (F : IndexCell → Prop) (TP : Tracker → Nat → Prop)
    (EI : CellID → List ClippedEdge → Prop) (CP : IndexCell → Prop) : Prop where
  lvl : ∀ c es, EI c es → ∀ ce ∈ es, ce.fe.maxLevel ≤ 30
  make : ∀ (c : CellID) (k : Nat) (es : List ClippedEdge) (t : Tracker) (cells : List IndexCell) (t' : Tracker),
    IsCell c k → EI c es → TP t (lo c) → makeIndexCell n (fromCellID c) es t = some (cells, t') →
    (∀ x ∈ cells, F x) → TP t' (hi c + 2) ∧ ∀ x ∈ cells, CP x
  ch : ∀ (c : CellID) (k : Nat) (pre : Bool) (es : List ClippedEdge) (pos : Nat), IsCell c k → k < 30 → pos < 4 →
    EI c es → EI (child c pos) (childEdges (es.map (edgeChildren (middle (fromCellID c) cellPadding pre)))
      (childIJ (fromCellID c) pos).1 (childIJ (fromCellID c) pos).2)
  skip : ∀ (t : Tracker) (b e : Nat), b ≤ e → TP t b →
    (∀ c, isValid c = true → b ≤ lo c → hi c < e → EI c []) → TP t e

variable {n : Nat} {F : IndexCell → Prop} {TP : Tracker → Nat → Prop} {EI : CellID → List ClippedEdge → Prop} {CP : IndexCell → Prop}

theorem makeIndexCell_nil_nil (n : Nat) (p : PaddedCell) (t : Tracker) (h : t.shapeIDs = []) :
    makeIndexCell n p [] t = some ([], t) := by
  rw [makeIndexCell_eq]
  simp [h]

theorem visitChild_cells_prefix (recur : PaddedCell → List ClippedEdge → Tracker → Res) (p : PaddedCell)
    (quads : List Quad) (r : Res) (pos : Nat) : ∀ x ∈ r.cells, x ∈ (visitChild recur p quads r pos).cells := by
  intro x hx
  unfold visitChild
  simp only []
  split
  · exact List.mem_append_left _ hx
  · exact hx

theorem visitChild_ind (S : BuildStep n F TP EI CP)
    {recur : PaddedCell → List ClippedEdge → Tracker → Res} {c : CellID} {k : Nat} (hc : IsCell c k) (hk : k < 30)
    {pos : Nat} (hpos : pos < 4) (quads : List Quad)
    (hE : EI (child c pos) (childEdges quads (childIJ (fromCellID c) pos).1 (childIJ (fromCellID c) pos).2))
    (hrec : ∀ t, TP t (lo (child c pos)) →
      (∀ x ∈ (recur (fromCellID (child c pos))
        (childEdges quads (childIJ (fromCellID c) pos).1 (childIJ (fromCellID c) pos).2) t).cells, F x) →
      TP (recur (fromCellID (child c pos))
        (childEdges quads (childIJ (fromCellID c) pos).1 (childIJ (fromCellID c) pos).2) t).t (hi (child c pos) + 2) ∧
      ∀ x ∈ (recur (fromCellID (child c pos))
        (childEdges quads (childIJ (fromCellID c) pos).1 (childIJ (fromCellID c) pos).2) t).cells, CP x)
    {r : Res} (hr : TP r.t (lo (child c pos))) (hcells : ∀ x ∈ r.cells, CP x)
    (hF : ∀ x ∈ (visitChild recur (fromCellID c) quads r pos).cells, F x) :
    TP (visitChild recur (fromCellID c) quads r pos).t (hi (child c pos) + 2) ∧
    ∀ x ∈ (visitChild recur (fromCellID c) quads r pos).cells, CP x := by
  have e : fromParentIJ (fromCellID c) (childIJ (fromCellID c) pos).1 (childIJ (fromCellID c) pos).2 =
      fromCellID (child c pos) := childAtPos_fromCellID hc hk hpos
  unfold visitChild at hF ⊢
  simp only [] at hF ⊢
  split
  · rename_i hcond
    rw [if_pos hcond] at hF
    rw [e] at hF ⊢
    obtain ⟨h1, h2⟩ := hrec r.t hr (fun x hx => hF x (List.mem_append_right _ hx))
    refine ⟨h1, ?_⟩
    intro x hx
    rcases List.mem_append.mp hx with hx | hx
    · exact hcells x hx
    · exact h2 x hx
  · rename_i hcond
    have hes : childEdges quads (childIJ (fromCellID c) pos).1 (childIJ (fromCellID c) pos).2 = [] := by
      cases hl : childEdges quads (childIJ (fromCellID c) pos).1 (childIJ (fromCellID c) pos).2 with
      | nil => rfl
      | cons a l => rw [hl] at hcond; simp at hcond
    have hids : r.t.shapeIDs = [] := by
      cases hl : r.t.shapeIDs with
      | nil => rfl
      | cons a l => rw [hl] at hcond; simp at hcond
    rw [hes] at hE
    have hmk := makeIndexCell_nil_nil n (fromCellID (child c pos)) r.t hids
    have := S.make (child c pos) (k + 1) [] r.t [] r.t (hc.child_isCell hk hpos) hE hr hmk (by simp)
    exact ⟨this.1, hcells⟩

theorem subdivide_ind (S : BuildStep n F TP EI CP)
    {recur : PaddedCell → List ClippedEdge → Tracker → Res} {c : CellID} {k : Nat} (hc : IsCell c k) (hk : k < 30)
    (pre : Bool) (es : List ClippedEdge) (t : Tracker) (hE : EI c es) (hT : TP t (lo c))
    (hrec : ∀ pos, pos < 4 → ∀ t', TP t' (lo (child c pos)) →
      (∀ x ∈ (recur (fromCellID (child c pos))
        (childEdges (es.map (edgeChildren (middle (fromCellID c) cellPadding pre)))
          (childIJ (fromCellID c) pos).1 (childIJ (fromCellID c) pos).2) t').cells, F x) →
      TP (recur (fromCellID (child c pos))
        (childEdges (es.map (edgeChildren (middle (fromCellID c) cellPadding pre)))
          (childIJ (fromCellID c) pos).1 (childIJ (fromCellID c) pos).2) t').t (hi (child c pos) + 2) ∧
      ∀ x ∈ (recur (fromCellID (child c pos))
        (childEdges (es.map (edgeChildren (middle (fromCellID c) cellPadding pre)))
          (childIJ (fromCellID c) pos).1 (childIJ (fromCellID c) pos).2) t').cells, CP x)
    (hF : ∀ x ∈ (subdivide recur (fromCellID c) pre es t).cells, F x) :
    TP (subdivide recur (fromCellID c) pre es t).t (hi c + 2) ∧
    ∀ x ∈ (subdivide recur (fromCellID c) pre es t).cells, CP x := by
  obtain ⟨h0, h3, hstep⟩ := hc.child_ranges hk
  have e0 : lo (child c 0) = lo c := congrArg UInt64.toNat h0
  have e3 : hi (child c 3) = hi c := congrArg UInt64.toNat h3
  have s0 : hi (child c 0) + 2 = lo (child c 1) := hstep 0 (by omega)
  have s1 : hi (child c 1) + 2 = lo (child c 2) := hstep 1 (by omega)
  have s2 : hi (child c 2) + 2 = lo (child c 3) := hstep 2 (by omega)
  unfold subdivide at hF ⊢
  simp only [] at hF ⊢
  have hF3 := fun x hx => hF x (visitChild_cells_prefix _ _ _ _ 3 x hx)
  have hF2 := fun x hx => hF3 x (visitChild_cells_prefix _ _ _ _ 2 x hx)
  have hF1 := fun x hx => hF2 x (visitChild_cells_prefix _ _ _ _ 1 x hx)
  have g1 := visitChild_ind S hc hk (show 0 < 4 by omega) _ (S.ch c k pre es 0 hc hk (by omega) hE)
    (hrec 0 (by omega)) (r := ⟨[], t, true⟩) (by rw [e0]; exact hT) (by simp) hF1
  rw [s0] at g1
  have g2 := visitChild_ind S hc hk (show 1 < 4 by omega) _ (S.ch c k pre es 1 hc hk (by omega) hE)
    (hrec 1 (by omega)) g1.1 g1.2 hF2
  rw [s1] at g2
  have g3 := visitChild_ind S hc hk (show 2 < 4 by omega) _ (S.ch c k pre es 2 hc hk (by omega) hE)
    (hrec 2 (by omega)) g2.1 g2.2 hF3
  rw [s2] at g3
  have g4 := visitChild_ind S hc hk (show 3 < 4 by omega) _ (S.ch c k pre es 3 hc hk (by omega) hE)
    (hrec 3 (by omega)) g3.1 g3.2 hF
  rw [e3] at g4
  exact g4

/-- the induction over `updateEdges` -/
theorem updateEdges_ind (S : BuildStep n F TP EI CP) :
    ∀ (fuel : Nat) (c : CellID) (k : Nat) (pre : Bool) (es : List ClippedEdge) (t : Tracker),
      IsCell c k → 31 ≤ k + fuel → EI c es → TP t (lo c) →
      (∀ x ∈ (updateEdges n fuel (fromCellID c) pre es t).cells, F x) →
      TP (updateEdges n fuel (fromCellID c) pre es t).t (hi c + 2) ∧
      ∀ x ∈ (updateEdges n fuel (fromCellID c) pre es t).cells, CP x := by
  intro fuel
  induction fuel with
  | zero => intro c k pre es t hc hf; have := hc.k_le; omega
  | succ fuel ih =>
    intro c k pre es t hc hf hE hT hF
    unfold updateEdges at hF ⊢
    cases hmk : makeIndexCell n (fromCellID c) es t with
    | some r =>
      obtain ⟨cells, t'⟩ := r
      rw [hmk] at hF
      simp only [] at hF ⊢
      exact S.make c k es t cells t' hc hE hT hmk hF
    | none =>
      rw [hmk] at hF
      simp only [] at hF ⊢
      rcases makeIndexCell_cases n (fromCellID c) es t with ⟨_, hcnt⟩ | h | ⟨cs, t', h, _⟩
      · obtain ⟨e, he, hl⟩ := countExceeds_true _ es 0 (by decide) hcnt
        rw [fromCellID_level hc] at hl
        have hk : k < 30 := by have := S.lvl c es hE e he; omega
        apply subdivide_ind S hc hk pre es t hE hT _ hF
        intro pos hpos t' hT' hF'
        exact ih (child c pos) (k + 1) false _ t' (hc.child_isCell hk hpos) (by omega)
          (S.ch c k pre es pos hc hk hpos hE) hT' hF'
      · rw [h] at hmk; cases hmk
      · rw [h] at hmk; cases hmk

/-- on the empty edge list `updateEdges` (with fuel) leaves the tracker alone -/
theorem updateEdges_nil_t (n fuel : Nat) (p : PaddedCell) (pre : Bool) (t : Tracker) :
    (updateEdges n (fuel + 1) p pre [] t).t = t := by
  unfold updateEdges
  rw [makeIndexCell_eq]
  by_cases h : t.shapeIDs.isEmpty = true
  · simp [h]
  · simp [h, countExceeds, t2Of, t1Of]

/-- the fold of `skipCellRange` -/
def skipFold (n : Nat) (L : List CellID) (r : Res) : Res :=
  L.foldl (fun (r : Res) cell =>
    let r' := updateEdges n IndexBuild.fuel (fromCellID cell) (isFace cell) [] r.t
    ⟨r.cells ++ r'.cells, r'.t, r.ok && r'.ok⟩) r

theorem skipFold_prefix (n : Nat) : ∀ (L : List CellID) (r : Res), ∀ x ∈ r.cells, x ∈ (skipFold n L r).cells := by
  intro L
  induction L with
  | nil => intro r x hx; exact hx
  | cons c L ih =>
    intro r x hx
    unfold skipFold
    rw [List.foldl_cons]
    exact ih _ x (List.mem_append_left _ hx)

theorem foldCells_ind (S : BuildStep n F TP EI CP) (t : Tracker) (b e : Nat) (hT : TP t b)
    (hE : ∀ c, isValid c = true → b ≤ lo c → hi c < e → EI c []) :
    ∀ (L : List CellID) (r : Res), (∀ c ∈ L, isValid c = true ∧ b ≤ lo c ∧ hi c < e) → r.t = t →
      (∀ x ∈ r.cells, CP x) → (∀ x ∈ (skipFold n L r).cells, F x) →
      (skipFold n L r).t = t ∧ ∀ x ∈ (skipFold n L r).cells, CP x := by
  intro L
  induction L with
  | nil => intro r _ hr hc _; exact ⟨hr, hc⟩
  | cons c L ih =>
    intro r hL hr hc hF
    obtain ⟨hv, hb, he⟩ := hL c List.mem_cons_self
    obtain ⟨k, hk⟩ := (isValid_iff c).mp hv
    have vc := valid_facts hv
    unfold skipFold at hF ⊢
    rw [List.foldl_cons] at hF ⊢
    apply ih _ (fun c' hc' => hL c' (List.mem_cons_of_mem _ hc')) _ _ hF
    · simp only []
      rw [hr]
      exact updateEdges_nil_t n 30 _ _ t
    · simp only []
      intro x hx
      rcases List.mem_append.mp hx with hx | hx
      · exact hc x hx
      · rw [hr] at hx
        have hTc : TP t (lo c) := S.skip t b (lo c) hb hT
          (fun c' hv' hb' he' => hE c' hv' hb' (by omega))
        refine (updateEdges_ind S IndexBuild.fuel c k (isFace c) [] t hk (by unfold IndexBuild.fuel; omega)
          (hE c hv hb he) hTc ?_).2 x hx
        intro y hy
        apply hF y
        apply skipFold_prefix n L _ y
        simp only []
        rw [hr]
        exact List.mem_append_right _ hy

/-- `skipCellRange`: the tracker is untouched, `TP` moves to the end of the range, the interior-only cells are `CP` -/
theorem skipCellRange_ind (S : BuildStep n F TP EI CP) {b e : CellID} (hb : b.toNat % 2 = 1) (he : IsPos e)
    (hbe : b.toNat ≤ e.toNat) (t : Tracker) (hT : TP t b.toNat)
    (hE : ∀ c, isValid c = true → b.toNat ≤ lo c → hi c < e.toNat → EI c [])
    (hF : ∀ x ∈ (skipCellRange n b e t).cells, F x) :
    (skipCellRange n b e t).t = t ∧ TP t e.toNat ∧ ∀ x ∈ (skipCellRange n b e t).cells, CP x := by
  have hTe : TP t e.toNat := S.skip t _ _ hbe hT hE
  unfold skipCellRange at hF ⊢
  split
  · exact ⟨rfl, hTe, by simp⟩
  · rename_i hcond
    rw [if_neg hcond] at hF
    obtain ⟨hav, _, _, hcov, _⟩ := fromRange_spec hb he hbe
    have := foldCells_ind S t b.toNat e.toNat hT hE (CellUnion.fromRange b e) ⟨[], t, true⟩ (by
      intro c hc
      have hv := hav c hc
      have vc := valid_facts hv
      have h1 := (hcov (lo c) vc.1).mp ⟨c, hc, Nat.le_refl _, by omega⟩
      have h2 := (hcov (hi c) vc.2.1).mp ⟨c, hc, by omega, Nat.le_refl _⟩
      exact ⟨hv, h1.1, h2.2⟩) rfl (by simp) hF
    exact ⟨this.1, hTe, this.2⟩

/-- `updateFaceEdges` of face `f` -/
theorem updateFaceEdges_ind (S : BuildStep n F TP EI CP) (f : Nat) (hf : f < 6) (fes : List FaceEdge) (t : Tracker)
    (hT : TP t (lo (fromFace f)))
    (hroot : EI (rootCell f fes) (fes.map fun fe => (⟨fe, rectFromPoints fe.a fe.b⟩ : ClippedEdge)))
    (hoff : ∀ c, isValid c = true → lo (fromFace f) ≤ lo c → hi c ≤ hi (fromFace f) →
      (hi c < lo (rootCell f fes) ∨ hi (rootCell f fes) < lo c) → EI c [])
    (hnil : fes = [] → ∀ c, isValid c = true → lo (fromFace f) ≤ lo c → hi c ≤ hi (fromFace f) → EI c [])
    (hF : ∀ x ∈ (updateFaceEdges n f fes t).cells, F x) :
    TP (updateFaceEdges n f fes t).t (hi (fromFace f) + 2) ∧ ∀ x ∈ (updateFaceEdges n f fes t).cells, CP x := by
  obtain ⟨hi0, hj0, _⟩ := face_fromCellID f hf
  have hfs := S2Proofs.C01.fromFace_spec f hf
  have hcf : IsCell (fromFace f) 0 := fromFace_isCell f hf
  have vF := valid_facts hfs.2.1
  unfold updateFaceEdges at hF ⊢
  unfold rootCell faceBound at hroot hoff
  generalize (List.map (fun fe => ({ fe := fe, bound := rectFromPoints fe.a fe.b } : ClippedEdge)) fes) = ces
    at hroot hoff hF ⊢
  split
  · rename_i hcond
    have hfe : fes = [] := by
      cases hl : fes with
      | nil => rfl
      | cons a l => rw [hl] at hcond; simp at hcond
    refine ⟨?_, by simp⟩
    apply S.skip t _ _ (by omega) hT
    intro c hv h1 h2
    have vc := valid_facts hv
    exact hnil hfe c hv h1 (by omega)
  · rename_i hcond0
    rw [if_neg hcond0] at hF
    simp only [fromCellID_id] at hF ⊢
    generalize hS : (if fes.isEmpty = true then fromFace f else
      shrinkToFit (fromCellID (fromFace f)) cellPadding _) = S' at hroot hoff hF ⊢
    have hScases : S' = fromFace f ∨ (isValid S' = true ∧ face S' = f) := by
      rw [← hS]
      split
      · left; rfl
      · have key := fun rect => shrinkToFit_cases (fromCellID (fromFace f)) cellPadding rect hi0 hj0
          (by rw [fromCellID_id, hfs.2.2.2.1]; exact hf)
        simp only [fromCellID_id, hfs.2.2.2.1] at key
        exact key _
    split
    · rename_i hne
      rw [if_pos hne] at hF
      simp only [] at hF
      rcases hScases with h | ⟨hv, hface⟩
      · simp [h] at hne
      · obtain ⟨k, hk⟩ := (isValid_iff S').mp hv
        have vS := valid_facts hv
        have hin := face_contains hv
        rw [hface] at hin
        have hFle := face_hi_le f hf
        have hn1 : (next (rangeMax S')).toNat = hi S' + 2 :=
          next_leaf_toNat _ vS.2.1 (by show hi S' + 2 < _; omega)
        have hn2 : (next (rangeMax (fromFace f))).toNat = hi (fromFace f) + 2 :=
          next_leaf_toNat _ vF.2.1 (by show hi (fromFace f) + 2 < _; omega)
        -- the range before the root cell
        have g1 := skipCellRange_ind S (b := rangeMin (fromFace f)) (e := rangeMin S')
          vF.1 ⟨vS.1, by show lo S' ≤ _; omega⟩ hin.1 t hT (by
            intro c hvc h1 h2
            have vc := valid_facts hvc
            exact hoff c hvc h1 (by show hi c ≤ hi (fromFace f); have : hi c < lo S' := h2; omega)
              (Or.inl h2))
            (fun x hx => hF x (List.mem_append_left _ (List.mem_append_left _ hx)))
        rw [g1.1] at hF ⊢
        have g2 := updateEdges_ind S IndexBuild.fuel S' k (isFace S') ces t hk
          (by unfold IndexBuild.fuel; omega) hroot g1.2.1
          (fun x hx => hF x (List.mem_append_left _ (List.mem_append_right _ hx)))
        have g3 := skipCellRange_ind S (b := next (rangeMax S')) (e := next (rangeMax (fromFace f)))
          (by rw [hn1]; omega) ⟨by rw [hn2]; omega, by rw [hn2]; omega⟩ (by rw [hn1, hn2]; omega)
          (updateEdges n IndexBuild.fuel (fromCellID S') (isFace S') ces t).t
          (by rw [hn1]; exact g2.1) (by
            intro c hvc h1 h2
            rw [hn1] at h1
            rw [hn2] at h2
            have vc := valid_facts hvc
            exact hoff c hvc (by show lo (fromFace f) ≤ lo c; omega) (by omega) (Or.inr (by omega)))
          (fun x hx => hF x (List.mem_append_right _ hx))
        refine ⟨?_, ?_⟩
        · show TP (skipCellRange n (next (rangeMax S')) (next (rangeMax (fromFace f)))
            (updateEdges n IndexBuild.fuel (fromCellID S') (isFace S') ces t).t).t _
          rw [g3.1]
          have := g3.2.1
          rw [hn2] at this
          exact this
        · intro x hx
          simp only [List.mem_append] at hx
          rcases hx with (hx | hx) | hx
          · exact g1.2.2 x hx
          · exact g2.2 x hx
          · exact g3.2.2 x hx
    · rename_i hne
      rw [if_neg hne] at hF
      have hSe : S' = fromFace f := by simpa using hne
      rw [hSe] at hroot
      exact updateEdges_ind S IndexBuild.fuel (fromFace f) 0 true ces t hcf
        (by unfold IndexBuild.fuel; omega) hroot hT hF

theorem faceStep_prefix (n : Nat) (all : List (Nat × FaceEdge)) (r : Res) (f : Nat) :
    ∀ x ∈ r.cells, x ∈ (faceStep n all r f).cells := by
  intro x hx
  unfold faceStep
  exact List.mem_append_left _ hx

/-- the induction over the whole build; `F` may be any property of ALL cells of the result (e.g. "is a cell of the
    built index"): it is handed down to the `makeIndexCell` call that produces the cell -/
theorem buildRes_ind (S : BuildStep n F TP EI CP) (all : List (Nat × FaceEdge)) (t0 : Tracker)
    (hT : TP t0 (lo (fromFace 0)))
    (hroot : ∀ f, f < 6 → EI (rootCell f (faceEdgesOf all f))
      ((faceEdgesOf all f).map fun fe => (⟨fe, rectFromPoints fe.a fe.b⟩ : ClippedEdge)))
    (hoff : ∀ f, f < 6 → ∀ c, isValid c = true → lo (fromFace f) ≤ lo c → hi c ≤ hi (fromFace f) →
      (hi c < lo (rootCell f (faceEdgesOf all f)) ∨ hi (rootCell f (faceEdgesOf all f)) < lo c) → EI c [])
    (hnil : ∀ f, f < 6 → faceEdgesOf all f = [] → ∀ c, isValid c = true → lo (fromFace f) ≤ lo c →
      hi c ≤ hi (fromFace f) → EI c [])
    (hF : ∀ x ∈ ((List.range 6).foldl (faceStep n all) ⟨[], t0, true⟩).cells, F x) :
    ∀ x ∈ ((List.range 6).foldl (faceStep n all) ⟨[], t0, true⟩).cells, CP x := by
  have o0 := face_order 0 (by omega)
  have o1 := face_order 1 (by omega)
  have o2 := face_order 2 (by omega)
  have o3 := face_order 3 (by omega)
  have o4 := face_order 4 (by omega)
  simp only [Nat.zero_add, Nat.reduceAdd] at o0 o1 o2 o3 o4
  have fs : ∀ (r : Res) (f : Nat), f < 6 → TP r.t (lo (fromFace f)) → (∀ x ∈ r.cells, CP x) →
      (∀ x ∈ (faceStep n all r f).cells, F x) →
      TP (faceStep n all r f).t (hi (fromFace f) + 2) ∧ ∀ x ∈ (faceStep n all r f).cells, CP x := by
    intro r f hf hT hc hF'
    unfold faceStep at hF' ⊢
    simp only [] at hF' ⊢
    have := updateFaceEdges_ind S f hf (faceEdgesOf all f) r.t hT (hroot f hf) (hoff f hf) (hnil f hf)
      (fun x hx => hF' x (List.mem_append_right _ hx))
    refine ⟨this.1, ?_⟩
    intro x hx
    rcases List.mem_append.mp hx with hx | hx
    · exact hc x hx
    · exact this.2 x hx
  have hr : List.range 6 = [0, 1, 2, 3, 4, 5] := by decide
  rw [hr] at hF ⊢
  simp only [List.foldl_cons, List.foldl_nil] at hF ⊢
  have hF5 := fun x hx => hF x (faceStep_prefix n all _ 5 x hx)
  have hF4 := fun x hx => hF5 x (faceStep_prefix n all _ 4 x hx)
  have hF3 := fun x hx => hF4 x (faceStep_prefix n all _ 3 x hx)
  have hF2 := fun x hx => hF3 x (faceStep_prefix n all _ 2 x hx)
  have hF1 := fun x hx => hF2 x (faceStep_prefix n all _ 1 x hx)
  have g1 := fs ⟨[], t0, true⟩ 0 (by omega) hT (by simp) hF1
  rw [o0] at g1
  have g2 := fs _ 1 (by omega) g1.1 g1.2 hF2
  rw [o1] at g2
  have g3 := fs _ 2 (by omega) g2.1 g2.2 hF3
  rw [o2] at g3
  have g4 := fs _ 3 (by omega) g3.1 g3.2 hF4
  rw [o3] at g4
  have g5 := fs _ 4 (by omega) g4.1 g4.2 hF5
  rw [o4] at g5
  have g6 := fs _ 5 (by omega) g5.1 g5.2 hF
  exact g6.2

end S2Proofs.C06BuildH
