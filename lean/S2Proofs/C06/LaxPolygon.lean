/-
  S2Proofs.C06.LaxPolygon — LaxPolygon accessors on `LaxPolygonFromPoints` states with ≥ 2 loops.
-/
import S2Proofs.C06.Simple
namespace S2Proofs.C06
open S2 S2.Shapes

section
variable (a b : Nat) (rest : List Nat)

local notation "NS" => (a :: b :: rest)
local notation "ST" => LaxPolygonS.ofLens (a :: b :: rest)

theorem lp_numLoops_ne : (ST).numLoops ≠ 1 := by
  simp [LaxPolygonS.ofLens]; omega

theorem lp_numLoops_gt : ¬ (ST).numLoops ≤ 1 := by
  simp [LaxPolygonS.ofLens]; omega

theorem lp_numLoops : (ST).numLoops = ((a :: b :: rest).length : Nat) := rfl

theorem lp_nv : (ST).nv = (a :: b :: rest).sum := by
  simp [LaxPolygonS.ofLens, sumNat_eq_sum]

theorem lp_cumAt (i : Nat) (h : i ≤ (a :: b :: rest).length) : (ST).cumAt (i : Int) = some ((start NS i : Nat) : Int) := by
  have := getI_prefixSums NS 0 i h
  simpa [LaxPolygonS.cumAt, LaxPolygonS.ofLens] using this

theorem lp_fuel : (ST).fuel = (a :: b :: rest).length + 2 := by
  simp [LaxPolygonS.fuel, LaxPolygonS.ofLens, prefixSums_length]

/-- the search loop finds the loop following the one that holds edge `start i + j` -/
theorem lp_search (i : Nat) (hi : i < (a :: b :: rest).length) (j : Nat) (hj : j < (a :: b :: rest)[i]) (x0 : Nat) (hx : x0 ≤ 1) :
    whileInc (fun x => do let t ← (ST).cumAt x; pure (decide (t ≤ ((start NS i : Nat) : Int) + (j : Nat)))) (ST).fuel (x0 : Nat)
      = some ((i + 1 : Nat) : Int) := by
  rw [lp_fuel]
  apply whileInc_spec _ (i + 1) _ x0 (by omega) (by omega)
  · intro y _ hy
    rw [lp_cumAt a b rest y (by omega)]
    have := start_mono NS y i (by omega) (by omega)
    simp <;> omega
  · rw [lp_cumAt a b rest (i + 1) (by omega)]
    have := start_succ NS i hi
    simp <;> omega

theorem lp_numEdges : LaxPolygon.NumEdges ST = some (((a :: b :: rest).sum : Nat) : Int) := by
  have h := lp_cumAt a b rest (a :: b :: rest).length (Nat.le_refl _)
  rw [start_length] at h
  simp only [LaxPolygon.NumEdges, LaxPolygon.numVertices, lp_numLoops_gt a b rest, if_false]
  rw [lp_numLoops, h]

theorem lp_chain (i : Nat) (hi : i < (a :: b :: rest).length) :
    LaxPolygon.Chain ST (i : Nat) = some (((start NS i : Nat) : Int), (((a :: b :: rest)[i] : Nat) : Int)) := by
  have h1 := lp_cumAt a b rest i (by omega)
  have h2 := lp_cumAt a b rest (i + 1) (by omega)
  have e : ((i + 1 : Nat) : Int) = (i : Int) + 1 := by omega
  rw [e] at h2
  have := start_succ NS i hi
  simp only [LaxPolygon.Chain, lp_numLoops_ne a b rest, if_false, h1, h2]
  simp; omega

theorem lp_chainPositionFixed (i : Nat) (hi : i < (a :: b :: rest).length) (j : Nat) (hj : j < (a :: b :: rest)[i]) :
    LaxPolygon.ChainPositionFixed ST (((start NS i : Nat) : Int) + (j : Nat)) = some (((i : Nat) : Int), ((j : Nat) : Int)) := by
  have hs := lp_search a b rest i hi j hj 1 (Nat.le_refl _)
  have h1 := lp_cumAt a b rest i (by omega)
  have e : (((i + 1 : Nat) : Int) - 1) = (i : Int) := by omega
  have e1 : ((1 : Nat) : Int) = 1 := rfl
  rw [e1] at hs
  simp only [LaxPolygon.ChainPositionFixed, lp_numLoops_ne a b rest, if_false, hs]
  simp only [Option.bind_eq_bind, Option.bind_some, e, h1]
  simp; omega

theorem lp_edge (i : Nat) (hi : i < (a :: b :: rest).length) (j : Nat) (hj : j < (a :: b :: rest)[i]) :
    ∃ ed, LaxPolygon.Edge ST (((start NS i : Nat) : Int) + (j : Nat)) = some ed ∧
          LaxPolygon.ChainEdge ST (i : Nat) (j : Nat) = some ed := by
  have hs := lp_search a b rest i hi j hj 0 (by omega)
  have h1 := lp_cumAt a b rest i (by omega)
  have h2 := lp_cumAt a b rest (i + 1) (by omega)
  have e : (((i + 1 : Nat) : Int) - 1) = (i : Int) := by omega
  have e' : ((i + 1 : Nat) : Int) = (i : Int) + 1 := by omega
  have e0 : ((0 : Nat) : Int) = 0 := rfl
  rw [e0] at hs
  have hsucc := start_succ NS i hi
  have hmono := start_mono NS (i + 1) (a :: b :: rest).length (by omega) (Nat.le_refl _)
  rw [start_length] at hmono
  have hnv := lp_nv a b rest
  refine ⟨(((start NS i : Nat) : Int) + (j : Nat),
           if j + 1 = (a :: b :: rest)[i] then ((start NS i : Nat) : Int) else ((start NS i : Nat) : Int) + (j : Nat) + 1), ?_, ?_⟩
  · simp only [LaxPolygon.Edge, lp_numLoops_ne a b rest, if_false, hs]
    simp only [Option.bind_eq_bind, Option.bind_some, h2, e, h1]
    by_cases hj1 : j + 1 = (a :: b :: rest)[i]
    · have c : ((start NS i : Nat) : Int) + (j : Nat) + 1 = ((start NS (i + 1) : Nat) : Int) := by omega
      simp only [c, if_true, hj1, Option.bind_some, Option.pure_def]
      rw [vtx_some (by omega) (by omega), vtx_some (by omega) (by omega)]
      rfl
    · have c : ¬ (((start NS i : Nat) : Int) + (j : Nat) + 1 = ((start NS (i + 1) : Nat) : Int)) := by omega
      simp only [c, if_false, hj1, Option.bind_some, Option.pure_def]
      rw [vtx_some (by omega) (by omega), vtx_some (by omega) (by omega)]
      rfl
  · rw [e'] at h2
    simp only [LaxPolygon.ChainEdge, LaxPolygon.numLoopVertices, lp_numLoops_ne a b rest, if_false, h1, h2,
      Option.bind_eq_bind, Option.bind_some, Option.pure_def]
    by_cases hj1 : j + 1 = (a :: b :: rest)[i]
    · have c : ¬ ((j : Int) + 1 ≠ ((start NS (i + 1) : Nat) : Int) - ((start NS i : Nat) : Int)) := by omega
      simp only [c, if_false, hj1, if_true]
      rw [vtx_some (by omega) (by omega), vtx_some (by omega) (by omega)]
      simp
    · have c : ((j : Int) + 1 ≠ ((start NS (i + 1) : Nat) : Int) - ((start NS i : Nat) : Int)) := by omega
      simp only [c, if_true, hj1, if_false]
      rw [vtx_some (by omega) (by omega), vtx_some (by omega) (by omega)]
      simp; omega

end
end S2Proofs.C06
