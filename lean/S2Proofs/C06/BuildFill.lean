/-
  S2Proofs.C06.BuildFill — what the merge loop of `makeIndexCell` (`fillShapes`, sized by `countShapes`)
  writes into a cell: one entry per shape id of the tracker's list / of an edge, strictly increasing,
  flag = "id is in the tracker's list", edges = the edge ids of that shape in list order.
-/
import S2Proofs.C06.BuildMerge
open S2 S2.CellID S2.IndexBuild S2Proofs.C06BuildH
namespace S2Proofs.C06BuildH

/-! ### sorted lists: `takeWhile` / `dropWhile` on the smallest id are filters -/

theorem sorted_take_drop (a : Nat) : ∀ (l : List ClippedEdge),
    List.Pairwise (fun x y : ClippedEdge => x.fe.shapeID ≤ y.fe.shapeID) l →
    (∀ x ∈ l, a ≤ x.fe.shapeID) →
    l.takeWhile (fun e => e.fe.shapeID == a) = l.filter (fun e => e.fe.shapeID == a) ∧
    l.dropWhile (fun e => e.fe.shapeID == a) = l.filter (fun e => e.fe.shapeID != a) := by
  intro l
  induction l with
  | nil => intro _ _; simp
  | cons x xs ih =>
    intro hp hge
    have hp' := List.pairwise_cons.mp hp
    by_cases hx : x.fe.shapeID = a
    · have ih' := ih hp'.2 (fun y hy => hge y (List.mem_cons_of_mem _ hy))
      simp [hx, ih'.1, ih'.2]
    · have hgt : a < x.fe.shapeID := by have := hge x List.mem_cons_self; omega
      have hall : ∀ y ∈ xs, a < y.fe.shapeID := fun y hy => by have := hp'.1 y hy; omega
      have h1 : xs.filter (fun e => e.fe.shapeID == a) = [] := by
        rw [List.filter_eq_nil_iff]; intro y hy; have := hall y hy; simp; omega
      have h2 : xs.filter (fun e => e.fe.shapeID != a) = xs := by
        rw [List.filter_eq_self]; intro y hy; have := hall y hy; simp; omega
      simp [hx, h1, h2]

theorem filter_ne_self_edges (a : Nat) (l : List ClippedEdge) (h : ∀ x ∈ l, a < x.fe.shapeID) :
    l.filter (fun e => e.fe.shapeID != a) = l ∧ l.filter (fun e => e.fe.shapeID == a) = [] := by
  constructor
  · rw [List.filter_eq_self]; intro y hy; have := h y hy; simp; omega
  · rw [List.filter_eq_nil_iff]; intro y hy; have := h y hy; simp; omega

theorem filter_ne_self_ids (a : Nat) (l : List Nat) (h : ∀ x ∈ l, a < x) :
    l.filter (fun c => c != a) = l := by
  rw [List.filter_eq_self]; intro y hy; have := h y hy; simp; omega

/-! ### one iteration of the merge loop -/

/-- the loop emits the entry of the smallest id `a` and continues on the lists without `a` -/
def StepAt (s : Nat) (last : Option Nat) (es : List ClippedEdge) (cs : List Nat) (a : Nat) : Prop :=
  (∀ l, last = some l → l < a) ∧ a < s ∧ (a ∈ cs ∨ ∃ e ∈ es, e.fe.shapeID = a) ∧
  MergeInput s (some a) (es.filter fun e => e.fe.shapeID != a) (cs.filter fun c => c != a) ∧
  countShapesGo last 0 es cs =
    countShapesGo (some a) 0 (es.filter fun e => e.fe.shapeID != a) (cs.filter fun c => c != a) + 1 ∧
  ∀ fuel, fillShapes s (fuel + 1) es cs =
    ⟨a, decide (a ∈ cs), (es.filter fun e => e.fe.shapeID == a).map (·.fe.edgeID)⟩ ::
      fillShapes s fuel (es.filter fun e => e.fe.shapeID != a) (cs.filter fun c => c != a)

theorem mergeInput_filter (s : Nat) (last : Option Nat) (es : List ClippedEdge) (cs : List Nat)
    (hin : MergeInput s last es cs) (a : Nat) (hes : ∀ e ∈ es, a ≤ e.fe.shapeID) (hcs : ∀ c ∈ cs, a ≤ c) :
    MergeInput s (some a) (es.filter fun e => e.fe.shapeID != a) (cs.filter fun c => c != a) := by
  refine ⟨hin.es_sorted.sublist List.filter_sublist, hin.cs_sorted.sublist List.filter_sublist,
    fun e he => hin.es_lt e (List.mem_filter.mp he).1, fun c hc => hin.cs_lt c (List.mem_filter.mp hc).1,
    ?_, ?_⟩
  · intro l hl e he
    cases hl
    have h := List.mem_filter.mp he
    have h1 := hes e h.1
    have h2 : e.fe.shapeID ≠ a := by simpa using h.2
    omega
  · intro l hl c hc
    cases hl
    have h := List.mem_filter.mp hc
    have h1 := hcs c h.1
    have h2 : c ≠ a := by simpa using h.2
    omega

theorem last_ne (last : Option Nat) (a : Nat) (h : ∀ l, last = some l → l < a) : (last == some a) = false := by
  cases hl : last with
  | none => rfl
  | some l => have := h l hl; simp; omega

/-- a containing shape with an id smaller than all edge ids comes first -/
theorem step_A (s : Nat) (last : Option Nat) (es : List ClippedEdge) (c : Nat) (cs' : List Nat)
    (hin : MergeInput s last es (c :: cs')) (hce : ∀ e ∈ es, c < e.fe.shapeID) :
    StepAt s last es (c :: cs') c := by
  have hcs' : ∀ x ∈ cs', c < x := (List.pairwise_cons.mp hin.cs_sorted).1
  have hf := filter_ne_self_edges c es hce
  have hfc : (c :: cs').filter (fun x => x != c) = cs' := by
    rw [List.filter_cons]; simp [filter_ne_self_ids c cs' hcs']
  have hmi := mergeInput_filter s last es (c :: cs') hin c (fun e he => Nat.le_of_lt (hce e he))
    (fun x hx => by rcases List.mem_cons.mp hx with h | h; omega; exact Nat.le_of_lt (hcs' x h))
  have hcs : c < s := hin.cs_lt c List.mem_cons_self
  refine ⟨fun l hl => hin.cs_gt l hl c List.mem_cons_self, hcs, Or.inl List.mem_cons_self, hmi, ?_, ?_⟩
  · rw [hf.1, hfc]
    cases es with
    | nil => simp [countShapesGo]
    | cons e es' =>
      have hca := hce e List.mem_cons_self
      have hlast := last_ne last e.fe.shapeID (fun l hl => hin.es_gt l hl e List.mem_cons_self)
      have hlast' : (some c == some e.fe.shapeID) = false := by simp; omega
      have hsk : skipContaining e.fe.shapeID 1 (c :: cs') =
          ((skipContaining e.fe.shapeID 1 cs').1 + 1, (skipContaining e.fe.shapeID 1 cs').2) := by
        rw [skipContaining]
        have h1 : ¬ c > e.fe.shapeID := by omega
        simp only [h1, if_false, hca, if_true]
        exact skipContaining_add _ 1 cs' 1
      have hN := countShapesGo_step last e es' (c :: cs') hlast
      have hN' := countShapesGo_step (some c) e es' cs' hlast'
      rw [hsk] at hN
      simp only [] at hN
      omega
  · intro fuel
    rw [hf.1, hf.2, hfc]
    have hhead : c < headShapeID s es := by
      cases es with
      | nil => exact hcs
      | cons e es' => exact hce e List.mem_cons_self
    conv => lhs; unfold fillShapes
    simp only []
    rw [show headID s (c :: cs') = c from rfl, if_pos hhead]
    simp

/-- the run of the first edge is emitted now -/
theorem step_B (s : Nat) (last : Option Nat) (e : ClippedEdge) (es' : List ClippedEdge) (cs : List Nat)
    (hin : MergeInput s last (e :: es') cs) (hcs : ∀ c ∈ cs, e.fe.shapeID ≤ c) :
    StepAt s last (e :: es') cs e.fe.shapeID := by
  have hsorted := List.pairwise_cons.mp hin.es_sorted
  have hes : ∀ x ∈ e :: es', e.fe.shapeID ≤ x.fe.shapeID := by
    intro x hx
    rcases List.mem_cons.mp hx with h | h
    · subst h; omega
    · exact hsorted.1 x h
  have htd := sorted_take_drop e.fe.shapeID (e :: es') hin.es_sorted hes
  have hd : (e :: es').dropWhile (fun x => x.fe.shapeID == e.fe.shapeID) =
      es'.dropWhile (fun x => x.fe.shapeID == e.fe.shapeID) := by
    rw [List.dropWhile_cons]; simp
  have hmi := mergeInput_filter s last (e :: es') cs hin e.fe.shapeID hes hcs
  have ha : e.fe.shapeID < s := hin.es_lt e List.mem_cons_self
  have hlast := last_ne last e.fe.shapeID (fun l hl => hin.es_gt l hl e List.mem_cons_self)
  have hN := countShapesGo_step last e es' cs hlast
  rw [← hd, htd.2] at hN
  refine ⟨fun l hl => hin.es_gt l hl e List.mem_cons_self, ha, Or.inr ⟨e, List.mem_cons_self, rfl⟩, hmi, ?_, ?_⟩
  · cases cs with
    | nil =>
      rw [hN]; simp [skipContaining]
    | cons c cs' =>
      have hcs' : ∀ x ∈ cs', c < x := (List.pairwise_cons.mp hin.cs_sorted).1
      have hge := hcs c List.mem_cons_self
      by_cases heq : c = e.fe.shapeID
      · have hsk : skipContaining e.fe.shapeID 1 (c :: cs') = (1, cs') := by
          rw [skipContaining]
          have h1 : ¬ c > e.fe.shapeID := by omega
          have h2 : ¬ c < e.fe.shapeID := by omega
          simp only [h1, if_false, h2]
          exact skip_all_gt _ _ _ (fun x hx => by have := hcs' x hx; omega)
        have hfc : (c :: cs').filter (fun x => x != e.fe.shapeID) = cs' := by
          rw [List.filter_cons]
          simp [heq, filter_ne_self_ids e.fe.shapeID cs' (fun x hx => by have := hcs' x hx; omega)]
        rw [hN, hsk, hfc]
      · have hall : ∀ x ∈ c :: cs', e.fe.shapeID < x := by
          intro x hx
          rcases List.mem_cons.mp hx with h | h
          · omega
          · have := hcs' x h; omega
        rw [hN, skip_all_gt _ _ _ hall, filter_ne_self_ids _ _ hall]
  · intro fuel
    rw [← htd.1, ← htd.2]
    conv => lhs; unfold fillShapes
    simp only []
    rw [show headShapeID s (e :: es') = e.fe.shapeID from rfl]
    cases cs with
    | nil =>
      have h1 : ¬ headID s [] < e.fe.shapeID := by simp [headID]; omega
      have h2 : ¬ (headID s [] == e.fe.shapeID) = true := by simp [headID]; omega
      rw [if_neg h1, if_neg h2]
      simp
    | cons c cs' =>
      have hcs' : ∀ x ∈ cs', c < x := (List.pairwise_cons.mp hin.cs_sorted).1
      have hge := hcs c List.mem_cons_self
      have h1 : ¬ headID s (c :: cs') < e.fe.shapeID := by simp [headID]; omega
      rw [if_neg h1]
      by_cases heq : c = e.fe.shapeID
      · have h2 : (headID s (c :: cs') == e.fe.shapeID) = true := by simp [headID, heq]
        have hfc : (c :: cs').filter (fun x => x != e.fe.shapeID) = cs' := by
          rw [List.filter_cons]
          simp [heq, filter_ne_self_ids e.fe.shapeID cs' (fun x hx => by have := hcs' x hx; omega)]
        rw [if_pos h2, hfc]
        simp [heq]
      · have hall : ∀ x ∈ c :: cs', e.fe.shapeID < x := by
          intro x hx
          rcases List.mem_cons.mp hx with h | h
          · omega
          · have := hcs' x h; omega
        have h2 : ¬ (headID s (c :: cs') == e.fe.shapeID) = true := by simp [headID, heq]
        have hnm : e.fe.shapeID ∉ c :: cs' := fun hm => by have := hall _ hm; omega
        rw [if_neg h2, filter_ne_self_ids _ _ hall]
        simp [hnm]

theorem fill_step (s : Nat) (last : Option Nat) (es : List ClippedEdge) (cs : List Nat)
    (hin : MergeInput s last es cs) (hne : es ≠ [] ∨ cs ≠ []) : ∃ a, StepAt s last es cs a := by
  cases es with
  | nil =>
    cases cs with
    | nil => simp at hne
    | cons c cs' => exact ⟨c, step_A s last [] c cs' hin (by simp)⟩
  | cons e es' =>
    cases cs with
    | nil => exact ⟨_, step_B s last e es' [] hin (by simp)⟩
    | cons c cs' =>
      have hsorted := List.pairwise_cons.mp hin.es_sorted
      have hcs' : ∀ x ∈ cs', c < x := (List.pairwise_cons.mp hin.cs_sorted).1
      by_cases hlt : c < e.fe.shapeID
      · refine ⟨c, step_A s last (e :: es') c cs' hin ?_⟩
        intro x hx
        rcases List.mem_cons.mp hx with h | h
        · subst h; exact hlt
        · have := hsorted.1 x h; omega
      · refine ⟨_, step_B s last e es' (c :: cs') hin ?_⟩
        intro x hx
        rcases List.mem_cons.mp hx with h | h
        · omega
        · have := hcs' x h; omega

/-! ### the filled cell -/

/-- the specification of the list of entries written for `es` / `cs` (all ids above `last`) -/
def FillSpec (last : Option Nat) (es : List ClippedEdge) (cs : List Nat) (L : List Clipped) : Prop :=
  (∀ cl ∈ L, (∀ l, last = some l → l < cl.shapeID) ∧
      cl.containsCenter = decide (cl.shapeID ∈ cs) ∧
      cl.edges = (es.filter fun e => e.fe.shapeID == cl.shapeID).map (·.fe.edgeID) ∧
      (cl.shapeID ∈ cs ∨ ∃ e ∈ es, e.fe.shapeID = cl.shapeID)) ∧
  (∀ sid, (sid ∈ cs ∨ ∃ e ∈ es, e.fe.shapeID = sid) → ∃ cl ∈ L, cl.shapeID = sid) ∧
  List.Pairwise (fun a b : Clipped => a.shapeID < b.shapeID) L

theorem fillShapes_spec (s : Nat) : ∀ (m : Nat) (es : List ClippedEdge) (cs : List Nat) (last : Option Nat),
    es.length + cs.length ≤ m → MergeInput s last es cs →
    FillSpec last es cs (fillShapes s (countShapesGo last 0 es cs) es cs) := by
  intro m
  induction m with
  | zero =>
    intro es cs last hm _
    have h1 : es = [] := List.eq_nil_of_length_eq_zero (by omega)
    have h2 : cs = [] := List.eq_nil_of_length_eq_zero (by omega)
    subst h1; subst h2
    refine ⟨?_, ?_, ?_⟩
    · intro cl hcl; simp [countShapesGo, fillShapes] at hcl
    · intro sid hs; simp at hs
    · simp [countShapesGo, fillShapes]
  | succ m ih =>
    intro es cs last hm hin
    by_cases hne : es ≠ [] ∨ cs ≠ []
    · obtain ⟨a, hlast, has, horig, hmi, hcount, hfill⟩ := fill_step s last es cs hin hne
      -- the lists shrink
      have hlen : (es.filter fun e => e.fe.shapeID != a).length + (cs.filter fun c => c != a).length ≤ m := by
        have h1 := List.length_filter_le (fun e : ClippedEdge => e.fe.shapeID != a) es
        have h2 := List.length_filter_le (fun c : Nat => c != a) cs
        rcases horig with h | ⟨e, he, hea⟩
        · have : (cs.filter fun c => c != a).length < cs.length := by
            apply List.length_filter_lt_length_iff_exists.mpr
            exact ⟨a, h, by simp⟩
          omega
        · have : (es.filter fun e => e.fe.shapeID != a).length < es.length := by
            apply List.length_filter_lt_length_iff_exists.mpr
            exact ⟨e, he, by simp [hea]⟩
          omega
      have hrec := ih _ _ (some a) hlen hmi
      rw [hcount, hfill]
      obtain ⟨hr1, hr2, hr3⟩ := hrec
      refine ⟨?_, ?_, ?_⟩
      · intro cl hcl
        rcases List.mem_cons.mp hcl with h | h
        · subst h
          exact ⟨hlast, rfl, rfl, horig⟩
        · obtain ⟨g1, g2, g3, g4⟩ := hr1 cl h
          have hgt : a < cl.shapeID := g1 a rfl
          have hne' : cl.shapeID ≠ a := by omega
          refine ⟨fun l hl => by have := hlast l hl; omega, ?_, ?_, ?_⟩
          · rw [g2]
            congr 1
            simp [List.mem_filter, hne']
          · rw [g3, List.filter_filter]
            congr 1
            apply List.filter_congr
            intro x _
            by_cases hx : x.fe.shapeID = cl.shapeID
            · simp [hx, hne']
            · simp [hx]
          · rcases g4 with g | ⟨e, he, hea⟩
            · exact Or.inl (List.mem_filter.mp g).1
            · exact Or.inr ⟨e, (List.mem_filter.mp he).1, hea⟩
      · intro sid hs
        by_cases hsa : sid = a
        · exact ⟨_, List.mem_cons_self, hsa.symm⟩
        · have : sid ∈ (cs.filter fun c => c != a) ∨
              ∃ e ∈ (es.filter fun e => e.fe.shapeID != a), e.fe.shapeID = sid := by
            rcases hs with h | ⟨e, he, hea⟩
            · exact Or.inl (List.mem_filter.mpr ⟨h, by simpa using hsa⟩)
            · exact Or.inr ⟨e, List.mem_filter.mpr ⟨he, by simp [hea, hsa]⟩, hea⟩
          obtain ⟨cl, hcl, hid⟩ := hr2 sid this
          exact ⟨cl, List.mem_cons_of_mem _ hcl, hid⟩
      · rw [List.pairwise_cons]
        exact ⟨fun cl hcl => (hr1 cl hcl).1 a rfl, hr3⟩
    · have h1 : es = [] := by
        by_contra h; exact hne (Or.inl h)
      have h2 : cs = [] := by
        by_contra h; exact hne (Or.inr h)
      subst h1; subst h2
      refine ⟨?_, ?_, ?_⟩
      · intro cl hcl; simp [countShapesGo, fillShapes] at hcl
      · intro sid hs; simp at hs
      · simp [countShapesGo, fillShapes]

/-! ### the theorems for `makeIndexCell` (`last = none`) -/

theorem fillShapes_fillSpec (n : Nat) (es : List ClippedEdge) (cs : List Nat) (h : MergeInput n none es cs) :
    FillSpec none es cs (fillShapes n (countShapes es cs) es cs) :=
  fillShapes_spec n _ es cs none (Nat.le_refl _) h

/-- the entries of the filled cell: flag = "id is in the tracker's list", edges = the edge ids of that shape in list order -/
theorem fillShapes_entry (n : Nat) (es : List ClippedEdge) (cs : List Nat) (h : MergeInput n none es cs) :
    ∀ cl ∈ fillShapes n (countShapes es cs) es cs,
      cl.containsCenter = decide (cl.shapeID ∈ cs) ∧
      cl.edges = (es.filter fun e => e.fe.shapeID == cl.shapeID).map (·.fe.edgeID) ∧
      (cl.shapeID ∈ cs ∨ ∃ e ∈ es, e.fe.shapeID = cl.shapeID) := by
  intro cl hcl
  exact ((fillShapes_fillSpec n es cs h).1 cl hcl).2

/-- every id of the tracker list and every shape id of an edge gets an entry -/
theorem fillShapes_ids (n : Nat) (es : List ClippedEdge) (cs : List Nat) (h : MergeInput n none es cs) (sid : Nat)
    (hs : sid ∈ cs ∨ ∃ e ∈ es, e.fe.shapeID = sid) :
    ∃ cl ∈ fillShapes n (countShapes es cs) es cs, cl.shapeID = sid :=
  (fillShapes_fillSpec n es cs h).2.1 sid hs

/-- the entries are strictly increasing in shape id -/
theorem fillShapes_sorted (n : Nat) (es : List ClippedEdge) (cs : List Nat) (h : MergeInput n none es cs) :
    List.Pairwise (fun a b : Clipped => a.shapeID < b.shapeID) (fillShapes n (countShapes es cs) es cs) :=
  (fillShapes_fillSpec n es cs h).2.2

/-- consequence: the "contains centre" flag of shape `sid` in the cell is membership in the tracker list -/
theorem fillShapes_containsCenter (n : Nat) (es : List ClippedEdge) (cs : List Nat) (h : MergeInput n none es cs) (sid : Nat) :
    ((fillShapes n (countShapes es cs) es cs).any fun cl => cl.shapeID == sid && cl.containsCenter) = decide (sid ∈ cs) := by
  rw [Bool.eq_iff_iff]
  simp only [List.any_eq_true, Bool.and_eq_true, beq_iff_eq, decide_eq_true_eq]
  constructor
  · rintro ⟨cl, hcl, hid, hflag⟩
    have := (fillShapes_entry n es cs h cl hcl).1
    rw [hflag] at this
    rw [← hid]
    simpa using this.symm
  · intro hmem
    obtain ⟨cl, hcl, hid⟩ := fillShapes_ids n es cs h sid (Or.inl hmem)
    refine ⟨cl, hcl, hid, ?_⟩
    rw [(fillShapes_entry n es cs h cl hcl).1, hid]
    simpa using hmem

end S2Proofs.C06BuildH
