/-
  S2Proofs.C06.Simple — helper lemmas for the single-chain / unit-chain shapes and for LaxPolygon.
-/
import S2Proofs.C06.Generic
namespace S2Proofs.C06
open S2 S2.Shapes

theorem modI_lt {i n : Int} (h0 : 0 ≤ i) (h : i < n) : modI i n = some i := by
  unfold modI
  have : n ≠ 0 := by omega
  simp [this, Int.tmod_eq_emod_of_nonneg h0, Int.emod_eq_of_lt h0 h]

theorem modI_self {n : Int} (h : 0 < n) : modI n n = some 0 := by
  unfold modI
  have : n ≠ 0 := by omega
  simp [this]

theorem vtx_some {n : Nat} {i : Int} (h0 : 0 ≤ i) (h : i < n) : vtx n i = some i := by
  simp [vtx, h0, h]

theorem vertex_lt (s : LoopS) {i : Int} (h0 : 0 ≤ i) (h : i < s.n) : Loop.Vertex s i = some i := by
  simp [Loop.Vertex, modI_lt h0 h, vtx, h0, h]

theorem vertex_n (s : LoopS) (h : 0 < s.n) : Loop.Vertex s s.n = some 0 := by
  have h' : (0:Int) < s.n := by omega
  simp [Loop.Vertex, modI_self h', vtx, h]

/-- `OrientedVertex(i)` does not panic for `0 ≤ i ≤ n`, `n > 0`. -/
theorem orientedVertex_some (s : LoopS) {i : Int} (h0 : 0 ≤ i) (h : i ≤ s.n) (hn : 0 < s.n) :
    ∃ v, Loop.OrientedVertex s i = some v := by
  unfold Loop.OrientedVertex
  simp only []
  by_cases hh : Loop.IsHole s = true <;> by_cases hi : i = (s.n : Int)
  all_goals simp only [hh, if_true, if_false, Bool.false_eq_true]
  · subst hi
    have : ¬ ((s.n : Int) - (s.n : Int) < 0) := by omega
    simp only [this, if_false]
    have e : (s.n : Int) - 1 - ((s.n : Int) - (s.n : Int)) = (s.n : Int) - 1 := by omega
    rw [e, vertex_lt s (by omega) (by omega)]; exact ⟨_, rfl⟩
  · have : (i - (s.n : Int) < 0) := by omega
    simp only [this, if_true]
    rw [vertex_lt s (by omega) (by omega)]; exact ⟨_, rfl⟩
  · subst hi
    have : ¬ ((s.n : Int) - (s.n : Int) < 0) := by omega
    simp only [this, if_false]
    have e : ((s.n : Int) - (s.n : Int)) = 0 := by omega
    rw [e, vertex_lt s (by omega) (by omega)]; exact ⟨_, rfl⟩
  · have : (i - (s.n : Int) < 0) := by omega
    simp only [this, if_true]
    rw [vertex_lt s h0 (by omega)]; exact ⟨_, rfl⟩

/-- the search loop `for cond(x) { x++ }` stops at `m` -/
theorem whileInc_spec (cond : Int → Option Bool) (m : Nat) : ∀ (fuel : Nat) (x : Nat), x ≤ m → m - x < fuel →
    (∀ y : Nat, x ≤ y → y < m → cond y = some true) → cond m = some false →
    whileInc cond fuel x = some (m : Int)
  | 0, x, _, hf, _, _ => by omega
  | fuel + 1, x, hx, hf, htrue, hfalse => by
    unfold whileInc
    by_cases hxm : x = m
    · subst hxm; rw [hfalse]
    · rw [htrue x (Nat.le_refl _) (by omega)]
      have e : (x : Int) + 1 = ((x + 1 : Nat) : Int) := by omega
      simp only [e]
      exact whileInc_spec cond m fuel (x + 1) (by omega) (by omega) (fun y hy hym => htrue y (by omega) hym) hfalse

end S2Proofs.C06
