/-
  S2Proofs.C06.BuildTop — the invariant `Good` (S2Proofs.C06.Build) for `skipCellRange`,
  `updateFaceEdges` (incl. the `shrinkToFit` shortcut) and the whole build `buildRes`.
-/
import S2Proofs.C06.Build
import S2Proofs.Properties.C01
import S2Proofs.Properties.C01_Hilbert
import S2Proofs.CU.RangeFuel
open S2 S2.CellID S2.Hilbert S2.PaddedCellM S2.IndexBuild S2Proofs.C12H S2Proofs.C06PC S2Proofs.C06BuildH
namespace S2Proofs.C06BuildH

theorem stToIJ_lt (s : F64) : (STUV.stToIJ s).toNat < 2 ^ 30 := by
  unfold STUV.stToIJ STUV.clampInt
  split
  · decide
  · split
    · decide
    · omega

theorem face_fromCellID (f : Nat) (hf : f < 6) :
    (fromCellID (fromFace f)).iLo = 0 ∧ (fromCellID (fromFace f)).jLo = 0 ∧ (fromCellID (fromFace f)).level = 0 := by
  interval_cases f <;> exact ⟨rfl, rfl, rfl⟩

theorem ite_or {α : Type} (A : Prop) [Decidable A] (x y : α) (R : α → Prop) (h : R y) :
    (if A then x else y) = x ∨ R (if A then x else y) := by
  split
  · left; rfl
  · right; exact h

theorem parent_leaf_valid (f i j lvl : Nat) (hf : f < 6) (hi : i < 2 ^ 30) (hj : j < 2 ^ 30) (hl : lvl ≤ 30) :
    isValid (parent (cellIDFromFaceIJ f i j) lvl) = true ∧ face (parent (cellIDFromFaceIJ f i j) lvl) = f := by
  obtain ⟨hv, _, hlev, hface⟩ := S2Proofs.C01.cellIDFromFaceIJ_valid_leaf f i j hf hi hj
  obtain ⟨h1, _, h3⟩ := S2Proofs.C01.parent_spec _ lvl hv (by omega)
  exact ⟨h1, h3.trans hface⟩

theorem shrinkToFit_cases (P : PaddedCell) (pad : F64) (rect : CellM.Rect2) (hi0 : P.iLo = 0) (hj0 : P.jLo = 0)
    (hf : face P.id < 6) :
    shrinkToFit P pad rect = P.id ∨
    (isValid (shrinkToFit P pad rect) = true ∧ face (shrinkToFit P pad rect) = face P.id) := by
  unfold shrinkToFit
  split
  · left; rfl
  · split
    rename_i si ti hst
    split
    · left; rfl
    · simp only []
      refine ite_or _ _ _ (fun s => isValid s = true ∧ face s = face P.id) ?_
      apply parent_leaf_valid _ _ _ _ hf
      · rw [hi0]; split
        · exact stToIJ_lt _
        · decide
      · rw [hj0]; split
        · exact stToIJ_lt _
        · decide
      · unfold maxLevel; omega

/-! ### faces -/

theorem face_order (f : Nat) (hf : f < 5) : hi (fromFace f) + 2 = lo (fromFace (f + 1)) := by
  interval_cases f <;> decide

/-- the leaf ranges of the faces are ordered by face number -/
theorem face_lt_of_lt (f g : Nat) (hfg : f < g) (hg : g < 6) : hi (fromFace f) < lo (fromFace g) := by
  interval_cases g <;> interval_cases f <;> decide

theorem face5_hi : hi (fromFace 5) = 6 * 2 ^ 61 - 1 := by decide

theorem face_hi_le (f : Nat) (hf : f < 6) : hi (fromFace f) ≤ 6 * 2 ^ 61 - 1 := by
  interval_cases f <;> decide

/-- a valid cell lies inside the face cell of its face -/
theorem face_contains {x : CellID} (hx : isValid x = true) :
    lo (fromFace (face x)) ≤ lo x ∧ hi x ≤ hi (fromFace (face x)) := by
  obtain ⟨k, hk⟩ := (isValid_iff x).mp hx
  have hf6 := hk.face_lt6
  have hfv := (S2Proofs.C01.fromFace_spec (face x) hf6)
  have hc : contains (fromFace (face x)) x = true := by
    rw [S2Proofs.C01.contains_iff_parent _ _ hfv.2.1 hx, hfv.2.2.1]
    exact ⟨Nat.zero_le _, S2Proofs.C01.parent_zero_eq_fromFace x hx⟩
  exact (S2Proofs.contains_range hfv.2.1 hx).mp hc

theorem next_leaf_toNat (x : CellID) (hodd : x.toNat % 2 = 1) (hlt : x.toNat + 2 < 2 ^ 64) :
    (next x).toNat = x.toNat + 2 := by
  unfold next
  rw [lsb_odd x hodd]
  have : ((1 : UInt64) <<< 1) = 2 := by decide
  rw [this, UInt64.toNat_add]
  have : (2 : UInt64).toNat = 2 := by decide
  rw [this]; omega

/-! ### skipCellRange / updateFaceEdges / the whole build -/

theorem foldCells_good (Q : FaceEdge → Prop) (hQ : ∀ fe, Q fe → fe.maxLevel ≤ 30) (n : Nat) :
    ∀ (L : List CellID) (r : Res) (a B E : Nat),
      (∀ c ∈ L, isValid c = true ∧ B < lo c ∧ hi c ≤ E ∧ a ≤ lo c) →
      List.Pairwise (fun x y : CellID => hi x < lo y) L → B ≤ E → Good Q a B r →
      Good Q a E (L.foldl (fun (r : Res) cell =>
        let r' := updateEdges n IndexBuild.fuel (fromCellID cell) (isFace cell) [] r.t
        ⟨r.cells ++ r'.cells, r'.t, r.ok && r'.ok⟩) r) := by
  intro L
  induction L with
  | nil => intro r a B E _ _ hBE hr; exact hr.mono (Nat.le_refl _) hBE
  | cons c L ih =>
    intro r a B E hL hp hBE hr
    obtain ⟨hv, hB, hE, ha⟩ := hL c List.mem_cons_self
    obtain ⟨k, hk⟩ := (isValid_iff c).mp hv
    have g := updateEdges_good Q hQ n IndexBuild.fuel c k (isFace c) [] r.t hk (by unfold IndexBuild.fuel; omega)
      (by simp)
    have vc := valid_facts hv
    rw [List.foldl_cons]
    apply ih _ a (hi c) E
    · intro c' hc'
      obtain ⟨hv', _, hE', ha'⟩ := hL c' (List.mem_cons_of_mem _ hc')
      exact ⟨hv', (List.pairwise_cons.mp hp).1 c' hc', hE', ha'⟩
    · exact (List.pairwise_cons.mp hp).2
    · exact hE
    · exact hr.append _ g hB ha (by omega)

theorem skipCellRange_good (Q : FaceEdge → Prop) (hQ : ∀ fe, Q fe → fe.maxLevel ≤ 30) (n : Nat)
    {b e : CellID} (hb : b.toNat % 2 = 1) (he : IsPos e) (hbe : b.toNat ≤ e.toNat) (t : Tracker) :
    Good Q b.toNat (e.toNat - 2) (skipCellRange n b e t) := by
  unfold skipCellRange
  split
  · exact ⟨Span.nil _ _, rfl, by simp⟩
  · obtain ⟨hav, hs, _, hcov, _⟩ := fromRange_spec hb he hbe
    by_cases hbe' : b.toNat = e.toNat
    · -- empty range: every member would be covered by an empty interval
      have hnil : CellUnion.fromRange b e = [] := by
        cases hL : CellUnion.fromRange b e with
        | nil => rfl
        | cons c L =>
          have hv := hav c (by rw [hL]; exact List.mem_cons_self)
          have vc := valid_facts hv
          have := (hcov (lo c) vc.1).mp ⟨c, by rw [hL]; exact List.mem_cons_self, Nat.le_refl _, by omega⟩
          omega
      rw [hnil]
      exact ⟨Span.nil _ _, rfl, by simp⟩
    · have hlt : b.toNat < e.toNat := by omega
      have heo := he.1
      apply foldCells_good Q hQ n _ _ b.toNat (b.toNat - 1) (e.toNat - 2)
      · intro c hc
        have hv := hav c hc
        have vc := valid_facts hv
        have h1 := (hcov (lo c) vc.1).mp ⟨c, hc, Nat.le_refl _, by omega⟩
        have h2 := (hcov (hi c) vc.2.1).mp ⟨c, hc, by omega, Nat.le_refl _⟩
        refine ⟨hv, by omega, by omega, h1.1⟩
      · exact hs
      · omega
      · exact ⟨Span.nil _ _, rfl, by simp⟩

theorem updateFaceEdges_good (Q : FaceEdge → Prop) (hQ : ∀ fe, Q fe → fe.maxLevel ≤ 30) (n : Nat)
    (f : Nat) (hf : f < 6) (fes : List FaceEdge) (t : Tracker) (hfes : ∀ fe ∈ fes, Q fe) :
    Good Q (lo (fromFace f)) (hi (fromFace f)) (updateFaceEdges n f fes t) := by
  obtain ⟨hi0, hj0, _⟩ := face_fromCellID f hf
  have hfs := S2Proofs.C01.fromFace_spec f hf
  have hcf : IsCell (fromFace f) 0 := fromFace_isCell f hf
  have hces : ∀ ce ∈ (fes.map fun fe => (⟨fe, rectFromPoints fe.a fe.b⟩ : ClippedEdge)), Q ce.fe := by
    intro ce hce
    obtain ⟨fe, hfe, rfl⟩ := List.mem_map.mp hce
    exact hfes fe hfe
  unfold updateFaceEdges
  generalize (List.map (fun fe => ({ fe := fe, bound := rectFromPoints fe.a fe.b } : ClippedEdge)) fes) = ces
    at hces ⊢
  split
  · exact ⟨Span.nil _ _, rfl, by simp⟩
  · simp only [fromCellID_id]
    generalize hS : (if fes.isEmpty = true then fromFace f else
      shrinkToFit (fromCellID (fromFace f)) cellPadding _) = S
    have hScases : S = fromFace f ∨ (isValid S = true ∧ face S = f) := by
      rw [← hS]
      split
      · left; rfl
      · have key := fun rect => shrinkToFit_cases (fromCellID (fromFace f)) cellPadding rect hi0 hj0
          (by rw [fromCellID_id, hfs.2.2.2.1]; exact hf)
        simp only [fromCellID_id, hfs.2.2.2.1] at key
        exact key _
    split
    · rename_i hne
      rcases hScases with h | ⟨hv, hface⟩
      · simp [h] at hne
      · obtain ⟨k, hk⟩ := (isValid_iff S).mp hv
        have vS := valid_facts hv
        have vF := valid_facts hfs.2.1
        have hin := face_contains hv
        rw [hface] at hin
        have hFle := face_hi_le f hf
        have g1 := skipCellRange_good Q hQ n (b := rangeMin (fromFace f)) (e := rangeMin S)
          vF.1 ⟨vS.1, by show lo S ≤ _; omega⟩ hin.1 t
        have g2 := updateEdges_good Q hQ n IndexBuild.fuel S k (isFace S) ces
          (skipCellRange n (rangeMin (fromFace f)) (rangeMin S) t).t hk (by unfold IndexBuild.fuel; omega) hces
        have hn1 : (next (rangeMax S)).toNat = hi S + 2 := next_leaf_toNat _ vS.2.1 (by show hi S + 2 < _; omega)
        have hn2 : (next (rangeMax (fromFace f))).toNat = hi (fromFace f) + 2 :=
          next_leaf_toNat _ vF.2.1 (by show hi (fromFace f) + 2 < _; omega)
        have g3 := skipCellRange_good Q hQ n (b := next (rangeMax S)) (e := next (rangeMax (fromFace f)))
          (by rw [hn1]; omega) ⟨by rw [hn2]; omega, by rw [hn2]; omega⟩ (by rw [hn1, hn2]; omega)
          (updateEdges n IndexBuild.fuel (fromCellID S) (isFace S) ces
            (skipCellRange n (rangeMin (fromFace f)) (rangeMin S) t).t).t
        rw [hn1, hn2] at g3
        have g12 := g1.append (skipCellRange n (rangeMin (fromFace f)) (rangeMin S) t).t g2
          (by show lo S - 2 < lo S; omega) hin.1 (by show lo S - 2 ≤ hi S; omega)
        have g123 := g12.append (skipCellRange n (next (rangeMax S)) (next (rangeMax (fromFace f)))
          (updateEdges n IndexBuild.fuel (fromCellID S) (isFace S) ces
            (skipCellRange n (rangeMin (fromFace f)) (rangeMin S) t).t).t).t g3 (by omega) (by show lo (fromFace f) ≤ hi S + 2; omega)
          (by show hi S ≤ hi (fromFace f) + 2 - 2; omega)
        have e2 : hi (fromFace f) + 2 - 2 = hi (fromFace f) := by omega
        rw [e2] at g123
        exact g123
    · exact updateEdges_good Q hQ n IndexBuild.fuel (fromFace f) 0 true _ t hcf (by unfold IndexBuild.fuel; omega) hces


/-! ### the face edges of the whole build -/

/-- a face edge points to an existing edge of an existing shape and carries that edge's `maxLevelForEdge` -/
def FEQ (shapes : Array Shape) (fe : FaceEdge) : Prop :=
  fe.shapeID < shapes.size ∧ fe.edgeID < (shapes[fe.shapeID]!).edges.size ∧
  fe.maxLevel = maxLevelForEdge ((shapes[fe.shapeID]!).edges[fe.edgeID]!).1 ((shapes[fe.shapeID]!).edges[fe.edgeID]!).2

theorem avgEdgeMinLevel_le (v : F64) : avgEdgeMinLevel v ≤ 30 := by
  unfold avgEdgeMinLevel
  split
  · decide
  · simp only []
    split
    · decide
    · split
      · decide
      · omega

theorem maxLevelForEdge_le (a b : V3) : maxLevelForEdge a b ≤ 30 := avgEdgeMinLevel_le _

theorem FEQ_maxLevel (shapes : Array Shape) (fe : FaceEdge) (h : FEQ shapes fe) : fe.maxLevel ≤ 30 := by
  rw [h.2.2]; exact maxLevelForEdge_le _ _

theorem addFaceEdge_fields (fe : FaceEdge) : ∀ x ∈ addFaceEdge fe,
    x.2.shapeID = fe.shapeID ∧ x.2.edgeID = fe.edgeID ∧ x.2.maxLevel = fe.maxLevel := by
  intro x hx
  unfold addFaceEdge at hx
  simp only [] at hx
  split at hx
  · rename_i fe' hd
    simp at hx
    subst hx
    split at hd
    · split at hd
      · simp at hd; subst hd; exact ⟨rfl, rfl, rfl⟩
      · cases hd
    · cases hd
  · obtain ⟨face, _, hface⟩ := List.mem_filterMap.mp hx
    split at hface
    · simp at hface; subst hface; exact ⟨rfl, rfl, rfl⟩
    · cases hface

theorem allFaceEdges_FEQ (shapes : Array Shape) : ∀ x ∈ allFaceEdges shapes, FEQ shapes x.2 := by
  intro x hx
  unfold allFaceEdges at hx
  obtain ⟨id, hid, hx⟩ := List.mem_flatMap.mp hx
  unfold shapeFaceEdges at hx
  obtain ⟨e, he, hx⟩ := List.mem_flatMap.mp hx
  obtain ⟨h1, h2, h3⟩ := addFaceEdge_fields _ x hx
  simp only [] at h1 h2 h3
  have hid' : id < shapes.size := List.mem_range.mp hid
  have he' : e < (shapes[id]!).edges.size := List.mem_range.mp he
  unfold FEQ
  rw [h1, h2, h3]
  exact ⟨hid', he', rfl⟩

theorem faceEdgesOf_mem (all : List (Nat × FaceEdge)) (f : Nat) (fe : FaceEdge)
    (h : fe ∈ faceEdgesOf all f) : ∃ x ∈ all, x.2 = fe := by
  unfold faceEdgesOf at h
  obtain ⟨x, hx, hfe⟩ := List.mem_filterMap.mp h
  split at hfe
  · simp at hfe; exact ⟨x, hx, hfe⟩
  · cases hfe

/-- the invariant of the whole build -/
theorem buildRes_good (shapes : Array Shape) :
    Good (FEQ shapes) (lo (fromFace 0)) (hi (fromFace 5)) (buildRes shapes) := by
  have hQ := FEQ_maxLevel shapes
  have hall : ∀ f, ∀ fe ∈ faceEdgesOf (allFaceEdges shapes) f, FEQ shapes fe := by
    intro f fe hfe
    obtain ⟨x, hx, rfl⟩ := faceEdgesOf_mem _ _ _ hfe
    exact allFaceEdges_FEQ shapes x hx
  have step : ∀ f, f < 6 → ∀ t, Good (FEQ shapes) (lo (fromFace f)) (hi (fromFace f))
      (updateFaceEdges shapes.size f (faceEdgesOf (allFaceEdges shapes) f) t) :=
    fun f hf t => updateFaceEdges_good _ hQ _ f hf _ t (hall f)
  have o0 := face_order 0 (by omega)
  have o1 := face_order 1 (by omega)
  have o2 := face_order 2 (by omega)
  have o3 := face_order 3 (by omega)
  have o4 := face_order 4 (by omega)
  have w0 := valid_facts (S2Proofs.C01.fromFace_spec 0 (by omega)).2.1
  have w1 := valid_facts (S2Proofs.C01.fromFace_spec 1 (by omega)).2.1
  have w2 := valid_facts (S2Proofs.C01.fromFace_spec 2 (by omega)).2.1
  have w3 := valid_facts (S2Proofs.C01.fromFace_spec 3 (by omega)).2.1
  have w4 := valid_facts (S2Proofs.C01.fromFace_spec 4 (by omega)).2.1
  have w5 := valid_facts (S2Proofs.C01.fromFace_spec 5 (by omega)).2.1
  simp only [Nat.zero_add, Nat.reduceAdd] at o0 o1 o2 o3 o4
  unfold buildRes
  have hr : List.range 6 = [0, 1, 2, 3, 4, 5] := by decide
  rw [hr]
  have fs : ∀ {a b : Nat} {r : Res} (f : Nat), f < 6 → Good (FEQ shapes) a b r → b < lo (fromFace f) →
      a ≤ lo (fromFace f) → b ≤ hi (fromFace f) →
      Good (FEQ shapes) a (hi (fromFace f)) (faceStep shapes.size (allFaceEdges shapes) r f) :=
    fun f hf hr h1 h2 h3 => hr.append _ (step f hf _) h1 h2 h3
  have g0 : Good (FEQ shapes) (lo (fromFace 0)) (lo (fromFace 0) - 1) ⟨[], initialTracker shapes, true⟩ :=
    ⟨Span.nil _ _, rfl, by simp⟩
  have g1 := fs 0 (by omega) g0 (by omega) (Nat.le_refl _) (by omega)
  have g2 := fs 1 (by omega) g1 (by omega) (by omega) (by omega)
  have g3 := fs 2 (by omega) g2 (by omega) (by omega) (by omega)
  have g4 := fs 3 (by omega) g3 (by omega) (by omega) (by omega)
  have g5 := fs 4 (by omega) g4 (by omega) (by omega) (by omega)
  have g6 := fs 5 (by omega) g5 (by omega) (by omega) (by omega)
  exact g6

end S2Proofs.C06BuildH
