/-
  S2Proofs.C06.Build — helper lemmas about the ShapeIndex construction model `S2.IndexBuild`
  (used by S2Proofs.Properties.C06_Build).

  * child clipping never changes the `faceEdge` a clipped edge points to (`*_fe`), and the child
    lists are order-preserving sub-selections of the parent list (`childEdges_sublist`)
  * the shape of `makeIndexCell`'s result (`makeIndexCell_none`, `makeIndexCell_some`)
  * `Span a b cells`: valid cells with leaf ranges inside `[a, b]`, strictly increasing and disjoint;
    closure under the concatenations the builder performs
-/
import S2.IndexBuild
import S2Proofs.C06.PaddedCell
import S2Proofs.CU.Basic
import S2Proofs.CU.Normal
open S2 S2.CellID S2.Hilbert S2.PaddedCellM S2.IndexBuild S2Proofs.C12H S2Proofs.C06PC
namespace S2Proofs.C06BuildH

/-! ### clipping keeps the face edge -/

theorem clipUBound_fe (e : ClippedEdge) (uEnd : Nat) (u : F64) : (clipUBound e uEnd u).fe = e.fe := by
  unfold clipUBound
  by_cases h : (if uEnd == 0 then F64.ge e.bound.1.1 u else F64.le e.bound.1.2 u) = true
  · rw [if_pos h]
  · rw [if_neg h]; rfl

theorem clipVBound_fe (e : ClippedEdge) (vEnd : Nat) (v : F64) : (clipVBound e vEnd v).fe = e.fe := by
  unfold clipVBound
  by_cases h : (if vEnd == 0 then F64.ge e.bound.2.1 v else F64.le e.bound.2.2 v) = true
  · rw [if_pos h]
  · rw [if_neg h]; rfl

theorem clipVAxis_fe (e : ClippedEdge) (m : CellM.Ivl) :
    (∀ x, (clipVAxis e m).1 = some x → x.fe = e.fe) ∧ (∀ x, (clipVAxis e m).2 = some x → x.fe = e.fe) := by
  unfold clipVAxis
  by_cases h1 : F64.le e.bound.2.2 m.1 = true
  · simp only [h1, ↓reduceIte]
    refine ⟨?_, ?_⟩
    · intro x h; simp at h; subst h; rfl
    · intro x h; simp at h
  · simp only [h1, ↓reduceIte]
    by_cases h2 : F64.ge e.bound.2.1 m.2 = true
    · simp only [h2, ↓reduceIte]
      refine ⟨?_, ?_⟩
      · intro x h; simp at h
      · intro x h; simp at h; subst h; rfl
    · simp only [h2, ↓reduceIte]
      refine ⟨?_, ?_⟩
      · intro x h; simp at h; subst h; exact clipVBound_fe _ _ _
      · intro x h; simp at h; subst h; exact clipVBound_fe _ _ _

theorem edgeChildren_fe (mid : CellM.Rect2) (e : ClippedEdge) (i j : Nat) (x : ClippedEdge)
    (h : (edgeChildren mid e).get i j = some x) : x.fe = e.fe := by
  have hv := clipVAxis_fe e mid.2
  have hl := clipVAxis_fe (clipUBound e 1 mid.1.2) mid.2
  have hr := clipVAxis_fe (clipUBound e 0 mid.1.1) mid.2
  have hu1 := clipUBound_fe e 1 mid.1.2
  have hu0 := clipUBound_fe e 0 mid.1.1
  have key : (∀ x, (edgeChildren mid e).c00 = some x → x.fe = e.fe) ∧
      (∀ x, (edgeChildren mid e).c01 = some x → x.fe = e.fe) ∧
      (∀ x, (edgeChildren mid e).c10 = some x → x.fe = e.fe) ∧
      (∀ x, (edgeChildren mid e).c11 = some x → x.fe = e.fe) := by
    unfold edgeChildren
    by_cases h1 : F64.le e.bound.1.2 mid.1.1 = true
    · simp only [h1, ↓reduceIte]
      exact ⟨hv.1, hv.2, (fun x h => by simp at h), (fun x h => by simp at h)⟩
    · simp only [h1, ↓reduceIte]
      by_cases h2 : F64.ge e.bound.1.1 mid.1.2 = true
      · simp only [h2, ↓reduceIte]
        exact ⟨(fun x h => by simp at h), (fun x h => by simp at h), hv.1, hv.2⟩
      · simp only [h2, ↓reduceIte]
        by_cases h3 : F64.le e.bound.2.2 mid.2.1 = true
        · simp only [h3, ↓reduceIte]
          exact ⟨(fun x h => by simp at h; subst h; exact hu1), (fun x h => by simp at h),
            (fun x h => by simp at h; subst h; exact hu0), (fun x h => by simp at h)⟩
        · simp only [h3, ↓reduceIte]
          by_cases h4 : F64.ge e.bound.2.1 mid.2.2 = true
          · simp only [h4, ↓reduceIte]
            exact ⟨(fun x h => by simp at h), (fun x h => by simp at h; subst h; exact hu1),
              (fun x h => by simp at h), (fun x h => by simp at h; subst h; exact hu0)⟩
          · simp only [h4, ↓reduceIte]
            exact ⟨fun x h => (hl.1 x h).trans hu1, fun x h => (hl.2 x h).trans hu1,
              fun x h => (hr.1 x h).trans hu0, fun x h => (hr.2 x h).trans hu0⟩
  unfold Quad.get at h
  by_cases hi : (i == 0) = true <;> by_cases hj : (j == 0) = true <;> simp only [hi, hj, ↓reduceIte] at h
  · exact key.1 x h
  · exact key.2.1 x h
  · exact key.2.2.1 x h
  · exact key.2.2.2 x h

/-- the face edges of a child list are an order-preserving sub-selection of the parent's -/
theorem childEdges_sublist (mid : CellM.Rect2) (edges : List ClippedEdge) (i j : Nat) :
    List.Sublist ((childEdges (edges.map (edgeChildren mid)) i j).map (·.fe)) (edges.map (·.fe)) := by
  induction edges with
  | nil => simp [childEdges]
  | cons e es ih =>
    unfold childEdges at ih ⊢
    rw [List.map_cons, List.filterMap_cons]
    cases hq : (edgeChildren mid e).get i j with
    | none => simpa using List.Sublist.cons _ ih
    | some x =>
      have hx := edgeChildren_fe mid e i j x hq
      simp only [List.map_cons, hx]
      exact List.Sublist.cons_cons _ ih

theorem childEdges_mem (mid : CellM.Rect2) (edges : List ClippedEdge) (i j : Nat) (x : ClippedEdge)
    (h : x ∈ childEdges (edges.map (edgeChildren mid)) i j) : ∃ e ∈ edges, x.fe = e.fe := by
  have hs := (childEdges_sublist mid edges i j).subset (List.mem_map_of_mem (f := (·.fe)) h)
  obtain ⟨e, he, hfe⟩ := List.mem_map.mp hs
  exact ⟨e, he, hfe.symm⟩

/-! ### makeIndexCell -/

theorem countExceeds_true (lvl : Nat) : ∀ (es : List ClippedEdge) (c : Nat), c ≤ maxEdgesPerCell →
    countExceeds lvl c es = true → ∃ e ∈ es, lvl < e.fe.maxLevel := by
  intro es
  induction es with
  | nil => intro c _ h; simp [countExceeds] at h
  | cons e es ih =>
    intro c hc h
    by_cases hl : lvl < e.fe.maxLevel
    · exact ⟨e, List.mem_cons_self, hl⟩
    · unfold countExceeds at h
      simp only [hl, if_false] at h
      split at h
      · omega
      · obtain ⟨e', he', hl'⟩ := ih c hc h
        exact ⟨e', List.mem_cons_of_mem _ he', hl'⟩

theorem countExceeds_false (lvl : Nat) : ∀ (es : List ClippedEdge) (c : Nat),
    countExceeds lvl c es = false →
      c + (es.filter fun e => decide (lvl < e.fe.maxLevel)).length ≤ maxEdgesPerCell ∨ maxEdgesPerCell < c := by
  intro es
  induction es with
  | nil => intro c _; simp; omega
  | cons e es ih =>
    intro c h
    unfold countExceeds at h
    by_cases hl : lvl < e.fe.maxLevel
    · simp only [hl, if_true] at h
      split at h
      · cases h
      · rcases ih (c + 1) h with h' | h'
        · left; simp only [List.filter_cons, hl, decide_true, if_true, List.length_cons]; omega
        · omega
    · simp only [hl, if_false] at h
      split at h
      · cases h
      · rcases ih c h with h' | h'
        · left; simp only [List.filter_cons, hl, decide_false]; simpa using h'
        · right; exact h'

/-- the result of `makeIndexCell`: subdivide (too many short edges), nothing, or exactly the cell `p.id` -/
theorem makeIndexCell_cases (n : Nat) (p : PaddedCell) (es : List ClippedEdge) (t : Tracker) :
    (makeIndexCell n p es t = none ∧ countExceeds p.level 0 es = true) ∨
    (makeIndexCell n p es t = some ([], t)) ∨
    (∃ cs t', makeIndexCell n p es t = some ([⟨p.id, fillShapes n (countShapes es cs) es cs⟩], t') ∧
      countExceeds p.level 0 es = false) := by
  unfold makeIndexCell
  by_cases h0 : (es.isEmpty && t.shapeIDs.isEmpty) = true
  · right; left; rw [if_pos h0]
  · rw [if_neg h0]
    by_cases h1 : countExceeds p.level 0 es = true
    · left; rw [if_pos h1]; exact ⟨rfl, h1⟩
    · right; right; rw [if_neg h1]
      exact ⟨_, _, rfl, by simpa using h1⟩

/-! ### what `fillShapes` lists -/

/-- `(shape id, edge id)` of a clipped edge -/
def key (ce : ClippedEdge) : Nat × Nat := (ce.fe.shapeID, ce.fe.edgeID)

/-- the `(shape id, edge id)` pairs listed in a list of clipped shapes, in order -/
def listedPairs (sh : List Clipped) : List (Nat × Nat) :=
  sh.flatMap fun cl => cl.edges.map fun e => (cl.shapeID, e)

theorem takeWhile_key (eid : Nat) (es : List ClippedEdge) :
    ((es.takeWhile fun e => e.fe.shapeID == eid).map (·.fe.edgeID)).map (fun e => (eid, e)) =
      (es.takeWhile fun e => e.fe.shapeID == eid).map key := by
  induction es with
  | nil => rfl
  | cons e es ih =>
    by_cases h : (e.fe.shapeID == eid) = true
    · simp only [List.takeWhile_cons, h, if_true, List.map_cons, ih]
      have : e.fe.shapeID = eid := by simpa using h
      simp [key, this]
    · simp [List.takeWhile_cons, h]

/-- the pairs listed by the merge loop are an order-preserving sub-selection of the edge list -/
theorem fillShapes_sublist (s : Nat) : ∀ (n : Nat) (es : List ClippedEdge) (cs : List Nat),
    List.Sublist (listedPairs (fillShapes s n es cs)) (es.map key) := by
  intro n
  induction n with
  | zero => intro es cs; simp [fillShapes, listedPairs]
  | succ n ih =>
    intro es cs
    unfold fillShapes
    simp only []
    generalize headShapeID s es = eid
    generalize headID s cs = cid
    have hsplit : es.map key =
        (es.takeWhile fun e => e.fe.shapeID == eid).map key ++
        (es.dropWhile fun e => e.fe.shapeID == eid).map key := by
      rw [← List.map_append, List.takeWhile_append_dropWhile]
    by_cases h1 : cid < eid
    · rw [if_pos h1]
      simp only [listedPairs, List.flatMap_cons, List.map_nil, List.nil_append]
      exact ih es cs.tail
    · rw [if_neg h1]
      by_cases h2 : (cid == eid) = true
      · rw [if_pos h2]
        simp only [listedPairs, List.flatMap_cons]
        rw [hsplit, takeWhile_key]
        exact List.Sublist.append (List.Sublist.refl _) (ih _ _)
      · rw [if_neg h2]
        simp only [listedPairs, List.flatMap_cons]
        rw [hsplit, takeWhile_key]
        exact List.Sublist.append (List.Sublist.refl _) (ih _ _)

/-! ### `Span` -/

/-- valid cells whose leaf ranges lie inside `[a, b]`, strictly increasing and pairwise disjoint -/
def Span (a b : Nat) (cells : List IndexCell) : Prop :=
  (∀ x ∈ cells, isValid x.id = true ∧ a ≤ lo x.id ∧ hi x.id ≤ b) ∧
  List.Pairwise (fun x y : IndexCell => hi x.id < lo y.id) cells

theorem Span.nil (a b : Nat) : Span a b [] := ⟨by simp, List.Pairwise.nil⟩

theorem Span.single {a b : Nat} {c : CellID} (sh : List Clipped) (hc : isValid c = true)
    (ha : a ≤ lo c) (hb : hi c ≤ b) : Span a b [⟨c, sh⟩] :=
  ⟨by intro x hx; simp at hx; subst hx; exact ⟨hc, ha, hb⟩, List.pairwise_singleton _ _⟩

theorem Span.mono {a b a' b' : Nat} {l : List IndexCell} (h : Span a b l) (ha : a' ≤ a) (hb : b ≤ b') :
    Span a' b' l :=
  ⟨fun x hx => ⟨(h.1 x hx).1, Nat.le_trans ha (h.1 x hx).2.1, Nat.le_trans (h.1 x hx).2.2 hb⟩, h.2⟩

theorem Span.append {a b a' b' : Nat} {l1 l2 : List IndexCell} (h1 : Span a b l1) (h2 : Span a' b' l2)
    (hlt : b < a') (ha : a ≤ a') (hb : b ≤ b') : Span a b' (l1 ++ l2) := by
  refine ⟨?_, ?_⟩
  · intro x hx
    rcases List.mem_append.mp hx with hx | hx
    · exact ⟨(h1.1 x hx).1, (h1.1 x hx).2.1, Nat.le_trans (h1.1 x hx).2.2 hb⟩
    · exact ⟨(h2.1 x hx).1, Nat.le_trans ha (h2.1 x hx).2.1, (h2.1 x hx).2.2⟩
  · rw [List.pairwise_append]
    refine ⟨h1.2, h2.2, ?_⟩
    intro x hx y hy
    have := (h1.1 x hx).2.2
    have := (h2.1 y hy).2.1
    omega

/-! ### the invariant of `updateEdges` -/

/-- per-cell invariant: the pairs listed in `x` are an order-preserving sub-selection of an edge list
    all of whose face edges satisfy `Q` and which passed the counting loop at the level of `x` -/
def CellInv (Q : FaceEdge → Prop) (x : IndexCell) : Prop :=
  ∃ es' : List ClippedEdge, (∀ ce ∈ es', Q ce.fe) ∧ countExceeds (level x.id) 0 es' = false ∧
    List.Sublist (listedPairs x.shapes) (es'.map key)

/-- result invariant: cells valid / inside `[a,b]` / increasing / disjoint, fuel not exhausted,
    every cell satisfies `CellInv` -/
def Good (Q : FaceEdge → Prop) (a b : Nat) (r : Res) : Prop :=
  Span a b r.cells ∧ r.ok = true ∧ ∀ x ∈ r.cells, CellInv Q x

theorem Good.append {Q : FaceEdge → Prop} {a b a' b' : Nat} {r r' : Res} (t : Tracker) (h1 : Good Q a b r)
    (h2 : Good Q a' b' r') (hlt : b < a') (ha : a ≤ a') (hb : b ≤ b') :
    Good Q a b' ⟨r.cells ++ r'.cells, t, r.ok && r'.ok⟩ := by
  refine ⟨h1.1.append h2.1 hlt ha hb, by simp [h1.2.1, h2.2.1], ?_⟩
  intro x hx
  rcases List.mem_append.mp hx with hx | hx
  · exact h1.2.2 x hx
  · exact h2.2.2 x hx

theorem Good.mono {Q : FaceEdge → Prop} {a b a' b' : Nat} {r : Res} (h : Good Q a b r) (ha : a' ≤ a)
    (hb : b ≤ b') : Good Q a' b' r := ⟨h.1.mono ha hb, h.2⟩

theorem visitChild_good {Q : FaceEdge → Prop} {recur : PaddedCell → List ClippedEdge → Tracker → Res}
    {c : CellID} {k : Nat} (hc : IsCell c k) (hk : k < 30) {pos : Nat} (hpos : pos < 4) (quads : List Quad)
    (hrec : ∀ t, Good Q (lo (child c pos)) (hi (child c pos))
      (recur (fromCellID (child c pos))
        (childEdges quads (childIJ (fromCellID c) pos).1 (childIJ (fromCellID c) pos).2) t))
    {a b : Nat} {r : Res} (hr : Good Q a b r) (hlt : b < lo (child c pos)) (ha : a ≤ lo (child c pos))
    (hb : b ≤ hi (child c pos)) :
    Good Q a (hi (child c pos)) (visitChild recur (fromCellID c) quads r pos) := by
  have e : fromParentIJ (fromCellID c) (childIJ (fromCellID c) pos).1 (childIJ (fromCellID c) pos).2 =
      fromCellID (child c pos) := childAtPos_fromCellID hc hk hpos
  unfold visitChild
  simp only []
  split
  · rw [e]
    exact hr.append _ (hrec r.t) hlt ha hb
  · exact hr.mono (Nat.le_refl _) hb

theorem subdivide_good {Q : FaceEdge → Prop} {recur : PaddedCell → List ClippedEdge → Tracker → Res}
    {c : CellID} {k : Nat} (hc : IsCell c k) (hk : k < 30) (pre : Bool) (es : List ClippedEdge) (t : Tracker)
    (hrec : ∀ pos, pos < 4 → ∀ t', Good Q (lo (child c pos)) (hi (child c pos))
      (recur (fromCellID (child c pos))
        (childEdges (es.map (edgeChildren (middle (fromCellID c) cellPadding pre)))
          (childIJ (fromCellID c) pos).1 (childIJ (fromCellID c) pos).2) t')) :
    Good Q (lo c) (hi c) (subdivide recur (fromCellID c) pre es t) := by
  obtain ⟨h0, h3, hstep⟩ := hc.child_ranges hk
  have v0 := valid_facts ((isValid_iff _).mpr ⟨_, hc.child_isCell hk (show 0 < 4 by omega)⟩)
  have v1 := valid_facts ((isValid_iff _).mpr ⟨_, hc.child_isCell hk (show 1 < 4 by omega)⟩)
  have v2 := valid_facts ((isValid_iff _).mpr ⟨_, hc.child_isCell hk (show 2 < 4 by omega)⟩)
  have v3 := valid_facts ((isValid_iff _).mpr ⟨_, hc.child_isCell hk (show 3 < 4 by omega)⟩)
  have vc := valid_facts ((isValid_iff _).mpr ⟨_, hc⟩)
  have s0 := hstep 0 (by omega)
  have s1 := hstep 1 (by omega)
  have s2 := hstep 2 (by omega)
  have e0 : lo (child c 0) = lo c := congrArg UInt64.toNat h0
  have e3 : hi (child c 3) = hi c := congrArg UInt64.toNat h3
  have s0' : hi (child c 0) + 2 = lo (child c 1) := s0
  have s1' : hi (child c 1) + 2 = lo (child c 2) := s1
  have s2' : hi (child c 2) + 2 = lo (child c 3) := s2
  unfold subdivide
  simp only []
  have g0 : Good Q (lo c) (lo c - 1) ⟨[], t, true⟩ := ⟨Span.nil _ _, rfl, by simp⟩
  have g1 := visitChild_good hc hk (show 0 < 4 by omega) _ (hrec 0 (by omega)) g0 (by omega) (by omega) (by omega)
  have g2 := visitChild_good hc hk (show 1 < 4 by omega) _ (hrec 1 (by omega)) g1 (by omega) (by omega) (by omega)
  have g3 := visitChild_good hc hk (show 2 < 4 by omega) _ (hrec 2 (by omega)) g2 (by omega) (by omega) (by omega)
  have g4 := visitChild_good hc hk (show 3 < 4 by omega) _ (hrec 3 (by omega)) g3 (by omega) (by omega) (by omega)
  rw [e3] at g4
  exact g4

/-- The invariant of `updateEdges` on the padded cell of a level-`k` cell `c`, with enough fuel for the
    remaining levels, on edges whose face edges satisfy `Q` (which bounds `maxLevel` by 30). -/
theorem updateEdges_good (Q : FaceEdge → Prop) (hQ : ∀ fe, Q fe → fe.maxLevel ≤ 30) (n : Nat) :
    ∀ (fuel : Nat) (c : CellID) (k : Nat) (pre : Bool) (es : List ClippedEdge) (t : Tracker),
      IsCell c k → 31 ≤ k + fuel → (∀ ce ∈ es, Q ce.fe) →
      Good Q (lo c) (hi c) (updateEdges n fuel (fromCellID c) pre es t) := by
  intro fuel
  induction fuel with
  | zero => intro c k pre es t hc hf _; have := hc.k_le; omega
  | succ fuel ih =>
    intro c k pre es t hc hf hes
    have hv : isValid c = true := (isValid_iff _).mpr ⟨_, hc⟩
    have vc := valid_facts hv
    unfold updateEdges
    rcases makeIndexCell_cases n (fromCellID c) es t with ⟨h, hce⟩ | h | ⟨cs, t', h, hce⟩
    · rw [h]
      simp only []
      obtain ⟨e, he, hl⟩ := countExceeds_true _ es 0 (by decide) hce
      rw [fromCellID_level hc] at hl
      have hk : k < 30 := by have := hQ _ (hes e he); omega
      apply subdivide_good hc hk
      intro pos hpos t'
      apply ih (child c pos) (k + 1) false _ t' (hc.child_isCell hk hpos) (by omega)
      intro ce hce'
      obtain ⟨e', he', hfe⟩ := childEdges_mem _ es _ _ ce hce'
      rw [hfe]; exact hes e' he'
    · rw [h]
      exact ⟨Span.nil _ _, rfl, by simp⟩
    · rw [h]
      simp only []
      rw [fromCellID_id]
      refine ⟨Span.single _ hv (Nat.le_refl _) (Nat.le_refl _), rfl, ?_⟩
      intro x hx
      simp at hx
      subst hx
      refine ⟨es, hes, ?_, fillShapes_sublist _ _ _ _⟩
      show countExceeds (level c) 0 es = false
      rw [hc.level_eq, ← fromCellID_level hc]; exact hce

end S2Proofs.C06BuildH
