/-
  S2Proofs.C06.BuildStruct — UNCONDITIONAL structure of every cell of the built index, by the build induction with
  the trivial clipping relation (`Meets = False`): every cell was filled by the merge loop from a `MergeInput`
  (edge list strictly increasing in (shape id, edge id) and pointing to existing shape edges, tracker list strictly
  increasing below the sentinel and consisting of 2-dimensional shapes only).  Consequences (`CellFacts`):
  clipped shapes strictly increasing in shape id and below `#shapes` (also the interior-only entries), edge ids of
  each clipped shape strictly increasing and in range, `containsCenter = false` for shapes without interior.
-/
import S2Proofs.C06.BuildSorted
import S2Proofs.C06.BuildFill
import S2Proofs.C06.BuildInit
import S2Proofs.C06.BuildParity
open S2 S2.CellID S2.Hilbert S2.PaddedCellM S2.IndexBuild S2Proofs.C12H S2Proofs.C06PC
namespace S2Proofs.C06BuildH

/-- every id of the tracker list is a shape with an interior -/
def Tr2 (shapes : Array Shape) (t : Tracker) : Prop := ∀ c ∈ t.shapeIDs, (shapes[c]!).dim = 2

theorem toggle_sub (id : Nat) : ∀ (l : List Nat) (x : Nat), x ∈ toggle id l → x ∈ l ∨ x = id := by
  intro l
  induction l with
  | nil => intro x hx; simp [toggle] at hx; exact Or.inr hx
  | cons s rest ih =>
    intro x hx
    unfold toggle at hx
    split at hx
    · rcases List.mem_cons.mp hx with h | h
      · exact Or.inl (by rw [h]; exact List.mem_cons_self)
      · rcases ih x h with h | h
        · exact Or.inl (List.mem_cons_of_mem _ h)
        · exact Or.inr h
    · split at hx
      · exact Or.inl (List.mem_cons_of_mem _ hx)
      · rcases List.mem_cons.mp hx with h | h
        · exact Or.inr h
        · exact Or.inl h

theorem testAllEdges_sub : ∀ (es : List ClippedEdge) (t : Tracker) (c : Nat), c ∈ (testAllEdges es t).shapeIDs →
    c ∈ t.shapeIDs ∨ ∃ e ∈ es, e.fe.hasInterior = true ∧ e.fe.shapeID = c := by
  intro es
  induction es with
  | nil => intro t c hc; exact Or.inl hc
  | cons e es ih =>
    intro t c hc
    rw [testAllEdges_cons] at hc
    by_cases hint : e.fe.hasInterior = true
    · simp only [hint, if_true] at hc
      rcases ih _ c hc with h | ⟨e', he', h'⟩
      · rw [testEdge_shapeIDs] at h
        split at h
        · rcases toggle_sub _ _ _ h with h | h
          · exact Or.inl h
          · exact Or.inr ⟨e, List.mem_cons_self, hint, h.symm⟩
        · exact Or.inl h
      · exact Or.inr ⟨e', List.mem_cons_of_mem _ he', h'⟩
    · simp only [hint, if_false] at hc
      rcases ih _ c hc with h | ⟨e', he', h'⟩
      · exact Or.inl h
      · exact Or.inr ⟨e', List.mem_cons_of_mem _ he', h'⟩

theorem Tr2_testAllEdges (shapes : Array Shape) (es : List ClippedEdge) (t : Tracker) (ht : Tr2 shapes t)
    (hes : ∀ ce ∈ es, FEQ2 shapes ce.fe) : Tr2 shapes (testAllEdges es t) := by
  intro c hc
  rcases testAllEdges_sub es t c hc with h | ⟨e, he, hint, hsid⟩
  · exact ht c h
  · obtain ⟨_, _, _, h2⟩ := hes e he
    rw [hint, hsid] at h2
    simpa using h2.symm

theorem Tr2_t1Of (shapes : Array Shape) (p : PaddedCell) (es : List ClippedEdge) (t : Tracker) (ht : Tr2 shapes t)
    (hes : ∀ ce ∈ es, FEQ2 shapes ce.fe) : Tr2 shapes (t1Of p es t) := by
  unfold t1Of
  split
  · apply Tr2_testAllEdges shapes es _ _ hes
    show Tr2 shapes ((t0Of p t).drawTo (center p))
    unfold Tr2
    show ∀ c ∈ (t0Of p t).shapeIDs, (shapes[c]!).dim = 2
    rw [t0Of_shapeIDs]; exact ht
  · exact ht

theorem Tr2_t2Of (shapes : Array Shape) (p : PaddedCell) (es : List ClippedEdge) (t : Tracker) (ht : Tr2 shapes t)
    (hes : ∀ ce ∈ es, FEQ2 shapes ce.fe) : Tr2 shapes (t2Of p es t) := by
  have h1 := Tr2_t1Of shapes p es t ht hes
  unfold t2Of
  split
  · exact Tr2_testAllEdges shapes es ((t1Of p es t).drawTo (exitVertex p)) h1 hes
  · exact h1

theorem Tr2_initialTracker (shapes : Array Shape) : Tr2 shapes (initialTracker shapes) := by
  intro c hc
  have hlt := (TrOK_initialTracker shapes).2 c hc
  have := initialTracker_mem shapes c hlt
  rw [decide_eq_true hc] at this
  have h2 : ((shapes[c]!).dim == 2) = true := by
    cases h : ((shapes[c]!).dim == 2) with
    | true => rfl
    | false => rw [h] at this; simp at this
  simpa using h2

/-- the trivial clipping relation: nothing meets anything -/
theorem clipSound_trivial : ClipSound (fun (_ : FaceEdge) (_ : CellID) => False) (fun (_ : ClippedEdge) (_ : CellID) => True) :=
  ⟨fun _ _ _ _ _ _ _ h => h, fun _ _ _ _ _ _ _ _ _ _ _ => trivial, fun _ _ _ _ _ _ _ _ _ h => h.elim⟩

/-- the cell was filled by the merge loop from a well-formed input -/
def CellStruct (shapes : Array Shape) (x : IndexCell) : Prop :=
  ∃ (es : List ClippedEdge) (cs : List Nat),
    x.shapes = fillShapes shapes.size (countShapes es cs) es cs ∧ MergeInput shapes.size none es cs ∧
    List.Pairwise FLt (es.map (·.fe)) ∧ (∀ ce ∈ es, FEQ2 shapes ce.fe) ∧ (∀ c ∈ cs, (shapes[c]!).dim = 2)

theorem buildStep_struct (shapes : Array Shape) :
    BuildStep shapes.size (fun _ => True) (fun t _ => TrOK shapes.size t ∧ Tr2 shapes t)
      (EdgesOK shapes (fun _ _ => False) (fun _ _ => True)) (CellStruct shapes) where
  lvl := fun c es h ce hce => FEQ_maxLevel shapes _ (h.feq ce hce).1
  ch := fun c k pre es pos hc hk hpos hE => hE.toChild clipSound_trivial pre hc hk hpos
  skip := fun t b e _ hT _ => hT
  make := by
    intro c k es t cells t' hc hE hT hmk _
    rw [makeIndexCell_eq] at hmk
    split at hmk
    · simp only [Option.some.injEq, Prod.mk.injEq] at hmk
      obtain ⟨rfl, rfl⟩ := hmk
      exact ⟨hT, by simp⟩
    · split at hmk
      · cases hmk
      · simp only [Option.some.injEq, Prod.mk.injEq] at hmk
        obtain ⟨rfl, rfl⟩ := hmk
        refine ⟨⟨TrOK_t2Of _ _ es t hT.1 hE.sid_lt, Tr2_t2Of shapes _ es t hT.2 hE.feq⟩, ?_⟩
        intro x hx
        simp only [List.mem_singleton] at hx
        subst hx
        exact ⟨es, _, rfl, hE.mergeInput (TrOK_t1Of _ _ es t hT.1 hE.sid_lt), hE.sorted, hE.feq,
          Tr2_t1Of shapes _ es t hT.2 hE.feq⟩

/-- every cell of the built index was filled by the merge loop from a well-formed input — unconditional -/
theorem build_cellStruct (shapes : Array Shape) : ∀ x ∈ build shapes, CellStruct shapes x := by
  unfold build buildRes
  apply buildRes_ind (buildStep_struct shapes) (allFaceEdges shapes) (initialTracker shapes)
    ⟨TrOK_initialTracker shapes, Tr2_initialTracker shapes⟩
    (fun f hf => EdgesOK.atRoot f hf (fun _ _ => trivial))
  · intro f hf c hv h1 h2 hdis
    exact EdgesOK.ofClear (fun _ _ _ _ _ _ h => h)
  · intro f hf hnil c hv h1 h2
    exact EdgesOK.ofClear (fun _ _ _ _ _ _ h => h)
  · intro _ _; trivial

/-- what the structure gives about the clipped shapes of a cell -/
structure CellFacts (shapes : Array Shape) (x : IndexCell) : Prop where
  /-- clipped shapes strictly increasing in shape id -/
  sorted : List.Pairwise (fun a b : Clipped => a.shapeID < b.shapeID) x.shapes
  /-- every shape id (also of interior-only entries) is below the number of shapes -/
  sid_lt : ∀ cl ∈ x.shapes, cl.shapeID < shapes.size
  /-- edge ids of a clipped shape strictly increasing -/
  edges_sorted : ∀ cl ∈ x.shapes, List.Pairwise (fun a b : Nat => a < b) cl.edges
  /-- edge ids in range -/
  edges_lt : ∀ cl ∈ x.shapes, ∀ e ∈ cl.edges, e < (shapes[cl.shapeID]!).edges.size
  /-- shapes without interior never "contain the centre" -/
  lowDim : ∀ cl ∈ x.shapes, (shapes[cl.shapeID]!).dim ≠ 2 → cl.containsCenter = false

theorem CellStruct.facts {shapes : Array Shape} {x : IndexCell} (h : CellStruct shapes x) : CellFacts shapes x := by
  obtain ⟨es, cs, hx, hmi, hsorted, hfeq, hcs2⟩ := h
  have hentry := fillShapes_entry shapes.size es cs hmi
  rw [← hx] at hentry
  refine ⟨?_, ?_, ?_, ?_, ?_⟩
  · rw [hx]; exact fillShapes_sorted shapes.size es cs hmi
  · intro cl hcl
    rcases (hentry cl hcl).2.2 with h | ⟨e, he, h⟩
    · exact hmi.cs_lt _ h
    · rw [← h]; exact hmi.es_lt e he
  · intro cl hcl
    rw [(hentry cl hcl).2.1]
    exact shapeEdgeIDs_lt cl.shapeID es hsorted
  · intro cl hcl e he
    rw [(hentry cl hcl).2.1] at he
    obtain ⟨ce, hce, hsid, heid⟩ := (mem_shapeEdgeIDs cl.shapeID es e).mp he
    have := (hfeq ce hce).1.2.1
    rw [hsid, heid] at this
    exact this
  · intro cl hcl hdim
    rw [(hentry cl hcl).1]
    apply decide_eq_false
    intro hmem
    exact hdim (hcs2 _ hmem)

end S2Proofs.C06BuildH
