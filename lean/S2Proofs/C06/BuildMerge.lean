/-
  S2Proofs.C06.BuildMerge — the merge loop of `makeIndexCell` (`countShapes` sizes the cell, `fillShapes`
  fills it) lists every edge it is given, provided the edge list is sorted by shape id, the tracker's
  id list is strictly increasing and all ids are below the sentinel `int32(s.Len())`.
  Also: `toggleShape` as a set operation on strictly increasing lists.
-/
import S2Proofs.C06.Build
open S2 S2.CellID S2.IndexBuild S2Proofs.C06BuildH
namespace S2Proofs.C06BuildH

/-! ### the merge loop of `makeIndexCell` is complete on sorted input -/

theorem skipContaining_add (a d : Nat) : ∀ (cs : List Nat) (c : Nat),
    skipContaining a (c + d) cs = ((skipContaining a c cs).1 + d, (skipContaining a c cs).2) := by
  intro cs
  induction cs with
  | nil => intro c; simp [skipContaining]
  | cons x xs ih =>
    intro c
    unfold skipContaining
    by_cases h1 : x > a
    · simp [h1]
    · simp only [h1, if_false]
      by_cases h2 : x < a
      · simp only [h2, if_true]
        have : c + d + 1 = (c + 1) + d := by omega
        rw [this]; exact ih (c + 1)
      · simp only [h2, if_false]; exact ih c

theorem countShapesGo_add (d : Nat) : ∀ (es : List ClippedEdge) (last : Option Nat) (c : Nat) (cs : List Nat),
    countShapesGo last (c + d) es cs = countShapesGo last c es cs + d := by
  intro es
  induction es with
  | nil => intro last c cs; simp [countShapesGo]; omega
  | cons e es ih =>
    intro last c cs
    unfold countShapesGo
    by_cases h : (last == some e.fe.shapeID) = true
    · simp only [h, if_true]; exact ih last c cs
    · simp only [h, if_false]
      have : c + d + 1 = (c + 1) + d := by omega
      rw [this, skipContaining_add]
      simp only []
      exact ih _ _ _

/-- within a run (`last = some a`) the edges of shape `a` are skipped -/
theorem countShapesGo_dropRun (a : Nat) : ∀ (es : List ClippedEdge) (c : Nat) (cs : List Nat),
    countShapesGo (some a) c es cs =
      countShapesGo (some a) c (es.dropWhile fun e => e.fe.shapeID == a) cs := by
  intro es
  induction es with
  | nil => intro c cs; rfl
  | cons e es ih =>
    intro c cs
    by_cases h : (e.fe.shapeID == a) = true
    · have ha : e.fe.shapeID = a := by simpa using h
      rw [List.dropWhile_cons, if_pos h]
      conv => lhs; unfold countShapesGo
      simp only [ha, beq_self_eq_true, if_true]
      exact ih c cs
    · rw [List.dropWhile_cons, if_neg h]

/-- edge list sorted by shape id, id list strictly increasing, everything below the sentinel and above `last` -/
structure MergeInput (s : Nat) (last : Option Nat) (es : List ClippedEdge) (cs : List Nat) : Prop where
  es_sorted : List.Pairwise (fun x y : ClippedEdge => x.fe.shapeID ≤ y.fe.shapeID) es
  cs_sorted : List.Pairwise (fun x y : Nat => x < y) cs
  es_lt : ∀ e ∈ es, e.fe.shapeID < s
  cs_lt : ∀ c ∈ cs, c < s
  es_gt : ∀ l, last = some l → ∀ e ∈ es, l < e.fe.shapeID
  cs_gt : ∀ l, last = some l → ∀ c ∈ cs, l < c

theorem mem_take_or_drop {α : Type} (p : α → Bool) (l : List α) (x : α) (h : x ∈ l) :
    x ∈ l.takeWhile p ∨ x ∈ l.dropWhile p := by
  rw [← List.takeWhile_append_dropWhile (p := p) (l := l)] at h
  exact List.mem_append.mp h

theorem listed_head (cl : Clipped) (rest : List Clipped) (ce : ClippedEdge)
    (h : key ce ∈ cl.edges.map (fun e => (cl.shapeID, e)) ∨ key ce ∈ listedPairs rest) :
    key ce ∈ listedPairs (cl :: rest) := by
  unfold listedPairs at *
  rw [List.flatMap_cons, List.mem_append]
  exact h

theorem skip_all_gt (a k : Nat) (cs : List Nat) (h : ∀ x ∈ cs, a < x) : skipContaining a k cs = (k, cs) := by
  cases cs with
  | nil => rfl
  | cons x xs =>
    unfold skipContaining
    have := h x List.mem_cons_self
    simp [this]

/-- one run of `countShapes`: the first edge of a new shape `a` -/
theorem countShapesGo_step (last : Option Nat) (e : ClippedEdge) (es' : List ClippedEdge) (cs : List Nat)
    (hlast : (last == some e.fe.shapeID) = false) :
    countShapesGo last 0 (e :: es') cs =
      countShapesGo (some e.fe.shapeID) 0 (es'.dropWhile fun x => x.fe.shapeID == e.fe.shapeID)
        (skipContaining e.fe.shapeID 1 cs).2 + (skipContaining e.fe.shapeID 1 cs).1 := by
  rw [countShapesGo]
  simp only [hlast, Bool.false_eq_true, if_false, Nat.zero_add]
  have := countShapesGo_add (skipContaining e.fe.shapeID 1 cs).1 es' (some e.fe.shapeID) 0
    (skipContaining e.fe.shapeID 1 cs).2
  rw [Nat.zero_add] at this
  rw [this, countShapesGo_dropRun]

theorem dropWhile_head_false {α : Type} (p : α → Bool) : ∀ (l : List α) (y : α) (ys : List α),
    l.dropWhile p = y :: ys → p y = false := by
  intro l
  induction l with
  | nil => intro y ys h; simp at h
  | cons x xs ih =>
    intro y ys h
    rw [List.dropWhile_cons] at h
    by_cases hp : p x = true
    · rw [if_pos hp] at h; exact ih y ys h
    · rw [if_neg hp] at h
      have : x = y := by injection h
      subst this; simpa using hp

theorem mem_takeWhile_prop {α : Type} (p : α → Bool) : ∀ (l : List α) (x : α), x ∈ l.takeWhile p → p x = true := by
  intro l
  induction l with
  | nil => intro x h; simp at h
  | cons y ys ih =>
    intro x h
    rw [List.takeWhile_cons] at h
    by_cases hp : p y = true
    · rw [if_pos hp] at h
      rcases List.mem_cons.mp h with h | h
      · subst h; exact hp
      · exact ih x h
    · rw [if_neg hp] at h; simp at h

theorem fillShapes_complete (s : Nat) : ∀ (m : Nat) (es : List ClippedEdge) (cs : List Nat) (last : Option Nat)
    (fuel : Nat), es.length + cs.length ≤ m → MergeInput s last es cs →
    countShapesGo last 0 es cs ≤ fuel →
    ∀ ce ∈ es, key ce ∈ listedPairs (fillShapes s fuel es cs) := by
  intro m
  induction m with
  | zero =>
    intro es cs last fuel hm _ _ ce hce
    have : es = [] := List.eq_nil_of_length_eq_zero (by omega)
    subst this; simp at hce
  | succ m ih =>
    intro es cs last fuel hm hin hfuel ce hce
    cases es with
    | nil => simp at hce
    | cons e es' =>
      have ha_lt : e.fe.shapeID < s := hin.es_lt e List.mem_cons_self
      have hlast : (last == some e.fe.shapeID) = false := by
        cases hl : last with
        | none => rfl
        | some l =>
          have := hin.es_gt l hl e List.mem_cons_self
          simp; omega
      have hN := countShapesGo_step last e es' cs hlast
      have hdropsub : List.Sublist (es'.dropWhile fun x => x.fe.shapeID == e.fe.shapeID) es' :=
        (List.dropWhile_suffix _).sublist
      have hdroplen := hdropsub.length_le
      -- the remaining edges after the run of `e`
      have hrest_gt : ∀ x ∈ es'.dropWhile (fun x => x.fe.shapeID == e.fe.shapeID), e.fe.shapeID < x.fe.shapeID := by
        intro x hx
        have hsorted := hin.es_sorted
        rw [List.pairwise_cons] at hsorted
        have hle := hsorted.1 x (hdropsub.subset hx)
        have hall : ∀ y ∈ es', e.fe.shapeID ≤ y.fe.shapeID := hsorted.1
        -- x is not in the run: the head of the dropWhile is ≠ a, and the list is sorted
        by_contra hcon
        have heq : x.fe.shapeID = e.fe.shapeID := by omega
        -- every element of a sorted list ≥ head of dropWhile ... use: all of dropWhile have id ≥ its head > a
        cases hd : es'.dropWhile (fun x => x.fe.shapeID == e.fe.shapeID) with
        | nil => rw [hd] at hx; simp at hx
        | cons y ys =>
          have hy : ¬ ((y.fe.shapeID == e.fe.shapeID) = true) := by
            have := dropWhile_head_false (fun x : ClippedEdge => x.fe.shapeID == e.fe.shapeID) es' y ys hd
            rw [this]; simp
          have hy_mem : y ∈ es' := hdropsub.subset (by rw [hd]; exact List.mem_cons_self)
          have hy_gt : e.fe.shapeID < y.fe.shapeID := by
            have := hall y hy_mem
            have : y.fe.shapeID ≠ e.fe.shapeID := by simpa using hy
            omega
          have hsd : List.Pairwise (fun x y : ClippedEdge => x.fe.shapeID ≤ y.fe.shapeID) (y :: ys) := by
            rw [← hd]; exact hsorted.2.sublist hdropsub
          rw [hd] at hx
          rcases List.mem_cons.mp hx with hxy | hxy
          · subst hxy; omega
          · have := (List.pairwise_cons.mp hsd).1 x hxy; omega
      by_cases hc : ∃ c cs', cs = c :: cs' ∧ c < e.fe.shapeID
      · -- a containing shape with a smaller id comes first
        obtain ⟨c, cs', rfl, hca⟩ := hc
        have hsk : skipContaining e.fe.shapeID 1 (c :: cs') =
            ((skipContaining e.fe.shapeID 1 cs').1 + 1, (skipContaining e.fe.shapeID 1 cs').2) := by
          rw [skipContaining]
          have h1 : ¬ c > e.fe.shapeID := by omega
          simp only [h1, if_false, hca, if_true]
          exact skipContaining_add _ 1 cs' 1
        have hN' := countShapesGo_step last e es' cs' hlast
        rw [hsk] at hN
        simp only [] at hN
        cases fuel with
        | zero => omega
        | succ fuel =>
          unfold fillShapes
          simp only []
          rw [show headShapeID s (e :: es') = e.fe.shapeID from rfl, show headID s (c :: cs') = c from rfl]
          rw [if_pos hca]
          apply listed_head
          right
          simp only [List.tail_cons]
          apply ih (e :: es') cs' last fuel (by simp at hm ⊢; omega)
          · exact ⟨hin.es_sorted, (List.pairwise_cons.mp hin.cs_sorted).2, hin.es_lt,
              fun x hx => hin.cs_lt x (List.mem_cons_of_mem _ hx), hin.es_gt,
              fun l hl x hx => hin.cs_gt l hl x (List.mem_cons_of_mem _ hx)⟩
          · omega
          · exact hce
      · -- the run of `e` is emitted now
        have hcid : ¬ headID s cs < e.fe.shapeID := by
          cases cs with
          | nil => simp [headID]; omega
          | cons c cs' =>
            simp only [headID]
            intro hlt
            exact hc ⟨c, cs', rfl, hlt⟩
        -- what `countShapes` does with the containing ids
        have hsk : skipContaining e.fe.shapeID 1 cs =
            (1, if (headID s cs == e.fe.shapeID) = true then cs.tail else cs) := by
          cases cs with
          | nil => simp [skipContaining, headID]
          | cons c cs' =>
            have hge : ¬ c < e.fe.shapeID := fun hlt => hc ⟨c, cs', rfl, hlt⟩
            have hcs' : ∀ x ∈ cs', c < x := (List.pairwise_cons.mp hin.cs_sorted).1
            simp only [headID, List.tail_cons]
            by_cases heq : c = e.fe.shapeID
            · rw [skipContaining]
              have h1 : ¬ c > e.fe.shapeID := by omega
              simp only [h1, if_false, hge]
              rw [skip_all_gt _ _ _ (fun x hx => by have := hcs' x hx; omega)]
              simp [heq]
            · have hgt : e.fe.shapeID < c := by omega
              rw [skip_all_gt _ _ _ (fun x hx => by
                rcases List.mem_cons.mp hx with h | h
                · omega
                · have := hcs' x h; omega)]
              have : (c == e.fe.shapeID) = false := by simpa using heq
              simp [this]
        rw [hsk] at hN
        simp only [] at hN
        cases fuel with
        | zero => omega
        | succ fuel =>
          unfold fillShapes
          simp only []
          rw [show headShapeID s (e :: es') = e.fe.shapeID from rfl]
          rw [if_neg hcid]
          have hmem := mem_take_or_drop (fun x => x.fe.shapeID == e.fe.shapeID) (e :: es') ce hce
          have hd : (e :: es').dropWhile (fun x => x.fe.shapeID == e.fe.shapeID) =
              es'.dropWhile (fun x => x.fe.shapeID == e.fe.shapeID) := by
            rw [List.dropWhile_cons]; simp
          have hlisted_now : ce ∈ (e :: es').takeWhile (fun x => x.fe.shapeID == e.fe.shapeID) →
              key ce ∈ (((e :: es').takeWhile (fun x => x.fe.shapeID == e.fe.shapeID)).map (·.fe.edgeID)).map
                (fun x => (e.fe.shapeID, x)) := by
            intro h
            have hid : ce.fe.shapeID = e.fe.shapeID := by
              have := mem_takeWhile_prop _ _ _ h; simpa using this
            exact List.mem_map.mpr ⟨ce.fe.edgeID, List.mem_map.mpr ⟨ce, h, rfl⟩, by simp [key, hid]⟩
          have hin_rest : ∀ cs2, (∀ x ∈ cs2, x ∈ cs) → List.Pairwise (fun x y : Nat => x < y) cs2 →
              (∀ x ∈ cs2, e.fe.shapeID < x) →
              MergeInput s (some e.fe.shapeID) (es'.dropWhile fun x => x.fe.shapeID == e.fe.shapeID) cs2 := by
            intro cs2 hsub hs2 hgt2
            exact ⟨(List.pairwise_cons.mp hin.es_sorted).2.sublist hdropsub,
              hs2, fun x hx => hin.es_lt x (List.mem_cons_of_mem _ (hdropsub.subset hx)),
              fun x hx => hin.cs_lt x (hsub x hx),
              fun l hl x hx => by cases hl; exact hrest_gt x hx,
              fun l hl x hx => by cases hl; exact hgt2 x hx⟩
          by_cases heq : (headID s cs == e.fe.shapeID) = true
          · rw [if_pos heq]
            rw [if_pos heq] at hN
            apply listed_head
            rcases hmem with h | h
            · left; exact hlisted_now h
            · right
              rw [hd] at h ⊢
              have hcs_ne : cs ≠ [] := by
                intro h0; subst h0; simp [headID] at heq; omega
              obtain ⟨c, cs', rfl⟩ := List.exists_cons_of_ne_nil hcs_ne
              have hceq : c = e.fe.shapeID := by simpa [headID] using heq
              simp only [List.tail_cons] at hN ⊢
              apply ih _ cs' (some e.fe.shapeID) fuel (by simp at hm ⊢; omega)
              · apply hin_rest cs' (fun x hx => List.mem_cons_of_mem _ hx)
                  (List.pairwise_cons.mp hin.cs_sorted).2
                intro x hx
                have := (List.pairwise_cons.mp hin.cs_sorted).1 x hx
                omega
              · omega
              · exact h
          · rw [if_neg heq]
            rw [if_neg heq] at hN
            apply listed_head
            rcases hmem with h | h
            · left; exact hlisted_now h
            · right
              rw [hd] at h ⊢
              apply ih _ cs (some e.fe.shapeID) fuel (by simp at hm ⊢; omega)
              · apply hin_rest cs (fun x hx => hx) hin.cs_sorted
                intro x hx
                cases cs with
                | nil => simp at hx
                | cons c cs' =>
                  have hge : ¬ c < e.fe.shapeID := fun hlt => hc ⟨c, cs', rfl, hlt⟩
                  have hne : c ≠ e.fe.shapeID := by simpa [headID] using heq
                  rcases List.mem_cons.mp hx with hxc | hxc
                  · omega
                  · have := (List.pairwise_cons.mp hin.cs_sorted).1 x hxc; omega
              · omega
              · exact h


/-! ### `toggleShape` -/

theorem toggle_mem (id : Nat) : ∀ (l : List Nat), List.Pairwise (fun x y : Nat => x < y) l →
    ∀ x, x ∈ toggle id l ↔ (x ∈ l ∧ x ≠ id) ∨ (x = id ∧ id ∉ l) := by
  intro l
  induction l with
  | nil => intro _ x; simp [toggle]
  | cons s rest ih =>
    intro hp x
    have hgt : ∀ y ∈ rest, s < y := (List.pairwise_cons.mp hp).1
    have hp' := (List.pairwise_cons.mp hp).2
    unfold toggle
    by_cases h1 : s < id
    · simp only [h1, if_true, List.mem_cons, ih hp' x]
      constructor
      · rintro (h | h | h)
        · left; exact ⟨Or.inl h, by omega⟩
        · left; exact ⟨Or.inr h.1, h.2⟩
        · right; exact ⟨h.1, by intro hc; rcases hc with hc | hc; omega; exact h.2 hc⟩
      · rintro (⟨h | h, hne⟩ | ⟨h, hn⟩)
        · left; exact h
        · right; left; exact ⟨h, hne⟩
        · right; right; exact ⟨h, fun hc => hn (Or.inr hc)⟩
    · simp only [h1, if_false]
      by_cases h2 : (s == id) = true
      · have hs : s = id := by simpa using h2
        simp only [h2, if_true, List.mem_cons]
        constructor
        · intro h; left; exact ⟨Or.inr h, by have := hgt x h; omega⟩
        · rintro (⟨h | h, hne⟩ | ⟨h, hn⟩)
          · omega
          · exact h
          · exact absurd (Or.inl hs.symm) hn
      · have hs : s ≠ id := by simpa using h2
        simp only [h2, Bool.false_eq_true, if_false, List.mem_cons]
        constructor
        · rintro (h | h | h)
          · right; refine ⟨h, ?_⟩; rintro (hc | hc); omega; have := hgt id hc; omega
          · left; exact ⟨Or.inl h, by omega⟩
          · left; exact ⟨Or.inr h, by have := hgt x h; omega⟩
        · rintro (⟨h | h, hne⟩ | ⟨h, hn⟩)
          · right; left; exact h
          · right; right; exact h
          · left; exact h

theorem toggle_sorted (id : Nat) : ∀ (l : List Nat), List.Pairwise (fun x y : Nat => x < y) l →
    List.Pairwise (fun x y : Nat => x < y) (toggle id l) := by
  intro l
  induction l with
  | nil => intro _; simp [toggle]
  | cons s rest ih =>
    intro hp
    have hgt : ∀ y ∈ rest, s < y := (List.pairwise_cons.mp hp).1
    have hp' := (List.pairwise_cons.mp hp).2
    unfold toggle
    by_cases h1 : s < id
    · simp only [h1, if_true]
      rw [List.pairwise_cons]
      refine ⟨?_, ih hp'⟩
      intro y hy
      rcases (toggle_mem id rest hp' y).mp hy with ⟨h, _⟩ | ⟨h, _⟩
      · exact hgt y h
      · omega
    · simp only [h1, if_false]
      by_cases h2 : (s == id) = true
      · simp only [h2, if_true]; exact hp'
      · have hs : s ≠ id := by simpa using h2
        simp only [h2, Bool.false_eq_true, if_false]
        rw [List.pairwise_cons]
        refine ⟨?_, hp⟩
        intro y hy
        rcases List.mem_cons.mp hy with h | h
        · omega
        · have := hgt y h; omega

end S2Proofs.C06BuildH
