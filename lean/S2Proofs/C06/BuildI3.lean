/-
  S2Proofs.C06.BuildI3 — index invariant I3 (`containsCenter` of every (cell, shape) pair of the BUILT index is the
  exact brute-force containment of the cell centre), by the build induction `buildRes_ind`, from named hypotheses
  (`TrackSound`) about the exact geometry and the float crosser.  Every clause of `TrackSound` speaks about the
  finitely many cells of the built index only (the induction hands "this cell is a cell of the result" down to the
  `makeIndexCell` call that produces it).

  The tracker invariant threaded through the build (`TP3`): the id list is strictly increasing and below the
  sentinel (`TrOK`), and — as soon as one shape has an interior — the tracker is active, its id list is the set of
  2-dimensional shapes containing its focus `t.b` in the exact model (`ParityAt`: "the shape-id set is the parity
  set"), the focus is the point the Hilbert curve has reached (`FocusAt`: the origin, or the exit vertex of the last
  index cell with edges; `focusAt_entry`: that is bitwise the entry vertex of the cell `atCellID` accepts), and no
  face edge meets a leaf cell between the stored `nextCellID` and the current position (`ClearLeaves`).

  Bookkeeping proved here unconditionally: `testAllEdges` over the edge list of a cell flips exactly the shapes whose
  LISTED edges cross the focus segment an odd number of times (`BuildTest`), listed = all by locality + I1
  (`BuildParity.filter_parity`, `EdgesOK.complete`), the cell's flag of shape `sid` is membership of `sid` in the
  tracker list after `drawTo(center)` (`BuildFill.fillShapes_containsCenter`).
  (`saveAndClearStateBefore` / `restoreStateBefore` belong to the incremental update path, which this port never
  reaches and the model does not contain — see `S2.IndexBuild`.)
-/
import S2Proofs.C06.BuildSorted
import S2Proofs.C06.BuildFill
import S2Proofs.C06.BuildInit
import S2Proofs.C06.BuildParity
import S2Proofs.C06.BuildFocus
import S2Proofs.Properties.C06_Build
open S2 S2.CellID S2.Hilbert S2.PaddedCellM S2.IndexBuild S2Proofs.C12H S2Proofs.C06PC
namespace S2Proofs.C06BuildH

/-- exact brute-force containment of `p` in shape `sid` -/
def cbf (shapes : Array Shape) (sid : Nat) (p : V3) : Bool :=
  Contain.containsBruteForce Contain.exactGeo (S2Proofs.C06Build.toShapeM (shapes[sid]!)) p

/-- some shape has an interior -/
def Has2 (shapes : Array Shape) : Prop := ∃ sid, sid < shapes.size ∧ (shapes[sid]!).dim = 2

/-- the id list is the set of 2-dimensional shapes that contain `p` (exact model) -/
def ParityAt (shapes : Array Shape) (p : V3) (ids : List Nat) : Prop :=
  ∀ sid, sid < shapes.size → (shapes[sid]!).dim = 2 → decide (sid ∈ ids) = cbf shapes sid p

/-- `a` and `b` are contained in the same 2-dimensional shapes (exact model) -/
def Conn (shapes : Array Shape) (a b : V3) : Prop :=
  ∀ sid, sid < shapes.size → (shapes[sid]!).dim = 2 → cbf shapes sid a = cbf shapes sid b

/-- `c` is (the id of) a cell of the built index -/
def IsIndexCell (shapes : Array Shape) (c : CellID) : Prop := ∃ x ∈ build shapes, x.id = c

/-- `c` is (the id of) a cell of the built index that lists at least one edge -/
def IsEdgeCell (shapes : Array Shape) (c : CellID) : Prop :=
  ∃ x ∈ build shapes, x.id = c ∧ listedPairs x.shapes ≠ []

/-- no face edge meets a LEAF cell whose position lies in `[a, b)` -/
def ClearLeaves (shapes : Array Shape) (Meets : FaceEdge → CellID → Prop) (a b : Nat) : Prop :=
  ∀ x : CellID, isValid x = true → lo x = hi x → a ≤ lo x → hi x < b →
    ∀ f, f < 6 → lo (fromFace f) ≤ lo x → hi x ≤ hi (fromFace f) →
      ∀ fe ∈ faceEdgesOf (allFaceEdges shapes) f, ¬ Meets fe x

/-- `e` is an edge of a 2-dimensional shape -/
def IsShapeEdge (shapes : Array Shape) (e : V3 × V3) : Prop :=
  ∃ sid, sid < shapes.size ∧ (shapes[sid]!).dim = 2 ∧
    ∃ eid, eid < (shapes[sid]!).edges.size ∧ e = (shapes[sid]!).edges[eid]!

/-- The NAMED hypotheses of I3 (everything that is geometry or float error analysis).  Every clause speaks about the
    cells OF THE BUILT INDEX only (`IsIndexCell`, `IsEdgeCell` = lists at least one edge; finitely many), about their two segments entry vertex → centre and
    centre → exit vertex (`CellSeg`; the `atCellID` case of `makeIndexCell` starts BITWISE at the entry vertex:
    `focusAt_entry`), and about focus points `FocusAt` = the tracker origin or the exit vertex of an index cell. -/
structure TrackSound (shapes : Array Shape) (Meets : FaceEdge → CellID → Prop) : Prop where
  /-- float = exact: the initial `containsBruteForce(shape, trackerOrigin)` of `addShapeInternal`
      (THEOREM on unit points: `init_exact_of_unitPt`) -/
  init_exact : ∀ sid, sid < shapes.size → (shapes[sid]!).dim = 2 →
    IndexBuild.containsBruteForce (shapes[sid]!) trackerOrigin = cbf shapes sid trackerOrigin
  /-- float = exact: ONE EdgeCrosser on a segment of an index cell answers every sequence of `EdgeOrVertexCrossing`
      calls on shape edges like the exact model (THEOREM on unit points: `crosser_exact_of_unitPt`) -/
  crosser_exact : ∀ a b c, IsEdgeCell shapes c → CellSeg a b c → ∀ l : List (V3 × V3),
    (∀ e ∈ l, IsShapeEdge shapes e) →
    crosserOuts (Crosser.init a b) l = l.map fun e => Contain.edgeOrVertexCrossing Contain.exactGeo a b e.1 e.2
  /-- locality (the geometric content of I1 for the tracker): an edge that crosses a segment of index cell `c` has a
      face edge on the face of `c` that meets (the padded cell of) `c` -/
  local_ : ∀ a b c, IsEdgeCell shapes c → CellSeg a b c → ∀ sid, sid < shapes.size → (shapes[sid]!).dim = 2 →
    ∀ eid, eid < (shapes[sid]!).edges.size →
      Contain.edgeOrVertexCrossing Contain.exactGeo a b ((shapes[sid]!).edges[eid]!).1 ((shapes[sid]!).edges[eid]!).2 = true →
      ∃ f, f < 6 ∧ lo (fromFace f) ≤ lo c ∧ hi c ≤ hi (fromFace f) ∧
        ∃ fe ∈ faceEdgesOf (allFaceEdges shapes) f, fe.shapeID = sid ∧ fe.edgeID = eid ∧ Meets fe c
  /-- the parity cocycle along a segment of an index cell (THEOREM for closed chains in the class `CocycleDomAny`:
      `parity_step_of_cocycleDom`) -/
  parity_step : ∀ a b c, IsEdgeCell shapes c → CellSeg a b c → ∀ sid, sid < shapes.size → (shapes[sid]!).dim = 2 →
    cbf shapes sid b = (cbf shapes sid a != Contain.crossParity Contain.exactGeo a b (shapes[sid]!).edges.toList)
  /-- `moveTo(EntryVertex)`: jumping over a range of leaf cells that no edge meets does not change containment -/
  jump : ∀ f N c, FocusAt (IsEdgeCell shapes) f N → IsEdgeCell shapes c → isValid c = true → N.toNat ≤ lo c →
    rangeMin c ≠ N → ClearLeaves shapes Meets N.toNat (lo c) → Conn shapes f (entryVertex (fromCellID c))
  /-- interior-only cells: the centre of an index cell at the end of a range of leaf cells that no edge meets is
      contained in the same shapes as the focus -/
  interior : ∀ f N c, FocusAt (IsEdgeCell shapes) f N → IsIndexCell shapes c → isValid c = true → N.toNat ≤ lo c →
    ClearLeaves shapes Meets N.toNat (hi c + 2) → Conn shapes f (center (fromCellID c))

/-! ### `ClearLeaves` -/

section clear
variable {shapes : Array Shape} {Meets : FaceEdge → CellID → Prop} {BoundOK : ClippedEdge → CellID → Prop}

theorem ClearLeaves.extend_cell (hs : ClipSound Meets BoundOK) {a : Nat} {c : CellID} (hv : isValid c = true)
    (h : ClearLeaves shapes Meets a (lo c)) (hE : EdgesOK shapes Meets BoundOK c []) :
    ClearLeaves shapes Meets a (hi c + 2) := by
  intro x hvx hleaf ha hb f hf h1 h2 fe hfe hm
  by_cases hx : hi x < lo c
  · exact h x hvx hleaf ha hx f hf h1 h2 fe hfe hm
  · have vx := valid_facts hvx
    have vc := valid_facts hv
    have hlo : lo c ≤ lo x := by omega
    have hhi : hi x ≤ hi c := by omega
    have hmc : Meets fe c := hs.meets_mono fe c x hv hvx hlo hhi hm
    obtain ⟨k, hk⟩ := (isValid_iff c).mp hv
    have hfc := face_contains hv
    have hff : f = face c := face_unique hf hk.face_lt6 hvx h1 h2 (by omega) (by omega)
    rw [← hff] at hfc
    exact hE.nil_clear f hf hfc.1 hfc.2 fe hfe hmc

theorem ClearLeaves.extend_range {a b e : Nat} (h : ClearLeaves shapes Meets a b)
    (hE : ∀ c, isValid c = true → b ≤ lo c → hi c < e → EdgesOK shapes Meets BoundOK c []) :
    ClearLeaves shapes Meets a e := by
  intro x hvx hleaf ha hb f hf h1 h2 fe hfe hm
  by_cases hx : hi x < b
  · exact h x hvx hleaf ha hx f hf h1 h2 fe hfe hm
  · exact (hE x hvx (by omega) hb).nil_clear f hf h1 h2 fe hfe hm

theorem ClearLeaves.empty (a : Nat) : ClearLeaves shapes Meets a a := by
  intro x _ hleaf ha hb
  omega

end clear

/-! ### the tracker pieces of `makeIndexCell` -/

theorem t1Of_active (p : PaddedCell) (es : List ClippedEdge) (t : Tracker) (ha : t.isActive = true)
    (hne : es.isEmpty = false) : t1Of p es t = testAllEdges es ((t0Of p t).drawTo (center p)) := by
  unfold t1Of; simp [ha, hne]

theorem t1Of_inactive (p : PaddedCell) (es : List ClippedEdge) (t : Tracker)
    (h : (t.isActive && !es.isEmpty) = false) : t1Of p es t = t := by
  unfold t1Of; simp [h]

theorem t2Of_active (p : PaddedCell) (es : List ClippedEdge) (t : Tracker) (ha : (t1Of p es t).isActive = true)
    (hne : es.isEmpty = false) :
    t2Of p es t = (testAllEdges es ((t1Of p es t).drawTo (exitVertex p))).setNextCellID (next p.id) := by
  unfold t2Of; simp [ha, hne]

theorem t2Of_inactive (p : PaddedCell) (es : List ClippedEdge) (t : Tracker)
    (h : (t.isActive && !es.isEmpty) = false) : t2Of p es t = t := by
  have h1 := t1Of_inactive p es t h
  unfold t2Of
  rw [h1]
  simp [h]

/-! ### one focus segment -/

/-- The core bookkeeping step: testing the edge list of cell `c` (correct in the sense of `EdgesOK`) against a focus
    segment `a → b` of `c` with a fresh crosser turns "the id list is the parity set at `a`" into "… at `b`". -/
theorem segment_step {shapes : Array Shape} {Meets : FaceEdge → CellID → Prop}
    {BoundOK : ClippedEdge → CellID → Prop} (hs : TrackSound shapes Meets) {a b : V3} {c : CellID}
    (hK : IsEdgeCell shapes c) (hseg : CellSeg a b c) {es : List ClippedEdge} (hE : EdgesOK shapes Meets BoundOK c es) (d : Tracker)
    (hcr : d.crosser = Crosser.init a b) (hok : TrOK shapes.size d) (hpar : ParityAt shapes a d.shapeIDs) :
    ParityAt shapes b (testAllEdges es d).shapeIDs := by
  have hX : crosserOuts d.crosser (testedEdges es) =
      (testedEdges es).map fun e => Contain.edgeOrVertexCrossing Contain.exactGeo a b e.1 e.2 := by
    rw [hcr]
    apply hs.crosser_exact a b c hK hseg
    intro e he
    unfold testedEdges at he
    obtain ⟨ce, hce, rfl⟩ := List.mem_map.mp he
    obtain ⟨hce, hint⟩ := List.mem_filter.mp hce
    obtain ⟨hq, h0, h1, h2⟩ := hE.feq ce hce
    rw [hint] at h2
    have hdim : (shapes[ce.fe.shapeID]!).dim = 2 := by simpa using h2.symm
    exact ⟨ce.fe.shapeID, hq.1, hdim, ce.fe.edgeID, hq.2.1, Prod.ext h0 h1⟩
  have h1 := testAllEdges_shapeIDs (fun v0 v1 => Contain.edgeOrVertexCrossing Contain.exactGeo a b v0 v1) es d hX
  obtain ⟨-, -, h3⟩ := toggleFold_spec shapes.size
    (fun e => e.fe.hasInterior && Contain.edgeOrVertexCrossing Contain.exactGeo a b e.fe.v0 e.fe.v1)
    es d.shapeIDs hok.1 hok.2 hE.sid_lt
  intro sid hsid hdim
  rw [h1, h3 sid, hpar sid hsid hdim,
    filter_parity shapes sid hsid hdim Contain.exactGeo a b es hE.feq hE.sorted ?_,
    ← hs.parity_step a b c hK hseg sid hsid hdim]
  intro i hi hno
  cases hc : Contain.edgeOrVertexCrossing Contain.exactGeo a b ((shapes[sid]!).edges[i]!).1
      ((shapes[sid]!).edges[i]!).2 with
  | false => rfl
  | true =>
    exfalso
    obtain ⟨f, hf, h1, h2, fe, hfe, hsid', heid', hm⟩ := hs.local_ a b c hK hseg sid hsid hdim i hi hc
    obtain ⟨ce, hce, hcefe⟩ := hE.complete f hf h1 h2 fe hfe hm
    exact hno ce hce ⟨by rw [hcefe]; exact hsid', by rw [hcefe]; exact heid'⟩

/-! ### the build step of I3 -/

/-- the tracker invariant of I3 when the build is about to process leaf position `m` -/
def TP3 (shapes : Array Shape) (Meets : FaceEdge → CellID → Prop) (t : Tracker) (m : Nat) : Prop :=
  TrOK shapes.size t ∧
  (Has2 shapes → t.isActive = true ∧ ParityAt shapes t.b t.shapeIDs ∧ FocusAt (IsEdgeCell shapes) t.b t.nextCellID ∧
    t.nextCellID.toNat ≤ m ∧ ClearLeaves shapes Meets t.nextCellID.toNat m)

/-- I3 for one cell -/
def CellI3 (shapes : Array Shape) (x : IndexCell) : Prop :=
  ∀ sid, sid < shapes.size → (shapes[sid]!).dim = 2 →
    S2Proofs.C06Build.cellContainsCenter x sid = cbf shapes sid (center (fromCellID x.id))

/-- the flag of shape `sid` in a filled cell is membership in the tracker list -/
theorem cellContainsCenter_fill {shapes : Array Shape} {Meets : FaceEdge → CellID → Prop}
    {BoundOK : ClippedEdge → CellID → Prop} {c : CellID} {es : List ClippedEdge}
    (h : EdgesOK shapes Meets BoundOK c es) {cs : List Nat}
    (hcs : List.Pairwise (fun x y : Nat => x < y) cs ∧ ∀ c ∈ cs, c < shapes.size) (id : CellID) (sid : Nat) :
    S2Proofs.C06Build.cellContainsCenter ⟨id, fillShapes shapes.size (countShapes es cs) es cs⟩ sid =
      decide (sid ∈ cs) := by
  unfold S2Proofs.C06Build.cellContainsCenter
  exact fillShapes_containsCenter shapes.size es cs (h.mergeInput hcs) sid

theorem buildStep_I3 (shapes : Array Shape) {Meets : FaceEdge → CellID → Prop}
    {BoundOK : ClippedEdge → CellID → Prop} (hs : ClipSound Meets BoundOK) (ht : TrackSound shapes Meets) :
    BuildStep shapes.size (fun x => x ∈ build shapes) (TP3 shapes Meets) (EdgesOK shapes Meets BoundOK)
      (fun x => CellI1 shapes Meets x ∧ CellI3 shapes x) where
  lvl := fun c es h ce hce => FEQ_maxLevel shapes _ (h.feq ce hce).1
  ch := fun c k pre es pos hc hk hpos hE => hE.toChild hs pre hc hk hpos
  skip := by
    intro t b e hbe hT hE
    refine ⟨hT.1, fun h2 => ?_⟩
    obtain ⟨h1, h3, h4, h5, h6⟩ := hT.2 h2
    exact ⟨h1, h3, h4, by omega, h6.extend_range hE⟩
  make := by
    intro c k es t cells t' hc hE hT hmk hF
    have hv : isValid c = true := (isValid_iff _).mpr ⟨_, hc⟩
    have vc := valid_facts hv
    rw [makeIndexCell_eq] at hmk
    split at hmk
    · -- nothing to do: no edges, no containing shapes
      rename_i hcond
      simp only [Option.some.injEq, Prod.mk.injEq] at hmk
      obtain ⟨rfl, rfl⟩ := hmk
      have hes : es = [] := by
        cases hl : es with
        | nil => rfl
        | cons a l => rw [hl] at hcond; simp at hcond
      subst hes
      refine ⟨⟨hT.1, fun h2 => ?_⟩, by simp⟩
      obtain ⟨h1, h3, h4, h5, h6⟩ := hT.2 h2
      exact ⟨h1, h3, h4, by omega, h6.extend_cell hs hv hE⟩
    · split at hmk
      · cases hmk
      · simp only [Option.some.injEq, Prod.mk.injEq] at hmk
        obtain ⟨rfl, rfl⟩ := hmk
        rw [fromCellID_id] at hF ⊢
        have hK : IsIndexCell shapes c := ⟨_, hF _ List.mem_cons_self, rfl⟩
        have hok1 := TrOK_t1Of shapes.size (fromCellID c) es t hT.1 hE.sid_lt
        have hok2 := TrOK_t2Of shapes.size (fromCellID c) es t hT.1 hE.sid_lt
        have hI1 : CellI1 shapes Meets ⟨c, fillShapes shapes.size
            (countShapes es (t1Of (fromCellID c) es t).shapeIDs) es (t1Of (fromCellID c) es t).shapeIDs⟩ :=
          cellI1_of_edgesOK hE hok1
        by_cases h2 : Has2 shapes
        · obtain ⟨hact, hpar, hfoc, hNle, hclr⟩ := hT.2 h2
          by_cases hne : es.isEmpty = true
          · -- interior-only cell: the tracker does not move
            have hes : es = [] := by
              cases hl : es with
              | nil => rfl
              | cons a l => rw [hl] at hne; simp at hne
            subst hes
            have hcond : (t.isActive && !([] : List ClippedEdge).isEmpty) = false := by simp
            rw [t2Of_inactive _ _ _ hcond]
            have e1 := t1Of_inactive (fromCellID c) [] t hcond
            have hclr' := hclr.extend_cell hs hv hE
            refine ⟨⟨hT.1, fun _ => ⟨hact, hpar, hfoc, by omega, hclr'⟩⟩, ?_⟩
            intro x hx
            simp only [List.mem_singleton] at hx
            subst hx
            refine ⟨hI1, ?_⟩
            intro sid hsid hdim
            rw [cellContainsCenter_fill hE hok1, e1, hpar sid hsid hdim]
            exact ht.interior t.b t.nextCellID c hfoc hK hv hNle hclr' sid hsid hdim
          · -- a cell with edges: entry → centre → exit
            have hne' : es.isEmpty = false := by simpa using hne
            have hKe : IsEdgeCell shapes c := by
              refine ⟨_, hF _ List.mem_cons_self, rfl, ?_⟩
              cases hl : es with
              | nil => rw [hl] at hne'; simp at hne'
              | cons e0 l =>
                have hmem : e0 ∈ es := by rw [hl]; exact List.mem_cons_self
                have := fillShapes_complete shapes.size (es.length + (t1Of (fromCellID c) es t).shapeIDs.length) es
                  (t1Of (fromCellID c) es t).shapeIDs none _ (Nat.le_refl _) (hE.mergeInput hok1) (Nat.le_refl _)
                  e0 hmem
                rw [← hl]
                exact List.ne_nil_of_mem this
            -- the start of the first segment
            have hstart : ∃ a, (t0Of (fromCellID c) t).b = a ∧ CellSeg a (center (fromCellID c)) c ∧
                ParityAt shapes a t.shapeIDs := by
              unfold t0Of
              by_cases hat : t.atCellID (fromCellID c).id = true
              · have hN : rangeMin c = t.nextCellID := by
                  unfold Tracker.atCellID at hat
                  rw [fromCellID_id] at hat
                  simpa using hat
                simp only [hat, Bool.not_true, Bool.false_eq_true, if_false]
                have hb := focusAt_entry t.b t.nextCellID c hfoc hv hN
                refine ⟨entryVertex (fromCellID c), hb, CellSeg.entry c hv, ?_⟩
                rw [← hb]; exact hpar
              · have hN : rangeMin c ≠ t.nextCellID := by
                  unfold Tracker.atCellID at hat
                  rw [fromCellID_id] at hat
                  simpa using hat
                have hat' : t.atCellID (fromCellID c).id = false := by simpa using hat
                simp only [hat', Bool.not_false, if_true]
                refine ⟨entryVertex (fromCellID c), rfl, CellSeg.entry c hv, ?_⟩
                intro sid hsid hdim
                rw [hpar sid hsid hdim]
                exact ht.jump t.b t.nextCellID c hfoc hKe hv hNle hN hclr sid hsid hdim
            obtain ⟨a, ha, hseg, hpara⟩ := hstart
            have e1 := t1Of_active (fromCellID c) es t hact hne'
            -- after the first segment: the parity set at the centre
            have hparc : ParityAt shapes (center (fromCellID c)) (t1Of (fromCellID c) es t).shapeIDs := by
              rw [e1]
              apply segment_step ht hKe hseg hE
              · show Crosser.init (t0Of (fromCellID c) t).b (center (fromCellID c)) = _
                rw [ha]
              · show TrOK shapes.size ((t0Of (fromCellID c) t).drawTo (center (fromCellID c)))
                unfold TrOK
                show List.Pairwise (fun x y : Nat => x < y) (t0Of (fromCellID c) t).shapeIDs ∧
                  ∀ c' ∈ (t0Of (fromCellID c) t).shapeIDs, c' < shapes.size
                rw [t0Of_shapeIDs]; exact hT.1
              · show ParityAt shapes a (t0Of (fromCellID c) t).shapeIDs
                rw [t0Of_shapeIDs]; exact hpara
            have hf1 := testAllEdges_fields es ((t0Of (fromCellID c) t).drawTo (center (fromCellID c)))
            rw [← e1] at hf1
            have hact1 : (t1Of (fromCellID c) es t).isActive = true := by
              rw [hf1.1]
              show (t0Of (fromCellID c) t).isActive = true
              rw [t0Of_isActive]; exact hact
            have hb1 : (t1Of (fromCellID c) es t).b = center (fromCellID c) := hf1.2.2.1
            have e2 := t2Of_active (fromCellID c) es t hact1 hne'
            have hf2 := testAllEdges_fields es ((t1Of (fromCellID c) es t).drawTo (exitVertex (fromCellID c)))
            -- after the second segment: the parity set at the exit vertex
            have hpare : ParityAt shapes (exitVertex (fromCellID c))
                (testAllEdges es ((t1Of (fromCellID c) es t).drawTo (exitVertex (fromCellID c)))).shapeIDs := by
              apply segment_step ht hKe (CellSeg.exit c hv) hE
              · show Crosser.init (t1Of (fromCellID c) es t).b (exitVertex (fromCellID c)) = _
                rw [hb1]
              · exact hok1
              · exact hparc
            obtain ⟨kk, hkk⟩ := (isValid_iff c).mp hv
            have hnext : lo (next c) = hi c + 2 := hkk.next_facts.1
            refine ⟨⟨hok2, fun _ => ?_⟩, ?_⟩
            · rw [e2, fromCellID_id]
              refine ⟨?_, ?_, ?_, ?_, ?_⟩
              · show (testAllEdges es ((t1Of (fromCellID c) es t).drawTo (exitVertex (fromCellID c)))).isActive = true
                rw [hf2.1]; exact hact1
              · show ParityAt shapes
                  (testAllEdges es ((t1Of (fromCellID c) es t).drawTo (exitVertex (fromCellID c)))).b
                  (testAllEdges es ((t1Of (fromCellID c) es t).drawTo (exitVertex (fromCellID c)))).shapeIDs
                rw [hf2.2.2.1]; exact hpare
              · show FocusAt (IsEdgeCell shapes) (testAllEdges es ((t1Of (fromCellID c) es t).drawTo (exitVertex (fromCellID c)))).b
                  (rangeMin (next c))
                rw [hf2.2.2.1]; exact FocusAt.exit c hv hKe
              · show (rangeMin (next c)).toNat ≤ hi c + 2
                have : (rangeMin (next c)).toNat = hi c + 2 := hnext
                omega
              · show ClearLeaves shapes Meets (rangeMin (next c)).toNat (hi c + 2)
                have : (rangeMin (next c)).toNat = hi c + 2 := hnext
                rw [this]; exact ClearLeaves.empty _
            · intro x hx
              simp only [List.mem_singleton] at hx
              subst hx
              refine ⟨hI1, ?_⟩
              intro sid hsid hdim
              rw [cellContainsCenter_fill hE hok1, hparc sid hsid hdim]
        · -- no shape has an interior: I3 is vacuous
          refine ⟨⟨hok2, fun h => absurd h h2⟩, ?_⟩
          intro x hx
          simp only [List.mem_singleton] at hx
          subst hx
          exact ⟨hI1, fun sid hsid hdim => absurd ⟨sid, hsid, hdim⟩ h2⟩

/-- the tracker after the `addShapeInternal` loop satisfies the invariant at the first leaf position -/
theorem TP3_initial (shapes : Array Shape) {Meets : FaceEdge → CellID → Prop} (ht : TrackSound shapes Meets) :
    TP3 shapes Meets (initialTracker shapes) (lo (fromFace 0)) := by
  obtain ⟨hb, hN, hact⟩ := initialTracker_fields shapes
  have hN0 : (childBeginAtLevel (fromFace 0) maxLevel).toNat = lo (fromFace 0) := by decide
  refine ⟨TrOK_initialTracker shapes, fun h2 => ⟨hact h2, ?_, ?_, ?_, ?_⟩⟩
  · intro sid hsid hdim
    rw [initialTracker_mem shapes sid hsid, hb, ← ht.init_exact sid hsid hdim]
    simp [hdim]
  · rw [hb, hN]; exact FocusAt.origin
  · rw [hN, hN0]
  · rw [hN, hN0]; exact ClearLeaves.empty _

/-- **I1 and I3 for every cell of the built index.** -/
theorem build_cellI1_I3 (shapes : Array Shape) {Meets : FaceEdge → CellID → Prop}
    {BoundOK : ClippedEdge → CellID → Prop} (hs : ClipSound Meets BoundOK)
    (hroot : ∀ f, f < 6 → ∀ fe ∈ faceEdgesOf (allFaceEdges shapes) f,
      BoundOK ⟨fe, rectFromPoints fe.a fe.b⟩ (rootCell f (faceEdgesOf (allFaceEdges shapes) f)))
    (hshrink : ∀ f, f < 6 → ShrinkSound Meets f (faceEdgesOf (allFaceEdges shapes) f))
    (ht : TrackSound shapes Meets) :
    ∀ x ∈ build shapes, CellI1 shapes Meets x ∧ CellI3 shapes x := by
  unfold build buildRes
  apply buildRes_ind (buildStep_I3 shapes hs ht) (allFaceEdges shapes) (initialTracker shapes)
    (TP3_initial shapes ht) (fun f hf => EdgesOK.atRoot f hf (hroot f hf))
  · intro f hf c hv h1 h2 hdis
    apply EdgesOK.ofClear
    intro f' hf' h1' h2' fe hfe hm
    have : f = f' := face_unique hf hf' hv h1 h2 h1' h2'
    subst this
    exact hshrink f hf fe hfe c hv hm hdis
  · intro f hf hnil c hv h1 h2
    apply EdgesOK.ofClear
    intro f' hf' h1' h2' fe hfe _
    have : f = f' := face_unique hf hf' hv h1 h2 h1' h2'
    subst this
    rw [hnil] at hfe
    cases hfe
  · intro x hx; exact hx

end S2Proofs.C06BuildH
