/-
  S2Proofs.C06.BuildI1 — the inductive core of index invariant I1 (every edge that meets an index cell
  reaches the merge loop that fills that cell), under the abstract clipping-soundness hypothesis
  `ClipSound` and the `ShrinkToFit` contract `ShrinkSound`.
-/
import S2Proofs.C06.BuildTop
open S2 S2.CellID S2.Hilbert S2.PaddedCellM S2.IndexBuild S2Proofs.C12H S2Proofs.C06PC S2Proofs.C06BuildH
namespace S2Proofs.C06BuildH

/-- The clipping-soundness hypothesis of I1, stated abstractly.
    `Meets fe c`     : the (true, real-arithmetic) face edge `fe` meets the padded cell of `c`;
    `BoundOK ce c`   : the float bound `ce.bound` contains the part of the true edge inside the padded
                       cell of `c` (the invariant the error analysis of `clipUBound/clipVBound` maintains). -/
structure ClipSound (Meets : FaceEdge → CellID → Prop) (BoundOK : ClippedEdge → CellID → Prop) : Prop where
  /-- an edge that meets a cell meets every valid cell containing it -/
  meets_mono : ∀ (fe : FaceEdge) (c c' : CellID), isValid c = true → isValid c' = true →
    lo c ≤ lo c' → hi c' ≤ hi c → Meets fe c' → Meets fe c
  /-- whatever the child clipping passes on has a sound bound for the child -/
  bound_step : ∀ (c : CellID) (k : Nat) (pre : Bool) (ce ce' : ClippedEdge) (pos : Nat), IsCell c k → k < 30 →
    pos < 4 → BoundOK ce c →
    (edgeChildren (middle (fromCellID c) cellPadding pre) ce).get
      (childIJ (fromCellID c) pos).1 (childIJ (fromCellID c) pos).2 = some ce' → BoundOK ce' (child c pos)
  /-- an edge with a sound bound that meets the child is passed on to the child -/
  keep_step : ∀ (c : CellID) (k : Nat) (pre : Bool) (ce : ClippedEdge) (pos : Nat), IsCell c k → k < 30 →
    pos < 4 → BoundOK ce c → Meets ce.fe (child c pos) →
    (edgeChildren (middle (fromCellID c) cellPadding pre) ce).get
      (childIJ (fromCellID c) pos).1 (childIJ (fromCellID c) pos).2 ≠ none

/-- the face edge `fe` is in the edge list the merge loop of `makeIndexCell` turned into cell `x` -/
def ReachesMerge (n : Nat) (x : IndexCell) (fe : FaceEdge) : Prop :=
  ∃ (es : List ClippedEdge) (cs : List Nat), x.shapes = fillShapes n (countShapes es cs) es cs ∧
    ∃ ce ∈ es, ce.fe = fe

theorem visitChild_mem {recur : PaddedCell → List ClippedEdge → Tracker → Res} (p : PaddedCell)
    (quads : List Quad) (r : Res) (pos : Nat) (x : IndexCell)
    (hx : x ∈ (visitChild recur p quads r pos).cells) :
    x ∈ r.cells ∨ ∃ t', x ∈ (recur (fromParentIJ p (childIJ p pos).1 (childIJ p pos).2)
      (childEdges quads (childIJ p pos).1 (childIJ p pos).2) t').cells := by
  unfold visitChild at hx
  simp only [] at hx
  split at hx
  · rcases List.mem_append.mp hx with h | h
    · exact Or.inl h
    · exact Or.inr ⟨_, h⟩
  · exact Or.inl hx

theorem subdivide_mem {recur : PaddedCell → List ClippedEdge → Tracker → Res} (p : PaddedCell) (pre : Bool)
    (es : List ClippedEdge) (t : Tracker) (x : IndexCell) (hx : x ∈ (subdivide recur p pre es t).cells) :
    ∃ pos, pos < 4 ∧ ∃ t', x ∈ (recur (fromParentIJ p (childIJ p pos).1 (childIJ p pos).2)
      (childEdges (es.map (edgeChildren (middle p cellPadding pre))) (childIJ p pos).1 (childIJ p pos).2) t').cells := by
  unfold subdivide at hx
  simp only [] at hx
  rcases visitChild_mem _ _ _ _ _ hx with h | h
  · rcases visitChild_mem _ _ _ _ _ h with h | h
    · rcases visitChild_mem _ _ _ _ _ h with h | h
      · rcases visitChild_mem _ _ _ _ _ h with h | h
        · simp at h
        · exact ⟨0, by omega, h⟩
      · exact ⟨1, by omega, h⟩
    · exact ⟨2, by omega, h⟩
  · exact ⟨3, by omega, h⟩

theorem childEdges_get (quads : List Quad) (i j : Nat) (ce' : ClippedEdge) :
    ce' ∈ childEdges quads i j ↔ ∃ q ∈ quads, q.get i j = some ce' := by
  unfold childEdges
  rw [List.mem_filterMap]

/-- I1, inductive core: under `ClipSound`, every edge of the list given to `updateEdges` on cell `c`
    (with sound bounds) that meets an index cell produced below `c` is in the merge-loop input of that cell. -/
theorem updateEdges_reaches {Meets : FaceEdge → CellID → Prop} {BoundOK : ClippedEdge → CellID → Prop}
    (hs : ClipSound Meets BoundOK) (Q : FaceEdge → Prop) (hQ : ∀ fe, Q fe → fe.maxLevel ≤ 30) (n : Nat) :
    ∀ (fuel : Nat) (c : CellID) (k : Nat) (pre : Bool) (es : List ClippedEdge) (t : Tracker),
      IsCell c k → 31 ≤ k + fuel → (∀ ce ∈ es, Q ce.fe) → (∀ ce ∈ es, BoundOK ce c) →
      ∀ x ∈ (updateEdges n fuel (fromCellID c) pre es t).cells, ∀ ce ∈ es, Meets ce.fe x.id →
        ReachesMerge n x ce.fe := by
  intro fuel
  induction fuel with
  | zero => intro c k pre es t hc hf; have := hc.k_le; omega
  | succ fuel ih =>
    intro c k pre es t hc hf hes hbd x hx ce hce hm
    unfold updateEdges at hx
    rcases makeIndexCell_cases n (fromCellID c) es t with ⟨h, hcnt⟩ | h | ⟨cs, t', h, _⟩
    · rw [h] at hx
      simp only [] at hx
      obtain ⟨e, he, hl⟩ := countExceeds_true _ es 0 (by decide) hcnt
      rw [fromCellID_level hc] at hl
      have hk : k < 30 := by have := hQ _ (hes e he); omega
      obtain ⟨pos, hpos, t', hx'⟩ := subdivide_mem _ _ _ _ _ hx
      have e1 : fromParentIJ (fromCellID c) (childIJ (fromCellID c) pos).1 (childIJ (fromCellID c) pos).2 =
          fromCellID (child c pos) := childAtPos_fromCellID hc hk hpos
      rw [e1] at hx'
      have hcc := hc.child_isCell hk hpos
      have hQc : ∀ ce' ∈ childEdges (es.map (edgeChildren (middle (fromCellID c) cellPadding pre)))
          (childIJ (fromCellID c) pos).1 (childIJ (fromCellID c) pos).2, Q ce'.fe := by
        intro ce' hce'
        obtain ⟨e', he', hfe⟩ := childEdges_mem _ es _ _ ce' hce'
        rw [hfe]; exact hes e' he'
      have hBc : ∀ ce' ∈ childEdges (es.map (edgeChildren (middle (fromCellID c) cellPadding pre)))
          (childIJ (fromCellID c) pos).1 (childIJ (fromCellID c) pos).2, BoundOK ce' (child c pos) := by
        intro ce' hce'
        obtain ⟨q, hq, hget⟩ := (childEdges_get _ _ _ _).mp hce'
        obtain ⟨e', he', rfl⟩ := List.mem_map.mp hq
        exact hs.bound_step c k pre e' ce' pos hc hk hpos (hbd e' he') hget
      -- x lies inside the child
      have hgood := updateEdges_good Q hQ n fuel (child c pos) (k + 1) false _ t' hcc (by omega) hQc
      obtain ⟨hvx, hlo, hhi⟩ := hgood.1.1 x hx'
      have hvc : isValid (child c pos) = true := (isValid_iff _).mpr ⟨_, hcc⟩
      have hmc : Meets ce.fe (child c pos) := hs.meets_mono _ _ _ hvc hvx hlo hhi hm
      have hkeep := hs.keep_step c k pre ce pos hc hk hpos (hbd ce hce) hmc
      obtain ⟨ce', hget⟩ := Option.ne_none_iff_exists'.mp hkeep
      have hfe := edgeChildren_fe _ _ _ _ _ hget
      have hmem : ce' ∈ childEdges (es.map (edgeChildren (middle (fromCellID c) cellPadding pre)))
          (childIJ (fromCellID c) pos).1 (childIJ (fromCellID c) pos).2 :=
        (childEdges_get _ _ _ _).mpr ⟨_, List.mem_map_of_mem hce, hget⟩
      have := ih (child c pos) (k + 1) false _ t' hcc (by omega) hQc hBc x hx' ce' hmem (by rw [hfe]; exact hm)
      rw [hfe] at this
      exact this
    · rw [h] at hx; simp at hx
    · rw [h] at hx
      simp only [] at hx
      simp at hx
      subst hx
      exact ⟨es, cs, rfl, ce, hce, rfl⟩


/-- the bounding rectangle `updateFaceEdges` hands to `shrinkToFit` -/
def faceBound (fes : List FaceEdge) : CellM.Rect2 :=
  (fes.map fun fe => (⟨fe, rectFromPoints fe.a fe.b⟩ : ClippedEdge)).foldl
    (fun b c => Rect2.addRect b c.bound) emptyRect

/-- the root cell `updateFaceEdges` starts the subdivision from -/
def rootCell (f : Nat) (fes : List FaceEdge) : CellID :=
  if fes.isEmpty then fromFace f else shrinkToFit (fromCellID (fromFace f)) cellPadding (faceBound fes)

/-- the contract of `ShrinkToFit` as used by the builder: no edge of the face meets a cell that is
    disjoint from the root cell chosen by `shrinkToFit` -/
def ShrinkSound (Meets : FaceEdge → CellID → Prop) (f : Nat) (fes : List FaceEdge) : Prop :=
  ∀ fe ∈ fes, ∀ x : CellID, isValid x = true → Meets fe x →
    ¬ (hi x < lo (rootCell f fes) ∨ hi (rootCell f fes) < lo x)

theorem updateFaceEdges_reaches {Meets : FaceEdge → CellID → Prop} {BoundOK : ClippedEdge → CellID → Prop}
    (hs : ClipSound Meets BoundOK) (Q : FaceEdge → Prop) (hQ : ∀ fe, Q fe → fe.maxLevel ≤ 30) (n : Nat)
    (f : Nat) (hf : f < 6) (fes : List FaceEdge) (t : Tracker) (hfes : ∀ fe ∈ fes, Q fe)
    (hroot : ∀ fe ∈ fes, BoundOK ⟨fe, rectFromPoints fe.a fe.b⟩ (rootCell f fes))
    (hshrink : ShrinkSound Meets f fes) :
    ∀ x ∈ (updateFaceEdges n f fes t).cells, ∀ fe ∈ fes, Meets fe x.id → ReachesMerge n x fe := by
  obtain ⟨hi0, hj0, _⟩ := face_fromCellID f hf
  have hfs := S2Proofs.C01.fromFace_spec f hf
  have hcf : IsCell (fromFace f) 0 := fromFace_isCell f hf
  have hces : ∀ ce ∈ (fes.map fun fe => (⟨fe, rectFromPoints fe.a fe.b⟩ : ClippedEdge)), Q ce.fe := by
    intro ce hce
    obtain ⟨fe, hfe, rfl⟩ := List.mem_map.mp hce
    exact hfes fe hfe
  have hbd : ∀ ce ∈ (fes.map fun fe => (⟨fe, rectFromPoints fe.a fe.b⟩ : ClippedEdge)),
      BoundOK ce (rootCell f fes) := by
    intro ce hce
    obtain ⟨fe, hfe, rfl⟩ := List.mem_map.mp hce
    exact hroot fe hfe
  have hmemces : ∀ fe ∈ fes, (⟨fe, rectFromPoints fe.a fe.b⟩ : ClippedEdge) ∈
      (fes.map fun fe => (⟨fe, rectFromPoints fe.a fe.b⟩ : ClippedEdge)) :=
    fun fe hfe => List.mem_map_of_mem hfe
  intro x hx fe hfe hm
  unfold updateFaceEdges at hx
  unfold ShrinkSound at hshrink
  unfold rootCell faceBound at hbd hshrink
  generalize (List.map (fun fe => ({ fe := fe, bound := rectFromPoints fe.a fe.b } : ClippedEdge)) fes) = ces
    at hces hbd hmemces hx hshrink
  split at hx
  · simp at hx
  · simp only [fromCellID_id] at hx
    generalize hS : (if fes.isEmpty = true then fromFace f else
      shrinkToFit (fromCellID (fromFace f)) cellPadding _) = S at hx hbd hshrink
    have hScases : S = fromFace f ∨ (isValid S = true ∧ face S = f) := by
      rw [← hS]
      split
      · left; rfl
      · have key := fun rect => shrinkToFit_cases (fromCellID (fromFace f)) cellPadding rect hi0 hj0
          (by rw [fromCellID_id, hfs.2.2.2.1]; exact hf)
        simp only [fromCellID_id, hfs.2.2.2.1] at key
        exact key _
    split at hx
    · rename_i hne
      rcases hScases with h | ⟨hv, hface⟩
      · simp [h] at hne
      · obtain ⟨k, hk⟩ := (isValid_iff S).mp hv
        have vS := valid_facts hv
        have vF := valid_facts hfs.2.1
        have hin := face_contains hv
        rw [hface] at hin
        have hFle := face_hi_le f hf
        have g1 := skipCellRange_good Q hQ n (b := rangeMin (fromFace f)) (e := rangeMin S)
          vF.1 ⟨vS.1, by show lo S ≤ _; omega⟩ hin.1 t
        have hn1 : (next (rangeMax S)).toNat = hi S + 2 := next_leaf_toNat _ vS.2.1 (by show hi S + 2 < _; omega)
        have hn2 : (next (rangeMax (fromFace f))).toNat = hi (fromFace f) + 2 :=
          next_leaf_toNat _ vF.2.1 (by show hi (fromFace f) + 2 < _; omega)
        have g3 := skipCellRange_good Q hQ n (b := next (rangeMax S)) (e := next (rangeMax (fromFace f)))
          (by rw [hn1]; omega) ⟨by rw [hn2]; omega, by rw [hn2]; omega⟩ (by rw [hn1, hn2]; omega)
          (updateEdges n IndexBuild.fuel (fromCellID S) (isFace S) ces
            (skipCellRange n (rangeMin (fromFace f)) (rangeMin S) t).t).t
        rw [hn1, hn2] at g3
        simp only [List.mem_append] at hx
        rcases hx with (hx | hx) | hx
        · obtain ⟨hvx, _, hhi⟩ := g1.1.1 x hx
          exact absurd (Or.inl (by show hi x.id < lo S; have : hi x.id ≤ lo S - 2 := hhi; omega))
            (hshrink fe hfe x.id hvx hm)
        · have := updateEdges_reaches hs Q hQ n IndexBuild.fuel S k (isFace S) ces _ hk
            (by unfold IndexBuild.fuel; omega) hces hbd x hx _ (hmemces fe hfe) hm
          exact this
        · obtain ⟨hvx, hlo, _⟩ := g3.1.1 x hx
          exact absurd (Or.inr (by omega)) (hshrink fe hfe x.id hvx hm)
    · rename_i hne
      have hSe : S = fromFace f := by simpa using hne
      rw [hSe] at hbd
      have := updateEdges_reaches hs Q hQ n IndexBuild.fuel (fromFace f) 0 true ces t hcf
        (by unfold IndexBuild.fuel; omega) hces hbd x hx _ (hmemces fe hfe) hm
      exact this


theorem faceStep_mem (n : Nat) (all : List (Nat × FaceEdge)) (r : Res) (f : Nat) (x : IndexCell)
    (hx : x ∈ (faceStep n all r f).cells) :
    x ∈ r.cells ∨ ∃ t, x ∈ (updateFaceEdges n f (faceEdgesOf all f) t).cells := by
  unfold faceStep at hx
  simp only [] at hx
  rcases List.mem_append.mp hx with h | h
  · exact Or.inl h
  · exact Or.inr ⟨_, h⟩

/-- every cell of the built index was produced by `updateFaceEdges` of one of the six faces -/
theorem build_mem_face (shapes : Array Shape) (x : IndexCell) (hx : x ∈ build shapes) :
    ∃ f, f < 6 ∧ ∃ t, x ∈ (updateFaceEdges shapes.size f (faceEdgesOf (allFaceEdges shapes) f) t).cells := by
  unfold build buildRes at hx
  have hr : List.range 6 = [0, 1, 2, 3, 4, 5] := by decide
  rw [hr] at hx
  simp only [List.foldl_cons, List.foldl_nil] at hx
  rcases faceStep_mem _ _ _ _ _ hx with h | h
  · rcases faceStep_mem _ _ _ _ _ h with h | h
    · rcases faceStep_mem _ _ _ _ _ h with h | h
      · rcases faceStep_mem _ _ _ _ _ h with h | h
        · rcases faceStep_mem _ _ _ _ _ h with h | h
          · rcases faceStep_mem _ _ _ _ _ h with h | h
            · simp at h
            · exact ⟨0, by omega, h⟩
          · exact ⟨1, by omega, h⟩
        · exact ⟨2, by omega, h⟩
      · exact ⟨3, by omega, h⟩
    · exact ⟨4, by omega, h⟩
  · exact ⟨5, by omega, h⟩

end S2Proofs.C06BuildH
