/-
  S2Proofs.C06.BuildTest — bookkeeping of `testAllEdges` (the tracker's `testEdge` loop over the edges of a cell):
  which fields it touches, the id list as a fold of `toggle`s when the crosser's answers are given by a stateless
  function, the fold of toggles as a parity (XOR) statement on strictly increasing id lists, and `TrOK` preservation.
-/
import S2Proofs.C06.BuildDefs
import S2.Contain
open S2 S2.CellID S2.PaddedCellM S2.IndexBuild
namespace S2Proofs.C06BuildH

/-- the answers of ONE EdgeCrosser to a sequence of `EdgeOrVertexCrossing(v0, v1)` calls (state threaded) -/
def crosserOuts : Crosser.St → List (V3 × V3) → List Bool
  | _, [] => []
  | st, e :: rest =>
    (Crosser.edgeOrVertexCrossing st e.1 e.2).2 :: crosserOuts (Crosser.edgeOrVertexCrossing st e.1 e.2).1 rest

/-- the (v0, v1) pairs `testAllEdges` hands to the crosser, in order: the edges with an interior -/
def testedEdges (es : List ClippedEdge) : List (V3 × V3) :=
  (es.filter fun e => e.fe.hasInterior).map fun e => (e.fe.v0, e.fe.v1)

/-! ### one `testEdge` -/

theorem testEdge_isActive (t : Tracker) (sid : Nat) (v0 v1 : V3) : (t.testEdge sid v0 v1).isActive = t.isActive := by
  unfold Tracker.testEdge
  generalize Crosser.edgeOrVertexCrossing t.crosser v0 v1 = p
  obtain ⟨c, r⟩ := p
  cases r <;> rfl

theorem testEdge_a (t : Tracker) (sid : Nat) (v0 v1 : V3) : (t.testEdge sid v0 v1).a = t.a := by
  unfold Tracker.testEdge
  generalize Crosser.edgeOrVertexCrossing t.crosser v0 v1 = p
  obtain ⟨c, r⟩ := p
  cases r <;> rfl

theorem testEdge_b (t : Tracker) (sid : Nat) (v0 v1 : V3) : (t.testEdge sid v0 v1).b = t.b := by
  unfold Tracker.testEdge
  generalize Crosser.edgeOrVertexCrossing t.crosser v0 v1 = p
  obtain ⟨c, r⟩ := p
  cases r <;> rfl

theorem testEdge_nextCellID (t : Tracker) (sid : Nat) (v0 v1 : V3) :
    (t.testEdge sid v0 v1).nextCellID = t.nextCellID := by
  unfold Tracker.testEdge
  generalize Crosser.edgeOrVertexCrossing t.crosser v0 v1 = p
  obtain ⟨c, r⟩ := p
  cases r <;> rfl

theorem testEdge_crosser (t : Tracker) (sid : Nat) (v0 v1 : V3) :
    (t.testEdge sid v0 v1).crosser = (Crosser.edgeOrVertexCrossing t.crosser v0 v1).1 := by
  unfold Tracker.testEdge
  generalize Crosser.edgeOrVertexCrossing t.crosser v0 v1 = p
  obtain ⟨c, r⟩ := p
  cases r <;> rfl

theorem testEdge_shapeIDs (t : Tracker) (sid : Nat) (v0 v1 : V3) :
    (t.testEdge sid v0 v1).shapeIDs =
      if (Crosser.edgeOrVertexCrossing t.crosser v0 v1).2 then toggle sid t.shapeIDs else t.shapeIDs := by
  unfold Tracker.testEdge
  generalize Crosser.edgeOrVertexCrossing t.crosser v0 v1 = p
  obtain ⟨c, r⟩ := p
  cases r <;> rfl

theorem testAllEdges_nil (t : Tracker) : testAllEdges [] t = t := rfl

theorem testAllEdges_cons (e : ClippedEdge) (es : List ClippedEdge) (t : Tracker) :
    testAllEdges (e :: es) t =
      testAllEdges es (if e.fe.hasInterior then t.testEdge e.fe.shapeID e.fe.v0 e.fe.v1 else t) := rfl

/-! ### `testAllEdges` -/

/-- `testAllEdges` only changes the crosser and the id list -/
theorem testAllEdges_fields (es : List ClippedEdge) (t : Tracker) :
    (testAllEdges es t).isActive = t.isActive ∧ (testAllEdges es t).a = t.a ∧ (testAllEdges es t).b = t.b ∧
    (testAllEdges es t).nextCellID = t.nextCellID := by
  induction es generalizing t with
  | nil => exact ⟨rfl, rfl, rfl, rfl⟩
  | cons e es ih =>
    rw [testAllEdges_cons]
    obtain ⟨h1, h2, h3, h4⟩ := ih (if e.fe.hasInterior then t.testEdge e.fe.shapeID e.fe.v0 e.fe.v1 else t)
    rw [h1, h2, h3, h4]
    cases e.fe.hasInterior
    · exact ⟨rfl, rfl, rfl, rfl⟩
    · exact ⟨testEdge_isActive .., testEdge_a .., testEdge_b .., testEdge_nextCellID ..⟩

/-- if the crosser's answers are given by a stateless function `X`, the id list after `testAllEdges` is the fold
    of toggles -/
theorem testAllEdges_shapeIDs (X : V3 → V3 → Bool) (es : List ClippedEdge) (t : Tracker)
    (hX : crosserOuts t.crosser (testedEdges es) = (testedEdges es).map fun e => X e.1 e.2) :
    (testAllEdges es t).shapeIDs =
      es.foldl (fun ids e => if e.fe.hasInterior && X e.fe.v0 e.fe.v1 then toggle e.fe.shapeID ids else ids)
        t.shapeIDs := by
  induction es generalizing t with
  | nil => rfl
  | cons e es ih =>
    rw [testAllEdges_cons, List.foldl_cons]
    by_cases hi : e.fe.hasInterior = true
    · have hte : testedEdges (e :: es) = (e.fe.v0, e.fe.v1) :: testedEdges es := by
        simp [testedEdges, hi]
      rw [hte] at hX
      simp only [crosserOuts, List.map_cons, List.cons.injEq] at hX
      obtain ⟨hx1, hx2⟩ := hX
      simp only [hi, if_true, Bool.true_and]
      rw [ih (t.testEdge e.fe.shapeID e.fe.v0 e.fe.v1) (by rw [testEdge_crosser]; exact hx2)]
      rw [testEdge_shapeIDs, hx1]
    · have hi' : e.fe.hasInterior = false := by simpa using hi
      have hte : testedEdges (e :: es) = testedEdges es := by
        simp [testedEdges, hi']
      rw [hte] at hX
      simp only [hi', Bool.false_eq_true, if_false, Bool.false_and]
      exact ih t hX

/-! ### folds of toggles -/

theorem xorAll_foldl' (b : Bool) (l : List Bool) :
    l.foldl (fun acc x => acc != x) b = (b != Contain.xorAll l) := by
  induction l generalizing b with
  | nil => cases b <;> rfl
  | cons x xs ih =>
    simp only [List.foldl_cons, Contain.xorAll]
    rw [ih (b != x), ih (false != x)]
    cases b <;> cases x <;> cases Contain.xorAll xs <;> rfl

theorem xorAll_cons' (x : Bool) (l : List Bool) : Contain.xorAll (x :: l) = (x != Contain.xorAll l) := by
  show (x :: l).foldl (fun acc b => acc != b) false = _
  rw [List.foldl_cons, xorAll_foldl']
  cases x <;> rfl

/-- membership in a toggled strictly increasing list, as a Boolean -/
theorem toggle_decide_mem (id : Nat) (l : List Nat) (hs : List.Pairwise (fun x y : Nat => x < y) l) (x : Nat) :
    decide (x ∈ toggle id l) = (decide (x ∈ l) != (id == x)) := by
  have h := toggle_mem id l hs x
  by_cases hx : id = x
  · subst hx
    by_cases hm : id ∈ l
    · have : id ∉ toggle id l := by
        rw [h]; intro h'; rcases h' with ⟨_, h'⟩ | ⟨_, h'⟩
        · exact h' rfl
        · exact h' hm
      simp [this, hm]
    · have : id ∈ toggle id l := by rw [h]; exact Or.inr ⟨rfl, hm⟩
      simp [this, hm]
  · have hne : x ≠ id := fun h' => hx h'.symm
    have hb : (id == x) = false := by simpa using hx
    have : x ∈ toggle id l ↔ x ∈ l := by
      rw [h]
      constructor
      · intro h'; rcases h' with ⟨h', _⟩ | ⟨h', _⟩
        · exact h'
        · exact absurd h' hne
      · intro h'; exact Or.inl ⟨h', hne⟩
    rw [hb]
    by_cases hm : x ∈ l
    · simp [this, hm]
    · simp [this, hm]

theorem toggle_lt (n id : Nat) (l : List Nat) (hs : List.Pairwise (fun x y : Nat => x < y) l) (hid : id < n)
    (hlt : ∀ c ∈ l, c < n) : ∀ c ∈ toggle id l, c < n := by
  intro c hc
  rcases (toggle_mem id l hs c).mp hc with ⟨h, _⟩ | ⟨h, _⟩
  · exact hlt c h
  · omega

/-- a fold of toggles on a strictly increasing id list: stays strictly increasing, stays below `n`, and an id is in
    the result iff it was in the list XOR the parity of the toggles of that id -/
theorem toggleFold_spec (n : Nat) (Y : ClippedEdge → Bool) (es : List ClippedEdge) (ids : List Nat)
    (hs : List.Pairwise (fun x y : Nat => x < y) ids) (hlt : ∀ c ∈ ids, c < n) (hes : ∀ e ∈ es, e.fe.shapeID < n) :
    let r := es.foldl (fun ids e => if Y e then toggle e.fe.shapeID ids else ids) ids
    List.Pairwise (fun x y : Nat => x < y) r ∧ (∀ c ∈ r, c < n) ∧
    ∀ sid, (decide (sid ∈ r)) =
      (decide (sid ∈ ids) != Contain.xorAll ((es.filter fun e => e.fe.shapeID == sid).map Y)) := by
  induction es generalizing ids with
  | nil =>
    refine ⟨hs, hlt, ?_⟩
    intro sid
    show decide (sid ∈ ids) = (decide (sid ∈ ids) != false)
    rw [Bool.bne_false]
  | cons e es ih =>
    have hes' : ∀ e' ∈ es, e'.fe.shapeID < n := fun e' h => hes e' (List.mem_cons_of_mem _ h)
    have he : e.fe.shapeID < n := hes e List.mem_cons_self
    simp only [List.foldl_cons]
    by_cases hy : Y e = true
    · simp only [hy, if_true]
      obtain ⟨h1, h2, h3⟩ := ih (toggle e.fe.shapeID ids) (toggle_sorted _ ids hs) (toggle_lt n _ ids hs he hlt) hes'
      refine ⟨h1, h2, ?_⟩
      intro sid
      rw [h3 sid, toggle_decide_mem _ ids hs sid, List.filter_cons]
      by_cases hsid : (e.fe.shapeID == sid) = true
      · simp only [hsid, if_true, List.map_cons, xorAll_cons', hy]
        cases decide (sid ∈ ids) <;>
          cases Contain.xorAll (List.map Y (List.filter (fun e => e.fe.shapeID == sid) es)) <;> rfl
      · have hsid' : (e.fe.shapeID == sid) = false := by simpa using hsid
        simp only [hsid', Bool.false_eq_true, if_false]
        cases decide (sid ∈ ids) <;> rfl
    · have hy' : Y e = false := by simpa using hy
      simp only [hy', Bool.false_eq_true, if_false]
      obtain ⟨h1, h2, h3⟩ := ih ids hs hlt hes'
      refine ⟨h1, h2, ?_⟩
      intro sid
      rw [h3 sid, List.filter_cons]
      by_cases hsid : (e.fe.shapeID == sid) = true
      · simp only [hsid, if_true, List.map_cons, xorAll_cons', hy']
        cases Contain.xorAll (List.map Y (List.filter (fun e => e.fe.shapeID == sid) es)) <;> rfl
      · have hsid' : (e.fe.shapeID == sid) = false := by simpa using hsid
        simp only [hsid', Bool.false_eq_true, if_false]

/-- `TrOK` is preserved by one `testEdge` -/
theorem testEdge_TrOK (n : Nat) (t : Tracker) (sid : Nat) (v0 v1 : V3) (ht : TrOK n t) (hsid : sid < n) :
    TrOK n (t.testEdge sid v0 v1) := by
  unfold TrOK
  rw [testEdge_shapeIDs]
  cases (Crosser.edgeOrVertexCrossing t.crosser v0 v1).2
  · exact ht
  · exact ⟨toggle_sorted _ _ ht.1, toggle_lt n _ _ ht.1 hsid ht.2⟩

/-- `TrOK` is preserved by `testAllEdges` whatever the crosser answers (no hypothesis on the crosser) -/
theorem testAllEdges_TrOK (n : Nat) (es : List ClippedEdge) (t : Tracker) (ht : TrOK n t)
    (hes : ∀ e ∈ es, e.fe.shapeID < n) : TrOK n (testAllEdges es t) := by
  induction es generalizing t with
  | nil => exact ht
  | cons e es ih =>
    rw [testAllEdges_cons]
    apply ih _ _ (fun e' h => hes e' (List.mem_cons_of_mem _ h))
    cases e.fe.hasInterior
    · exact ht
    · exact testEdge_TrOK n t _ _ _ ht (hes e List.mem_cons_self)

end S2Proofs.C06BuildH
