/-
  S2Proofs.C06.BuildFocus — the focus of the interior tracker at `atCellID(c)` is BITWISE the entry vertex of `c`
  (`focusAt_entry`): continuity of the Hilbert curve across levels (`paddedCell_tracker_chain`) and across faces
  (`paddedCell_face_exit_eq_next_face_entry` + "the exit (i,j) of a cell that ends where its face ends is the exit
  (i,j) of the face cell", `exit_of_face_hi`), and the tracker origin is the entry vertex of face 0.
-/
import S2Proofs.C06.BuildSorted
import S2Proofs.Properties.C06_PaddedCell
open S2 S2.CellID S2.Hilbert S2.PaddedCellM S2.IndexBuild S2Proofs.C12H S2Proofs.C06PC
namespace S2Proofs.C06BuildH

/-- a valid cell whose first leaf lies in the leaf range of face `g` is on face `g` -/
theorem face_of_lo_in_face {c : CellID} {g : Nat} (hv : isValid c = true) (hg : g < 6)
    (h1 : lo (fromFace g) ≤ lo c) (h2 : lo c ≤ hi (fromFace g)) : face c = g := by
  obtain ⟨k, hk⟩ := (isValid_iff c).mp hv
  have hf6 := hk.face_lt6
  obtain ⟨a, b⟩ := face_contains hv
  have vc := valid_facts hv
  by_contra hne
  rcases Nat.lt_or_gt_of_ne hne with hlt | hgt
  · have := face_lt_of_lt _ _ hlt hg; omega
  · have := face_lt_of_lt _ _ hgt hf6; omega

/-- `EntryVertex` is a function of the face and the entry (i,j) -/
theorem entryVertex_congr {a b : CellID} (hf : face a = face b)
    (h : entryIJ (fromCellID a) = entryIJ (fromCellID b)) :
    entryVertex (fromCellID a) = entryVertex (fromCellID b) := by
  unfold entryVertex
  rw [h, fromCellID_id, fromCellID_id, hf]

/-- `ExitVertex` is a function of the face and the exit (i,j) -/
theorem exitVertex_congr {a b : CellID} (hf : face a = face b)
    (h : exitIJ (fromCellID a) = exitIJ (fromCellID b)) :
    exitVertex (fromCellID a) = exitVertex (fromCellID b) := by
  unfold exitVertex
  rw [h, fromCellID_id, fromCellID_id, hf]

/-- exit of `a` and entry of `b` with the same (i,j) on the same face are the same point -/
theorem exit_entry_congr {a b : CellID} (hf : face a = face b)
    (h : exitIJ (fromCellID a) = entryIJ (fromCellID b)) :
    exitVertex (fromCellID a) = entryVertex (fromCellID b) := by
  unfold exitVertex entryVertex
  rw [h, fromCellID_id, fromCellID_id, hf]

/-- The exit (i,j) of a cell that ends where its face ends is the exit (i,j) of the face cell (the cell is a last
    child at every level). -/
theorem exit_of_face_hi (n : Nat) : ∀ (b : CellID) (g : Nat), g < 6 → IsCell b n → face b = g →
    hi b = hi (fromFace g) → exitIJ (fromCellID b) = exitIJ (fromCellID (fromFace g)) := by
  induction n with
  | zero =>
    intro b g hg hb _ h
    rw [hb.eq_of_rangeMax_eq (fromFace_isCell g hg) (UInt64.toNat_inj.mp h)]
  | succ n ih =>
    intro b g hg hb hf h
    have hn30 : n < 30 := by have := hb.k_le; omega
    have hp : IsCell (parent b n) n := hb.parent_isCell (by omega)
    have hpf : face (parent b n) = g := by rw [hb.parent_face (by omega), hf]
    have c2 : contains (parent b n) b = true := (hp.contains_iff_parent hb).mpr ⟨by omega, rfl⟩
    have q2 := (hp.contains_iff_range hb).mp c2
    have q1 := face_contains ((isValid_iff _).mpr ⟨n, hp⟩)
    rw [hpf] at q1
    have hmax : rangeMax (parent b n) = rangeMax b := by
      apply UInt64.toNat_inj.mp
      have : hi b ≤ hi (parent b n) := q2.2
      have : hi (parent b n) ≤ hi (fromFace g) := q1.2
      show hi (parent b n) = hi b
      omega
    have h3 := (hp.child_ranges hn30).2.1
    have hb3 : child (parent b n) 3 = b :=
      (hp.child_isCell hn30 (by omega)).eq_of_rangeMax_eq hb (by rw [h3, hmax])
    rw [← hb3, ← childAtPos_fromCellID hp hn30 (by omega),
      exit_last _ (fromCellID_orientation_lt hp) (by rw [fromCellID_level hp]; exact hn30)]
    exact ih _ g hg hp hpf (by rw [← h]; exact congrArg UInt64.toNat hmax)

/-- a valid cell that starts at the first leaf of face `g` has the entry vertex of the face cell -/
theorem entryVertex_of_face_lo {c : CellID} {g : Nat} (hv : isValid c = true) (hg : g < 6)
    (h : rangeMin c = rangeMin (fromFace g)) :
    entryVertex (fromCellID c) = entryVertex (fromCellID (fromFace g)) := by
  have hfv := S2Proofs.C01.fromFace_spec g hg
  have vf := valid_facts hfv.2.1
  have hlo : lo c = lo (fromFace g) := congrArg UInt64.toNat h
  have hface : face c = g := face_of_lo_in_face hv hg (by omega) (by omega)
  exact entryVertex_congr (by rw [hface, hfv.2.2.2.1])
    (S2Proofs.C06.paddedCell_entry_eq_of_rangeMin_eq c _ hv hfv.2.1 h)

theorem trackerOrigin_eq : trackerOrigin = entryVertex (fromCellID (fromFace 0)) := by
  decide +kernel

theorem firstLeaf_eq : childBeginAtLevel (fromFace 0) maxLevel = rangeMin (fromFace 0) := by
  decide

/-- When the tracker is `atCellID(c)` (the stored `nextCellID` is `c.RangeMin()`), its focus is BITWISE the entry vertex
    of `c`: the Hilbert curve is continuous (exit of a cell = entry of the next one, across levels and across faces), and
    the tracker origin is the entry vertex of every cell that starts at the first leaf of face 0. -/
theorem focusAt_entry {K : CellID → Prop} (f : V3) (N c : CellID) (h : FocusAt K f N) (hv : isValid c = true) (hN : rangeMin c = N) :
    f = entryVertex (fromCellID c) := by
  cases h with
  | origin =>
    rw [trackerOrigin_eq]
    exact (entryVertex_of_face_lo hv (by omega) (by rw [hN, firstLeaf_eq])).symm
  | exit q hq _ =>
    obtain ⟨k, hk⟩ := (isValid_iff q).mp hq
    obtain ⟨kc, hkc⟩ := (isValid_iff c).mp hv
    obtain ⟨hnlo, hncell⟩ := hk.next_facts
    have vc := valid_facts hv
    have vq := valid_facts hq
    have hloc : lo c = hi q + 2 := by rw [← hnlo]; exact congrArg UInt64.toNat hN
    have hclt := hkc.face_lt
    have hnk : IsCell (next q) k := hncell (by omega)
    have hnv : isValid (next q) = true := (isValid_iff _).mpr ⟨k, hnk⟩
    have hg6 := hk.face_lt6
    obtain ⟨fq1, fq2⟩ := face_contains hq
    have hfv := S2Proofs.C01.fromFace_spec (face q) hg6
    have vf := valid_facts hfv.2.1
    by_cases hlast : hi q = hi (fromFace (face q))
    · -- `q` is the last cell of its face
      by_cases hg5 : face q < 5
      · have ho := face_order (face q) hg5
        have e1 : exitVertex (fromCellID q) = exitVertex (fromCellID (fromFace (face q))) :=
          exitVertex_congr (by rw [hfv.2.2.2.1]) (exit_of_face_hi k q (face q) hg6 hk rfl hlast)
        have e3 : entryVertex (fromCellID c) = entryVertex (fromCellID (fromFace (face q + 1))) :=
          entryVertex_of_face_lo hv (by omega) (UInt64.toNat_inj.mp (by
            show lo c = lo (fromFace (face q + 1)); omega))
        rw [e1, e3]
        exact S2Proofs.C06.paddedCell_face_exit_eq_next_face_entry (face q) hg5
      · exfalso
        have : face q = 5 := by omega
        rw [this] at hlast
        have := face5_hi
        omega
    · -- `next q` is on the same face
      have hnf : face (next q) = face q :=
        face_of_lo_in_face hnv hg6 (by omega) (by omega)
      have hcf : face c = face q := face_of_lo_in_face hv hg6 (by omega) (by omega)
      exact exit_entry_congr hcf.symm
        (S2Proofs.C06.paddedCell_tracker_chain q c hq hnv hnf hv hN)

end S2Proofs.C06BuildH
