/-
  S2Proofs.C06.BuildParity — the toggles `testAllEdges` performs for one shape on one focus segment
  have the parity of the crossings of that segment with ALL edges of the shape (work package `c06i3`).
-/
import S2Proofs.C06.BuildDefs
import S2.Contain
import S2Proofs.Contain.Basic
import S2Proofs.Contain.Cross
open S2 S2.CellID S2.PaddedCellM S2.IndexBuild
namespace S2Proofs.C06BuildH

/-- the edge ids of the clipped edges of one shape, in list order -/
def shapeEdgeIDs (sid : Nat) (es : List ClippedEdge) : List Nat :=
  (es.filter fun e => e.fe.shapeID == sid).map (·.fe.edgeID)

theorem mem_shapeEdgeIDs (sid : Nat) (es : List ClippedEdge) (i : Nat) :
    i ∈ shapeEdgeIDs sid es ↔ ∃ ce ∈ es, ce.fe.shapeID = sid ∧ ce.fe.edgeID = i := by
  unfold shapeEdgeIDs
  simp only [List.mem_map, List.mem_filter, beq_iff_eq]
  constructor
  · rintro ⟨ce, ⟨h1, h2⟩, h3⟩; exact ⟨ce, h1, h2, h3⟩
  · rintro ⟨ce, h1, h2, h3⟩; exact ⟨ce, ⟨h1, h2⟩, h3⟩

/-- in a list sorted by (shape id, edge id), the edge ids of one shape are strictly increasing -/
theorem shapeEdgeIDs_lt (sid : Nat) (es : List ClippedEdge)
    (hsorted : List.Pairwise FLt (es.map (·.fe))) :
    List.Pairwise (fun x y : Nat => x < y) (shapeEdgeIDs sid es) := by
  unfold shapeEdgeIDs
  rw [List.pairwise_map] at hsorted ⊢
  have h := hsorted.filter (fun e => e.fe.shapeID == sid)
  refine List.Pairwise.imp_of_mem ?_ h
  intro x y hx hy hxy
  have hx' : x.fe.shapeID = sid := by simpa using (List.mem_filter.mp hx).2
  have hy' : y.fe.shapeID = sid := by simpa using (List.mem_filter.mp hy).2
  rcases hxy with hlt | ⟨_, hlt⟩
  · omega
  · exact hlt

theorem shapeEdgeIDs_nodup (sid : Nat) (es : List ClippedEdge)
    (hsorted : List.Pairwise FLt (es.map (·.fe))) : (shapeEdgeIDs sid es).Nodup := by
  have h := shapeEdgeIDs_lt sid es hsorted
  unfold List.Nodup
  exact h.imp (fun hab => Nat.ne_of_lt hab)

/-- the listed edges of one shape, read off the face edges, are the shape's edges with the listed ids -/
theorem shape_listed_map (shapes : Array Shape) (sid : Nat) (hdim : (shapes[sid]!).dim = 2)
    (f : V3 → V3 → Bool) (L : List ClippedEdge)
    (hL : ∀ ce ∈ L, FEQ2 shapes ce.fe ∧ ce.fe.shapeID = sid) :
    L.map (fun e => e.fe.hasInterior && f e.fe.v0 e.fe.v1) =
      (S2Proofs.Contain.listed (shapes[sid]!).edges.toList (L.map (·.fe.edgeID))).map
        (fun e => f e.1 e.2) := by
  induction L with
  | nil => rfl
  | cons ce L ih =>
    have ih' := ih (fun x hx => hL x (List.mem_cons_of_mem _ hx))
    obtain ⟨⟨hq, hv0, hv1, hint⟩, hs⟩ := hL ce List.mem_cons_self
    obtain ⟨_, hlt, _⟩ := hq
    rw [hs] at hlt hv0 hv1 hint
    have hlt' : ce.fe.edgeID < (shapes[sid]!).edges.toList.length := by simpa using hlt
    have hget : (shapes[sid]!).edges.toList[ce.fe.edgeID]? = some ((shapes[sid]!).edges[ce.fe.edgeID]!) := by
      rw [List.getElem?_eq_getElem hlt', Array.getElem_toList, getElem!_pos (shapes[sid]!).edges ce.fe.edgeID hlt]
    have hi : ce.fe.hasInterior = true := by rw [hint, hdim]; rfl
    unfold S2Proofs.Contain.listed at ih' ⊢
    simp only [List.map_cons, List.filterMap_cons, hget, ih', hi, Bool.true_and, hv0, hv1]

/-- The toggles `testAllEdges` performs for shape `sid` on one focus segment `a → b` (one per listed edge of that shape,
    answered by `X = EdgeOrVertexCrossing(a, b, ·, ·)`) have the parity of the crossings of `a → b` with ALL edges of the
    shape, provided every unlisted edge of the shape does not cross `a → b`. -/
theorem filter_parity (shapes : Array Shape) (sid : Nat) (hsid : sid < shapes.size) (hdim : (shapes[sid]!).dim = 2)
    (G : Contain.Geo V3) (a b : V3) (es : List ClippedEdge)
    (hfeq : ∀ ce ∈ es, FEQ2 shapes ce.fe) (hsorted : List.Pairwise FLt (es.map (·.fe)))
    (hun : ∀ i, i < (shapes[sid]!).edges.size → (∀ ce ∈ es, ¬ (ce.fe.shapeID = sid ∧ ce.fe.edgeID = i)) →
      Contain.edgeOrVertexCrossing G a b ((shapes[sid]!).edges[i]!).1 ((shapes[sid]!).edges[i]!).2 = false) :
    Contain.xorAll ((es.filter fun e => e.fe.shapeID == sid).map
        fun e => e.fe.hasInterior && Contain.edgeOrVertexCrossing G a b e.fe.v0 e.fe.v1) =
      Contain.crossParity G a b (shapes[sid]!).edges.toList := by
  have hL : ∀ ce ∈ es.filter (fun e => e.fe.shapeID == sid), FEQ2 shapes ce.fe ∧ ce.fe.shapeID = sid := by
    intro ce hce
    obtain ⟨h1, h2⟩ := List.mem_filter.mp hce
    exact ⟨hfeq ce h1, by simpa using h2⟩
  rw [shape_listed_map shapes sid hdim (Contain.edgeOrVertexCrossing G a b) _ hL]
  have hcp := S2Proofs.Contain.crossParity_listed G a b (shapes[sid]!).edges.toList (shapeEdgeIDs sid es)
    (shapeEdgeIDs_nodup sid es hsorted)
    (by
      intro i hi
      obtain ⟨ce, hce, hs, he⟩ := (mem_shapeEdgeIDs sid es i).mp hi
      obtain ⟨⟨_, hlt, _⟩, _⟩ := hfeq ce hce
      rw [hs, he] at hlt
      simpa using hlt)
    (by
      intro i hi hni
      have hi' : i < (shapes[sid]!).edges.size := by simpa using hi
      have h := hun i hi' (by
        intro ce hce hh
        exact hni ((mem_shapeEdgeIDs sid es i).mpr ⟨ce, hce, hh.1, hh.2⟩))
      rw [getElem!_pos (shapes[sid]!).edges i hi'] at h
      simpa [Array.getElem_toList] using h)
  unfold Contain.crossParity at hcp
  exact hcp

end S2Proofs.C06BuildH
