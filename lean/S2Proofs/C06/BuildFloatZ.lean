/-
  S2Proofs.C06.BuildFloatZ — the bridge of `BuildFloat.lean` (FLOAT EdgeCrosser of the index builder's tracker and of
  `containsBruteForce` = EXACT containment model `S2.Contain` over `Contain.exactGeo`) WITHOUT the exclusion of negative-zero
  coordinates: the point class is `Unitish` (finite, | ‖p‖² − 1 | ≤ 2^-16) instead of `UnitPt` (= `Unitish` ∧ no −0).

  This matters for the builder: `faceUVToXYZ` negates coordinates on faces 1–5, so the entry / exit vertices and centres of the
  cells on a face's central cross carry a `-0.0` coordinate (centre of face 1 = (−0, 1, 0)); with `UnitPt` the clause
  `crosser_exact` of `TrackSound` could not be discharged for such cells.

  Side condition as before, only on the two vertices `a b` of the crosser's own edge: `referenceDir a`, `referenceDir b`
  unit-ish (needed because `VertexCrossing` calls `RobustSign` with them and `RobustSign = exactDecision` is proved on
  unit-ish points).

    `contain_crossingSign_eqZ`, `eovc_float_eq_exactZ`, `crosserOuts_exact_fromZ`, `crosserOuts_exactZ`, `crosserOuts_invZ`,
    `containsBruteForce_float_eq_exactZ(')`, and the C04 side fact `s2Ortho_feq_of_feq` (Go-`==` points have Go-`==` reference
    directions — the hypothesis "always true in IEEE arithmetic, not proved for the soft-float" of `C04.CocycleDomAny`, PROVED).
-/
import S2Proofs.C06.BuildFloat
import S2Proofs.Properties.C03_AllZeros
open S2 S2.Pred S2.IndexBuild
namespace S2Proofs.C06BuildH
open S2Proofs.C03 S2Proofs.C02Err S2Proofs.F64Order S2Proofs.ExactLaws S2Proofs.C03Z

local notation "E" => S2.Pred.exactDecision

/-! ### reference directions of Go-`==` points -/

/-- **Go-`==` points (a vector and its ±0 twin) have Go-`==` reference directions** `s2Ortho` (when these are finite):
    every float stage of `Ortho` — `LargestAbsComponent`, the cross product, `Normalize` — treats ±0 twins alike. -/
theorem s2Ortho_feq_of_feq {x y : V3} (h : V3.feq x y = true) (hy : Fin3 (Contain.s2Ortho y)) :
    V3.feq (Contain.s2Ortho x) (Contain.s2Ortho y) = true :=
  contain_s2Ortho_feq h hy

/-! ### `CrossingSign` -/

/-- the exact model's `CrossingSign` in terms of the specification of C03 — all unit-ish points -/
theorem contain_crossingSign_eqZ {a b c d : V3} (ha : Unitish a) (hb : Unitish b) (hc : Unitish c) (hd : Unitish d) :
    Contain.crossingSign Contain.exactGeo a b c d =
      if Crossing.sharesEndpoint a b c d then Contain.Crossing.maybe
      else if Crossing.fourSameWith E a b c d then Contain.Crossing.cross else Contain.Crossing.doNot := by
  have fa := ha.1
  have fb := hb.1
  have fc := hc.1
  have fd := hd.1
  unfold Contain.crossingSign
  show (if (V3.feq a c || V3.feq a d || V3.feq b c || V3.feq b d) = true then Contain.Crossing.maybe
    else if (V3.feq a b || V3.feq c d) = true then Contain.Crossing.doNot
    else if (E a b d != -(E a b c)) = true then Contain.Crossing.doNot
    else if (-(E c d b) != -(E a b c)) = true then Contain.Crossing.doNot
    else if (E c d a != -(E a b c)) = true then Contain.Crossing.doNot
    else Contain.Crossing.cross) = _
  by_cases hsh : Crossing.sharesEndpoint a b c d = true
  · rw [if_pos hsh, if_pos (by simpa [Crossing.sharesEndpoint] using hsh)]
  have hsh0 : ¬ (V3.feq a c || V3.feq a d || V3.feq b c || V3.feq b d) = true := by
    simpa [Crossing.sharesEndpoint] using hsh
  rw [if_neg hsh, if_neg hsh0]
  simp only [Bool.or_eq_true, not_or, Bool.not_eq_true] at hsh0
  obtain ⟨⟨⟨hac, had⟩, hbc⟩, hbd⟩ := hsh0
  have h4 := fourSame_iff_exact fa fb fc fd
  by_cases hdeg : (V3.feq a b || V3.feq c d) = true
  · rw [if_pos hdeg]
    have hnot : ¬ Crossing.fourSameWith E a b c d = true := by
      rw [h4]
      simp only [Bool.or_eq_true] at hdeg
      rcases hdeg with h | h
      · have := (E_zero_iff fa fb fc).2 (Or.inl h)
        omega
      · have := (E_zero_iff fc fd fb).2 (Or.inl h)
        omega
    rw [if_neg hnot]
  rw [if_neg hdeg]
  simp only [Bool.or_eq_true, not_or, Bool.not_eq_true] at hdeg
  obtain ⟨hab, hcd⟩ := hdeg
  have hca : V3.feq c a = false := by rw [feq_comm fc fa]; exact hac
  have hp := E_unit fa fb fc hab hbc hca
  generalize E a b c = p at *
  generalize E a b d = q at *
  generalize E c d b = s at *
  generalize E c d a = r at *
  by_cases hx : q = -p
  · by_cases hy : s = p
    · by_cases hz : r = -p
      · have : Crossing.fourSameWith E a b c d = true := h4.mpr ⟨by omega, hy, hx, hz⟩
        rw [if_pos this]
        simp [hx, hy, hz]
      · have : ¬ Crossing.fourSameWith E a b c d = true := fun h => hz (h4.mp h).2.2.2
        rw [if_neg this]
        subst hx hy
        simp [hz]
    · have : ¬ Crossing.fourSameWith E a b c d = true := fun h => hy (h4.mp h).2.1
      rw [if_neg this]
      subst hx
      simp [hy]
  · have : ¬ Crossing.fourSameWith E a b c d = true := fun h => hx (h4.mp h).2.2.1
    rw [if_neg this]
    simp [hx]

/-! ### theorem 1: one stateless call -/

/-- **float = exact, one call, negative zeros allowed**: the stateless float `EdgeOrVertexCrossing(a,b,c,d)` (tangent
    rejection, triage, stable and exact fallbacks, `VertexCrossing` over `RobustSign`) equals the exact model's.
    Hypotheses: the four points unit-ish; the reference directions of `a` and `b` unit-ish. -/
theorem eovc_float_eq_exactZ (a b c d : V3) (ha : Unitish a) (hb : Unitish b) (hc : Unitish c) (hd : Unitish d)
    (hra : Unitish (Crossing.referenceDir a)) (hrb : Unitish (Crossing.referenceDir b)) :
    Crossing.edgeOrVertexCrossing a b c d = Contain.edgeOrVertexCrossing Contain.exactGeo a b c d := by
  unfold Crossing.edgeOrVertexCrossing Contain.edgeOrVertexCrossing
  rw [crossingSign_exact_allZeros ha hb hc hd, contain_crossingSign_eqZ ha hb hc hd]
  unfold Crossing.exactCrossing Crossing.exactCrossingWith
  by_cases hsh : Crossing.sharesEndpoint a b c d = true
  · simp only [hsh, if_true]
    exact vertexCrossing_float_eq_exact ha hb hc hd hra hrb
  · by_cases h4 : Crossing.fourSameWith E a b c d = true
    · simp [hsh, h4]
    · simp [hsh, h4]

/-! ### theorem 2: the stateful crosser -/

/-- the stateful crosser answers like the stateless float function, from any state with the cache invariant -/
theorem crosserOuts_stateless_fromZ {a b : V3} (ha : Unitish a) (hb : Unitish b) (l : List (V3 × V3))
    (hl : ∀ e ∈ l, Unitish e.1 ∧ Unitish e.2) :
    ∀ {st : Crosser.St}, S2Proofs.C03.Inv Unitish a b st →
      crosserOuts st l = l.map fun e => Crossing.edgeOrVertexCrossing a b e.1 e.2 := by
  induction l with
  | nil => intros; rfl
  | cons e rest ih =>
    intro st hI
    have he := hl e (by simp)
    obtain ⟨h1, h2, _, _⟩ := step_specZ unitish_zdom floatSound_unitish ha hb hI
      (.edgeOrVertexCrossing e.1 e.2)
      (by
        intro p hp
        simp only [Crosser.Op.points, List.mem_cons, List.mem_nil_iff, or_false] at hp
        rcases hp with rfl | rfl
        · exact he.1
        · exact he.2)
      (Or.inr rfl)
    have h1' : (Crosser.edgeOrVertexCrossing st e.1 e.2).2 = Crossing.edgeOrVertexCrossing a b e.1 e.2 := by
      have : Crosser.Out.bool (Crosser.edgeOrVertexCrossing st e.1 e.2).2 =
          Crosser.Out.bool (Crossing.edgeOrVertexCrossing a b e.1 e.2) := h1
      exact Crosser.Out.bool.inj this
    have h2' : S2Proofs.C03.Inv Unitish a b (Crosser.edgeOrVertexCrossing st e.1 e.2).1 := h2
    simp only [crosserOuts, List.map_cons]
    rw [h1', ih (fun x hx => hl x (by simp [hx])) h2']

/-- **float = exact, a crosser in any state satisfying the cache invariant** `S2Proofs.C03.Inv Unitish a b st` — e.g. the
    tracker's crosser after any number of earlier `testEdge` calls; negative zeros allowed everywhere (also an edge whose
    first vertex is a ±0 twin of the vertex the crosser has cached). -/
theorem crosserOuts_exact_fromZ {a b : V3} (ha : Unitish a) (hb : Unitish b)
    (hra : Unitish (Crossing.referenceDir a)) (hrb : Unitish (Crossing.referenceDir b))
    {st : Crosser.St} (hI : S2Proofs.C03.Inv Unitish a b st) (l : List (V3 × V3)) (hl : ∀ e ∈ l, Unitish e.1 ∧ Unitish e.2) :
    crosserOuts st l = l.map fun e => Contain.edgeOrVertexCrossing Contain.exactGeo a b e.1 e.2 := by
  rw [crosserOuts_stateless_fromZ ha hb l hl hI]
  apply List.map_congr_left
  intro e he
  exact eovc_float_eq_exactZ a b e.1 e.2 ha hb (hl e he).1 (hl e he).2 hra hrb

/-- **float = exact, the stateful crosser** `NewEdgeCrosser(a, b)` asked `EdgeOrVertexCrossing(v0, v1)` for a list of
    edges: every answer is the exact model's.  Hypotheses: `a`, `b` and all edge endpoints unit-ish (any sign of zero
    coordinates); the reference directions of `a` and `b` unit-ish. -/
theorem crosserOuts_exactZ (a b : V3) (ha : Unitish a) (hb : Unitish b)
    (hra : Unitish (Crossing.referenceDir a)) (hrb : Unitish (Crossing.referenceDir b))
    (l : List (V3 × V3)) (hl : ∀ e ∈ l, Unitish e.1 ∧ Unitish e.2) :
    crosserOuts (Crosser.init a b) l =
      l.map fun e => Contain.edgeOrVertexCrossing Contain.exactGeo a b e.1 e.2 :=
  crosserOuts_exact_fromZ ha hb hra hrb init_inv l hl

/-- the state after the calls still satisfies the invariant (so the statement composes over `testAllEdges` calls) -/
theorem crosserOuts_invZ {a b : V3} (ha : Unitish a) (hb : Unitish b) {st : Crosser.St} (hI : S2Proofs.C03.Inv Unitish a b st)
    {c d : V3} (hc : Unitish c) (hd : Unitish d) : S2Proofs.C03.Inv Unitish a b (Crosser.edgeOrVertexCrossing st c d).1 := by
  obtain ⟨_, h2, _, _⟩ := step_specZ unitish_zdom floatSound_unitish ha hb hI
    (.edgeOrVertexCrossing c d)
    (by
      intro p hp
      simp only [Crosser.Op.points, List.mem_cons, List.mem_nil_iff, or_false] at hp
      rcases hp with rfl | rfl
      · exact hc
      · exact hd)
    (Or.inr rfl)
  exact h2

/-! ### theorem 3: `containsBruteForce` -/

/-- **float = exact, the builder's `containsBruteForce(shape, p)`**, negative zeros allowed.
    Hypotheses: the shape's reference point, `p` and all edge endpoints unit-ish; the reference directions of the
    shape's reference point and of `p` unit-ish. -/
theorem containsBruteForce_float_eq_exactZ (s : Shape) (p : V3) (href : Unitish s.refPoint) (hp : Unitish p)
    (hrref : Unitish (Crossing.referenceDir s.refPoint)) (hrp : Unitish (Crossing.referenceDir p))
    (hedges : ∀ e ∈ s.edges.toList, Unitish e.1 ∧ Unitish e.2) :
    IndexBuild.containsBruteForce s p =
      Contain.containsBruteForce Contain.exactGeo (S2Proofs.C06Build.toShapeM s) p := by
  rw [containsBruteForce_eq_crosserOuts, crosserOuts_exactZ s.refPoint p href hp hrref hrp s.edges.toList hedges]
  rfl

/-- the hypotheses are needed only when the crosser really runs (dimension 2 and `p` not `==` the reference point) -/
theorem containsBruteForce_float_eq_exactZ' (s : Shape) (p : V3)
    (h : s.dim = 2 → V3.feq s.refPoint p = false →
      Unitish s.refPoint ∧ Unitish p ∧ Unitish (Crossing.referenceDir s.refPoint) ∧
        Unitish (Crossing.referenceDir p) ∧ ∀ e ∈ s.edges.toList, Unitish e.1 ∧ Unitish e.2) :
    IndexBuild.containsBruteForce s p =
      Contain.containsBruteForce Contain.exactGeo (S2Proofs.C06Build.toShapeM s) p := by
  by_cases hd : s.dim = 2
  · cases hq : V3.feq s.refPoint p
    · obtain ⟨h1, h2, h3, h4, h5⟩ := h hd hq
      exact containsBruteForce_float_eq_exactZ s p h1 h2 h3 h4 h5
    · unfold IndexBuild.containsBruteForce Contain.containsBruteForce
      simp [hd, hq, S2Proofs.C06Build.toShapeM, Contain.exactGeo]
  · unfold IndexBuild.containsBruteForce Contain.containsBruteForce
    have : (s.dim != 2) = true := by simpa using hd
    simp [this, S2Proofs.C06Build.toShapeM]

/-! ### non-vacuity: the octant triangle seen from the centre of face 1, which has a `-0.0` coordinate -/

/-- (−0, 1, 0) = `faceUVToXYZ 1 0 0`, the centre of face 1 -/
def oYz : V3 := ⟨⟨0x8000000000000000⟩, ⟨0x3FF0000000000000⟩, ⟨0⟩⟩
/-- (1, −0, −0) -/
def oXz : V3 := ⟨⟨0x3FF0000000000000⟩, ⟨0x8000000000000000⟩, ⟨0x8000000000000000⟩⟩

theorem octantZ_hyps :
    Unitish oYz ∧ Unitish oXz ∧ ¬ UnitPt oYz ∧ ¬ UnitPt oXz ∧ oYz = STUV.faceUVToXYZ 1 (F64.zero false) (F64.zero false) ∧
    Unitish (Crossing.referenceDir oYz) ∧ Unitish (Crossing.referenceDir oXz) := by
  unfold UnitPt
  decide +kernel

/-- `crosserOuts_exactZ` on the segment oP → (−0,1,0) (a tracker segment ending in the centre of face 1) against the
    octant triangle, one of whose vertices is `==` but not `=` to the end point, and one written as (1,−0,−0) -/
example : crosserOuts (Crosser.init oP oYz) [(oXz, oY), (oY, oZ), (oZ, oX)] =
    [(oXz, oY), (oY, oZ), (oZ, oX)].map fun e => Contain.edgeOrVertexCrossing Contain.exactGeo oP oYz e.1 e.2 := by
  obtain ⟨hX, hY, hZ, hP, _, _, hrP, _⟩ := octant_hyps
  obtain ⟨hYz, hXz, _, _, _, hrYz, _⟩ := octantZ_hyps
  refine crosserOuts_exactZ oP oYz hP.1 hYz hrP hrYz _ ?_
  intro e he
  simp only [List.mem_cons, List.mem_nil_iff, or_false] at he
  rcases he with rfl | rfl | rfl
  · exact ⟨hXz, hY.1⟩
  · exact ⟨hY.1, hZ.1⟩
  · exact ⟨hZ.1, hX.1⟩

end S2Proofs.C06BuildH
