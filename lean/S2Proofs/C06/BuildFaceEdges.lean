/-
  S2Proofs.C06.BuildFaceEdges — the face edges of the build: every face edge carries the endpoints and the
  interior flag of the shape edge it points to (`allFaceEdges_FEQ2`), and the face edges of one face are
  strictly increasing in (shape id, edge id) (`faceEdgesOf_sorted`).
-/
import S2Proofs.C06.BuildDefs
open S2 S2.CellID S2.Hilbert S2.PaddedCellM S2.IndexBuild S2Proofs.C12H S2Proofs.C06PC
namespace S2Proofs.C06BuildH

/-- `addFaceEdge` only rewrites the clipped endpoints `a`, `b` -/
theorem addFaceEdge_fields2 (fe : FaceEdge) : ∀ x ∈ addFaceEdge fe,
    x.2.shapeID = fe.shapeID ∧ x.2.edgeID = fe.edgeID ∧ x.2.maxLevel = fe.maxLevel ∧
    x.2.hasInterior = fe.hasInterior ∧ x.2.v0 = fe.v0 ∧ x.2.v1 = fe.v1 := by
  intro x hx
  unfold addFaceEdge at hx
  simp only [] at hx
  split at hx
  · rename_i fe' hd
    simp at hx
    subst hx
    split at hd
    · split at hd
      · simp at hd; subst hd; exact ⟨rfl, rfl, rfl, rfl, rfl, rfl⟩
      · cases hd
    · cases hd
  · obtain ⟨face, _, hface⟩ := List.mem_filterMap.mp hx
    split at hface
    · simp at hface; subst hface; exact ⟨rfl, rfl, rfl, rfl, rfl, rfl⟩
    · cases hface

/-- the faces `addFaceEdge` appends to are strictly increasing: one edge gives at most one face edge per face -/
theorem addFaceEdge_faces (fe : FaceEdge) :
    List.Pairwise (fun x y : Nat × FaceEdge => x.1 < y.1) (addFaceEdge fe) := by
  unfold addFaceEdge
  simp only []
  split
  · exact List.pairwise_singleton _ _
  · refine List.Pairwise.filterMap (R := fun a b : Nat => a < b) _ ?_ List.pairwise_lt_range
    intro a a' haa b hb b' hb'
    split at hb
    · split at hb'
      · simp at hb hb'; subst hb; subst hb'; exact haa
      · cases hb'
    · cases hb

theorem faceEdgesOf_nil (f : Nat) : faceEdgesOf [] f = [] := rfl

theorem faceEdgesOf_append (l₁ l₂ : List (Nat × FaceEdge)) (f : Nat) :
    faceEdgesOf (l₁ ++ l₂) f = faceEdgesOf l₁ f ++ faceEdgesOf l₂ f := by
  unfold faceEdgesOf
  exact List.filterMap_append

theorem faceEdgesOf_flatMap {α : Type} (l : List α) (g : α → List (Nat × FaceEdge)) (f : Nat) :
    faceEdgesOf (l.flatMap g) f = l.flatMap (fun i => faceEdgesOf (g i) f) := by
  induction l with
  | nil => rfl
  | cons a t ih =>
    rw [List.flatMap_cons, List.flatMap_cons, faceEdgesOf_append, ih]

/-- a list of `(face, faceEdge)` with strictly increasing faces has at most one entry on a given face -/
theorem faceEdgesOf_length_le_one (l : List (Nat × FaceEdge)) (f : Nat)
    (h : List.Pairwise (fun x y : Nat × FaceEdge => x.1 < y.1) l) : (faceEdgesOf l f).length ≤ 1 := by
  induction l with
  | nil => simp [faceEdgesOf]
  | cons x t ih =>
    obtain ⟨hx, ht⟩ := List.pairwise_cons.mp h
    by_cases hxf : x.1 = f
    · have hnil : faceEdgesOf t f = [] := by
        unfold faceEdgesOf
        apply List.filterMap_eq_nil_iff.mpr
        intro y hy
        have := hx y hy
        have hne : ¬ y.1 = f := by omega
        simp [hne]
      have : faceEdgesOf (x :: t) f = x.2 :: faceEdgesOf t f := by
        unfold faceEdgesOf
        simp [hxf]
      rw [this, hnil]
      simp
    · have : faceEdgesOf (x :: t) f = faceEdgesOf t f := by
        unfold faceEdgesOf
        simp [hxf]
      rw [this]
      exact ih ht

/-- lists of length at most one are pairwise related for any relation -/
theorem pairwise_of_length_le_one {α : Type} (R : α → α → Prop) (l : List α) (h : l.length ≤ 1) :
    List.Pairwise R l := by
  match l, h with
  | [], _ => exact List.Pairwise.nil
  | [a], _ => exact List.pairwise_singleton _ _
  | _ :: _ :: _, h => simp at h

/-- blocks indexed by `0 … n-1`, each sorted, and elements of an earlier block below those of a later one -/
theorem pairwise_range_flatMap {β : Type} (R : β → β → Prop) (g : Nat → List β) (n : Nat)
    (h1 : ∀ i, i < n → List.Pairwise R (g i))
    (h2 : ∀ i j, i < j → ∀ x ∈ g i, ∀ y ∈ g j, R x y) :
    List.Pairwise R ((List.range n).flatMap g) := by
  rw [List.pairwise_flatMap]
  refine ⟨fun a ha => h1 a (List.mem_range.mp ha), ?_⟩
  exact List.pairwise_lt_range.imp (fun {a b} hab => h2 a b hab)

/-- every face edge of the build carries the endpoints and interior flag of the shape edge it points to -/
theorem allFaceEdges_FEQ2 (shapes : Array Shape) : ∀ x ∈ allFaceEdges shapes, FEQ2 shapes x.2 := by
  intro x hx
  refine ⟨allFaceEdges_FEQ shapes x hx, ?_⟩
  unfold allFaceEdges at hx
  obtain ⟨id, hid, hx⟩ := List.mem_flatMap.mp hx
  unfold shapeFaceEdges at hx
  obtain ⟨e, he, hx⟩ := List.mem_flatMap.mp hx
  obtain ⟨h1, h2, _, h4, h5, h6⟩ := addFaceEdge_fields2 _ x hx
  simp only [] at h1 h2 h4 h5 h6
  rw [h1, h2, h4, h5, h6]
  exact ⟨rfl, rfl, rfl⟩

/-- the face edges of one shape on one face all carry the shape's id -/
theorem shapeFaceEdges_shapeID (id : Nat) (s : Shape) (f : Nat) :
    ∀ x ∈ faceEdgesOf (shapeFaceEdges id s) f, x.shapeID = id := by
  intro x hx
  obtain ⟨y, hy, rfl⟩ := faceEdgesOf_mem _ _ _ hx
  unfold shapeFaceEdges at hy
  obtain ⟨e, _, hy⟩ := List.mem_flatMap.mp hy
  exact (addFaceEdge_fields2 _ y hy).1

/-- the face edges of one shape on one face are strictly increasing in (shape id, edge id) -/
theorem shapeFaceEdges_sorted (id : Nat) (s : Shape) (f : Nat) :
    List.Pairwise FLt (faceEdgesOf (shapeFaceEdges id s) f) := by
  unfold shapeFaceEdges
  rw [faceEdgesOf_flatMap]
  apply pairwise_range_flatMap
  · intro e _
    exact pairwise_of_length_le_one _ _ (faceEdgesOf_length_le_one _ _ (addFaceEdge_faces _))
  · intro i j hij x hx y hy
    obtain ⟨x', hx', rfl⟩ := faceEdgesOf_mem _ _ _ hx
    obtain ⟨y', hy', rfl⟩ := faceEdgesOf_mem _ _ _ hy
    obtain ⟨a1, a2, _⟩ := addFaceEdge_fields2 _ x' hx'
    obtain ⟨b1, b2, _⟩ := addFaceEdge_fields2 _ y' hy'
    simp only [] at a1 a2 b1 b2
    right
    rw [a1, a2, b1, b2]
    exact ⟨rfl, hij⟩

/-- the face edges of one face are STRICTLY increasing in (shape id, edge id): `addShapeInternal` appends shape after
    shape, edge after edge, and one edge contributes at most one face edge to a given face -/
theorem faceEdgesOf_sorted (shapes : Array Shape) (f : Nat) :
    List.Pairwise FLt (faceEdgesOf (allFaceEdges shapes) f) := by
  unfold allFaceEdges
  rw [faceEdgesOf_flatMap]
  apply pairwise_range_flatMap
  · intro id _
    exact shapeFaceEdges_sorted id _ f
  · intro i j hij x hx y hy
    have hx' := shapeFaceEdges_shapeID _ _ _ x hx
    have hy' := shapeFaceEdges_shapeID _ _ _ y hy
    left
    rw [hx', hy']
    exact hij

end S2Proofs.C06BuildH
