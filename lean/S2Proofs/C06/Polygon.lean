/-
  S2Proofs.C06.Polygon — the search loops of `Polygon.Edge / Chain / ChainPosition`
  (s2/polygon.go) on the states built by `PolygonFromLoops`:

  * `linSearch`  (≤ 12 loops: `for i = 0; e >= len(p.Loop(i).vertices); i++ { e -= … }`),
  * `cumSearch`  (> 12 loops: `for i = range cumulativeEdges { if i+1 >= len || e < cum[i+1] { e -= cum[i]; break } }`),
  * `sumLens`    (`Chain`, ≤ 12 loops: `for j := 0; j < chainID; j++ { e += len(p.Loop(j).vertices) }`)

  each return what the prefix sums `start` of the loop lengths say, for every list of loops (no
  size bound).  From these, the three hypotheses of `contract_prefix` follow for every valid
  polygon (helper lemmas for S2Proofs/Properties/C06_Polygon.lean).
-/
import S2Proofs.C06.Simple
namespace S2Proofs.C06
open S2 S2.Shapes

/-- the vertex counts of the loops -/
def lens (loops : List LoopS) : List Nat := loops.map (·.n)

theorem lens_length (loops : List LoopS) : (lens loops).length = loops.length := by simp [lens]

theorem lens_get (loops : List LoopS) (i : Nat) (hi : i < loops.length) :
    (lens loops)[i]'(by simpa [lens] using hi) = loops[i].n := by simp [lens]

/-! ### the three loops -/

/-- linear scan: on edge id `start i + j` (with `j` inside loop `i`) the scan that starts at loop
    number `k` stops at `k + i` with the remainder `j`. -/
theorem linSearch_spec : ∀ (loops : List LoopS) (k : Int) (i : Nat) (hi : i < loops.length) (j : Nat),
    j < loops[i].n →
    Polygon.linSearch loops k (((start (lens loops) i : Nat) : Int) + (j : Nat)) = some (k + (i : Nat), ((j : Nat) : Int))
  | [], _, i, hi, _, _ => by simp at hi
  | l :: rest, k, 0, _, j, hj => by
    have hj' : j < l.n := by simpa using hj
    rw [start_zero]
    unfold Polygon.linSearch
    rw [if_neg (by omega)]
    simp
  | l :: rest, k, i + 1, hi, j, hj => by
    have hi' : i < rest.length := by simpa using hi
    have hj' : j < rest[i].n := by simpa using hj
    have ih := linSearch_spec rest (k + 1) i hi' j hj'
    have hs : start (lens (l :: rest)) (i + 1) = l.n + start (lens rest) i := by
      show start (l.n :: lens rest) (i + 1) = _
      exact start_cons _ _ _
    have hge : (((start (lens (l :: rest)) (i + 1) : Nat) : Int) + (j : Nat) ≥ (l.n : Int)) := by
      rw [hs]; omega
    have he : (((start (lens (l :: rest)) (i + 1) : Nat) : Int) + (j : Nat) - (l.n : Int))
        = ((start (lens rest) i : Nat) : Int) + (j : Nat) := by
      rw [hs]; omega
    simp only [Polygon.linSearch, hge, if_true, he, ih]
    congr 2; omega

/-- for `ns = n :: rest` the slice `cumulativeEdges` (the first `len` prefix sums) -/
theorem take_prefixSums_cons (acc : Int) (n : Nat) (rest : List Nat) :
    (prefixSums acc (n :: rest)).take (n :: rest).length = acc :: (prefixSums (acc + n) rest).take rest.length := by
  simp [prefixSums]

/-- `cumulativeEdges` scan: on `acc + start i + j` the scan of the slice of prefix sums that starts
    at `acc`, entered with index `k`, breaks at `k + i` with the remainder `j`. -/
theorem cumSearch_spec : ∀ (ns : List Nat) (acc k : Int) (i : Nat) (hi : i < ns.length) (j : Nat), j < ns[i] →
    Polygon.cumSearch ((prefixSums acc ns).take ns.length) k (acc + ((start ns i : Nat) : Int) + (j : Nat))
      = (k + (i : Nat), ((j : Nat) : Int))
  | [], _, _, i, hi, _, _ => by simp at hi
  | [n], acc, k, i, hi, j, _ => by
    have : i = 0 := by simpa using hi
    subst this
    simp [prefixSums, Polygon.cumSearch, start_zero]
    omega
  | n :: m :: rest, acc, k, 0, _, j, hj => by
    have hj' : j < n := by simpa using hj
    rw [take_prefixSums_cons, take_prefixSums_cons]
    rw [start_zero]
    unfold Polygon.cumSearch
    rw [if_pos (by omega)]
    simp; omega
  | n :: m :: rest, acc, k, i + 1, hi, j, hj => by
    have hi' : i < (m :: rest).length := by simpa using hi
    have hj' : j < (m :: rest)[i] := by simpa using hj
    have ih := cumSearch_spec (m :: rest) (acc + n) (k + 1) i hi' j hj'
    rw [take_prefixSums_cons] at ih ⊢
    rw [take_prefixSums_cons]
    have hs : start (n :: m :: rest) (i + 1) = n + start (m :: rest) i := start_cons _ _ _
    have hnlt : ¬ (acc + ((start (n :: m :: rest) (i + 1) : Nat) : Int) + (j : Nat) < acc + (n : Int)) := by
      rw [hs]; omega
    have he : acc + ((start (n :: m :: rest) (i + 1) : Nat) : Int) + (j : Nat)
        = acc + (n : Int) + ((start (m :: rest) i : Nat) : Int) + (j : Nat) := by
      rw [hs]; omega
    simp only [Polygon.cumSearch, hnlt, if_false]
    rw [he, ih]
    congr 1; omega

/-- `Chain`'s summation loop: entered with `j = k`, `chainID = k + i` and the running sum `e` it
    leaves `e + start i` (and does not panic, `i ≤ len`). -/
theorem sumLens_spec : ∀ (loops : List LoopS) (k : Int) (i : Nat) (_ : i ≤ loops.length) (e : Int),
    Polygon.sumLens loops k (k + (i : Nat)) e = some (e + ((start (lens loops) i : Nat) : Int))
  | [], k, i, hi, e => by
    have : i = 0 := by simpa using hi
    subst this
    simp [Polygon.sumLens, start_zero]
  | l :: rest, k, 0, _, e => by
    simp [Polygon.sumLens, start_zero]
  | l :: rest, k, i + 1, hi, e => by
    have hi' : i ≤ rest.length := by simpa using hi
    have ih := sumLens_spec rest (k + 1) i hi' (e + (l.n : Int))
    have hs : start (lens (l :: rest)) (i + 1) = l.n + start (lens rest) i := by
      show start (l.n :: lens rest) (i + 1) = _
      exact start_cons _ _ _
    have hlt : k < k + ((i + 1 : Nat) : Int) := by omega
    have hk : k + ((i + 1 : Nat) : Int) = k + 1 + (i : Nat) := by omega
    simp only [Polygon.sumLens, hlt, if_true]
    rw [hk, ih, hs]
    congr 1; omega

/-! ### the state built by `PolygonFromLoops` for a polygon without one-vertex loops -/

/-- the state of a polygon none of whose loops is the one-vertex (empty / full) loop -/
def polyState (loops : List LoopS) : PolygonS :=
  { loops := loops
    numEdges := sumNat (lens loops)
    cumulativeEdges :=
      if loops.length > maxLinearSearchLoops then some ((prefixSums 0 (lens loops)).take loops.length) else none }

theorem fromLoops_eq (loops : List LoopS) (h : ∀ l ∈ loops, l.n ≠ 1) :
    PolygonS.fromLoops loops = polyState loops := by
  have hinit : PolygonS.init loops = polyState loops := by
    match loops, h with
    | [], _ => rfl
    | [l], h =>
      have := h l (by simp)
      simp [PolygonS.init, polyState, lens, LoopS.isFullB, LoopS.isEmptyOrFullB, this]
    | _ :: _ :: _, _ => rfl
  match loops, h, hinit with
  | [], _, hinit => exact hinit
  | [l], h, hinit =>
    have := h l (by simp)
    have hb : (l.n == 1) = false := by simp [this]
    simp only [PolygonS.fromLoops, LoopS.isEmptyB, LoopS.isEmptyOrFullB, hb, Bool.false_and,
      Bool.false_eq_true, if_false]
    exact hinit
  | _ :: _ :: _, _, hinit => exact hinit

section
variable (loops : List LoopS)

theorem polyState_loopAt (i : Nat) (hi : i < loops.length) :
    (polyState loops).loopAt (i : Nat) = some loops[i] := by
  simp [PolygonS.loopAt, polyState, hi]

/-- the `cumulativeEdges` slice holds the chain starts -/
theorem getI_take_prefixSums (ns : List Nat) (i : Nat) (hi : i < ns.length) :
    getI ((prefixSums 0 ns).take ns.length) (i : Nat) = some ((start ns i : Nat) : Int) := by
  have h := getI_prefixSums ns 0 i (by omega)
  simp only [getI] at h ⊢
  have p : (0 : Int) ≤ ((i : Nat) : Int) := by omega
  rw [if_pos p] at h ⊢
  have e : ((i : Nat) : Int).toNat = i := by omega
  rw [e] at h ⊢
  rw [List.getElem?_take_of_lt hi, h]
  simp

/-- `search` (common prefix of `Edge` and `ChainPosition`), both paths -/
theorem polyState_search (i : Nat) (hi : i < loops.length) (j : Nat) (hj : j < loops[i].n) :
    Polygon.search (polyState loops) (((start (lens loops) i : Nat) : Int) + (j : Nat))
      = some (((i : Nat) : Int), ((j : Nat) : Int)) := by
  by_cases hbig : loops.length > maxLinearSearchLoops
  · have hlen : (lens loops).length = loops.length := lens_length loops
    have hc : (polyState loops).cumulativeEdges = some ((prefixSums 0 (lens loops)).take (lens loops).length) := by
      simp [polyState, hbig, hlen]
    have hcl : (polyState loops).cumLen > 0 := by
      simp only [PolygonS.cumLen, hc, List.length_take, prefixSums_length, hlen]
      have : 0 < loops.length := by omega
      omega
    have hj' : j < (lens loops)[i]'(by omega) := by rw [lens_get loops i hi]; exact hj
    have := cumSearch_spec (lens loops) 0 0 i (by omega) j hj'
    simp only [Int.zero_add] at this
    simp only [Polygon.search, hcl, if_true, hc, this]
  · have hc : (polyState loops).cumulativeEdges = none := by simp [polyState, hbig]
    have hcl : ¬ ((polyState loops).cumLen > 0) := by simp [PolygonS.cumLen, hc]
    have := linSearch_spec loops 0 i hi j hj
    simp only [Int.zero_add] at this
    simp only [Polygon.search, hcl, if_false]
    exact this

theorem polyState_chainPosition (i : Nat) (hi : i < loops.length) (j : Nat) (hj : j < loops[i].n) :
    Polygon.ChainPosition (polyState loops) (((start (lens loops) i : Nat) : Int) + (j : Nat))
      = some (((i : Nat) : Int), ((j : Nat) : Int)) := by
  simp [Polygon.ChainPosition, polyState_search loops i hi j hj]

/-- `Chain(i) = (start i, len(loop i))`, both paths; needs the loop not to be a one-vertex loop in
    the linear path (there the code answers length 0). -/
theorem polyState_chain (hv : ∀ l ∈ loops, l.n ≠ 1) (i : Nat) (hi : i < loops.length) :
    Polygon.Chain (polyState loops) (i : Nat) = some (((start (lens loops) i : Nat) : Int), ((loops[i].n : Nat) : Int)) := by
  have hl := polyState_loopAt loops i hi
  by_cases hbig : loops.length > maxLinearSearchLoops
  · have hlen : (lens loops).length = loops.length := lens_length loops
    have hc : (polyState loops).cumulativeEdges = some ((prefixSums 0 (lens loops)).take (lens loops).length) := by
      simp [polyState, hbig, hlen]
    have hg := getI_take_prefixSums (lens loops) i (by omega)
    simp only [Polygon.Chain, hc, hg, hl]
    rfl
  · have hc : (polyState loops).cumulativeEdges = none := by simp [polyState, hbig]
    have hs := sumLens_spec loops 0 i (by omega) 0
    simp only [Int.zero_add] at hs
    have hn : ((loops[i].n : Nat) : Int) ≠ 1 := by
      have := hv loops[i] (List.getElem_mem hi); omega
    have hloops : (polyState loops).loops = loops := rfl
    simp only [Polygon.Chain, hc, hloops, hs, hl]
    simp [hn]

/-- `Edge(start i + j)` and `ChainEdge(i, j)` are the same pair of vertex labels; neither panics. -/
theorem polyState_edge (i : Nat) (hi : i < loops.length) (j : Nat) (hj : j < loops[i].n) :
    ∃ ed, Polygon.Edge (polyState loops) (((start (lens loops) i : Nat) : Int) + (j : Nat)) = some ed ∧
          Polygon.ChainEdge (polyState loops) (i : Nat) (j : Nat) = some ed := by
  have hl := polyState_loopAt loops i hi
  have hs := polyState_search loops i hi j hj
  obtain ⟨v, hv⟩ := orientedVertex_some loops[i] (i := (j : Nat)) (by omega) (by omega) (by omega)
  obtain ⟨w, hw⟩ := orientedVertex_some loops[i] (i := ((j : Nat) : Int) + 1) (by omega) (by omega) (by omega)
  refine ⟨(((i : Nat), v), ((i : Nat), w)), ?_, ?_⟩
  · simp [Polygon.Edge, hs, hl, hv, hw]
  · simp [Polygon.ChainEdge, hl, hv, hw]

end

/-- the contract for a polygon without one-vertex loops (any number of loops, both search paths) -/
theorem polyState_contract (loops : List LoopS) (hv : ∀ l ∈ loops, l.n ≠ 1) :
    Contract (Polygon.acc (polyState loops)) (((lens loops).sum : Nat) : Int) (((lens loops).length : Nat) : Int) := by
  have hlen : (lens loops).length = loops.length := lens_length loops
  apply contract_prefix
  · show some (Polygon.NumEdges (polyState loops)) = _
    simp [Polygon.NumEdges, polyState, sumNat_eq_sum]
  · show some (Polygon.NumChains (polyState loops)) = _
    simp [Polygon.NumChains, Polygon.NumLoops, polyState, hlen]
  · intro i hi
    have hi' : i < loops.length := by omega
    rw [lens_get loops i hi']
    exact polyState_chain loops hv i hi'
  · intro i hi j hj
    have hi' : i < loops.length := by omega
    rw [lens_get loops i hi'] at hj
    exact polyState_chainPosition loops i hi' j hj
  · intro i hi j hj
    have hi' : i < loops.length := by omega
    rw [lens_get loops i hi'] at hj
    exact polyState_edge loops i hi' j hj

/-- the empty polygon (a single empty loop: no chains) and the full polygon (a single full loop: one
    chain of length 0) -/
theorem polygon_contract_emptyFull (l : LoopS) (h : l.n = 1) :
    Contract (Polygon.acc (PolygonS.fromLoops [l])) (Polygon.NumEdges (PolygonS.fromLoops [l]))
      (Polygon.NumChains (PolygonS.fromLoops [l])) := by
  obtain ⟨n, o, d⟩ := l
  simp at h; subst h
  cases o
  · have := contract_prefix (Polygon.acc (PolygonS.fromLoops [⟨1, false, d⟩])) [] rfl rfl
      (by intro i hi; simp at hi) (by intro i hi; simp at hi) (by intro i hi; simp at hi)
    exact this
  · have := contract_prefix (Polygon.acc (PolygonS.fromLoops [⟨1, true, d⟩])) [0] rfl rfl
      (by
        intro i hi
        have : i = 0 := by simpa using hi
        subst this; rfl)
      (by intro i hi j hj; have : i = 0 := by simpa using hi
          subst this; simp at hj)
      (by intro i hi j hj; have : i = 0 := by simpa using hi
          subst this; simp at hj)
    exact this

end S2Proofs.C06
