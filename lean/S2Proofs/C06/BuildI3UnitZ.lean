/-
  S2Proofs.C06.BuildI3UnitZ — `BuildI3Unit.lean` without the exclusion of negative-zero coordinates: the hypothesis record
  `TrackSound` of I3 from its purely GEOMETRIC clauses (`TrackGeom`) and DECIDABLE conditions on the input
  (`ShapesUnitZ`, `CellPtsOKZ`) in which `UnitPt` (unit-ish, no −0 coordinate) is replaced by `Unitish`.

  With the old class the float clause `crosser_exact` could not be discharged for the cells on the central cross of a face
  (their entry / exit vertices and centres have a `-0.0` coordinate); with `PtOKZ` it is a theorem for EVERY cell whose three
  points are unit-ish with unit-ish reference direction.  The old classes imply the new ones (`PtOK.toZ`, `ShapesUnit.toZ`,
  `CellPtsOK.toZ`).
-/
import S2Proofs.C06.BuildI3Unit
import S2Proofs.C06.BuildFloatZ
open S2 S2.CellID S2.Hilbert S2.PaddedCellM S2.IndexBuild S2Proofs.C12H S2Proofs.C06PC
namespace S2Proofs.C06BuildH

/-- a point usable as an endpoint of a tracker segment / as a reference point: unit-ish (NEGATIVE ZEROS ALLOWED), its
    reference direction `s2Ortho` is unit-ish and not `==` to the point (all decidable) -/
def PtOKZ (p : V3) : Prop :=
  S2Proofs.C02Err.Unitish p ∧ S2Proofs.C02Err.Unitish (Contain.s2Ortho p) ∧ V3.feq p (Contain.s2Ortho p) = false

instance (p : V3) : Decidable (PtOKZ p) := by unfold PtOKZ; infer_instance

theorem PtOK.toZ {p : V3} (h : PtOK p) : PtOKZ p := ⟨h.1.1, h.2.1, h.2.2⟩

/-- the 2-dimensional shapes: edges are closed chains, all vertices unit-ish, reference point `PtOKZ` -/
structure ShapesUnitZ (shapes : Array Shape) : Prop where
  chains : ∀ sid, sid < shapes.size → (shapes[sid]!).dim = 2 →
    ∃ chains : List (List V3), (shapes[sid]!).edges.toList = chains.flatMap Contain.loopEdges
  edges : ∀ sid, sid < shapes.size → (shapes[sid]!).dim = 2 → ∀ e ∈ (shapes[sid]!).edges.toList,
    S2Proofs.C02Err.Unitish e.1 ∧ S2Proofs.C02Err.Unitish e.2
  ref : ∀ sid, sid < shapes.size → (shapes[sid]!).dim = 2 → PtOKZ (shapes[sid]!).refPoint

theorem ShapesUnit.toZ {shapes : Array Shape} (h : ShapesUnit shapes) : ShapesUnitZ shapes where
  chains := h.chains
  edges sid hsid hdim e he := ⟨(h.edges sid hsid hdim e he).1.1, (h.edges sid hsid hdim e he).2.1⟩
  ref sid hsid hdim := (h.ref sid hsid hdim).toZ

/-- the tracker origin and the entry vertex / centre / exit vertex of every index cell WITH EDGES are `PtOKZ` -/
def CellPtsOKZ (shapes : Array Shape) : Prop :=
  PtOKZ trackerOrigin ∧ ∀ c, IsEdgeCell shapes c →
    PtOKZ (entryVertex (fromCellID c)) ∧ PtOKZ (center (fromCellID c)) ∧ PtOKZ (exitVertex (fromCellID c))

theorem CellPtsOK.toZ {shapes : Array Shape} (h : CellPtsOK shapes) : CellPtsOKZ shapes :=
  ⟨h.1.toZ, fun c hK => ⟨(h.2 c hK).1.toZ, (h.2 c hK).2.1.toZ, (h.2 c hK).2.2.toZ⟩⟩

/-! ### helpers -/

theorem PtOKZ.fin {p : V3} (h : PtOKZ p) : S2Proofs.F64Order.Fin3 p := h.1.1

theorem PtOKZ.finOrtho {p : V3} (h : PtOKZ p) : S2Proofs.F64Order.Fin3 (Contain.s2Ortho p) := h.2.1.1

/-- two `PtOKZ` points are not `==`, or their reference directions are `==` — now a THEOREM also for ±0 twins -/
theorem PtOKZ.pair {x y : V3} (_hx : PtOKZ x) (hy : PtOKZ y) :
    V3.feq x y = false ∨ V3.feq (Contain.s2Ortho x) (Contain.s2Ortho y) = true := by
  cases hq : V3.feq x y with
  | false => exact Or.inl rfl
  | true => exact Or.inr (s2Ortho_feq_of_feq hq hy.finOrtho)

/-- the endpoints of a segment of an index cell with edges are `PtOKZ` -/
theorem CellSeg.ptOKZ {shapes : Array Shape} (hc : CellPtsOKZ shapes) {a b : V3} {c : CellID}
    (hK : IsEdgeCell shapes c) (hseg : CellSeg a b c) : PtOKZ a ∧ PtOKZ b := by
  obtain ⟨h1, h2, h3⟩ := hc.2 c hK
  cases hseg with
  | entry _ _ => exact ⟨h1, h2⟩
  | exit _ _ => exact ⟨h2, h3⟩

/-- the class of the parity cocycle from `PtOKZ` points and finite chain vertices -/
theorem cocycleDomAny_of_ptOKZ {ref a b : V3} (hr : PtOKZ ref) (ha : PtOKZ a) (hb : PtOKZ b) {chains : List (List V3)}
    (hv : ∀ vs ∈ chains, ∀ v ∈ vs, S2Proofs.F64Order.Fin3 v) :
    S2Proofs.C04.CocycleDomAny ref a b chains :=
  ⟨hr.fin, ha.fin, hb.fin, hr.pair ha, ha.pair hb, hr.pair hb, ⟨hr.finOrtho, hr.2.2⟩, ⟨ha.finOrtho, ha.2.2⟩,
    ⟨hb.finOrtho, hb.2.2⟩, hv⟩

/-- the clause `crosser_exact` on one segment with unit-ish endpoints -/
theorem crosser_exact_of_unitish (a b : V3) (ha : S2Proofs.C02Err.Unitish a) (hb : S2Proofs.C02Err.Unitish b)
    (hra : S2Proofs.C02Err.Unitish (Contain.s2Ortho a)) (hrb : S2Proofs.C02Err.Unitish (Contain.s2Ortho b))
    (l : List (V3 × V3)) (hl : ∀ e ∈ l, S2Proofs.C02Err.Unitish e.1 ∧ S2Proofs.C02Err.Unitish e.2) :
    crosserOuts (Crosser.init a b) l =
      l.map fun e => Contain.edgeOrVertexCrossing Contain.exactGeo a b e.1 e.2 := by
  apply crosserOuts_exactZ a b ha hb _ _ l hl
  · rw [referenceDir_eq_s2Ortho]; exact hra
  · rw [referenceDir_eq_s2Ortho]; exact hrb

/-- the clause `init_exact` for one shape with unit-ish vertices and reference point -/
theorem init_exact_of_unitish (s : Shape) (p : V3) (href : S2Proofs.C02Err.Unitish s.refPoint)
    (hp : S2Proofs.C02Err.Unitish p) (hrref : S2Proofs.C02Err.Unitish (Contain.s2Ortho s.refPoint))
    (hrp : S2Proofs.C02Err.Unitish (Contain.s2Ortho p))
    (hedges : ∀ e ∈ s.edges.toList, S2Proofs.C02Err.Unitish e.1 ∧ S2Proofs.C02Err.Unitish e.2) :
    IndexBuild.containsBruteForce s p =
      Contain.containsBruteForce Contain.exactGeo (S2Proofs.C06Build.toShapeM s) p := by
  apply containsBruteForce_float_eq_exactZ s p href hp _ _ hedges
  · rw [referenceDir_eq_s2Ortho]; exact hrref
  · rw [referenceDir_eq_s2Ortho]; exact hrp

/-! ### the theorem -/

/-- the float and cocycle clauses of `TrackSound` are theorems on unit-ish points, negative zeros included -/
theorem trackSound_of_geomZ (shapes : Array Shape) {Meets : FaceEdge → CellID → Prop} (hg : TrackGeom shapes Meets)
    (hsu : ShapesUnitZ shapes) (hc : CellPtsOKZ shapes) : TrackSound shapes Meets where
  init_exact := by
    intro sid hsid hdim
    have hr := hsu.ref sid hsid hdim
    exact init_exact_of_unitish (shapes[sid]!) trackerOrigin hr.1 hc.1.1 hr.2.1 hc.1.2.1 (hsu.edges sid hsid hdim)
  crosser_exact := by
    intro a b c hK hseg l hl
    obtain ⟨ha, hb⟩ := hseg.ptOKZ hc hK
    apply crosser_exact_of_unitish a b ha.1 hb.1 ha.2.1 hb.2.1 l
    intro e he
    obtain ⟨sid, hsid, hdim, hm⟩ := (hl e he).mem
    exact hsu.edges sid hsid hdim e hm
  local_ := hg.local_
  parity_step := by
    intro a b c hK hseg sid hsid hdim
    obtain ⟨ha, hb⟩ := hseg.ptOKZ hc hK
    obtain ⟨chains, hch⟩ := hsu.chains sid hsid hdim
    have hr := hsu.ref sid hsid hdim
    have hv : ∀ vs ∈ chains, ∀ v ∈ vs, S2Proofs.F64Order.Fin3 v := by
      intro vs hvs v hvv
      obtain ⟨e, he, rfl⟩ := mem_loopEdges_of_mem hvv
      have hm : e ∈ (shapes[sid]!).edges.toList := by
        rw [hch]; exact List.mem_flatMap.mpr ⟨vs, hvs, he⟩
      exact (hsu.edges sid hsid hdim e hm).1.1
    exact parity_step_of_cocycleDom (S2Proofs.C06Build.toShapeM (shapes[sid]!)) hdim (chains := chains) hch
      (cocycleDomAny_of_ptOKZ (ref := (shapes[sid]!).refPoint) hr ha hb hv)
  jump := hg.jump
  interior := hg.interior

end S2Proofs.C06BuildH
