/-
  S2Proofs.C06.BuildLeafChain — the NON-LOCAL geometric hypotheses `jump` / `interior` of I3 (`TrackGeom`: "a whole
  range of leaf cells that no face edge meets does not change containment") from LOCAL ones (`TrackGeomLocal`: ONE
  edge-free leaf cell, ONE index cell with edge-free leaves), by walking the Hilbert curve leaf by leaf
  (`conn_entry_chain`): the exit vertex of a leaf cell is BITWISE the entry vertex of every valid cell that starts at
  the next leaf position (`focusAt_entry`).
-/
import S2Proofs.C06.BuildI3Unit
open S2 S2.CellID S2.Hilbert S2.PaddedCellM S2.IndexBuild S2Proofs.C12H S2Proofs.C06PC
namespace S2Proofs.C06BuildH

/-- no face edge (of the face it lies on) meets cell `x` -/
def CellClear (shapes : Array Shape) (Meets : FaceEdge → CellID → Prop) (x : CellID) : Prop :=
  ∀ f, f < 6 → lo (fromFace f) ≤ lo x → hi x ≤ hi (fromFace f) →
    ∀ fe ∈ faceEdgesOf (allFaceEdges shapes) f, ¬ Meets fe x

/-- LOCAL geometric hypotheses of I3 -/
structure TrackGeomLocal (shapes : Array Shape) (Meets : FaceEdge → CellID → Prop) : Prop where
  /-- as `TrackSound.local_` -/
  local_ : ∀ a b c, IsEdgeCell shapes c → CellSeg a b c → ∀ sid, sid < shapes.size → (shapes[sid]!).dim = 2 →
    ∀ eid, eid < (shapes[sid]!).edges.size →
      Contain.edgeOrVertexCrossing Contain.exactGeo a b ((shapes[sid]!).edges[eid]!).1 ((shapes[sid]!).edges[eid]!).2 = true →
      ∃ f, f < 6 ∧ lo (fromFace f) ≤ lo c ∧ hi c ≤ hi (fromFace f) ∧
        ∃ fe ∈ faceEdgesOf (allFaceEdges shapes) f, fe.shapeID = sid ∧ fe.edgeID = eid ∧ Meets fe c
  /-- ONE leaf cell that no face edge meets: its entry and exit vertices are contained in the same shapes -/
  leaf : ∀ l : CellID, isValid l = true → lo l = hi l → CellClear shapes Meets l →
    Conn shapes (entryVertex (fromCellID l)) (exitVertex (fromCellID l))
  /-- ONE index cell none of whose leaf cells is met by a face edge: entry vertex and centre are contained in the same
      shapes -/
  centre : ∀ c : CellID, IsIndexCell shapes c → isValid c = true → ClearLeaves shapes Meets (lo c) (hi c + 2) →
    Conn shapes (entryVertex (fromCellID c)) (center (fromCellID c))

/-! ### `Conn` is an equivalence relation -/

theorem Conn.refl (shapes : Array Shape) (a : V3) : Conn shapes a a := fun _ _ _ => rfl

theorem Conn.symm {shapes : Array Shape} {a b : V3} (h : Conn shapes a b) : Conn shapes b a :=
  fun sid hs hd => (h sid hs hd).symm

theorem Conn.trans {shapes : Array Shape} {a b c : V3} (h1 : Conn shapes a b) (h2 : Conn shapes b c) :
    Conn shapes a c :=
  fun sid hs hd => (h1 sid hs hd).trans (h2 sid hs hd)

theorem Conn.of_eq {shapes : Array Shape} {a b : V3} (h : a = b) : Conn shapes a b := h ▸ Conn.refl shapes a

/-! ### `ClearLeaves` restricts to sub-ranges -/

theorem ClearLeaves.mono {shapes : Array Shape} {Meets : FaceEdge → CellID → Prop} {a b a' b' : Nat}
    (h : ClearLeaves shapes Meets a b) (ha : a ≤ a') (hb : b' ≤ b) : ClearLeaves shapes Meets a' b' := by
  intro x hvx hleaf h1 h2
  exact h x hvx hleaf (by omega) (by omega)

/-- a leaf cell in an edge-free range is clear -/
theorem ClearLeaves.cellClear {shapes : Array Shape} {Meets : FaceEdge → CellID → Prop} {a b : Nat} {x : CellID}
    (h : ClearLeaves shapes Meets a b) (hv : isValid x = true) (hleaf : lo x = hi x) (ha : a ≤ lo x)
    (hb : hi x < b) : CellClear shapes Meets x :=
  h x hv hleaf ha hb

/-! ### leaf cells -/

/-- a valid cell that is one leaf is an odd word -/
theorem leaf_odd {a : CellID} (hv : isValid a = true) (hleaf : lo a = hi a) :
    a.toNat % 2 = 1 ∧ lo a = a.toNat ∧ hi a = a.toNat := by
  have := valid_facts hv
  omega

/-- an odd word below the end of face 5 is a valid leaf cell -/
theorem leaf_of_odd (x : CellID) (h : x.toNat % 2 = 1) (hlt : x.toNat < 6 * 2^61) :
    isValid x = true ∧ lo x = x.toNat ∧ hi x = x.toNat ∧ rangeMin x = x := by
  refine ⟨(isValid_iff x).mpr ⟨30, isCell_leaf_of_odd x h hlt⟩, ?_, ?_, rangeMin_odd x h⟩
  · show (rangeMin x).toNat = x.toNat
    rw [rangeMin_odd x h]
  · show (rangeMax x).toNat = x.toNat
    rw [rangeMax_odd x h]

/-- the first leaf of a valid cell is below the end of face 5 -/
theorem lo_lt_end {c : CellID} (hv : isValid c = true) : lo c < 6 * 2^61 := by
  obtain ⟨k, hk⟩ := (isValid_iff c).mp hv
  have := hk.face_lt
  have := valid_facts hv
  omega

/-- the leaf after leaf `a` (if there is room) is a valid leaf cell, and the exit vertex of `a` is BITWISE its entry
    vertex -/
theorem next_leaf {a : CellID} (hv : isValid a = true) (hleaf : lo a = hi a) (hroom : lo a + 2 < 6 * 2^61) :
    isValid (next a) = true ∧ lo (next a) = lo a + 2 ∧ hi (next a) = lo a + 2 ∧
      exitVertex (fromCellID a) = entryVertex (fromCellID (next a)) := by
  obtain ⟨hodd, hlo, hhi⟩ := leaf_odd hv hleaf
  have hlt : a.toNat < 6 * 2^61 := by omega
  obtain ⟨hnlo, hncell⟩ := (isCell_leaf_of_odd a hodd hlt).next_facts
  have hn : IsCell (next a) 30 := hncell (by omega)
  obtain ⟨hnodd, hnlt⟩ := odd_of_isCell_leaf hn
  obtain ⟨hnv, hnlo', hnhi', _⟩ := leaf_of_odd (next a) hnodd hnlt
  refine ⟨hnv, by omega, by omega, ?_⟩
  exact focusAt_entry (K := fun _ => True) _ _ (next a) (FocusAt.exit a hv trivial) hnv rfl

/-- the entry vertex of a valid cell depends only on its first leaf -/
theorem entryVertex_of_lo_eq {a c : CellID} (hva : isValid a = true) (hvc : isValid c = true) (h : lo a = lo c) :
    entryVertex (fromCellID a) = entryVertex (fromCellID c) := by
  obtain ⟨k, hk⟩ := (isValid_iff a).mp hva
  obtain ⟨fa1, fa2⟩ := face_contains hva
  have va := valid_facts hva
  have hf : face c = face a := face_of_lo_in_face hvc hk.face_lt6 (by omega) (by omega)
  exact entryVertex_congr hf.symm
    (S2Proofs.C06.paddedCell_entry_eq_of_rangeMin_eq a c hva hvc (UInt64.toNat_inj.mp h))

/-! ### the walk along the Hilbert curve -/

/-- Walking from leaf cell `a` to the first leaf of `c` over leaf cells that no face edge meets does not change
    containment. -/
theorem conn_entry_chain {shapes : Array Shape} {Meets : FaceEdge → CellID → Prop} (h : TrackGeomLocal shapes Meets) :
    ∀ (d : Nat) (a c : CellID), isValid a = true → lo a = hi a → isValid c = true → lo c = lo a + 2 * d →
      ClearLeaves shapes Meets (lo a) (lo c) →
      Conn shapes (entryVertex (fromCellID a)) (entryVertex (fromCellID c)) := by
  intro d
  induction d with
  | zero =>
    intro a c hva _ hvc hlo _
    exact Conn.of_eq (entryVertex_of_lo_eq hva hvc (by omega))
  | succ d ih =>
    intro a c hva hleaf hvc hlo hclear
    have hcl := lo_lt_end hvc
    obtain ⟨hnv, hnlo, hnhi, hexit⟩ := next_leaf hva hleaf (by omega)
    have h1 : Conn shapes (entryVertex (fromCellID a)) (exitVertex (fromCellID a)) :=
      h.leaf a hva hleaf (hclear.cellClear hva hleaf (Nat.le_refl _) (by omega))
    have h2 : Conn shapes (entryVertex (fromCellID (next a))) (entryVertex (fromCellID c)) :=
      ih (next a) c hnv (by omega) hvc (by omega) (hclear.mono (by omega) (Nat.le_refl _))
    exact h1.trans (hexit ▸ h2)

/-- the stored `nextCellID` of a focus is an odd word (a leaf position) -/
theorem FocusAt.odd {K : CellID → Prop} {f : V3} {N : CellID} (h : FocusAt K f N) : N.toNat % 2 = 1 := by
  cases h with
  | origin =>
    rw [firstLeaf_eq]
    exact (valid_facts (S2Proofs.C01.fromFace_spec 0 (by omega)).2.1).1
  | exit q hq _ =>
    obtain ⟨k, hk⟩ := (isValid_iff q).mp hq
    have := hk.next_facts.1
    have := valid_facts hq
    show lo (next q) % 2 = 1
    omega

/-- from a focus to the entry vertex of a valid cell over leaf cells that no face edge meets -/
theorem conn_focus_entry {shapes : Array Shape} {Meets : FaceEdge → CellID → Prop} (h : TrackGeomLocal shapes Meets)
    {K : CellID → Prop} {f : V3} {N c : CellID} (hF : FocusAt K f N) (hvc : isValid c = true)
    (hle : N.toNat ≤ lo c) (hclear : ClearLeaves shapes Meets N.toNat (lo c)) :
    Conn shapes f (entryVertex (fromCellID c)) := by
  have hodd := hF.odd
  have hcl := lo_lt_end hvc
  obtain ⟨hvN, hloN, hhiN, hrN⟩ := leaf_of_odd N hodd (by omega)
  have hf : f = entryVertex (fromCellID N) := focusAt_entry f N N hF hvN hrN
  have vc := valid_facts hvc
  rw [hf]
  refine conn_entry_chain h ((lo c - N.toNat) / 2) N c hvN (by omega) hvc (by omega) ?_
  rw [hloN]; exact hclear

/-- The NON-LOCAL hypotheses of I3 follow from the LOCAL ones. -/
theorem trackGeom_of_local (shapes : Array Shape) {Meets : FaceEdge → CellID → Prop}
    (h : TrackGeomLocal shapes Meets) : TrackGeom shapes Meets where
  local_ := h.local_
  jump := by
    intro f N c hF _ hvc hle _ hclear
    exact conn_focus_entry h hF hvc hle hclear
  interior := by
    intro f N c hF hK hvc hle hclear
    have vc := valid_facts hvc
    have h1 : Conn shapes f (entryVertex (fromCellID c)) :=
      conn_focus_entry h hF hvc hle (hclear.mono (Nat.le_refl _) (by omega))
    exact h1.trans (h.centre c hK hvc (hclear.mono hle (Nat.le_refl _)))

end S2Proofs.C06BuildH
