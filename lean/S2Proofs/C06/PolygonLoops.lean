/-
  S2Proofs.C06.PolygonLoops — the regenerated two-variable loops (`forInc2`, `rangeBreak2`,
  S2/ShapesLoops.lean) of `Polygon.Edge / Chain / ChainPosition` compute the same function as the
  structurally recursive hand model (`linSearch`, `cumSearch`, `sumLens`, S2/Shapes.lean), for every
  state: induction over the slice suffix (`slice = pre ++ suf`, loop index `pre.length`).
  Helper lemmas for S2Proofs/Ties/C06_Polygon.lean.
-/
import S2.Shapes
import S2.ShapesLoops
namespace S2Proofs.C06
open S2 S2.Shapes

/-! ### slices split as `pre ++ suf`, index `pre.length` -/

theorem loopAt_split (s : PolygonS) (pre : List LoopS) (l : LoopS) (rest : List LoopS)
    (h : s.loops = pre ++ l :: rest) : s.loopAt (pre.length : Nat) = some l := by
  simp [PolygonS.loopAt, h]

theorem loopAt_end (s : PolygonS) (pre : List LoopS) (h : s.loops = pre ++ []) :
    s.loopAt (pre.length : Nat) = none := by
  simp [PolygonS.loopAt, h]

theorem getI_split (c pre : List Int) (x : Int) (rest : List Int) (h : c = pre ++ x :: rest) :
    getI c (pre.length : Nat) = some x := by
  simp [getI, h]

/-- the linear scan of `Edge` / `ChainPosition` -/
theorem forInc2_linSearch (s : PolygonS) (cond : Int → Int → Option Bool) (step : Int → Int → Option Int)
    (hC : ∀ i e, cond i e = (s.loopAt i).bind fun t => some (decide (e ≥ (t.n : Int))))
    (hS : ∀ i e, step i e = (s.loopAt i).bind fun t => some (e - (t.n : Int))) :
    ∀ (suf pre : List LoopS) (e : Int), s.loops = pre ++ suf →
      forInc2 cond step (suf.length + 1) (pre.length : Nat) e = Polygon.linSearch suf (pre.length : Nat) e
  | [], pre, e, h => by
    simp [forInc2, hC, loopAt_end s pre h, Polygon.linSearch]
  | l :: rest, pre, e, h => by
    have hl := loopAt_split s pre l rest h
    have ih := forInc2_linSearch s cond step hC hS rest (pre ++ [l]) (e - (l.n : Int)) (by simp [h])
    have ecast : (((pre ++ [l]).length : Nat) : Int) = (pre.length : Nat) + 1 := by simp
    rw [ecast] at ih
    unfold forInc2 Polygon.linSearch
    rw [hC, hl]
    by_cases hge : e ≥ (l.n : Int)
    · simp only [Option.bind_some, hge, decide_true, if_true, hS, hl]
      exact ih
    · simp only [Option.bind_some, hge, decide_false, if_false]

/-- the summation loop of `Chain` -/
theorem forInc2_sumLens (s : PolygonS) (chainID : Int) (cond : Int → Int → Option Bool) (step : Int → Int → Option Int)
    (hC : ∀ j e, cond j e = some (decide (j < chainID)))
    (hS : ∀ j e, step j e = (s.loopAt j).bind fun t => some (e + (t.n : Int))) :
    ∀ (suf pre : List LoopS) (e : Int), s.loops = pre ++ suf →
      (forInc2 cond step (suf.length + 1) (pre.length : Nat) e).map Prod.snd = Polygon.sumLens suf (pre.length : Nat) chainID e
  | [], pre, e, h => by
    by_cases hlt : ((pre.length : Nat) : Int) < chainID
    · simp [forInc2, hC, hS, loopAt_end s pre h, Polygon.sumLens, hlt]
    · simp [forInc2, hC, Polygon.sumLens, hlt]
  | l :: rest, pre, e, h => by
    have hl := loopAt_split s pre l rest h
    have ih := forInc2_sumLens s chainID cond step hC hS rest (pre ++ [l]) (e + (l.n : Int)) (by simp [h])
    have ecast : (((pre ++ [l]).length : Nat) : Int) = (pre.length : Nat) + 1 := by simp
    rw [ecast] at ih
    unfold forInc2 Polygon.sumLens
    rw [hC]
    by_cases hlt : ((pre.length : Nat) : Int) < chainID
    · simp only [hlt, decide_true, if_true, hS, hl, Option.bind_some]
      exact ih
    · simp [hlt]

/-- the `cumulativeEdges` scan of `Edge` / `ChainPosition` -/
theorem rangeGo_cumSearch (c : List Int) (cond : Int → Int → Option Bool) (step : Int → Int → Option Int)
    (hC : ∀ i e, cond i e = if i + 1 ≥ (c.length : Nat) then some true else (getI c (i + 1)).bind fun t => some (decide (e < t)))
    (hS : ∀ i e, step i e = (getI c i).bind fun t => some (e - t)) :
    ∀ (suf pre : List Int) (e : Int), c = pre ++ suf → suf ≠ [] →
      rangeBreak2.go cond step suf.length (pre.length : Nat) e = some (Polygon.cumSearch suf (pre.length : Nat) e)
  | [], _, _, _, hne => absurd rfl hne
  | [x], pre, e, h, _ => by
    have hx := getI_split c pre x [] h
    have hlen : ((pre.length : Nat) : Int) + 1 ≥ (c.length : Nat) := by simp [h]
    simp [rangeBreak2.go, hC, hlen, hS, hx, Polygon.cumSearch]
  | x :: y :: rest, pre, e, h, _ => by
    have hx := getI_split c pre x (y :: rest) h
    have hy := getI_split c (pre ++ [x]) y rest (by simp [h])
    have ecast : (((pre ++ [x]).length : Nat) : Int) = (pre.length : Nat) + 1 := by simp
    rw [ecast] at hy
    have hlen : ¬ (((pre.length : Nat) : Int) + 1 ≥ (c.length : Nat)) := by simp [h]; omega
    have ih := rangeGo_cumSearch c cond step hC hS (y :: rest) (pre ++ [x]) e (by simp [h]) (by simp)
    rw [ecast] at ih
    show rangeBreak2.go cond step ((y :: rest).length + 1) _ _ = _
    unfold rangeBreak2.go Polygon.cumSearch
    rw [hC, if_neg hlen, hy]
    by_cases hlt : e < y
    · simp only [Option.bind_some, hlt, decide_true, hS, hx, if_true]
    · simp only [Option.bind_some, hlt, decide_false, if_false]
      exact ih

/-- the common search prefix, regenerated form, equals `Polygon.search` -/
theorem search_eq (s : PolygonS) (e : Int) (cond1 cond2 : Int → Int → Option Bool) (step1 step2 : Int → Int → Option Int)
    (hC1 : ∀ i e, cond1 i e = if i + 1 ≥ s.cumLen then some true else (s.cumAt (i + 1)).bind fun t => some (decide (e < t)))
    (hS1 : ∀ i e, step1 i e = (s.cumAt i).bind fun t => some (e - t))
    (hC2 : ∀ i e, cond2 i e = (s.loopAt i).bind fun t => some (decide (e ≥ (t.n : Int))))
    (hS2 : ∀ i e, step2 i e = (s.loopAt i).bind fun t => some (e - (t.n : Int))) :
    (if s.cumLen > 0 then rangeBreak2 s.cumLen cond1 step1 0 e else forInc2 cond2 step2 s.fuel 0 e)
      = Polygon.search s e := by
  unfold Polygon.search
  by_cases h : s.cumLen > 0
  · simp only [h, if_true]
    cases hc : s.cumulativeEdges with
    | none => simp [PolygonS.cumLen, hc] at h
    | some c =>
      have hlen : s.cumLen = (c.length : Nat) := by simp [PolygonS.cumLen, hc]
      have hne : c ≠ [] := by
        intro h0; rw [hlen, h0] at h; simp at h
      have hat : ∀ i, s.cumAt i = getI c i := by intro i; simp [PolygonS.cumAt, hc]
      have := rangeGo_cumSearch c cond1 step1 (by intro i e; rw [hC1, hlen, hat]) (by intro i e; rw [hS1, hat])
        c [] e rfl hne
      have hn : ¬ (((c.length : Nat) : Int) ≤ 0) := by omega
      simp only [rangeBreak2, hlen, if_neg hn, Int.toNat_natCast]
      exact this
  · simp only [h, if_false]
    have := forInc2_linSearch s cond2 step2 hC2 hS2 s.loops [] e rfl
    exact this

theorem bind_pair_eta (X : Option (Int × Int)) : (X.bind fun x => some (x.fst, x.snd)) = X := by
  cases X <;> rfl

end S2Proofs.C06
