/-
  S2Proofs.C06.Generic — three generic ways a shape satisfies the Shape contract:
  one chain holding all edges, one chain per edge, chains given by a list of lengths
  (starts = prefix sums).  Helper lemmas for S2Proofs/Properties/C06.lean.
-/
import S2.Shapes
namespace S2Proofs.C06
open S2 S2.Shapes

/-- shape with at most one chain `(0, ne)` -/
theorem contract_single {V : Type} (A : ShapeAcc V) (ne nc : Int)
    (h1 : A.numEdges = some ne) (h2 : A.numChains = some nc) (h0 : 0 ≤ ne)
    (hnc : nc = 0 ∨ nc = 1) (hz : nc = 0 → ne = 0)
    (hchain : ∀ i, A.chain i = some (0, ne)) (hpos : ∀ e, A.chainPosition e = some (0, e))
    (hedge : ∀ e, 0 ≤ e → e < ne → ∃ ed, A.edge e = some ed ∧ A.chainEdge 0 e = some ed) :
    Contract A ne nc where
  numEdges_eq := h1
  numChains_eq := h2
  ne_nonneg := h0
  nc_nonneg := by omega
  pos_edge := by
    intro e he0 he
    obtain ⟨ed, e1, e2⟩ := hedge e he0 he
    exact ⟨0, e, 0, ne, ed, hpos e, by omega, by omega, hchain 0, by omega, he0, he, e1, e2⟩
  chain_inv := by
    intro i hi0 hi
    have : i = 0 := by omega
    subst this
    refine ⟨0, ne, hchain 0, h0, ?_⟩
    intro j hj0 hj
    obtain ⟨ed, e1, e2⟩ := hedge j hj0 hj
    refine ⟨ed, ?_, ?_, e2⟩
    · rw [Int.zero_add]; exact hpos j
    · rw [Int.zero_add]; exact e1
  tile_first := by
    intro st len _ h; rw [hchain 0] at h; simp at h; omega
  tile_step := by
    intro i st len st' len' hi0 hi; omega
  tile_last := by
    intro st len _ h; rw [hchain] at h; simp at h; omega
  tile_empty := hz

/-- shape whose chains are the single edges -/
theorem contract_unit {V : Type} (A : ShapeAcc V) (n : Int)
    (h1 : A.numEdges = some n) (h2 : A.numChains = some n) (h0 : 0 ≤ n)
    (hchain : ∀ i, A.chain i = some (i, 1)) (hpos : ∀ e, A.chainPosition e = some (e, 0))
    (hedge : ∀ e, 0 ≤ e → e < n → ∃ ed, A.edge e = some ed ∧ A.chainEdge e 0 = some ed) :
    Contract A n n where
  numEdges_eq := h1
  numChains_eq := h2
  ne_nonneg := h0
  nc_nonneg := h0
  pos_edge := by
    intro e he0 he
    obtain ⟨ed, e1, e2⟩ := hedge e he0 he
    exact ⟨e, 0, e, 1, ed, hpos e, he0, he, hchain e, by omega, by omega, by omega, e1, e2⟩
  chain_inv := by
    intro i hi0 hi
    refine ⟨i, 1, hchain i, by omega, ?_⟩
    intro j hj0 hj
    have : j = 0 := by omega
    subst this
    obtain ⟨ed, e1, e2⟩ := hedge i hi0 hi
    refine ⟨ed, ?_, ?_, e2⟩
    · rw [Int.add_zero]; exact hpos i
    · rw [Int.add_zero]; exact e1
  tile_first := by
    intro st len _ h; rw [hchain 0] at h; simp at h; omega
  tile_step := by
    intro i st len st' len' hi0 hi h h'
    rw [hchain] at h h'; simp at h h'; omega
  tile_last := by
    intro st len _ h; rw [hchain] at h; simp at h; omega
  tile_empty := fun h => h

/-! ### chains given by a list of lengths -/

/-- start of chain `i` = sum of the first `i` lengths -/
def start (ns : List Nat) (i : Nat) : Nat := (ns.take i).sum

theorem start_zero (ns : List Nat) : start ns 0 = 0 := by simp [start]

theorem start_succ : ∀ (ns : List Nat) (i : Nat) (h : i < ns.length), start ns (i + 1) = start ns i + ns[i]
  | [], i, h => by simp at h
  | n :: rest, 0, _ => by simp [start]
  | n :: rest, i + 1, h => by
    have := start_succ rest i (by simpa using h)
    simp [start] at this ⊢
    omega

theorem start_length (ns : List Nat) : start ns ns.length = ns.sum := by simp [start]

theorem start_cons (n : Nat) (rest : List Nat) (i : Nat) : start (n :: rest) (i + 1) = n + start rest i := by
  simp [start]

theorem start_mono (ns : List Nat) : ∀ i j, i ≤ j → j ≤ ns.length → start ns i ≤ start ns j := by
  intro i j hij
  induction hij with
  | refl => intro _; exact Nat.le_refl _
  | step h ih =>
    rename_i m
    intro hj
    have h1 := start_succ ns m (by omega)
    have h2 := ih (by omega)
    show start ns i ≤ start ns (m + 1)
    omega

/-- every edge id below the total lies in exactly one chain -/
theorem decompose : ∀ (ns : List Nat) (e : Nat), e < ns.sum →
    ∃ i j, ∃ h : i < ns.length, j < ns[i] ∧ e = start ns i + j
  | [], e, h => by simp at h
  | n :: rest, e, h => by
    by_cases hlt : e < n
    · exact ⟨0, e, by simp, by simpa using hlt, by simp [start]⟩
    · have : e - n < rest.sum := by simp at h; omega
      obtain ⟨i, j, hi, hj, he⟩ := decompose rest (e - n) this
      refine ⟨i + 1, j, by simpa using hi, by simpa using hj, ?_⟩
      rw [start_cons]; omega

theorem sumNat_eq_sum (ns : List Nat) : sumNat ns = ns.sum := by
  have : ∀ (l : List Nat) (a : Nat), l.foldl (· + ·) a = a + l.sum := by
    intro l
    induction l with
    | nil => intro a; simp
    | cons x xs ih => intro a; simp [ih]; omega
  simp [sumNat, this]

theorem getI_prefixSums : ∀ (ns : List Nat) (acc : Int) (i : Nat), i ≤ ns.length →
    getI (prefixSums acc ns) (i : Int) = some (acc + (start ns i : Int))
  | [], acc, i, h => by
    have : i = 0 := by simpa using h
    subst this; simp [getI, prefixSums, start]
  | n :: rest, acc, 0, _ => by simp [getI, prefixSums, start]
  | n :: rest, acc, i + 1, h => by
    have ih := getI_prefixSums rest (acc + n) i (by simpa using h)
    have e1 : ((i + 1 : Nat) : Int).toNat = i + 1 := by omega
    have e2 : ((i : Nat) : Int).toNat = i := by omega
    simp only [getI, prefixSums, start_cons] at ih ⊢
    have p1 : (0 : Int) ≤ ((i + 1 : Nat) : Int) := by omega
    have p2 : (0 : Int) ≤ ((i : Nat) : Int) := by omega
    rw [if_pos p1, e1]
    rw [if_pos p2, e2] at ih
    simp only [List.getElem?_cons_succ]
    rw [ih]; congr 1; push_cast; omega

theorem prefixSums_length : ∀ (ns : List Nat) (acc : Int), (prefixSums acc ns).length = ns.length + 1
  | [], _ => rfl
  | _ :: rest, acc => by simp [prefixSums, prefixSums_length rest]

/-- a shape whose chain `i` is `(start ns i, ns[i])` -/
theorem contract_prefix {V : Type} (A : ShapeAcc V) (ns : List Nat)
    (h1 : A.numEdges = some (ns.sum : Nat)) (h2 : A.numChains = some (ns.length : Nat))
    (hchain : ∀ (i : Nat) (hi : i < ns.length), A.chain i = some (((start ns i : Nat) : Int), ((ns[i] : Nat) : Int)))
    (hpos : ∀ (i : Nat) (hi : i < ns.length) (j : Nat), j < ns[i] →
        A.chainPosition (((start ns i : Nat) : Int) + (j : Nat)) = some (((i : Nat) : Int), ((j : Nat) : Int)))
    (hedge : ∀ (i : Nat) (hi : i < ns.length) (j : Nat), j < ns[i] →
        ∃ ed, A.edge (((start ns i : Nat) : Int) + (j : Nat)) = some ed ∧ A.chainEdge (i : Nat) (j : Nat) = some ed) :
    Contract A (ns.sum : Nat) (ns.length : Nat) where
  numEdges_eq := h1
  numChains_eq := h2
  ne_nonneg := by omega
  nc_nonneg := by omega
  pos_edge := by
    intro e he0 he
    obtain ⟨k, rfl⟩ := Int.eq_ofNat_of_zero_le he0
    obtain ⟨i, j, hi, hj, hk⟩ := decompose ns k (by omega)
    obtain ⟨ed, e1, e2⟩ := hedge i hi j hj
    have hk' : (k : Int) = ((start ns i : Nat) : Int) + (j : Nat) := by omega
    refine ⟨i, j, (start ns i : Nat), (ns[i] : Nat), ed, ?_, by omega, by omega, hchain i hi, by omega, by omega, by omega, ?_, e2⟩
    · rw [hk']; exact hpos i hi j hj
    · rw [hk']; exact e1
  chain_inv := by
    intro i hi0 hi
    obtain ⟨k, rfl⟩ := Int.eq_ofNat_of_zero_le hi0
    have hk : k < ns.length := by omega
    refine ⟨(start ns k : Nat), (ns[k] : Nat), hchain k hk, by omega, ?_⟩
    intro j hj0 hj
    obtain ⟨m, rfl⟩ := Int.eq_ofNat_of_zero_le hj0
    have hm : m < ns[k] := by omega
    obtain ⟨ed, e1, e2⟩ := hedge k hk m hm
    exact ⟨ed, hpos k hk m hm, e1, e2⟩
  tile_first := by
    intro st len hnc h
    have hk : 0 < ns.length := by omega
    have := hchain 0 hk
    have e : ((0 : Nat) : Int) = 0 := rfl
    rw [e] at this
    rw [this] at h; simp [start_zero] at h; omega
  tile_step := by
    intro i st len st' len' hi0 hi h h'
    obtain ⟨k, rfl⟩ := Int.eq_ofNat_of_zero_le hi0
    have hk : k + 1 < ns.length := by omega
    have c1 := hchain k (by omega)
    have c2 := hchain (k + 1) hk
    have e : ((k + 1 : Nat) : Int) = (k : Int) + 1 := by omega
    rw [e] at c2
    rw [c1] at h; rw [c2] at h'
    simp at h h'
    have := start_succ ns k (by omega)
    omega
  tile_last := by
    intro st len hnc h
    have hk : ns.length - 1 < ns.length := by omega
    have c := hchain (ns.length - 1) hk
    have e : ((ns.length - 1 : Nat) : Int) = (ns.length : Int) - 1 := by omega
    rw [e] at c; rw [c] at h; simp at h
    have := start_succ ns (ns.length - 1) hk
    have e2 : ns.length - 1 + 1 = ns.length := by omega
    rw [e2, start_length] at this
    omega
  tile_empty := by
    intro h
    have : ns = [] := by
      cases ns with
      | nil => rfl
      | cons a b => simp at h; omega
    subst this; simp

end S2Proofs.C06
