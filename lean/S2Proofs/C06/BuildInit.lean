/-
  S2Proofs.C06.BuildInit — the tracker with which the index build starts (`initialTracker`): its position, its
  next cell id, its activity flag and its id list.
-/
import S2Proofs.C06.BuildSorted
open S2 S2.CellID S2.PaddedCellM S2.IndexBuild
namespace S2Proofs.C06BuildH

theorem addShapeTracker_b (t : Tracker) (id : Nat) (s : Shape) : (addShapeTracker t id s).b = t.b := by
  unfold addShapeTracker Tracker.addShape
  split
  · simp only []
    split <;> rfl
  · rfl

theorem addShapeTracker_nextCellID (t : Tracker) (id : Nat) (s : Shape) :
    (addShapeTracker t id s).nextCellID = t.nextCellID := by
  unfold addShapeTracker Tracker.addShape
  split
  · simp only []
    split <;> rfl
  · rfl

theorem addShapeTracker_isActive (t : Tracker) (id : Nat) (s : Shape) :
    (addShapeTracker t id s).isActive = (t.isActive || s.dim == 2) := by
  unfold addShapeTracker Tracker.addShape
  split
  · rename_i h
    rw [h, Bool.or_true]
    simp only []
    split <;> rfl
  · rename_i h
    have : (s.dim == 2) = false := by simpa using h
    rw [this, Bool.or_false]

theorem addShapeTracker_mem (t : Tracker) (id : Nat) (s : Shape)
    (hs : List.Pairwise (fun x y : Nat => x < y) t.shapeIDs) (x : Nat) :
    decide (x ∈ (addShapeTracker t id s).shapeIDs) =
      (decide (x ∈ t.shapeIDs) != (id == x && (s.dim == 2 && containsBruteForce s t.b))) := by
  unfold addShapeTracker Tracker.addShape
  split
  · rename_i h
    rw [h, Bool.true_and]
    simp only []
    split
    · rename_i hc
      rw [hc, Bool.and_true]
      exact toggle_decide_mem id _ hs x
    · rename_i hc
      have : containsBruteForce s t.b = false := by simpa using hc
      rw [this, Bool.and_false]
      simp
  · rename_i h
    have : (s.dim == 2) = false := by simpa using h
    rw [this, Bool.false_and, Bool.and_false]
    simp

/-- the `addShapeInternal` loop over an arbitrary duplicate-free list of ids, from an arbitrary well-formed tracker -/
theorem foldl_addShapeTracker (shapes : Array Shape) (n : Nat) :
    ∀ (l : List Nat) (t : Tracker), l.Nodup → (∀ id ∈ l, id < n) → TrOK n t →
      (l.foldl (fun t id => addShapeTracker t id shapes[id]!) t).b = t.b ∧
      (l.foldl (fun t id => addShapeTracker t id shapes[id]!) t).nextCellID = t.nextCellID ∧
      (l.foldl (fun t id => addShapeTracker t id shapes[id]!) t).isActive =
        (t.isActive || l.any (fun id => (shapes[id]!).dim == 2)) ∧
      ∀ sid, decide (sid ∈ (l.foldl (fun t id => addShapeTracker t id shapes[id]!) t).shapeIDs) =
        (decide (sid ∈ t.shapeIDs) !=
          (decide (sid ∈ l) && ((shapes[sid]!).dim == 2 && containsBruteForce shapes[sid]! t.b))) := by
  intro l
  induction l with
  | nil =>
    intro t _ _ _
    refine ⟨rfl, rfl, ?_, ?_⟩
    · simp
    · intro sid
      rw [List.foldl_nil]
      have : decide (sid ∈ ([] : List Nat)) = false := by simp
      rw [this, Bool.false_and]
      cases decide (sid ∈ t.shapeIDs) <;> rfl
  | cons a l ih =>
    intro t hnd hl ht
    rw [List.foldl_cons]
    have hnd' := List.nodup_cons.mp hnd
    have ht' : TrOK n (addShapeTracker t a shapes[a]!) :=
      TrOK_addShapeTracker n t a _ ht (hl a List.mem_cons_self)
    obtain ⟨hb, hn, ha, hm⟩ := ih (addShapeTracker t a shapes[a]!) hnd'.2
      (fun id hid => hl id (List.mem_cons_of_mem _ hid)) ht'
    refine ⟨?_, ?_, ?_, ?_⟩
    · rw [hb, addShapeTracker_b]
    · rw [hn, addShapeTracker_nextCellID]
    · rw [ha, addShapeTracker_isActive, List.any_cons, Bool.or_assoc]
    · intro sid
      rw [hm sid, addShapeTracker_mem t a _ ht.1 sid, addShapeTracker_b]
      by_cases hsa : a = sid
      · subst hsa
        have h1 : decide (a ∈ l) = false := by simpa using hnd'.1
        have h2 : decide (a ∈ a :: l) = true := by simp
        rw [h1, h2]
        simp
      · have h1 : (a == sid) = false := by simpa using hsa
        have h2 : decide (sid ∈ a :: l) = decide (sid ∈ l) := by
          have : sid ≠ a := fun h => hsa h.symm
          simp [List.mem_cons, this]
        rw [h1, h2]
        simp

theorem newTracker_b : newTracker.b = trackerOrigin := by
  simp only [newTracker, Tracker.drawTo]

theorem newTracker_nextCellID : newTracker.nextCellID = childBeginAtLevel (fromFace 0) maxLevel := by
  simp only [newTracker, Tracker.drawTo]

theorem newTracker_isActive : newTracker.isActive = false := by
  simp only [newTracker, Tracker.drawTo]

theorem newTracker_shapeIDs : newTracker.shapeIDs = [] := by
  simp only [newTracker, Tracker.drawTo]

theorem TrOK_newTracker (n : Nat) : TrOK n newTracker :=
  ⟨by rw [newTracker_shapeIDs]; exact List.Pairwise.nil, by rw [newTracker_shapeIDs]; intro c hc; cases hc⟩

/-- the tracker after the `addShapeInternal` loop still sits at the origin, points at the first leaf cell of face 0, and is
    active as soon as one shape has an interior -/
theorem initialTracker_fields (shapes : Array Shape) :
    (initialTracker shapes).b = trackerOrigin ∧
    (initialTracker shapes).nextCellID = childBeginAtLevel (fromFace 0) maxLevel ∧
    ((∃ sid, sid < shapes.size ∧ (shapes[sid]!).dim = 2) → (initialTracker shapes).isActive = true) := by
  obtain ⟨hb, hn, ha, _⟩ := foldl_addShapeTracker shapes shapes.size (List.range shapes.size) newTracker
    List.nodup_range (fun id hid => List.mem_range.mp hid) (TrOK_newTracker _)
  unfold initialTracker
  refine ⟨hb.trans newTracker_b, hn.trans newTracker_nextCellID, ?_⟩
  rintro ⟨sid, hsid, hdim⟩
  rw [ha, newTracker_isActive, Bool.false_or, List.any_eq_true]
  exact ⟨sid, List.mem_range.mpr hsid, by rw [hdim]; rfl⟩

/-- its id list: exactly the 2-dimensional shapes whose (float) brute-force test says they contain the origin -/
theorem initialTracker_mem (shapes : Array Shape) (sid : Nat) (hsid : sid < shapes.size) :
    decide (sid ∈ (initialTracker shapes).shapeIDs) =
      ((shapes[sid]!).dim == 2 && IndexBuild.containsBruteForce shapes[sid]! trackerOrigin) := by
  obtain ⟨_, _, _, hm⟩ := foldl_addShapeTracker shapes shapes.size (List.range shapes.size) newTracker
    List.nodup_range (fun id hid => List.mem_range.mp hid) (TrOK_newTracker _)
  unfold initialTracker
  rw [hm sid, newTracker_shapeIDs, newTracker_b]
  have : decide (sid ∈ List.range shapes.size) = true := by simpa using hsid
  rw [this]
  simp

end S2Proofs.C06BuildH
