/-
  S2Proofs.C06.BuildSorted — the sortedness precondition of the merge loop of `makeIndexCell` is threaded through
  the whole recursion of the index build, which removes `MergeComplete` from I1:

    * `EdgesOK c es`  (edge-list invariant at cell `c`): the face edges of `es` are STRICTLY increasing in
      (shape id, edge id) — root lists by construction (`faceEdgesOf_sorted`), child lists because they are
      order-preserving sub-selections (`childEdges_sublist`) —, point to existing shape edges (`FEQ2`), have sound
      bounds, and contain every face edge of the face that meets `c` (`ClipSound` / `ShrinkSound`);
    * `TrOK n t`      (tracker invariant): the id list is strictly increasing and below the sentinel
      (`toggle_sorted`, `testAllEdges_TrOK`);
    * per cell        : the merge loop got a `MergeInput`, hence lists everything (`merge_loop_complete`).
-/
import S2Proofs.C06.BuildInd
import S2Proofs.C06.BuildFaceEdges
import S2Proofs.C06.BuildTest
open S2 S2.CellID S2.Hilbert S2.PaddedCellM S2.IndexBuild S2Proofs.C12H S2Proofs.C06PC
namespace S2Proofs.C06BuildH

/-! ### the tracker invariant `TrOK` -/

theorem t0Of_shapeIDs (p : PaddedCell) (t : Tracker) : (t0Of p t).shapeIDs = t.shapeIDs := by
  unfold t0Of; split <;> rfl

theorem t0Of_isActive (p : PaddedCell) (t : Tracker) : (t0Of p t).isActive = t.isActive := by
  unfold t0Of; split <;> rfl

theorem TrOK_t1Of (n : Nat) (p : PaddedCell) (es : List ClippedEdge) (t : Tracker) (ht : TrOK n t)
    (hes : ∀ e ∈ es, e.fe.shapeID < n) : TrOK n (t1Of p es t) := by
  unfold t1Of
  split
  · apply testAllEdges_TrOK n es _ _ hes
    show TrOK n ((t0Of p t).drawTo (center p))
    unfold TrOK
    show List.Pairwise (fun x y : Nat => x < y) (t0Of p t).shapeIDs ∧ ∀ c ∈ (t0Of p t).shapeIDs, c < n
    rw [t0Of_shapeIDs]; exact ht
  · exact ht

theorem TrOK_t2Of (n : Nat) (p : PaddedCell) (es : List ClippedEdge) (t : Tracker) (ht : TrOK n t)
    (hes : ∀ e ∈ es, e.fe.shapeID < n) : TrOK n (t2Of p es t) := by
  have h1 := TrOK_t1Of n p es t ht hes
  unfold t2Of
  split
  · have := testAllEdges_TrOK n es ((t1Of p es t).drawTo (exitVertex p)) h1 hes
    exact this
  · exact h1

theorem TrOK_addShapeTracker (n : Nat) (t : Tracker) (id : Nat) (s : Shape) (ht : TrOK n t) (hid : id < n) :
    TrOK n (addShapeTracker t id s) := by
  unfold addShapeTracker
  split
  · unfold Tracker.addShape
    simp only []
    split
    · exact ⟨toggle_sorted id _ ht.1, toggle_lt n id _ ht.1 hid ht.2⟩
    · exact ht
  · exact ht

theorem TrOK_initialTracker (shapes : Array Shape) : TrOK shapes.size (initialTracker shapes) := by
  unfold initialTracker
  have key : ∀ (l : List Nat) (t : Tracker), (∀ id ∈ l, id < shapes.size) → TrOK shapes.size t →
      TrOK shapes.size (l.foldl (fun t id => addShapeTracker t id shapes[id]!) t) := by
    intro l
    induction l with
    | nil => intro t _ ht; exact ht
    | cons a l ih =>
      intro t hl ht
      rw [List.foldl_cons]
      exact ih _ (fun id hid => hl id (List.mem_cons_of_mem _ hid))
        (TrOK_addShapeTracker _ t a _ ht (hl a List.mem_cons_self))
  apply key
  · intro id hid; exact List.mem_range.mp hid
  · exact ⟨List.Pairwise.nil, by intro c hc; cases hc⟩

/-! ### the edge-list invariant -/

/-- `es` is a correct edge list for cell `c` -/
structure EdgesOK (shapes : Array Shape) (Meets : FaceEdge → CellID → Prop)
    (BoundOK : ClippedEdge → CellID → Prop) (c : CellID) (es : List ClippedEdge) : Prop where
  sorted : List.Pairwise FLt (es.map (·.fe))
  feq : ∀ ce ∈ es, FEQ2 shapes ce.fe
  bound : ∀ ce ∈ es, BoundOK ce c
  complete : ∀ f, f < 6 → lo (fromFace f) ≤ lo c → hi c ≤ hi (fromFace f) →
    ∀ fe ∈ faceEdgesOf (allFaceEdges shapes) f, Meets fe c → ∃ ce ∈ es, ce.fe = fe

/-- a valid cell lies in exactly one face range -/
theorem face_unique {f f' : Nat} (hf : f < 6) (hf' : f' < 6) {c : CellID} (hv : isValid c = true)
    (h1 : lo (fromFace f) ≤ lo c) (h2 : hi c ≤ hi (fromFace f))
    (h1' : lo (fromFace f') ≤ lo c) (h2' : hi c ≤ hi (fromFace f')) : f = f' := by
  have vc := valid_facts hv
  by_contra hne
  rcases Nat.lt_or_gt_of_ne hne with hlt | hgt
  · have := face_lt_of_lt f f' hlt hf'; omega
  · have := face_lt_of_lt f' f hgt hf; omega

theorem EdgesOK.mergeInput {shapes : Array Shape} {Meets : FaceEdge → CellID → Prop}
    {BoundOK : ClippedEdge → CellID → Prop} {c : CellID} {es : List ClippedEdge}
    (h : EdgesOK shapes Meets BoundOK c es) {cs : List Nat}
    (hcs : List.Pairwise (fun x y : Nat => x < y) cs ∧ ∀ c ∈ cs, c < shapes.size) :
    MergeInput shapes.size none es cs where
  es_sorted := by
    have := h.sorted
    rw [List.pairwise_map] at this
    refine this.imp ?_
    intro a b hab
    rcases hab with hab | hab
    · exact Nat.le_of_lt hab
    · exact Nat.le_of_eq hab.1
  cs_sorted := hcs.1
  es_lt := fun e he => (h.feq e he).1.1
  cs_lt := hcs.2
  es_gt := fun l hl => by cases hl
  cs_gt := fun l hl => by cases hl

theorem EdgesOK.sid_lt {shapes : Array Shape} {Meets : FaceEdge → CellID → Prop}
    {BoundOK : ClippedEdge → CellID → Prop} {c : CellID} {es : List ClippedEdge}
    (h : EdgesOK shapes Meets BoundOK c es) : ∀ e ∈ es, e.fe.shapeID < shapes.size :=
  fun e he => (h.feq e he).1.1

/-- the child lists of `subdivide` are correct edge lists of the children -/
theorem EdgesOK.toChild {shapes : Array Shape} {Meets : FaceEdge → CellID → Prop}
    {BoundOK : ClippedEdge → CellID → Prop} (hs : ClipSound Meets BoundOK)
    {c : CellID} {k : Nat} (pre : Bool) {es : List ClippedEdge} {pos : Nat} (hc : IsCell c k) (hk : k < 30)
    (hpos : pos < 4) (h : EdgesOK shapes Meets BoundOK c es) :
    EdgesOK shapes Meets BoundOK (child c pos)
      (childEdges (es.map (edgeChildren (middle (fromCellID c) cellPadding pre)))
        (childIJ (fromCellID c) pos).1 (childIJ (fromCellID c) pos).2) := by
  have hcc := hc.child_isCell hk hpos
  have hvc : isValid c = true := (isValid_iff _).mpr ⟨_, hc⟩
  have hvcc : isValid (child c pos) = true := (isValid_iff _).mpr ⟨_, hcc⟩
  have hcont : lo c ≤ lo (child c pos) ∧ hi (child c pos) ≤ hi c := by
    obtain ⟨h0, h3, hstep⟩ := hc.child_ranges hk
    have e0 : lo (child c 0) = lo c := congrArg UInt64.toNat h0
    have e3 : hi (child c 3) = hi c := congrArg UInt64.toNat h3
    have s0 : hi (child c 0) + 2 = lo (child c 1) := hstep 0 (by omega)
    have s1 : hi (child c 1) + 2 = lo (child c 2) := hstep 1 (by omega)
    have s2 : hi (child c 2) + 2 = lo (child c 3) := hstep 2 (by omega)
    have v0 := valid_facts ((isValid_iff _).mpr ⟨_, hc.child_isCell hk (show 0 < 4 by omega)⟩)
    have v1 := valid_facts ((isValid_iff _).mpr ⟨_, hc.child_isCell hk (show 1 < 4 by omega)⟩)
    have v2 := valid_facts ((isValid_iff _).mpr ⟨_, hc.child_isCell hk (show 2 < 4 by omega)⟩)
    have v3 := valid_facts ((isValid_iff _).mpr ⟨_, hc.child_isCell hk (show 3 < 4 by omega)⟩)
    have : pos = 0 ∨ pos = 1 ∨ pos = 2 ∨ pos = 3 := by omega
    rcases this with rfl | rfl | rfl | rfl <;> omega
  refine ⟨?_, ?_, ?_, ?_⟩
  · exact h.sorted.sublist (childEdges_sublist _ es _ _)
  · intro ce' hce'
    obtain ⟨e', he', hfe⟩ := childEdges_mem _ es _ _ ce' hce'
    rw [hfe]; exact h.feq e' he'
  · intro ce' hce'
    obtain ⟨q, hq, hget⟩ := (childEdges_get _ _ _ _).mp hce'
    obtain ⟨e', he', rfl⟩ := List.mem_map.mp hq
    exact hs.bound_step c k pre e' ce' pos hc hk hpos (h.bound e' he') hget
  · intro f hf h1 h2 fe hfe hm
    have hmc : Meets fe c := hs.meets_mono _ _ _ hvc hvcc hcont.1 hcont.2 hm
    have hfc := face_contains hvc
    have hff : f = face c := face_unique hf hc.face_lt6 hvcc h1 h2 (by omega) (by omega)
    rw [← hff] at hfc
    obtain ⟨ce, hce, hcefe⟩ := h.complete f hf hfc.1 hfc.2 fe hfe hmc
    have hkeep := hs.keep_step c k pre ce pos hc hk hpos (h.bound ce hce) (by rw [hcefe]; exact hm)
    obtain ⟨ce', hget⟩ := Option.ne_none_iff_exists'.mp hkeep
    have hfe' := edgeChildren_fe _ _ _ _ _ hget
    exact ⟨ce', (childEdges_get _ _ _ _).mpr ⟨_, List.mem_map_of_mem hce, hget⟩, hfe'.trans hcefe⟩

/-- the root list of a face -/
theorem EdgesOK.atRoot {shapes : Array Shape} {Meets : FaceEdge → CellID → Prop}
    {BoundOK : ClippedEdge → CellID → Prop} (f : Nat) (hf : f < 6)
    (hroot : ∀ fe ∈ faceEdgesOf (allFaceEdges shapes) f,
      BoundOK ⟨fe, rectFromPoints fe.a fe.b⟩ (rootCell f (faceEdgesOf (allFaceEdges shapes) f))) :
    EdgesOK shapes Meets BoundOK (rootCell f (faceEdgesOf (allFaceEdges shapes) f))
      ((faceEdgesOf (allFaceEdges shapes) f).map fun fe => (⟨fe, rectFromPoints fe.a fe.b⟩ : ClippedEdge)) := by
  -- the root cell lies in face f
  have hfs := S2Proofs.C01.fromFace_spec f hf
  obtain ⟨hi0, hj0, _⟩ := face_fromCellID f hf
  have hrootface : isValid (rootCell f (faceEdgesOf (allFaceEdges shapes) f)) = true ∧
      lo (fromFace f) ≤ lo (rootCell f (faceEdgesOf (allFaceEdges shapes) f)) ∧
      hi (rootCell f (faceEdgesOf (allFaceEdges shapes) f)) ≤ hi (fromFace f) := by
    have hScases : rootCell f (faceEdgesOf (allFaceEdges shapes) f) = fromFace f ∨
        (isValid (rootCell f (faceEdgesOf (allFaceEdges shapes) f)) = true ∧
          face (rootCell f (faceEdgesOf (allFaceEdges shapes) f)) = f) := by
      unfold rootCell
      split
      · left; rfl
      · have key := fun rect => shrinkToFit_cases (fromCellID (fromFace f)) cellPadding rect hi0 hj0
          (by rw [fromCellID_id, hfs.2.2.2.1]; exact hf)
        simp only [fromCellID_id, hfs.2.2.2.1] at key
        exact key _
    rcases hScases with h | ⟨hv, hface⟩
    · rw [h]; exact ⟨hfs.2.1, Nat.le_refl _, Nat.le_refl _⟩
    · have := face_contains hv
      rw [hface] at this
      exact ⟨hv, this.1, this.2⟩
  refine ⟨?_, ?_, ?_, ?_⟩
  · rw [List.map_map]
    have : ((fun x : ClippedEdge => x.fe) ∘ fun fe => (⟨fe, rectFromPoints fe.a fe.b⟩ : ClippedEdge)) = id := rfl
    rw [this, List.map_id]
    exact faceEdgesOf_sorted shapes f
  · intro ce hce
    obtain ⟨fe, hfe, rfl⟩ := List.mem_map.mp hce
    obtain ⟨y, hy, rfl⟩ := faceEdgesOf_mem _ _ _ hfe
    exact allFaceEdges_FEQ2 shapes y hy
  · intro ce hce
    obtain ⟨fe, hfe, rfl⟩ := List.mem_map.mp hce
    exact hroot fe hfe
  · intro f' hf' h1 h2 fe hfe _
    have : f = f' := face_unique hf hf' hrootface.1 hrootface.2.1 hrootface.2.2 h1 h2
    subst this
    exact ⟨_, List.mem_map_of_mem hfe, rfl⟩

/-- the empty list is correct for a cell no face edge of its face meets -/
theorem EdgesOK.ofClear {shapes : Array Shape} {Meets : FaceEdge → CellID → Prop}
    {BoundOK : ClippedEdge → CellID → Prop} {c : CellID}
    (h : ∀ f, f < 6 → lo (fromFace f) ≤ lo c → hi c ≤ hi (fromFace f) →
      ∀ fe ∈ faceEdgesOf (allFaceEdges shapes) f, ¬ Meets fe c) :
    EdgesOK shapes Meets BoundOK c [] :=
  ⟨List.Pairwise.nil, (by intro ce hce; cases hce), (by intro ce hce; cases hce),
    fun f hf h1 h2 fe hfe hm => absurd hm (h f hf h1 h2 fe hfe)⟩

/-- conversely: no face edge meets a cell whose correct edge list is empty -/
theorem EdgesOK.nil_clear {shapes : Array Shape} {Meets : FaceEdge → CellID → Prop}
    {BoundOK : ClippedEdge → CellID → Prop} {c : CellID} (h : EdgesOK shapes Meets BoundOK c [])
    (f : Nat) (hf : f < 6) (h1 : lo (fromFace f) ≤ lo c) (h2 : hi c ≤ hi (fromFace f)) :
    ∀ fe ∈ faceEdgesOf (allFaceEdges shapes) f, ¬ Meets fe c := by
  intro fe hfe hm
  obtain ⟨ce, hce, _⟩ := h.complete f hf h1 h2 fe hfe hm
  cases hce

/-! ### I1 -/

/-- I1 for one cell: every face edge of the cell's face that meets the cell is listed in it -/
def CellI1 (shapes : Array Shape) (Meets : FaceEdge → CellID → Prop) (x : IndexCell) : Prop :=
  ∀ f, f < 6 → lo (fromFace f) ≤ lo x.id → hi x.id ≤ hi (fromFace f) →
    ∀ fe ∈ faceEdgesOf (allFaceEdges shapes) f, Meets fe x.id → (fe.shapeID, fe.edgeID) ∈ listedPairs x.shapes

/-- the cell `makeIndexCell` fills from a correct edge list and a well-formed tracker satisfies I1 -/
theorem cellI1_of_edgesOK {shapes : Array Shape} {Meets : FaceEdge → CellID → Prop}
    {BoundOK : ClippedEdge → CellID → Prop} {c : CellID} {es : List ClippedEdge}
    (h : EdgesOK shapes Meets BoundOK c es) {cs : List Nat}
    (hcs : List.Pairwise (fun x y : Nat => x < y) cs ∧ ∀ c ∈ cs, c < shapes.size) :
    CellI1 shapes Meets ⟨c, fillShapes shapes.size (countShapes es cs) es cs⟩ := by
  intro f hf h1 h2 fe hfe hm
  obtain ⟨ce, hce, hcefe⟩ := h.complete f hf h1 h2 fe hfe hm
  have := merge_complete_aux shapes.size es cs (h.mergeInput hcs) ce hce
  unfold key at this
  rw [hcefe] at this
  exact this
where
  merge_complete_aux (n : Nat) (es : List ClippedEdge) (cs : List Nat) (h : MergeInput n none es cs) :
      ∀ ce ∈ es, key ce ∈ listedPairs (fillShapes n (countShapes es cs) es cs) :=
    fillShapes_complete n (es.length + cs.length) es cs none _ (Nat.le_refl _) h (Nat.le_refl _)

/-- the `BuildStep` of I1: tracker invariant `TrOK`, edge lists `EdgesOK`, per cell `CellI1` -/
theorem buildStep_I1 (shapes : Array Shape) {Meets : FaceEdge → CellID → Prop}
    {BoundOK : ClippedEdge → CellID → Prop} (hs : ClipSound Meets BoundOK) :
    BuildStep shapes.size (fun _ => True) (fun t _ => TrOK shapes.size t) (EdgesOK shapes Meets BoundOK)
      (CellI1 shapes Meets) where
  lvl := fun c es h ce hce => FEQ_maxLevel shapes _ (h.feq ce hce).1
  make := by
    intro c k es t cells t' hc hE hT hmk _
    rw [makeIndexCell_eq] at hmk
    split at hmk
    · simp only [Option.some.injEq, Prod.mk.injEq] at hmk
      obtain ⟨rfl, rfl⟩ := hmk
      exact ⟨hT, by simp⟩
    · split at hmk
      · cases hmk
      · simp only [Option.some.injEq, Prod.mk.injEq] at hmk
        obtain ⟨rfl, rfl⟩ := hmk
        refine ⟨TrOK_t2Of _ _ es t hT hE.sid_lt, ?_⟩
        intro x hx
        simp only [List.mem_singleton] at hx
        subst hx
        rw [fromCellID_id]
        exact cellI1_of_edgesOK hE (TrOK_t1Of _ _ es t hT hE.sid_lt)
  ch := fun c k pre es pos hc hk hpos hE => hE.toChild hs pre hc hk hpos
  skip := fun t b e _ hT _ => hT

/-- **I1 in full** for every cell of the built index, from `ClipSound`, sound root bounds and `ShrinkSound` only. -/
theorem build_cellI1 (shapes : Array Shape) {Meets : FaceEdge → CellID → Prop}
    {BoundOK : ClippedEdge → CellID → Prop} (hs : ClipSound Meets BoundOK)
    (hroot : ∀ f, f < 6 → ∀ fe ∈ faceEdgesOf (allFaceEdges shapes) f,
      BoundOK ⟨fe, rectFromPoints fe.a fe.b⟩ (rootCell f (faceEdgesOf (allFaceEdges shapes) f)))
    (hshrink : ∀ f, f < 6 → ShrinkSound Meets f (faceEdgesOf (allFaceEdges shapes) f)) :
    ∀ x ∈ build shapes, CellI1 shapes Meets x := by
  unfold build buildRes
  apply buildRes_ind (buildStep_I1 shapes hs) (allFaceEdges shapes) (initialTracker shapes)
    (TrOK_initialTracker shapes) (fun f hf => EdgesOK.atRoot f hf (hroot f hf))
  · intro f hf c hv h1 h2 hdis
    apply EdgesOK.ofClear
    intro f' hf' h1' h2' fe hfe hm
    have : f = f' := face_unique hf hf' hv h1 h2 h1' h2'
    subst this
    exact hshrink f hf fe hfe c hv hm hdis
  · intro f hf hnil c hv h1 h2
    apply EdgesOK.ofClear
    intro f' hf' h1' h2' fe hfe _
    have : f = f' := face_unique hf hf' hv h1 h2 h1' h2'
    subst this
    rw [hnil] at hfe
    cases hfe
  · intro _ _; trivial

end S2Proofs.C06BuildH
