/-
  S2Proofs.C06.BuildFloat — bridge from the FLOAT EdgeCrosser (the one the index builder's tracker and
  `containsBruteForce` really run: `S2.Crosser` over `Pred.robustSign` / `triageSign` / tangent rejection) to the
  EXACT containment model `S2.Contain` over `Contain.exactGeo` (Go `==`, `Pred.exactDecision`, `s2Ortho`).

  Point class: `UnitPt` (`Properties/C03_FloatSound.lean`: finite, | ‖p‖² − 1 | ≤ 2^-16, no negative-zero coordinate;
  decidable).  Side condition, ONLY on the two vertices `a b` of the crosser's own edge (never on the tested edges):
  their reference directions `referenceDir a`, `referenceDir b` (= `Ortho`) are `Unitish` (finite, | ‖p‖² − 1 | ≤ 2^-16;
  decidable; negative zeros ARE allowed there).  They are needed because `VertexCrossing` calls `RobustSign` with
  `referenceDir a` / `referenceDir b` as an argument and `RobustSign = exactDecision` is proved on unit-ish points.
  (`Ortho` normalises, so this holds for every vector of roughly unit length; it is not derived here from `UnitPt a`:
  that would need the float error analysis of `Normalize`.)

  Results:
    `referenceDir_eq_s2Ortho`              `Crossing.referenceDir = Contain.s2Ortho` (the two models of `Ortho` differ
                                           only in how the three constants are written: decimal literal rounded vs bits)
    `eovc_float_eq_exact`                  stateless float `EdgeOrVertexCrossing` = the exact model's
    `crosserOuts_exact_from`               a crosser in any state satisfying the cache invariant
    `crosserOuts_exact`                    the crosser `NewEdgeCrosser(a, b)` over a list of edges
    `containsBruteForce_float_eq_exact`    the builder's `containsBruteForce`
-/
import S2Proofs.Properties.C03_FloatSound
import S2Proofs.Properties.C06_Build
import S2Proofs.C06.BuildTest
import S2Proofs.Contain.Basic
open S2 S2.Pred S2.IndexBuild
namespace S2Proofs.C06BuildH
open S2Proofs.C03 S2Proofs.C02Err S2Proofs.F64Order

local notation "E" => S2.Pred.exactDecision

/-! ### `referenceDir` of the crossing model = `s2Ortho` of the containment model -/

private theorem f64_ext {x y : F64} (h : x.bits = y.bits) : x = y := by
  cases x; cases y; simp_all

theorem ortho_k0 : (Pred.Q.mk 12 1000).toF64 = (⟨0x3f889374bc6a7efa⟩ : F64) := f64_ext (by decide +kernel)
theorem ortho_k1 : (Pred.Q.mk 53 10000).toF64 = (⟨0x3f75b573eab367a1⟩ : F64) := f64_ext (by decide +kernel)
theorem ortho_k2 : (Pred.Q.mk 457 100000).toF64 = (⟨0x3f72b7fe08aefb2b⟩ : F64) := f64_ext (by decide +kernel)

/-- the two models of s2 `Ortho` are the same function -/
theorem referenceDir_eq_s2Ortho : Crossing.referenceDir = Contain.s2Ortho := by
  funext a
  unfold Crossing.referenceDir Crossing.s2Ortho Contain.s2Ortho
  rw [ortho_k0, ortho_k1, ortho_k2]
  rfl

/-! ### `OrderedCCW` / `VertexCrossing` -/

/-- float `OrderedCCW` = exact `OrderedCCW` on unit-ish points -/
theorem orderedCCW_exact {r x y o : V3} (hr : Unitish r) (hx : Unitish x) (hy : Unitish y) (ho : Unitish o) :
    orderedCCW r x y o = orderedCCWWith E r x y o := by
  unfold orderedCCW orderedCCWWith
  rw [S2Proofs.C02StableErr.robustSign_exact x o r hx ho hr, S2Proofs.C02StableErr.robustSign_exact y o x hy ho hx,
    S2Proofs.C02StableErr.robustSign_exact r o y hr ho hy]

/-- the exact model's `VertexCrossing` is `vertexCrossingWith` over the exact `OrderedCCW` -/
theorem contain_vertexCrossing_eq (a b c d : V3) :
    Contain.vertexCrossing Contain.exactGeo a b c d = Crossing.vertexCrossingWith (orderedCCWWith E) a b c d := by
  unfold Contain.vertexCrossing Crossing.vertexCrossingWith
  rw [referenceDir_eq_s2Ortho]
  rfl

/-- float `VertexCrossing` = exact `VertexCrossing`.  Only unit-ish-ness is used (negative zeros allowed). -/
theorem vertexCrossing_float_eq_exact {a b c d : V3} (ha : Unitish a) (hb : Unitish b) (hc : Unitish c)
    (hd : Unitish d) (hra : Unitish (Crossing.referenceDir a)) (hrb : Unitish (Crossing.referenceDir b)) :
    Crossing.vertexCrossing a b c d = Contain.vertexCrossing Contain.exactGeo a b c d := by
  rw [contain_vertexCrossing_eq]
  unfold Crossing.vertexCrossing Crossing.vertexCrossingWith
  rw [orderedCCW_exact hra hd hb ha, orderedCCW_exact hrb hc ha hb, orderedCCW_exact hra hc hb ha,
    orderedCCW_exact hrb hd ha hb]

/-! ### `CrossingSign` -/

/-- the exact model's `CrossingSign` in terms of the specification of C03 -/
theorem contain_crossingSign_eq {a b c d : V3} (ha : UnitPt a) (hb : UnitPt b) (hc : UnitPt c) (hd : UnitPt d) :
    Contain.crossingSign Contain.exactGeo a b c d =
      if Crossing.sharesEndpoint a b c d then Contain.Crossing.maybe
      else if Crossing.fourSameWith E a b c d then Contain.Crossing.cross else Contain.Crossing.doNot := by
  have hD := unitPt_dom
  have hL := unitPt_signLaws
  unfold Contain.crossingSign
  show (if (V3.feq a c || V3.feq a d || V3.feq b c || V3.feq b d) = true then Contain.Crossing.maybe
    else if (V3.feq a b || V3.feq c d) = true then Contain.Crossing.doNot
    else if (E a b d != -(E a b c)) = true then Contain.Crossing.doNot
    else if (-(E c d b) != -(E a b c)) = true then Contain.Crossing.doNot
    else if (E c d a != -(E a b c)) = true then Contain.Crossing.doNot
    else Contain.Crossing.cross) = _
  by_cases hsh : Crossing.sharesEndpoint a b c d = true
  · rw [if_pos hsh, if_pos (by simpa [Crossing.sharesEndpoint] using hsh)]
  have hsh0 : ¬ (V3.feq a c || V3.feq a d || V3.feq b c || V3.feq b d) = true := by
    simpa [Crossing.sharesEndpoint] using hsh
  rw [if_neg hsh, if_neg hsh0]
  have hne := fun h => (shares_iff hD ha hb hc hd).mpr h
  have hac : a ≠ c := fun h => hsh (hne (Or.inl h))
  have hbc : b ≠ c := fun h => hsh (hne (Or.inr (Or.inr (Or.inl h))))
  have h4 := fourSame_iff hL ha hb hc hd
  by_cases hdeg : (V3.feq a b || V3.feq c d) = true
  · rw [if_pos hdeg]
    have hnot : ¬ Crossing.fourSameWith E a b c d = true := by
      rw [h4]
      rw [feq_eq_decide hD ha hb, feq_eq_decide hD hc hd] at hdeg
      simp only [Bool.or_eq_true, decide_eq_true_eq] at hdeg
      rcases hdeg with h | h
      · subst h
        have := E_aab hL ha hc
        omega
      · subst h
        have := E_aab hL hc hb
        omega
    rw [if_neg hnot]
  rw [if_neg hdeg]
  rw [feq_eq_decide hD ha hb, feq_eq_decide hD hc hd] at hdeg
  simp only [Bool.or_eq_true, decide_eq_true_eq, not_or] at hdeg
  obtain ⟨hab, hcd⟩ := hdeg
  have hp := hL.unit a b c ha hb hc hab hbc (Ne.symm hac)
  generalize E a b c = p at *
  generalize E a b d = q at *
  generalize E c d b = s at *
  generalize E c d a = r at *
  by_cases hx : q = -p
  · by_cases hy : s = p
    · by_cases hz : r = -p
      · have : Crossing.fourSameWith E a b c d = true := h4.mpr ⟨by omega, hy, hx, hz⟩
        rw [if_pos this]
        simp [hx, hy, hz]
      · have : ¬ Crossing.fourSameWith E a b c d = true := fun h => hz (h4.mp h).2.2.2
        rw [if_neg this]
        subst hx hy
        simp [hz]
    · have : ¬ Crossing.fourSameWith E a b c d = true := fun h => hy (h4.mp h).2.1
      rw [if_neg this]
      subst hx
      simp [hy]
  · have : ¬ Crossing.fourSameWith E a b c d = true := fun h => hx (h4.mp h).2.2.1
    rw [if_neg this]
    simp [hx]

/-! ### theorem 1: one stateless call -/

/-- **float = exact, one call**: the stateless float `EdgeOrVertexCrossing(a,b,c,d)` (tangent rejection, triage,
    stable and exact fallbacks, `VertexCrossing` over `RobustSign`) equals the exact model's.
    Hypotheses: the four points in `UnitPt`; the reference directions of `a` and `b` unit-ish. -/
theorem eovc_float_eq_exact (a b c d : V3) (ha : UnitPt a) (hb : UnitPt b) (hc : UnitPt c) (hd : UnitPt d)
    (hra : Unitish (Crossing.referenceDir a)) (hrb : Unitish (Crossing.referenceDir b)) :
    Crossing.edgeOrVertexCrossing a b c d = Contain.edgeOrVertexCrossing Contain.exactGeo a b c d := by
  unfold Crossing.edgeOrVertexCrossing Contain.edgeOrVertexCrossing
  rw [crossingSign_exact ha hb hc hd, contain_crossingSign_eq ha hb hc hd]
  unfold Crossing.exactCrossing Crossing.exactCrossingWith
  by_cases hsh : Crossing.sharesEndpoint a b c d = true
  · simp only [hsh, if_true]
    exact vertexCrossing_float_eq_exact ha.1 hb.1 hc.1 hd.1 hra hrb
  · by_cases h4 : Crossing.fourSameWith E a b c d = true
    · simp [hsh, h4]
    · simp [hsh, h4]

/-! ### theorem 2: the stateful crosser -/

/-- the stateful crosser answers like the stateless float function, from any state with the cache invariant -/
theorem crosserOuts_stateless_from {a b : V3} (ha : UnitPt a) (hb : UnitPt b) (l : List (V3 × V3))
    (hl : ∀ e ∈ l, UnitPt e.1 ∧ UnitPt e.2) :
    ∀ {st : Crosser.St}, S2Proofs.C03.Inv UnitPt a b st →
      crosserOuts st l = l.map fun e => Crossing.edgeOrVertexCrossing a b e.1 e.2 := by
  induction l with
  | nil => intros; rfl
  | cons e rest ih =>
    intro st hI
    have he := hl e (by simp)
    obtain ⟨h1, h2, _, _⟩ := step_spec unitPt_dom unitPt_signLaws unitPt_floatSound ha hb hI
      (.edgeOrVertexCrossing e.1 e.2)
      (by
        intro p hp
        simp only [Crosser.Op.points, List.mem_cons, List.mem_nil_iff, or_false] at hp
        rcases hp with rfl | rfl
        · exact he.1
        · exact he.2)
      (Or.inr rfl)
    have h1' : (Crosser.edgeOrVertexCrossing st e.1 e.2).2 = Crossing.edgeOrVertexCrossing a b e.1 e.2 := by
      have : Crosser.Out.bool (Crosser.edgeOrVertexCrossing st e.1 e.2).2 =
          Crosser.Out.bool (Crossing.edgeOrVertexCrossing a b e.1 e.2) := h1
      exact Crosser.Out.bool.inj this
    have h2' : S2Proofs.C03.Inv UnitPt a b (Crosser.edgeOrVertexCrossing st e.1 e.2).1 := h2
    simp only [crosserOuts, List.map_cons]
    rw [h1', ih (fun x hx => hl x (by simp [hx])) h2']

/-- **float = exact, a crosser in any state satisfying the cache invariant** `S2Proofs.C03.Inv UnitPt a b st` (its fields are
    those of `NewEdgeCrosser(a,b)`, the cached orientation is 0 or the exact one, the chain vertex is in the class or
    still the Go zero value) — e.g. the tracker's crosser after any number of earlier `testEdge` calls. -/
theorem crosserOuts_exact_from {a b : V3} (ha : UnitPt a) (hb : UnitPt b)
    (hra : Unitish (Crossing.referenceDir a)) (hrb : Unitish (Crossing.referenceDir b))
    {st : Crosser.St} (hI : S2Proofs.C03.Inv UnitPt a b st) (l : List (V3 × V3)) (hl : ∀ e ∈ l, UnitPt e.1 ∧ UnitPt e.2) :
    crosserOuts st l = l.map fun e => Contain.edgeOrVertexCrossing Contain.exactGeo a b e.1 e.2 := by
  rw [crosserOuts_stateless_from ha hb l hl hI]
  apply List.map_congr_left
  intro e he
  exact eovc_float_eq_exact a b e.1 e.2 ha hb (hl e he).1 (hl e he).2 hra hrb

/-- **float = exact, the stateful crosser** `NewEdgeCrosser(a, b)` asked `EdgeOrVertexCrossing(v0, v1)` for a list of
    edges (cached `c` / `acb` surviving from one call to the next): every answer is the exact model's.
    Hypotheses: `a`, `b` and all edge endpoints in `UnitPt`; the reference directions of `a` and `b` unit-ish
    (no condition on the reference directions of the edge endpoints). -/
theorem crosserOuts_exact (a b : V3) (ha : UnitPt a) (hb : UnitPt b)
    (hra : Unitish (Crossing.referenceDir a)) (hrb : Unitish (Crossing.referenceDir b))
    (l : List (V3 × V3)) (hl : ∀ e ∈ l, UnitPt e.1 ∧ UnitPt e.2) :
    crosserOuts (Crosser.init a b) l =
      l.map fun e => Contain.edgeOrVertexCrossing Contain.exactGeo a b e.1 e.2 :=
  crosserOuts_exact_from ha hb hra hrb init_inv l hl

/-- the state after the calls still satisfies the invariant (so the statement composes over `testAllEdges` calls) -/
theorem crosserOuts_inv {a b : V3} (ha : UnitPt a) (hb : UnitPt b) {st : Crosser.St} (hI : S2Proofs.C03.Inv UnitPt a b st)
    {c d : V3} (hc : UnitPt c) (hd : UnitPt d) : S2Proofs.C03.Inv UnitPt a b (Crosser.edgeOrVertexCrossing st c d).1 := by
  obtain ⟨_, h2, _, _⟩ := step_spec unitPt_dom unitPt_signLaws unitPt_floatSound ha hb hI
    (.edgeOrVertexCrossing c d)
    (by
      intro p hp
      simp only [Crosser.Op.points, List.mem_cons, List.mem_nil_iff, or_false] at hp
      rcases hp with rfl | rfl
      · exact hc
      · exact hd)
    (Or.inr rfl)
  exact h2

/-! ### theorem 3: `containsBruteForce` -/

/-- the fold of `containsBruteForce` is the XOR of the crosser's answers -/
theorem bruteFold_eq (l : List (V3 × V3)) (st : Crosser.St) (acc : Bool) :
    (l.foldl (fun (st : Crosser.St × Bool) e =>
      let (c, r) := Crosser.edgeOrVertexCrossing st.1 e.1 e.2
      (c, st.2 != r)) (st, acc)).2 = (acc != Contain.xorAll (crosserOuts st l)) := by
  induction l generalizing st acc with
  | nil => simp [crosserOuts, Contain.xorAll]
  | cons e rest ih =>
    rw [List.foldl_cons]
    have hstep : (match Crosser.edgeOrVertexCrossing (st, acc).1 e.1 e.2 with
        | (c, r) => (c, ((st, acc).2 != r))) =
        ((Crosser.edgeOrVertexCrossing st e.1 e.2).1, (acc != (Crosser.edgeOrVertexCrossing st e.1 e.2).2)) := rfl
    rw [hstep, ih]
    simp only [crosserOuts, S2Proofs.Contain.xorAll_cons]
    generalize (Crosser.edgeOrVertexCrossing st e.1 e.2).2 = x
    generalize Contain.xorAll (crosserOuts (Crosser.edgeOrVertexCrossing st e.1 e.2).1 rest) = y
    cases acc <;> cases x <;> cases y <;> rfl

/-- float `containsBruteForce` as reference bit XOR parity of the crosser's answers -/
theorem containsBruteForce_eq_crosserOuts (s : Shape) (p : V3) :
    IndexBuild.containsBruteForce s p =
      if s.dim != 2 then false
      else if V3.feq s.refPoint p then s.refContained
      else s.refContained != Contain.xorAll (crosserOuts (Crosser.init s.refPoint p) s.edges.toList) := by
  unfold IndexBuild.containsBruteForce
  rw [← Array.foldl_toList, bruteFold_eq]

/-- **float = exact, the builder's `containsBruteForce(shape, p)`** (ONE float EdgeCrosser for the edge
    `refPoint → p` folded over all edges of the shape) equals the exact model's `containsBruteForce`.
    Hypotheses: the shape's reference point, `p` and all edge endpoints in `UnitPt`; the reference directions of the
    shape's reference point and of `p` unit-ish. -/
theorem containsBruteForce_float_eq_exact (s : Shape) (p : V3) (href : UnitPt s.refPoint) (hp : UnitPt p)
    (hrref : Unitish (Crossing.referenceDir s.refPoint)) (hrp : Unitish (Crossing.referenceDir p))
    (hedges : ∀ e ∈ s.edges.toList, UnitPt e.1 ∧ UnitPt e.2) :
    IndexBuild.containsBruteForce s p =
      Contain.containsBruteForce Contain.exactGeo (S2Proofs.C06Build.toShapeM s) p := by
  rw [containsBruteForce_eq_crosserOuts, crosserOuts_exact s.refPoint p href hp hrref hrp s.edges.toList hedges]
  rfl

/-- the hypotheses are needed only when the crosser really runs (dimension 2 and `p` not `==` the reference point) -/
theorem containsBruteForce_float_eq_exact' (s : Shape) (p : V3)
    (h : s.dim = 2 → V3.feq s.refPoint p = false →
      UnitPt s.refPoint ∧ UnitPt p ∧ Unitish (Crossing.referenceDir s.refPoint) ∧
        Unitish (Crossing.referenceDir p) ∧ ∀ e ∈ s.edges.toList, UnitPt e.1 ∧ UnitPt e.2) :
    IndexBuild.containsBruteForce s p =
      Contain.containsBruteForce Contain.exactGeo (S2Proofs.C06Build.toShapeM s) p := by
  by_cases hd : s.dim = 2
  · cases hq : V3.feq s.refPoint p
    · obtain ⟨h1, h2, h3, h4, h5⟩ := h hd hq
      exact containsBruteForce_float_eq_exact s p h1 h2 h3 h4 h5
    · unfold IndexBuild.containsBruteForce Contain.containsBruteForce
      simp [hd, hq, S2Proofs.C06Build.toShapeM, Contain.exactGeo]
  · unfold IndexBuild.containsBruteForce Contain.containsBruteForce
    have : (s.dim != 2) = true := by simpa using hd
    simp [this, S2Proofs.C06Build.toShapeM]

/-! ### non-vacuity: the octant triangle -/

def oX : V3 := ⟨⟨0x3FF0000000000000⟩, ⟨0⟩, ⟨0⟩⟩
def oY : V3 := ⟨⟨0⟩, ⟨0x3FF0000000000000⟩, ⟨0⟩⟩
def oZ : V3 := ⟨⟨0⟩, ⟨0⟩, ⟨0x3FF0000000000000⟩⟩
/-- (0.6, 0.48, 0.64): inside the octant triangle -/
def oP : V3 := ⟨⟨0x3FE3333333333333⟩, ⟨0x3FDEB851EB851EB8⟩, ⟨0x3FE47AE147AE147B⟩⟩
/-- (0.6, 0.8, 0): on the edge X → Y -/
def oM : V3 := ⟨⟨0x3FE3333333333333⟩, ⟨0x3FE999999999999A⟩, ⟨0⟩⟩

/-- the octant triangle X → Y → Z with reference point X (a vertex: the `VertexCrossing` branch runs twice) -/
def octant : Shape := ⟨2, #[(oX, oY), (oY, oZ), (oZ, oX)], oX, false⟩

theorem octant_hyps :
    UnitPt oX ∧ UnitPt oY ∧ UnitPt oZ ∧ UnitPt oP ∧ UnitPt oM ∧
    Unitish (Crossing.referenceDir oX) ∧ Unitish (Crossing.referenceDir oP) ∧
    Unitish (Crossing.referenceDir oM) := by
  unfold UnitPt
  decide +kernel

/-- an instance of all hypotheses of `containsBruteForce_float_eq_exact` (query point inside the triangle) -/
example : IndexBuild.containsBruteForce octant oP =
    Contain.containsBruteForce Contain.exactGeo (S2Proofs.C06Build.toShapeM octant) oP := by
  obtain ⟨hX, hY, hZ, hP, _, hrX, hrP, _⟩ := octant_hyps
  refine containsBruteForce_float_eq_exact octant oP hX hP hrX hrP ?_
  intro e he
  simp only [octant, List.mem_cons, List.mem_nil_iff, or_false] at he
  rcases he with rfl | rfl | rfl <;> exact ⟨by assumption, by assumption⟩

/-- an instance of `crosserOuts_exact` with a query point exactly on an edge's great circle -/
example : crosserOuts (Crosser.init oX oM) [(oX, oY), (oY, oZ), (oZ, oX)] =
    [(oX, oY), (oY, oZ), (oZ, oX)].map fun e => Contain.edgeOrVertexCrossing Contain.exactGeo oX oM e.1 e.2 := by
  obtain ⟨hX, hY, hZ, _, hM, hrX, _, hrM⟩ := octant_hyps
  refine crosserOuts_exact oX oM hX hM hrX hrM _ ?_
  intro e he
  simp only [List.mem_cons, List.mem_nil_iff, or_false] at he
  rcases he with rfl | rfl | rfl <;> exact ⟨by assumption, by assumption⟩

end S2Proofs.C06BuildH
