/-
  S2Proofs.C06.BuildI3Hyp — discharging parts of the hypothesis record `TrackSound` of I3:
    * `parity_step_of_cocycle` / `parity_step_of_cocycleDom` : the clause `parity_step` is the parity cocycle, a THEOREM
                           for closed chains and points in the decidable class `CocycleDomAny` (C04_Cocycle);
    * `crosser_exact_of_unitPt`, `init_exact_of_unitPt` : the float clauses are THEOREMS on unit points without
                           negative zeros (C03_FloatSound through `BuildFloat`).
-/
import S2Proofs.C06.BuildI3
import S2Proofs.C06.BuildFocus
import S2Proofs.C06.BuildFloat
import S2Proofs.Properties.C04_Cocycle
open S2 S2.CellID S2.Hilbert S2.PaddedCellM S2.IndexBuild S2Proofs.C12H S2Proofs.C06PC
namespace S2Proofs.C06BuildH

/-- for a 2-dimensional shape, brute-force containment is the reference flag XOR the crossing parity (the `ref == p`
    shortcut of `containsBruteForce` agrees with it: a degenerate segment crosses nothing) -/
theorem containsBruteForce_eq_parity (S : Contain.ShapeM V3) (hdim : S.dim = 2) (p : V3) :
    Contain.containsBruteForce Contain.exactGeo S p =
      (S.refContained != Contain.crossParity Contain.exactGeo S.refPoint p S.edges.toList) := by
  unfold Contain.containsBruteForce
  have h2 : (S.dim != 2) = false := by rw [hdim]; rfl
  simp only [h2, Bool.false_eq_true, if_false]
  split
  · rename_i h
    rw [S2Proofs.Contain.crossParity_degenerate _ _ _ _ h]
    simp
  · rfl

/-- `parity_step` from the parity cocycle -/
theorem parity_step_of_cocycle (S : Contain.ShapeM V3) (hdim : S.dim = 2) {a b : V3}
    (hco : S2Proofs.C04.ParityCocycle Contain.exactGeo S.refPoint a b S.edges.toList) :
    Contain.containsBruteForce Contain.exactGeo S b =
      (Contain.containsBruteForce Contain.exactGeo S a != Contain.crossParity Contain.exactGeo a b S.edges.toList) := by
  rw [containsBruteForce_eq_parity S hdim b, containsBruteForce_eq_parity S hdim a]
  unfold S2Proofs.C04.ParityCocycle at hco
  rw [← hco]
  cases S.refContained <;> cases Contain.crossParity Contain.exactGeo S.refPoint a S.edges.toList <;>
    cases Contain.crossParity Contain.exactGeo a b S.edges.toList <;> rfl

/-- `parity_step` for a shape whose edges are closed chains, points in the class `CocycleDomAny` -/
theorem parity_step_of_cocycleDom (S : Contain.ShapeM V3) (hdim : S.dim = 2) {chains : List (List V3)}
    (hch : S.edges.toList = chains.flatMap Contain.loopEdges) {a b : V3}
    (hd : S2Proofs.C04.CocycleDomAny S.refPoint a b chains) :
    Contain.containsBruteForce Contain.exactGeo S b =
      (Contain.containsBruteForce Contain.exactGeo S a != Contain.crossParity Contain.exactGeo a b S.edges.toList) := by
  apply parity_step_of_cocycle S hdim
  rw [hch]
  exact S2Proofs.C04.parityCocycle_exact_any hd

/-- the clause `crosser_exact` on one segment with unit endpoints -/
theorem crosser_exact_of_unitPt (a b : V3) (ha : S2Proofs.C03.UnitPt a) (hb : S2Proofs.C03.UnitPt b)
    (hra : S2Proofs.C02Err.Unitish (Contain.s2Ortho a)) (hrb : S2Proofs.C02Err.Unitish (Contain.s2Ortho b))
    (l : List (V3 × V3)) (hl : ∀ e ∈ l, S2Proofs.C03.UnitPt e.1 ∧ S2Proofs.C03.UnitPt e.2) :
    crosserOuts (Crosser.init a b) l =
      l.map fun e => Contain.edgeOrVertexCrossing Contain.exactGeo a b e.1 e.2 := by
  apply crosserOuts_exact a b ha hb _ _ l hl
  · rw [referenceDir_eq_s2Ortho]; exact hra
  · rw [referenceDir_eq_s2Ortho]; exact hrb

/-- the clause `init_exact` for one shape with unit vertices and reference point -/
theorem init_exact_of_unitPt (s : Shape) (p : V3) (href : S2Proofs.C03.UnitPt s.refPoint)
    (hp : S2Proofs.C03.UnitPt p) (hrref : S2Proofs.C02Err.Unitish (Contain.s2Ortho s.refPoint))
    (hrp : S2Proofs.C02Err.Unitish (Contain.s2Ortho p))
    (hedges : ∀ e ∈ s.edges.toList, S2Proofs.C03.UnitPt e.1 ∧ S2Proofs.C03.UnitPt e.2) :
    IndexBuild.containsBruteForce s p =
      Contain.containsBruteForce Contain.exactGeo (S2Proofs.C06Build.toShapeM s) p := by
  apply containsBruteForce_float_eq_exact s p href hp _ _ hedges
  · rw [referenceDir_eq_s2Ortho]; exact hrref
  · rw [referenceDir_eq_s2Ortho]; exact hrp

end S2Proofs.C06BuildH
