/-
  S2Proofs.C06.Locate — correctness of seek / LocatePoint / LocateCellID (model S2.Locate) on every
  sorted list of pairwise disjoint cells.  Helper lemmas; the property theorems are in
  S2Proofs/Properties/C06.lean.
-/
import S2.Locate
namespace S2Proofs.C06
open S2 S2.CellID S2.Locate

/-! ### sort.Search -/

theorem sortSearchLoop_spec (f : Nat → Bool) (n : Nat) : ∀ (fuel i j : Nat), i ≤ j → j ≤ n → j - i < fuel →
    (i = 0 ∨ f (i - 1) = false) → (j = n ∨ f j = true) →
    let r := sortSearchLoop f fuel i j
    r ≤ n ∧ (r = 0 ∨ f (r - 1) = false) ∧ (r = n ∨ f r = true)
  | 0, i, j, _, _, hf, _, _ => by omega
  | fuel + 1, i, j, hij, hjn, hf, hi, hj => by
    unfold sortSearchLoop
    by_cases hlt : i < j
    · simp only [hlt, if_true]
      have hh : (i + j) >>> 1 = (i + j) / 2 := by simp [Nat.shiftRight_eq_div_pow]
      rw [hh]
      by_cases hfh : f ((i + j) / 2) = true
      · simp only [hfh, Bool.not_true, Bool.false_eq_true, if_false]
        exact sortSearchLoop_spec f n fuel i ((i + j) / 2) (by omega) (by omega) (by omega) hi (Or.inr hfh)
      · have hfh' : f ((i + j) / 2) = false := by simpa using hfh
        simp only [hfh', Bool.not_false, if_true]
        exact sortSearchLoop_spec f n fuel ((i + j) / 2 + 1) j (by omega) hjn (by omega)
          (Or.inr (by simpa using hfh')) hj
    · simp only [hlt, if_false]
      have : i = j := by omega
      subst this
      exact ⟨hjn, hi, hj⟩

theorem sortSearch_spec (f : Nat → Bool) (n : Nat) :
    sortSearch n f ≤ n ∧ (sortSearch n f = 0 ∨ f (sortSearch n f - 1) = false) ∧
      (sortSearch n f = n ∨ f (sortSearch n f) = true) :=
  sortSearchLoop_spec f n (n + 1) 0 n (Nat.zero_le _) (Nat.le_refl _) (by omega) (Or.inl rfl) (Or.inl rfl)

/-- with a monotone predicate `sort.Search` returns the threshold -/
theorem sortSearch_eq (f : Nat → Bool) (n m : Nat) (hm : m ≤ n)
    (hlo : ∀ j, j < m → f j = false) (hhi : ∀ j, m ≤ j → j < n → f j = true) : sortSearch n f = m := by
  obtain ⟨h1, h2, h3⟩ := sortSearch_spec f n
  generalize sortSearch n f = r at *
  have a : r ≤ m := by
    rcases h2 with h | h
    · omega
    · by_cases hr : r = 0
      · omega
      · by_cases hc : m ≤ r - 1
        · have := hhi (r - 1) hc (by omega); rw [this] at h; cases h
        · omega
  have b : m ≤ r := by
    rcases h3 with h | h
    · omega
    · by_cases hc : r < m
      · have := hlo r hc; rw [this] at h; cases h
      · omega
  omega

/-! ### the index-cell list -/

/-- the explicit hypotheses on the cell list: every cell lies in its own leaf range, the cells are
    sorted and pairwise disjoint (`rangeMax` of an earlier cell is below `rangeMin` of a later one),
    no cell is the sentinel.  (Facts about valid cell ids, proved in the C01 package.) -/
structure CellsOK (cells : List CellID) : Prop where
  range : ∀ c ∈ cells, rangeMin c ≤ c ∧ c ≤ rangeMax c
  sorted : cells.Pairwise (fun a b => rangeMax a < rangeMin b)
  nosent : ∀ c ∈ cells, c ≠ sentinel

instance (cells : List CellID) : Decidable (CellsOK cells) :=
  decidable_of_iff ((∀ c ∈ cells, rangeMin c ≤ c ∧ c ≤ rangeMax c) ∧ cells.Pairwise (fun a b => rangeMax a < rangeMin b) ∧
      (∀ c ∈ cells, c ≠ sentinel))
    ⟨fun ⟨a, b, c⟩ => ⟨a, b, c⟩, fun ⟨a, b, c⟩ => ⟨a, b, c⟩⟩

variable {cells : List CellID}

theorem idAt_lt {p : Nat} (h : p < cells.length) : idAt cells p = cells[p] := by
  simp [idAt, List.getD, h]

theorem idAt_ge {p : Nat} (h : cells.length ≤ p) : idAt cells p = sentinel := by
  simp [idAt, List.getD, h]

theorem CellsOK.rng (H : CellsOK cells) {k : Nat} (hk : k < cells.length) :
    (rangeMin cells[k]).toNat ≤ cells[k].toNat ∧ cells[k].toNat ≤ (rangeMax cells[k]).toNat := by
  have := H.range cells[k] (List.getElem_mem hk)
  simpa [UInt64.le_iff_toNat_le] using this

theorem CellsOK.srt (H : CellsOK cells) {i j : Nat} (hij : i < j) (hj : j < cells.length) :
    (rangeMax (cells[i]'(by omega))).toNat < (rangeMin cells[j]).toNat := by
  have := (List.pairwise_iff_getElem.mp H.sorted) i j (by omega) hj hij
  simpa [UInt64.lt_iff_toNat_lt] using this

theorem CellsOK.ids (H : CellsOK cells) {i j : Nat} (hij : i < j) (hj : j < cells.length) :
    (cells[i]'(by omega)).toNat < cells[j].toNat := by
  have a := H.rng (k := i) (by omega)
  have b := H.rng hj
  have c := H.srt hij hj
  omega

theorem CellsOK.notDone (H : CellsOK cells) {k : Nat} (hk : k < cells.length) : done cells k = false := by
  have := H.nosent cells[k] (List.getElem_mem hk)
  simp [done, idAt_lt hk, this]

theorem done_ge {p : Nat} (h : cells.length ≤ p) : done cells p = true := by
  simp [done, idAt_ge h]

/-- `seek` returns the threshold position -/
theorem seek_eq (x : CellID) (m : Nat) (hm : m ≤ cells.length)
    (hlo : ∀ j (h : j < cells.length), j < m → cells[j].toNat < x.toNat)
    (hhi : ∀ j (h : j < cells.length), m ≤ j → x.toNat ≤ cells[j].toNat) : seek cells x = m := by
  apply sortSearch_eq _ _ m hm
  · intro j hj
    have hjl : j < cells.length := by omega
    have := hlo j hjl hj
    have e : cells.getD j sentinel = cells[j] := by simp [List.getD, hjl]
    show decide (cells.getD j sentinel ≥ x) = false
    rw [e]; simp only [ge_iff_le, decide_eq_false_iff_not, UInt64.le_iff_toNat_le]; omega
  · intro j hmj hjl
    have := hhi j hjl hmj
    have e : cells.getD j sentinel = cells[j] := by simp [List.getD, hjl]
    show decide (cells.getD j sentinel ≥ x) = true
    rw [e]; simp only [ge_iff_le, decide_eq_true_eq, UInt64.le_iff_toNat_le]; omega

/-- what `seek` guarantees without knowing the threshold -/
theorem seek_weak (x : CellID) :
    seek cells x ≤ cells.length ∧
    (∀ h : seek cells x < cells.length, x.toNat ≤ (cells[seek cells x]).toNat) ∧
    (∀ (h0 : 0 < seek cells x) (h : seek cells x - 1 < cells.length), (cells[seek cells x - 1]).toNat < x.toNat) := by
  obtain ⟨h1, h2, h3⟩ := sortSearch_spec (fun i => decide (cells.getD i sentinel ≥ x)) cells.length
  refine ⟨h1, ?_, ?_⟩
  · intro h
    rcases h3 with h3 | h3
    · unfold seek at h; omega
    · have e : cells.getD (seek cells x) sentinel = cells[seek cells x] := by simp [List.getD, h]
      unfold seek at e ⊢
      simp only [e] at h3
      simpa [UInt64.le_iff_toNat_le] using h3
  · intro h0 h
    rcases h2 with h2 | h2
    · unfold seek at h0; omega
    · have e : cells.getD (seek cells x - 1) sentinel = cells[seek cells x - 1] := by simp [List.getD, h]
      unfold seek at e ⊢
      simp only [e] at h2
      have : ¬ (x.toNat ≤ (cells[sortSearch cells.length (fun i => decide (cells.getD i sentinel ≥ x)) - 1]).toNat) := by
        simpa [UInt64.le_iff_toNat_le] using h2
      omega


theorem contains_iff (c t : CellID) : contains c t = true ↔
    (rangeMin c).toNat ≤ t.toNat ∧ t.toNat ≤ (rangeMax c).toNat := by
  simp [contains, UInt64.le_iff_toNat_le]

theorem ule {a b : CellID} : a ≤ b ↔ a.toNat ≤ b.toNat := UInt64.le_iff_toNat_le


/-- facts about valid cell ids used for LocateCellID (proved in the C01 package): the target lies
    in its own range, and an index cell that contains the target contains its whole range and is
    not strictly inside it. -/
structure TargetOK (cells : List CellID) (t : CellID) : Prop where
  range : rangeMin t ≤ t ∧ t ≤ rangeMax t
  nested : ∀ c ∈ cells, contains c t = true →
    (rangeMin c ≤ rangeMin t ∧ rangeMax t ≤ rangeMax c) ∧ (c = t ∨ c < rangeMin t ∨ rangeMax t < c)

instance (cells : List CellID) (t : CellID) : Decidable (TargetOK cells t) :=
  decidable_of_iff ((rangeMin t ≤ t ∧ t ≤ rangeMax t) ∧ (∀ c ∈ cells, contains c t = true →
    (rangeMin c ≤ rangeMin t ∧ rangeMax t ≤ rangeMax c) ∧ (c = t ∨ c < rangeMin t ∨ rangeMax t < c)))
    ⟨fun ⟨a, b⟩ => ⟨a, b⟩, fun ⟨a, b⟩ => ⟨a, b⟩⟩


end S2Proofs.C06
