/-
  S2Proofs.C06.BuildQuery — `ContainsPointQuery` (semi-open) on a cell of the BUILT index = brute force over all
  shapes: the structural facts of the cell (`CellFacts`), I3 (`CellI3`), I2 for the query point (`QueryLocal`) and the
  parity cocycle (`QueryCocycle`) give the per-shape hypotheses `ShapeCellHyp` of the generic theorems of
  `S2Proofs.Properties.C06_Index`; shapes without an entry in the cell are not contained (their flag is `false`, no
  edge of them crosses centre → p).
-/
import S2Proofs.C06.BuildI3Hyp
import S2Proofs.C06.BuildStruct
import S2Proofs.Properties.C06_Index
open S2 S2.CellID S2.PaddedCellM S2.IndexBuild
namespace S2Proofs.C06BuildH

/-- how a query resolves one clipped shape of a built index cell against its shape (dimension and edges by id) -/
def clippedM (shapes : Array Shape) (cl : Clipped) : Contain.ClippedM V3 :=
  ⟨cl.shapeID, (shapes[cl.shapeID]!).dim, cl.containsCenter,
    S2Proofs.Contain.listed (shapes[cl.shapeID]!).edges.toList cl.edges⟩

/-- an index cell as `ContainsPointQuery` sees it: the centre and the resolved clipped shapes -/
def cellM (shapes : Array Shape) (x : IndexCell) : V3 × List (Contain.ClippedM V3) :=
  (center (fromCellID x.id), x.shapes.map (clippedM shapes))

/-- the edge ids of shape `sid` listed in cell `x` (empty when the shape has no entry) -/
def cellEdgeIDs (x : IndexCell) (sid : Nat) : List Nat :=
  (x.shapes.filter fun cl => cl.shapeID == sid).flatMap (·.edges)

/-- I2 for the query point `p`: an edge of a 2-dimensional shape that is NOT listed in `x` does not cross centre → p -/
def QueryLocal (shapes : Array Shape) (x : IndexCell) (p : V3) : Prop :=
  ∀ sid, sid < shapes.size → (shapes[sid]!).dim = 2 → ∀ i, i < (shapes[sid]!).edges.size → i ∉ cellEdgeIDs x sid →
    Contain.edgeOrVertexCrossing Contain.exactGeo (center (fromCellID x.id)) p
      ((shapes[sid]!).edges[i]!).1 ((shapes[sid]!).edges[i]!).2 = false

/-- the parity cocycle reference point → centre → p for every 2-dimensional shape -/
def QueryCocycle (shapes : Array Shape) (x : IndexCell) (p : V3) : Prop :=
  ∀ sid, sid < shapes.size → (shapes[sid]!).dim = 2 →
    S2Proofs.C04.ParityCocycle Contain.exactGeo (shapes[sid]!).refPoint (center (fromCellID x.id)) p
      (shapes[sid]!).edges.toList

/-! ### the entry of a shape in a cell is unique -/

/-- in a list strictly increasing in shape id, the entries with the id of `cl` are `cl` alone -/
theorem filter_sid_unique : ∀ (L : List Clipped), L.Pairwise (fun a b : Clipped => a.shapeID < b.shapeID) →
    ∀ cl ∈ L, L.filter (fun c => c.shapeID == cl.shapeID) = [cl]
  | [], _, cl, h => by simp at h
  | a :: L, hp, cl, h => by
    rw [List.pairwise_cons] at hp
    rcases List.mem_cons.mp h with rfl | h
    · rw [List.filter_cons_of_pos (by simp)]
      congr 1
      apply List.filter_eq_nil_iff.2
      intro b hb
      have := hp.1 b hb
      simp only [beq_iff_eq]; omega
    · have := hp.1 cl h
      rw [List.filter_cons_of_neg (by simp only [beq_iff_eq]; omega)]
      exact filter_sid_unique L hp.2 cl h

/-- no entry with id `sid` -/
theorem filter_sid_nil (L : List Clipped) (sid : Nat) (h : ∀ cl ∈ L, cl.shapeID ≠ sid) :
    L.filter (fun c => c.shapeID == sid) = [] := by
  apply List.filter_eq_nil_iff.2
  intro b hb
  simpa using h b hb

theorem cellContainsCenter_eq_filter (x : IndexCell) (sid : Nat) :
    S2Proofs.C06Build.cellContainsCenter x sid =
      (x.shapes.filter fun cl => cl.shapeID == sid).any (·.containsCenter) := by
  unfold S2Proofs.C06Build.cellContainsCenter
  rw [List.any_filter]

theorem cellEdgeIDs_of_mem {shapes : Array Shape} {x : IndexCell} (hf : CellFacts shapes x) (cl : Clipped)
    (hcl : cl ∈ x.shapes) : cellEdgeIDs x cl.shapeID = cl.edges := by
  unfold cellEdgeIDs
  rw [filter_sid_unique x.shapes hf.sorted cl hcl]
  simp

theorem cellContainsCenter_of_mem {shapes : Array Shape} {x : IndexCell} (hf : CellFacts shapes x) (cl : Clipped)
    (hcl : cl ∈ x.shapes) : S2Proofs.C06Build.cellContainsCenter x cl.shapeID = cl.containsCenter := by
  rw [cellContainsCenter_eq_filter, filter_sid_unique x.shapes hf.sorted cl hcl]
  simp

theorem cellEdgeIDs_of_absent (x : IndexCell) (sid : Nat) (h : ∀ cl ∈ x.shapes, cl.shapeID ≠ sid) :
    cellEdgeIDs x sid = [] := by
  unfold cellEdgeIDs
  rw [filter_sid_nil x.shapes sid h]
  rfl

theorem cellContainsCenter_of_absent (x : IndexCell) (sid : Nat) (h : ∀ cl ∈ x.shapes, cl.shapeID ≠ sid) :
    S2Proofs.C06Build.cellContainsCenter x sid = false := by
  rw [cellContainsCenter_eq_filter, filter_sid_nil x.shapes sid h]
  rfl

/-! ### the per-shape hypotheses of the generic query theorem -/

/-- every clipped shape of the cell satisfies `ShapeCellHyp` w.r.t. its shape -/
theorem shapeCellHyp_of_facts (shapes : Array Shape) (x : IndexCell) (hf : CellFacts shapes x)
    (hI3 : CellI3 shapes x) (p : V3) (hloc : QueryLocal shapes x p) (hco : QueryCocycle shapes x p)
    (cl : Clipped) (hcl : cl ∈ x.shapes) :
    S2Proofs.C06.ShapeCellHyp Contain.exactGeo (S2Proofs.C06Build.toShapeM (shapes[cl.shapeID]!))
      (center (fromCellID x.id)) (clippedM shapes cl) p where
  dim_eq := rfl
  lowDim := fun h => hf.lowDim cl hcl h
  cell := by
    intro hdim
    have hdim' : (shapes[cl.shapeID]!).dim = 2 := hdim
    have hlt := hf.sid_lt cl hcl
    refine ⟨cl.edges, rfl, ?_⟩
    refine ⟨?_, ?_, ?_, ?_, ?_⟩
    · exact (hf.edges_sorted cl hcl).imp (fun h => Nat.ne_of_lt h)
    · intro i hi
      show i < (shapes[cl.shapeID]!).edges.toList.length
      rw [Array.length_toList]
      exact hf.edges_lt cl hcl i hi
    · intro i hi hni
      have hi' : i < (shapes[cl.shapeID]!).edges.size := by
        have : i < (shapes[cl.shapeID]!).edges.toList.length := hi
        rwa [Array.length_toList] at this
      have h := hloc cl.shapeID hlt hdim' i hi' (by rw [cellEdgeIDs_of_mem hf cl hcl]; exact hni)
      rw [getElem!_pos _ i hi'] at h
      show Contain.edgeOrVertexCrossing Contain.exactGeo (center (fromCellID x.id)) p
        ((shapes[cl.shapeID]!).edges.toList[i]).1 ((shapes[cl.shapeID]!).edges.toList[i]).2 = false
      rw [Array.getElem_toList]
      exact h
    · show cl.containsCenter = _
      rw [← cellContainsCenter_of_mem hf cl hcl, hI3 cl.shapeID hlt hdim']
      exact containsBruteForce_eq_parity _ hdim _
    · exact hco cl.shapeID hlt hdim'

/-- a shape without an entry in the cell does not contain `p` -/
theorem cbf_false_of_absent (shapes : Array Shape) (x : IndexCell) (hI3 : CellI3 shapes x) (p : V3)
    (hloc : QueryLocal shapes x p) (hco : QueryCocycle shapes x p) (sid : Nat) (hsid : sid < shapes.size)
    (habs : ∀ cl ∈ x.shapes, cl.shapeID ≠ sid) : cbf shapes sid p = false := by
  by_cases hdim : (shapes[sid]!).dim = 2
  · have hS : (S2Proofs.C06Build.toShapeM (shapes[sid]!)).dim = 2 := hdim
    have hc : cbf shapes sid (center (fromCellID x.id)) = false := by
      rw [← hI3 sid hsid hdim]; exact cellContainsCenter_of_absent x sid habs
    have hpar : Contain.crossParity Contain.exactGeo (center (fromCellID x.id)) p
        (shapes[sid]!).edges.toList = false := by
      unfold Contain.crossParity
      apply S2Proofs.Contain.xorAll_map_false
      intro e he
      obtain ⟨i, hi, rfl⟩ := List.mem_iff_getElem.1 he
      have hi' : i < (shapes[sid]!).edges.size := by rwa [Array.length_toList] at hi
      have h := hloc sid hsid hdim i hi' (by rw [cellEdgeIDs_of_absent x sid habs]; simp)
      rw [getElem!_pos _ i hi'] at h
      rw [Array.getElem_toList]
      exact h
    have hstep := parity_step_of_cocycle (S2Proofs.C06Build.toShapeM (shapes[sid]!)) hS
      (a := center (fromCellID x.id)) (b := p) (hco sid hsid hdim)
    unfold cbf at hc ⊢
    rw [hstep, hc]
    show (false != Contain.crossParity Contain.exactGeo (center (fromCellID x.id)) p
      (shapes[sid]!).edges.toList) = false
    rw [hpar]; rfl
  · unfold cbf Contain.containsBruteForce
    have : ((S2Proofs.C06Build.toShapeM (shapes[sid]!)).dim != 2) = true := by
      show ((shapes[sid]!).dim != 2) = true
      simpa using hdim
    simp only [this, if_true]

/-- the shapes of the cell that contain `p`, as ids = the brute force over all shape ids -/
theorem filter_shapes_eq_range (shapes : Array Shape) (x : IndexCell) (hf : CellFacts shapes x)
    (hI3 : CellI3 shapes x) (p : V3) (hloc : QueryLocal shapes x p) (hco : QueryCocycle shapes x p) :
    (x.shapes.filter fun cl => cbf shapes cl.shapeID p).map (·.shapeID) =
      (List.range shapes.size).filter (fun sid => cbf shapes sid p) := by
  have hs : ((x.shapes.filter fun cl => cbf shapes cl.shapeID p).map (·.shapeID)).Pairwise (· < ·) := by
    rw [List.pairwise_map]
    exact hf.sorted.filter _
  apply List.Perm.eq_of_pairwise' (r := (· < ·))
  · exact hs
  · exact List.pairwise_lt_range.filter _
  · apply (List.perm_ext_iff_of_nodup (hs.imp (fun h => Nat.ne_of_lt h)) (List.nodup_range.filter _)).2
    intro sid
    simp only [List.mem_map, List.mem_filter, List.mem_range]
    constructor
    · rintro ⟨cl, ⟨hcl, hc⟩, rfl⟩
      exact ⟨hf.sid_lt cl hcl, hc⟩
    · rintro ⟨hsid, hc⟩
      by_cases hex : ∃ cl ∈ x.shapes, cl.shapeID = sid
      · obtain ⟨cl, hcl, rfl⟩ := hex
        exact ⟨cl, ⟨hcl, hc⟩, rfl⟩
      · exfalso
        have habs : ∀ cl ∈ x.shapes, cl.shapeID ≠ sid := fun cl hcl h => hex ⟨cl, hcl, h⟩
        rw [cbf_false_of_absent shapes x hI3 p hloc hco sid hsid habs] at hc
        exact Bool.false_ne_true hc

/-- `ContainsPointQuery` (semi-open) on a cell with the structural facts and I3 = brute force over ALL shapes -/
theorem query_eq_bruteForce (shapes : Array Shape) (x : IndexCell) (hf : CellFacts shapes x) (hI3 : CellI3 shapes x)
    (p : V3) (hloc : QueryLocal shapes x p) (hco : QueryCocycle shapes x p) :
    Contain.queryContainingShapes Contain.exactGeo .semiOpen (some (cellM shapes x)) p =
      (List.range shapes.size).filter (fun sid => cbf shapes sid p) ∧
    Contain.queryContains Contain.exactGeo .semiOpen (some (cellM shapes x)) p =
      (List.range shapes.size).any (fun sid => cbf shapes sid p) := by
  have hyp : ∀ c ∈ x.shapes.map (clippedM shapes),
      S2Proofs.C06.ShapeCellHyp Contain.exactGeo
        ((fun k => S2Proofs.C06Build.toShapeM (shapes[k]!)) c.shapeID) (center (fromCellID x.id)) c p := by
    intro c hc
    obtain ⟨cl, hcl, rfl⟩ := List.mem_map.1 hc
    exact shapeCellHyp_of_facts shapes x hf hI3 p hloc hco cl hcl
  have hrange := filter_shapes_eq_range shapes x hf hI3 p hloc hco
  constructor
  · unfold cellM
    rw [S2Proofs.C06.containsPointQuery_containingShapes
      (fun k => S2Proofs.C06Build.toShapeM (shapes[k]!)) _ _ p hyp]
    rw [← hrange, List.filter_map, List.map_map]
    rfl
  · unfold cellM
    rw [S2Proofs.C06.containsPointQuery_contains
      (fun k => S2Proofs.C06Build.toShapeM (shapes[k]!)) _ _ p hyp]
    rw [List.any_map]
    have h1 : (x.shapes.any ((fun c : Contain.ClippedM V3 => Contain.containsBruteForce Contain.exactGeo
        ((fun k => S2Proofs.C06Build.toShapeM (shapes[k]!)) c.shapeID) p) ∘ clippedM shapes)) =
        ((x.shapes.filter fun cl => cbf shapes cl.shapeID p).map (·.shapeID)).any (fun _ => true) := by
      rw [List.any_map, List.any_filter]
      congr 1
      funext cl
      show cbf shapes cl.shapeID p = (cbf shapes cl.shapeID p && true)
      simp
    rw [h1, hrange, List.any_filter]
    simp

end S2Proofs.C06BuildH
