/-
  S2Proofs.C06.PaddedCell — helper lemmas for the PaddedCell integer bookkeeping
  (`S2.PaddedCellM`, model of s2/paddedcell.go).

  * `fromCellID_eq`      : on a level-k cell id, `PaddedCellFromCellID` is (id, k, O, I·2^(30-k), J·2^(30-k))
                           with (I,J,O) the Hilbert prefix state of the id (C12H.prefixState)
  * table lemmas         : `ijToPos`/`posToIJ` are inverse per orientation; entry/exit corner tables
  * `fromParentIJ_fromCellID` : constructor agreement (T1)
  * `entry_first`, `exit_last`, `exit_entry_sibling` : T3 on arbitrary PaddedCell records
  * `chain_level`        : T4 by induction on the level
-/
import S2.PaddedCellM
import S2Proofs.CellIDLemmas
import S2Proofs.CellIDAlgebra
import S2Proofs.CellIDAlgebraChildren
import S2Proofs.CellIDAlgebraSteps
import S2Proofs.C12.HilbertSpec
import Mathlib.Tactic.Ring
open S2 S2.CellID S2.Hilbert S2.PaddedCellM S2Proofs.C12H
namespace S2Proofs.C06PC

theorem sizeIJ_eq (n : Nat) : sizeIJ n = 2 ^ (30 - n) := by
  unfold sizeIJ maxLevel
  rw [Nat.shiftLeft_eq, Nat.one_mul]

/-- `x & -2^m` removes an offset below `2^m` -/
theorem andNeg_clear (I m o : Nat) (ho : o < 2 ^ m) (hm : m ≤ 64) (hlt : I * 2 ^ m + o < 2 ^ 64) :
    andNeg (I * 2 ^ m + o) (2 ^ m) = I * 2 ^ m := by
  unfold andNeg
  rw [and_neg_pow _ _ hlt hm, Nat.add_comm, Nat.add_mul_mod_self_right, Nat.mod_eq_of_lt ho]
  omega

/-- the representative-leaf offset in `faceIJOrientation_cell` is below the cell size -/
theorem off_lt (k O : Nat) (hk : k ≤ 30) :
    (if k = 30 then 0 else if O < 2 then 2 ^ (29 - k) else 2 ^ (29 - k) - 1) < 2 ^ (30 - k) := by
  split
  · exact Nat.two_pow_pos _
  · have h1 : 2 ^ (29 - k) < 2 ^ (30 - k) := Nat.pow_lt_pow_right (by decide) (by omega)
    have h2 := Nat.two_pow_pos (29 - k)
    split <;> omega

theorem mul_pow_lt (I k : Nat) (hk : k ≤ 30) (hI : I < 2 ^ k) : (I + 1) * 2 ^ (30 - k) ≤ 2 ^ 30 := by
  have : (I + 1) * 2 ^ (30 - k) ≤ 2 ^ k * 2 ^ (30 - k) := Nat.mul_le_mul_right _ hI
  rwa [← Nat.pow_add, show k + (30 - k) = 30 by omega] at this

/-- VALUE OF `PaddedCellFromCellID` on every cell of every level -/
theorem fromCellID_eq {x : CellID} {k : Nat} (h : IsCell x k) :
    fromCellID x =
      { id := x, level := k, orientation := (prefixState x k).2.2,
        iLo := (prefixState x k).1 * 2 ^ (30 - k), jLo := (prefixState x k).2.1 * 2 ^ (30 - k) } := by
  have hk := h.k_le
  unfold fromCellID
  rw [h.isFace_eq]
  by_cases hk0 : k = 0
  · subst hk0
    simp [prefixState_zero]
  · simp only [hk0, decide_false, Bool.false_eq_true, ↓reduceIte]
    rw [faceIJOrientation_cell h, h.level_eq]
    simp only [sizeIJ_eq]
    obtain ⟨hI, hJ, _⟩ := prefixState_bounds x k
    have ho := off_lt k (prefixState x k).2.2 hk
    have h1 := mul_pow_lt _ k hk hI
    have h2 := mul_pow_lt _ k hk hJ
    rw [andNeg_clear _ _ _ ho (by omega) (by rw [Nat.add_mul] at h1; omega),
        andNeg_clear _ _ _ ho (by omega) (by rw [Nat.add_mul] at h2; omega)]

theorem fromCellID_orientation_lt {x : CellID} {k : Nat} (h : IsCell x k) :
    (fromCellID x).orientation < 4 := by
  rw [fromCellID_eq h]; exact (prefixState_bounds x k).2.2

theorem fromCellID_level {x : CellID} {k : Nat} (h : IsCell x k) : (fromCellID x).level = k := by
  rw [fromCellID_eq h]

theorem fromCellID_id (x : CellID) : (fromCellID x).id = x := by
  unfold fromCellID; split <;> rfl

/-! ### the 4×4 tables -/

theorem ijToPos_lt : ∀ o < 4, ∀ q < 4, ijToPos[o]![q]! < 4 := by decide
theorem posToIJ_lt : ∀ o < 4, ∀ q < 4, posToIJ[o]![q]! < 4 := by decide
theorem posToIJ_ijToPos : ∀ o < 4, ∀ q < 4, posToIJ[o]![ijToPos[o]![q]!]! = q := by decide
theorem ijToPos_posToIJ : ∀ o < 4, ∀ q < 4, ijToPos[o]![posToIJ[o]![q]!]! = q := by decide
theorem posToOrientation_lt : ∀ q < 4, posToOrientation[q]! < 4 := by decide

theorem split_ij (q : Nat) (hq : q < 4) : q >>> 1 < 2 ∧ q &&& 1 < 2 ∧ 2 * (q >>> 1) + (q &&& 1) = q := by
  interval_cases q <;> decide

theorem join_ij (i j : Nat) (hi : i < 2) (hj : j < 2) :
    (2 * i + j) >>> 1 = i ∧ (2 * i + j) &&& 1 = j ∧ 2 * i + j < 4 := by
  interval_cases i <;> interval_cases j <;> decide

/-! ### T1: constructor agreement -/

theorem fromParentIJ_fromCellID {p : CellID} {k i j : Nat} (h : IsCell p k) (hk : k < 30)
    (hi : i < 2) (hj : j < 2) :
    fromParentIJ (fromCellID p) i j =
      fromCellID (child p (ijToPos[(fromCellID p).orientation]![2 * i + j]!)) := by
  obtain ⟨e1, e2, hq⟩ := join_ij i j hi hj
  have hO := (prefixState_bounds p k).2.2
  rw [fromCellID_eq h]
  simp only
  generalize hpos : ijToPos[(prefixState p k).2.2]![2 * i + j]! = pos
  have hp4 : pos < 4 := by rw [← hpos]; exact ijToPos_lt _ hO _ hq
  have hinv : posToIJ[(prefixState p k).2.2]![pos]! = 2 * i + j := by
    rw [← hpos]; exact posToIJ_ijToPos _ hO _ hq
  rw [fromCellID_eq (h.child_isCell hk hp4), prefixState_child h hk hp4]
  unfold fromParentIJ stepSpec
  simp only [hpos, hinv, e1, e2, sizeIJ_eq]
  have e30 : 30 - k = (30 - (k + 1)) + 1 := by omega
  congr 1
  · rw [e30, Nat.pow_succ]; ring
  · rw [e30, Nat.pow_succ]; ring

/-- the same in traversal-position form: `ChildIJ(pos)` then `FromParentIJ` gives child `pos` -/
theorem childAtPos_fromCellID {p : CellID} {k pos : Nat} (h : IsCell p k) (hk : k < 30) (hp : pos < 4) :
    childAtPos (fromCellID p) pos = fromCellID (child p pos) := by
  have hO := fromCellID_orientation_lt h
  unfold childAtPos childIJ
  simp only
  obtain ⟨h1, h2, h3⟩ := split_ij _ (posToIJ_lt _ hO _ hp)
  rw [fromParentIJ_fromCellID h hk h1 h2, h3, ijToPos_posToIJ _ hO _ hp]

/-! ### T3: entry / exit corners, on arbitrary records -/

theorem pow_split (l : Nat) (hl : l < 30) : 2 ^ (30 - l) = 2 * 2 ^ (30 - (l + 1)) := by
  rw [show 30 - l = (30 - (l + 1)) + 1 by omega, Nat.pow_succ]; ring

theorem entry_first (P : PaddedCell) (ho : P.orientation < 4) (hl : P.level < 30) :
    entryIJ (childAtPos P 0) = entryIJ P := by
  obtain ⟨id, l, o, a, b⟩ := P
  simp only at ho hl
  have e := pow_split l hl
  have e2 : 2 ^ (30 - (l + 1)) = 2 ^ (29 - l) := by congr 1; omega
  interval_cases o <;>
    simp [childAtPos, fromParentIJ, childIJ, entryIJ, posToIJ, ijToPos, posToOrientation, invertMask,
      sizeIJ_eq] <;> omega

theorem exit_last (P : PaddedCell) (ho : P.orientation < 4) (hl : P.level < 30) :
    exitIJ (childAtPos P 3) = exitIJ P := by
  obtain ⟨id, l, o, a, b⟩ := P
  simp only at ho hl
  have e := pow_split l hl
  have e2 : 2 ^ (30 - (l + 1)) = 2 ^ (29 - l) := by congr 1; omega
  interval_cases o <;>
    simp [childAtPos, fromParentIJ, childIJ, exitIJ, posToIJ, ijToPos, posToOrientation, invertMask, swapMask,
      sizeIJ_eq] <;> omega

theorem exit_entry_sibling (P : PaddedCell) (t : Nat) (ho : P.orientation < 4) (ht : t < 3) :
    exitIJ (childAtPos P t) = entryIJ (childAtPos P (t + 1)) := by
  obtain ⟨id, l, o, a, b⟩ := P
  simp only at ho
  interval_cases o <;> interval_cases t <;>
    simp [childAtPos, fromParentIJ, childIJ, exitIJ, entryIJ, posToIJ, ijToPos, posToOrientation, invertMask,
      swapMask, sizeIJ_eq]

/-! ### T4: chaining along the curve, by induction on the level -/

/-- decomposition of a level-(k+1) cell as a child of its parent -/
theorem child_parent {c : CellID} {k : Nat} (h : IsCell c (k + 1)) :
    child (parent c k) (childPosition c (k + 1)) = c ∧ childPosition c (k + 1) < 4 := by
  have h1 := h.child_childPosition (by omega)
  rw [h.immediateParent_eq (by omega)] at h1
  simp only [Nat.add_sub_cancel] at h1
  refine ⟨h1, ?_⟩
  rw [childPosition_eq _ _ h.k_le]
  exact Nat.mod_lt _ (by omega)

/-- the successor of a last child is the first child of the parent's successor -/
theorem next_last_child {c : CellID} {k : Nat} (h : IsCell c (k + 1)) (hd : childPosition c (k + 1) = 3) :
    childPosition (next c) (k + 1) = 0 ∧ parent (next c) k = next (parent c k) := by
  have hk := h.k_le
  have hp : IsCell (parent c k) k := h.parent_isCell (by omega)
  obtain ⟨hn, _⟩ := h.next_low
  obtain ⟨hpn, _⟩ := hp.next_low
  rw [childPosition_eq _ _ hk] at hd
  have hlt := h.face_lt
  have hlow := h.low
  refine ⟨?_, ?_⟩
  · rw [childPosition_eq _ _ hk, hn]
    have hk' : k ≤ 29 := by omega
    clear hp hpn
    interval_cases k <;> cell_omega
  · apply UInt64.toNat_inj.mp
    rw [hpn, parent_toNat _ k (by omega), parent_toNat _ k (by omega), hn]
    have hk' : k ≤ 29 := by omega
    clear hp hpn
    interval_cases k <;> cell_omega

theorem face_next_face {c : CellID} (h : IsCell c 0) : face (next c) ≠ face c := by
  obtain ⟨hn, _⟩ := h.next_low
  rw [face_toNat, face_toNat, hn]
  have := h.face_lt
  cell_omega

/-- T4 at level `k` -/
theorem chain_level : ∀ (k : Nat) (c c' : CellID), IsCell c k → IsCell c' k → c' = next c →
    face c' = face c → exitIJ (fromCellID c) = entryIJ (fromCellID c') := by
  intro k
  induction k with
  | zero =>
    intro c c' h _ e hf
    rw [e] at hf
    exact absurd hf (face_next_face h)
  | succ k ih =>
    intro c c' h h' e hf
    have hk : k < 30 := by have := h.k_le; omega
    have hp : IsCell (parent c k) k := h.parent_isCell (by omega)
    obtain ⟨hc, hd⟩ := child_parent h
    have hO := fromCellID_orientation_lt hp
    have hL := fromCellID_level hp
    by_cases hd3 : childPosition c (k + 1) < 3
    · -- next sibling
      have e2 : c' = child (parent c k) (childPosition c (k + 1) + 1) := by
        rw [e, ← hp.next_child hk hd3, hc]
      rw [e2]
      conv_lhs => rw [← hc]
      rw [← childAtPos_fromCellID hp hk hd, ← childAtPos_fromCellID hp hk (by omega)]
      exact exit_entry_sibling _ _ hO hd3
    · -- last child → first child of the next parent
      have hd3' : childPosition c (k + 1) = 3 := by omega
      obtain ⟨hz, hpp⟩ := next_last_child h hd3'
      rw [← e] at hz hpp
      have hp' : IsCell (parent c' k) k := h'.parent_isCell (by omega)
      obtain ⟨hc', _⟩ := child_parent h'
      have hO' := fromCellID_orientation_lt hp'
      have hL' := fromCellID_level hp'
      have hface : face (parent c' k) = face (parent c k) := by
        rw [h'.parent_face (by omega), h.parent_face (by omega), hf]
      have key := ih _ _ hp hp' hpp hface
      rw [hd3'] at hc
      rw [hz] at hc'
      conv_lhs => rw [← hc]
      conv_rhs => rw [← hc']
      rw [← childAtPos_fromCellID hp hk (by omega), ← childAtPos_fromCellID hp' hk (by omega),
        exit_last _ hO (by omega), entry_first _ hO' (by omega)]
      exact key

/-! ### the entry vertex only depends on `rangeMin` (first-descendant chains) -/

theorem contains_of_rangeMin_eq {a b : CellID} {k j : Nat} (ha : IsCell a k) (hb : IsCell b j) (hkj : k ≤ j)
    (h : rangeMin a = rangeMin b) : parent b k = a := by
  have hh := congrArg UInt64.toNat h
  have ra := ha.rangeMin_le
  have rb := hb.rangeMin_le
  rcases ha.nested_or_disjoint hb with h1 | h1 | h1 | h1
  · exact ((ha.contains_iff_parent hb).mp h1).2
  · obtain ⟨hjk, e⟩ := (hb.contains_iff_parent ha).mp h1
    have : j = k := by omega
    subst this
    rw [ha.parent_self_id] at e
    rw [← e]; exact ha.parent_self_id
  · omega
  · omega

theorem entry_of_rangeMin_eq (n : Nat) : ∀ (k : Nat) (a b : CellID), IsCell a k → IsCell b (k + n) →
    rangeMin a = rangeMin b → entryIJ (fromCellID a) = entryIJ (fromCellID b) := by
  induction n with
  | zero =>
    intro k a b ha hb h
    rw [ha.eq_of_rangeMin_eq hb h]
  | succ n ih =>
    intro k a b ha hb h
    have hk30 : k + n < 30 := by have := hb.k_le; omega
    have hb' : IsCell (parent b (k + n)) (k + n) := hb.parent_isCell (by omega)
    obtain ⟨hc, hd⟩ := child_parent (k := k + n) hb
    -- the parent of b is still inside a and still starts where a starts
    have e1 : parent b k = a := contains_of_rangeMin_eq ha hb (by omega) h
    have e2 : parent (parent b (k + n)) k = a := by
      rw [S2Proofs.parent_parent b k (k + n) (by omega) (by omega)]; exact e1
    have c1 : contains a (parent b (k + n)) = true :=
      (ha.contains_iff_parent hb').mpr ⟨by omega, e2⟩
    have c2 : contains (parent b (k + n)) b = true :=
      (hb'.contains_iff_parent hb).mpr ⟨by omega, rfl⟩
    have hmin : rangeMin (parent b (k + n)) = rangeMin a := by
      have hh := congrArg UInt64.toNat h
      have q1 := ((ha.contains_iff_range hb').mp c1)
      have q2 := ((hb'.contains_iff_range hb).mp c2)
      apply UInt64.toNat_inj.mp
      omega
    -- so b is the FIRST child of its parent
    have h0 := (hb'.child_ranges hk30).1
    have hb0 : child (parent b (k + n)) 0 = b :=
      (hb'.child_isCell hk30 (by omega)).eq_of_rangeMin_eq hb (by rw [h0, hmin, h])
    rw [← hb0, ← childAtPos_fromCellID hb' hk30 (by omega),
      entry_first _ (fromCellID_orientation_lt hb') (by rw [fromCellID_level hb']; exact hk30)]
    exact ih k a _ ha hb' hmin.symm

end S2Proofs.C06PC
