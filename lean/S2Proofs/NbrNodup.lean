/-
  S2Proofs.NbrNodup — `allNeighbors id lvl` is duplicate free when `id` does not reach a cube corner.
  Part A: each loop iteration is the image of an explicit list of ring positions (`anRow_eq_grid`), so the result
          is `ringPos.map ringE`.
  Part B: the cell at a ring position with at most one coordinate out of range is the grid square `sqOf` (same face,
          or the `nbrSq` table across the side), and `sqOf` is injective.
  Part C: assembly.
-/
import S2Proofs.NbrDup
open S2 S2.CellID S2.Hilbert S2.STUV
set_option linter.unusedVariables false
set_option linter.unusedSimpArgs false
namespace S2Proofs.C01W

/-! ### Part A -/

/-- the cell asked for ring position (p,q): leaf coordinates (i − nbr + p·nbr, j − nbr + q·nbr), flag = "in range" -/
def ringE (f lvl : Nat) (i j nbr : Int) (pq : Nat × Nat) : CellID :=
  parent (cellIDFromFaceIJSame f (i - nbr + (pq.1:Int) * nbr) (j - nbr + (pq.2:Int) * nbr)
    (decide (InR (i - nbr + (pq.1:Int) * nbr) ∧ InR (j - nbr + (pq.2:Int) * nbr)))) lvl

/-- the ring positions produced by loop iteration t -/
def posRow (m t : Nat) : List (Nat × Nat) :=
  (if 1 ≤ t ∧ t ≤ m then [(t, 0), (t, m + 1)] else []) ++ [(0, t), (m + 1, t)]

theorem same_flag_congr (f lvl : Nat) (a b a' b' : Int) (flag : Bool) (ha : a = a') (hb : b = b')
    (hflag : flag = true ↔ (InR a' ∧ InR b')) :
    parent (cellIDFromFaceIJSame f a b flag) lvl =
      parent (cellIDFromFaceIJSame f a' b' (decide (InR a' ∧ InR b'))) lvl := by
  subst ha; subst hb
  congr 2
  cases flag
  · have : ¬ (InR a ∧ InR b) := fun h => by have := hflag.2 h; cases this
    simp [this]
  · have := hflag.1 rfl
    simp [this]

/-- one loop iteration as the image of its ring positions -/
theorem anRow_eq_grid (f lvl : Nat) (i j S nbr : Int) (m t : Nat) (hnbr : 0 < nbr) (hSm : S = (m:Int) * nbr) (hm : 1 ≤ m)
    (hi0 : 0 ≤ i) (hi1 : i + S ≤ 1073741824) (hj0 : 0 ≤ j) (hj1 : j + S ≤ 1073741824)
    (hia : i = 0 ∨ S ≤ i) (hja : j = 0 ∨ S ≤ j) (ht : t ≤ m + 1) :
    anRow f lvl i j S nbr t = (posRow m t).map (ringE f lvl i j nbr) := by
  have hS : nbr ≤ S := by
    rw [hSm]; have : (1:Int) ≤ m := by omega
    nlinarith
  have mulle : (t:Int) * nbr ≤ S + nbr := by
    rw [hSm]
    have h1 : (t:Int) ≤ (m:Int) + 1 := by omega
    have := Int.mul_le_mul_of_nonneg_right h1 (le_of_lt hnbr)
    rw [Int.add_mul, Int.one_mul] at this
    exact this
  have mulge : 1 ≤ t → nbr ≤ (t:Int) * nbr := by
    intro ht
    have h1 : (1:Int) ≤ (t:Int) := by omega
    have := Int.mul_le_mul_of_nonneg_right h1 (le_of_lt hnbr)
    rw [Int.one_mul] at this
    exact this
  have mullt : t ≤ m → (t:Int) * nbr ≤ S := by
    intro ht
    rw [hSm]
    have h1 : (t:Int) ≤ (m:Int) := by omega
    exact Int.mul_le_mul_of_nonneg_right h1 (le_of_lt hnbr)
  have mul0 : t = 0 → (t:Int) * nbr = 0 := fun h => by rw [h]; simp
  have mulm : t = m + 1 → (t:Int) * nbr = S + nbr := fun h => by rw [h, hSm]; push_cast; ring
  have hc : t = 0 ∨ 1 ≤ t := by omega
  have hc' : t = m + 1 ∨ t ≤ m := by omega
  have hm1 : ((m + 1 : Nat):Int) * nbr = S + nbr := by rw [hSm]; push_cast; ring
  have e0 : ∀ x : Int, x - nbr = x - nbr + ((0:Nat):Int) * nbr := by intro x; simp
  have eS : ∀ x : Int, x + S = x - nbr + ((m + 1 : Nat):Int) * nbr := by intro x; rw [hSm]; push_cast; ring
  have ek : ∀ (x : Int), x + ((t:Int) * nbr - nbr) = x - nbr + (t:Int) * nbr := by intro x; ring
  unfold anRow posRow ringE InR
  simp only []
  by_cases c1 : (t:Int) * nbr - nbr < 0
  · have ht0 : ¬ (1 ≤ t ∧ t ≤ m) := by omega
    simp only [c1, ht0, if_true, if_false, List.nil_append, List.map_cons, List.map_nil]
    congr 1
    · apply same_flag_congr _ _ _ _ _ _ _ (e0 i) (ek j)
      unfold InR; simp only [Bool.and_eq_true, decide_eq_true_eq]; omega
    · congr 1
      apply same_flag_congr _ _ _ _ _ _ _ (eS i) (ek j)
      unfold InR; simp only [Bool.and_eq_true, decide_eq_true_eq]; omega
  · by_cases c2 : (t:Int) * nbr - nbr ≥ S
    · have ht0 : ¬ (1 ≤ t ∧ t ≤ m) := by omega
      simp only [c1, c2, ht0, if_true, if_false, List.nil_append, List.map_cons, List.map_nil]
      congr 1
      · apply same_flag_congr _ _ _ _ _ _ _ (e0 i) (ek j)
        unfold InR; simp only [Bool.and_eq_true, decide_eq_true_eq]; omega
      · congr 1
        apply same_flag_congr _ _ _ _ _ _ _ (eS i) (ek j)
        unfold InR; simp only [Bool.and_eq_true, decide_eq_true_eq]; omega
    · have ht0 : 1 ≤ t ∧ t ≤ m := by omega
      simp only [c1, c2, ht0, and_self, if_true, if_false, List.cons_append, List.nil_append, List.map_cons,
        List.map_nil]
      congr 1
      · apply same_flag_congr _ _ _ _ _ _ _ (ek i) (e0 j)
        unfold InR; simp only [decide_eq_true_eq]; omega
      · congr 1
        · apply same_flag_congr _ _ _ _ _ _ _ (ek i) (eS j)
          unfold InR; simp only [decide_eq_true_eq]; omega
        · congr 1
          · apply same_flag_congr _ _ _ _ _ _ _ (e0 i) (ek j)
            unfold InR; simp only [Bool.true_and, decide_eq_true_eq]; omega
          · congr 1
            apply same_flag_congr _ _ _ _ _ _ _ (eS i) (ek j)
            unfold InR; simp only [Bool.true_and, decide_eq_true_eq]; omega

/-! ### Part B -/

/-- the grid square (face, X, Y) at the ring position with level-`lvl` square coordinates (x1 − 1, y1 − 1),
    x1, y1 ∈ [0, LL+1], at most one of them out of range (0 or LL+1): same face, or the table neighbour across the side -/
def sqOf (f LL x1 y1 : Nat) : Nat × Nat × Nat :=
  if x1 = 0 then nbrSq f 0 (y1 - 1) (LL - 1) 3
  else if x1 = LL + 1 then nbrSq f (LL - 1) (y1 - 1) (LL - 1) 1
  else if y1 = 0 then nbrSq f (x1 - 1) 0 (LL - 1) 0
  else if y1 = LL + 1 then nbrSq f (x1 - 1) (LL - 1) (LL - 1) 2
  else (f, x1 - 1, y1 - 1)

set_option maxHeartbeats 1600000 in
/-- different ring positions (not both coordinates out of range) are different grid squares of the cube -/
theorem sqOf_inj (f LL x1 y1 x2 y2 : Nat) (hf : f < 6) (hLL : 1 ≤ LL)
    (hx1 : x1 ≤ LL + 1) (hy1 : y1 ≤ LL + 1) (hx2 : x2 ≤ LL + 1) (hy2 : y2 ≤ LL + 1)
    (hn1 : ¬ ((x1 = 0 ∨ x1 = LL + 1) ∧ (y1 = 0 ∨ y1 = LL + 1)))
    (hn2 : ¬ ((x2 = 0 ∨ x2 = LL + 1) ∧ (y2 = 0 ∨ y2 = LL + 1)))
    (he : sqOf f LL x1 y1 = sqOf f LL x2 y2) : x1 = x2 ∧ y1 = y2 := by
  unfold sqOf nbrSq at he
  simp only [] at he
  split_ifs at he <;> simp only [Prod.mk.injEq] at he <;> omega

section
variable {L : Nat} (hL : L = 30)
include hL

set_option maxHeartbeats 800000 in
/-- the cell asked for a ring position with at most one coordinate out of range IS the grid square `sqOf` -/
theorem ring_isSq (f lvl : Nat) (hf : f < 6) (hl : lvl ≤ 30) (x1 y1 : Nat) (hx : x1 ≤ 2^lvl + 1) (hy : y1 ≤ 2^lvl + 1)
    (hnc : ¬ ((x1 = 0 ∨ x1 = 2^lvl + 1) ∧ (y1 = 0 ∨ y1 = 2^lvl + 1))) (a b : Int)
    (ha : a = ((x1 * 2^(30-lvl) : Nat) : Int) - ((2^(30-lvl) : Nat) : Int))
    (hb : b = ((y1 * 2^(30-lvl) : Nat) : Int) - ((2^(30-lvl) : Nat) : Int)) :
    IsSq (parent (cellIDFromFaceIJSame f a b (decide (InR a ∧ InR b))) lvl) lvl
      (sqOf f (2^lvl) x1 y1).1 (sqOf f (2^lvl) x1 y1).2.1 (sqOf f (2^lvl) x1 y1).2.2 := by
  have hN0 := Nat.two_pow_pos (30 - lvl)
  have hLL0 := Nat.two_pow_pos lvl
  have hKN := pow_split lvl hl
  have hMN : 1073741824 - 2^(30-lvl) = (2^lvl - 1) * 2^(30-lvl) := by rw [Nat.sub_mul, Nat.one_mul, hKN]
  have hMNd : (1073741824 - 2^(30-lvl)) / 2^(30-lvl) = 2^lvl - 1 := by rw [hMN]; exact Nat.mul_div_cancel _ hN0
  have hNle : 2^(30-lvl) ≤ 1073741824 := by
    calc 2^(30-lvl) ≤ 2^lvl * 2^(30-lvl) := Nat.le_mul_of_pos_left _ hLL0
      _ = 1073741824 := hKN
  -- products
  have prod : ∀ z : Nat, 1 ≤ z → z ≤ 2^lvl →
      (z - 1) * 2^(30-lvl) + 2^(30-lvl) = z * 2^(30-lvl) ∧ z * 2^(30-lvl) ≤ 1073741824 ∧
      (z - 1) * 2^(30-lvl) / 2^(30-lvl) = z - 1 := by
    intro z h1 h2
    refine ⟨?_, ?_, Nat.mul_div_cancel _ hN0⟩
    · rw [Nat.sub_mul, Nat.one_mul]
      have := Nat.le_mul_of_pos_left (2^(30-lvl)) h1
      omega
    · rw [← hKN]; exact Nat.mul_le_mul_right _ h2
  have pz : ∀ z : Nat, z = 0 → z * 2^(30-lvl) = 0 := fun z h => by rw [h, Nat.zero_mul]
  have pm : ∀ z : Nat, z = 2^lvl + 1 → z * 2^(30-lvl) = 1073741824 + 2^(30-lvl) := by
    intro z h; rw [h, Nat.add_mul, Nat.one_mul, hKN]
  have wrapEq : ∀ (a b : Int) (fl : Bool), fl = false →
      cellIDFromFaceIJSame f a b fl = cellIDFromFaceIJWrap f a b := by
    intro a b fl h; unfold cellIDFromFaceIJSame; rw [h]; simp
  unfold sqOf
  by_cases c1 : x1 = 0
  · rw [if_pos c1]
    have hy1 : 1 ≤ y1 ∧ y1 ≤ 2^lvl := by omega
    obtain ⟨q1, q2, q3⟩ := prod y1 hy1.1 hy1.2
    have z := pz x1 c1
    have ea : a = ((0:Nat):Int) - ((2^(30-lvl) : Nat) : Int) := by rw [ha, z]
    have eb : b = (((y1 - 1) * 2^(30-lvl) : Nat) : Int) := by rw [hb]; omega
    have hfl : decide (InR a ∧ InR b) = false := by
      apply decide_eq_false; unfold InR; omega
    rw [wrapEq _ _ _ hfl, ea, eb]
    have := nbr_dir3 hL f 0 ((y1 - 1) * 2^(30-lvl)) lvl hf (by decide) (by omega) hl
    rwa [Nat.zero_div, q3] at this
  · rw [if_neg c1]
    by_cases c2 : x1 = 2^lvl + 1
    · rw [if_pos c2]
      have hy1 : 1 ≤ y1 ∧ y1 ≤ 2^lvl := by omega
      obtain ⟨q1, q2, q3⟩ := prod y1 hy1.1 hy1.2
      have z := pm x1 c2
      have ea : a = ((1073741824 - 2^(30-lvl) : Nat) : Int) + ((2^(30-lvl) : Nat) : Int) := by rw [ha, z]; omega
      have eb : b = (((y1 - 1) * 2^(30-lvl) : Nat) : Int) := by rw [hb]; omega
      have hfl : decide (InR a ∧ InR b) = false := by
        apply decide_eq_false; unfold InR; omega
      rw [wrapEq _ _ _ hfl, ea, eb]
      have := nbr_dir1 hL f (1073741824 - 2^(30-lvl)) ((y1 - 1) * 2^(30-lvl)) lvl hf (by omega) (by omega) hl
      rwa [hMNd, q3] at this
    · rw [if_neg c2]
      have hx1 : 1 ≤ x1 ∧ x1 ≤ 2^lvl := by omega
      obtain ⟨p1, p2, p3⟩ := prod x1 hx1.1 hx1.2
      have ea : a = (((x1 - 1) * 2^(30-lvl) : Nat) : Int) := by rw [ha]; omega
      by_cases c3 : y1 = 0
      · rw [if_pos c3]
        have z := pz y1 c3
        have eb : b = ((0:Nat):Int) - ((2^(30-lvl) : Nat) : Int) := by rw [hb, z]
        have hfl : decide (InR a ∧ InR b) = false := by
          apply decide_eq_false; unfold InR; omega
        rw [wrapEq _ _ _ hfl, ea, eb]
        have := nbr_dir0 hL f ((x1 - 1) * 2^(30-lvl)) 0 lvl hf (by omega) (by decide) hl
        rwa [Nat.zero_div, p3] at this
      · rw [if_neg c3]
        by_cases c4 : y1 = 2^lvl + 1
        · rw [if_pos c4]
          have z := pm y1 c4
          have eb : b = ((1073741824 - 2^(30-lvl) : Nat) : Int) + ((2^(30-lvl) : Nat) : Int) := by rw [hb, z]; omega
          have hfl : decide (InR a ∧ InR b) = false := by
            apply decide_eq_false; unfold InR; omega
          rw [wrapEq _ _ _ hfl, ea, eb]
          have := nbr_dir2 hL f ((x1 - 1) * 2^(30-lvl)) (1073741824 - 2^(30-lvl)) lvl hf (by omega) (by omega) hl
          rwa [hMNd, p3] at this
        · rw [if_neg c4]
          have hy1 : 1 ≤ y1 ∧ y1 ≤ 2^lvl := by omega
          obtain ⟨q1, q2, q3⟩ := prod y1 hy1.1 hy1.2
          have eb : b = (((y1 - 1) * 2^(30-lvl) : Nat) : Int) := by rw [hb]; omega
          have hfl : decide (InR a ∧ InR b) = true := by
            apply decide_eq_true; unfold InR; omega
          have e0 : cellIDFromFaceIJSame f a b (decide (InR a ∧ InR b)) =
              cellIDFromFaceIJ f ((x1 - 1) * 2^(30-lvl)) ((y1 - 1) * 2^(30-lvl)) := by
            unfold cellIDFromFaceIJSame
            rw [hfl, if_pos rfl, ea, eb, Int.toNat_natCast, Int.toNat_natCast]
          rw [e0]
          have := isSq_leaf_parent hL f ((x1 - 1) * 2^(30-lvl)) ((y1 - 1) * 2^(30-lvl)) lvl hf (by omega) (by omega) hl
          rwa [p3, q3] at this

end

/-! ### Part C -/

/-- all ring positions, in the order in which the loop produces them -/
def ringPos (m : Nat) : List (Nat × Nat) := ((List.range (m + 2)).map (posRow m)).flatten

theorem mem_posRow (m t : Nat) (pq : Nat × Nat) (ht : t ≤ m + 1) (h : pq ∈ posRow m t) :
    pq.1 ≤ m + 1 ∧ pq.2 ≤ m + 1 ∧ (pq.1 = 0 ∨ pq.1 = m + 1 ∨ pq.2 = 0 ∨ pq.2 = m + 1) ∧ ringRow m pq.1 pq.2 = t := by
  obtain ⟨p, q⟩ := pq
  unfold posRow at h
  unfold ringRow
  by_cases c : 1 ≤ t ∧ t ≤ m
  · simp only [c, and_self, if_true, List.cons_append, List.nil_append, List.mem_cons, Prod.mk.injEq,
      List.mem_nil_iff, or_false] at h
    rcases h with ⟨h1, h2⟩ | ⟨h1, h2⟩ | ⟨h1, h2⟩ | ⟨h1, h2⟩ <;> dsimp only <;>
      refine ⟨by omega, by omega, by omega, ?_⟩ <;> split <;> omega
  · simp only [c, if_false, List.nil_append, List.mem_cons, Prod.mk.injEq, List.mem_nil_iff, or_false] at h
    rcases h with ⟨h1, h2⟩ | ⟨h1, h2⟩ <;> dsimp only <;>
      refine ⟨by omega, by omega, by omega, ?_⟩ <;> split <;> omega

theorem posRow_nodup (m t : Nat) : (posRow m t).Nodup := by
  unfold posRow
  by_cases c : 1 ≤ t ∧ t ≤ m
  · simp only [c, and_self, if_true, List.cons_append, List.nil_append, List.nodup_cons, List.mem_cons, Prod.mk.injEq,
      List.mem_nil_iff, or_false, List.not_mem_nil, not_false_eq_true, List.nodup_nil, and_true, not_or]
    omega
  · simp only [c, if_false, List.nil_append, List.nodup_cons, List.mem_cons, Prod.mk.injEq,
      List.mem_nil_iff, or_false, List.not_mem_nil, not_false_eq_true, List.nodup_nil, and_true, not_or]
    omega

theorem mem_ringPos (m : Nat) (pq : Nat × Nat) (h : pq ∈ ringPos m) :
    pq.1 ≤ m + 1 ∧ pq.2 ≤ m + 1 ∧ (pq.1 = 0 ∨ pq.1 = m + 1 ∨ pq.2 = 0 ∨ pq.2 = m + 1) := by
  unfold ringPos at h
  obtain ⟨l, hl, hpq⟩ := List.mem_flatten.mp h
  obtain ⟨t, ht, rfl⟩ := List.mem_map.mp hl
  rw [List.mem_range] at ht
  obtain ⟨a, b, c, _⟩ := mem_posRow m t pq (by omega) hpq
  exact ⟨a, b, c⟩

theorem ringPos_nodup (m : Nat) : (ringPos m).Nodup := by
  unfold ringPos List.Nodup
  rw [List.pairwise_flatten, List.pairwise_map]
  constructor
  · intro l hl
    obtain ⟨t, _, rfl⟩ := List.mem_map.mp hl
    exact posRow_nodup m t
  · apply List.Pairwise.imp_of_mem _ (List.pairwise_lt_range (n := m + 2))
    intro t t' ht ht' hlt x hx y hy hxy
    rw [List.mem_range] at ht ht'
    obtain ⟨_, _, _, r1⟩ := mem_posRow m t x (by omega) hx
    obtain ⟨_, _, _, r2⟩ := mem_posRow m t' y (by omega) hy
    rw [hxy] at r1
    omega

section
variable {L : Nat} (hL : L = 30)
include hL

/-- `allNeighbors` is the image of the list of ring positions -/
theorem allNeighbors_pos (id : CellID) (K : Nat) (h : IsCell id K) (lvl : Nat) (h1 : K ≤ lvl) (h2 : lvl ≤ 30) :
    allNeighbors id lvl =
      (ringPos (2^(lvl-K))).map (ringE (face id) lvl ((sqI id K * 2^(30-K) : Nat) : Int)
        ((sqJ id K * 2^(30-K) : Nat) : Int) ((2^(30-lvl) : Nat) : Int)) := by
  have hK := h.k_le
  obtain ⟨bI, bJ⟩ := sq_le hL id K h
  have hpowK : (2:Nat)^K * 2^(30 - K) = 1073741824 := pow_split K hK
  have hSN : (2:Nat)^(30 - K) = 2^(lvl - K) * 2^(30 - lvl) := by
    rw [← Nat.pow_add]; congr 1; omega
  have hN0 : 0 < (2:Nat)^(30 - lvl) := Nat.two_pow_pos _
  have hm0 : 0 < (2:Nat)^(lvl - K) := Nat.two_pow_pos _
  have hKK0 : 0 < (2:Nat)^K := Nat.two_pow_pos _
  rw [allNeighbors_rows hL id K h lvl h1 h2]
  unfold ringPos
  rw [List.map_flatten, List.map_map]
  congr 1
  apply List.map_congr_left
  intro t ht
  rw [List.mem_range] at ht
  generalize sqI id K = I at *
  generalize sqJ id K = J at *
  generalize hSdef : (2:Nat)^(30 - K) = S at *
  generalize hmdef : (2:Nat)^(lvl - K) = m at *
  generalize hNdef : (2:Nat)^(30 - lvl) = N at *
  generalize (2:Nat)^K = KK at *
  have hS0 : 0 < S := by rw [hSN]; exact Nat.mul_pos hm0 hN0
  have iS2 : I * S + S ≤ 1073741824 := by
    calc I * S + S = (I + 1) * S := by rw [Nat.add_mul, Nat.one_mul]
      _ ≤ KK * S := Nat.mul_le_mul_right _ (by omega)
      _ = 1073741824 := hpowK
  have jS2 : J * S + S ≤ 1073741824 := by
    calc J * S + S = (J + 1) * S := by rw [Nat.add_mul, Nat.one_mul]
      _ ≤ KK * S := Nat.mul_le_mul_right _ (by omega)
      _ = 1073741824 := hpowK
  have ia : I * S = 0 ∨ S ≤ I * S := by
    rcases Nat.eq_zero_or_pos I with h0 | h0
    · left; rw [h0, Nat.zero_mul]
    · right; exact Nat.le_mul_of_pos_left S h0
  have ja : J * S = 0 ∨ S ≤ J * S := by
    rcases Nat.eq_zero_or_pos J with h0 | h0
    · left; rw [h0, Nat.zero_mul]
    · right; exact Nat.le_mul_of_pos_left S h0
  have hSmI : (S:Int) = (m:Int) * (N:Int) := by rw [hSN]; push_cast; rfl
  exact anRow_eq_grid (face id) lvl ((I * S : Nat) : Int) ((J * S : Nat) : Int) (S:Int) (N:Int) m t
    (by exact_mod_cast hN0) hSmI (by omega) (by omega) (by omega) (by omega) (by omega) (by omega) (by omega) (by omega)

set_option maxHeartbeats 800000 in
/-- a cell whose square is NOT a corner square of its face: the list `allNeighbors id lvl` is duplicate free -/
theorem allNeighbors_nodup_all (id : CellID) (K : Nat) (h : IsCell id K) (lvl : Nat) (h1 : K ≤ lvl) (h2 : lvl ≤ 30)
    (hnc : ¬ ((sqI id K = 0 ∨ sqI id K = 2^K - 1) ∧ (sqJ id K = 0 ∨ sqJ id K = 2^K - 1))) :
    (allNeighbors id lvl).Nodup := by
  have hK := h.k_le
  have hf := h.face_lt6
  obtain ⟨bI, bJ⟩ := sq_le hL id K h
  have hSN : (2:Nat)^(30 - K) = 2^(lvl - K) * 2^(30 - lvl) := by
    rw [← Nat.pow_add]; congr 1; omega
  have hLLm : (2:Nat)^lvl = 2^K * 2^(lvl - K) := by
    rw [← Nat.pow_add]; congr 1; omega
  have hN0 : 0 < (2:Nat)^(30 - lvl) := Nat.two_pow_pos _
  have hm0 : 0 < (2:Nat)^(lvl - K) := Nat.two_pow_pos _
  have hKK0 : 0 < (2:Nat)^K := Nat.two_pow_pos _
  have hLL0 : 0 < (2:Nat)^lvl := Nat.two_pow_pos _
  rw [allNeighbors_pos hL id K h lvl h1 h2]
  unfold List.Nodup
  rw [List.pairwise_map]
  apply List.Pairwise.imp_of_mem _ (ringPos_nodup (2^(lvl-K)))
  intro x y hx hy hne heq
  apply hne
  obtain ⟨px, qx⟩ := x
  obtain ⟨py, qy⟩ := y
  obtain ⟨x1, x2, x3⟩ := mem_ringPos _ _ hx
  obtain ⟨y1, y2, y3⟩ := mem_ringPos _ _ hy
  simp only at x1 x2 x3 y1 y2 y3
  -- the two cells as grid squares
  have sq : ∀ p q : Nat, p ≤ 2^(lvl-K) + 1 → q ≤ 2^(lvl-K) + 1 →
      (sqI id K * 2^(lvl-K) + p ≤ 2^lvl + 1 ∧ sqJ id K * 2^(lvl-K) + q ≤ 2^lvl + 1 ∧
       ¬ ((sqI id K * 2^(lvl-K) + p = 0 ∨ sqI id K * 2^(lvl-K) + p = 2^lvl + 1) ∧
          (sqJ id K * 2^(lvl-K) + q = 0 ∨ sqJ id K * 2^(lvl-K) + q = 2^lvl + 1))) ∧
      IsSq (ringE (face id) lvl ((sqI id K * 2^(30-K) : Nat) : Int) ((sqJ id K * 2^(30-K) : Nat) : Int)
          ((2^(30-lvl) : Nat) : Int) (p, q)) lvl
        (sqOf (face id) (2^lvl) (sqI id K * 2^(lvl-K) + p) (sqJ id K * 2^(lvl-K) + q)).1
        (sqOf (face id) (2^lvl) (sqI id K * 2^(lvl-K) + p) (sqJ id K * 2^(lvl-K) + q)).2.1
        (sqOf (face id) (2^lvl) (sqI id K * 2^(lvl-K) + p) (sqJ id K * 2^(lvl-K) + q)).2.2 := by
    intro p q hp hq
    have key : ∀ Z : Nat, Z ≤ 2^K - 1 →
        Z * 2^(lvl-K) + 2^(lvl-K) ≤ 2^lvl ∧ (Z * 2^(lvl-K) = 0 → Z = 0) ∧
        (Z + 2 ≤ 2^K → Z * 2^(lvl-K) + 2 * 2^(lvl-K) ≤ 2^lvl) := by
      intro Z hZ
      refine ⟨?_, ?_, ?_⟩
      · calc Z * 2^(lvl-K) + 2^(lvl-K) = (Z + 1) * 2^(lvl-K) := by rw [Nat.add_mul, Nat.one_mul]
          _ ≤ 2^K * 2^(lvl-K) := Nat.mul_le_mul_right _ (by omega)
          _ = 2^lvl := hLLm.symm
      · intro hz
        rcases Nat.mul_eq_zero.mp hz with h0 | h0
        · exact h0
        · omega
      · intro hz
        calc Z * 2^(lvl-K) + 2 * 2^(lvl-K) = (Z + 2) * 2^(lvl-K) := by rw [Nat.add_mul]
          _ ≤ 2^K * 2^(lvl-K) := Nat.mul_le_mul_right _ hz
          _ = 2^lvl := hLLm.symm
    obtain ⟨i1, i2, i3⟩ := key (sqI id K) bI
    obtain ⟨j1, j2, j3⟩ := key (sqJ id K) bJ
    have bnd : (sqI id K * 2^(lvl-K) + p ≤ 2^lvl + 1 ∧ sqJ id K * 2^(lvl-K) + q ≤ 2^lvl + 1 ∧
       ¬ ((sqI id K * 2^(lvl-K) + p = 0 ∨ sqI id K * 2^(lvl-K) + p = 2^lvl + 1) ∧
          (sqJ id K * 2^(lvl-K) + q = 0 ∨ sqJ id K * 2^(lvl-K) + q = 2^lvl + 1))) := by
      refine ⟨by omega, by omega, ?_⟩
      intro hc
      apply hnc
      constructor
      · rcases hc.1 with e | e
        · left; exact i2 (by omega)
        · right
          by_contra hcon
          have := i3 (by omega)
          omega
      · rcases hc.2 with e | e
        · left; exact j2 (by omega)
        · right
          by_contra hcon
          have := j3 (by omega)
          omega
    refine ⟨bnd, ?_⟩
    unfold ringE
    apply ring_isSq hL (face id) lvl hf h2 _ _ bnd.1 bnd.2.1 bnd.2.2
    · simp only []; rw [hSN]; push_cast; ring
    · simp only []; rw [hSN]; push_cast; ring
  obtain ⟨bx, sx⟩ := sq px qx x1 x2
  obtain ⟨by', sy⟩ := sq py qy y1 y2
  rw [heq] at sx
  obtain ⟨_, a1, a2, a3⟩ := sx
  obtain ⟨_, b1, b2, b3⟩ := sy
  have he : sqOf (face id) (2^lvl) (sqI id K * 2^(lvl-K) + px) (sqJ id K * 2^(lvl-K) + qx) =
      sqOf (face id) (2^lvl) (sqI id K * 2^(lvl-K) + py) (sqJ id K * 2^(lvl-K) + qy) := by
    apply Prod.ext
    · rw [← a1, ← b1]
    · apply Prod.ext
      · rw [← a2, ← b2]
      · rw [← a3, ← b3]
  obtain ⟨e1, e2⟩ := sqOf_inj (face id) (2^lvl) _ _ _ _ hf hLL0 bx.1 bx.2.1 by'.1 by'.2.1 bx.2.2 by'.2.2 he
  have : px = py := by omega
  have : qx = qy := by omega
  subst_vars; rfl

end
end S2Proofs.C01W
