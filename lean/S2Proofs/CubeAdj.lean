/-
  S2Proofs.CubeAdj — cells as exact integer boxes on the cube `[-2^30, 2^30]^3` and the incidence
  predicate used by the oracle's neighbour judge (`Oracle/C01.lean`, `cubeBox` / `boxMeet`; the
  definitions here are the same terms, see `S2Proofs/CubeAdjOracle.lean`).

  A level-k cell of face f with square coordinates (I, J) is the axis-parallel rectangle
  `faceBox f [2·I·s − 2^30, 2·(I+1)·s − 2^30] [2·J·s − 2^30, 2·(J+1)·s − 2^30]`, `s = 2^(30−k)`, where `faceBox`
  is the integer form of `faceUVToXYZ` (any monotone st→uv map gives the same incidences).
  No floats in this file.
-/
import S2Proofs.HilbertNeighbors
open S2 S2.CellID S2.Hilbert S2.STUV
namespace S2Proofs.C01W

abbrev Box := (Int × Int) × (Int × Int) × (Int × Int)

/-- integer form of `faceUVToXYZ` on intervals: the rectangle `u × v` of face `f` as a box of the cube -/
def faceBox (f : Nat) (u v : Int × Int) : Box :=
  let one : Int := 1073741824
  let ng (p : Int × Int) : Int × Int := (-p.2, -p.1)
  match f with
  | 0 => ((one, one), u, v)
  | 1 => (ng u, (one, one), v)
  | 2 => (ng u, ng v, (one, one))
  | 3 => ((-one, -one), ng v, ng u)
  | 4 => (v, (-one, -one), ng u)
  | _ => (v, u, (-one, -one))

/-- a cell as an integer box on the cube (the oracle's `cubeBox`) -/
def cubeBox (ci : CellID) : Box :=
  let (f, i, j, _) := faceIJOrientation ci
  let sz := sizeIJ (level ci)
  let ilo : Int := 2 * ((i - i % sz : Nat) : Int) - 1073741824
  let ihi : Int := ilo + 2 * sz
  let jlo : Int := 2 * ((j - j % sz : Nat) : Int) - 1073741824
  let jhi : Int := jlo + 2 * sz
  let one : Int := 1073741824
  let u := (ilo, ihi)
  let v := (jlo, jhi)
  let ng (p : Int × Int) : Int × Int := (-p.2, -p.1)
  match f with
  | 0 => ((one, one), u, v)
  | 1 => (ng u, (one, one), v)
  | 2 => (ng u, ng v, (one, one))
  | 3 => ((-one, -one), ng v, ng u)
  | 4 => (v, (-one, -one), ng u)
  | _ => (v, u, (-one, -one))

/-- one axis: `none` = disjoint, `some 1` = overlap of positive length, `some 0` = a single point -/
def axMeet (p q : Int × Int) : Option Nat :=
  let lo := max p.1 q.1; let hi := min p.2 q.2
  if lo > hi then none else some (if lo < hi then 1 else 0)

/-- dimension of the intersection of two boxes (the oracle's `boxMeet`): none = disjoint,
    some d = number of axes with positive-length overlap -/
def boxMeet (a b : Box) : Option Nat :=
  match axMeet a.1 b.1, axMeet a.2.1 b.2.1, axMeet a.2.2 b.2.2 with
  | some x, some y, some z => some (x + y + z)
  | _, _, _ => none

/-- the two cells meet in (at least) a segment of positive length; for two disjoint cells of the same
    level that is: they share an edge -/
def SharesEdge (a b : CellID) : Prop := ∃ d, boxMeet (cubeBox a) (cubeBox b) = some d ∧ 1 ≤ d

/-- the two cells have a common point on the cube -/
def Touches (a b : CellID) : Prop := ∃ d, boxMeet (cubeBox a) (cubeBox b) = some d

instance (a b : CellID) : Decidable (SharesEdge a b) := by
  unfold SharesEdge
  cases h : boxMeet (cubeBox a) (cubeBox b) with
  | none => exact isFalse (by rintro ⟨d, hd, _⟩; cases hd)
  | some d =>
    by_cases h1 : 1 ≤ d
    · exact isTrue ⟨d, rfl, h1⟩
    · exact isFalse (by rintro ⟨d', hd, h2⟩; cases hd; exact h1 h2)

theorem axMeet_point_left (a lo hi : Int) (h1 : lo ≤ a) (h2 : a ≤ hi) : axMeet (a, a) (lo, hi) = some 0 := by
  unfold axMeet
  simp only
  rw [if_neg (by omega), if_neg (by omega)]

theorem axMeet_point_right (a lo hi : Int) (h1 : lo ≤ a) (h2 : a ≤ hi) : axMeet (lo, hi) (a, a) = some 0 := by
  unfold axMeet
  simp only
  rw [if_neg (by omega), if_neg (by omega)]

theorem axMeet_overlap (a b c d : Int) (h1 : max a c < min b d) : axMeet (a, b) (c, d) = some 1 := by
  unfold axMeet
  simp only
  rw [if_neg (by omega), if_pos h1]

theorem axMeet_touch (a b c d : Int) (h1 : max a c = min b d) : axMeet (a, b) (c, d) = some 0 := by
  unfold axMeet
  simp only
  rw [if_neg (by omega), if_neg (by omega)]

theorem cubeBox_eq_faceBox (ci : CellID) :
    cubeBox ci = faceBox (faceIJOrientation ci).1
      (2 * (((faceIJOrientation ci).2.1 - (faceIJOrientation ci).2.1 % sizeIJ (level ci) : Nat) : Int) - 1073741824,
       2 * (((faceIJOrientation ci).2.1 - (faceIJOrientation ci).2.1 % sizeIJ (level ci) : Nat) : Int) - 1073741824
         + 2 * (sizeIJ (level ci) : Nat))
      (2 * (((faceIJOrientation ci).2.2.1 - (faceIJOrientation ci).2.2.1 % sizeIJ (level ci) : Nat) : Int) - 1073741824,
       2 * (((faceIJOrientation ci).2.2.1 - (faceIJOrientation ci).2.2.1 % sizeIJ (level ci) : Nat) : Int) - 1073741824
         + 2 * (sizeIJ (level ci) : Nat)) := rfl

/-- the lower corner of the square of a cell, in cube units: `2·I·s − 2^30` -/
def cubeLo (I s : Nat) : Int := 2 * ((I * s : Nat) : Int) - 1073741824

section
variable {L : Nat} (hL : L = 30)
include hL

/-- the box of a level-k cell from its face and square coordinates -/
theorem cubeBox_cell (ci : CellID) (k : Nat) (h : IsCell ci k) :
    cubeBox ci = faceBox (face ci)
      (cubeLo (sqI ci k) (2^(30-k)), cubeLo (sqI ci k) (2^(30-k)) + 2 * ((2^(30-k) : Nat) : Int))
      (cubeLo (sqJ ci k) (2^(30-k)), cubeLo (sqJ ci k) (2^(30-k)) + 2 * ((2^(30-k) : Nat) : Int)) := by
  obtain ⟨g1, _, _, _, _⟩ := faceIJOrientation_leaf_in_cell hL ci k h
  rw [cubeBox_eq_faceBox, h.level_eq, sizeIJ_eq, g1]
  unfold cubeLo sqI sqJ
  have e : ∀ x s : Nat, x - x % s = x / s * s := by
    intro x s
    have := Nat.div_add_mod x s
    rw [Nat.mul_comm] at this
    omega
  rw [e, e]

end

end S2Proofs.C01W
