/-
  S2Proofs.NbrCompleteAll — COMPLETENESS of `allNeighbors` for ALL valid cells (interior, on a face boundary, at a
  cube corner): every level-`lvl` cell that touches the cell (exact cube boxes meet) and is not inside it is reported.
  Part 1 (`anRow_has_grid`, `ring_has`): the loop of `allNeighbors` visits every position (p,q) of the ring of width one
  grid step around the cell's square, 0 ≤ p,q ≤ m+1, and asks `cellIDFromFaceIJSame` with a flag that says exactly
  "both coordinates are in range".
  Part 2 (`allNeighbors_complete_all`): a touching cell of the same face sits at an in-range ring position; a touching
  cell of another face is the table neighbour (`nbrSq`, through `fold_inv`) of a ring position with exactly ONE
  coordinate out of range, which the cross-face wrap (`nbr_dir0..3`, soft-float, proved) maps onto it.
  The ring positions with BOTH coordinates out of range (cube corners) are never needed for completeness: they only
  produce a duplicate of a side neighbour (`wrapIJ_corner_reduce_lo/hi`).
-/
import S2Proofs.FoldInv
import S2Proofs.NbrTouch
open S2 S2.CellID S2.Hilbert S2.STUV
set_option linter.unusedVariables false
set_option linter.unusedSimpArgs false
namespace S2Proofs.C01W

/-- the loop iteration that produces the ring position (p,q): the left / right columns (p = 0, m+1) are produced by
    iteration q, the rest of the bottom / top rows by iteration p -/
def ringRow (m p q : Nat) : Nat := if p = 0 ∨ p = m + 1 then q else p

/-- every border position (p,q) of the ring is produced by loop iteration `ringRow m p q`, with a flag = "in range" -/
theorem anRow_has_grid_t (f lvl : Nat) (i j S nbr : Int) (m : Nat) (hnbr : 0 < nbr) (hSm : S = (m:Int) * nbr) (hm : 1 ≤ m)
    (hi0 : 0 ≤ i) (hi1 : i + S ≤ 1073741824) (hj0 : 0 ≤ j) (hj1 : j + S ≤ 1073741824)
    (hia : i = 0 ∨ S ≤ i) (hja : j = 0 ∨ S ≤ j) (p q : Nat) (hp : p ≤ m + 1) (hq : q ≤ m + 1)
    (hb : p = 0 ∨ p = m + 1 ∨ q = 0 ∨ q = m + 1) (flag : Bool)
    (hflag : flag = true ↔ (InR (i - nbr + (p:Int) * nbr) ∧ InR (j - nbr + (q:Int) * nbr))) :
    ringRow m p q ≤ m + 1 ∧
      parent (cellIDFromFaceIJSame f (i - nbr + (p:Int) * nbr) (j - nbr + (q:Int) * nbr) flag) lvl ∈
        anRow f lvl i j S nbr (ringRow m p q) := by
  have hS : nbr ≤ S := by
    rw [hSm]; have : (1:Int) ≤ m := by omega
    nlinarith
  have mulle : ∀ t : Nat, t ≤ m + 1 → (t:Int) * nbr ≤ S + nbr := by
    intro t ht
    rw [hSm]
    have h1 : (t:Int) ≤ (m:Int) + 1 := by omega
    have := Int.mul_le_mul_of_nonneg_right h1 (le_of_lt hnbr)
    rw [Int.add_mul, Int.one_mul] at this
    exact this
  have mulge : ∀ t : Nat, 1 ≤ t → nbr ≤ (t:Int) * nbr := by
    intro t ht
    have h1 : (1:Int) ≤ (t:Int) := by omega
    have := Int.mul_le_mul_of_nonneg_right h1 (le_of_lt hnbr)
    rw [Int.one_mul] at this
    exact this
  have mullt : ∀ t : Nat, t ≤ m → (t:Int) * nbr ≤ S := by
    intro t ht
    rw [hSm]
    have h1 : (t:Int) ≤ (m:Int) := by omega
    exact Int.mul_le_mul_of_nonneg_right h1 (le_of_lt hnbr)
  have e0 : ∀ x : Int, x - nbr + ((0:Nat):Int) * nbr = x - nbr := by intro x; simp
  have eS : ∀ x : Int, x - nbr + ((m + 1 : Nat):Int) * nbr = x + S := by intro x; rw [hSm]; push_cast; ring
  have ek : ∀ (x : Int) (t : Nat), x - nbr + (t:Int) * nbr = x + ((t:Int) * nbr - nbr) := by intro x t; ring
  unfold InR at hflag
  -- the flag is determined by its truth condition
  have flag_eq : ∀ b : Bool, (b = true ↔ flag = true) → flag = b := by
    intro b hb
    cases b <;> cases flag <;> simp_all
  by_cases hp0 : p = 0 ∨ p = m + 1
  · -- left / right column: iteration t = q
    have hrr : ringRow m p q = q := by unfold ringRow; rw [if_pos hp0]
    rw [hrr]
    refine ⟨hq, ?_⟩
    have hq1 := mulle q hq
    have hq2 : 0 ≤ (q:Int) * nbr := Int.mul_nonneg (Int.natCast_nonneg q) (le_of_lt hnbr)
    have hq3 : 1 ≤ q → nbr ≤ (q:Int) * nbr := mulge q
    have hq4 : q ≤ m → (q:Int) * nbr ≤ S := mullt q
    have hq0 : q = 0 → (q:Int) * nbr = 0 := fun h => by rw [h]; simp
    have hqm : q = m + 1 → (q:Int) * nbr = S + nbr := fun h => by rw [h, hSm]; push_cast; ring
    have hqc : q = 0 ∨ 1 ≤ q := by omega
    have hqc' : q = m + 1 ∨ q ≤ m := by omega
    unfold anRow
    simp only []
    rw [ek j q] at hflag ⊢
    generalize (q:Int) * nbr - nbr = k at *
    rcases hp0 with rfl | rfl
    · rw [e0] at hflag ⊢
      by_cases c1 : k < 0
      · simp only [c1, if_true, List.nil_append, List.mem_cons, List.mem_nil_iff, or_false]
        left; congr 2
        apply flag_eq; rw [hflag]
        simp only [Bool.and_eq_true, decide_eq_true_eq]; omega
      · by_cases c2 : k ≥ S
        · simp only [c1, c2, if_true, if_false, List.nil_append, List.mem_cons, List.mem_nil_iff, or_false]
          left; congr 2
          apply flag_eq; rw [hflag]
          simp only [Bool.and_eq_true, decide_eq_true_eq]; omega
        · simp only [c1, c2, if_true, if_false, List.cons_append, List.nil_append, List.mem_cons, List.mem_nil_iff,
            or_false]
          right; right; left; congr 2
          apply flag_eq; rw [hflag]
          simp only [Bool.true_and, decide_eq_true_eq]; omega
    · rw [eS] at hflag ⊢
      by_cases c1 : k < 0
      · simp only [c1, if_true, List.nil_append, List.mem_cons, List.mem_nil_iff, or_false]
        right; congr 2
        apply flag_eq; rw [hflag]
        simp only [Bool.and_eq_true, decide_eq_true_eq]; omega
      · by_cases c2 : k ≥ S
        · simp only [c1, c2, if_true, if_false, List.nil_append, List.mem_cons, List.mem_nil_iff, or_false]
          right; congr 2
          apply flag_eq; rw [hflag]
          simp only [Bool.and_eq_true, decide_eq_true_eq]; omega
        · simp only [c1, c2, if_true, if_false, List.cons_append, List.nil_append, List.mem_cons, List.mem_nil_iff,
            or_false]
          right; right; right; congr 2
          apply flag_eq; rw [hflag]
          simp only [Bool.true_and, decide_eq_true_eq]; omega
  · -- bottom / top row: iteration t = p, 1 ≤ p ≤ m
    have hp1 : 1 ≤ p ∧ p ≤ m := by omega
    have hq0 : q = 0 ∨ q = m + 1 := by omega
    have hrr : ringRow m p q = p := by unfold ringRow; rw [if_neg hp0]
    rw [hrr]
    refine ⟨hp, ?_⟩
    have h1 := mulge p hp1.1
    have h2 := mullt p hp1.2
    unfold anRow
    simp only []
    rw [ek i p] at hflag ⊢
    generalize hkd : (p:Int) * nbr - nbr = k at *
    have c1 : ¬ k < 0 := by omega
    have c2 : ¬ k ≥ S := by omega
    simp only [c1, c2, if_true, if_false, List.cons_append, List.nil_append, List.mem_cons, List.mem_nil_iff,
      or_false]
    rcases hq0 with rfl | rfl
    · rw [e0] at hflag ⊢
      left; congr 2
      apply flag_eq; rw [hflag]
      simp only [decide_eq_true_eq]; omega
    · rw [eS] at hflag ⊢
      right; left; congr 2
      apply flag_eq; rw [hflag]
      simp only [decide_eq_true_eq]; omega

theorem anRow_has_grid (f lvl : Nat) (i j S nbr : Int) (m : Nat) (hnbr : 0 < nbr) (hSm : S = (m:Int) * nbr) (hm : 1 ≤ m)
    (hi0 : 0 ≤ i) (hi1 : i + S ≤ 1073741824) (hj0 : 0 ≤ j) (hj1 : j + S ≤ 1073741824)
    (hia : i = 0 ∨ S ≤ i) (hja : j = 0 ∨ S ≤ j) (p q : Nat) (hp : p ≤ m + 1) (hq : q ≤ m + 1)
    (hb : p = 0 ∨ p = m + 1 ∨ q = 0 ∨ q = m + 1) (flag : Bool)
    (hflag : flag = true ↔ (InR (i - nbr + (p:Int) * nbr) ∧ InR (j - nbr + (q:Int) * nbr))) :
    ∃ t : Nat, t ≤ m + 1 ∧
      parent (cellIDFromFaceIJSame f (i - nbr + (p:Int) * nbr) (j - nbr + (q:Int) * nbr) flag) lvl ∈
        anRow f lvl i j S nbr t :=
  ⟨_, anRow_has_grid_t f lvl i j S nbr m hnbr hSm hm hi0 hi1 hj0 hj1 hia hja p q hp hq hb flag hflag⟩

section
variable {L : Nat} (hL : L = 30)
include hL

set_option maxHeartbeats 800000 in
/-- every border position (p,q), 0 ≤ p,q ≤ m+1 (m = 2^(lvl−K)), of the ring around the square of `id` is asked by
    `allNeighbors id lvl`: the cell `parent (cellIDFromFaceIJSame f a b flag) lvl` with (a,b) the leaf coordinates
    of the position (possibly out of range) and flag = "both in range" is an element of the result -/
theorem ring_has (id : CellID) (K : Nat) (h : IsCell id K) (lvl : Nat) (h1 : K ≤ lvl) (h2 : lvl ≤ 30)
    (p q : Nat) (hp : p ≤ 2^(lvl-K) + 1) (hq : q ≤ 2^(lvl-K) + 1)
    (hbd : p = 0 ∨ p = 2^(lvl-K) + 1 ∨ q = 0 ∨ q = 2^(lvl-K) + 1) (a b : Int)
    (ha : a = (((sqI id K * 2^(lvl-K) + p) * 2^(30-lvl) : Nat) : Int) - ((2^(30-lvl) : Nat) : Int))
    (hb : b = (((sqJ id K * 2^(lvl-K) + q) * 2^(30-lvl) : Nat) : Int) - ((2^(30-lvl) : Nat) : Int))
    (flag : Bool) (hflag : flag = true ↔ (InR a ∧ InR b)) :
    parent (cellIDFromFaceIJSame (face id) a b flag) lvl ∈ allNeighbors id lvl := by
  have hK := h.k_le
  obtain ⟨g1, g2, g3, _, g5⟩ := faceIJOrientation_leaf_in_cell hL id K h
  unfold sqI at ha
  unfold sqJ at hb
  rw [allNeighbors_eq]
  generalize faceIJOrientation id = r at *
  obtain ⟨f, i0, j0, o⟩ := r
  simp only at g1 g2 g3 g5 ha hb
  subst g1
  rw [anAux_eq _ _ _ _ _ _ (by rw [h.level_eq]; exact h1) h2, h.level_eq, sizeIJ_eq, sizeIJ_eq]
  have hpow : (2:Nat)^(30 - K) * 2^K = 2^30 := by rw [← Nat.pow_add]; congr 1; omega
  have hSN : (2:Nat)^(30 - K) = 2^(lvl - K) * 2^(30 - lvl) := by
    rw [← Nat.pow_add]; congr 1; omega
  have hN0 : 0 < (2:Nat)^(30 - lvl) := Nat.two_pow_pos _
  have hm0 : 0 < (2:Nat)^(lvl - K) := Nat.two_pow_pos _
  generalize hSdef : (2:Nat)^(30 - K) = S at *
  generalize hmdef : (2:Nat)^(lvl - K) = m at *
  generalize hNdef : (2:Nat)^(30 - lvl) = N at *
  have hS0 : 0 < S := by rw [hSN]; exact Nat.mul_pos hm0 hN0
  have hdiv : S / N = m := by rw [hSN]; exact Nat.mul_div_cancel _ hN0
  rw [hdiv]
  have hA : (i0:Int) - (i0:Int) % (S:Int) = ((i0 / S * S : Nat) : Int) := by
    have := Nat.div_add_mod i0 S
    rw [← Int.natCast_mod]
    have e : (i0:Int) = ((S * (i0 / S) + i0 % S : Nat) : Int) := by rw [this]
    rw [Nat.mul_comm] at e
    omega
  have hB : (j0:Int) - (j0:Int) % (S:Int) = ((j0 / S * S : Nat) : Int) := by
    have := Nat.div_add_mod j0 S
    rw [← Int.natCast_mod]
    have e : (j0:Int) = ((S * (j0 / S) + j0 % S : Nat) : Int) := by rw [this]
    rw [Nat.mul_comm] at e
    omega
  rw [hA, hB]
  have hIlt : i0 / S < 2^K := by rw [Nat.div_lt_iff_lt_mul hS0, Nat.mul_comm, hpow]; exact g2
  have hJlt : j0 / S < 2^K := by rw [Nat.div_lt_iff_lt_mul hS0, Nat.mul_comm, hpow]; exact g3
  generalize i0 / S = I at *
  generalize j0 / S = J at *
  have iS2 : I * S + S ≤ 2^30 := by
    calc I * S + S = (I + 1) * S := by rw [Nat.add_mul, Nat.one_mul]
      _ ≤ 2^K * S := Nat.mul_le_mul_right _ (by omega)
      _ = 2^30 := by rw [Nat.mul_comm]; exact hpow
  have jS2 : J * S + S ≤ 2^30 := by
    calc J * S + S = (J + 1) * S := by rw [Nat.add_mul, Nat.one_mul]
      _ ≤ 2^K * S := Nat.mul_le_mul_right _ (by omega)
      _ = 2^30 := by rw [Nat.mul_comm]; exact hpow
  have ia : I * S = 0 ∨ S ≤ I * S := by
    rcases Nat.eq_zero_or_pos I with h0 | h0
    · left; rw [h0, Nat.zero_mul]
    · right; exact Nat.le_mul_of_pos_left S h0
  have ja : J * S = 0 ∨ S ≤ J * S := by
    rcases Nat.eq_zero_or_pos J with h0 | h0
    · left; rw [h0, Nat.zero_mul]
    · right; exact Nat.le_mul_of_pos_left S h0
  have hSmI : (S:Int) = (m:Int) * (N:Int) := by rw [hSN]; push_cast; rfl
  have ea : a = ((I * S : Nat) : Int) - (N:Int) + (p:Int) * (N:Int) := by
    rw [ha, hSN]; push_cast; ring
  have eb : b = ((J * S : Nat) : Int) - (N:Int) + (q:Int) * (N:Int) := by
    rw [hb, hSN]; push_cast; ring
  rw [ea, eb] at hflag
  obtain ⟨t, ht, hmem⟩ := anRow_has_grid (face id) lvl ((I * S : Nat) : Int) ((J * S : Nat) : Int)
    (S:Int) (N:Int) m (by exact_mod_cast hN0) hSmI (by omega) (by omega) (by omega) (by omega)
    (by omega) (by omega) (by omega) p q hp hq hbd flag hflag
  rw [ea, eb, List.mem_flatten]
  exact ⟨_, List.mem_map.mpr ⟨t, List.mem_range.mpr (by omega), rfl⟩, hmem⟩

/-- a level-`lvl` cell of the same face whose square lies inside the square of `id` is contained in `id` -/
theorem contains_of_sq (id : CellID) (K : Nat) (h : IsCell id K) (lvl : Nat) (h1 : K ≤ lvl) (h2 : lvl ≤ 30)
    (n : CellID) (hn : IsCell n lvl) (hface : face n = face id)
    (hx : sqI id K * 2^(lvl-K) ≤ sqI n lvl ∧ sqI n lvl < sqI id K * 2^(lvl-K) + 2^(lvl-K))
    (hy : sqJ id K * 2^(lvl-K) ≤ sqJ n lvl ∧ sqJ n lvl < sqJ id K * 2^(lvl-K) + 2^(lvl-K)) :
    contains id n = true := by
  have hK := h.k_le
  obtain ⟨g1, g2, g3, _, g5⟩ := faceIJOrientation_leaf_in_cell hL id K h
  obtain ⟨n1, n2, n3, _, n5⟩ := faceIJOrientation_leaf_in_cell hL n lvl hn
  have hSN : (2:Nat)^(30 - K) = 2^(30 - lvl) * 2^(lvl - K) := by
    rw [← Nat.pow_add]; congr 1; omega
  have hXm : sqI n lvl / 2^(lvl-K) = sqI id K := by
    have e : sqI n lvl = sqI id K * 2^(lvl-K) + (sqI n lvl - sqI id K * 2^(lvl-K)) := by omega
    rw [e]; exact div_lem _ _ _ (by omega)
  have hYm : sqJ n lvl / 2^(lvl-K) = sqJ id K := by
    have e : sqJ n lvl = sqJ id K * 2^(lvl-K) + (sqJ n lvl - sqJ id K * 2^(lvl-K)) := by omega
    rw [e]; exact div_lem _ _ _ (by omega)
  unfold sqI at hXm
  unfold sqJ at hYm
  rw [h.contains_iff_parent hn]
  refine ⟨h1, ?_⟩
  have e1 : parent n K = parent (cellIDFromFaceIJ (faceIJOrientation n).1 (faceIJOrientation n).2.1
      (faceIJOrientation n).2.2.1) K := by
    conv => lhs; rw [← n5]
    exact parent_parent _ K lvl h1 h2
  rw [e1]
  conv => rhs; rw [← g5]
  apply (parent_cellIDFromFaceIJ_eq_iff hL _ _ _ _ _ _ K (by rw [n1]; exact hn.face_lt6) (by rw [g1]; exact h.face_lt6)
    n2 n3 g2 g3 hK).2
  refine ⟨by rw [n1, g1, hface], ?_, ?_⟩
  · have e : (faceIJOrientation n).2.1 / 2^(30-K) = (faceIJOrientation n).2.1 / 2^(30-lvl) / 2^(lvl-K) := by
      rw [hSN, Nat.div_div_eq_div_mul]
    rw [e, hXm]
  · have e : (faceIJOrientation n).2.2.1 / 2^(30-K) = (faceIJOrientation n).2.2.1 / 2^(30-lvl) / 2^(lvl-K) := by
      rw [hSN, Nat.div_div_eq_div_mul]
    rw [e, hYm]

set_option maxHeartbeats 1600000 in
/-- **COMPLETENESS for ALL cells**: a level-`lvl` cell `n` that is not inside `id` and whose cube box meets the cube box
    of `id` is an element of `allNeighbors id lvl` — no hypothesis on the position of `id` (face boundary, cube corner) -/
theorem allNeighbors_complete_all (id : CellID) (K : Nat) (h : IsCell id K) (lvl : Nat) (h1 : K ≤ lvl) (h2 : lvl ≤ 30)
    (n : CellID) (hn : IsCell n lvl) (hnot : contains id n = false)
    (ht : boxMeet (cubeBox id) (cubeBox n) ≠ none) : n ∈ allNeighbors id lvl := by
  have hK := h.k_le
  have hf := h.face_lt6
  obtain ⟨bI, bJ⟩ := sq_le hL id K h
  obtain ⟨bX, bY⟩ := sq_le hL n lvl hn
  have hN0 : 0 < (2:Nat)^(30 - lvl) := Nat.two_pow_pos _
  have hm0 : 0 < (2:Nat)^(lvl - K) := Nat.two_pow_pos _
  have hLL0 : 0 < (2:Nat)^lvl := Nat.two_pow_pos _
  have hKK0 : 0 < (2:Nat)^K := Nat.two_pow_pos _
  have hpowK : (2:Nat)^K * 2^(30 - K) = 1073741824 := pow_split K hK
  have hpowL : (2:Nat)^lvl * 2^(30 - lvl) = 1073741824 := pow_split lvl h2
  have hSN : (2:Nat)^(30 - K) = 2^(lvl - K) * 2^(30 - lvl) := by
    rw [← Nat.pow_add]; congr 1; omega
  have hnsq : IsSq n lvl (face n) (sqI n lvl) (sqJ n lvl) := ⟨hn, rfl, rfl, rfl⟩
  -- the cell reported for an in-range position
  have elem : ∀ (a b : Nat), a = sqI n lvl * 2^(30-lvl) → b = sqJ n lvl * 2^(30-lvl) → face n = face id →
      parent (cellIDFromFaceIJSame (face id) (a:Int) (b:Int) true) lvl = n := by
    intro a b ha hb hfc
    have xN : sqI n lvl * 2^(30-lvl) + 2^(30-lvl) ≤ 1073741824 := by
      calc sqI n lvl * 2^(30-lvl) + 2^(30-lvl) = (sqI n lvl + 1) * 2^(30-lvl) := by rw [Nat.add_mul, Nat.one_mul]
        _ ≤ 2^lvl * 2^(30-lvl) := Nat.mul_le_mul_right _ (by omega)
        _ = 1073741824 := hpowL
    have yN : sqJ n lvl * 2^(30-lvl) + 2^(30-lvl) ≤ 1073741824 := by
      calc sqJ n lvl * 2^(30-lvl) + 2^(30-lvl) = (sqJ n lvl + 1) * 2^(30-lvl) := by rw [Nat.add_mul, Nat.one_mul]
        _ ≤ 2^lvl * 2^(30-lvl) := Nat.mul_le_mul_right _ (by omega)
        _ = 1073741824 := hpowL
    have e0 : cellIDFromFaceIJSame (face id) (a:Int) (b:Int) true = cellIDFromFaceIJ (face id) a b := by
      unfold cellIDFromFaceIJSame
      rw [if_pos rfl, Int.toNat_natCast, Int.toNat_natCast]
    rw [e0]
    have hsq := isSq_leaf_parent hL (face id) a b lvl hf (by omega) (by omega) h2
    have ea : a / 2^(30-lvl) = sqI n lvl := by rw [ha]; exact Nat.mul_div_cancel _ hN0
    have eb : b / 2^(30-lvl) = sqJ n lvl := by rw [hb]; exact Nat.mul_div_cancel _ hN0
    rw [ea, eb] at hsq
    exact isSq_unique hL hsq ⟨hn, hfc, rfl, rfl⟩
  -- the cells reported for the positions with one coordinate out of range
  have hMN : 1073741824 - 2^(30-lvl) = (2^lvl - 1) * 2^(30-lvl) := by rw [Nat.sub_mul, Nat.one_mul, hpowL]
  have hMNd : (1073741824 - 2^(30-lvl)) / 2^(30-lvl) = 2^lvl - 1 := by rw [hMN]; exact Nat.mul_div_cancel _ hN0
  have hNle : 2^(30-lvl) ≤ 1073741824 := by
    calc 2^(30-lvl) ≤ 2^lvl * 2^(30-lvl) := Nat.le_mul_of_pos_left _ hLL0
      _ = 1073741824 := hpowL
  have wrapEq : ∀ a b : Int, cellIDFromFaceIJSame (face id) a b false = cellIDFromFaceIJWrap (face id) a b := by
    intro a b; unfold cellIDFromFaceIJSame; simp
  have d0 : ∀ Z : Nat, Z * 2^(30-lvl) < 2^30 → nbrSq (face id) Z 0 (2^lvl - 1) 0 = (face n, sqI n lvl, sqJ n lvl) →
      parent (cellIDFromFaceIJSame (face id) ((Z * 2^(30-lvl) : Nat) : Int)
        (((0:Nat):Int) - ((2^(30-lvl) : Nat) : Int)) false) lvl = n := by
    intro Z hZ hq
    have := nbr_dir0 hL (face id) (Z * 2^(30-lvl)) 0 lvl hf hZ (by decide) h2
    rw [Nat.zero_div, Nat.mul_div_cancel _ hN0, hq] at this
    rw [wrapEq]; exact isSq_unique hL this hnsq
  have d1 : ∀ Z : Nat, Z * 2^(30-lvl) < 2^30 →
      nbrSq (face id) (2^lvl - 1) Z (2^lvl - 1) 1 = (face n, sqI n lvl, sqJ n lvl) →
      parent (cellIDFromFaceIJSame (face id) (((1073741824 - 2^(30-lvl) : Nat) : Int) + ((2^(30-lvl) : Nat) : Int))
        ((Z * 2^(30-lvl) : Nat) : Int) false) lvl = n := by
    intro Z hZ hq
    have := nbr_dir1 hL (face id) (1073741824 - 2^(30-lvl)) (Z * 2^(30-lvl)) lvl hf (by omega) hZ h2
    rw [hMNd, Nat.mul_div_cancel _ hN0, hq] at this
    rw [wrapEq]; exact isSq_unique hL this hnsq
  have d2 : ∀ Z : Nat, Z * 2^(30-lvl) < 2^30 →
      nbrSq (face id) Z (2^lvl - 1) (2^lvl - 1) 2 = (face n, sqI n lvl, sqJ n lvl) →
      parent (cellIDFromFaceIJSame (face id) ((Z * 2^(30-lvl) : Nat) : Int)
        (((1073741824 - 2^(30-lvl) : Nat) : Int) + ((2^(30-lvl) : Nat) : Int)) false) lvl = n := by
    intro Z hZ hq
    have := nbr_dir2 hL (face id) (Z * 2^(30-lvl)) (1073741824 - 2^(30-lvl)) lvl hf hZ (by omega) h2
    rw [hMNd, Nat.mul_div_cancel _ hN0, hq] at this
    rw [wrapEq]; exact isSq_unique hL this hnsq
  have d3 : ∀ Z : Nat, Z * 2^(30-lvl) < 2^30 → nbrSq (face id) 0 Z (2^lvl - 1) 3 = (face n, sqI n lvl, sqJ n lvl) →
      parent (cellIDFromFaceIJSame (face id) (((0:Nat):Int) - ((2^(30-lvl) : Nat) : Int))
        ((Z * 2^(30-lvl) : Nat) : Int) false) lvl = n := by
    intro Z hZ hq
    have := nbr_dir3 hL (face id) 0 (Z * 2^(30-lvl)) lvl hf (by decide) hZ h2
    rw [Nat.zero_div, Nat.mul_div_cancel _ hN0, hq] at this
    rw [wrapEq]; exact isSq_unique hL this hnsq
  have ring := ring_has hL id K h lvl h1 h2
  have cont := contains_of_sq hL id K h lvl h1 h2 n hn
  -- geometry
  rw [cubeBox_cell hL id K h, cubeBox_cell hL n lvl hn] at ht
  generalize hIdef : sqI id K = I at *
  generalize hJdef : sqJ id K = J at *
  generalize hXdef : sqI n lvl = X at *
  generalize hYdef : sqJ n lvl = Y at *
  generalize hSdef : (2:Nat)^(30 - K) = S at *
  generalize hNdef : (2:Nat)^(30 - lvl) = N at *
  generalize hmdef : (2:Nat)^(lvl - K) = m at *
  generalize hKKdef : (2:Nat)^K = KK at *
  generalize hLLdef : (2:Nat)^lvl = LL at *
  have hS0 : 0 < S := by rw [hSN]; exact Nat.mul_pos hm0 hN0
  have iS2 : I * S + S ≤ 1073741824 := by
    calc I * S + S = (I + 1) * S := by rw [Nat.add_mul, Nat.one_mul]
      _ ≤ KK * S := Nat.mul_le_mul_right _ (by omega)
      _ = 1073741824 := hpowK
  have jS2 : J * S + S ≤ 1073741824 := by
    calc J * S + S = (J + 1) * S := by rw [Nat.add_mul, Nat.one_mul]
      _ ≤ KK * S := Nat.mul_le_mul_right _ (by omega)
      _ = 1073741824 := hpowK
  have xN : X * N + N ≤ 1073741824 := by
    calc X * N + N = (X + 1) * N := by rw [Nat.add_mul, Nat.one_mul]
      _ ≤ LL * N := Nat.mul_le_mul_right _ (by omega)
      _ = 1073741824 := hpowL
  have yN : Y * N + N ≤ 1073741824 := by
    calc Y * N + N = (Y + 1) * N := by rw [Nat.add_mul, Nat.one_mul]
      _ ≤ LL * N := Nat.mul_le_mul_right _ (by omega)
      _ = 1073741824 := hpowL
  have eIS : I * S = I * m * N := by rw [hSN, Nat.mul_assoc]
  have eJS : J * S = J * m * N := by rw [hSN, Nat.mul_assoc]
  have eSN' : m * N = S := hSN.symm
  -- comparing multiples of N
  have leN : ∀ x y : Nat, x * N ≤ y * N → x ≤ y := fun x y hxy => Nat.le_of_mul_le_mul_right hxy hN0
  have addN : ∀ x y : Nat, (x + y) * N = x * N + y * N := fun x y => Nat.add_mul x y N
  have mem_flag_false : ∀ a b : Int, ¬ (InR a ∧ InR b) → ((false = true) ↔ (InR a ∧ InR b)) :=
    fun a b hh => ⟨fun hc => (by cases hc), fun hc => absurd hc hh⟩
  by_cases hface : face n = face id
  · -- same face: an in-range ring position
    rw [hface] at ht
    have hmeet := (boxMeet_ne_none _ _).1 ht
    unfold cubeLo at hmeet
    have huv : max (2 * ((I * S : Nat) : Int) - 1073741824) (2 * ((X * N : Nat) : Int) - 1073741824) ≤
          min (2 * ((I * S : Nat) : Int) - 1073741824 + 2 * ((S:Nat):Int)) (2 * ((X * N : Nat) : Int) - 1073741824 + 2 * ((N:Nat):Int)) ∧
        max (2 * ((J * S : Nat) : Int) - 1073741824) (2 * ((Y * N : Nat) : Int) - 1073741824) ≤
          min (2 * ((J * S : Nat) : Int) - 1073741824 + 2 * ((S:Nat):Int)) (2 * ((Y * N : Nat) : Int) - 1073741824 + 2 * ((N:Nat):Int)) := by
      have hfc := hf
      generalize face id = f0 at *
      interval_cases f0 <;> simp only [faceBox] at hmeet <;> omega
    obtain ⟨mu, mv⟩ := huv
    have hxa : I * m ≤ X + 1 := leN _ _ (by rw [addN, Nat.one_mul, ← eIS]; omega)
    have hxb : X ≤ I * m + m := leN _ _ (by rw [addN, ← eIS, eSN']; omega)
    have hya : J * m ≤ Y + 1 := leN _ _ (by rw [addN, Nat.one_mul, ← eJS]; omega)
    have hyb : Y ≤ J * m + m := leN _ _ (by rw [addN, ← eJS, eSN']; omega)
    have hout : ¬ (I * m ≤ X ∧ X < I * m + m ∧ J * m ≤ Y ∧ Y < J * m + m) := by
      rintro ⟨o1, o2, o3, o4⟩
      rw [cont hface ⟨o1, o2⟩ ⟨o3, o4⟩] at hnot; cases hnot
    have e1 : (I * m + (X + 1 - I * m)) * N = X * N + N := by
      have : I * m + (X + 1 - I * m) = X + 1 := by omega
      rw [this, addN, Nat.one_mul]
    have e2 : (J * m + (Y + 1 - J * m)) * N = Y * N + N := by
      have : J * m + (Y + 1 - J * m) = Y + 1 := by omega
      rw [this, addN, Nat.one_mul]
    have hmem := ring (X + 1 - I * m) (Y + 1 - J * m) (by omega) (by omega) (by omega)
      ((X * N : Nat) : Int) ((Y * N : Nat) : Int) (by rw [e1]; push_cast; omega) (by rw [e2]; push_cast; omega) true
      (by unfold InR; constructor
          · intro _; omega
          · intro _; rfl)
    rw [elem _ _ rfl rfl hface] at hmem
    exact hmem
  · -- another face: the table neighbour of a ring position with one coordinate out of range
    have ht' : boxMeet (faceBox (face id) (cubeLo I S, cubeLo I S + 2 * ((S:Nat):Int))
        (cubeLo J S, cubeLo J S + 2 * ((S:Nat):Int))) (sqBox (face n) X Y N) ≠ none := ht
    have hcases := fold_inv (face id) (face n) X Y LL N hf hn.face_lt6 hface hpowL hN0 bX bY _ _ _ _
      (by unfold cubeLo; omega) (by unfold cubeLo; omega) ht'
    unfold cubeLo at hcases
    have zN : ∀ Z : Nat, Z ≤ LL - 1 → Z * N + N ≤ 1073741824 := by
      intro Z hZ
      calc Z * N + N = (Z + 1) * N := by rw [Nat.add_mul, Nat.one_mul]
        _ ≤ LL * N := Nat.mul_le_mul_right _ (by omega)
        _ = 1073741824 := hpowL
    have hIm0 : I * S = 0 → (I * m + 0) * N = 0 := by
      intro h0; rw [Nat.add_zero, ← eIS]; exact h0
    have hJm0 : J * S = 0 → (J * m + 0) * N = 0 := by
      intro h0; rw [Nat.add_zero, ← eJS]; exact h0
    have hImM : (I * m + (m + 1)) * N = I * S + S + N := by
      rw [addN, addN, Nat.one_mul, ← eIS, eSN']; omega
    have hJmM : (J * m + (m + 1)) * N = J * S + S + N := by
      rw [addN, addN, Nat.one_mul, ← eJS, eSN']; omega
    rcases hcases with ⟨hs, Z, hZ, hq, hz⟩ | ⟨hs, Z, hZ, hq, hz⟩ | ⟨hs, Z, hZ, hq, hz⟩ | ⟨hs, Z, hZ, hq, hz⟩
    · -- side 0: below the square, q = 0
      have zz := zN Z hZ
      have hza : I * m ≤ Z + 1 := leN _ _ (by rw [addN, Nat.one_mul, ← eIS]; omega)
      have hzb : Z ≤ I * m + m := leN _ _ (by rw [addN, ← eIS, eSN']; omega)
      have e1 : (I * m + (Z + 1 - I * m)) * N = Z * N + N := by
        have : I * m + (Z + 1 - I * m) = Z + 1 := by omega
        rw [this, addN, Nat.one_mul]
      have hmem := ring (Z + 1 - I * m) 0 (by omega) (by omega) (by omega)
        ((Z * N : Nat) : Int) (((0:Nat):Int) - ((N:Nat):Int)) (by rw [e1]; push_cast; omega)
        (by rw [hJm0 (by omega)]) false (mem_flag_false _ _ (by unfold InR; omega))
      rw [d0 Z (by omega) hq] at hmem
      exact hmem
    · -- side 1: right of the square, p = m + 1
      have zz := zN Z hZ
      have hza : J * m ≤ Z + 1 := leN _ _ (by rw [addN, Nat.one_mul, ← eJS]; omega)
      have hzb : Z ≤ J * m + m := leN _ _ (by rw [addN, ← eJS, eSN']; omega)
      have e1 : (J * m + (Z + 1 - J * m)) * N = Z * N + N := by
        have : J * m + (Z + 1 - J * m) = Z + 1 := by omega
        rw [this, addN, Nat.one_mul]
      have hmem := ring (m + 1) (Z + 1 - J * m) (by omega) (by omega) (by omega)
        (((1073741824 - N : Nat) : Int) + ((N:Nat):Int)) ((Z * N : Nat) : Int) (by rw [hImM]; push_cast; omega)
        (by rw [e1]; push_cast; omega) false (mem_flag_false _ _ (by unfold InR; omega))
      rw [d1 Z (by omega) hq] at hmem
      exact hmem
    · -- side 2: above the square, q = m + 1
      have zz := zN Z hZ
      have hza : I * m ≤ Z + 1 := leN _ _ (by rw [addN, Nat.one_mul, ← eIS]; omega)
      have hzb : Z ≤ I * m + m := leN _ _ (by rw [addN, ← eIS, eSN']; omega)
      have e1 : (I * m + (Z + 1 - I * m)) * N = Z * N + N := by
        have : I * m + (Z + 1 - I * m) = Z + 1 := by omega
        rw [this, addN, Nat.one_mul]
      have hmem := ring (Z + 1 - I * m) (m + 1) (by omega) (by omega) (by omega)
        ((Z * N : Nat) : Int) (((1073741824 - N : Nat) : Int) + ((N:Nat):Int)) (by rw [e1]; push_cast; omega)
        (by rw [hJmM]; push_cast; omega) false (mem_flag_false _ _ (by unfold InR; omega))
      rw [d2 Z (by omega) hq] at hmem
      exact hmem
    · -- side 3: left of the square, p = 0
      have zz := zN Z hZ
      have hza : J * m ≤ Z + 1 := leN _ _ (by rw [addN, Nat.one_mul, ← eJS]; omega)
      have hzb : Z ≤ J * m + m := leN _ _ (by rw [addN, ← eJS, eSN']; omega)
      have e1 : (J * m + (Z + 1 - J * m)) * N = Z * N + N := by
        have : J * m + (Z + 1 - J * m) = Z + 1 := by omega
        rw [this, addN, Nat.one_mul]
      have hmem := ring 0 (Z + 1 - J * m) (by omega) (by omega) (by omega)
        (((0:Nat):Int) - ((N:Nat):Int)) ((Z * N : Nat) : Int) (by rw [hIm0 (by omega)])
        (by rw [e1]; push_cast; omega) false (mem_flag_false _ _ (by unfold InR; omega))
      rw [d3 Z (by omega) hq] at hmem
      exact hmem

end
end S2Proofs.C01W
