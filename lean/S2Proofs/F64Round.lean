/-
  S2Proofs.F64Round — the soft-float `S2.F64` is correctly rounded: statements over ℚ.

  `val x : ℚ` is the exact value of a finite float (`val x = toInt x / 2^1074`).
  `IsRound r Q` says that the float `r` is the round-to-nearest-even image of the rational `Q`
  (with overflow to ±inf); it is established for `roundNE`, `roundDyadic`, `+ − × ÷` and has the
  consequences: nearest, half-ulp error bounds (standard model), monotone, identity on floats,
  overflow threshold `2^1024 − 2^970`.

  Layers below (all in `S2Proofs/F64Round/`): `RNat` (arithmetic of `rmag`), `Bits` (`roundNE` packs `rmag`),
  `Spec` (integer specs of `roundNE`), `Tie` (ties to even), `Ext` (order embedding `ext`), `Ops`
  (`ext (x ∘ y) = rint …`), `Carrier` (order/exactness corollaries), `RInt` (error bounds of `rint`).
-/
import Mathlib.Algebra.Order.Field.Basic
import Mathlib.Algebra.Order.Field.Rat
import Mathlib.Data.Rat.Lemmas
import Mathlib.Tactic.FieldSimp
import Mathlib.Tactic.Positivity
import S2Proofs.F64Round.RInt
import S2Proofs.F64Round.Sqrt

set_option linter.unusedSimpArgs false
set_option linter.unusedVariables false

namespace S2Proofs.F64Round
open S2 S2.Exact S2Proofs.F64Order S2Proofs.F64Sym S2Proofs.F64Inj S2Proofs.Codec

/-! ### value semantics -/

/-- the scale `2^1074` as a rational -/
def U : ℚ := 2 ^ 1074

theorem U_pos : 0 < U := by unfold U; positivity

/-- exact value of a finite float (garbage for Inf/NaN, like `toInt`) -/
def val (x : F64) : ℚ := (toInt x : ℚ) / U

/-- relation of the two value semantics: `toInt x = val x · 2^1074` -/
theorem val_mul_U (x : F64) : val x * U = toInt x := by
  unfold val; exact div_mul_cancel₀ _ (ne_of_gt U_pos)

theorem val_neg (x : F64) : val (F64.neg x) = - val x := by
  unfold val; rw [toInt_neg]; push_cast; ring

theorem val_abs (x : F64) : val (F64.abs x) = |val x| := by
  unfold val; rw [toInt_abs, abs_div, abs_of_pos U_pos]; push_cast; rfl

theorem val_le_iff {x y : F64} (hx : F64Order.Fin x) (hy : F64Order.Fin y) :
    F64.le x y = true ↔ val x ≤ val y := by
  rw [le_iff hx hy]; unfold val
  rw [div_le_div_iff_of_pos_right U_pos]; exact Int.cast_le.symm

theorem val_lt_iff {x y : F64} (hx : F64Order.Fin x) (hy : F64Order.Fin y) :
    F64.lt x y = true ↔ val x < val y := by
  rw [lt_iff hx hy]; unfold val
  rw [div_lt_div_iff_of_pos_right U_pos]; exact Int.cast_lt.symm

theorem val_eq_iff {x y : F64} : val x = val y ↔ toInt x = toInt y := by
  unfold val
  rw [div_left_inj' (ne_of_gt U_pos)]; exact Int.cast_inj

/-! ### `IsRound` -/

/-- `r` is the correctly rounded (nearest-even, binary64, overflow to ±inf) image of the rational `Q`:
    `Q = s / (D · 2^1074)` for an integer `s` and a positive natural `D`, and `ext r = rint s D`. -/
def IsRound (r : F64) (Q : ℚ) : Prop :=
  r.isNaN = false ∧ ∃ (s : Int) (D : Nat), 0 < D ∧ Q * ((D : ℚ) * U) = s ∧ ext r = rint s D

/-- two presentations of the same rational -/
theorem cross_of_eq {Q Q' : ℚ} {s s' : Int} {D D' : Nat} (hD : 0 < D) (hD' : 0 < D')
    (h : Q * ((D : ℚ) * U) = s) (h' : Q' * ((D' : ℚ) * U) = s') (hle : Q ≤ Q') : s * D' ≤ s' * D := by
  have hpos : (0 : ℚ) ≤ (D : ℚ) * U * D' := by
    have := U_pos; positivity
  have : (s : ℚ) * D' ≤ s' * D := by
    rw [← h, ← h']
    calc Q * ((D : ℚ) * U) * D' = Q * ((D : ℚ) * U * D') := by ring
      _ ≤ Q' * ((D : ℚ) * U * D') := mul_le_mul_of_nonneg_right hle hpos
      _ = Q' * ((D' : ℚ) * U) * D := by ring
  exact_mod_cast this

/-- **the rounded value is determined by `Q`** (as an `ext` value, i.e. up to the sign of zero) -/
theorem IsRound.ext_unique {r r' : F64} {Q : ℚ} (h : IsRound r Q) (h' : IsRound r' Q) : ext r = ext r' := by
  obtain ⟨_, s, D, hD, hQ, he⟩ := h
  obtain ⟨_, s', D', hD', hQ', he'⟩ := h'
  rw [he, he']
  exact rint_congr hD hD' (le_antisymm (cross_of_eq hD hD' hQ hQ' le_rfl) (cross_of_eq hD' hD hQ' hQ le_rfl))

/-- **`round_mono`**: rounding is monotone (results may be ±inf) -/
theorem IsRound.mono {r1 r2 : F64} {Q1 Q2 : ℚ} (h1 : IsRound r1 Q1) (h2 : IsRound r2 Q2) (hle : Q1 ≤ Q2) :
    F64.le r1 r2 = true := by
  obtain ⟨n1, s1, D1, hD1, hQ1, he1⟩ := h1
  obtain ⟨n2, s2, D2, hD2, hQ2, he2⟩ := h2
  rw [le_iff_ext n1 n2, he1, he2]
  exact rint_mono hD1 hD2 (cross_of_eq hD1 hD2 hQ1 hQ2 hle)

/-- `cmp` form of monotonicity: the comparison is `lt` or `eq` -/
theorem IsRound.mono_cmp {r1 r2 : F64} {Q1 Q2 : ℚ} (h1 : IsRound r1 Q1) (h2 : IsRound r2 Q2) (hle : Q1 ≤ Q2) :
    F64.cmp r1 r2 = some .lt ∨ F64.cmp r1 r2 = some .eq := by
  have := IsRound.mono h1 h2 hle
  unfold F64.le at this
  split at this <;> simp_all

/-- **`round_fix`**: a representable value rounds to itself (up to the sign of zero) -/
theorem IsRound.fix {r x : F64} (hx : F64Order.Fin x) (h : IsRound r (val x)) :
    F64Order.Fin r ∧ toInt r = toInt x := by
  obtain ⟨n, s, D, hD, hQ, he⟩ := h
  have hs : s = toInt x * D := by
    have : (s : ℚ) = (toInt x : ℚ) * D := by rw [← hQ, ← val_mul_U x]; ring
    exact_mod_cast this
  rw [hs, rint_fix x hx D hD] at he
  have hb := toInt_bounds x hx
  have hf : F64Order.Fin r := fin_of_ext_lt n (by rw [he]; exact hb.1) (by rw [he]; exact hb.2)
  exact ⟨hf, by rw [← ext_finite hf, he]⟩

theorem IsRound.fix_eq {r x : F64} (hx : F64Order.Fin x) (h0 : toInt x ≠ 0) (h : IsRound r (val x)) : r = x := by
  obtain ⟨hf, ht⟩ := IsRound.fix hx h
  apply toInt_inj ht
  · rintro rfl; exact h0 (by rw [← ht]; decide)
  · rintro rfl; exact h0 (by decide)

/-- a float rounds (as a rational) to itself -/
theorem isRound_self {x : F64} (hx : F64Order.Fin x) : IsRound x (val x) :=
  ⟨isNaN_false hx, toInt x, 1, by decide, by rw [← val_mul_U x]; simp, by
    rw [ext_finite hx]; simpa using (rint_fix x hx 1 (by decide)).symm⟩

section consequences
variable {r : F64} {Q : ℚ}

/-- the integer presentation of a finite rounding -/
theorem IsRound.int_form (h : IsRound r Q) (hf : F64Order.Fin r) :
    ∃ (s : Int) (D : Nat), 0 < D ∧ Q * ((D : ℚ) * U) = s ∧ toInt r = rint s D ∧ rmag s.natAbs D < 2 ^ 2098 := by
  obtain ⟨n, s, D, hD, hQ, he⟩ := h
  refine ⟨s, D, hD, hQ, by rw [← ext_finite hf, he], ?_⟩
  rw [← rint_lt_iff, ← he, ext_finite hf]
  exact toInt_bounds r hf

/-- `val y − Q` over the common denominator -/
theorem val_sub_eq (y : F64) {s : Int} {D : Nat} (hD : 0 < D) (hQ : Q * ((D : ℚ) * U) = s) :
    val y - Q = ((toInt y * D - s : Int) : ℚ) / ((D : ℚ) * U) := by
  have hDU : (D : ℚ) * U ≠ 0 := by have := U_pos; positivity
  rw [eq_div_iff hDU]
  push_cast
  rw [← hQ, ← val_mul_U y]; ring

theorem abs_val_sub_eq (y : F64) {s : Int} {D : Nat} (hD : 0 < D) (hQ : Q * ((D : ℚ) * U) = s) :
    |val y - Q| = ((|toInt y * D - s| : Int) : ℚ) / ((D : ℚ) * U) := by
  have hDU : (0 : ℚ) < (D : ℚ) * U := by have := U_pos; positivity
  rw [val_sub_eq y hD hQ, abs_div, abs_of_pos hDU, Int.cast_abs]

theorem abs_Q_eq {s : Int} {D : Nat} (hD : 0 < D) (hQ : Q * ((D : ℚ) * U) = s) :
    |Q| = ((|s| : Int) : ℚ) / ((D : ℚ) * U) := by
  have hDU : (0 : ℚ) < (D : ℚ) * U := by have := U_pos; positivity
  rw [Int.cast_abs, ← hQ, abs_mul, abs_of_pos hDU, mul_div_assoc, div_self (ne_of_gt hDU), mul_one]

/-- **nearest**: if the rounded result is finite, no float is closer to `Q` -/
theorem IsRound.nearest (h : IsRound r Q) (hf : F64Order.Fin r) (y : F64) : |val r - Q| ≤ |val y - Q| := by
  obtain ⟨s, D, hD, hQ, ht, hlt⟩ := h.int_form hf
  have hDU : (0 : ℚ) < (D : ℚ) * U := by have := U_pos; positivity
  rw [abs_val_sub_eq r hD hQ, abs_val_sub_eq y hD hQ, div_le_div_iff_of_pos_right hDU, Int.cast_le, ht]
  exact rint_nearest s D hD hlt y

/-- **standard model, relative form**: for `|Q| ≥ 2^-1022` and a finite result,
    `|val r − Q| ≤ 2^-53 · |Q|` -/
theorem IsRound.rel_err (h : IsRound r Q) (hf : F64Order.Fin r) (hlow : 1 / 2 ^ 1022 ≤ |Q|) :
    |val r - Q| ≤ |Q| / 2 ^ 53 := by
  obtain ⟨s, D, hD, hQ, ht, hlt⟩ := h.int_form hf
  have hDU : (0 : ℚ) < (D : ℚ) * U := by have := U_pos; positivity
  have hlow' : 2 ^ 52 * D ≤ s.natAbs := by
    rw [abs_Q_eq hD hQ, div_le_div_iff₀ (by positivity) hDU] at hlow
    have hU : U = 2 ^ 52 * 2 ^ 1022 := by unfold U; rw [← pow_add]
    have h2 : (2 : ℚ) ^ 52 * D ≤ ((|s| : Int) : ℚ) := by
      have : (1 : ℚ) * ((D : ℚ) * (2 ^ 52 * 2 ^ 1022)) ≤ ((|s| : Int) : ℚ) * 2 ^ 1022 := by rw [← hU]; exact hlow
      have h1022 : (0 : ℚ) < 2 ^ 1022 := by positivity
      have : ((2 : ℚ) ^ 52 * D) * 2 ^ 1022 ≤ ((|s| : Int) : ℚ) * 2 ^ 1022 := by
        calc ((2 : ℚ) ^ 52 * D) * 2 ^ 1022 = 1 * ((D : ℚ) * (2 ^ 52 * 2 ^ 1022)) := by ring
          _ ≤ _ := this
      exact le_of_mul_le_mul_right this h1022
    have h3 : ((2 ^ 52 * D : Nat) : ℚ) ≤ ((s.natAbs : Nat) : ℚ) := by
      push_cast
      rw [Nat.cast_natAbs]
      exact h2
    exact_mod_cast h3
  have hi := rint_rel_err s D hD hlt hlow'
  rw [abs_val_sub_eq r hD hQ, abs_Q_eq hD hQ, div_div, div_le_div_iff₀ hDU (by positivity), ht]
  have hi' : ((2 ^ 53 * |rint s D * D - s| : Int) : ℚ) ≤ ((|s| : Int) : ℚ) := by exact_mod_cast hi
  push_cast at hi' ⊢
  calc |(rint s D : ℚ) * D - s| * ((D : ℚ) * U * 2 ^ 53) = (2 ^ 53 * |(rint s D : ℚ) * D - s|) * ((D : ℚ) * U) := by ring
    _ ≤ |(s : ℚ)| * ((D : ℚ) * U) := mul_le_mul_of_nonneg_right hi' (le_of_lt hDU)

/-- **standard model, absolute form**: for `|Q| < 2^-1021` (binade of the subnormals and the first normal
    binade) the error is at most half a unit in the last place of the subnormals, `2^-1075` -/
theorem IsRound.abs_err (h : IsRound r Q) (hhi : |Q| < 1 / 2 ^ 1021) : |val r - Q| ≤ 1 / 2 ^ 1075 := by
  obtain ⟨n, s, D, hD, hQ, he⟩ := h
  have hDU : (0 : ℚ) < (D : ℚ) * U := by have := U_pos; positivity
  have hhi' : s.natAbs < 2 ^ 53 * D := by
    rw [abs_Q_eq hD hQ, div_lt_div_iff₀ hDU (by positivity)] at hhi
    have hU : U = 2 ^ 53 * 2 ^ 1021 := by unfold U; rw [← pow_add]
    have h2 : ((|s| : Int) : ℚ) < 2 ^ 53 * D := by
      have h1021 : (0 : ℚ) < 2 ^ 1021 := by positivity
      have : ((|s| : Int) : ℚ) * 2 ^ 1021 < (2 ^ 53 * D) * 2 ^ 1021 := by
        calc ((|s| : Int) : ℚ) * 2 ^ 1021 < 1 * ((D : ℚ) * U) := hhi
          _ = (2 ^ 53 * D) * 2 ^ 1021 := by rw [hU]; ring
      exact lt_of_mul_lt_mul_right this (le_of_lt h1021)
    have h3 : ((s.natAbs : Nat) : ℚ) < ((2 ^ 53 * D : Nat) : ℚ) := by
      push_cast
      rw [Nat.cast_natAbs]
      exact h2
    exact_mod_cast h3
  have hi := rint_abs_err s D hD hhi'
  have hlt : rmag s.natAbs D < 2 ^ 2098 := by
    apply rmag_lt_top _ _ hD
    have : 2 ^ 53 * D ≤ (2 ^ 54 - 1) * 2 ^ 2044 * D := Nat.mul_le_mul_right _ (by decide +kernel)
    omega
  have hf : F64Order.Fin r := by
    have := (rint_lt_iff s D).2 hlt
    rw [← he] at this
    exact fin_of_ext_lt n this.1 this.2
  have ht : toInt r = rint s D := by rw [← ext_finite hf, he]
  rw [abs_val_sub_eq r hD hQ, div_le_div_iff₀ hDU (by positivity), ht]
  have hi' : ((2 * |rint s D * D - s| : Int) : ℚ) ≤ ((D : Nat) : ℚ) := by exact_mod_cast hi
  have hU : U * 2 = 2 ^ 1075 := by unfold U; rw [← pow_succ]
  push_cast at hi' ⊢
  calc |(rint s D : ℚ) * D - s| * 2 ^ 1075 = (2 * |(rint s D : ℚ) * D - s|) * U := by rw [← hU]; ring
    _ ≤ (D : ℚ) * U := mul_le_mul_of_nonneg_right hi' (le_of_lt U_pos)
    _ = 1 * ((D : ℚ) * U) := by ring

/-- **no overflow below the threshold** `2^1024 − 2^970` -/
theorem IsRound.fin_of_lt (h : IsRound r Q) (hlt : |Q| < 2 ^ 1024 - 2 ^ 970) : F64Order.Fin r := by
  obtain ⟨n, s, D, hD, hQ, he⟩ := h
  have hDU : (0 : ℚ) < (D : ℚ) * U := by have := U_pos; positivity
  have hs : s.natAbs < (2 ^ 54 - 1) * 2 ^ 2044 * D := by
    rw [abs_Q_eq hD hQ, div_lt_iff₀ hDU] at hlt
    have hc : ((2 : ℚ) ^ 1024 - 2 ^ 970) * U = (((2 ^ 54 - 1) * 2 ^ 2044 : Nat) : ℚ) := by
      unfold U
      have e1 : (2 : ℚ) ^ 1024 = 2 ^ 54 * 2 ^ 970 := by rw [← pow_add]
      have e2 : (2 : ℚ) ^ 2044 = 2 ^ 970 * 2 ^ 1074 := by rw [← pow_add]
      have e3 : (((2 ^ 54 - 1 : Nat)) : ℚ) = 2 ^ 54 - 1 := by norm_num
      rw [Nat.cast_mul, e3, Nat.cast_pow, Nat.cast_ofNat, e1, e2]; ring
    have h3 : ((s.natAbs : Nat) : ℚ) < (((2 ^ 54 - 1) * 2 ^ 2044 * D : Nat) : ℚ) := by
      rw [Nat.cast_mul _ D, ← hc, Nat.cast_natAbs]
      calc ((|s| : Int) : ℚ) < (2 ^ 1024 - 2 ^ 970) * ((D : ℚ) * U) := hlt
        _ = (2 ^ 1024 - 2 ^ 970) * U * D := by ring
    exact_mod_cast h3
  have := (rint_lt_iff s D).2 (rmag_lt_top _ _ hD hs)
  rw [← he] at this
  exact fin_of_ext_lt n this.1 this.2

/-- **overflow at and above the threshold**: the result is `±inf` -/
theorem IsRound.inf_of_ge (h : IsRound r Q) (hge : 2 ^ 1024 - 2 ^ 970 ≤ |Q|) : ¬ F64Order.Fin r := by
  obtain ⟨n, s, D, hD, hQ, he⟩ := h
  have hDU : (0 : ℚ) < (D : ℚ) * U := by have := U_pos; positivity
  have hs : (2 ^ 54 - 1) * 2 ^ 2044 * D ≤ s.natAbs := by
    rw [abs_Q_eq hD hQ, le_div_iff₀ hDU] at hge
    have hc : ((2 : ℚ) ^ 1024 - 2 ^ 970) * U = (((2 ^ 54 - 1) * 2 ^ 2044 : Nat) : ℚ) := by
      unfold U
      have e1 : (2 : ℚ) ^ 1024 = 2 ^ 54 * 2 ^ 970 := by rw [← pow_add]
      have e2 : (2 : ℚ) ^ 2044 = 2 ^ 970 * 2 ^ 1074 := by rw [← pow_add]
      have e3 : (((2 ^ 54 - 1 : Nat)) : ℚ) = 2 ^ 54 - 1 := by norm_num
      rw [Nat.cast_mul, e3, Nat.cast_pow, Nat.cast_ofNat, e1, e2]; ring
    have h3 : (((2 ^ 54 - 1) * 2 ^ 2044 * D : Nat) : ℚ) ≤ ((s.natAbs : Nat) : ℚ) := by
      rw [Nat.cast_mul _ D, ← hc, Nat.cast_natAbs]
      calc (2 ^ 1024 - 2 ^ 970) * U * D = (2 ^ 1024 - 2 ^ 970) * ((D : ℚ) * U) := by ring
        _ ≤ ((|s| : Int) : ℚ) := hge
    exact_mod_cast h3
  intro hf
  have hb := toInt_bounds r hf
  rw [← ext_finite hf, he] at hb
  have := (rint_lt_iff s D).1 hb
  have := rmag_top_le _ _ hD hs
  omega

end consequences

/-! ### instances of `IsRound` -/

/-- the sign as a rational -/
def sgnQ (neg : Bool) : ℚ := if neg then -1 else 1

theorem sgnI_cast (neg : Bool) : ((sgnI neg : Int) : ℚ) = sgnQ neg := by
  unfold sgnI sgnQ; cases neg <;> simp

/-- **`roundNE_spec`**: `roundNE neg n d` is the rounding of `± n / d` -/
theorem isRound_roundNE (neg : Bool) (n d : Nat) (hd : 0 < d) :
    IsRound (F64.roundNE neg n d) (sgnQ neg * n / d) := by
  refine ⟨roundNE_not_nan neg n d hd, sgnI neg * ((n * 2 ^ 1074 : Nat) : Int), d, hd, ?_, ext_roundNE neg n d hd⟩
  have hdq : (d : ℚ) ≠ 0 := by positivity
  push_cast
  rw [sgnI_cast]
  unfold U
  field_simp

/-- `roundDyadic neg m e` is the rounding of `± m · 2^e` -/
theorem isRound_roundDyadic (neg : Bool) (m : Nat) (e : Int) :
    IsRound (F64.roundDyadic neg m e) (sgnQ neg * m * 2 ^ e) := by
  refine ⟨roundDyadic_not_nan neg m e, sgnI neg * (dyN m e : Int), dyD e, Nat.two_pow_pos _, ?_,
    ext_roundDyadic neg m e⟩
  unfold dyN dyD
  push_cast
  rw [sgnI_cast]
  unfold U
  have h2 : (2 : ℚ) ≠ 0 := by norm_num
  by_cases he : 0 ≤ e
  · have h1 : (-e).toNat = 0 := by omega
    have h3 : (2 : ℚ) ^ e = 2 ^ e.toNat := by
      conv => lhs; rw [← Int.toNat_of_nonneg he]
      exact zpow_natCast 2 _
    rw [h1, h3]; ring
  · have h1 : e.toNat = 0 := by omega
    have h3 : (2 : ℚ) ^ e * 2 ^ (-e).toNat = 1 := by
      have : e = -(((-e).toNat : Nat) : Int) := by omega
      conv => lhs; arg 1; rw [this]
      rw [zpow_neg, zpow_natCast]
      exact inv_mul_cancel₀ (by positivity)
    rw [h1]
    calc sgnQ neg * ↑m * 2 ^ e * (2 ^ (-e).toNat * 2 ^ 1074)
        = sgnQ neg * ↑m * (2 ^ e * 2 ^ (-e).toNat) * 2 ^ 1074 := by ring
      _ = _ := by rw [h3]; ring

/-- **`add_spec`**: the sum of finite floats is the rounding of the exact sum (all operands, the sign of a
    zero result is not described by `IsRound`; see `add_zero_sign`) -/
theorem isRound_add {x y : F64} (hx : F64Order.Fin x) (hy : F64Order.Fin y) :
    IsRound (F64.add x y) (val x + val y) :=
  ⟨add_not_nan hx hy, toInt x + toInt y, 1, by decide, by
    push_cast; rw [← val_mul_U x, ← val_mul_U y]; ring, ext_add hx hy⟩

/-- **`sub_spec`** -/
theorem isRound_sub {x y : F64} (hx : F64Order.Fin x) (hy : F64Order.Fin y) :
    IsRound (F64.sub x y) (val x - val y) :=
  ⟨sub_not_nan hx hy, toInt x - toInt y, 1, by decide, by
    push_cast; rw [← val_mul_U x, ← val_mul_U y]; ring, ext_sub hx hy⟩

/-- **`mul_spec`** -/
theorem isRound_mul {x y : F64} (hx : F64Order.Fin x) (hy : F64Order.Fin y) :
    IsRound (F64.mul x y) (val x * val y) :=
  ⟨mul_not_nan hx hy, toInt x * toInt y, 2 ^ 1074, Nat.two_pow_pos _, by
    have : ((2 ^ 1074 : Nat) : ℚ) = U := by unfold U; rw [Nat.cast_pow, Nat.cast_ofNat]
    rw [this]; push_cast; rw [← val_mul_U x, ← val_mul_U y]; ring, ext_mul hx hy⟩

/-- **`div_spec`** (finite operands, non-zero divisor) -/
theorem isRound_div {x y : F64} (hx : F64Order.Fin x) (hy : F64Order.Fin y) (hy0 : y.isZero = false) :
    IsRound (F64.div x y) (val x / val y) := by
  refine ⟨div_not_nan hx hy hy0, _, mag y, mag_pos_of_not_zero hy0, ?_, ext_div hx hy hy0⟩
  have hmag : (0 : ℚ) < (mag y : ℚ) := by exact_mod_cast mag_pos_of_not_zero hy0
  have hU := U_pos
  have hT : (2 : ℚ) ^ 1074 = U := rfl
  have hvy : val y = sgnQ y.signBit * (mag y : ℚ) / U := by
    unfold val; rw [toInt_sgn_mag y]; push_cast; rw [sgnI_cast]
  have hvx : val x = (toInt x : ℚ) / U := rfl
  push_cast
  rw [hT, sgnI_cast, hvy, hvx]
  unfold sgnQ
  cases y.signBit
  · simp only [Bool.false_eq_true, if_false]
    field_simp
  · simp only [if_true]
    field_simp

/-! ### the sign of zero results (the part of IEEE-754 not covered by `IsRound`) -/

/-- exact cancellation gives `+0`, except `(-0) + (-0) = -0` -/
theorem add_zero_sign {x y : F64} (hx : F64Order.Fin x) (hy : F64Order.Fin y) (h : toInt x + toInt y = 0) :
    F64.add x y = F64.zero (x.isZero && y.isZero && x.signBit && y.signBit) := by
  unfold F64.add
  simp only [isNaN_false hx, isNaN_false hy, isInf_false hx, isInf_false hy, Bool.or_self,
    Bool.false_eq_true, if_false]
  by_cases hz : (x.isZero && y.isZero) = true
  · rw [if_pos hz]
    simp only [Bool.and_eq_true] at hz
    simp [hz.1, hz.2]
  · rw [if_neg hz]
    have e1 := expo_ge x
    have e2 := expo_ge y
    have hmin1 : min x.expo y.expo ≤ x.expo := min_le_left _ _
    have hmin2 : min x.expo y.expo ≤ y.expo := min_le_right _ _
    have hmin3 : -1074 ≤ min x.expo y.expo := le_min e1 e2
    rw [toInt_scale' x _ hmin1 hmin3, toInt_scale' y _ hmin2 hmin3, ← Int.add_mul] at h
    have hK : ((2 ^ (min x.expo y.expo + 1074).toNat : Nat) : Int) ≠ 0 := by
      have := Nat.two_pow_pos (min x.expo y.expo + 1074).toNat; omega
    have hs : x.toIntAt (min x.expo y.expo) + y.toIntAt (min x.expo y.expo) = 0 := by
      rcases Int.mul_eq_zero.1 h with h' | h'
      · exact h'
      · exact absurd h' hK
    simp only [hs]
    have : (x.isZero && y.isZero) = false := by simpa using hz
    simp [this]

/-- a product with a zero factor is the zero with the XOR sign -/
theorem mul_zero_sign {x y : F64} (hx : F64Order.Fin x) (hy : F64Order.Fin y)
    (h : x.isZero = true ∨ y.isZero = true) : F64.mul x y = F64.zero (x.signBit != y.signBit) := by
  unfold F64.mul
  simp only [isNaN_false hx, isNaN_false hy, isInf_false hx, isInf_false hy, Bool.or_self,
    Bool.false_eq_true, if_false]
  have : (x.isZero || y.isZero) = true := by rcases h with h | h <;> simp [h]
  rw [if_pos this]

/-! ### the statements of the brief, spelled out -/

/-- **`roundNE_spec`** (finite case): nearest, with ties to the even mantissa -/
theorem roundNE_spec (neg : Bool) (n d : Nat) (hn : 0 < n) (hd : 0 < d)
    (hf : F64Order.Fin (F64.roundNE neg n d)) :
    (∀ y : F64, |val (F64.roundNE neg n d) - sgnQ neg * n / d| ≤ |val y - sgnQ neg * n / d|) ∧
    (∀ y : F64, val y ≠ val (F64.roundNE neg n d) →
      |val y - sgnQ neg * n / d| = |val (F64.roundNE neg n d) - sgnQ neg * n / d| →
        (F64.roundNE neg n d).mant % 2 = 0) := by
  have hR := isRound_roundNE neg n d hd
  refine ⟨fun y => hR.nearest hf y, fun y hne heq => ?_⟩
  have hQ : (sgnQ neg * n / d) * ((d : ℚ) * U) = ((sgnI neg * ((n * 2 ^ 1074 : Nat) : Int) : Int) : ℚ) := by
    have hdq : (d : ℚ) ≠ 0 := by positivity
    push_cast; rw [sgnI_cast]; unfold U; field_simp
  have hDU : (0 : ℚ) < (d : ℚ) * U := by have := U_pos; positivity
  rw [abs_val_sub_eq y hd hQ, abs_val_sub_eq _ hd hQ, div_left_inj' (ne_of_gt hDU), Int.cast_inj] at heq
  exact roundNE_tie_even neg n d hn hd hf y (fun hc => hne (val_eq_iff.2 hc)) heq

/-- **`roundNE_spec`** (infinite case): the result is `inf neg` and `n/d ≥ 2^1024 − 2^970` -/
theorem roundNE_spec_inf (neg : Bool) (n d : Nat) (hn : 0 < n) (hd : 0 < d)
    (hf : ¬ F64Order.Fin (F64.roundNE neg n d)) :
    F64.roundNE neg n d = F64.inf neg ∧ (2 : ℚ) ^ 1024 - 2 ^ 970 ≤ n / d := by
  constructor
  · have h := roundNE_char neg n d hn hd
    rcases Nat.lt_or_ge (rmag (n * 2 ^ 1074) d) (2 ^ 2098) with hlt | hge
    · exact absurd (h.1 hlt).1 hf
    · exact h.2 hge
  · by_contra hc
    have hlt : |sgnQ neg * (n : ℚ) / d| < 2 ^ 1024 - 2 ^ 970 := by
      have : |sgnQ neg * (n : ℚ) / d| = n / d := by
        have hnd : (0 : ℚ) ≤ (n : ℚ) / d := by positivity
        unfold sgnQ; cases neg
        · simp only [Bool.false_eq_true, if_false, one_mul]; exact abs_of_nonneg hnd
        · simp only [if_true]; rw [neg_one_mul, neg_div, abs_neg]; exact abs_of_nonneg hnd
      rw [this]; exact lt_of_not_ge hc
    exact hf ((isRound_roundNE neg n d hd).fin_of_lt hlt)

/-- **standard model** for `+`: relative error `2^-53` with NO lower bound (sums in the subnormal range
    are exact) -/
theorem add_rel_err {x y : F64} (hx : F64Order.Fin x) (hy : F64Order.Fin y) (hf : F64Order.Fin (F64.add x y)) :
    |val (F64.add x y) - (val x + val y)| ≤ |val x + val y| / 2 ^ 53 := by
  by_cases hlow : 1 / 2 ^ 1022 ≤ |val x + val y|
  · exact (isRound_add hx hy).rel_err hf hlow
  · -- the exact sum is an integer below 2^52 units: exact
    have hs : (toInt x + toInt y).natAbs < 2 ^ 53 := by
      have hQ : (val x + val y) * (((1 : Nat) : ℚ) * U) = ((toInt x + toInt y : Int) : ℚ) := by
        push_cast; rw [← val_mul_U x, ← val_mul_U y]; ring
      rw [abs_Q_eq (by decide) hQ, not_le, div_lt_div_iff₀ (by have := U_pos; positivity) (by positivity)] at hlow
      have hU : U = 2 ^ 52 * 2 ^ 1022 := by unfold U; rw [← pow_add]
      have h1022 : (0 : ℚ) < 2 ^ 1022 := by positivity
      have : ((|toInt x + toInt y| : Int) : ℚ) * 2 ^ 1022 < 2 ^ 52 * 2 ^ 1022 := by
        calc ((|toInt x + toInt y| : Int) : ℚ) * 2 ^ 1022 < 1 * (((1 : Nat) : ℚ) * U) := hlow
          _ = 2 ^ 52 * 2 ^ 1022 := by rw [hU]; push_cast; ring
      have h2 : ((|toInt x + toInt y| : Int) : ℚ) < 2 ^ 52 := lt_of_mul_lt_mul_right this (le_of_lt h1022)
      have h3 : (((toInt x + toInt y).natAbs : Nat) : ℚ) < ((2 ^ 52 : Nat) : ℚ) := by
        rw [Nat.cast_natAbs, Nat.cast_pow, Nat.cast_ofNat]; exact h2
      have : (toInt x + toInt y).natAbs < 2 ^ 52 := by exact_mod_cast h3
      omega
    have he : toInt (F64.add x y) = toInt x + toInt y := by
      rw [← ext_finite hf, ext_add hx hy, rint_small_int _ hs]
    have : val (F64.add x y) = val x + val y := by
      unfold val; rw [he]; push_cast; ring
    rw [this, sub_self, abs_zero]; positivity

theorem sub_rel_err {x y : F64} (hx : F64Order.Fin x) (hy : F64Order.Fin y) (hf : F64Order.Fin (F64.sub x y)) :
    |val (F64.sub x y) - (val x - val y)| ≤ |val x - val y| / 2 ^ 53 := by
  have := add_rel_err hx ((isFinite_neg y).2 hy) hf
  rw [val_neg, ← sub_eq_add_neg] at this
  exact this

/-- **standard model** for `×`: relative error `2^-53` when `2^-1022 ≤ |x·y|` and the product is finite -/
theorem mul_rel_err {x y : F64} (hx : F64Order.Fin x) (hy : F64Order.Fin y) (hf : F64Order.Fin (F64.mul x y))
    (hlow : 1 / 2 ^ 1022 ≤ |val x * val y|) :
    |val (F64.mul x y) - val x * val y| ≤ |val x * val y| / 2 ^ 53 :=
  (isRound_mul hx hy).rel_err hf hlow

/-- absolute error `2^-1075` for `×` in the subnormal range -/
theorem mul_abs_err {x y : F64} (hx : F64Order.Fin x) (hy : F64Order.Fin y)
    (hhi : |val x * val y| < 1 / 2 ^ 1021) : |val (F64.mul x y) - val x * val y| ≤ 1 / 2 ^ 1075 :=
  (isRound_mul hx hy).abs_err hhi

/-- **standard model** for `÷` -/
theorem div_rel_err {x y : F64} (hx : F64Order.Fin x) (hy : F64Order.Fin y) (hy0 : y.isZero = false)
    (hf : F64Order.Fin (F64.div x y)) (hlow : 1 / 2 ^ 1022 ≤ |val x / val y|) :
    |val (F64.div x y) - val x / val y| ≤ |val x / val y| / 2 ^ 53 :=
  (isRound_div hx hy hy0).rel_err hf hlow

theorem div_abs_err {x y : F64} (hx : F64Order.Fin x) (hy : F64Order.Fin y) (hy0 : y.isZero = false)
    (hhi : |val x / val y| < 1 / 2 ^ 1021) : |val (F64.div x y) - val x / val y| ≤ 1 / 2 ^ 1075 :=
  (isRound_div hx hy hy0).abs_err hhi

/-- finiteness of the results from the size of the exact result (overflow threshold `2^1024 − 2^970`) -/
theorem add_fin_of_lt {x y : F64} (hx : F64Order.Fin x) (hy : F64Order.Fin y)
    (h : |val x + val y| < 2 ^ 1024 - 2 ^ 970) : F64Order.Fin (F64.add x y) := (isRound_add hx hy).fin_of_lt h
theorem sub_fin_of_lt {x y : F64} (hx : F64Order.Fin x) (hy : F64Order.Fin y)
    (h : |val x - val y| < 2 ^ 1024 - 2 ^ 970) : F64Order.Fin (F64.sub x y) := (isRound_sub hx hy).fin_of_lt h
theorem mul_fin_of_lt {x y : F64} (hx : F64Order.Fin x) (hy : F64Order.Fin y)
    (h : |val x * val y| < 2 ^ 1024 - 2 ^ 970) : F64Order.Fin (F64.mul x y) := (isRound_mul hx hy).fin_of_lt h
theorem div_fin_of_lt {x y : F64} (hx : F64Order.Fin x) (hy : F64Order.Fin y) (hy0 : y.isZero = false)
    (h : |val x / val y| < 2 ^ 1024 - 2 ^ 970) : F64Order.Fin (F64.div x y) := (isRound_div hx hy hy0).fin_of_lt h

/-- nearest-ness of the four operations, spelled out for `+` -/
theorem add_nearest {x y : F64} (hx : F64Order.Fin x) (hy : F64Order.Fin y) (hf : F64Order.Fin (F64.add x y))
    (z : F64) : |val (F64.add x y) - (val x + val y)| ≤ |val z - (val x + val y)| :=
  (isRound_add hx hy).nearest hf z

/-- "the result is round(exact result)": any two correctly rounded images agree, e.g.
    `x ⊕ y` and `roundNE` applied to the exact sum written as a fraction -/
theorem add_eq_roundNE {x y : F64} (hx : F64Order.Fin x) (hy : F64Order.Fin y) (neg : Bool) (n d : Nat)
    (hn : 0 < n) (hd : 0 < d) (h : val x + val y = sgnQ neg * n / d) : F64.add x y = F64.roundNE neg n d := by
  have h1 := isRound_add hx hy
  have h2 := isRound_roundNE neg n d hd
  rw [← h] at h2
  apply eq_of_ext_eq h1.1 h2.1 (h1.ext_unique h2)
  -- the exact sum is not zero, so neither is the rounded value … unless it underflows to zero;
  -- then both are zeros and the signs must be compared directly
  intro h0
  have hs : toInt x + toInt y ≠ 0 := by
    intro hc
    have : val x + val y = 0 := by
      unfold val; rw [← add_div, ← Int.cast_add, hc]; simp
    rw [this] at h
    have hnd : (0 : ℚ) < (n : ℚ) / d := by positivity
    unfold sgnQ at h
    cases neg
    · simp only [Bool.false_eq_true, if_false, one_mul] at h; rw [← h] at hnd; exact lt_irrefl _ hnd
    · simp only [if_true, neg_one_mul, neg_div] at h
      have : (n : ℚ) / d = 0 := by linarith
      rw [this] at hnd; exact lt_irrefl _ hnd
  -- a non-zero integer number of units never rounds to zero
  rw [ext_add hx hy] at h0
  have hpos := rmag_pos (toInt x + toInt y).natAbs 1 (by decide) (by omega)
  unfold rint rclamp at h0
  have : 0 < min (rmag (toInt x + toInt y).natAbs 1) (2 ^ 2098) := by
    apply Nat.lt_min.2; exact ⟨hpos, Nat.two_pow_pos _⟩
  split at h0 <;> omega

/-! ### square root -/

theorem val_of_nonneg {y : F64} (h : 0 ≤ val y) : val y = (mag y : ℚ) / U := by
  unfold val at h ⊢
  have h' : (0 : ℚ) ≤ (toInt y : ℚ) := by
    have := mul_nonneg h (le_of_lt U_pos)
    rwa [div_mul_cancel₀ _ (ne_of_gt U_pos)] at this
  have h'' : 0 ≤ toInt y := by exact_mod_cast h'
  have : toInt y = (mag y : Int) := by
    rw [toInt_eq_mag] at h'' ⊢
    split at h'' <;> rename_i hsb
    · rw [if_pos hsb]; omega
    · rw [if_neg hsb]
  rw [this]; push_cast; rfl

/-- **`sqrt_spec`**: for finite positive non-zero `x`, `F64.sqrt x` is finite, non-negative, and a float nearest to
    the real square root of `val x`: the real root lies on the result's side of the midpoint to any other
    non-negative float `y` (stated with squares, no real numbers needed). -/
theorem sqrt_spec {x : F64} (hx : F64Order.Fin x) (hs : x.signBit = false) (h0 : x.isZero = false) :
    F64Order.Fin (F64.sqrt x) ∧ 0 ≤ val (F64.sqrt x) ∧
    ∀ y : F64, 0 ≤ val y →
      (val y < val (F64.sqrt x) → ((val y + val (F64.sqrt x)) / 2) ^ 2 ≤ val x) ∧
      (val (F64.sqrt x) < val y → val x ≤ ((val y + val (F64.sqrt x)) / 2) ^ 2) := by
  obtain ⟨hf, hsg, hall⟩ := sqrt_spec_int hx hs h0
  have hvr : val (F64.sqrt x) = (mag (F64.sqrt x) : ℚ) / U := by
    unfold val; rw [toInt_eq_mag, hsg]; simp
  have hvx : val x = (mag x : ℚ) / U := by
    unfold val; rw [toInt_eq_mag, hs]; simp
  have hU := U_pos
  refine ⟨hf, by rw [hvr]; exact div_nonneg (Nat.cast_nonneg _) (le_of_lt hU), fun y hy => ?_⟩
  rw [val_of_nonneg hy, hvr, hvx]
  obtain ⟨h1, h2⟩ := hall y
  have hUdef : U = ((2 ^ 1074 : Nat) : ℚ) := by unfold U; rw [Nat.cast_pow, Nat.cast_ofNat]
  have e : ∀ a b : ℚ, ((a / U + b / U) / 2) ^ 2 = ((a + b) * (a + b)) / (4 * U * U) := by
    intro a b; field_simp; ring
  rw [e]
  constructor
  · intro hlt
    rw [div_lt_div_iff_of_pos_right hU] at hlt
    have hlt' : mag y < mag (F64.sqrt x) := by exact_mod_cast hlt
    have := h1 hlt'
    rw [div_le_div_iff₀ (by positivity) hU]
    have hq : (((mag y + mag (F64.sqrt x)) * (mag y + mag (F64.sqrt x)) : Nat) : ℚ) ≤
        ((4 * (mag x * 2 ^ 1074) : Nat) : ℚ) := by exact_mod_cast this
    rw [Nat.cast_mul, Nat.cast_add, Nat.cast_mul 4, Nat.cast_mul (mag x), ← hUdef] at hq
    calc ((mag y : ℚ) + mag (F64.sqrt x)) * ((mag y : ℚ) + mag (F64.sqrt x)) * U
        ≤ ((4 : Nat) : ℚ) * ((mag x : ℚ) * U) * U := mul_le_mul_of_nonneg_right hq (le_of_lt hU)
      _ = (mag x : ℚ) * (4 * U * U) := by push_cast; ring
  · intro hlt
    rw [div_lt_div_iff_of_pos_right hU] at hlt
    have hlt' : mag (F64.sqrt x) < mag y := by exact_mod_cast hlt
    have := h2 hlt'
    rw [div_le_div_iff₀ hU (by positivity)]
    have hq : ((4 * (mag x * 2 ^ 1074) : Nat) : ℚ) ≤
        (((mag y + mag (F64.sqrt x)) * (mag y + mag (F64.sqrt x)) : Nat) : ℚ) := by exact_mod_cast this
    rw [Nat.cast_mul (_ + _), Nat.cast_add, Nat.cast_mul 4, Nat.cast_mul (mag x), ← hUdef] at hq
    calc (mag x : ℚ) * (4 * U * U) = ((4 : Nat) : ℚ) * ((mag x : ℚ) * U) * U := by push_cast; ring
      _ ≤ ((mag y : ℚ) + mag (F64.sqrt x)) * ((mag y : ℚ) + mag (F64.sqrt x)) * U :=
          mul_le_mul_of_nonneg_right hq (le_of_lt hU)

/-! ### `roundDyadic`, spelled out -/

/-- `roundDyadic` is `roundNE` of the dyadic written as a fraction -/
theorem roundDyadic_as_frac (neg : Bool) (m : Nat) (e : Int) :
    ∃ n d : Nat, 0 < d ∧ (0 < m → 0 < n) ∧ F64.roundDyadic neg m e = F64.roundNE neg n d ∧
      sgnQ neg * m * 2 ^ e = sgnQ neg * n / d := by
  by_cases he : 0 ≤ e
  · refine ⟨m * 2 ^ e.toNat, 1, by decide, fun h => Nat.mul_pos h (Nat.two_pow_pos _), ?_, ?_⟩
    · unfold F64.roundDyadic; rw [if_pos he]
    · have h3 : (2 : ℚ) ^ e = 2 ^ e.toNat := by
        conv => lhs; rw [← Int.toNat_of_nonneg he]
        exact zpow_natCast 2 _
      rw [h3]; push_cast; ring
  · refine ⟨m, 2 ^ (-e).toNat, Nat.two_pow_pos _, fun h => h, ?_, ?_⟩
    · unfold F64.roundDyadic; rw [if_neg he]
    · have h3 : (2 : ℚ) ^ e = (2 ^ (-e).toNat)⁻¹ := by
        have : e = -(((-e).toNat : Nat) : Int) := by omega
        conv => lhs; rw [this]
        rw [zpow_neg, zpow_natCast]
      rw [h3]; push_cast; rw [div_eq_mul_inv]

/-- **`roundDyadic_spec`**: nearest with ties to even (finite case) -/
theorem roundDyadic_spec (neg : Bool) (m : Nat) (e : Int) (hm : 0 < m)
    (hf : F64Order.Fin (F64.roundDyadic neg m e)) :
    (∀ y : F64, |val (F64.roundDyadic neg m e) - sgnQ neg * m * 2 ^ e| ≤ |val y - sgnQ neg * m * 2 ^ e|) ∧
    (∀ y : F64, val y ≠ val (F64.roundDyadic neg m e) →
      |val y - sgnQ neg * m * 2 ^ e| = |val (F64.roundDyadic neg m e) - sgnQ neg * m * 2 ^ e| →
        (F64.roundDyadic neg m e).mant % 2 = 0) := by
  obtain ⟨n, d, hd, hn, heq, hq⟩ := roundDyadic_as_frac neg m e
  rw [heq, hq]
  rw [heq] at hf
  exact roundNE_spec neg n d (hn hm) hd hf

/-- **`roundDyadic_spec`** (infinite case) -/
theorem roundDyadic_spec_inf (neg : Bool) (m : Nat) (e : Int) (hm : 0 < m)
    (hf : ¬ F64Order.Fin (F64.roundDyadic neg m e)) :
    F64.roundDyadic neg m e = F64.inf neg ∧ (2 : ℚ) ^ 1024 - 2 ^ 970 ≤ m * 2 ^ e := by
  obtain ⟨n, d, hd, hn, heq, hq⟩ := roundDyadic_as_frac false m e
  obtain ⟨n', d', hd', hn', heq', hq'⟩ := roundDyadic_as_frac neg m e
  have hq1 : (m : ℚ) * 2 ^ e = n / d := by
    unfold sgnQ at hq; simpa using hq
  rw [hq1]
  -- use the presentation for the given sign for the float, the positive one for the value
  have h1 := isRound_roundDyadic neg m e
  have hinf : ¬ |sgnQ neg * (m : ℚ) * 2 ^ e| < 2 ^ 1024 - 2 ^ 970 := fun hlt => hf (h1.fin_of_lt hlt)
  have habs : |sgnQ neg * (m : ℚ) * 2 ^ e| = n / d := by
    have hnd : (0 : ℚ) ≤ (m : ℚ) * 2 ^ e :=
      mul_nonneg (Nat.cast_nonneg _) (le_of_lt (zpow_pos (by norm_num) e))
    rw [← hq1]
    unfold sgnQ; cases neg
    · simp only [Bool.false_eq_true, if_false, one_mul]; exact abs_of_nonneg hnd
    · simp only [if_true, neg_one_mul]; rw [neg_mul, abs_neg]; exact abs_of_nonneg hnd
  rw [habs] at hinf
  refine ⟨?_, le_of_not_gt hinf⟩
  rw [heq'] at hf ⊢
  exact (roundNE_spec_inf neg n' d' (hn' hm) hd' hf).1

/-- a zero dividend gives the zero with the XOR sign -/
theorem div_zero_sign {x y : F64} (hx : F64Order.Fin x) (hy : F64Order.Fin y) (hy0 : y.isZero = false)
    (h : x.isZero = true) : F64.div x y = F64.zero (x.signBit != y.signBit) := by
  unfold F64.div
  simp only [isNaN_false hx, isNaN_false hy, isInf_false hx, isInf_false hy, hy0, h, Bool.or_self,
    Bool.false_eq_true, if_false, if_true]

/-! ### integer conversion -/

theorem ext_ofInt (i : Int) : ext (F64.ofInt i) = rint (i * ((2 ^ 1074 : Nat) : Int)) 1 := by
  unfold F64.ofInt
  split
  · rename_i h
    have : i = 0 := by simpa using h
    subst this
    simp only [Int.zero_mul, rint_zero]; decide
  · rw [ext_roundNE _ _ _ (by decide), Int.natCast_mul, ← Int.mul_assoc, sgnI_mul_natAbs]

/-- `float64(i)` is the rounding of the integer `i` -/
theorem isRound_ofInt (i : Int) : IsRound (F64.ofInt i) (i : ℚ) := by
  refine ⟨?_, i * ((2 ^ 1074 : Nat) : Int), 1, by decide, ?_, ext_ofInt i⟩
  · unfold F64.ofInt; split
    · decide
    · exact roundNE_not_nan _ _ _ (by decide)
  · unfold U; push_cast; ring

/-- integers below `2^53` in magnitude convert exactly -/
theorem ofInt_exact (i : Int) (h : i.natAbs < 2 ^ 53) :
    F64Order.Fin (F64.ofInt i) ∧ toInt (F64.ofInt i) = i * ((2 ^ 1074 : Nat) : Int) := by
  have he := ext_ofInt i
  have hab : (i * ((2 ^ 1074 : Nat) : Int)).natAbs = i.natAbs * 2 ^ 1074 := by
    rw [Int.natAbs_mul, Int.natAbs_natCast]
  have hlt : (i * ((2 ^ 1074 : Nat) : Int)).natAbs < 2 ^ 2098 := by
    rw [hab]
    calc i.natAbs * 2 ^ 1074 < 2 ^ 53 * 2 ^ 1074 := Nat.mul_lt_mul_of_pos_right h (Nat.two_pow_pos _)
      _ = 2 ^ 1127 := by rw [← Nat.pow_add]
      _ < 2 ^ 2098 := Nat.pow_lt_pow_right (by decide) (by decide)
  rw [rint_rep _ (by rw [hab]; exact ⟨_, _, h, rfl⟩) hlt] at he
  have hn : (F64.ofInt i).isNaN = false := (isRound_ofInt i).1
  have hf : F64Order.Fin (F64.ofInt i) := fin_of_ext_lt hn (by rw [he]; omega) (by rw [he]; omega)
  exact ⟨hf, by rw [← ext_finite hf, he]⟩

example : F64.ofInt 3 = F64.three ∧ F64.ofInt (2 ^ 53 + 1) = F64.ofInt (2 ^ 53) := by decide +kernel

/-! ### non-vacuity of the error-bound hypotheses -/

theorem val_one : val F64.one = 1 := by unfold val U; rw [toInt_one]; norm_num
theorem val_three : val F64.three = 3 := by
  have h3 : toInt F64.three = 3 * 2 ^ 1074 := by decide +kernel
  unfold val U; rw [h3]; push_cast; field_simp

/-- hypotheses of `div_rel_err` / `mul_rel_err` on `1 / 3`, `1 · 3` (the quotient is inexact) -/
example : F64Order.Fin F64.one ∧ F64Order.Fin F64.three ∧ F64.three.isZero = false ∧
    F64Order.Fin (F64.div F64.one F64.three) ∧ (1 : ℚ) / 2 ^ 1022 ≤ |val F64.one / val F64.three| ∧
    F64.div F64.one F64.three = ⟨0x3FD5555555555555⟩ := by
  refine ⟨by decide, by decide, by decide, by decide +kernel, ?_, by decide +kernel⟩
  rw [val_one, val_three, abs_of_pos (by norm_num)]
  have : (1 : ℚ) / 2 ^ 1022 ≤ 1 / 2 ^ 2 := by
    apply div_le_div_of_nonneg_left (by norm_num) (by positivity)
    exact pow_le_pow_right₀ (by norm_num) (by norm_num)
  have h2 : (1 : ℚ) / 2 ^ 2 ≤ 1 / 3 := by norm_num
  linarith

/-! ### non-vacuity on concrete bit patterns -/

/-- `1 + (2^-53 + 2^-105)`: finite, inexact, within the bound -/
example : F64Order.Fin F64.one ∧ F64Order.Fin ⟨0x3CA0000000000001⟩ ∧
    F64Order.Fin (F64.add F64.one ⟨0x3CA0000000000001⟩) ∧
    toInt (F64.add F64.one ⟨0x3CA0000000000001⟩) ≠ toInt F64.one + toInt ⟨0x3CA0000000000001⟩ := by
  decide +kernel

/-- a tie: `1 + 2^-53` is half-way between `1` and `1 + 2^-52`; the even mantissa (`1`) wins;
    `(1 + 2^-52) + 2^-53` is a tie that rounds UP to the even `1 + 2^-51` -/
example : F64.add F64.one ⟨0x3CA0000000000000⟩ = F64.one ∧
    F64.add ⟨0x3FF0000000000001⟩ ⟨0x3CA0000000000000⟩ = ⟨0x3FF0000000000002⟩ := by decide +kernel

/-- subnormal product: `2^-537 · 2^-538 = 2^-1075` is a tie between 0 and the smallest subnormal → 0 (even) -/
example : F64.mul ⟨0x1E60000000000000⟩ ⟨0x1E50000000000000⟩ = F64.zero false ∧
    F64.mul ⟨0x1E60000000000000⟩ ⟨0x1E60000000000000⟩ = ⟨0x0000000000000001⟩ := by decide +kernel

/-- overflow: `maxfloat + 2^970` is exactly the threshold and rounds to +inf; `maxfloat + 2^969` does not -/
example : F64.add ⟨0x7FEFFFFFFFFFFFFF⟩ ⟨0x7C90000000000000⟩ = F64.inf false ∧
    F64.add ⟨0x7FEFFFFFFFFFFFFF⟩ ⟨0x7C80000000000000⟩ = ⟨0x7FEFFFFFFFFFFFFF⟩ := by decide +kernel

end S2Proofs.F64Round
