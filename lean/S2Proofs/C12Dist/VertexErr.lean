/-
  C12Dist.VertexErr — float error of `vertexChordDist2` (C12, point target):

      vertexChordDist2 c p xHi yHi = fmin 4 |p − normalize (x, y, 1)|²      (x, y two of the cell's uv bounds)

  against the exact `min 4 |p − V̂|²`, `V̂ = (x,y,1)/√(1+x²+y²)`.

  Error count (u = 2^-53): the normalised vertex is within 9.001u of V̂ (`scaleSpec`), the three subtractions
  add a relative u, so `| |D| − |p − V̂| | ≤ 11.01u`; squaring (|p − V̂| ≤ 2 + 2^-21) gives 44.05u, the float
  squared norm another 3.001u·4 — together < 57u.
-/
import S2Proofs.C12Dist.Spec
import S2Proofs.C16Acc.Norm

namespace S2Proofs.C12Dist
open S2 S2.CellM S2.Exact S2Proofs.FloatErr S2Proofs.F64Order S2Proofs.C16Acc

namespace VertexErr

/-! ### floats: order, constants, `fmin`, non-negativity of a float squared norm -/

theorem val_lt_iff (x y : F64) : val x < val y ↔ toInt x < toInt y := by
  unfold val
  rw [div_lt_div_iff_of_pos_right (by positivity)]
  exact Int.cast_lt

theorem val_le_iff (x y : F64) : val x ≤ val y ↔ toInt x ≤ toInt y := by
  unfold val
  rw [div_le_div_iff_of_pos_right (by positivity)]
  exact Int.cast_le

theorem val_eq_iff (x y : F64) : val x = val y ↔ toInt x = toInt y := by
  constructor
  · intro h
    exact le_antisymm ((val_le_iff x y).1 h.le) ((val_le_iff y x).1 h.ge)
  · intro h; unfold val; rw [h]

theorem fin_four : Fin F64.four := by decide
theorem fin_one : Fin F64.one := by decide

theorem val_four : val F64.four = 4 := by
  have h : toInt F64.four = 4 * 2 ^ 1074 := by decide +kernel
  unfold val; rw [h]; push_cast; field_simp

theorem val_one : val F64.one = 1 := S2Proofs.FE2.val_one'

theorem val_zero : val (F64.zero false) = 0 := (zero_val false).2

/-- a float value above `-2^-1074` is non-negative (values are integer multiples of `2^-1074`) -/
theorem val_nonneg_of_gt {x : F64} (h : -(1 / 2 ^ 1074) < val x) : 0 ≤ val x := by
  unfold val at h ⊢
  have h1 : (-1 : ℝ) < (toInt x : ℝ) := by
    have hp : (0 : ℝ) < 2 ^ 1074 := by positivity
    rw [← neg_div, div_lt_div_iff_of_pos_right hp] at h
    exact h
  have h2 : (-1 : ℤ) < toInt x := by exact_mod_cast h1
  have h3 : (0 : ℤ) ≤ toInt x := by omega
  have h4 : (0 : ℝ) ≤ (toInt x : ℝ) := by exact_mod_cast h3
  positivity

theorem eR_lt : eR < 1 / 2 ^ 1074 := by
  unfold eR
  exact one_div_lt_one_div_of_lt (by positivity) (pow_lt_pow_right₀ (by norm_num) (by norm_num))

/-- the float square of a finite float is non-negative -/
theorem val_sq_nonneg {x : F64} (hx : Fin x) (hb : |val x * val x| < 2 ^ 1000) : 0 ≤ val (x * x) := by
  obtain ⟨δ, η, hδ, hη, hv, _⟩ := stdModel.mul x x hx hx hb
  apply val_nonneg_of_gt
  show _ < val (F64.mul x x)
  rw [hv]
  have h1 : 0 ≤ val x * val x * (1 + δ) := by
    have := (abs_le.mp hδ).1
    have hu := uR_le_one
    exact mul_nonneg (mul_self_nonneg _) (by linarith)
  have h2 := (abs_le.mp hη).1
  have := eR_lt
  linarith

/-- the float sum of two non-negative finite floats is non-negative -/
theorem val_add_nonneg {x y : F64} (hx : Fin x) (hy : Fin y) (hb : |val x + val y| < 2 ^ 1000)
    (h0x : 0 ≤ val x) (h0y : 0 ≤ val y) : 0 ≤ val (x + y) := by
  obtain ⟨δ, hδ, hv, _⟩ := stdModel.add x y hx hy hb
  show 0 ≤ val (F64.add x y)
  rw [hv]
  have := (abs_le.mp hδ).1
  have hu := uR_le_one
  exact mul_nonneg (by linarith) (by linarith)

/-- the float squared norm is non-negative -/
theorem norm2_val_nonneg (d : V3) (hd : Fin3 d)
    (m : |val d.x| ≤ 2 ^ 14 ∧ |val d.y| ≤ 2 ^ 14 ∧ |val d.z| ≤ 2 ^ 14) : 0 ≤ val d.norm2 := by
  have H := stdModel
  obtain ⟨h1, h2, h3⟩ := hd
  obtain ⟨m1, m2, m3⟩ := m
  have e28 : (2 : ℝ) ^ 14 * 2 ^ 14 = 2 ^ 28 := by rw [← pow_add]
  have p1 : |val d.x * val d.x| ≤ 2 ^ 28 := by have := abs_mul_le_of m1 m1; linarith
  have p2 : |val d.y * val d.y| ≤ 2 ^ 28 := by have := abs_mul_le_of m2 m2; linarith
  have p3 : |val d.z * val d.z| ≤ 2 ^ 28 := by have := abs_mul_le_of m3 m3; linarith
  obtain ⟨fq1, rq1, _⟩ := mul_step H h1 h1 p1 (by norm_num)
  obtain ⟨fq2, rq2, _⟩ := mul_step H h2 h2 p2 (by norm_num)
  obtain ⟨fq3, rq3, _⟩ := mul_step H h3 h3 p3 (by norm_num)
  have gq1 := rnd_tight rq1 p1 (by norm_num) eR_le_one
  have gq2 := rnd_tight rq2 p2 (by norm_num) eR_le_one
  have gq3 := rnd_tight rq3 p3 (by norm_num) eR_le_one
  have n1 := val_sq_nonneg h1 (lt_big (le_trans p1 (by norm_num)))
  have n2 := val_sq_nonneg h2 (lt_big (le_trans p2 (by norm_num)))
  have n3 := val_sq_nonneg h3 (lt_big (le_trans p3 (by norm_num)))
  have ms : |val (d.x * d.x) + val (d.y * d.y)| ≤ 2 ^ 29 + 4 := by
    have := abs_add_le (val (d.x * d.x)) (val (d.y * d.y))
    have e : (2 : ℝ) ^ 29 = 2 ^ 28 + 2 ^ 28 := by norm_num
    linarith
  obtain ⟨fs, rs, _⟩ := add_step H fq1 fq2 ms (by norm_num)
  have gs := rnd_tight rs ms (by norm_num) (by norm_num)
  have ns := val_add_nonneg fq1 fq2 (lt_big (le_trans ms (by norm_num))) n1 n2
  have md : |val (d.x * d.x + d.y * d.y) + val (d.z * d.z)| ≤ 2 ^ 30 := by
    have := abs_add_le (val (d.x * d.x + d.y * d.y)) (val (d.z * d.z))
    have e : (2 : ℝ) ^ 29 + 4 + 2 + (2 ^ 28 + 2) ≤ 2 ^ 30 := by norm_num
    linarith
  exact val_add_nonneg fs fq3 (lt_big md) ns n3

/-- `math.Min` of two finite floats -/
theorem fmin_fin {x y : F64} (hx : Fin x) (hy : Fin y) :
    Fin (F64.fmin x y) ∧ val (F64.fmin x y) = min (val x) (val y) := by
  unfold F64.fmin
  simp only [isInf_false hx, isInf_false hy, isNaN_false hx, isNaN_false hy, Bool.false_and, Bool.or_self,
    Bool.false_eq_true, if_false]
  split
  · rename_i h
    simp only [Bool.and_eq_true] at h
    have v1 := val_of_isZero h.1
    have v2 := val_of_isZero h.2
    split
    · exact ⟨hx, by rw [v1, v2, min_self]⟩
    · exact ⟨hy, by rw [v1, v2, min_self]⟩
  · split
    · rename_i h
      have := (val_lt_iff x y).2 ((lt_iff hx hy).1 h)
      exact ⟨hx, by rw [min_eq_left this.le]⟩
    · rename_i h
      have : ¬ val x < val y := fun hc => h ((lt_iff hx hy).2 ((val_lt_iff x y).1 hc))
      exact ⟨hy, by rw [min_eq_right (not_lt.1 this)]⟩

/-! ### the real-number core -/

theorem four_eR_le_u : 4 * eR ≤ uR / 1000 := by
  rw [eR_eq]
  have h : (1 : ℝ) / 2 ^ 1022 ≤ 1 / 4000 :=
    one_div_le_one_div_of_le (by norm_num)
      (le_trans (by norm_num : (4000 : ℝ) ≤ 2 ^ 12) (pow_le_pow_right₀ (by norm_num) (by norm_num)))
  have := mul_le_mul_of_nonneg_left h uR_nonneg
  linarith

theorem min_lip (m a b : ℝ) : |min m a - min m b| ≤ |a - b| := by
  rw [abs_le]
  have h1 := le_abs_self (a - b)
  have h2 := neg_abs_le (a - b)
  rcases le_total m a with ha | ha <;> rcases le_total m b with hb | hb
  · rw [min_eq_left ha, min_eq_left hb]; constructor <;> linarith [abs_nonneg (a - b)]
  · rw [min_eq_left ha, min_eq_right hb]; constructor <;> linarith
  · rw [min_eq_right ha, min_eq_left hb]; constructor <;> linarith
  · rw [min_eq_right ha, min_eq_right hb]; constructor <;> linarith

theorem abs_norm_sub_le (a b : R3) : |a.norm - b.norm| ≤ (R3.sub a b).norm := by
  have h1 := R3.norm_le_add_sub a b
  have h2 := R3.norm_le_add_sub b a
  rw [R3.norm_sub_comm b a] at h2
  rw [abs_le]; constructor <;> linarith

/-- scalars: `a = |T − V̂|`, `c = |D|` (the computed difference), `n2 = fl(|D|²)` -/
theorem scalar_core {a c n2 : ℝ} (ha0 : 0 ≤ a) (ha : a ≤ 2 + 1 / 2 ^ 21) (hc0 : 0 ≤ c)
    (hca : |c - a| ≤ (11 + 1 / 100) * uR) (hn : |n2 - c ^ 2| ≤ rhoU uR * c ^ 2 + 4 * eR) :
    |n2 - a ^ 2| ≤ 57 * uR := by
  have hκ : (11 + 1 / 100) * uR ≤ 1 / 2 ^ 22 := by unfold uR; norm_num
  have hb := abs_le.mp hca
  have hc : c ≤ 2 + 1 / 2 ^ 20 := by
    have : (1 : ℝ) / 2 ^ 21 + 1 / 2 ^ 22 ≤ 1 / 2 ^ 20 := by norm_num
    linarith
  have hsum : c + a ≤ 4 + 1 / 2 ^ 18 := by
    have : (1 : ℝ) / 2 ^ 20 + 1 / 2 ^ 21 ≤ 1 / 2 ^ 18 := by norm_num
    linarith
  have h1 : |c ^ 2 - a ^ 2| ≤ (11 + 1 / 100) * uR * (4 + 1 / 2 ^ 18) := by
    have e : c ^ 2 - a ^ 2 = (c - a) * (c + a) := by ring
    rw [e, abs_mul, abs_of_nonneg (by linarith : 0 ≤ c + a)]
    exact mul_le_mul hca hsum (by linarith) (mul_nonneg (by norm_num) uR_nonneg)
  have hc2 : c ^ 2 ≤ 4 + 1 / 2 ^ 17 := by
    have h := pow_le_pow_left₀ hc0 hc 2
    have : ((2 : ℝ) + 1 / 2 ^ 20) ^ 2 ≤ 4 + 1 / 2 ^ 17 := by norm_num
    linarith
  have hρ := rhoU_le3
  have hρ0 := rhoU_nn
  have h2 : rhoU uR * c ^ 2 ≤ (3 + 1 / 1000) * uR * (4 + 1 / 2 ^ 17) :=
    mul_le_mul hρ hc2 (sq_nonneg c) (mul_nonneg (by norm_num) uR_nonneg)
  have h3 := four_eR_le_u
  have htri : |n2 - a ^ 2| ≤ |n2 - c ^ 2| + |c ^ 2 - a ^ 2| := abs_sub_le _ _ _
  have hu0 := uR_nonneg
  have e1 : (11 + 1 / 100) * uR * (4 + 1 / 2 ^ 18) = ((11 + 1 / 100) * (4 + 1 / 2 ^ 18)) * uR := by ring
  have e2 : (3 + 1 / 1000) * uR * (4 + 1 / 2 ^ 17) = ((3 + 1 / 1000) * (4 + 1 / 2 ^ 17)) * uR := by ring
  have k : ((11 + 1 / 100) * (4 + 1 / 2 ^ 18) + (3 + 1 / 1000) * (4 + 1 / 2 ^ 17) + 1 / 1000 : ℝ) ≤ 57 := by
    norm_num
  have k' := mul_le_mul_of_nonneg_right k hu0
  rw [e1] at h1
  rw [e2] at h2
  linarith

/-- vectors: `T` the target, `Vh` the exact unit vertex, `Q` the computed one, `D = fl(T − Q)` -/
theorem vec_core {T Vh Q D : R3} {n2 : ℝ} (hVh : Vh.norm = 1) (hT : T.norm2 ≤ 1 + 1 / 2 ^ 20)
    (hQ : (R3.sub Q Vh).norm ≤ (9 + 1 / 1000) * uR)
    (hD : (R3.sub D (R3.sub T Q)).norm ≤ uR * (R3.sub T Q).norm)
    (hn : |n2 - D.norm2| ≤ rhoU uR * D.norm2 + 4 * eR) :
    |n2 - dist2 T Vh| ≤ 57 * uR := by
  have hTn : T.norm ≤ 1 + 1 / 2 ^ 21 := by
    apply R3.norm_le_of_sq (by positivity)
    have : (1 : ℝ) + 1 / 2 ^ 20 ≤ (1 + 1 / 2 ^ 21) ^ 2 := by norm_num
    linarith
  have ha : (R3.sub T Vh).norm ≤ 2 + 1 / 2 ^ 21 := by
    have := R3.norm_sub_le T Vh
    linarith
  have hba : |(R3.sub T Q).norm - (R3.sub T Vh).norm| ≤ (9 + 1 / 1000) * uR := by
    have h := abs_norm_sub_le (R3.sub T Q) (R3.sub T Vh)
    have e : (R3.sub (R3.sub T Q) (R3.sub T Vh)).norm = (R3.sub Q Vh).norm := by
      unfold R3.norm; congr 1; unfold R3.norm2 R3.sub; ring
    rw [e] at h
    exact le_trans h hQ
  have hcb : |D.norm - (R3.sub T Q).norm| ≤ uR * (R3.sub T Q).norm :=
    le_trans (abs_norm_sub_le D (R3.sub T Q)) hD
  have hb1 := abs_le.mp hba
  have hb2 := abs_le.mp hcb
  have hu0 := uR_nonneg
  have hε : (9 + 1 / 1000) * uR ≤ 1 / 2 ^ 21 := by unfold uR; norm_num
  have hb : (R3.sub T Q).norm ≤ 2 + 1 / 2 ^ 20 := by
    have : (1 : ℝ) / 2 ^ 21 + 1 / 2 ^ 21 = 1 / 2 ^ 20 := by norm_num
    linarith
  have hub : uR * (R3.sub T Q).norm ≤ uR * (2 + 1 / 2 ^ 20) := mul_le_mul_of_nonneg_left hb hu0
  have hca : |D.norm - (R3.sub T Vh).norm| ≤ (11 + 1 / 100) * uR := by
    have k : uR * (2 + 1 / 2 ^ 20) + (9 + 1 / 1000) * uR ≤ (11 + 1 / 100) * uR := by
      have : ((2 : ℝ) + 1 / 2 ^ 20) + (9 + 1 / 1000) ≤ 11 + 1 / 100 := by norm_num
      have := mul_le_mul_of_nonneg_right this hu0
      linarith
    rw [abs_le]; constructor <;> linarith
  have e1 : dist2 T Vh = (R3.sub T Vh).norm ^ 2 := by unfold dist2; rw [R3.norm_sq]
  rw [e1]
  rw [← R3.norm_sq D] at hn
  exact scalar_core (R3.norm_nonneg _) ha (R3.norm_nonneg _) hca hn

/-- the normalised vector is within `9.001u` of the exact unit vector -/
theorem unit_close {V ν : R3} {s : ℝ} (hV : 0 < V.norm) (hs : 0 < s) (hsn : |s * V.norm - 1| ≤ 8 * uR)
    (hν : ν.norm ≤ (uR + 1 / 2 ^ 500) * V.norm) :
    (R3.smul (1 / V.norm) V).norm = 1 ∧
    (R3.sub (R3.smul s (R3.add V ν)) (R3.smul (1 / V.norm) V)).norm ≤ (9 + 1 / 1000) * uR := by
  have hne : V.norm ≠ 0 := hV.ne'
  constructor
  · rw [R3.norm_smul, abs_of_pos (by positivity)]; field_simp
  have e : R3.sub (R3.smul s (R3.add V ν)) (R3.smul (1 / V.norm) V)
      = R3.add (R3.smul (s - 1 / V.norm) V) (R3.smul s ν) := by
    unfold R3.sub R3.smul R3.add; ext <;> simp <;> ring
  rw [e]
  have h1 := R3.norm_add_le (R3.smul (s - 1 / V.norm) V) (R3.smul s ν)
  rw [R3.norm_smul, R3.norm_smul, abs_of_pos hs] at h1
  have e2 : |s - 1 / V.norm| * V.norm = |s * V.norm - 1| := by
    rw [← abs_of_pos hV, ← abs_mul, abs_of_pos hV]; congr 1; field_simp
  rw [e2] at h1
  have hb := abs_le.mp hsn
  have hu0 := uR_nonneg
  have hw : (1 : ℝ) / 2 ^ 500 ≤ uR / 10000 := by
    unfold uR
    rw [div_div]
    exact one_div_le_one_div_of_le (by positivity)
      (le_trans (by norm_num : (2 : ℝ) ^ 53 * 10000 ≤ 2 ^ 70) (pow_le_pow_right₀ (by norm_num) (by norm_num)))
  have hw0 : (0 : ℝ) ≤ 1 / 2 ^ 500 := by positivity
  generalize (1 : ℝ) / 2 ^ 500 = w at hw hw0 hν
  have h2 : s * ν.norm ≤ (uR + w) * (s * V.norm) := by
    have := mul_le_mul_of_nonneg_left hν hs.le
    have e3 : s * ((uR + w) * V.norm) = (uR + w) * (s * V.norm) := by ring
    linarith
  have c8 : 1 + 8 * uR ≤ 1 + 1 / 10000 := by unfold uR; norm_num
  have h3 : (uR + w) * (s * V.norm) ≤ (uR + w) * (1 + 1 / 10000) :=
    mul_le_mul_of_nonneg_left (by linarith) (by linarith)
  linarith

/-! ### the float computation -/

theorem pointFromCoords_eq (x y : F64)
    (h : F64.feq (V3.mk x y F64.one).norm2 (F64.zero false) = false) :
    pointFromCoords x y F64.one
      = (V3.mk x y F64.one).mul (F64.one / F64.sqrt (V3.mk x y F64.one).norm2) := by
  unfold pointFromCoords
  have h1 : F64.feq F64.one fzero = false := by decide +kernel
  simp only [h1, Bool.and_false, Bool.false_eq_true, if_false]
  exact normalize_eq _ h

theorem vhat_eq (x y : F64) :
    vhat (val x) (val y) = R3.smul (1 / (ofV (V3.mk x y F64.one)).norm) (ofV (V3.mk x y F64.one)) := by
  unfold vhat ofV R3.norm R3.norm2
  simp only [val_one]
  have e : (1 : ℝ) + val x ^ 2 + val y ^ 2 = val x ^ 2 + val y ^ 2 + 1 ^ 2 := by ring
  rw [e]

/-- everything about `ChordAngleBetweenPoints(t, PointFromCoords(x, y, 1))` -/
theorem vertexChord_full (t : V3) (x y : F64) (ht : Fin3 t) (hx : Fin x) (hy : Fin y)
    (bx : |val x| ≤ 1) (by' : |val y| ≤ 1) (bt : (ofV t).norm2 ≤ 1 + 1 / 2 ^ 20) :
    Fin (chordAngleBetweenPoints t (pointFromCoords x y F64.one)) ∧
    |val (chordAngleBetweenPoints t (pointFromCoords x y F64.one))
        - min 4 (dist2 (ofV t) (vhat (val x) (val y)))| ≤ 57 * uR ∧
    0 ≤ val (chordAngleBetweenPoints t (pointFromCoords x y F64.one)) ∧
    val (chordAngleBetweenPoints t (pointFromCoords x y F64.one)) ≤ 4 := by
  have H := stdModel
  have hu0 := uR_nonneg
  -- the vector (x, y, 1)
  have hv3 : Fin3 (V3.mk x y F64.one) := ⟨hx, hy, fin_one⟩
  have p14 : (1 : ℝ) ≤ 2 ^ 14 := by norm_num
  have m1 : |val (V3.mk x y F64.one).x| ≤ 2 ^ 14 := le_trans bx p14
  have m2 : |val (V3.mk x y F64.one).y| ≤ 2 ^ 14 := le_trans by' p14
  have m3 : |val (V3.mk x y F64.one).z| ≤ 2 ^ 14 := by
    show |val F64.one| ≤ 2 ^ 14
    rw [val_one, abs_one]; exact p14
  obtain ⟨fn, herr⟩ := norm2_wide _ hv3 ⟨m1, m2, m3⟩
  have hS1 : 1 ≤ (ofV (V3.mk x y F64.one)).norm2 := by
    unfold R3.norm2 ofV
    simp only [val_one]
    nlinarith [sq_nonneg (val x), sq_nonneg (val y)]
  have hn2 : 1 / 4 ≤ val (V3.mk x y F64.one).norm2 := by
    have hρ := rhoU_le3
    have hρ2 : rhoU uR ≤ 1 / 2 := le_trans hρ (by unfold uR; norm_num)
    have h1 := mul_le_mul_of_nonneg_right hρ2 (le_trans (by norm_num) hS1 : (0 : ℝ) ≤ _)
    have h2 := four_eR_le_u
    have h3 : uR / 1000 ≤ 1 / 4 := by unfold uR; norm_num
    have hb := abs_le.mp herr
    linarith
  have hlo : 1 / 2 ^ 1022 ≤ val (V3.mk x y F64.one).norm2 :=
    le_trans (one_div_le_one_div_of_le (by norm_num)
      (le_trans (by norm_num : (4 : ℝ) ≤ 2 ^ 2) (pow_le_pow_right₀ (by norm_num) (by norm_num)))) hn2
  have hfeq : F64.feq (V3.mk x y F64.one).norm2 (F64.zero false) = false := by
    cases h : F64.feq (V3.mk x y F64.one).norm2 (F64.zero false)
    · rfl
    · exfalso
      have h1 := (feq_iff fn (zero_val false).1).1 h
      have h2 := (val_eq_iff _ _).2 h1
      rw [val_zero] at h2
      linarith
  rw [pointFromCoords_eq x y hfeq]
  obtain ⟨_, _, fq, hn512, _, s, ν, hs0, hsn, heq, hν⟩ := scaleSpec _ hv3 m1 m2 m3 hlo
  have hVpos : 0 < (ofV (V3.mk x y F64.one)).norm := lt_of_lt_of_le (by positivity) hn512
  obtain ⟨hVh, hQ⟩ := unit_close hVpos hs0 hsn hν
  rw [← heq, ← vhat_eq] at hQ
  rw [← vhat_eq] at hVh
  generalize (V3.mk x y F64.one).mul (F64.one / F64.sqrt (V3.mk x y F64.one).norm2) = q at fq hQ ⊢
  generalize vhat (val x) (val y) = Vh at hVh hQ ⊢
  clear heq hν hsn hs0 hlo hfeq hn2 herr hn512 hVpos
  -- sizes
  have hε : (9 + 1 / 1000) * uR ≤ 1 / 2 := by unfold uR; norm_num
  have hQn : (ofV q).norm ≤ 2 := by
    have := R3.norm_le_add_sub (ofV q) Vh
    linarith
  have hTn : (ofV t).norm ≤ 2 := by
    apply R3.norm_le_of_sq (by norm_num)
    have : (1 : ℝ) + 1 / 2 ^ 20 ≤ 2 ^ 2 := by norm_num
    linarith
  obtain ⟨q1, q2, q3⟩ := R3.abs_comp_le_norm (ofV q)
  obtain ⟨t1, t2, t3⟩ := R3.abs_comp_le_norm (ofV t)
  obtain ⟨ft1, ft2, ft3⟩ := ht
  obtain ⟨fq1, fq2, fq3⟩ := fq
  have d1 : |val t.x - val q.x| ≤ 4 := by
    have := abs_sub (val t.x) (val q.x)
    have a1 : |val t.x| ≤ 2 := le_trans t1 hTn
    have a2 : |val q.x| ≤ 2 := le_trans q1 hQn
    linarith
  have d2 : |val t.y - val q.y| ≤ 4 := by
    have := abs_sub (val t.y) (val q.y)
    have a1 : |val t.y| ≤ 2 := le_trans t2 hTn
    have a2 : |val q.y| ≤ 2 := le_trans q2 hQn
    linarith
  have d3 : |val t.z - val q.z| ≤ 4 := by
    have := abs_sub (val t.z) (val q.z)
    have a1 : |val t.z| ≤ 2 := le_trans t3 hTn
    have a2 : |val q.z| ≤ 2 := le_trans q3 hQn
    linarith
  obtain ⟨fd1, rd1, gd1⟩ := sub_step H ft1 fq1 d1 (by norm_num)
  obtain ⟨fd2, rd2, gd2⟩ := sub_step H ft2 fq2 d2 (by norm_num)
  obtain ⟨fd3, rd3, gd3⟩ := sub_step H ft3 fq3 d3 (by norm_num)
  have fD : Fin3 (t.sub q) := ⟨fd1, fd2, fd3⟩
  have p9 : (2 : ℝ) * 4 + 1 ≤ 2 ^ 14 := by norm_num
  have mD : |val (t.sub q).x| ≤ 2 ^ 14 ∧ |val (t.sub q).y| ≤ 2 ^ 14 ∧ |val (t.sub q).z| ≤ 2 ^ 14 :=
    ⟨le_trans gd1 p9, le_trans gd2 p9, le_trans gd3 p9⟩
  obtain ⟨fN, hN⟩ := norm2_wide _ fD mD
  have hN0 := norm2_val_nonneg _ fD mD
  -- the rounding errors of the three subtractions as a vector
  have hD : (R3.sub (ofV (t.sub q)) (R3.sub (ofV t) (ofV q))).norm
      ≤ uR * (R3.sub (ofV t) (ofV q)).norm := by
    have h := R3.norm_le_of_comp (v := R3.sub (ofV (t.sub q)) (R3.sub (ofV t) (ofV q)))
      (p := R3.sub (ofV t) (ofV q)) (q := R3.zero) (α := uR) (β := 0) (γ := 0) hu0 (le_refl _) (le_refl _)
      (by have := rd1; unfold Rnd at this; simpa [R3.sub, ofV, V3.sub, R3.zero] using this)
      (by have := rd2; unfold Rnd at this; simpa [R3.sub, ofV, V3.sub, R3.zero] using this)
      (by have := rd3; unfold Rnd at this; simpa [R3.sub, ofV, V3.sub, R3.zero] using this)
    linarith
  have hcore := vec_core hVh bt hQ hD hN
  -- the clamp
  obtain ⟨fR, vR⟩ := fmin_fin fin_four fN
  unfold chordAngleBetweenPoints
  rw [vR, val_four]
  refine ⟨fR, le_trans (min_lip 4 _ _) hcore, le_min (by norm_num) hN0, min_le_left _ _⟩

end VertexErr

open VertexErr

/-- absolute error bound of `vertexChordDist2` (proved: `57·u`, u = 2^-53) -/
noncomputable def vertErr : ℝ := 57 * uR

theorem vertErr_nonneg : 0 ≤ vertErr := mul_nonneg (by norm_num) uR_nonneg

theorem vertErr_le : vertErr ≤ 64 * uR := by
  unfold vertErr; have := uR_nonneg; linarith

/-- `ChordAngleBetweenPoints(t, PointFromCoords(x, y, 1))` is finite and within `vertErr` of
    `min 4 |t − V̂(x,y)|²` -/
theorem vertexChord_err (t : V3) (x y : F64) (ht : Fin3 t) (hx : Fin x) (hy : Fin y)
    (bx : |val x| ≤ 1) (by' : |val y| ≤ 1) (bt : (ofV t).norm2 ≤ 1 + 1 / 2 ^ 20) :
    Fin (chordAngleBetweenPoints t (pointFromCoords x y F64.one)) ∧
    |val (chordAngleBetweenPoints t (pointFromCoords x y F64.one))
        - min 4 (dist2 (ofV t) (vhat (val x) (val y)))| ≤ vertErr := by
  obtain ⟨h1, h2, _, _⟩ := vertexChord_full t x y ht hx hy bx by' bt
  exact ⟨h1, h2⟩

/-- … and lies in `[0, 4]` -/
theorem vertexChord_range (t : V3) (x y : F64) (ht : Fin3 t) (hx : Fin x) (hy : Fin y)
    (bx : |val x| ≤ 1) (by' : |val y| ≤ 1) (bt : (ofV t).norm2 ≤ 1 + 1 / 2 ^ 20) :
    0 ≤ val (chordAngleBetweenPoints t (pointFromCoords x y F64.one)) ∧
    val (chordAngleBetweenPoints t (pointFromCoords x y F64.one)) ≤ 4 := by
  obtain ⟨_, _, h3, h4⟩ := vertexChord_full t x y ht hx hy bx by' bt
  exact ⟨h3, h4⟩

/-- non-vacuity of the hypotheses: `t = (1,0,0)`, `x = y = 1` -/
example : ∃ (t : V3) (x y : F64), Fin3 t ∧ Fin x ∧ Fin y ∧ |val x| ≤ 1 ∧ |val y| ≤ 1 ∧
    (ofV t).norm2 ≤ 1 + 1 / 2 ^ 20 := by
  refine ⟨⟨F64.one, F64.zero false, F64.zero false⟩, F64.one, F64.one,
    ⟨fin_one, (zero_val false).1, (zero_val false).1⟩, fin_one, fin_one, ?_, ?_, ?_⟩
  · rw [val_one, abs_one]
  · rw [val_one, abs_one]
  · unfold R3.norm2 ofV
    simp only [val_one, VertexErr.val_zero]
    norm_num

/-- the same for the cell function: the four bounds of `c.uv` finite and in `[-1,1]` -/
theorem vertexChordDist2_err (c : Cell) (t : V3) (xHi yHi : Bool) (ht : Fin3 t)
    (fu0 : Fin c.uv.1.1) (fu1 : Fin c.uv.1.2) (fv0 : Fin c.uv.2.1) (fv1 : Fin c.uv.2.2)
    (bu0 : |(rectOf c).u0| ≤ 1) (bu1 : |(rectOf c).u1| ≤ 1)
    (bv0 : |(rectOf c).v0| ≤ 1) (bv1 : |(rectOf c).v1| ≤ 1)
    (bt : (ofV t).norm2 ≤ 1 + 1 / 2 ^ 20) :
    Fin (vertexChordDist2 c t xHi yHi) ∧
    |val (vertexChordDist2 c t xHi yHi)
        - min 4 (dist2 (ofV t) (vhat (if xHi then (rectOf c).u1 else (rectOf c).u0)
                                      (if yHi then (rectOf c).v1 else (rectOf c).v0)))| ≤ vertErr := by
  unfold rectOf at *
  unfold vertexChordDist2
  cases xHi <;> cases yHi <;> simp only [Bool.false_eq_true, if_false, if_true]
  · exact vertexChord_err t _ _ ht fu0 fv0 bu0 bv0 bt
  · exact vertexChord_err t _ _ ht fu0 fv1 bu0 bv1 bt
  · exact vertexChord_err t _ _ ht fu1 fv0 bu1 bv0 bt
  · exact vertexChord_err t _ _ ht fu1 fv1 bu1 bv1 bt

theorem vertexChordDist2_range (c : Cell) (t : V3) (xHi yHi : Bool) (ht : Fin3 t)
    (fu0 : Fin c.uv.1.1) (fu1 : Fin c.uv.1.2) (fv0 : Fin c.uv.2.1) (fv1 : Fin c.uv.2.2)
    (bu0 : |(rectOf c).u0| ≤ 1) (bu1 : |(rectOf c).u1| ≤ 1)
    (bv0 : |(rectOf c).v0| ≤ 1) (bv1 : |(rectOf c).v1| ≤ 1)
    (bt : (ofV t).norm2 ≤ 1 + 1 / 2 ^ 20) :
    0 ≤ val (vertexChordDist2 c t xHi yHi) ∧ val (vertexChordDist2 c t xHi yHi) ≤ 4 := by
  unfold rectOf at *
  unfold vertexChordDist2
  cases xHi <;> cases yHi <;> simp only [Bool.false_eq_true, if_false, if_true]
  · exact vertexChord_range t _ _ ht fu0 fv0 bu0 bv0 bt
  · exact vertexChord_range t _ _ ht fu0 fv1 bu0 bv1 bt
  · exact vertexChord_range t _ _ ht fu1 fv0 bu1 bv0 bt
  · exact vertexChord_range t _ _ ht fu1 fv1 bu1 bv1 bt

end S2Proofs.C12Dist
